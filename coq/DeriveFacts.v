(** Facts about the derive model: on accepted items the type the derived code
    implements ([derive_ty]) is the documented one ([documented_sem]); the [init]
    hook runs exactly once on success and never on failure; the emitted
    if-else chain of [deserialize_variant] is the model's [dec] of the sum. *)
From Coq Require Import String.
From Coq Require Import List ZArith NArith Bool Lia Arith.
From Borsh Require Import Bytes BytesFacts Result Ty Ser De Discr DiscrFacts EvalFacts Item DeriveCheck Derive.
Import ListNotations.

(** * The checker's plumbing *)
Lemma andthen_None (a b : res) : DeriveCheck.andthen a b = None -> a = None /\ b = None.
Proof. destruct a; simpl; [discriminate|auto]. Qed.

Lemma first_err_None {A} (f : A -> res) l :
  first_err f l = None -> forall x, In x l -> f x = None.
Proof.
  induction l as [|y l IH]; simpl; intros H x HI; [contradiction|].
  destruct (f y) eqn:E; [discriminate|].
  destruct HI as [<-|HI]; [exact E|apply IH; assumption].
Qed.

Lemma check_accept k it : check k it = accept -> check_res k it = None.
Proof. unfold check. destruct (check_res k it); [discriminate|reflexivity]. Qed.

Lemma get_one_concat {M} (a : attrs M) : get_one a = None -> concat a = first_attr a.
Proof.
  unfold get_one. destruct a as [|m [|m' r]]; simpl; intro H.
  - reflexivity.
  - apply app_nil_r.
  - discriminate.
Qed.

Lemma field_attrs_err_get_one a : field_attrs_err a = None -> get_one a = None.
Proof. unfold field_attrs_err. intro H. apply andthen_None in H. tauto. Qed.

Lemma field_attrs_err_check a :
  field_attrs_err a = None -> fattr_check (field_attr_of (first_attr a)) = None.
Proof.
  unfold field_attrs_err. intro H.
  apply andthen_None in H. destruct H as [_ H]. apply andthen_None in H. tauto.
Qed.

Lemma fields_err_each fs :
  fields_err fs = None -> forall f, In f (fields_list fs) -> field_attrs_err (f_attrs f) = None.
Proof. unfold fields_err. intros H f HI. exact (first_err_None _ _ H f HI). Qed.

Lemma fields_err_get_one fs :
  fields_err fs = None -> forall f, In f (fields_list fs) -> get_one (f_attrs f) = None.
Proof. intros H f HI. apply field_attrs_err_get_one. exact (fields_err_each fs H f HI). Qed.

Lemma field_metas_first f : get_one (f_attrs f) = None -> field_metas f = first_attr (f_attrs f).
Proof. apply get_one_concat. Qed.

Lemma fields_err_parsed_check fs :
  fields_err fs = None -> forall f, In f (fields_list fs) -> fattr_check (parsed f) = None.
Proof. intros H f HI. apply field_attrs_err_check. exact (fields_err_each fs H f HI). Qed.

(** * Field attributes: the slots of [Attributes] against the documented reading *)
Lemma fold_skip ms : forall a,
  fa_skip (fold_left field_meta_apply ms a) = fa_skip a || existsb is_skip ms.
Proof.
  induction ms as [|m ms IH]; intro a; simpl.
  - symmetry. apply orb_false_r.
  - rewrite IH. destruct m; simpl; try reflexivity.
    destruct (fa_skip a); reflexivity.
Qed.

Lemma fold_ser_with ms : forall a,
  fa_ser_with (fold_left field_meta_apply ms a) =
  fold_left (fun acc m => match m with FSerializeWith _ t => Some t | _ => acc end) ms (fa_ser_with a).
Proof.
  induction ms as [|m ms IH]; intro a; simpl; [reflexivity|].
  rewrite IH. destruct m; reflexivity.
Qed.

Lemma fold_de_with ms : forall a,
  fa_de_with (fold_left field_meta_apply ms a) =
  fold_left (fun acc m => match m with FDeserializeWith _ t => Some t | _ => acc end) ms (fa_de_with a).
Proof.
  induction ms as [|m ms IH]; intro a; simpl; [reflexivity|].
  rewrite IH. destruct m; reflexivity.
Qed.

Lemma parsed_skip f : get_one (f_attrs f) = None -> fa_skip (parsed f) = doc_skipped f.
Proof.
  intro H. unfold parsed, field_attr_of, doc_skipped. rewrite (field_metas_first f H).
  rewrite fold_skip. reflexivity.
Qed.

Lemma parsed_ser_with f : get_one (f_attrs f) = None -> fa_ser_with (parsed f) = doc_with DSer f.
Proof.
  intro H. unfold parsed, field_attr_of, doc_with. rewrite (field_metas_first f H).
  rewrite fold_ser_with. reflexivity.
Qed.

Lemma parsed_de_with f : get_one (f_attrs f) = None -> fa_de_with (parsed f) = doc_with DDe f.
Proof.
  intro H. unfold parsed, field_attr_of, doc_with. rewrite (field_metas_first f H).
  rewrite fold_de_with. reflexivity.
Qed.

Lemma field_ty_doc k f :
  k <> DSchema -> get_one (f_attrs f) = None -> field_ty k f = doc_field_ty k f.
Proof.
  intros K H. unfold doc_field_ty.
  destruct k; [| |contradiction K; reflexivity]; simpl.
  - unfold ser_field_ty. cbv zeta. rewrite (parsed_skip f H), (parsed_ser_with f H).
    destruct (doc_with DSer f), (doc_skipped f); reflexivity.
  - unfold de_field_ty. cbv zeta. rewrite (parsed_skip f H), (parsed_de_with f H).
    destruct (doc_with DDe f), (doc_skipped f); reflexivity.
Qed.

(** * The field walk against the documented field list *)
Lemma walk_names k fs : map (fun x => fst (fst x)) (walk k fs) = map f_name fs.
Proof. induction fs as [|f fs IH]; simpl; [reflexivity|]. rewrite IH. reflexivity. Qed.

Lemma walk_skips k fs :
  (forall f, In f fs -> get_one (f_attrs f) = None) ->
  map (fun x => snd (fst x)) (walk k fs) = map doc_skipped fs.
Proof.
  induction fs as [|f fs IH]; simpl; intro H; [reflexivity|].
  rewrite IH by (intros g HG; apply H; right; exact HG).
  rewrite (parsed_skip f) by (apply H; left; reflexivity). reflexivity.
Qed.

Lemma walk_tys k fs :
  k <> DSchema -> (forall f, In f fs -> get_one (f_attrs f) = None) ->
  map snd (walk k fs) = map (doc_field_ty k) fs.
Proof.
  intro K. induction fs as [|f fs IH]; simpl; intro H; [reflexivity|].
  rewrite IH by (intros g HG; apply H; right; exact HG).
  rewrite (field_ty_doc k f K) by (apply H; left; reflexivity). reflexivity.
Qed.

Lemma walk_doc k mk fs :
  k <> DSchema -> (forall f, In f fs -> get_one (f_attrs f) = None) ->
  prod_of mk (walk k fs) = doc_fields k mk fs.
Proof.
  intros K H. unfold prod_of, doc_fields.
  rewrite walk_names, (walk_skips k fs H), (walk_tys k fs K H). reflexivity.
Qed.

(** * C06, structs *)
Theorem derive_struct_documented k it fs t :
  k <> DSchema -> it_body it = BStruct fs -> check k it = accept ->
  derive_ty k it = DOk t -> t = documented_sem k it.
Proof.
  intros K B C D. apply check_accept in C. unfold check_res in C. rewrite B in C.
  apply andthen_None in C. destruct C as [_ C]. apply andthen_None in C. destruct C as [_ C].
  apply andthen_None in C. destruct C as [FE _].
  unfold derive_ty in D. rewrite B in D. unfold documented_sem. rewrite B.
  rewrite (walk_doc k _ _ K (fields_err_get_one fs FE)) in D.
  destruct k; [| |contradiction K; reflexivity]; inversion D; reflexivity.
Qed.

(** * Enums: payloads *)
Lemma variants_err_fields k : forall vs idx,
  variants_err k idx vs = None -> forall v, In v vs -> fields_err (v_fields v) = None.
Proof.
  induction vs as [|w vs IH]; simpl; intros idx H v HI; [contradiction|].
  apply andthen_None in H. destruct H as [H1 H2].
  destruct HI as [<-|HI]; [|exact (IH _ H2 v HI)].
  destruct k; apply andthen_None in H1; tauto.
Qed.

Lemma payloads_doc k vs :
  k <> DSchema -> (forall v, In v vs -> fields_err (v_fields v) = None) ->
  map (variant_payload k) vs = map (fun v => doc_fields k PVariant (fields_list (v_fields v))) vs.
Proof.
  intros K H. apply map_ext_in. intros v HI. unfold variant_payload.
  apply walk_doc; [exact K|]. apply fields_err_get_one. exact (H v HI).
Qed.

(** * Enums: the item-level setting *)
Lemma item_metas_first it : get_one (it_attrs it) = None -> item_metas it = first_attr (it_attrs it).
Proof. apply get_one_concat. Qed.

Lemma setting_first it :
  get_one (it_attrs it) = None -> setting it = use_discr_setting (first_attr (it_attrs it)).
Proof. intro H. unfold setting. rewrite (item_metas_first it H). reflexivity. Qed.

Lemma use_discriminant_setting it :
  get_one (it_attrs it) = None ->
  use_discriminant it = match setting it with Some b => b | None => false end.
Proof. intro H. rewrite (setting_first it H). reflexivity. Qed.

(** * Enums: tags *)
Lemma ordinals_seq : forall n a, ordinals (N.of_nat a) n = map N.of_nat (seq a n).
Proof.
  induction n as [|n IH]; intro a; simpl; [reflexivity|].
  rewrite <- Nat2N.inj_succ, IH. reflexivity.
Qed.

Lemma ordinals_seq0 n : ordinals 0 n = map N.of_nat (seq 0 n).
Proof. exact (ordinals_seq n 0). Qed.

Definition tag_of_opt (o : option Z) : N := match o with Some z => Z.to_N z | None => 0%N end.

Lemma tags_of_tokens_ok : forall tss i tags,
  tags_of_tokens i tss = DOk tags ->
  tags = map (fun ts => tag_of_opt (tag_eval false U8 ts)) tss /\
  forall ts, In ts tss -> tag_eval false U8 ts <> None.
Proof.
  induction tss as [|ts tss IH]; simpl; intros i tags H.
  - inversion H. split; [reflexivity|intros ? []].
  - destruct (tag_eval false U8 ts) as [z|] eqn:E; [|discriminate].
    destruct (tags_of_tokens (S i) tss) as [l|e] eqn:E2; [|discriminate].
    inversion H; subst tags. destruct (IH _ _ E2) as [-> HN].
    split; [reflexivity|].
    intros ts' [<-|HI]; [congruence|exact (HN ts' HI)].
Qed.

Lemma rust_discrs_from_length t : forall ds next, length (rust_discrs_from t next ds) = length ds.
Proof. induction ds as [|d ds IH]; intro next; simpl; [reflexivity|]. rewrite IH. reflexivity. Qed.
Lemma rust_discrs_length t ds : length (rust_discrs t ds) = length ds.
Proof. apply rust_discrs_from_length. Qed.

Lemma map_seq_nth {A} (d : A) : forall l, l = map (fun i => nth i l d) (seq 0 (length l)).
Proof.
  induction l as [|x l IH]; simpl; [reflexivity|].
  f_equal. rewrite <- seq_shift, map_map. exact IH.
Qed.

(** the tags under [use_discriminant = true] are the [u8] reading of the language rule *)
Lemma tags_true_u8 ds tags :
  forallb canonical_opt ds = true ->
  tags_of_tokens 0 (derive_discrs ds) = DOk tags ->
  tags = map tag_of_opt (rust_discrs U8 ds) /\
  forall o, In o (rust_discrs U8 ds) -> o <> None.
Proof.
  intros C H. destruct (tags_of_tokens_ok _ _ _ H) as [-> HN].
  rewrite <- (derive_discrs_correct U8 ds C). split.
  - rewrite map_map. reflexivity.
  - intros o HI. apply in_map_iff in HI. destruct HI as [ts [<- HI]]. exact (HN ts HI).
Qed.

(** what is needed from constant evaluation: a discriminant that has a [u8] value has the
    same [isize] value *)
Definition stable_opt (d : option expr) : bool :=
  match d with Some e => stable e | None => true end.

Lemma tags_true_doc ds tags :
  (forall i z, nth i (rust_discrs U8 ds) None = Some z -> nth i (rust_discrs ISize ds) None = Some z) ->
  forallb canonical_opt ds = true ->
  tags_of_tokens 0 (derive_discrs ds) = DOk tags ->
  tags = map (fun i => tag_of_opt (rust_discr ds i)) (seq 0 (length ds)).
Proof.
  intros AG C H. destruct (tags_true_u8 ds tags C H) as [-> HN].
  rewrite (map_seq_nth None (rust_discrs U8 ds)) at 1.
  rewrite map_map, rust_discrs_length. apply map_ext_in. intros i HI.
  apply in_seq in HI. unfold rust_discr.
  destruct (nth i (rust_discrs U8 ds) None) as [z|] eqn:E.
  - rewrite (AG i z E). reflexivity.
  - exfalso. apply (HN None); [|reflexivity]. rewrite <- E. apply nth_In.
    rewrite rust_discrs_length. lia.
Qed.

Lemma discrs_canonical_opt it vs :
  it_body it = BEnum vs -> discrs_canonical it = true -> forallb canonical_opt (map v_discr vs) = true.
Proof.
  intros B H. unfold discrs_canonical, variants_of in H. rewrite B in H.
  rewrite forallb_forall in *. intros d HI. apply in_map_iff in HI. destruct HI as [v [<- HI]].
  exact (H v HI).
Qed.

Lemma existsb_false {A} (p : A -> bool) l :
  existsb p l = false -> forall x, In x l -> p x = false.
Proof.
  induction l as [|y l IH]; simpl; intros H x HI; [contradiction|].
  apply orb_false_elim in H. destruct H as [H1 H2].
  destruct HI as [<-|HI]; [exact H1|exact (IH H2 x HI)].
Qed.

Lemma type_dependent_stable it vs :
  it_body it = BEnum vs -> setting it = Some true -> type_dependent_discr it = false ->
  forallb stable_opt (map v_discr vs) = true.
Proof.
  intros B S H. unfold type_dependent_discr, variants_of in H. rewrite S, B in H.
  rewrite forallb_forall. intros d HI. apply in_map_iff in HI. destruct HI as [v [<- HI]].
  pose proof (existsb_false _ _ H v HI) as E. cbv beta in E.
  unfold stable_opt. destruct (v_discr v) as [e|]; [|reflexivity].
  apply negb_false_iff in E. exact E.
Qed.

(** * C06, enums, relative to the agreement of the [u8] and [isize] readings *)
Lemma doc_tags_ordinal it vs :
  setting it <> Some true ->
  map (doc_tag it vs) (seq 0 (length vs)) = ordinals 0 (length vs).
Proof.
  intro S. rewrite ordinals_seq0. apply map_ext. intro i. unfold doc_tag.
  destruct (setting it) as [[|]|]; [contradiction S; reflexivity|reflexivity|reflexivity].
Qed.

Lemma doc_tags_discr it vs :
  setting it = Some true ->
  map (doc_tag it vs) (seq 0 (length vs)) =
  map (fun i => tag_of_opt (rust_discr (map v_discr vs) i)) (seq 0 (length (map v_discr vs))).
Proof.
  intro S. rewrite map_length. apply map_ext. intro i. unfold doc_tag. rewrite S. reflexivity.
Qed.

Lemma derive_enum_documented_gen k it vs t :
  (setting it = Some true ->
   forall i z, nth i (rust_discrs U8 (map v_discr vs)) None = Some z ->
               nth i (rust_discrs ISize (map v_discr vs)) None = Some z) ->
  k <> DSchema -> it_body it = BEnum vs -> discrs_canonical it = true ->
  check k it = accept -> derive_ty k it = DOk t -> t = documented_sem k it.
Proof.
  intros AG K B DC C D. apply check_accept in C. unfold check_res in C. rewrite B in C.
  apply andthen_None in C. destruct C as [CA C].
  unfold check_attributes in CA. apply andthen_None in CA. destruct CA as [G1 _].
  apply andthen_None in C. destruct C as [_ C].
  apply andthen_None in C. destruct C as [_ C].
  apply andthen_None in C. destruct C as [VE _].
  assert (TAGS : forall tags, derive_tags it vs = DOk tags ->
                 tags = map (doc_tag it vs) (seq 0 (length vs))).
  { intros tags HT. unfold derive_tags in HT. rewrite (use_discriminant_setting it G1) in HT.
    destruct (setting it) as [[|]|] eqn:S.
    - rewrite (doc_tags_discr it vs S).
      apply tags_true_doc; [apply AG; reflexivity|exact (discrs_canonical_opt it vs B DC)|exact HT].
    - inversion HT. symmetry. apply doc_tags_ordinal. rewrite S. discriminate.
    - inversion HT. symmetry. apply doc_tags_ordinal. rewrite S. discriminate. }
  unfold documented_sem. rewrite B.
  rewrite <- (payloads_doc k vs K (variants_err_fields k vs 0 VE)).
  unfold derive_ty in D. rewrite B in D.
  destruct (derive_tags it vs) as [tags|e] eqn:DT.
  - rewrite <- (TAGS tags eq_refl).
    destruct k; [| |contradiction K; reflexivity]; inversion D; reflexivity.
  - destruct k; discriminate.
Qed.

(** * C06_init_once *)
Lemma with_init_count hook it r r' n :
  with_init hook it r = (r', n) ->
  (is_ok r' = true -> n = match init_of it with Some _ => 1 | None => 0 end) /\
  (is_ok r' = false -> n = 0).
Proof.
  unfold with_init. destruct r as [[v rest]|kd m|w]; [destruct (init_of it)| |];
    intro H; inversion H; subst; simpl; split; intro; try reflexivity; discriminate.
Qed.

Theorem init_once c hook it t bs r n :
  derived_deserialize_reader c hook it t bs = (r, n) ->
  (is_ok r = true -> n = match init_of it with Some _ => 1 | None => 0 end) /\
  (is_ok r = false -> n = 0).
Proof.
  assert (FAIL : forall (r0 : result (val * bytes)), is_ok r0 = false -> (r0, 0) = (r, n) ->
            (is_ok r = true -> n = match init_of it with Some _ => 1 | None => 0 end) /\
            (is_ok r = false -> n = 0)).
  { intros r0 F E. inversion E; subst. split; intro; [congruence|reflexivity]. }
  unfold derived_deserialize_reader, struct_deserialize_reader, enum_deserialize_reader, deserialize_variant.
  destruct (it_body it); try apply with_init_count.
  destruct (dec_slice c (TPrim (PInt false W1)) bs) as [[v rest]|kd m|w];
    [|apply FAIL; reflexivity|apply FAIL; reflexivity].
  destruct v; try (apply FAIL; reflexivity).
  destruct t; try (apply FAIL; reflexivity).
  destruct k; try (apply FAIL; reflexivity).
  apply with_init_count.
Qed.

(** * C06, enums whose explicit discriminants do not depend on the integer type *)
Theorem derive_enum_documented_partial k it vs t :
  k <> DSchema -> it_body it = BEnum vs -> discrs_canonical it = true ->
  type_dependent_discr it = false ->
  check k it = accept -> derive_ty k it = DOk t -> t = documented_sem k it.
Proof.
  intros K B DC TD. apply (derive_enum_documented_gen k it vs t); try assumption.
  intro S. apply rust_discrs_agree. exact (type_dependent_stable it vs B S TD).
Qed.

(** * [deserialize_variant]: the if-else chain is [dec] of the sum *)
Lemma find_tag_ge : forall tags b i j, find_tag tags b i = Some j -> (i <= j)%N.
Proof.
  induction tags as [|t tr IH]; simpl; intros b i j H; [discriminate|].
  destruct (t =? b)%N.
  - inversion H. lia.
  - apply IH in H. lia.
Qed.

Lemma nth_or_nil {A R} (f : A -> R) d n : nth_or f d [] n = d.
Proof. destruct n; reflexivity. Qed.

Lemma variant_chain_spec c tag bs : forall tags vs i,
  variant_chain c tag i tags vs bs =
  match find_tag tags tag i with
  | None => Err InvalidData (MBadVariant tag)
  | Some j =>
      '(v, rest) <- nth_or (fun t' => dec slice_reader c t' bs) (Err InvalidData (MBadVariant tag))
                           vs (N.to_nat j - N.to_nat i) ;;
      Ok (VV j v, rest)
  end.
Proof.
  induction tags as [|t tr IH]; intros vs i; [destruct vs; reflexivity|].
  destruct vs as [|p pr].
  - simpl. destruct (t =? tag)%N; [reflexivity|].
    destruct (find_tag tr tag (N.succ i)); reflexivity.
  - simpl variant_chain. simpl find_tag. destruct (t =? tag)%N.
    + rewrite Nat.sub_diag. reflexivity.
    + rewrite IH. destruct (find_tag tr tag (N.succ i)) as [j|] eqn:E; [|reflexivity].
      apply find_tag_ge in E.
      replace (N.to_nat j - N.to_nat i) with (S (N.to_nat j - N.to_nat (N.succ i))) by lia.
      reflexivity.
Qed.

Lemma take_one (b : byte) (r : bytes) : take 1 (b :: r) = Some ([b], r).
Proof. destruct r; reflexivity. Qed.

Lemma read_u8_cons (b : byte) (r : bytes) : read_u8 slice_reader (b :: r) = Ok (b2n b, r).
Proof.
  unfold read_u8, read_mapped. simpl. rewrite take_one. simpl. rewrite N.add_0_r. reflexivity.
Qed.

Lemma dec_u8_cons c b r : dec_slice c (TPrim (PInt false W1)) (b :: r) = Ok (VN (b2n b), r).
Proof.
  unfold dec_slice. simpl. unfold read_mapped. simpl.
  rewrite take_one. simpl. rewrite N.add_0_r. reflexivity.
Qed.

Lemma dec_u8_nil c : dec_slice c (TPrim (PInt false W1)) [] = Err InvalidData MUnexpectedLength.
Proof. reflexivity. Qed.

Theorem deserialize_variant_tag c hook it name vn tags vs b r :
  deserialize_variant c hook it (TSum (KEnum name vn tags) vs) r (b2n b) =
  enum_deserialize_reader c hook it (TSum (KEnum name vn tags) vs) (b :: r).
Proof. unfold enum_deserialize_reader. rewrite dec_u8_cons. reflexivity. Qed.

Theorem enum_deserialize_reader_dec c hook it name vn tags vs bs :
  enum_deserialize_reader c hook it (TSum (KEnum name vn tags) vs) bs =
  with_init hook it (dec_slice c (TSum (KEnum name vn tags) vs) bs).
Proof.
  destruct bs as [|b r].
  - reflexivity.
  - rewrite <- deserialize_variant_tag. unfold deserialize_variant. f_equal.
    rewrite variant_chain_spec. unfold dec_slice. simpl. rewrite read_u8_cons. simpl.
    destruct (find_tag tags (b2n b) 0) as [j|]; [|reflexivity].
    rewrite Nat.sub_0_r. reflexivity.
Qed.

(** * The hook on the VALUE: what the emitted decoder returns is the decoded value with the hook
    applied exactly once (not at all for an item without [init]); same through [deserialize_variant] *)
Definition hooked (hook : string -> val -> val) (it : item) (v : val) : val :=
  match init_of it with Some h => hook h v | None => v end.

Lemma with_init_value hook it r v rest n :
  with_init hook it r = (Ok (v, rest), n) ->
  exists v0, r = Ok (v0, rest) /\ v = hooked hook it v0.
Proof.
  unfold with_init, hooked. destruct r as [[v0 rest0]|k m|w]; try discriminate.
  destruct (init_of it); intro H; inversion H; subst; eexists; split; reflexivity.
Qed.

Theorem init_on_value c hook it t bs v rest n :
  (forall vs0, it_body it = BEnum vs0 -> exists name vn tags vs, t = TSum (KEnum name vn tags) vs) ->
  derived_deserialize_reader c hook it t bs = (Ok (v, rest), n) ->
  exists v0, dec_slice c t bs = Ok (v0, rest) /\ v = hooked hook it v0.
Proof.
  intros SH. unfold derived_deserialize_reader, struct_deserialize_reader.
  destruct (it_body it) as [fs|vs0|fs] eqn:B; try apply with_init_value.
  destruct (SH vs0 eq_refl) as [name [vn [tags [vs ->]]]].
  rewrite enum_deserialize_reader_dec. apply with_init_value.
Qed.

Theorem variant_on_value c hook it name vn tags vs b r v rest n :
  deserialize_variant c hook it (TSum (KEnum name vn tags) vs) r (b2n b) = (Ok (v, rest), n) ->
  exists v0, dec_slice c (TSum (KEnum name vn tags) vs) (b :: r) = Ok (v0, rest) /\ v = hooked hook it v0.
Proof.
  rewrite deserialize_variant_tag, enum_deserialize_reader_dec. apply with_init_value.
Qed.

(** * The full-strength enum statement is false (F12): [#[borsh(use_discriminant = true)] enum E { A = !0 }].
    rustc gives [A] the discriminant [-1] ([!0] typed [isize]); the derived code writes the
    tag [255] ([!0] typed [u8]). *)
Definition F12_item : item :=
  {| it_name := "E"%string;
     it_attrs := [[{| im_key := IKUseDiscriminant; im_val := MVTrue |}]];
     it_body := BEnum [{| v_name := "A"%string; v_attrs := []; v_discr := Some (EUn Not (ELit User 0));
                          v_fields := FUnit |}] |}.

Theorem derive_enum_refuted :
  exists k it vs t,
    it_body it = BEnum vs /\ discrs_canonical it = true /\ check k it = accept /\
    derive_ty k it = DOk t /\ t <> documented_sem k it.
Proof.
  exists DSer, F12_item.
  eexists. eexists.
  split; [reflexivity|]. split; [reflexivity|]. split; [vm_compute; reflexivity|].
  split; [vm_compute; reflexivity|].
  intro H. vm_compute in H. discriminate H.
Qed.
