(** Writer side: what [write_all] delivers over any writer whose [write] obeys an
    abstract specification; [feed]/[to_writer] over such a [write_all]; the scheduled
    writer, the fixed buffer, the vector; [object_length]. *)
From Coq Require Import List NArith PArith Bool Lia.
From Borsh Require Import Bytes BytesFacts Result Loop LoopFacts Ty Ser De Entry Io IoProofsBase.
Import ListNotations.
Local Open Scope N_scope.

(** * Part 1: [write_all] over a specified [write] *)
Section WSpec.
  Context {W : Type}.
  Variable wsink : W -> bytes.
  Variable good : W -> Prop.
  Variable Ferr : W -> kind * msg -> Prop.      (* legitimate ways for the writer to stop *)

  (** What a [write_all] must do: deliver a prefix of the buffer, all of it exactly when
      it reports success; a failure is one of the writer's and leaves bytes undelivered. *)
  Definition wa_spec (wa : bytes -> W -> result (W * werr)) : Prop :=
    forall b w, good w ->
      exists w' e p q, wa b w = Ok (w', e) /\ b = p ++ q /\ wsink w' = wsink w ++ p /\
        match e with
        | None => q = [] /\ good w'
        | Some km => Ferr w' km /\ q <> []
        end.

  Section Loop.
    Variable wr : bytes -> W -> write_result * W.
    Variable budget : W -> N.
    Definition wr_spec : Prop := forall b w, good w -> b <> [] ->
      match wr b w with
      | (WCount n, w') => n <= len b /\ wsink w' = wsink w ++ firstn (N.to_nat n) b /\ budget w' <= budget w /\
                          (n = 0 -> Ferr w' (WriteZero, MWriteWhole)) /\ (n <> 0 -> good w')
      | (WIntr, w') => good w' /\ wsink w' = wsink w /\ budget w' < budget w
      | (WErr k m, w') => wsink w' = wsink w /\ Ferr w' (k, m)
      end.
    Hypothesis Hwr : wr_spec.

    Lemma drop_skipn n (b : bytes) : drop n b = skipn (N.to_nat n) b.
    Proof. unfold drop. now rewrite take_upto_spec. Qed.

    Lemma write_all_std_spec : wa_spec (write_all_std wr budget).
    Proof.
      intros b w Hg. unfold write_all_std.
      apply (loop_fuel_gen (wa_step_std wr)
               (fun st : bytes * W => let '(rem, w1) := st in
                  good w1 /\ exists p, b = p ++ rem /\ wsink w1 = wsink w ++ p)
               (fun st : bytes * W => let '(rem, w1) := st in len rem + budget w1)
               (fun r => exists w' e p q, r = Ok (w', e) /\ b = p ++ q /\ wsink w' = wsink w ++ p /\
                           match e with None => q = [] /\ good w' | Some km => Ferr w' km /\ q <> [] end)).
      - intros [rem w1] (G1 & p & Eb & Es). unfold wa_step_std.
        destruct rem as [|x rem]; cbn [lift_out].
        + exists w1, None, p, []. auto.
        + pose proof (Hwr (x :: rem) w1 G1 ltac:(discriminate)) as Hs.
          destruct (wr (x :: rem) w1) as [[n| |k m] w2].
          * destruct Hs as (Ln & Es2 & B2 & Hz & Hnz).
            destruct (N.eqb_spec n 0) as [->|Hn]; cbn [lift_out].
            -- exists w2, (Some (WriteZero, MWriteWhole)), p, (x :: rem). repeat split; auto.
               ++ rewrite Es2, Es. cbn. now rewrite app_nil_r.
               ++ discriminate.
            -- split.
               ++ split; [auto|]. exists (p ++ firstn (N.to_nat n) (x :: rem)). rewrite drop_skipn. split.
                  ** rewrite <- app_assoc, firstn_skipn. exact Eb.
                  ** rewrite Es2, Es. now rewrite app_assoc.
               ++ rewrite drop_skipn, !len_eq, skipn_length. rewrite len_eq in Ln. cbn [length] in *. lia.
          * cbn [lift_out]. destruct Hs as (G2 & Es2 & B2). split; [|lia]. split; [assumption|].
            exists p. split; [assumption|congruence].
          * cbn [lift_out]. destruct Hs as (Es2 & F2).
            exists w2, (Some (k, m)), p, (x :: rem). repeat split; auto; [congruence|discriminate].
      - split; [assumption|]. exists []. cbn. now rewrite app_nil_r.
      - lia.
    Qed.

    Lemma write_all_shim_spec : wa_spec (write_all_shim wr budget).
    Proof.
      intros b w Hg. rewrite <- write_all_std_shim. now apply write_all_std_spec.
    Qed.
  End Loop.

  (** * Part 2: the chunks of a serialization through a specified [write_all] *)
  Section Feed.
    Variable wa : bytes -> W -> result (W * werr).
    Hypothesis Hwa : wa_spec wa.

    Lemma feed_spec chunks : forall w, good w ->
      exists w' e p q, feed wa chunks w = Ok (w', e) /\ concat chunks = p ++ q /\ wsink w' = wsink w ++ p /\
        match e with None => q = [] /\ good w' | Some km => Ferr w' km /\ q <> [] end.
    Proof.
      induction chunks as [|c r IH]; intros w Hg; cbn [feed concat].
      - exists w, None, [], []. cbn. rewrite app_nil_r. auto.
      - destruct (Hwa c w Hg) as (w1 & e1 & p1 & q1 & E1 & Ec & Es1 & He1). rewrite E1. cbn [bind].
        destruct e1 as [km|].
        + destruct He1 as (F1 & Q1). exists w1, (Some km), p1, (q1 ++ concat r). repeat split; auto.
          * rewrite Ec. now rewrite app_assoc.
          * destruct q1; [contradiction|discriminate].
        + destruct He1 as (-> & G1). rewrite app_nil_r in Ec. subst c.
          destruct (IH w1 G1) as (w2 & e2 & p2 & q2 & E2 & Ec2 & Es2 & He2).
          exists w2, e2, (p1 ++ p2), q2. repeat split; auto.
          * rewrite Ec2. now rewrite app_assoc.
          * rewrite Es2, Es1. now rewrite app_assoc.
    Qed.

    (** [to_writer]: the sink receives a prefix [p] of the stream; on [None] all of it and
        the value encodes; an error is the serializer's own (after everything it produced
        was delivered) or one of the writer's (and then bytes are missing). *)
    Lemma to_writer_spec t v w : good w ->
      exists w' e p q, to_writer wa t v w = Ok (w', e) /\ stream t v = p ++ q /\ wsink w' = wsink w ++ p /\
        ((q = [] /\ good w' /\ e = snd (ser t v)) \/ (exists km, e = Some km /\ Ferr w' km /\ q <> [])).
    Proof.
      intros Hg. unfold to_writer, stream.
      destruct (feed_spec (fst (ser t v)) w Hg) as (w1 & e1 & p & q & E & Ec & Es & He).
      rewrite E. cbn [bind]. destruct e1 as [km|].
      - exists w1, (Some km), p, q. repeat split; auto. right. exists km. destruct He. auto.
      - destruct He as (-> & G1). exists w1, (snd (ser t v)), p, []. repeat split; auto.
    Qed.
  End Feed.
End WSpec.

Lemma enc_stream t v : snd (ser t v) = None -> enc t v = Ok (stream t v).
Proof. intros H. unfold enc, stream. now rewrite H. Qed.
Lemma enc_err t v k m : snd (ser t v) = Some (k, m) -> enc t v = Err k m.
Proof. intros H. unfold enc. now rewrite H. Qed.
Lemma enc_ok_stream t v bs : enc t v = Ok bs -> bs = stream t v /\ snd (ser t v) = None.
Proof.
  unfold enc, stream. destruct (snd (ser t v)) as [[k m]|]; [discriminate|].
  intros E; inversion E; auto.
Qed.

(** * Part 3: the scheduled writer *)
Definition wbenign_entry (r : wresp) : bool :=
  match r with
  | WAccept _ | WInterrupt => true
  | WFail Interrupted _ => true
  | WFail _ _ => false
  | Refuse => false
  end.
Definition wbenign (l : list wresp) : Prop := Forall (fun r => wbenign_entry r = true) l.

(** The error with which [write_all] stops at a non-benign entry. *)
Definition stop_err (r : wresp) : kind * msg :=
  match r with
  | WFail k m => (k, m)
  | _ => (WriteZero, MWriteWhole)
  end.

(** Most and fewest bytes a schedule prefix takes when every call offers at least one byte. *)
Fixpoint wcap (l : list wresp) : N :=
  match l with
  | [] => 0
  | WAccept k :: q => Npos k + wcap q
  | _ :: q => wcap q
  end.
Fixpoint wcnt (l : list wresp) : N :=
  match l with
  | [] => 0
  | WAccept _ :: q => 1 + wcnt q
  | _ :: q => wcnt q
  end.

(** Every schedule is a benign prefix followed by nothing or by its first stopping entry. *)
Lemma wsched_split (l : list wresp) :
  exists pre tl, l = pre ++ tl /\ wbenign pre /\
    match tl with [] => True | e :: _ => wbenign_entry e = false end.
Proof.
  induction l as [|e l (pre & tl & -> & B & T)].
  - exists [], []. repeat split; auto. constructor.
  - destruct (wbenign_entry e) eqn:Ee.
    + exists (e :: pre), tl. repeat split; auto. constructor; assumption.
    + exists [], (e :: pre ++ tl). repeat split; [constructor|assumption].
Qed.

Section SchedW.
  Variable tl : list wresp.
  Variable s0 : bytes.                 (* sink at the start *)
  Variable c0 n0 : N.                  (* [wcap] and [wcnt] of the benign prefix at the start *)
  Hypothesis Htl : match tl with [] => True | e :: _ => wbenign_entry e = false end.

  Definition swgood (st : wstate) : Prop :=
    exists pre, wsched st = pre ++ tl /\ wbenign pre /\
      (tl <> [] -> len (sink st) + wcap pre <= len s0 + c0 /\ len s0 + n0 <= len (sink st) + wcnt pre).
  Definition swferr (st : wstate) (km : kind * msg) : Prop :=
    match tl with
    | e :: post => km = stop_err e /\ wsched st = post /\
                   len (sink st) <= len s0 + c0 /\ len s0 + n0 <= len (sink st)
    | [] => False
    end.

  Lemma swrite_spec : wr_spec sink swgood swferr swrite swbudget.
  Proof.
    intros b [sk sch] (pre & Es & Bp & Hc) Hb. cbn [sink wsched] in *.
    unfold swrite, swbudget, swgood, swferr. cbn [sink wsched].
    assert (Lb : 0 < len b) by (destruct b; [contradiction|apply len_pos_cons]).
    destruct pre as [|e pre].
    - cbn [app] in Es. subst sch. destruct tl as [|e tl'] eqn:Etl.
      + cbn [sink wsched]. split; [lia|]. split.
        { rewrite len_eq, Nnat.Nat2N.id, firstn_all. reflexivity. }
        split; [lia|]. split; [intros; lia|]. intros _.
        exists []. split; [reflexivity|]. split; [constructor|]. intros Hne. congruence.
      + specialize (Hc ltac:(discriminate)). cbn [wcap wcnt] in Hc.
        assert (Hlen : len tl' <= len (e :: tl')) by (rewrite len_cons; lia).
        destruct e as [k| |k m|]; cbn in Htl; try discriminate.
        * destruct k; try discriminate; cbn [sink wsched stop_err];
            (split; [reflexivity|]); (split; [reflexivity|]); (split; [reflexivity|]); lia.
        * cbn [sink wsched stop_err]. split; [lia|]. split; [cbn; now rewrite app_nil_r|].
          split; [assumption|]. split; [|intros H; contradiction].
          intros _. split; [reflexivity|]. split; [reflexivity|]. lia.
    - cbn [app] in Es. subst sch. inversion Bp as [|? ? Be Bp']; subst.
      assert (Hlen : len (pre ++ tl) < len (e :: pre ++ tl)) by (rewrite len_cons; lia).
      destruct e as [k| |k m|].
      + destruct (take_upto (N.pos k) b) as [a r] eqn:E. cbn [fst].
        pose proof (take_upto_app _ _ _ _ E) as [Eb La].
        rewrite take_upto_spec in E. inversion E; subst a r. clear E.
        set (a := firstn (N.to_nat (N.pos k)) b) in *.
        cbn [sink wsched]. split; [lia|]. split.
        { rewrite La. f_equal. unfold a.
          replace (N.to_nat (N.min (N.pos k) (len b))) with (Nat.min (N.to_nat (N.pos k)) (length b))
            by (rewrite len_eq; lia).
          now rewrite <- firstn_firstn, firstn_all. }
        split; [lia|]. split; [intros; lia|]. intros _.
        exists pre. split; [reflexivity|]. split; [assumption|]. intros Ht. specialize (Hc Ht).
        cbn [wcap wcnt] in Hc. rewrite len_app. lia.
      + cbn [sink wsched]. split; [|split; [reflexivity|lia]].
        exists pre. split; [reflexivity|]. split; [assumption|]. intros Ht. specialize (Hc Ht).
        cbn [wcap wcnt] in Hc. lia.
      + destruct k; cbn in Be; try discriminate.
        cbn [sink wsched]. split; [|split; [reflexivity|lia]].
        exists pre. split; [reflexivity|]. split; [assumption|]. intros Ht. specialize (Hc Ht).
        cbn [wcap wcnt] in Hc. lia.
      + cbn in Be. discriminate.
  Qed.

  Lemma sw_write_all_spec shim : wa_spec sink swgood swferr (sw_write_all shim).
  Proof.
    destruct shim; cbn [sw_write_all].
    - apply write_all_shim_spec. exact swrite_spec.
    - apply write_all_std_spec. exact swrite_spec.
  Qed.
End SchedW.

Lemma swgood_init tl s0 pre : wbenign pre ->
  swgood tl s0 (wcap pre) (wcnt pre) {| sink := s0; wsched := pre ++ tl |}.
Proof.
  intros B. exists pre. cbn [sink wsched]. split; [reflexivity|]. split; [assumption|]. intros _. lia.
Qed.

(** Every schedule: the sink receives a prefix of the stream, all of it on success. *)
Theorem sched_delivers shim t v s0 sch :
  exists w' e p q, to_writer (sw_write_all shim) t v {| sink := s0; wsched := sch |} = Ok (w', e) /\
    stream t v = p ++ q /\ sink w' = s0 ++ p /\
    (e = None -> q = [] /\ enc t v = Ok p) /\
    (q = [] -> e = snd (ser t v)).
Proof.
  destruct (wsched_split sch) as (pre & tl & -> & B & Htl).
  destruct (to_writer_spec sink (swgood tl s0 (wcap pre) (wcnt pre)) (swferr tl s0 (wcap pre) (wcnt pre))
              (sw_write_all shim) (sw_write_all_spec tl s0 _ _ Htl shim) t v {| sink := s0; wsched := pre ++ tl |})
    as (w' & e & p & q & E & Est & Es & He).
  { now apply swgood_init. }
  exists w', e, p, q. cbn [sink] in Es. repeat split; auto.
  - destruct He as [(Q & _ & Ee)|(km & Ee & _ & Q)]; [assumption|]. rewrite H in Ee. discriminate.
  - destruct He as [(Q & _ & Ee)|(km & Ee & _ & Q)].
    + subst q. rewrite app_nil_r in Est. subst p. apply enc_stream. congruence.
    + rewrite H in Ee. discriminate.
  - intros ->. destruct He as [(_ & _ & Ee)|(km & _ & _ & Q)]; [assumption|contradiction].
Qed.

(** A stopping entry (a hard failure, or a write that takes nothing) after a benign prefix:
    either everything the serializer produced had already been delivered, or its error comes
    out unchanged, the schedule stands just after it, and the sink holds a proper prefix
    whose length the prefix bounds. *)
Theorem sched_stop shim t v s0 pre e0 post :
  wbenign pre -> wbenign_entry e0 = false ->
  exists w' e p q, to_writer (sw_write_all shim) t v {| sink := s0; wsched := pre ++ e0 :: post |} = Ok (w', e) /\
    stream t v = p ++ q /\ sink w' = s0 ++ p /\
    ((q = [] /\ e = snd (ser t v) /\ len p <= wcap pre) \/
     (q <> [] /\ e = Some (stop_err e0) /\ wsched w' = post /\ wcnt pre <= len p <= wcap pre)).
Proof.
  intros B Hk.
  destruct (to_writer_spec sink (swgood (e0 :: post) s0 (wcap pre) (wcnt pre))
              (swferr (e0 :: post) s0 (wcap pre) (wcnt pre))
              (sw_write_all shim) (sw_write_all_spec (e0 :: post) s0 _ _ Hk shim) t v
              {| sink := s0; wsched := pre ++ e0 :: post |})
    as (w' & e & p & q & E & Est & Es & He).
  { now apply swgood_init. }
  exists w', e, p, q. cbn [sink] in Es. repeat split; auto.
  destruct He as [(Q & (pre' & _ & _ & Hc) & Ee)|(km & Ee & F & Q)].
  - left. repeat split; auto. specialize (Hc ltac:(discriminate)). rewrite Es, len_app in Hc. lia.
  - right. destruct F as (-> & Ew & H1 & H2). rewrite Es, len_app in H1, H2. repeat split; auto; lia.
Qed.

Lemma wfail_not_benign fk fm : fk <> Interrupted -> wbenign_entry (WFail fk fm) = false.
Proof. intros H. destruct fk; try reflexivity. contradiction. Qed.

Theorem sched_failure shim t v s0 pre fk fm post :
  wbenign pre -> fk <> Interrupted ->
  exists w' e p q, to_writer (sw_write_all shim) t v {| sink := s0; wsched := pre ++ WFail fk fm :: post |} = Ok (w', e) /\
    stream t v = p ++ q /\ sink w' = s0 ++ p /\
    ((q = [] /\ e = snd (ser t v) /\ len p <= wcap pre) \/
     (q <> [] /\ e = Some (fk, fm) /\ wsched w' = post /\ wcnt pre <= len p <= wcap pre)).
Proof.
  intros B Hk. exact (sched_stop shim t v s0 pre (WFail fk fm) post B (wfail_not_benign fk fm Hk)).
Qed.

(** A write that takes nothing ([Ok(0)]) is WriteZero "failed to write whole buffer". *)
Theorem sched_write_zero shim t v s0 pre post :
  wbenign pre ->
  exists w' e p q, to_writer (sw_write_all shim) t v {| sink := s0; wsched := pre ++ Refuse :: post |} = Ok (w', e) /\
    stream t v = p ++ q /\ sink w' = s0 ++ p /\
    ((q = [] /\ e = snd (ser t v) /\ len p <= wcap pre) \/
     (q <> [] /\ e = Some (WriteZero, MWriteWhole) /\ wsched w' = post /\ wcnt pre <= len p <= wcap pre)).
Proof. intros B. exact (sched_stop shim t v s0 pre Refuse post B eq_refl). Qed.

Lemma wbenign_units j : wbenign (repeat (WAccept 1) j).
Proof. induction j; cbn; constructor; auto. Qed.
Lemma wcap_units j : wcap (repeat (WAccept 1) j) = N.of_nat j.
Proof. induction j; cbn [repeat wcap]; [reflexivity|]. rewrite IHj. lia. Qed.
Lemma wcnt_units j : wcnt (repeat (WAccept 1) j) = N.of_nat j.
Proof. induction j; cbn [repeat wcnt]; [reflexivity|]. rewrite IHj. lia. Qed.

Lemma prefix_firstn {A} (p q : list A) : firstn (length p) (p ++ q) = p.
Proof. rewrite firstn_app, PeanoNat.Nat.sub_diag, firstn_all. cbn. now rewrite app_nil_r. Qed.

(** Failure after exactly [j] bytes (one byte per call): that error, exactly [j] bytes. *)
Theorem sched_failure_at shim t v s0 j fk fm post :
  fk <> Interrupted -> N.of_nat j < len (stream t v) ->
  exists w', to_writer (sw_write_all shim) t v
               {| sink := s0; wsched := repeat (WAccept 1) j ++ WFail fk fm :: post |} = Ok (w', Some (fk, fm)) /\
             sink w' = s0 ++ firstn j (stream t v) /\ wsched w' = post.
Proof.
  intros Hk Hj.
  destruct (sched_failure shim t v s0 (repeat (WAccept 1) j) fk fm post (wbenign_units j) Hk)
    as (w' & e & p & q & E & Est & Es & [(Q & _ & Lp)|(Q & Ee & Ew & L1 & L2)]).
  - subst q. rewrite app_nil_r in Est. rewrite Est, wcap_units in *. lia.
  - rewrite wcap_units in L2. rewrite wcnt_units in L1. subst e. exists w'. repeat split; auto.
    rewrite Es. f_equal. rewrite Est.
    assert (j = length p) by (rewrite len_eq in *; lia). subst j. now rewrite prefix_firstn.
Qed.

(** * Part 4: the fixed buffer *)
Section Fixed.
  Variable total : N.        (* bytes in the sink + room left: constant *)
  Definition fgood (st : fstate) : Prop := len (fsink st) + room st = total.
  Definition fferr (st : fstate) (km : kind * msg) : Prop :=
    km = (WriteZero, MWriteWhole) /\ room st = 0 /\ fgood st.

  Lemma fwrite_facts b st :
    let a := fst (take_upto (room st) b) in
    a = firstn (N.to_nat (N.min (room st) (len b))) b /\ len a = N.min (room st) (len b).
  Proof.
    cbn. rewrite take_upto_spec. cbn [fst]. split.
    - replace (N.to_nat (N.min (room st) (len b))) with (Nat.min (N.to_nat (room st)) (length b))
        by (rewrite len_eq; lia).
      now rewrite <- firstn_firstn, firstn_all.
    - rewrite !len_eq, firstn_length. lia.
  Qed.

  Lemma fwrite_spec : wr_spec fsink fgood fferr fwrite (fun _ => 0).
  Proof.
    intros b st Hg Hb. unfold fwrite.
    assert (Lb : 0 < len b) by (destruct b; [contradiction|apply len_pos_cons]).
    destruct (fwrite_facts b st) as [Ea La]. cbn zeta in Ea, La.
    set (a := fst (take_upto (room st) b)) in *.
    assert (G' : fgood {| fsink := fsink st ++ a; room := room st - len a |}).
    { unfold fgood in *. cbn [fsink room]. rewrite len_app. lia. }
    cbn [fsink]. repeat split; auto.
    - lia.
    - rewrite La, <- Ea. reflexivity.
    - lia.
    - cbn [room]. lia.
  Qed.

  Lemma fwrite_all_std_spec : wa_spec fsink fgood fferr fwrite_all_std.
  Proof. apply write_all_std_spec. exact fwrite_spec. Qed.

  Lemma fwrite_all_shim_spec : wa_spec fsink fgood fferr fwrite_all_shim.
  Proof.
    intros b st Hg. unfold fwrite_all_shim, fwrite.
    destruct (fwrite_facts b st) as [Ea La]. cbn zeta in Ea, La.
    set (a := fst (take_upto (room st) b)) in *.
    assert (G' : fgood {| fsink := fsink st ++ a; room := room st - len a |}).
    { unfold fgood in *. cbn [fsink room]. rewrite len_app. lia. }
    assert (Eb : b = a ++ skipn (N.to_nat (N.min (room st) (len b))) b).
    { rewrite Ea at 1. now rewrite firstn_skipn. }
    destruct (N.eqb_spec (len a) (len b)) as [E|E].
    - exists {| fsink := fsink st ++ a; room := room st - len a |}, None, a,
             (skipn (N.to_nat (N.min (room st) (len b))) b).
      repeat split; auto.
      apply len_zero_nil. rewrite len_eq, skipn_length. rewrite !len_eq in *. lia.
    - exists {| fsink := fsink st ++ a; room := room st - len a |}, (Some (WriteZero, MWriteWhole)), a,
             (skipn (N.to_nat (N.min (room st) (len b))) b).
      repeat split; auto.
      + cbn [room]. lia.
      + intros Q. rewrite Q, app_nil_r in Eb. rewrite <- Eb in E. contradiction.
  Qed.

  Lemma fw_write_all_spec shim : wa_spec fsink fgood fferr (fw_write_all shim).
  Proof. destruct shim; [apply fwrite_all_shim_spec|apply fwrite_all_std_spec]. Qed.
End Fixed.

Lemma firstn_len_app (p q : bytes) n : len p = n -> firstn (N.to_nat n) (p ++ q) = p.
Proof. intros <-. rewrite len_eq, Nnat.Nat2N.id. apply prefix_firstn. Qed.

(** A buffer with [cap] bytes of room: everything fits, or exactly the first [cap] bytes
    are written and the result is WriteZero / "failed to write whole buffer". *)
Theorem fixed_buffer shim t v s0 cap :
  to_writer (fw_write_all shim) t v {| fsink := s0; room := cap |} =
  if len (stream t v) <=? cap
  then Ok ({| fsink := s0 ++ stream t v; room := cap - len (stream t v) |}, snd (ser t v))
  else Ok ({| fsink := s0 ++ firstn (N.to_nat cap) (stream t v); room := 0 |}, Some (WriteZero, MWriteWhole)).
Proof.
  destruct (to_writer_spec fsink (fgood (len s0 + cap)) (fferr (len s0 + cap))
              (fw_write_all shim) (fw_write_all_spec _ shim) t v {| fsink := s0; room := cap |})
    as (w' & e & p & q & E & Est & Es & He).
  { unfold fgood. cbn. reflexivity. }
  rewrite E. cbn [fsink] in Es. destruct w' as [sk rm]. cbn [fsink room] in *. subst sk.
  destruct He as [(Q & G & Ee)|(km & Ee & (Ekm & Rm & G) & Q)]; unfold fgood in G; cbn [fsink room] in G;
    rewrite len_app in G.
  - subst q. rewrite app_nil_r in Est. rewrite Est.
    destruct (N.leb_spec (len p) cap); [|lia]. do 2 f_equal; [|assumption]. f_equal. lia.
  - subst. rewrite Est, len_app.
    assert (0 < len q) by (destruct q; [contradiction|apply len_pos_cons]).
    cbn [room] in Rm. subst rm.
    destruct (N.leb_spec (len p + len q) cap); [lia|].
    rewrite firstn_len_app by lia. reflexivity.
Qed.

(** * Part 5: the vector writer *)
Lemma vwrite_spec : wr_spec (fun v : bytes => v) (fun _ => True) (fun _ _ => False) vwrite (fun _ => 0).
Proof.
  intros b v _ Hb. unfold vwrite. repeat split; auto.
  - lia.
  - rewrite len_eq, Nnat.Nat2N.id, firstn_all. reflexivity.
  - lia.
  - intros E. apply len_zero_nil in E. contradiction.
Qed.

Lemma vw_write_all_spec shim : wa_spec (fun v : bytes => v) (fun _ => True) (fun _ _ => False) (vw_write_all shim).
Proof.
  destruct shim; cbn [vw_write_all].
  - intros b v _. exists (v ++ b), None, b, []. rewrite app_nil_r. repeat split; auto.
  - apply write_all_std_spec. exact vwrite_spec.
Qed.

Theorem vec_writer shim t v s0 :
  to_writer (vw_write_all shim) t v s0 = Ok (s0 ++ stream t v, snd (ser t v)).
Proof.
  destruct (to_writer_spec _ _ _ _ (vw_write_all_spec shim) t v s0 I)
    as (w' & e & p & q & E & Est & Es & [(Q & _ & Ee)|(km & _ & [] & _)]).
  subst. rewrite app_nil_r in Est. now rewrite E, Est.
Qed.

(** * Part 6: [object_length] *)
Lemma object_length_fold chunks : forall acc,
  acc + len (concat chunks) < 2 ^ 64 ->
  fold_left (fun (a : result N) (chunk : bytes) =>
               n <- a ;; if n + len chunk <? 2 ^ 64 then Ok (n + len chunk) else Err OutOfMemory MSimple)
            chunks (Ok acc) = Ok (acc + len (concat chunks)).
Proof.
  induction chunks as [|c r IH]; intros acc H; cbn [fold_left concat] in *.
  - rewrite len_nil. f_equal. lia.
  - rewrite len_app in *. cbn [bind].
    destruct (N.ltb_spec (acc + len c) (2 ^ 64)) as [_|Hge]; [|lia].
    rewrite IH by lia. f_equal. lia.
Qed.

Theorem object_length_exact t v :
  len (stream t v) < 2 ^ 64 -> object_length t v = rmap (fun bs => len bs) (enc t v).
Proof.
  intros H. unfold object_length, enc, rmap, stream in *. cbn zeta.
  rewrite object_length_fold by (rewrite N.add_0_l; exact H). cbn [bind]. rewrite N.add_0_l.
  destruct (snd (ser t v)) as [[k m]|]; cbn [bind]; reflexivity.
Qed.

Theorem exact_buffer shim t v bs :
  enc t v = Ok bs ->
  to_writer (fw_write_all shim) t v {| fsink := []; room := len bs |} = Ok ({| fsink := bs; room := 0 |}, None).
Proof.
  intros E. apply enc_ok_stream in E. destruct E as [-> Es].
  rewrite fixed_buffer. destruct (N.leb_spec (len (stream t v)) (len (stream t v))); [|lia].
  rewrite Es, N.sub_diag. reflexivity.
Qed.

Theorem object_length_iff t v :
  len (stream t v) < 2 ^ 64 ->
  object_length t v = rmap (fun bs => len bs) (enc t v) /\
  (forall bs, enc t v = Ok bs -> object_length t v = Ok (len bs)) /\
  (forall n, object_length t v = Ok n -> exists bs, enc t v = Ok bs /\ len bs = n).
Proof.
  intros H. pose proof (object_length_exact t v H) as E. split; [exact E|]. rewrite E. split.
  - intros bs ->. reflexivity.
  - intros n. destruct (enc t v) as [bs|k m|w]; cbn; intros H1; inversion H1. eauto.
Qed.
