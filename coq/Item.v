(** Abstract syntax of what the derive macros see ([syn::DeriveInput] restricted to
    what borsh-derive inspects).  Definitions only. *)
From Coq Require Import String.
From Coq Require Import List NArith.
From Borsh Require Import Bytes Result Ty Discr.
Import ListNotations.

(** The value part of one [key = value] / [key] entry inside [#[borsh(...)]]. *)
Inductive meta_val :=
| MVNone                               (* the key alone *)
| MVTrue | MVFalse                     (* [= true], [= false] *)
| MVPath (p : string)                  (* [= some::path]  (an expression that is a path) *)
| MVStr (s : string) (is_path : bool)  (* [= "literal"]; [is_path]: the content parses as a path *)
| MVOther.                             (* any other expression, e.g. [= 3] *)

(** Item-level keys. *)
Inductive item_key := IKUseDiscriminant | IKInit | IKCrate | IKOther (name : string).
Record item_meta := { im_key : item_key; im_val : meta_val }.

(** Field-level entries.  [sem] of a [*_with] entry: the wire semantics of the function the
    path names (the macro only splices the path; what the function does is the user's). *)
Inductive field_meta :=
| FSkip
| FSerializeWith (p : string) (sem : ty)
| FDeserializeWith (p : string) (sem : ty)
| FBound (ser de : bool)                               (* bound(serialize = "..", deserialize = "..") *)
| FSchema (params : bool) (with_funcs : option (bool * bool))
      (* schema(params = "..", with_funcs(declaration = "..", definitions = "..")) *)
| FOther (name : string).

(** One [#[borsh(m1, m2, ...)]] attribute is the list of its entries; a node carries a
    list of such attributes (normally zero or one). *)
Definition attrs (M : Type) := list (list M).

Record field := {
  f_name : string;              (* the identifier; for tuple fields the index, printed *)
  f_attrs : attrs field_meta;
  f_ty : ty;
}.

Inductive fields :=
| FNamed (fs : list field)
| FTuple (fs : list field)
| FUnit.

Definition fields_list (f : fields) : list field :=
  match f with FNamed fs | FTuple fs => fs | FUnit => [] end.

Record variant := {
  v_name : string;
  v_attrs : attrs string;       (* keys of [#[borsh(...)]] attributes written on the variant *)
  v_discr : option expr;        (* [= expr] *)
  v_fields : fields;
}.

Inductive body :=
| BStruct (fs : fields)
| BEnum (vs : list variant)
| BUnion (fs : list field).

Record item := {
  it_name : string;
  it_attrs : attrs item_meta;
  it_body : body;
}.

Inductive derive_kind := DSer | DDe | DSchema.
