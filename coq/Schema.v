(** Data model of [borsh::schema]: [Definition], [Fields], [BorshSchemaContainer]
    (borsh/src/schema.rs).  No proofs in this file.

    - [Declaration], [VariantName], [FieldName] are Rust [String]s: Coq [string].
    - [u8] (primitive size, [length_width], [tag_width]) and [u64] (the two ends of
      [length_range]) are [N]; [DiscriminantValue = i64] is [Z].  The ranges of these
      machine integers are not built into the types; the predicates [u8_fields] and
      [ranges_fit] state them and appear as hypotheses only where a theorem needs them.
    - [length_range : RangeInclusive<u64>] is the pair [lo hi] ([lo..=hi]); a range
      built by [RangeInclusive::new] or the [..=] syntax (the only ways to get one into
      a container, including [BorshDeserialize]) has its [exhausted] flag clear, hence
      [is_empty() = !(lo <= hi)].
    - [definitions : BTreeMap<Declaration, Definition>] is an association list with
      first-match lookup.  The functions modelled here only ever call [get_definition],
      so the iteration order of the map is irrelevant. *)
From Coq Require Import String List NArith ZArith.
Import ListNotations.
Local Open Scope N_scope.

Inductive fields :=
| NamedFields (fs : list (string * string))     (* Vec<(FieldName, Declaration)> *)
| UnnamedFields (fs : list string)              (* Vec<Declaration> *)
| EmptyFields.

Inductive definition :=
| Primitive (size : N)
| Sequence (length_width : N) (lo hi : N) (elements : string)
| Tuple (elements : list string)
| Enum (tag_width : N) (variants : list (Z * string * string))   (* (discriminant, name, declaration) *)
| Struct (fs : fields).

Record container := { root : string; defs : list (string * definition) }.

Fixpoint lookup (l : list (string * definition)) (d : string) : option definition :=
  match l with
  | [] => None
  | (k, v) :: l' => if String.eqb k d then Some v else lookup l' d
  end.

(** [BorshSchemaContainer::get_definition] *)
Definition get_definition (c : container) (d : string) : option definition := lookup (defs c) d.

Definition variant_decl (v : Z * string * string) : string := snd v.
Definition field_decls (fs : fields) : list string :=
  match fs with
  | NamedFields l => map snd l
  | UnnamedFields l => l
  | EmptyFields => []
  end.

(** The declarations a definition refers to, in source order. *)
Definition members (def : definition) : list string :=
  match def with
  | Primitive _ => []
  | Sequence _ _ _ el => [el]
  | Tuple els => els
  | Enum _ vs => map variant_decl vs
  | Struct fs => field_decls fs
  end.

(** [RangeInclusive::<u64>::is_empty] *)
Definition range_is_empty (lo hi : N) : bool := negb (lo <=? hi).

(** [stack.iter().any(|dec| *dec == declaration)] *)
Definition on_stack (d : string) (stack : list string) : bool := existsb (String.eqb d) stack.

(** Every sequence's largest length fits [ub] bits.  With [ub = 64] this says that the
    [u64] field [*length_range.end()] is a [u64], which holds of every Rust value. *)
Definition ranges_fit (ub : N) (c : container) : Prop :=
  forall d lw lo hi el, get_definition c d = Some (Sequence lw lo hi el) -> hi < 2 ^ ub.

(** Decidable version, for examples. *)
Definition ranges_fit_b (ub : N) (c : container) : bool :=
  forallb (fun kv => match snd kv with Sequence _ _ hi _ => hi <? 2 ^ ub | _ => true end) (defs c).
