(** Facts about [check_length_width] and [validate_impl]: totality, exactness
    w.r.t. [WellFormed], blame. *)
From Coq Require Import String List NArith ZArith Bool Lia ZifyBool Arith.
From Borsh Require Import Schema SchemaFns SchemaSpec SchemaProofsBase SchemaProofsZero.
Import ListNotations.
Local Open Scope N_scope.

(** * check_length_width *)
Lemma clw_spec d lw hi :
  check_length_width d lw hi =
  if lw =? 0 then SOk tt
  else if (lw =? 3) || (lw =? 5) || (lw =? 6) || (lw =? 7) then SErr (TagNotPowerOfTwo d)
  else if (1 <=? lw) && (lw <=? 7) then
    if hi <? 2 ^ (8 * lw) then SOk tt else SErr (TagTooNarrow d)
  else if lw =? 8 then SOk tt
  else SErr (TagTooWide d).
Proof.
  unfold check_length_width.
  destruct (lw =? 0); [reflexivity|].
  destruct ((lw =? 3) || (lw =? 5) || (lw =? 6) || (lw =? 7)); [reflexivity|].
  destruct ((1 <=? lw) && (lw <=? 7)) eqn:Hr; [|reflexivity].
  unfold u8_mul, u64_shl_one.
  replace (lw * 8 <? 256) with true by lia. cbn [sbind].
  replace (lw * 8 <? 64) with true by lia. cbn [sbind].
  rewrite (N.mul_comm lw 8). reflexivity.
Qed.

Lemma clw_value d lw hi : is_value (check_length_width d lw hi).
Proof.
  rewrite clw_spec.
  repeat match goal with |- is_value (if ?b then _ else _) => destruct b end; exact I.
Qed.

Lemma clw_ok d lw hi : hi < 2 ^ 64 -> (check_length_width d lw hi = SOk tt <-> width_ok lw hi).
Proof.
  intros Hhi. rewrite clw_spec. unfold width_ok.
  destruct (lw =? 0) eqn:H0; [split; [intros _; left; lia | reflexivity]|].
  destruct ((lw =? 3) || (lw =? 5) || (lw =? 6) || (lw =? 7)) eqn:H3.
  { split; [discriminate|]. intros [?|[? _]]; lia. }
  destruct ((1 <=? lw) && (lw <=? 7)) eqn:Hr.
  { destruct (hi <? 2 ^ (8 * lw)) eqn:Hlt.
    - split; [|reflexivity]. intros _. right. split; lia.
    - split; [discriminate|]. intros [?|[_ ?]]; lia. }
  destruct (lw =? 8) eqn:H8.
  { apply N.eqb_eq in H8. subst lw. split; [|reflexivity]. intros _. right. split; [tauto|].
    replace (2 ^ (8 * 8)) with (2 ^ 64) by reflexivity. exact Hhi. }
  split; [discriminate|]. intros [?|[? _]]; lia.
Qed.

Lemma clw_err d lw hi e : check_length_width d lw hi = SErr e ->
  (e = TagNotPowerOfTwo d /\ (lw = 3 \/ lw = 5 \/ lw = 6 \/ lw = 7)) \/
  (e = TagTooNarrow d /\ (lw = 1 \/ lw = 2 \/ lw = 4) /\ 2 ^ (8 * lw) <= hi) \/
  (e = TagTooWide d /\ 8 < lw).
Proof.
  rewrite clw_spec.
  destruct (lw =? 0) eqn:H0; [discriminate|].
  destruct ((lw =? 3) || (lw =? 5) || (lw =? 6) || (lw =? 7)) eqn:H3.
  { intros He. inversion He; subst. left. split; [reflexivity | lia]. }
  destruct ((1 <=? lw) && (lw <=? 7)) eqn:Hr.
  { destruct (hi <? 2 ^ (8 * lw)) eqn:Hlt; [discriminate|].
    intros He. inversion He; subst. right; left. split; [reflexivity|]. split; lia. }
  destruct (lw =? 8) eqn:H8; [discriminate|].
  intros He. inversion He; subst. right; right. split; [reflexivity | lia].
Qed.

(** * Loops *)
Lemma for_each_ok {E} (rec : string -> list string -> sres E (unit * list string)) :
  (forall d st u st', rec d st = SOk (u, st') -> st' = st) ->
  forall ds st u st', for_each rec ds st = SOk (u, st') ->
    st' = st /\ forall m, In m ds -> rec m st = SOk (tt, st).
Proof.
  intros Hrec. induction ds as [|d ds IH]; cbn [for_each]; intros st u st' H.
  - inversion H; subst. split; [reflexivity | intros m []].
  - apply sbind_ok in H as ([u1 st1] & H1 & H2). pose proof (Hrec _ _ _ _ H1) as ->.
    apply IH in H2 as [-> Hm]. split; [reflexivity|]. intros m [<-|Hin]; [destruct u1; exact H1 | auto].
Qed.

Lemma for_each_err {E} (rec : string -> list string -> sres E (unit * list string)) :
  (forall d st u st', rec d st = SOk (u, st') -> st' = st) ->
  forall ds st e, for_each rec ds st = SErr e -> exists x, In x ds /\ rec x st = SErr e.
Proof.
  intros Hrec. induction ds as [|d ds IH]; cbn [for_each]; intros st e H; [discriminate|].
  apply sbind_err in H as [H|([u1 st1] & H1 & H2)].
  - exists d. split; [left; reflexivity | exact H].
  - apply Hrec in H1 as Hst. subst st1.
    apply IH in H2 as (x & Hx & Hr). exists x. split; [right; exact Hx | exact Hr].
Qed.

Lemma for_each_value {E} (rec : string -> list string -> sres E (unit * list string)) st :
  (forall d, is_value (rec d st)) ->
  (forall d u st', rec d st = SOk (u, st') -> st' = st) ->
  forall ds, is_value (for_each rec ds st).
Proof.
  intros Hv Hst. induction ds as [|d ds IH]; cbn [for_each]; [exact I|].
  apply sbind_value; [apply Hv|]. intros [u st'] Hr. apply Hst in Hr as ->. exact IH.
Qed.

(** * Every [SOk] answer restores the stack *)
Lemma validate_impl_stack c : forall fuel d st u st',
  validate_impl fuel c d st = SOk (u, st') -> st' = st.
Proof.
  induction fuel as [|fuel IH]; intros d st u st' H; [discriminate|].
  cbn [validate_impl] in H.
  destruct (get_definition c d) as [def|] eqn:Hd; [|discriminate].
  destruct (on_stack d st) eqn:Hst; [inversion H; reflexivity|].
  apply sbind_ok in H as ([u1 st1] & H1 & H2). inversion H2; subst; clear H2.
  pose proof (for_each_ok (validate_impl fuel c) IH) as Hloop.
  assert (st1 = d :: st); [|subst; reflexivity].
  destruct def as [size|lw lo hi el|els|tw vs|fs].
  - inversion H1; reflexivity.
  - destruct ((lw =? 0) && (lo =? hi) && negb (range_is_empty lo hi)); [eapply IH, H1|].
    destruct (range_is_empty lo hi); [discriminate|].
    apply sbind_ok in H1 as (? & _ & H1). apply sbind_ok in H1 as (? & _ & H1). eapply IH, H1.
  - eapply Hloop, H1.
  - destruct (U64_LEN <? tw); [discriminate|]. eapply Hloop, H1.
  - destruct fs as [fs|fs|]; [eapply Hloop, H1 | eapply Hloop, H1 | inversion H1; reflexivity].
Qed.

(** * Reachability avoiding a set of declarations *)
Inductive RA (c : container) (S : list string) : string -> string -> Prop :=
| RA_refl d : ~ In d S -> RA c S d d
| RA_step d m d' : ~ In d S -> Edge c d m -> RA c S m d' -> RA c S d d'.

Lemma RA_nil c a b : Reach c a b -> RA c [] a b.
Proof. induction 1; [constructor; intros [] | econstructor; eauto]. Qed.

Lemma RA_split c S m d' : RA c S m d' ->
  forall d, d' = d \/ RA c (d :: S) m d' \/ exists m', Edge c d m' /\ RA c (d :: S) m' d'.
Proof.
  induction 1 as [x Hx | x m d' Hx He Hr IH]; intros d.
  - destruct (string_dec x d) as [->|Hne]; [left; reflexivity|].
    right; left. constructor. intros [Heq|Hin]; [congruence | contradiction].
  - destruct (IH d) as [->|[Hr'|Hr']]; [left; reflexivity | | right; right; exact Hr'].
    destruct (string_dec x d) as [->|Hne].
    + right; right. exists m. split; assumption.
    + right; left. econstructor; [|exact He|exact Hr']. intros [Heq|Hin]; [congruence | contradiction].
Qed.

(** * [SOk]: every declaration reachable without crossing the stack is fine *)
Definition decl_ok (c : container) (d : string) : Prop :=
  exists def, get_definition c d = Some def /\ def_ok c def.

Lemma not_array_branch lw lo hi :
  (lw =? 0) && (lo =? hi) && negb (range_is_empty lo hi) = false -> range_is_empty lo hi = false ->
  ~ is_array lw lo hi.
Proof. unfold range_is_empty, is_array. intros H1 H2 [-> ->]. rewrite !N.eqb_refl in H1. cbn in H1. lia. Qed.

Lemma array_branch lw lo hi :
  (lw =? 0) && (lo =? hi) && negb (range_is_empty lo hi) = true -> is_array lw lo hi.
Proof. unfold is_array. intros H. split; lia. Qed.

Lemma validate_impl_ok c : ranges_fit 64 c -> forall fuel d st u st',
  validate_impl fuel c d st = SOk (u, st') ->
  forall d', RA c st d d' -> decl_ok c d'.
Proof.
  intros Hfit. induction fuel as [|fuel IH]; intros d st u st' H; [discriminate|].
  cbn [validate_impl] in H.
  destruct (get_definition c d) as [def|] eqn:Hd; [|discriminate].
  destruct (on_stack d st) eqn:Hst.
  { apply on_stack_true in Hst. intros d' Hr. inversion Hr; subst; contradiction. }
  apply sbind_ok in H as ([u1 st1] & H1 & _).
  (* it suffices that the definition is locally fine and every member validated *)
  assert (Hsuff : def_ok c def ->
                  (forall m, In m (members def) -> exists u2 st2, validate_impl fuel c m (d :: st) = SOk (u2, st2)) ->
                  forall d', RA c st d d' -> decl_ok c d').
  { intros Hloc Hmem d' Hr. destruct (RA_split _ _ _ _ Hr d) as [->|[Hr'|(m & He & Hr')]].
    - exists def. split; assumption.
    - inversion Hr'; subst; exfalso; match goal with Hn : ~ In _ (_ :: _) |- _ => apply Hn; left; reflexivity end.
    - destruct He as (def' & Hd' & Hm). rewrite Hd in Hd'. inversion Hd'; subst def'.
      destruct (Hmem m Hm) as (u2 & st2 & Hv). eapply IH; eauto. }
  pose proof (for_each_ok (validate_impl fuel c) (validate_impl_stack c fuel)) as Hloop.
  assert (Hmems : forall ds (u0 : unit) st0, for_each (validate_impl fuel c) ds (d :: st) = SOk (u0, st0) ->
                  forall m, In m ds -> exists u2 st2, validate_impl fuel c m (d :: st) = SOk (u2, st2)).
  { intros ds u0 st0 Hfe m Hm. apply Hloop in Hfe as [_ Hall]. eauto. }
  destruct def as [size|lw lo hi el|els|tw vs|fs]; cbn [members] in Hsuff.
  - apply Hsuff; [exact I | intros m []].
  - destruct ((lw =? 0) && (lo =? hi) && negb (range_is_empty lo hi)) eqn:Harr.
    + apply Hsuff; [left; apply array_branch, Harr|]. intros m [<-|[]]. eauto.
    + destruct (range_is_empty lo hi) eqn:Hemp; [discriminate|].
      apply sbind_ok in H1 as ([] & Hclw & H1). apply sbind_ok in H1 as ([] & Hz & H1).
      apply Hsuff; [|intros m [<-|[]]; eauto].
      right. split; [unfold range_is_empty in Hemp; lia|]. split.
      * eapply clw_ok; [eapply Hfit, Hd | exact Hclw].
      * destruct (is_zero_size c el) as [[|]|[|x]| |] eqn:Hzs; try discriminate.
        -- eapply is_zero_size_false, Hzs.
        -- eapply is_zero_size_err, Hzs.
  - apply Hsuff; [exact I | eapply Hmems, H1].
  - destruct (U64_LEN <? tw) eqn:Htw; [discriminate|].
    apply Hsuff; [unfold U64_LEN in Htw; cbn [def_ok]; lia | eapply Hmems, H1].
  - destruct fs as [fs|fs|]; cbn [field_decls] in Hsuff.
    + apply Hsuff; [exact I | eapply Hmems, H1].
    + apply Hsuff; [exact I | eapply Hmems, H1].
    + apply Hsuff; [exact I | intros m []].
Qed.

(** * [SErr]: blame *)
Lemma validate_impl_blame c : forall fuel d st e,
  validate_impl fuel c d st = SErr e -> Reach c d (blamed e) /\ defect c e.
Proof.
  induction fuel as [|fuel IH]; intros d st e H; [discriminate|].
  cbn [validate_impl] in H.
  destruct (get_definition c d) as [def|] eqn:Hd.
  2:{ inversion H; subst. cbn [blamed defect]. split; [constructor | exact Hd]. }
  destruct (on_stack d st) eqn:Hst; [discriminate|].
  apply sbind_err in H as [H|([u1 st1] & _ & H2)]; [|discriminate].
  assert (Hmem : forall m, In m (members def) -> validate_impl fuel c m (d :: st) = SErr e ->
                 Reach c d (blamed e) /\ defect c e).
  { intros m Hm Hv. apply IH in Hv as [Hr Hdef]. split; [|exact Hdef].
    econstructor; [eapply edge_intro; eauto | exact Hr]. }
  assert (Hloop : forall ds, incl ds (members def) -> for_each (validate_impl fuel c) ds (d :: st) = SErr e ->
                  Reach c d (blamed e) /\ defect c e).
  { intros ds Hincl Hfe. apply for_each_err in Hfe as (x & Hx & Hv); [|apply validate_impl_stack].
    eapply Hmem; [apply Hincl, Hx | exact Hv]. }
  destruct def as [size|lw lo hi el|els|tw vs|fs]; cbn [members] in Hmem, Hloop.
  - discriminate.
  - destruct ((lw =? 0) && (lo =? hi) && negb (range_is_empty lo hi)) eqn:Harr.
    { eapply Hmem; [left; reflexivity | exact H]. }
    pose proof (not_array_branch _ _ _ Harr) as Hna.
    destruct (range_is_empty lo hi) eqn:Hemp.
    { inversion H; subst. cbn [blamed defect]. split; [constructor|].
      exists lw, lo, hi, el. split; [exact Hd | unfold range_is_empty in Hemp; lia]. }
    specialize (Hna eq_refl).
    apply sbind_err in H as [H|([] & _ & H)].
    { apply clw_err in H as [[-> Hw]|[[-> [Hw Hb]]|[-> Hw]]]; cbn [blamed defect]; (split; [constructor|]).
      - exists lw, lo, hi, el. auto.
      - exists lw, lo, hi, el. auto.
      - left. exists lw, lo, hi, el. auto. }
    apply sbind_err in H as [H|([] & _ & H)]; [|eapply Hmem; [left; reflexivity | exact H]].
    destruct (is_zero_size c el) as [[|]|[|x]| |] eqn:Hzs; try discriminate; inversion H; subst; cbn [blamed defect].
    + split; [constructor|]. exists lw, lo, hi, el. split; [exact Hd|]. split; [exact Hna|].
      apply is_zero_size_true, Hzs.
    + apply is_zero_size_missing in Hzs as [Hr Hx]. split; [|exact Hx].
      econstructor; [eapply edge_intro; [exact Hd | left; reflexivity] | exact Hr].
  - eapply Hloop; [apply incl_refl | exact H].
  - destruct (U64_LEN <? tw) eqn:Htw.
    + inversion H; subst. cbn [blamed defect]. split; [constructor|]. right. exists tw, vs.
      split; [exact Hd | unfold U64_LEN in Htw; lia].
    + eapply Hloop; [apply incl_refl | exact H].
  - destruct fs as [fs|fs|]; cbn [field_decls] in Hloop; [| |discriminate];
      (eapply Hloop; [apply incl_refl | exact H]).
Qed.

(** * Fuel and panics *)
Lemma validate_impl_value c : forall fuel d st,
  stack_ok c st -> (length (defs c) < fuel + length st)%nat ->
  is_value (validate_impl fuel c d st).
Proof.
  induction fuel as [|fuel IH]; intros d st Hok Hf.
  { pose proof (stack_ok_length _ _ Hok). lia. }
  cbn [validate_impl].
  destruct (get_definition c d) as [def|] eqn:Hd; [|exact I].
  destruct (on_stack d st) eqn:Hst; [exact I|]. apply on_stack_false in Hst.
  assert (Hok' : stack_ok c (d :: st)) by (eapply stack_ok_push; eauto).
  assert (Hrec : forall m, is_value (validate_impl fuel c m (d :: st))).
  { intros m. apply IH; [exact Hok' | cbn [length]; lia]. }
  assert (Hloop : forall ds, is_value (for_each (validate_impl fuel c) ds (d :: st))).
  { intros ds. apply for_each_value; [exact Hrec|]. intros m u st' Hm. eapply validate_impl_stack, Hm. }
  apply sbind_value; [|intros [u1 st1] _; exact I].
  destruct def as [size|lw lo hi el|els|tw vs|fs]; try exact I; auto.
  - destruct ((lw =? 0) && (lo =? hi) && negb (range_is_empty lo hi)); [apply Hrec|].
    destruct (range_is_empty lo hi); [exact I|].
    apply sbind_value; [apply clw_value|]. intros [] _.
    apply sbind_value; [|intros [] _; apply Hrec].
    pose proof (is_zero_size_value c el) as Hz.
    destruct (is_zero_size c el) as [[|]|[|x]| |]; try exact I; exact Hz.
  - destruct (U64_LEN <? tw); [exact I | apply Hloop].
  - destruct fs; [apply Hloop | apply Hloop | exact I].
Qed.

(** * The public function *)
Lemma validate_value c : is_value (validate c).
Proof.
  unfold validate. apply sbind_value; [|intros [u st] _; exact I].
  apply validate_impl_value; [apply stack_ok_nil | unfold full_fuel; cbn [length]; lia].
Qed.

Lemma validate_blame c e : validate c = SErr e -> Reach c (root c) (blamed e) /\ defect c e.
Proof.
  unfold validate. intros H. apply sbind_err in H as [H|([u st] & _ & H2)]; [|discriminate].
  eapply validate_impl_blame, H.
Qed.

Lemma defect_not_ok c e : defect c e -> ~ decl_ok c (blamed e).
Proof.
  intros Hdef (def & Hd & Hok). destruct e as [d|d|d|d|d|d]; cbn [blamed defect] in *.
  - destruct Hdef as (lw & lo & hi & el & Hd' & Hna & Hz). rewrite Hd in Hd'. inversion Hd'; subst.
    destruct Hok as [Ha|(_ & _ & Hnz)]; contradiction.
  - destruct Hdef as [(lw & lo & hi & el & Hd' & Hna & Hw)|(tw & vs & Hd' & Hw)];
      rewrite Hd in Hd'; inversion Hd'; subst; cbn [def_ok] in Hok.
    + destruct Hok as [Ha|(_ & Hwo & _)]; [contradiction|]. unfold width_ok in Hwo. lia.
    + lia.
  - destruct Hdef as (lw & lo & hi & el & Hd' & Hna & Hw & Hb). rewrite Hd in Hd'. inversion Hd'; subst.
    destruct Hok as [Ha|(_ & Hwo & _)]; [contradiction|]. unfold width_ok in Hwo.
    destruct Hwo as [->|[_ Hlt]]; lia.
  - destruct Hdef as (lw & lo & hi & el & Hd' & Hna & Hw). rewrite Hd in Hd'. inversion Hd'; subst.
    destruct Hok as [Ha|(_ & Hwo & _)]; [contradiction|]. unfold width_ok in Hwo. lia.
  - congruence.
  - destruct Hdef as (lw & lo & hi & el & Hd' & Hlt). rewrite Hd in Hd'. inversion Hd'; subst.
    destruct Hok as [[_ ->]|(Hle & _)]; lia.
Qed.

Lemma validate_ok_wf c : ranges_fit 64 c -> validate c = SOk tt -> WellFormed c.
Proof.
  unfold validate. intros Hfit H d Hr. apply sbind_ok in H as ([u st] & H1 & _).
  eapply validate_impl_ok; [exact Hfit | exact H1 | apply RA_nil, Hr].
Qed.

Lemma wf_validate_ok c : WellFormed c -> validate c = SOk tt.
Proof.
  intros Hwf. pose proof (validate_value c) as Hv.
  destruct (validate c) as [[]|e| |] eqn:Hr; try contradiction; [reflexivity|].
  exfalso. apply validate_blame in Hr as [Hreach Hdef].
  eapply defect_not_ok; [exact Hdef | apply Hwf, Hreach].
Qed.
