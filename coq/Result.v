(** Outcomes of modelled operations: success, an io error (kind + message class), or a panic. *)
From Coq Require Import NArith.

(** The subset of [ErrorKind] that borsh produces itself or forwards from a reader/writer. *)
Inductive kind :=
| InvalidData | UnexpectedEof | WriteZero | Interrupted | OutOfMemory | Other
| KUser (n : N).          (* any other kind injected by a caller-supplied reader/writer *)

(** Message classes.  The harness maps the real [Display] strings to these. *)
Inductive msg :=
| MUnexpectedLength        (* "Unexpected length of input" *)
| MNotAllBytesRead         (* "Not all bytes read" *)
| MZst                     (* ERROR_ZST_FORBIDDEN *)
| MNaNSer                  (* "For portability reasons we do not allow to serialize NaNs." *)
| MNaNDe                   (* "... deserialize NaNs." *)
| MBadBool (b : N)         (* "Invalid bool representation: {b}" *)
| MBadOption (b : N)
| MBadResult (b : N)
| MBadIpAddr (b : N)
| MBadSocketAddr (b : N)
| MBadVariant (b : N)      (* "Unexpected variant tag: {b}" *)
| MZeroNonZero             (* "Expected a non-zero value" *)
| MUtf8                    (* String::from_utf8 error text *)
| MAscii                   (* ascii crate error text *)
| MKeyOrder                (* "keys were not serialized in ascending order" *)
| MSchemaMismatch          (* "Borsh schema does not match" *)
| MSimple                  (* an error built from a bare ErrorKind *)
| MFillWhole               (* "failed to fill whole buffer" *)
| MWriteWhole              (* "failed to write whole buffer" *)
| MBorrowed                (* "already mutably borrowed" *)
| MUser (n : N).           (* message of an injected reader/writer failure *)

Inductive result (A : Type) :=
| Ok (a : A)
| Err (k : kind) (m : msg)
| Panic (why : N).
Arguments Ok {A} a.
Arguments Err {A} k m.
Arguments Panic {A} why.

(** Panic codes. *)
Definition P_FUEL : N := 1.        (* model fuel exhausted: excluded by theorem *)
Definition P_DIV0 : N := 2.        (* division by zero ([cautious] with size_of >= 2^32... see Cost) *)
Definition P_COUNT_OVERFLOW : N := 3.  (* RangeInclusive::count overflow *)
Definition P_REDEFINE : N := 4.    (* add_definition assert_eq! *)
Definition P_ILLTYPED : N := 5.    (* the model was applied to a value outside [has_ty]: excluded by theorem *)

Definition bind {A B} (r : result A) (f : A -> result B) : result B :=
  match r with
  | Ok a => f a
  | Err k m => Err k m
  | Panic w => Panic w
  end.

Notation "x <- a ;; b" := (bind a (fun x => b)) (at level 61, a at next level, right associativity).
Notation "' p <- a ;; b" := (bind a (fun x => let p := x in b))
  (at level 61, p pattern, a at next level, right associativity).

Definition rmap {A B} (f : A -> B) (r : result A) : result B := x <- r ;; Ok (f x).

Definition is_ok {A} (r : result A) : bool := match r with Ok _ => true | _ => false end.
