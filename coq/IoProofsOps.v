(** std / no_std equivalence: the op language on slices and vectors (C13_io) and the
    independence of the codec from the io implementation (C13_codec). *)
From Coq Require Import List NArith PArith Bool Lia.
From Borsh Require Import Bytes BytesFacts Result Loop LoopFacts Ty TyInd Ser De Entry Io
  IoProofsBase IoProofsRead IoProofsSched IoProofsWrite.
Import ListNotations.
Local Open Scope N_scope.

(** * Closed forms of the methods on slices, fixed buffers and vectors *)
Lemma slice_read_spec :
  rd_spec slice_read (fun _ => 0) (fun bs : bytes => bs) (fun _ => True) None.
Proof.
  intros n bs _ Hn. unfold slice_read.
  destruct (take_upto n bs) as [a r] eqn:E. apply take_upto_app in E. destruct E as [-> La].
  repeat split; auto; try lia.
  intros ->. rewrite len_nil in La. cbn [app] in *. apply len_zero_nil. lia.
Qed.

Definition slice_exact_closed (n : N) (bs : bytes) : result (bytes * bytes) :=
  if n <=? len bs then Ok (firstn (N.to_nat n) bs, skipn (N.to_nat n) bs)
  else Err UnexpectedEof MFillWhole.

Lemma out_closed n bs r :
  Out (fun b : bytes => b) (fun _ => True) None UnexpectedEof MFillWhole n bs r ->
  r = slice_exact_closed n bs.
Proof.
  unfold slice_exact_closed.
  intros [(k & m & F & _)|[(a & s' & -> & _ & V & L)|(Lt & ->)]]; [discriminate| |].
  - subst bs. rewrite len_app. destruct (N.leb_spec n (len a + len s')); [|lia].
    subst n. rewrite len_eq, Nnat.Nat2N.id.
    rewrite firstn_app, skipn_app, PeanoNat.Nat.sub_diag, firstn_all, skipn_all. cbn.
    now rewrite app_nil_r.
  - destruct (N.leb_spec n (len bs)); [lia|reflexivity].
Qed.

Lemma slice_read_exact_std_closed n bs : slice_read_exact_std n bs = slice_exact_closed n bs.
Proof.
  apply out_closed. unfold slice_read_exact_std.
  apply (read_exact_std_out _ _ _ _ _ slice_read_spec). exact I.
Qed.

Lemma slice_read_exact_shim_closed n bs : slice_read_exact_shim n bs = slice_exact_closed n bs.
Proof.
  unfold slice_read_exact_shim, slice_exact_closed. rewrite take_upto_spec.
  destruct (N.ltb_spec (len bs) n), (N.leb_spec n (len bs)); try lia; reflexivity.
Qed.

Lemma slice_reader_exact_closed n bs : rd_exact slice_reader n bs = slice_exact_closed n bs.
Proof. apply out_closed. apply slice_exact_out. Qed.

Definition fwa_closed (b : bytes) (st : fstate) : result (fstate * werr) :=
  if len b <=? room st
  then Ok ({| fsink := fsink st ++ b; room := room st - len b |}, None)
  else Ok ({| fsink := fsink st ++ firstn (N.to_nat (room st)) b; room := 0 |}, Some (WriteZero, MWriteWhole)).

Lemma fw_write_all_closed shim b st : fw_write_all shim b st = fwa_closed b st.
Proof.
  destruct (fw_write_all_spec (len (fsink st) + room st) shim b st eq_refl)
    as (w' & e & p & q & E & Eb & Es & He).
  rewrite E. unfold fwa_closed. destruct w' as [sk rm]. cbn [fsink room] in *. subst sk.
  destruct e as [km|].
  - destruct He as ((-> & Rm & G) & Q). unfold fgood in G. cbn [fsink room] in *. subst rm.
    rewrite len_app in G.
    assert (0 < len q) by (destruct q; [contradiction|apply len_pos_cons]).
    subst b. rewrite len_app. destruct (N.leb_spec (len p + len q) (room st)); [lia|].
    rewrite firstn_len_app by lia. reflexivity.
  - destruct He as (-> & G). unfold fgood in G. cbn [fsink room] in G. rewrite len_app in G.
    rewrite app_nil_r in Eb. subst p.
    destruct (N.leb_spec (len b) (room st)); [|lia]. do 3 f_equal. lia.
Qed.

Lemma vw_write_all_closed shim b v : vw_write_all shim b v = Ok (v ++ b, None).
Proof.
  destruct (vw_write_all_spec shim b v I) as (w' & e & p & q & E & Eb & Es & He).
  rewrite E. destruct e as [km|]; [destruct He as ([] & _)|].
  destruct He as (-> & _). rewrite app_nil_r in Eb. now subst.
Qed.

(** * C13_io: the op language *)
Definition rx_agree (r1 r2 : result (bytes * bytes)) : Prop :=
  match r1, r2 with
  | Ok x, Ok y => x = y
  | Err k m, Err k' m' => k = k' /\ m = m'
  | _, _ => False
  end.

(** Two method tables that agree wherever std specifies the outcome. *)
Definition msim (M1 M2 : iomodel) : Prop :=
  (forall n s, m_read M1 n s = m_read M2 n s) /\
  (forall n s, rx_agree (m_read_exact M1 n s) (m_read_exact M2 n s)) /\
  (forall b s, m_fwrite M1 b s = m_fwrite M2 b s) /\
  (forall b s, m_fwrite_all M1 b s = m_fwrite_all M2 b s) /\
  (forall b s, m_vwrite M1 b s = m_vwrite M2 b s) /\
  (forall b s, m_vwrite_all M1 b s = m_vwrite_all M2 b s).

Lemma msim_std_shim : msim io_std io_shim.
Proof.
  repeat split; cbn; auto.
  - intros n s. rewrite slice_read_exact_std_closed, slice_read_exact_shim_closed.
    unfold slice_exact_closed, rx_agree. destruct (n <=? len s); auto.
  - intros b s. change (fw_write_all false b s = fw_write_all true b s).
    now rewrite !fw_write_all_closed.
  - intros b s. change (vw_write_all false b s = vw_write_all true b s).
    now rewrite !vw_write_all_closed.
Qed.

Lemma msim_by_ref M1 M2 : msim M1 M2 -> msim (by_ref M1) (by_ref M2).
Proof. intros (H1 & H2 & H3 & H4 & H5 & H6). repeat split; cbn; auto. Qed.

Definition wrel (w1 w2 : world) : Prop :=
  w_fix w1 = w_fix w2 /\ w_vec w1 = w_vec w2 /\ poisoned w1 = poisoned w2 /\
  (poisoned w1 = false -> w_rd w1 = w_rd w2).

Ltac wfin := unfold wrel; cbn [snd fst w_fix w_vec poisoned w_rd]; repeat split; intros; auto; try congruence.

Lemma run_op_sim o : forall M1 M2, msim M1 M2 -> forall w1 w2, wrel w1 w2 ->
  wrel (snd (run_op M1 o w1)) (snd (run_op M2 o w2)) /\
  (poisoned w1 && reads o = false -> fst (run_op M1 o w1) = fst (run_op M2 o w2)).
Proof.
  induction o as [n|n|tg b|tg b|o IH]; intros M1 M2 HM w1 w2 (Hf & Hv & Hp & Hr).
  - (* read *)
    destruct HM as (H1 & _). cbn [run_op reads]. rewrite andb_true_r.
    destruct (poisoned w1) eqn:P1.
    + destruct (m_read M1 n (w_rd w1)) as [[a| |k m] r1], (m_read M2 n (w_rd w2)) as [[a'| |k' m'] r2]; wfin.
    + rewrite <- (Hr eq_refl), <- H1.
      destruct (m_read M1 n (w_rd w1)) as [[a| |k m] r1]; wfin.
  - (* read_exact *)
    destruct HM as (_ & H2 & _). cbn [run_op reads]. rewrite andb_true_r.
    destruct (poisoned w1) eqn:P1.
    + destruct (m_read_exact M1 n (w_rd w1)) as [[a r1]|k m|p], (m_read_exact M2 n (w_rd w2)) as [[a' r2]|k' m'|p']; wfin.
    + rewrite <- (Hr eq_refl). specialize (H2 n (w_rd w1)). unfold rx_agree in H2.
      destruct (m_read_exact M1 n (w_rd w1)) as [[a r1]|k m|p], (m_read_exact M2 n (w_rd w1)) as [[a' r2]|k' m'|p'];
        try contradiction.
      * inversion H2; subst. wfin.
      * destruct H2 as [-> ->]. wfin.
  - (* write *)
    destruct HM as (_ & _ & H3 & _ & H5 & _). cbn [reads]. rewrite andb_false_r.
    destruct tg; cbn [run_op].
    + rewrite Hf, H3. destruct (m_fwrite M2 b (w_fix w2)) as [r f]. wfin.
    + rewrite Hv, H5. destruct (m_vwrite M2 b (w_vec w2)) as [r f]. wfin.
  - (* write_all *)
    destruct HM as (_ & _ & _ & H4 & _ & H6). cbn [reads]. rewrite andb_false_r.
    destruct tg; cbn [run_op].
    + rewrite Hf, H4. destruct (wa_outcome (m_fwrite_all M2 b (w_fix w2)) (w_fix w2)) as [r f]. wfin.
    + rewrite Hv, H6. destruct (wa_outcome (m_vwrite_all M2 b (w_vec w2)) (w_vec w2)) as [r f]. wfin.
  - (* by_ref *)
    cbn [run_op reads]. apply IH; [now apply msim_by_ref|]. repeat split; auto.
Qed.

Lemma run_ops_sim ops : forall M1 M2, msim M1 M2 -> forall w1 w2, wrel w1 w2 ->
  specified M1 ops w1 = specified M2 ops w2 /\
  wrel (snd (run_ops M1 ops w1)) (snd (run_ops M2 ops w2)).
Proof.
  induction ops as [|o r IH]; intros M1 M2 HM w1 w2 Hw; cbn [specified run_ops].
  - auto.
  - destruct (run_op_sim o M1 M2 HM w1 w2 Hw) as [Hw' Ho].
    destruct (run_op M1 o w1) as [x1 w1'], (run_op M2 o w2) as [x2 w2']. cbn [fst snd] in *.
    destruct (IH M1 M2 HM w1' w2' Hw') as [Es Hw''].
    destruct (run_ops M1 r w1') as [xs1 w1''], (run_ops M2 r w2') as [xs2 w2'']. cbn [snd] in *.
    split; [|assumption]. rewrite Es. f_equal.
    destruct Hw as (_ & _ & Hp & _). rewrite <- Hp.
    destruct (poisoned w1 && reads o) eqn:E; [reflexivity|]. now rewrite Ho.
Qed.

Theorem ops_equiv ops input cap :
  observable io_std ops (world0 input cap) = observable io_shim ops (world0 input cap).
Proof.
  unfold observable.
  destruct (run_ops_sim ops io_std io_shim msim_std_shim (world0 input cap) (world0 input cap))
    as [Es (Hf & Hv & Hp & Hr)].
  { repeat split; auto. }
  rewrite Es, Hf, Hv, <- Hp. destruct (poisoned (snd (run_ops io_std ops (world0 input cap)))).
  - reflexivity.
  - now rewrite Hr.
Qed.

(** * C13_codec: the codec does not depend on the io implementation *)
Section PointwiseReaders.
  Context {S : Type} (R1 R2 : reader S) (c : cfg).
  Hypothesis Hex : forall n s, rd_exact R1 n s = rd_exact R2 n s.
  Hypothesis Hsome : forall n s, rd_some R1 n s = rd_some R2 n s.
  Hypothesis Hbud : forall s, rd_budget R1 s = rd_budget R2 s.

  Lemma bulk_pointwise n s : bulk R1 n s = bulk R2 n s.
  Proof.
    unfold bulk. rewrite Hbud. apply loop_fuel_ext.
    intros [[[buf pos] acc] s1]. unfold bulk_step. now rewrite Hsome.
  Qed.

  Lemma gsim_eq_refl {A} (r : result (A * S)) : gsim (@eq S) None r r.
  Proof. right. destruct r as [[a s]| |]; cbn; auto. Qed.

  Lemma gsim_eq_inv {A} (r1 r2 : result (A * S)) : gsim (@eq S) None r1 r2 -> r1 = r2.
  Proof.
    intros [(k & m & F & _)|H]; [discriminate|].
    destruct r1 as [[a1 s1]|k1 m1|w1], r2 as [[a2 s2]|k2 m2|w2]; cbn in H; try contradiction.
    - destruct H; subst; reflexivity.
    - destruct H; subst; reflexivity.
    - now subst.
  Qed.

  Theorem dec_pointwise t s : dec R1 c t s = dec R2 c t s.
  Proof.
    apply gsim_eq_inv. apply dec_sim; [discriminate| | |reflexivity].
    - intros n s1 s2 ->. rewrite Hex. apply gsim_eq_refl.
    - intros n s1 s2 ->. rewrite bulk_pointwise. apply gsim_eq_refl.
  Qed.

  Theorem try_from_reader_pointwise t s : try_from_reader R1 c t s = try_from_reader R2 c t s.
  Proof.
    unfold try_from_reader. rewrite dec_pointwise. apply bind_ext. intros [v s1]. now rewrite Hex.
  Qed.
End PointwiseReaders.

Theorem codec_sched_readers c t st :
  dec sched_reader_std c t st = dec sched_reader_shim c t st /\
  try_from_reader sched_reader_std c t st = try_from_reader sched_reader_shim c t st.
Proof.
  split; [apply dec_pointwise|apply try_from_reader_pointwise]; auto;
    intros n s; apply read_exact_std_shim.
Qed.

Lemma slice_some_eq n bs : rd_some slice_reader n bs = slice_read n bs.
Proof.
  cbn [rd_some slice_reader]. unfold slice_read. rewrite take_upto_spec, take_spec.
  destruct (N.leb_spec (N.min n (len bs)) (len bs)); [|lia].
  destruct (N.le_ge_cases n (len bs)) as [H1|H1].
  - now rewrite N.min_l by assumption.
  - rewrite N.min_r by assumption. rewrite len_eq in *.
    rewrite Nnat.Nat2N.id, firstn_all, skipn_all, firstn_all2, skipn_all2 by lia. reflexivity.
Qed.

Theorem codec_slice_readers c t bs :
  dec slice_reader_std c t bs = dec slice_reader c t bs /\
  dec slice_reader_shim c t bs = dec slice_reader c t bs.
Proof.
  split; apply dec_pointwise; auto; intros n s; cbn [rd_exact rd_some slice_reader_std slice_reader_shim];
    try (symmetry; apply slice_some_eq);
    rewrite slice_reader_exact_closed;
    [apply slice_read_exact_std_closed|apply slice_read_exact_shim_closed].
Qed.

Lemma feed_pointwise {W} (wa1 wa2 : bytes -> W -> result (W * werr)) :
  (forall b w, wa1 b w = wa2 b w) -> forall chunks w, feed wa1 chunks w = feed wa2 chunks w.
Proof.
  intros E. induction chunks as [|ch r IH]; intros w; cbn [feed]; [reflexivity|].
  rewrite E. apply bind_ext. intros [w' [km|]]; auto.
Qed.

Theorem codec_writers t v :
  (forall st, to_writer (sw_write_all false) t v st = to_writer (sw_write_all true) t v st) /\
  (forall st, to_writer (fw_write_all false) t v st = to_writer (fw_write_all true) t v st) /\
  (forall st, to_writer (vw_write_all false) t v st = to_writer (vw_write_all true) t v st).
Proof.
  repeat split; intros st; unfold to_writer; f_equal; apply feed_pointwise; intros b w.
  - apply write_all_std_shim.
  - now rewrite !fw_write_all_closed.
  - now rewrite !vw_write_all_closed.
Qed.

Theorem codec_all :
  (forall c t st,
     dec sched_reader_std c t st = dec sched_reader_shim c t st /\
     try_from_reader sched_reader_std c t st = try_from_reader sched_reader_shim c t st) /\
  (forall c t bs,
     dec slice_reader_std c t bs = dec slice_reader c t bs /\
     dec slice_reader_shim c t bs = dec slice_reader c t bs) /\
  (forall t v,
     (forall st, to_writer (sw_write_all false) t v st = to_writer (sw_write_all true) t v st) /\
     (forall st, to_writer (fw_write_all false) t v st = to_writer (fw_write_all true) t v st) /\
     (forall st, to_writer (vw_write_all false) t v st = to_writer (vw_write_all true) t v st)).
Proof. exact (conj codec_sched_readers (conj codec_slice_readers codec_writers)). Qed.
