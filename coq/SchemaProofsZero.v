(** Facts about [is_zero_size_impl]: every [SOk] answer restores the stack and is
    exact w.r.t. [ZeroSized]; every error answer refutes [ZeroSized] (through
    height-indexed derivations); the fuel is never exhausted; a missing-definition
    error names a reachable undefined declaration. *)
From Coq Require Import String List NArith ZArith Bool Lia ZifyBool Arith.
From Borsh Require Import Schema SchemaFns SchemaSpec SchemaProofsBase.
Import ListNotations.
Local Open Scope N_scope.

(** * [ZeroSized] unfolded along the definition of [d] *)
Definition zs_body (c : container) (Z : string -> Prop) (d : string) : Prop :=
  match get_definition c d with
  | Some (Primitive s) => s = 0
  | Some (Sequence lw lo hi el) => lw = 0 /\ ((lo = 0 /\ hi = 0) \/ Z el)
  | Some (Tuple els) => Forall Z els
  | Some (Enum tw vs) => tw = 0 /\ Forall Z (map variant_decl vs)
  | Some (Struct fs) => Forall Z (field_decls fs)
  | None => False
  end.

Lemma ZeroSized_unfold c d : ZeroSized c d <-> zs_body c (ZeroSized c) d.
Proof.
  unfold zs_body. split.
  - intros H. inversion H; subst;
      match goal with L : get_definition c d = Some _ |- _ => rewrite L end; auto.
  - destruct (get_definition c d) as [[s|lw lo hi el|els|tw vs|fs]|] eqn:L; intros H.
    + subst. apply ZS_prim, L.
    + destruct H as [-> [[-> ->]|H]].
      * eapply ZS_seq_empty; eauto.
      * eapply ZS_seq_elems; eauto.
    + eapply ZS_tuple; eauto.
    + destruct H as [-> H]. eapply ZS_enum; eauto.
    + eapply ZS_struct; eauto.
    + contradiction.
Qed.

(** Induction principle with hypotheses for the members. *)
Lemma ZeroSized_ind' (c : container) (P : string -> Prop) :
  (forall d, zs_body c (fun x => ZeroSized c x /\ P x) d -> P d) ->
  forall d, ZeroSized c d -> P d.
Proof.
  intros Hstep. fix IH 2. intros d H. apply Hstep. unfold zs_body.
  destruct H as [d L|d lo hi el L Hlo Hhi|d lo hi el L Hel|d els L HF|d vs L HF|d fs L HF]; rewrite L.
  - reflexivity.
  - auto.
  - split; [reflexivity|]. right. split; [exact Hel | apply IH, Hel].
  - revert HF. generalize els. fix IHl 2. intros l HF. destruct HF as [|x l Hx HF]; constructor.
    + split; [exact Hx | apply IH, Hx].
    + apply IHl, HF.
  - split; [reflexivity|]. revert HF. generalize (map variant_decl vs).
    fix IHl 2. intros l HF. destruct HF as [|x l Hx HF]; constructor.
    + split; [exact Hx | apply IH, Hx].
    + apply IHl, HF.
  - revert HF. generalize (field_decls fs).
    fix IHl 2. intros l HF. destruct HF as [|x l Hx HF]; constructor.
    + split; [exact Hx | apply IH, Hx].
    + apply IHl, HF.
Qed.

(** * Height-indexed derivations *)
Fixpoint zs_h (c : container) (n : nat) (d : string) : Prop :=
  match n with
  | O => False
  | S n => zs_body c (zs_h c n) d
  end.

Lemma zs_body_mono c (Z1 Z2 : string -> Prop) d :
  (forall x, Z1 x -> Z2 x) -> zs_body c Z1 d -> zs_body c Z2 d.
Proof.
  intros HZ. unfold zs_body.
  destruct (get_definition c d) as [[s|lw lo hi el|els|tw vs|fs]|]; auto.
  - intros [H1 [H2|H2]]; auto.
  - apply Forall_impl, HZ.
  - intros [H1 H2]. split; [exact H1|]. revert H2. apply Forall_impl, HZ.
  - apply Forall_impl, HZ.
Qed.

Lemma zs_h_S c n : forall d, zs_h c n d -> zs_h c (S n) d.
Proof.
  induction n as [|n IH]; intros d H; [contradiction|].
  cbn [zs_h] in *. revert H. apply zs_body_mono, IH.
Qed.

Lemma zs_h_le c n m d : (n <= m)%nat -> zs_h c n d -> zs_h c m d.
Proof. induction 1 as [|m Hle IH]; [auto|]. intros Hz. apply zs_h_S. auto. Qed.

Lemma zs_h_sound c n : forall d, zs_h c n d -> ZeroSized c d.
Proof.
  induction n as [|n IH]; intros d H; [contradiction|].
  apply ZeroSized_unfold. cbn [zs_h] in H. revert H. apply zs_body_mono, IH.
Qed.

Lemma Forall_ex_height c (l : list string) :
  Forall (fun x => exists n, zs_h c n x) l -> exists n, Forall (zs_h c n) l.
Proof.
  induction 1 as [|x l [n Hx] _ [m IH]]; [exists O; constructor|].
  exists (Nat.max n m). constructor.
  - eapply zs_h_le; [|exact Hx]. lia.
  - revert IH. apply Forall_impl. intros y. apply zs_h_le. lia.
Qed.

Lemma zs_h_complete c d : ZeroSized c d -> exists n, zs_h c n d.
Proof.
  revert d. apply ZeroSized_ind'. intros d H. unfold zs_body in H.
  assert (Hall : forall l, Forall (fun x => ZeroSized c x /\ exists n, zs_h c n x) l ->
                           exists n, Forall (zs_h c n) l).
  { intros l HF. apply Forall_ex_height. revert HF. apply Forall_impl. intros x [_ Hx]. exact Hx. }
  destruct (get_definition c d) as [[s|lw lo hi el|els|tw vs|fs]|] eqn:L.
  - exists 1%nat. cbn [zs_h]. unfold zs_body. rewrite L. exact H.
  - destruct H as [-> [[-> ->]|[_ [n Hn]]]].
    + exists 1%nat. cbn [zs_h]. unfold zs_body. rewrite L. auto.
    + exists (S n). cbn [zs_h]. unfold zs_body. rewrite L. auto.
  - destruct (Hall _ H) as [n Hn]. exists (S n). cbn [zs_h]. unfold zs_body. rewrite L. exact Hn.
  - destruct H as [-> H]. destruct (Hall _ H) as [n Hn]. exists (S n). cbn [zs_h]. unfold zs_body.
    rewrite L. auto.
  - destruct (Hall _ H) as [n Hn]. exists (S n). cbn [zs_h]. unfold zs_body. rewrite L. exact Hn.
  - contradiction.
Qed.

(** * Every [SOk] answer restores the stack and is exact *)
Lemma all_with_ok {E} (P : string -> Prop) (rec : string -> list string -> sres E (bool * list string)) :
  (forall d st b st', rec d st = SOk (b, st') -> st' = st /\ (b = true <-> P d)) ->
  forall ds st b st', all_with rec ds st = SOk (b, st') -> st' = st /\ (b = true <-> Forall P ds).
Proof.
  intros Hrec. induction ds as [|d ds IH]; cbn [all_with]; intros st b st' H.
  - inversion H; subst. split; [reflexivity|]. split; auto.
  - apply sbind_ok in H as ([b1 st1] & H1 & H2). apply Hrec in H1 as [-> Hb1].
    destruct b1; cbn [negb] in H2.
    + apply IH in H2 as [-> Hb]. split; [reflexivity|]. rewrite Hb. split.
      * intros HF. constructor; [apply Hb1; reflexivity | exact HF].
      * intros HF. inversion HF; assumption.
    + inversion H2; subst. split; [reflexivity|]. split; [discriminate|].
      intros HF. inversion HF; subst. apply Hb1. assumption.
Qed.

Lemma izs_ok c : forall fuel d st b st',
  is_zero_size_impl fuel c d st = SOk (b, st') -> st' = st /\ (b = true <-> ZeroSized c d).
Proof.
  induction fuel as [|fuel IH]; intros d st b st' H; [discriminate|].
  cbn [is_zero_size_impl] in H.
  destruct (on_stack d st) eqn:Hst; [discriminate|].
  apply sbind_ok in H as ([res st1] & H1 & H2). inversion H2; subst; clear H2.
  rewrite ZeroSized_unfold. unfold zs_body.
  pose proof (all_with_ok (ZeroSized c) (is_zero_size_impl fuel c) IH) as Hall.
  destruct (get_definition c d) as [[size|lw lo hi el|els|tw vs|fs]|] eqn:Hd; [| | | | |discriminate].
  - inversion H1; subst. cbn [tl]. split; [reflexivity|]. apply N.eqb_eq.
  - destruct (lw =? 0) eqn:Hlw.
    + apply N.eqb_eq in Hlw. subst lw.
      destruct ((lo =? 0) && (hi =? 0) && negb (range_is_empty lo hi)) eqn:Hr.
      * inversion H1; subst. cbn [tl]. split; [reflexivity|]. unfold range_is_empty in Hr.
        split; [intros _; split; [reflexivity|left; lia] | reflexivity].
      * apply IH in H1 as [-> Hb]. cbn [tl]. split; [reflexivity|]. rewrite Hb.
        unfold range_is_empty in Hr. split; [auto|]. intros [_ [[-> ->]|H]]; [|exact H]. cbn in Hr. discriminate.
    + inversion H1; subst. cbn [tl]. split; [reflexivity|]. split; [discriminate|]. intros [H _]. lia.
  - apply Hall in H1 as [-> Hb]. cbn [tl]. auto.
  - destruct (tw =? 0) eqn:Htw.
    + apply N.eqb_eq in Htw. subst tw. apply Hall in H1 as [-> Hb]. cbn [tl]. split; [reflexivity|].
      rewrite Hb. split; [auto | intros [_ H]; exact H].
    + inversion H1; subst. cbn [tl]. split; [reflexivity|]. split; [discriminate|]. intros [H _]. lia.
  - destruct fs as [fs|fs|]; cbn [field_decls].
    + apply Hall in H1 as [-> Hb]. cbn [tl]. auto.
    + apply Hall in H1 as [-> Hb]. cbn [tl]. auto.
    + inversion H1; subst. cbn [tl]. split; [reflexivity|]. split; auto.
Qed.

(** * Every error answer refutes [ZeroSized] (relative to the stack) *)

(** [all_with] fails exactly at a member on which [rec] fails, the earlier ones being
    [SOk true] with the stack restored. *)
Lemma all_with_err {E} (rec : string -> list string -> sres E (bool * list string)) :
  (forall d st b st', rec d st = SOk (b, st') -> st' = st) ->
  forall ds st e, all_with rec ds st = SErr e -> exists x, In x ds /\ rec x st = SErr e.
Proof.
  intros Hrec. induction ds as [|d ds IH]; cbn [all_with]; intros st e H; [discriminate|].
  apply sbind_err in H as [H|([b1 st1] & H1 & H2)].
  - exists d. split; [left; reflexivity | exact H].
  - apply Hrec in H1 as Hst. subst st1. destruct b1; cbn [negb] in H2; [|discriminate].
    apply IH in H2 as (x & Hx & Hr). exists x. split; [right; exact Hx | exact Hr].
Qed.

Lemma izs_err c : forall fuel d st e,
  is_zero_size_impl fuel c d st = SErr e ->
  forall n, zs_h c n d -> exists s, In s st /\ zs_h c n s.
Proof.
  induction fuel as [|fuel IH]; intros d st e H; [discriminate|].
  cbn [is_zero_size_impl] in H.
  destruct (on_stack d st) eqn:Hst.
  { apply on_stack_true in Hst. intros n Hn. exists d. split; assumption. }
  apply sbind_err in H as [H|([res st1] & _ & H2)]; [|discriminate].
  (* a failing member yields, for every height, a derivation for a stack entry *)
  assert (Hmem : forall m, is_zero_size_impl fuel c m (d :: st) = SErr e ->
                 forall n, zs_h c n m -> (exists s, In s st /\ zs_h c n s) \/ zs_h c n d).
  { intros m Hm n Hn. destruct (IH _ _ _ Hm n Hn) as (s & [<-|Hs] & Hz); eauto. }
  assert (Hloop : forall ds, all_with (is_zero_size_impl fuel c) ds (d :: st) = SErr e ->
                  forall n, Forall (zs_h c n) ds -> (exists s, In s st /\ zs_h c n s) \/ zs_h c n d).
  { intros ds Hds n HF.
    apply all_with_err in Hds as (x & Hx & Hr); [|intros ? ? ? ? Hok; apply (izs_ok _ _ _ _ _ _ Hok)].
    rewrite Forall_forall in HF. eapply Hmem; eauto. }
  (* strong induction on the height removes the alternative "a derivation for d itself" *)
  intros n. induction n as [n IHn] using lt_wf_ind. intros Hn.
  destruct n as [|n]; [contradiction|]. cbn [zs_h] in Hn. unfold zs_body in Hn.
  assert (Hfin : (exists s, In s st /\ zs_h c n s) \/ zs_h c n d -> exists s, In s st /\ zs_h c (S n) s).
  { intros [(s & Hs & Hz)|Hz].
    - exists s. split; [exact Hs | apply zs_h_S, Hz].
    - destruct (IHn n (Nat.lt_succ_diag_r n) Hz) as (s & Hs & Hz'). exists s. split; [exact Hs | apply zs_h_S, Hz']. }
  destruct (get_definition c d) as [[size|lw lo hi el|els|tw vs|fs]|] eqn:Hd; try contradiction.
  - discriminate.
  - destruct (lw =? 0); [|discriminate].
    destruct ((lo =? 0) && (hi =? 0) && negb (range_is_empty lo hi)) eqn:Hr; [discriminate|].
    destruct Hn as [_ [[-> ->]|Hn]]; [cbn in Hr; discriminate|].
    apply Hfin. eapply Hmem; eauto.
  - apply Hfin. eapply Hloop; eauto.
  - destruct (tw =? 0); [|discriminate]. destruct Hn as [_ Hn]. apply Hfin. eapply Hloop; eauto.
  - destruct fs as [fs|fs|]; cbn [field_decls] in Hn; [| |discriminate]; apply Hfin; eapply Hloop; eauto.
Qed.

(** * Fuel *)
Lemma all_with_value {E} (rec : string -> list string -> sres E (bool * list string)) st :
  (forall d, is_value (rec d st)) ->
  (forall d b st', rec d st = SOk (b, st') -> st' = st) ->
  forall ds, is_value (all_with rec ds st).
Proof.
  intros Hv Hst. induction ds as [|d ds IH]; cbn [all_with]; [exact I|].
  apply sbind_value; [apply Hv|]. intros [b st'] Hr. apply Hst in Hr as ->.
  destruct b; cbn [negb]; [exact IH | exact I].
Qed.

Lemma izs_value c : forall fuel d st,
  stack_ok c st -> (length (defs c) < fuel + length st)%nat ->
  is_value (is_zero_size_impl fuel c d st).
Proof.
  induction fuel as [|fuel IH]; intros d st Hok Hf.
  { pose proof (stack_ok_length _ _ Hok). lia. }
  cbn [is_zero_size_impl].
  destruct (on_stack d st) eqn:Hst; [exact I|]. apply on_stack_false in Hst.
  destruct (get_definition c d) as [def|] eqn:Hd; [|exact I].
  assert (Hok' : stack_ok c (d :: st)) by (eapply stack_ok_push; eauto).
  assert (Hrec : forall m, is_value (is_zero_size_impl fuel c m (d :: st))).
  { intros m. apply IH; [exact Hok' | cbn [length]; lia]. }
  assert (Hloop : forall ds, is_value (all_with (is_zero_size_impl fuel c) ds (d :: st))).
  { intros ds. apply all_with_value; [exact Hrec|]. intros m b st' Hm. apply (izs_ok _ _ _ _ _ _ Hm). }
  apply sbind_value; [|intros [res st1] _; exact I].
  destruct def as [size|lw lo hi el|els|tw vs|fs]; try exact I; auto.
  - destruct (lw =? 0); [|exact I].
    destruct ((lo =? 0) && (hi =? 0) && negb (range_is_empty lo hi)); [exact I | apply Hrec].
  - destruct (tw =? 0); [apply Hloop | exact I].
  - destruct fs; [apply Hloop | apply Hloop | exact I].
Qed.

(** * A missing-definition error names a reachable undefined declaration;
      a recursion error points at a stack entry or at a cycle *)
Lemma izs_missing c : forall fuel d st x,
  is_zero_size_impl fuel c d st = SErr (ZMissingDefinition x) ->
  Reach c d x /\ get_definition c x = None.
Proof.
  induction fuel as [|fuel IH]; intros d st x H; [discriminate|].
  cbn [is_zero_size_impl] in H.
  destruct (on_stack d st) eqn:Hst; [discriminate|].
  apply sbind_err in H as [H|([res st1] & _ & H2)]; [|discriminate].
  assert (Hloop : forall ds def, get_definition c d = Some def -> incl ds (members def) ->
                  all_with (is_zero_size_impl fuel c) ds (d :: st) = SErr (ZMissingDefinition x) ->
                  Reach c d x /\ get_definition c x = None).
  { intros ds def Hd Hincl Hds.
    apply all_with_err in Hds as (m & Hm & Hr); [|intros ? ? ? ? Hok; apply (izs_ok _ _ _ _ _ _ Hok)].
    apply IH in Hr as [Hr Hx]. split; [|exact Hx].
    econstructor; [eapply edge_intro; [exact Hd | apply Hincl, Hm] | exact Hr]. }
  destruct (get_definition c d) as [[size|lw lo hi el|els|tw vs|fs]|] eqn:Hd.
  - discriminate.
  - destruct (lw =? 0); [|discriminate].
    destruct ((lo =? 0) && (hi =? 0) && negb (range_is_empty lo hi)); [discriminate|].
    apply IH in H as [Hr Hx]. split; [|exact Hx].
    econstructor; [eapply edge_intro; [exact Hd | left; reflexivity] | exact Hr].
  - eapply Hloop; [reflexivity | apply incl_refl | exact H].
  - destruct (tw =? 0); [|discriminate]. eapply Hloop; [reflexivity | apply incl_refl | exact H].
  - destruct fs as [fs|fs|]; [| |discriminate]; (eapply Hloop; [reflexivity | apply incl_refl | exact H]).
  - inversion H; subst. split; [constructor | exact Hd].
Qed.

(** * The public function, fresh stack *)
Lemma is_zero_size_value c d : is_value (is_zero_size c d).
Proof.
  unfold is_zero_size. apply sbind_value; [|intros [b st] _; exact I].
  apply izs_value; [apply stack_ok_nil | unfold full_fuel; cbn [length]; lia].
Qed.

Lemma is_zero_size_true c d : is_zero_size c d = SOk true <-> ZeroSized c d.
Proof.
  unfold is_zero_size. split.
  - intros H. apply sbind_ok in H as ([b st] & H1 & H2). inversion H2; subst.
    apply izs_ok in H1 as [_ Hb]. apply Hb. reflexivity.
  - intros HZ.
    pose proof (izs_value c (full_fuel c) d [] (stack_ok_nil c)) as Hv.
    destruct (is_zero_size_impl (full_fuel c) c d []) as [[b st]|e| |] eqn:Hr; cbn [sbind].
    + apply izs_ok in Hr as [_ Hb]. f_equal. apply Hb, HZ.
    + exfalso. destruct (zs_h_complete _ _ HZ) as [n Hn].
      destruct (izs_err _ _ _ _ _ Hr n Hn) as (s & [] & _).
    + exfalso. apply Hv. unfold full_fuel. cbn [length]. lia.
    + exfalso. apply Hv. unfold full_fuel. cbn [length]. lia.
Qed.

Lemma is_zero_size_false c d : is_zero_size c d = SOk false -> ~ ZeroSized c d.
Proof.
  unfold is_zero_size. intros H HZ. apply sbind_ok in H as ([b st] & H1 & H2). inversion H2; subst.
  apply izs_ok in H1 as [_ Hb]. apply Hb in HZ. discriminate.
Qed.

Lemma is_zero_size_err c d e : is_zero_size c d = SErr e -> ~ ZeroSized c d.
Proof.
  unfold is_zero_size. intros H HZ. apply sbind_err in H as [H|([b st] & _ & H2)]; [|discriminate].
  destruct (zs_h_complete _ _ HZ) as [n Hn].
  destruct (izs_err _ _ _ _ _ H n Hn) as (s & [] & _).
Qed.

Lemma is_zero_size_missing c d x :
  is_zero_size c d = SErr (ZMissingDefinition x) -> Reach c d x /\ get_definition c x = None.
Proof.
  unfold is_zero_size. intros H. apply sbind_err in H as [H|([b st] & _ & H2)]; [|discriminate].
  eapply izs_missing, H.
Qed.
