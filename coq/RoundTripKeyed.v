(** C01 for ordered, hashed and indexed collections, and the unrestricted theorem. *)
From Coq Require Import String.
From Coq Require Import List NArith Bool Lia Permutation.
From Borsh Require Import Bytes BytesFacts Result Loop LoopFacts Ty TyInd Ser De Entry CodecFacts RoundTrip OrderFacts SortFacts.
Import ListNotations.
Local Open Scope N_scope.

(** [logical] on well-typed elements, the identity elsewhere: a total key-preserving map *)
Definition lg (t : ty) (x : val) : val := if has_ty t x then logical t x else x.

Lemma map_lg t l : forallb (has_ty t) l = true -> map (lg t) l = map (logical t) l.
Proof.
  intros H. apply map_ext_in. intros x Hx. unfold lg. now rewrite (forallb_In _ _ _ H Hx).
Qed.

Lemma all2_pair {A B} (f : A -> B -> bool) a b l :
  all2 f [a; b] l = true -> exists x y, l = [x; y] /\ f a x = true /\ f b y = true.
Proof.
  destruct l as [|x [|y [|z r]]]; cbn [all2]; intros H; try discriminate.
  - rewrite andb_false_r in H. discriminate.
  - rewrite andb_true_r in H. apply andb_true_iff in H. destruct H. eauto.
  - rewrite !andb_false_r in H. discriminate.
Qed.

Section Keyed.
  Variables (k : seq_kind) (t' : ty).
  Hypothesis Hk : is_keyed k = true.
  Hypothesis Hwf : wf (TSeq k t') = true.

  Let kt := key_ty k t'.
  Let key := key_val k.
  Let cmp := cmp_val kt.
  Let P := fun x => has_ty kt (key x) = true.

  Lemma keyed_key_ok : key_ok kt = true.
  Proof.
    pose proof Hwf as W. cbn [wf] in W. rewrite Hk in W.
    repeat (apply andb_true_iff in W; destruct W as [W ?]). assumption.
  Qed.

  Lemma map_shape : is_map k = true -> exists a b, t' = TProd PTuple [a; b].
  Proof.
    intros Hm. pose proof Hwf as W. cbn [wf] in W. rewrite Hm in W.
    repeat (apply andb_true_iff in W; destruct W as [W ?]).
    destruct t' as [| | | | | |[] [|a [|b [|]]]| |]; try discriminate. eauto.
  Qed.

  (** the key of a well-typed element is a well-typed key *)
  Lemma key_typed x : has_ty t' x = true -> P x.
  Proof.
    intros Hx. unfold P, kt, key, key_ty, key_val. destruct (is_map k) eqn:Hm; [|exact Hx].
    destruct (map_shape Hm) as (a & b & E). rewrite E in *. cbn [has_ty] in Hx.
    destruct x as [|lx|]; try discriminate.
    destruct (all2_pair _ _ _ _ Hx) as (ka & va & -> & Ha & _). exact Ha.
  Qed.

  (** [logical] leaves the key of a well-typed element alone *)
  Lemma key_lg x : key (lg t' x) = key x.
  Proof.
    unfold lg. destruct (has_ty t' x) eqn:Hx; [|reflexivity].
    pose proof keyed_key_ok as Hko. unfold kt, key_ty in Hko.
    unfold key, key_val. destruct (is_map k) eqn:Hm.
    - destruct (map_shape Hm) as (a & b & E). rewrite E in *. cbn [has_ty] in Hx.
      destruct x as [|lx|]; try discriminate.
      destruct (all2_pair _ _ _ _ Hx) as (ka & va & -> & Ha & _).
      cbn [logical prod_skips pad_false length map_fields].
      now rewrite (logical_key_id a ka Hko Ha).
    - now rewrite (logical_key_id t' x Hko Hx).
  Qed.

  Lemma P_lg x : P x -> P (lg t' x).
  Proof. unfold P. now rewrite key_lg. Qed.

  Lemma Forall_P l : forallb (has_ty t') l = true -> Forall P l.
  Proof. intros H. apply Forall_forall. intros x Hx. apply key_typed. exact (forallb_In _ _ _ H Hx). Qed.

  Lemma Forall_P_lg l : Forall P l -> Forall P (map (lg t') l).
  Proof. intros H. apply Forall_forall. intros y Hy. apply in_map_iff in Hy. destruct Hy as (x & <- & Hx).
         apply P_lg. rewrite Forall_forall in H. now apply H. Qed.

  Lemma c_anti : forall a b, cmp a b = CompOpp (cmp b a).
  Proof. intros a b. apply cmp_val_antisym. Qed.
  Lemma c_eq : forall a b c, P a -> P b -> P c -> cmp (key a) (key b) = Eq -> cmp (key a) (key c) = cmp (key b) (key c).
  Proof. intros a b c Ha Hb Hc. apply (cmp_val_eq_cong kt keyed_key_ok); assumption. Qed.
  Lemma c_lt : forall a b c, P a -> P b -> P c -> cmp (key a) (key b) = Lt -> cmp (key b) (key c) = Lt -> cmp (key a) (key c) = Lt.
  Proof. intros a b c Ha Hb Hc. apply (cmp_val_lt_trans kt keyed_key_ok); assumption. Qed.

  Lemma not_zst_of_ok v : snd (ser (TSeq k t') v) = None -> mem_zst kt = false.
  Proof.
    intros Hok. destruct (mem_zst kt) eqn:Ez; [|reflexivity]. exfalso.
    cbn [ser] in Hok. fold kt in Hok. rewrite Ez in Hok.
    destruct k; cbn in Hk; try discriminate; cbn in Hok; discriminate.
  Qed.

  Lemma slice_is_each : uses_slice_path k = false.
  Proof. destruct k; cbn in Hk; try discriminate; reflexivity. Qed.

  Variable c : cfg.
  Hypothesis IH : RT c t'.

  (** decoding "count, then these elements one by one" *)
  Lemma keyed_body l rest :
    forallb (has_ty t') l = true -> len l < U32_LIMIT -> snd (each_out (ser t') l) = None ->
    dec_vec slice_reader (is_u8 t') (dec slice_reader c t') (le 4 (len l) ++ sbytes (each_out (ser t') l) ++ rest)
    = Ok (map (lg t') l, rest).
  Proof.
    intros Hty Hlen Hok. rewrite (map_lg t' l Hty).
    pose proof (seq_body_rt c t' false l rest IH Hty Hlen) as H.
    rewrite andb_false_r in H. unfold slice_out in H. now apply H.
  Qed.

  Lemma post_ordered elems :
    is_ordered k = true -> Forall P elems -> strictly_ascending cmp key elems = true ->
    post c k kt (map (lg t') elems) = Ok (VL (map (lg t') elems)).
  Proof.
    intros Ho HP Hsa. unfold post. fold cmp key.
    rewrite (strictly_ascending_map cmp key (lg t') elems key_lg), Hsa, Ho. cbn [negb andb].
    rewrite andb_false_r.
    rewrite (collect_sorted_id cmp key P c_anti c_lt) by
      (try apply Forall_P_lg; auto; now rewrite (strictly_ascending_map cmp key (lg t') elems key_lg)).
    destruct k; cbn in Ho; try discriminate; reflexivity.
  Qed.

  Lemma post_index elems :
    is_index k = true -> Forall P elems -> no_dup_keys cmp key elems = true ->
    post c k kt (map (lg t') elems) = Ok (VL (map (lg t') elems)).
  Proof.
    intros Hi HP Hnd. unfold post. fold cmp key.
    assert (Ho : is_ordered k = false) by (destruct k; cbn in Hi; try discriminate; reflexivity).
    rewrite Ho. cbn [andb].
    rewrite (collect_index_id cmp key P c_anti) by
      (try apply Forall_P_lg; auto; now rewrite (no_dup_keys_map cmp key (lg t') elems key_lg)).
    destruct k; cbn in Hi; try discriminate; reflexivity.
  Qed.

  (** the common shape: a count, the elements one by one, then [post] *)
  Lemma keyed_rt elems result rest :
    forallb (has_ty t') elems = true ->
    snd (emit_len (len elems) >> each_out (ser t') elems) = None ->
    post c k kt (map (lg t') elems) = Ok result ->
    (x <- dec_vec slice_reader (is_u8 t') (dec slice_reader c t')
            (sbytes (emit_len (len elems) >> each_out (ser t') elems) ++ rest) ;;
     (let '(l, s') := x in v <- post c k kt l ;; Ok (v, s'))) = Ok (result, rest).
  Proof.
    intros Hty Hok Hpost.
    destruct (len_then_body _ _ Hok) as (Hlen & Hbody & ->). rewrite <- app_assoc.
    rewrite (keyed_body elems rest Hty Hlen Hbody). cbn [bind]. rewrite Hpost. reflexivity.
  Qed.

End Keyed.

Lemma rt_seq_keyed c k t' : is_keyed k = true -> wf (TSeq k t') = true -> RT c t' -> RT c (TSeq k t').
Proof.
  intros Hk Hwf IH v Hty Hok rest.
  pose proof (not_zst_of_ok k t' Hk Hwf v Hok) as Hz.
  set (kt := key_ty k t') in *. set (key := key_val k). set (cmp := cmp_val kt).
  pose (P := fun x => has_ty kt (key x) = true).
  assert (HFP : forall l, forallb (has_ty t') l = true -> Forall P l) by (apply (Forall_P k t' Hwf)).
  assert (Hpo : forall elems, is_ordered k = true -> Forall P elems -> strictly_ascending cmp key elems = true ->
                  post c k kt (map (lg t') elems) = Ok (VL (map (lg t') elems))) by (apply (post_ordered k t' Hk Hwf c)).
  assert (Hpi : forall elems, is_index k = true -> Forall P elems -> no_dup_keys cmp key elems = true ->
                  post c k kt (map (lg t') elems) = Ok (VL (map (lg t') elems))) by (apply (post_index k t' Hk Hwf c)).
  assert (Hkr : forall elems result rest, forallb (has_ty t') elems = true ->
                  snd (emit_len (len elems) >> each_out (ser t') elems) = None ->
                  post c k kt (map (lg t') elems) = Ok result ->
                  (x <- dec_vec slice_reader (is_u8 t') (dec slice_reader c t')
                          (sbytes (emit_len (len elems) >> each_out (ser t') elems) ++ rest) ;;
                   (let '(l, s') := x in v <- post c k kt l ;; Ok (v, s'))) = Ok (result, rest))
    by (apply (keyed_rt k t' c IH)).
  assert (Hklg : forall x, key (lg t' x) = key x) by (apply (key_lg k t' Hk Hwf)).
  assert (Hss : forall l, Forall P l -> no_dup_keys cmp key l = true -> strictly_ascending cmp key (sort_by cmp key l) = true).
  { apply (sort_by_sorted cmp key P).
    - apply (c_anti k t').
    - apply (c_lt k t' Hk Hwf). }
  cbn [dec]. fold kt. rewrite Hz.
  destruct k eqn:Ek; cbn in Hk; try discriminate Hk;
    (destruct v as [|l|]; cbn [has_ty] in Hty; try discriminate Hty);
    apply andb_true_iff in Hty; destruct Hty as [Hel Hord]; fold kt key cmp in Hord;
    pose proof (HFP l Hel) as HP;
    cbn [ser ser_checks_zst uses_slice_path andb] in Hok |- *; fold kt key cmp in Hok |- *;
    rewrite Hz in Hok |- *; rewrite ?andb_false_r in Hok |- *; unfold slice_out in Hok |- *;
    cbn [logical]; fold kt key cmp.
  - (* BTreeSet *)
    rewrite <- (map_lg t' l Hel).
    apply Hkr; [exact Hel|exact Hok|]. apply Hpo; [reflexivity|exact HP|exact Hord].
  - (* HashSet *)
    set (sorted := sort_by cmp key l) in *.
    assert (Hperm : Permutation sorted l) by apply sort_by_perm.
    assert (Hels : forallb (has_ty t') sorted = true).
    { apply forallb_forall. intros x Hx. apply (forallb_In _ _ _ Hel). eapply Permutation_in; eauto. }
    rewrite <- (map_lg t' l Hel), (sort_by_map cmp key (lg t') l Hklg). fold sorted.
    apply Hkr; [exact Hels|exact Hok|]. apply Hpo; [reflexivity|now apply HFP|]. now apply Hss.
  - (* IndexSet *)
    rewrite <- (map_lg t' l Hel).
    apply Hkr; [exact Hel|exact Hok|]. apply Hpi; [reflexivity|exact HP|exact Hord].
  - (* BTreeMap *)
    rewrite <- (map_lg t' l Hel).
    apply Hkr; [exact Hel|exact Hok|]. apply Hpo; [reflexivity|exact HP|exact Hord].
  - (* HashMap *)
    set (sorted := sort_by cmp key l) in *.
    assert (Hperm : Permutation sorted l) by apply sort_by_perm.
    assert (Hels : forallb (has_ty t') sorted = true).
    { apply forallb_forall. intros x Hx. apply (forallb_In _ _ _ Hel). eapply Permutation_in; eauto. }
    rewrite <- (map_lg t' l Hel), (sort_by_map cmp key (lg t') l Hklg). fold sorted.
    apply Hkr; [exact Hels|exact Hok|]. apply Hpo; [reflexivity|now apply HFP|]. now apply Hss.
  - (* IndexMap *)
    rewrite <- (map_lg t' l Hel).
    apply Hkr; [exact Hel|exact Hok|]. apply Hpi; [reflexivity|exact HP|exact Hord].
Qed.

(** * The unrestricted round trip *)
Theorem rt_all c t : wf t = true -> RT c t.
Proof.
  induction t as [p|u|k|k|k t' IH|n t' IH|k ts IH|k vs IH|w t' IH] using ty_ind'; intros Hwf.
  - apply rt_prim.
  - apply rt_unit.
  - apply rt_raw.
  - apply rt_text.
  - assert (Hw' : wf t' = true).
    { cbn [wf] in Hwf. repeat (apply andb_true_iff in Hwf; destruct Hwf as [Hwf ?]). exact Hwf. }
    destruct (is_keyed k) eqn:Hk.
    + apply rt_seq_keyed; auto.
    + apply rt_seq_plain; auto.
  - apply rt_array. apply IH. exact Hwf.
  - apply rt_prod; [|exact Hwf]. exact IH.
  - apply rt_sum; [|exact Hwf]. exact IH.
  - intros v Hty Hok rest. cbn [has_ty ser dec logical wf] in *. apply IH; assumption.
Qed.

Lemma round_trip c t v bs :
  wf t = true -> has_ty t v = true -> enc t v = Ok bs ->
  forall rest, dec_slice c t (bs ++ rest) = Ok (logical t v, rest).
Proof.
  intros Hwf Hty Henc rest. apply enc_ok_iff in Henc. destruct Henc as [Hok ->].
  unfold dec_slice. now apply rt_all.
Qed.

Lemma from_slice_round_trip c t v bs :
  wf t = true -> has_ty t v = true -> to_vec t v = Ok bs -> from_slice c t bs = Ok (logical t v).
Proof.
  intros Hwf Hty Henc. unfold from_slice, try_from_slice.
  rewrite <- (app_nil_r bs). rewrite (round_trip c t v bs Hwf Hty Henc []). reflexivity.
Qed.
