(** [BorshSchema] for the type universe of Ty.v: one clause per impl of
    borsh/src/schema.rs, plus the two derive expansions of
    borsh-derive/src/internals/schema/{structs,enums}/mod.rs.  Definitions only.

    - [has_schema t]: a [BorshSchema] impl exists for [t] (no impl: [&T], [bytes::Bytes],
      [bytes::BytesMut], [bson::oid::ObjectId], [indexmap::IndexMap/IndexSet],
      [SocketAddr], [SocketAddrV4], [SocketAddrV6]).
    - [decl_of t]: the string [<T as BorshSchema>::declaration()] returns.
    - [defs_of t ds]: the effect of [T::add_definitions_recursively(&mut ds)]: the same
      [add_definition] calls in the same order; the [assert_eq!] of [add_definition]
      failing is [Panic P_REDEFINE].
    - [definitions : BTreeMap<Declaration, Definition>] is the association list sorted by
      [String.compare] (= Rust's [Ord for String], bytewise); [insert] keeps it sorted.
    - [schema_of t]: [BorshSchemaContainer::for_type::<T>()]. *)
From Coq Require Import String Ascii List NArith ZArith Bool.
From Borsh Require Import Bytes Result Ty Schema.
Import ListNotations.
Local Open Scope N_scope.
Local Open Scope string_scope.

(** [Z.of_N] / [Z.to_N] under names of their own: extracting the library functions would
    rename [Byte.of_N]/[Byte.to_N] in the extracted module (global renaming of clashes). *)
Definition z_of_n (n : N) : Z := match n with N0 => Z0 | Npos p => Zpos p end.
Definition z_to_n (z : Z) : N := match z with Zpos p => Npos p | _ => N0 end.

(** * Decimal printing ([{}] of a [usize]) *)
Definition digit_char (d : N) : ascii := ascii_of_N (48 + d).
Fixpoint dec_go (fuel : nat) (n : N) (acc : string) : string :=
  match fuel with
  | O => acc
  | S f =>
      let acc' := String (digit_char (n mod 10)) acc in
      if (n / 10 =? 0)%N then acc' else dec_go f (n / 10) acc'
  end.
Definition string_of_N (n : N) : string := dec_go (S (N.size_nat n)) n "".

(** [params.join(", ")] *)
Fixpoint join_comma (l : list string) : string :=
  match l with
  | [] => ""
  | [x] => x
  | x :: r => x ++ ", " ++ join_comma r
  end.

(** * Boolean equality of definitions ([PartialEq for Definition], derived) *)
Fixpoint list_eqb {A} (eqb : A -> A -> bool) (a b : list A) : bool :=
  match a, b with
  | [], [] => true
  | x :: a', y :: b' => eqb x y && list_eqb eqb a' b'
  | _, _ => false
  end.
Definition pair_str_eqb (a b : string * string) : bool :=
  String.eqb (fst a) (fst b) && String.eqb (snd a) (snd b).
Definition variant_eqb (a b : Z * string * string) : bool :=
  Z.eqb (fst (fst a)) (fst (fst b)) && String.eqb (snd (fst a)) (snd (fst b)) && String.eqb (snd a) (snd b).
Definition fields_eqb (a b : fields) : bool :=
  match a, b with
  | NamedFields x, NamedFields y => list_eqb pair_str_eqb x y
  | UnnamedFields x, UnnamedFields y => list_eqb String.eqb x y
  | EmptyFields, EmptyFields => true
  | _, _ => false
  end.
Definition definition_eqb (a b : definition) : bool :=
  match a, b with
  | Primitive x, Primitive y => (x =? y)%N
  | Sequence w l h e, Sequence w' l' h' e' => (w =? w')%N && (l =? l')%N && (h =? h')%N && String.eqb e e'
  | Tuple x, Tuple y => list_eqb String.eqb x y
  | Enum w x, Enum w' y => (w =? w')%N && list_eqb variant_eqb x y
  | Struct x, Struct y => fields_eqb x y
  | _, _ => false
  end.

(** * The map of definitions *)
Definition defmap := list (string * definition).

(** [BTreeMap::insert] of a key that is absent: before the first larger key. *)
Fixpoint insert (k : string) (v : definition) (l : defmap) : defmap :=
  match l with
  | [] => [(k, v)]
  | (k', v') :: r =>
      match String.compare k k' with
      | Lt => (k, v) :: l
      | _ => (k', v') :: insert k v r
      end
  end.

(** [pub fn add_definition]: [Entry::Occupied] -> [assert_eq!], [Entry::Vacant] -> insert. *)
Definition add_definition (d : string) (def : definition) (ds : defmap) : result defmap :=
  match lookup ds d with
  | Some e => if definition_eqb e def then Ok ds else Panic P_REDEFINE
  | None => Ok (insert d def ds)
  end.

Definition DEFAULT_LENGTH_WIDTH : N := 4.
Definition U32_MAX : N := 4294967295.
(** [Sequence { DEFAULT_LENGTH_WIDTH, DEFAULT_LENGTH_RANGE, elements }] *)
Definition seq_def (el : string) : definition := Sequence DEFAULT_LENGTH_WIDTH 0 U32_MAX el.
(** [[T; N]] *)
Definition array_def (n : N) (el : string) : definition := Sequence 0 n n el.

(** * Primitives: the table of [impl_for_primitives!] / [impl_for_renamed_primitives!] *)
Definition width_bits (w : width) : string :=
  match w with W1 => "8" | W2 => "16" | W4 => "32" | W8 => "64" | W16 => "128" end.
Definition prim_decl (p : prim) : string :=
  match p with
  | PInt false w => "u" ++ width_bits w
  | PInt true w => "i" ++ width_bits w
  | PSize false => "u64"                       (* impl_for_renamed_primitives!(usize: u64 => 8) *)
  | PSize true => "i64"
  | PNonZero false w => "NonZeroU" ++ width_bits w
  | PNonZero true w => "NonZeroI" ++ width_bits w
  | PNonZeroSize => "NonZeroUsize"
  | PFloat false => "f32"
  | PFloat true => "f64"
  | PBool => "bool"
  | PAsciiChar => "AsciiChar"
  end.
(** the [$size] column, transcribed entry by entry (NOT computed from [prim_width]) *)
Definition prim_schema_width (p : prim) : N :=
  match p with
  | PBool => 1
  | PFloat false => 4
  | PFloat true => 8
  | PInt true W1 => 1 | PInt true W2 => 2 | PInt true W4 => 4 | PInt true W8 => 8 | PInt true W16 => 16
  | PInt false W1 => 1 | PInt false W2 => 2 | PInt false W4 => 4 | PInt false W8 => 8 | PInt false W16 => 16
  | PSize true => 8
  | PSize false => 8
  | PNonZero true W1 => 1 | PNonZero true W2 => 2 | PNonZero true W4 => 4 | PNonZero true W8 => 8
  | PNonZero true W16 => 16
  | PNonZero false W1 => 1 | PNonZero false W2 => 2 | PNonZero false W4 => 4 | PNonZero false W8 => 8
  | PNonZero false W16 => 16
  | PNonZeroSize => 8
  | PAsciiChar => 1
  end.
Definition all_prims : list prim :=
  let ws := [W1; W2; W4; W8; W16] in
  map (PInt false) ws ++ map (PInt true) ws ++ [PSize false; PSize true] ++
  map (PNonZero false) ws ++ map (PNonZero true) ws ++ [PNonZeroSize; PFloat false; PFloat true; PBool; PAsciiChar].

Definition UNIT_DECL : string := "()".

(** * Struct fields, as the derive computes them: non-skipped fields only; no field left =>
      [Fields::Empty]; [fnames = []] stands for a tuple struct/variant. *)
Fixpoint keep {A} (sk : list bool) (l : list A) : list A :=
  match l with
  | [] => []
  | x :: r =>
      match sk with
      | true :: sr => keep sr r
      | _ :: sr => x :: keep sr r
      | [] => x :: keep [] r
      end
  end.
Definition mk_fields (fnames : list string) (sk : list bool) (decls : list string) : fields :=
  let ds := keep sk decls in
  match ds with
  | [] => EmptyFields
  | _ => match fnames with
         | [] => UnnamedFields ds
         | _ => NamedFields (combine (keep sk fnames) ds)
         end
  end.

Definition range_name (r : range_kind) : string :=
  match r with
  | RRange => "Range" | RRangeInclusive => "RangeInclusive" | RRangeFrom => "RangeFrom"
  | RRangeTo => "RangeTo" | RRangeToInclusive => "RangeToInclusive"
  end.
Definition range_fields (r : range_kind) : list string :=
  match r with
  | RRange | RRangeInclusive => ["start"; "end"]
  | RRangeFrom => ["start"]
  | RRangeTo | RRangeToInclusive => ["end"]
  end.

Definition seq_name (k : seq_kind) : string :=
  match k with
  | SVec | SSlice => "Vec"                       (* [T], Box<[T]>, Cow<[T]> declare "Vec<T>" *)
  | SDeque => "VecDeque" | SList => "LinkedList"
  | SBTreeSet => "BTreeSet" | SHashSet => "HashSet" | SIndexSet => "IndexSet"
  | SBTreeMap => "BTreeMap" | SHashMap => "HashMap" | SIndexMap => "IndexMap"
  end.

Definition nth_str (l : list string) (i : nat) : string := nth i l "".

(** * decl_of *)
Fixpoint decl_of (t : ty) : string :=
  match t with
  | TPrim p => prim_decl p
  | TUnit (UUnit | UPhantom) => UNIT_DECL
  | TUnit URangeFull => "RangeFull"
  | TRaw RIpv4 => "Ipv4Addr"
  | TRaw RIpv6 => "Ipv6Addr"
  | TRaw RObjectId => ""
  | TText (XString | XStr) => "String"
  | TText (XAsciiString | XAsciiStr) => "AsciiString"
  | TText (XBytes | XBytesMut) => ""
  | TSeq k t' =>
      if is_map k then
        match t' with
        | TProd _ [a; b] => seq_name k ++ "<" ++ decl_of a ++ ", " ++ decl_of b ++ ">"
        | _ => ""
        end
      else seq_name k ++ "<" ++ decl_of t' ++ ">"
  | TArray n t' => "[" ++ decl_of t' ++ "; " ++ string_of_N n ++ "]"
  | TProd k ts =>
      match k with
      | PTuple =>
          match ts with
          | [a] => "(" ++ decl_of a ++ ",)"
          | _ => "(" ++ join_comma (map (fun x => decl_of x) ts) ++ ")"
          end
      | PRange r => match ts with a :: _ => range_name r ++ "<" ++ decl_of a ++ ">" | [] => "" end
      | PStruct name _ _ => name
      | PSockV4 | PSockV6 | PVariant _ _ => ""
      end
  | TSum k vs =>
      match k with
      | KOption => match vs with [_; a] => "Option<" ++ decl_of a ++ ">" | _ => "" end
      | KResult => match vs with [a; b] => "Result<" ++ decl_of a ++ ", " ++ decl_of b ++ ">" | _ => "" end
      | KIpAddr => "IpAddr"
      | KSocketAddr => ""
      | KEnum name _ _ => name
      end
  | TWrap _ t' => decl_of t'
  end.

(** * has_schema *)
Section Fields.
  Variable f : ty -> bool.
  (** every non-skipped field satisfies [f] *)
  Fixpoint fields_all (ts : list ty) (sk : list bool) : bool :=
    match ts with
    | [] => true
    | t :: tr =>
        match sk with
        | true :: sr => fields_all tr sr
        | _ :: sr => f t && fields_all tr sr
        | [] => f t && fields_all tr []
        end
    end.
End Fields.

(** field names: none (tuple struct / variant) or one per field *)
Definition names_ok (fn : list string) (n : nat) : bool :=
  match fn with [] => true | _ => Nat.eqb (length fn) n end.

Fixpoint has_schema (t : ty) : bool :=
  match t with
  | TPrim _ | TUnit _ => true
  | TRaw RIpv4 | TRaw RIpv6 => true
  | TRaw RObjectId => false
  | TText (XString | XStr | XAsciiString | XAsciiStr) => true
  | TText (XBytes | XBytesMut) => false
  | TSeq k t' =>
      negb (is_index k) && has_schema t' &&
      (if is_map k then match t' with TProd PTuple [_; _] => true | _ => false end else true)
  | TArray _ t' => has_schema t'
  | TProd k ts =>
      match k with
      | PTuple => Nat.leb 1 (length ts) && Nat.leb (length ts) 21 && forallb (fun x => has_schema x) ts
      | PRange r =>
          (* Range<T>: one type argument, so every field has T's declaration *)
          Nat.eqb (length ts) (length (range_fields r)) && forallb (fun x => has_schema x) ts &&
          match ts with a :: tr => forallb (fun x => String.eqb (decl_of x) (decl_of a)) tr | [] => true end
      | PSockV4 | PSockV6 => false
      | PStruct _ fn sk =>
          names_ok fn (length ts) && Nat.eqb (length sk) (length ts) && fields_all (fun x => has_schema x) ts sk
      | PVariant _ _ => false                     (* not a type on its own *)
      end
  | TSum k vs =>
      match k with
      | KOption => match vs with [TProd (PVariant [] []) []; t'] => has_schema t' | _ => false end
      | KResult => match vs with [a; b] => has_schema a && has_schema b | _ => false end
      | KIpAddr => match vs with [TRaw RIpv4; TRaw RIpv6] => true | _ => false end
      | KSocketAddr => false
      | KEnum _ vn tags =>
          Nat.eqb (length vn) (length vs) && Nat.eqb (length tags) (length vs) &&
          forallb (fun v => match v with
                            | TProd (PVariant fn sk) ts =>
                                names_ok fn (length ts) && Nat.eqb (length sk) (length ts) &&
                                fields_all (fun x => has_schema x) ts sk
                            | _ => false
                            end) vs
      end
  | TWrap w t' => match w with WRef => false | _ => has_schema t' end
  end.

(** * defs_of *)

(** The expansion of [#[derive(BorshSchema)] struct]: the definition, then the field types
    only if the declaration was absent before ([no_recursion_flag]). *)
Definition derived_struct (name : string) (fs : fields) (rec : defmap -> result defmap) (ds : defmap) : result defmap :=
  let no_recursion_flag := match lookup ds name with None => true | Some _ => false end in
  ds1 <- add_definition name (Struct fs) ds ;;
  if no_recursion_flag then rec ds1 else Ok ds1.

Section DefsComb.
  Variable f : ty -> defmap -> result defmap.
  (** [$( $name::add_definitions_recursively(definitions); )+] *)
  Fixpoint defs_each (ts : list ty) (ds : defmap) : result defmap :=
    match ts with
    | [] => Ok ds
    | t :: tr => ds1 <- f t ds ;; defs_each tr ds1
    end.
  (** the same over the non-skipped fields *)
  Fixpoint defs_fields (ts : list ty) (sk : list bool) (ds : defmap) : result defmap :=
    match ts with
    | [] => Ok ds
    | t :: tr =>
        match sk with
        | true :: sr => defs_fields tr sr ds
        | _ :: sr => ds1 <- f t ds ;; defs_fields tr sr ds1
        | [] => ds1 <- f t ds ;; defs_fields tr [] ds1
        end
    end.
End DefsComb.

Definition u8_defs (ds : defmap) : result defmap := add_definition "u8" (Primitive 1) ds.
Definition unit_defs (ds : defmap) : result defmap := add_definition UNIT_DECL (Primitive 0) ds.

(** [ip_addr_std_derive_impl::Ipv4Addr { octets: [u8; 4] }] and [Ipv6Addr { octets: [u8; 16] }] *)
Definition ip_decl (n : N) : string := if (n =? 4)%N then "Ipv4Addr" else "Ipv6Addr".
Definition octets_decl (n : N) : string := "[u8; " ++ string_of_N n ++ "]".
Definition ip_defs (n : N) (ds : defmap) : result defmap :=
  derived_struct (ip_decl n) (NamedFields [("octets", octets_decl n)])
    (fun ds => ds1 <- add_definition (octets_decl n) (array_def n "u8") ds ;; u8_defs ds1) ds.

(** [ip_addr_std_derive_impl::IpAddr { V4(std::net::Ipv4Addr), V6(std::net::Ipv6Addr) }] *)
Definition ipaddr_def : definition := Enum 1 [(0%Z, "V4", "IpAddrV4"); (1%Z, "V6", "IpAddrV6")].
Definition ipaddr_defs (ds : defmap) : result defmap :=
  ds1 <- derived_struct "IpAddrV4" (UnnamedFields ["Ipv4Addr"]) (ip_defs 4) ds ;;
  ds2 <- derived_struct "IpAddrV6" (UnnamedFields ["Ipv6Addr"]) (ip_defs 16) ds1 ;;
  add_definition "IpAddr" ipaddr_def ds2.

(** the variant table of a derived enum: [(u8::from(discriminant) as i64, "Variant", "EnumVariant")] *)
Fixpoint enum_variants (name : string) (vn : list string) (tags : list N) : list (Z * string * string) :=
  match vn, tags with
  | v :: vr, tg :: tr => (z_of_n tg, v, name ++ v) :: enum_variants name vr tr
  | _, _ => []
  end.

Fixpoint defs_of (t : ty) {struct t} : defmap -> result defmap :=
  match t with
  | TPrim p => add_definition (prim_decl p) (Primitive (prim_schema_width p))
  | TUnit (UUnit | UPhantom) => unit_defs
  | TUnit URangeFull => add_definition "RangeFull" (Struct EmptyFields)
  | TRaw RIpv4 => ip_defs 4
  | TRaw RIpv6 => ip_defs 16
  | TRaw RObjectId => fun ds => Ok ds
  | TText (XString | XStr) => fun ds =>
      ds1 <- add_definition "String" (seq_def "u8") ds ;; u8_defs ds1
  | TText (XAsciiString | XAsciiStr) => fun ds =>
      ds1 <- add_definition "AsciiString" (seq_def "AsciiChar") ds ;;
      add_definition "AsciiChar" (Primitive 1) ds1
  | TText (XBytes | XBytesMut) => fun ds => Ok ds
  | TSeq k t' => fun ds =>
      ds1 <- add_definition (decl_of t) (seq_def (decl_of t')) ds ;; defs_of t' ds1
  | TArray n t' => fun ds =>
      ds1 <- add_definition (decl_of t) (array_def n (decl_of t')) ds ;; defs_of t' ds1
  | TProd k ts =>
      match k with
      | PTuple => fun ds =>
          ds1 <- add_definition (decl_of t) (Tuple (map (fun x => decl_of x) ts)) ds ;;
          defs_each (fun x => defs_of x) ts ds1
      | PRange r => fun ds =>
          ds1 <- add_definition (decl_of t)
                   (Struct (NamedFields (combine (range_fields r) (map (fun x => decl_of x) ts)))) ds ;;
          match ts with a :: _ => defs_of a ds1 | [] => Ok ds1 end
      | PStruct name fn sk =>
          derived_struct name (mk_fields fn sk (map (fun x => decl_of x) ts))
            (defs_fields (fun x => defs_of x) ts sk)
      | PSockV4 | PSockV6 | PVariant _ _ => fun ds => Ok ds
      end
  | TSum k vs =>
      match k with
      | KOption => fun ds =>
          match vs with
          | [_; a] =>
              ds1 <- add_definition (decl_of t)
                       (Enum 1 [(0%Z, "None", UNIT_DECL); (1%Z, "Some", decl_of a)]) ds ;;
              ds2 <- defs_of a ds1 ;;
              unit_defs ds2
          | _ => Ok ds
          end
      | KResult => fun ds =>
          match vs with
          | [a; b] =>
              ds1 <- add_definition (decl_of t)
                       (Enum 1 [(1%Z, "Ok", decl_of a); (0%Z, "Err", decl_of b)]) ds ;;
              ds2 <- defs_of a ds1 ;;
              defs_of b ds2
          | _ => Ok ds
          end
      | KIpAddr => ipaddr_defs
      | KSocketAddr => fun ds => Ok ds
      | KEnum name vn tags => fun ds =>
          (* per variant: the inner struct [<Enum><Variant>] (a derived struct); then the enum itself *)
          ds1 <- (fix go (vs : list ty) (i : nat) (ds : defmap) {struct vs} : result defmap :=
                    match vs with
                    | [] => Ok ds
                    | v :: vr =>
                        ds1 <- match v with
                               | TProd (PVariant fn sk) ts =>
                                   derived_struct (name ++ nth_str vn i)
                                     (mk_fields fn sk (map (fun x => decl_of x) ts))
                                     (defs_fields (fun x => defs_of x) ts sk) ds
                               | _ => Ok ds
                               end ;;
                        go vr (S i) ds1
                    end) vs O ds ;;
          add_definition name (Enum 1 (enum_variants name vn tags)) ds1
      end
  | TWrap _ t' => defs_of t'
  end.

(** [BorshSchemaContainer::for_type::<T>()] *)
Definition schema_of (t : ty) : result container :=
  ds <- defs_of t [] ;; Ok {| root := decl_of t; defs := ds |}.
