(** C02: what the model of the encoder writes is what the reference encoder of Spec.v
    prescribes for the logical value. *)
From Coq Require Import String.
From Coq Require Import List NArith Bool Lia Permutation.
From Coq.Strings Require Import Byte.
From Borsh Require Import Bytes BytesFacts Result Loop LoopFacts Ty TyInd Ser De Entry CodecFacts
  RoundTrip OrderFacts SortFacts RoundTripKeyed Spec SpecFacts.
Import ListNotations.
Local Open Scope N_scope.

Definition CF (t : ty) : Prop :=
  forall v, has_ty t v = true -> snd (ser t v) = None ->
            spec_enc t (logical t v) = Some (sbytes (ser t v)).

Lemma cf_prim p : CF (TPrim p).
Proof.
  intros v Hty Hok. destruct v as [n| |]; cbn [has_ty] in Hty; try discriminate.
  cbn [ser logical spec_enc] in *. destruct (prim_ser_check p n) eqn:Es; [discriminate|].
  rewrite sbytes_emit. now apply spec_prim_ok.
Qed.

Lemma cf_unit u : CF (TUnit u).
Proof. intros v Hty Hok. cbn [has_ty] in Hty. destruct v as [|[|]|]; try discriminate. reflexivity. Qed.

Lemma cf_raw k : CF (TRaw k).
Proof.
  intros v Hty Hok. destruct v as [|l|]; cbn [has_ty] in Hty; try discriminate.
  destruct (vals_ns l) as [ns|] eqn:Ens; [|discriminate].
  apply andb_true_iff in Hty. destruct Hty as [Hb Hlen]. apply N.eqb_eq in Hlen.
  cbn [ser logical spec_enc]. destruct (emit_bytes_of_ok l ns Ens) as [_ ->].
  rewrite spec_raw_len_eq, count_of_len, (vals_ns_len l ns Ens), Hlen, N.eqb_refl.
  now apply spec_bytes_ok.
Qed.

Lemma cf_text k : CF (TText k).
Proof.
  intros v Hty Hok. destruct v as [|l|]; cbn [has_ty] in Hty; try discriminate.
  destruct (vals_ns l) as [ns|] eqn:Ens; [|discriminate].
  apply andb_true_iff in Hty. destruct Hty as [Hb _].
  cbn [ser logical spec_enc] in *.
  destruct (len_then_body _ _ Hok) as (Hlen & _ & ->).
  destruct (emit_bytes_of_ok l ns Ens) as [_ ->].
  apply with_count_ok; [exact Hlen|]. now apply spec_bytes_ok.
Qed.

(** "count, then the elements", however the elements were written *)
Lemma cf_body t' b l :
  CF t' -> forallb (has_ty t') l = true -> (b = true -> is_u8 t' = true) ->
  snd (emit_len (len l) >> slice_out b (ser t') l) = None ->
  with_count (map (logical t') l) (concat_enc (spec_enc t') (map (logical t') l))
  = Some (sbytes (emit_len (len l) >> slice_out b (ser t') l)).
Proof.
  intros IH Hty Hb Hok.
  destruct (len_then_body _ _ Hok) as (Hlen & Hbody & ->).
  destruct (slice_out_each t' b l Hty Hb) as [Es Eb]. rewrite Es in Hbody. rewrite Eb.
  assert (Hl : len (map (logical t') l) = len l) by (rewrite !len_eq, map_length; reflexivity).
  rewrite <- Hl at 1. apply with_count_ok; [now rewrite Hl|].
  apply concat_enc_each; [|exact Hbody].
  intros x Hx Hox. apply IH; [exact (forallb_In _ _ _ Hty Hx)|exact Hox].
Qed.

Lemma cf_seq_plain k t' : is_keyed k = false -> CF t' -> CF (TSeq k t').
Proof.
  intros Hk IH v Hty Hok.
  assert (Hkt : key_ty k t' = t') by (destruct k; cbn in Hk; try discriminate; reflexivity).
  cbn [ser] in Hok |- *. rewrite Hkt in *.
  destruct (ser_checks_zst k && mem_zst t') eqn:Ez; [discriminate|].
  destruct k; cbn in Hk; try discriminate.
  - (* Vec *)
    destruct v as [|l|]; cbn [has_ty] in Hty; try discriminate. rewrite andb_true_r in Hty.
    cbn [logical spec_enc spec_sorted_kind andb].
    exact (cf_body t' _ l IH Hty (u8_and _ t') Hok).
  - (* Deque *)
    destruct v as [|[|[|a|] [|[|b|] [|]]]|]; cbn [has_ty] in Hty; try discriminate.
    apply andb_true_iff in Hty. destruct Hty as [Ha Hb].
    cbn [logical spec_enc].
    assert (Htab : forallb (has_ty t') (a ++ b) = true) by (now rewrite forallb_app, Ha, Hb).
    (* the two slices written one after the other are the body of the joined sequence *)
    destruct (len_then_body _ _ Hok) as (Hlen & Hbody & ->).
    apply andthen_ok in Hbody. destruct Hbody as [Hba Hbb].
    rewrite andthen_bytes by exact Hba.
    cbn [uses_slice_path] in *.
    destruct (slice_out_each t' (is_u8 t' && true) a Ha (u8_and true t')) as [Esa Eba].
    destruct (slice_out_each t' (is_u8 t' && true) b Hb (u8_and true t')) as [Esb Ebb].
    rewrite Esa in Hba. rewrite Esb in Hbb. rewrite Eba, Ebb.
    assert (Hoab : snd (each_out (ser t') (a ++ b)) = None).
    { apply each_out_ok. intros x Hx. apply in_app_or in Hx.
      destruct Hx as [Hx|Hx]; [now apply (proj1 (each_out_ok _ a) Hba)|now apply (proj1 (each_out_ok _ b) Hbb)]. }
    assert (Ejoin : sbytes (each_out (ser t') (a ++ b)) = sbytes (each_out (ser t') a) ++ sbytes (each_out (ser t') b)).
    { rewrite !sbytes_each_out by assumption. now rewrite map_app, concat_app. }
    rewrite <- Ejoin, <- len_app.
    assert (Hl : len (map (logical t') (a ++ b)) = len (a ++ b)) by (rewrite !len_eq, map_length; reflexivity).
    rewrite <- Hl at 1. apply with_count_ok; [rewrite Hl, len_app; exact Hlen|].
    apply concat_enc_each; [|exact Hoab].
    intros x Hx Hox. apply IH; [exact (forallb_In _ _ _ Htab Hx)|exact Hox].
  - (* LinkedList *)
    destruct v as [|l|]; cbn [has_ty] in Hty; try discriminate. rewrite andb_true_r in Hty.
    cbn [logical spec_enc spec_sorted_kind andb].
    exact (cf_body t' _ l IH Hty (u8_and _ t') Hok).
  - (* Slice *)
    destruct v as [|l|]; cbn [has_ty] in Hty; try discriminate. rewrite andb_true_r in Hty.
    cbn [logical spec_enc spec_sorted_kind andb].
    exact (cf_body t' _ l IH Hty (u8_and _ t') Hok).
Qed.

(** ordered, hashed and indexed collections *)
Lemma cf_seq_keyed k t' : is_keyed k = true -> wf (TSeq k t') = true -> CF t' -> CF (TSeq k t').
Proof.
  intros Hk Hwf IH v Hty Hok.
  pose proof (not_zst_of_ok k t' Hk Hwf v Hok) as Hz.
  set (kt := key_ty k t') in *. set (key := key_val k). set (cmp := cmp_val kt).
  pose (P := fun x => has_ty kt (key x) = true).
  assert (HFP : forall l, forallb (has_ty t') l = true -> Forall P l) by (apply (Forall_P k t' Hwf)).
  assert (Hklg : forall x, key (lg t' x) = key x) by (apply (key_lg k t' Hk Hwf)).
  assert (Hss : forall l, Forall P l -> no_dup_keys cmp key l = true -> strictly_ascending cmp key (sort_by cmp key l) = true).
  { apply (sort_by_sorted cmp key P).
    - apply (c_anti k t').
    - apply (c_lt k t' Hk Hwf). }
  (* the common shape: a count and the elements one by one; the spec accepts the order *)
  assert (Hgen : forall elems,
             forallb (has_ty t') elems = true ->
             snd (emit_len (len elems) >> each_out (ser t') elems) = None ->
             (is_ordered k = true -> strictly_ascending cmp key elems = true) ->
             (if spec_sorted_kind k && negb (ascending (key_lt k t') (map (logical t') elems)) then None
              else with_count (map (logical t') elems) (concat_enc (spec_enc t') (map (logical t') elems)))
             = Some (sbytes (emit_len (len elems) >> each_out (ser t') elems))).
  { intros elems Hel Hoe Hasc.
    assert (Hcond : spec_sorted_kind k && negb (ascending (key_lt k t') (map (logical t') elems)) = false).
    { destruct (spec_sorted_kind k) eqn:Esk; [|reflexivity]. cbn [andb].
      rewrite ascending_sa. fold kt key cmp. rewrite <- (map_lg t' elems Hel).
      rewrite (strictly_ascending_map cmp key (lg t') elems Hklg).
      rewrite Hasc; [reflexivity|]. destruct k; cbn in Esk; try discriminate; reflexivity. }
    rewrite Hcond.
    exact (cf_body t' false elems IH Hel (fun H => False_ind _ (Bool.diff_false_true H)) Hoe). }
  destruct k eqn:Ek; cbn in Hk; try discriminate Hk;
    (destruct v as [|l|]; cbn [has_ty] in Hty; try discriminate Hty);
    apply andb_true_iff in Hty; destruct Hty as [Hel Hord]; fold kt key cmp in Hord;
    pose proof (HFP l Hel) as HP;
    cbn [ser ser_checks_zst uses_slice_path andb] in Hok |- *; fold kt key cmp in Hok |- *;
    rewrite Hz in Hok |- *; rewrite ?andb_false_r in Hok |- *; unfold slice_out in Hok |- *;
    cbn [logical spec_enc]; fold kt key cmp.
  - (* BTreeSet *) apply Hgen; [exact Hel|exact Hok|intros _; exact Hord].
  - (* HashSet *)
    set (sorted := sort_by cmp key l) in *.
    assert (Hperm : Permutation sorted l) by apply sort_by_perm.
    assert (Hels : forallb (has_ty t') sorted = true).
    { apply forallb_forall. intros x Hx. apply (forallb_In _ _ _ Hel). eapply Permutation_in; eauto. }
    rewrite <- (map_lg t' l Hel), (sort_by_map cmp key (lg t') l Hklg). fold sorted.
    rewrite (map_lg t' sorted Hels).
    apply Hgen; [exact Hels|exact Hok|intros _; now apply Hss].
  - (* IndexSet *) apply Hgen; [exact Hel|exact Hok|intros H; discriminate H].
  - (* BTreeMap *) apply Hgen; [exact Hel|exact Hok|intros _; exact Hord].
  - (* HashMap *)
    set (sorted := sort_by cmp key l) in *.
    assert (Hperm : Permutation sorted l) by apply sort_by_perm.
    assert (Hels : forallb (has_ty t') sorted = true).
    { apply forallb_forall. intros x Hx. apply (forallb_In _ _ _ Hel). eapply Permutation_in; eauto. }
    rewrite <- (map_lg t' l Hel), (sort_by_map cmp key (lg t') l Hklg). fold sorted.
    rewrite (map_lg t' sorted Hels).
    apply Hgen; [exact Hels|exact Hok|intros _; now apply Hss].
  - (* IndexMap *) apply Hgen; [exact Hel|exact Hok|intros H; discriminate H].
Qed.

Lemma cf_array n t' : CF t' -> CF (TArray n t').
Proof.
  intros IH v Hty Hok. destruct v as [|l|]; cbn [has_ty] in Hty; try discriminate.
  apply andb_true_iff in Hty. destruct Hty as [Hlen Hty]. apply N.eqb_eq in Hlen.
  cbn [ser logical spec_enc] in *.
  assert (Hl : count_of (map (logical t') l) = n).
  { rewrite count_of_len, len_eq, map_length, <- len_eq. exact Hlen. }
  rewrite Hl, N.eqb_refl.
  destruct (N.eqb_spec n 0) as [E0|E0].
  - subst n. apply len_zero_nil in E0. subst l. reflexivity.
  - destruct (slice_out_each t' (is_u8 t') l Hty (fun H => H)) as [Es Eb].
    rewrite Es in Hok. rewrite Eb.
    apply concat_enc_each; [|exact Hok].
    intros x Hx Hox. apply IH; [exact (forallb_In _ _ _ Hty Hx)|exact Hox].
Qed.

Lemma cf_fields ts :
  Forall (fun t => wf t = true -> CF t) ts ->
  forall sk l,
    forallb (fun x => wf x) ts = true ->
    all2 (fun t' x => has_ty t' x) ts l = true ->
    snd (fields_out (fun t' x => ser t' x) ts (pad_false (length ts) sk) l) = None ->
    spec_fields (fun t' x => spec_enc t' x) ts sk
      (map_fields (fun t' x => logical t' x) default_of ts (pad_false (length ts) sk) l)
    = Some (sbytes (fields_out (fun t' x => ser t' x) ts (pad_false (length ts) sk) l)).
Proof.
  induction 1 as [|t' tr Ht' Htr IH]; intros sk l Hwf Hty Hok.
  - destruct l; cbn in Hty; try discriminate. reflexivity.
  - destruct l as [|x r]; cbn [all2] in Hty; try discriminate.
    apply andb_true_iff in Hty. destruct Hty as [Hx Hr].
    cbn [forallb] in Hwf. apply andb_true_iff in Hwf. destruct Hwf as [Hwx Hwr].
    assert (Epad : pad_false (length (t' :: tr)) sk = hd false sk :: pad_false (length tr) (tl sk)).
    { destruct sk; reflexivity. }
    rewrite Epad in *.
    cbn [fields_out map_fields spec_fields] in *.
    apply andthen_ok in Hok. destruct Hok as [Hox Hor].
    rewrite andthen_bytes by exact Hox.
    rewrite (IH (tl sk) r Hwr Hr Hor).
    destruct (hd false sk).
    + reflexivity.
    + rewrite (Ht' Hwx x Hx Hox). reflexivity.
Qed.

Lemma cf_prod k ts : Forall (fun t => wf t = true -> CF t) ts -> wf (TProd k ts) = true -> CF (TProd k ts).
Proof.
  intros IH Hwf v Hty Hok. destruct v as [|l|]; cbn [has_ty] in Hty; try discriminate.
  cbn [wf] in Hwf. apply andb_true_iff in Hwf. destruct Hwf as [_ Hwf].
  cbn [ser logical spec_enc] in *. rewrite prod_skips_spec in *.
  exact (cf_fields ts IH _ l Hwf Hty Hok).
Qed.

Lemma cf_sum k vs : Forall (fun t => wf t = true -> CF t) vs -> wf (TSum k vs) = true -> CF (TSum k vs).
Proof.
  intros IH Hwf v Hty Hok. destruct v as [| |i x]; cbn [has_ty] in Hty; try discriminate.
  cbn [wf] in Hwf. repeat (apply andb_true_iff in Hwf; destruct Hwf as [Hwf ?]).
  rename H into Hwvs. rename H0 into Hlt. rename H1 into Hnd.
  apply nth_or_true in Hty. destruct Hty as (t' & Et' & Hx).
  assert (E1 : forall R (f : ty -> R) d, nth_or f d vs (N.to_nat i) = f t') by (intros; now apply nth_or_some).
  assert (E2 : forall R (f : ty -> R) d, at_variant f d vs (N.to_nat i) = f t')
    by (intros; rewrite at_variant_nth_or; apply E1).
  cbn [ser logical spec_enc] in *.
  destruct (nth_error (sum_tags k) (N.to_nat i)) as [tag|] eqn:Etag; [|discriminate].
  rewrite ?E1, ?E2 in *.
  apply andthen_ok in Hok. destruct Hok as [_ Hox].
  rewrite andthen_bytes by reflexivity. rewrite sbytes_emit.
  assert (Htag : tag < 256).
  { apply N.ltb_lt. exact (forallb_In _ _ _ Hlt (nth_error_In _ _ Etag)). }
  rewrite spec_tag_eq, Etag. cbn [sbind]. rewrite spec_uint_ok by exact Htag.
  assert (Hwt : wf t' = true) by exact (forallb_In _ _ _ Hwvs (nth_error_In _ _ Et')).
  rewrite (Forall_nth_error _ _ _ _ IH Et' Hwt x Hx Hox). reflexivity.
Qed.

Theorem cf_all t : wf t = true -> CF t.
Proof.
  induction t as [p|u|k|k|k t' IH|n t' IH|k ts IH|k vs IH|w t' IH] using ty_ind'; intros Hwf.
  - apply cf_prim.
  - apply cf_unit.
  - apply cf_raw.
  - apply cf_text.
  - assert (Hw' : wf t' = true).
    { cbn [wf] in Hwf. repeat (apply andb_true_iff in Hwf; destruct Hwf as [Hwf ?]). exact Hwf. }
    destruct (is_keyed k) eqn:Hk.
    + apply cf_seq_keyed; auto.
    + apply cf_seq_plain; auto.
  - apply cf_array. apply IH. exact Hwf.
  - apply cf_prod; [|exact Hwf]. exact IH.
  - apply cf_sum; [|exact Hwf]. exact IH.
  - intros v Hty Hok. cbn [has_ty ser logical wf spec_enc] in *. apply IH; assumption.
Qed.

Lemma conforms t v bs :
  wf t = true -> has_ty t v = true -> enc t v = Ok bs -> spec_enc t (logical t v) = Some bs.
Proof.
  intros Hwf Hty Henc. apply enc_ok_iff in Henc. destruct Henc as [Hok ->]. now apply cf_all.
Qed.

(** the bytes depend only on the logical value *)
Lemma canonical_bytes t v1 v2 b1 b2 :
  wf t = true -> has_ty t v1 = true -> has_ty t v2 = true -> logical t v1 = logical t v2 ->
  enc t v1 = Ok b1 -> enc t v2 = Ok b2 -> b1 = b2.
Proof.
  intros Hwf H1 H2 E E1 E2.
  pose proof (conforms t v1 b1 Hwf H1 E1) as S1. pose proof (conforms t v2 b2 Hwf H2 E2) as S2.
  rewrite E in S1. rewrite S1 in S2. now inversion S2.
Qed.
