(** C08: the schema-driven decoder [sdec], given only the container a type generates, reads the
    encoding of any value of the type completely and rebuilds the value's structure ([erase]).

    Method: a decoder-to-decoder simulation.  For the strict typed decoder [dec] (C01 says it
    accepts every encoding and returns the logical value) we show, with the [PS] combinators of
    ParseFacts.v, that whatever prefix it consumes, [sdec_r] consumes the same prefix and
    returns the erased value ([Sim]).  Needs [covers c t] (every definition the type's impls
    register is in the container: SchemaOfCover.v, under name coherence). *)
From Coq Require Import String Ascii List NArith ZArith Bool Lia.
From Coq.Strings Require Import Byte.
From Borsh Require Import Bytes BytesFacts Result Loop LoopFacts Ty TyInd Ser De Entry CodecFacts RoundTrip
     OrderFacts SortFacts RoundTripKeyed ParseFacts DecCorollaries C04Facts
     Schema SchemaFns SchemaOf SchemaDec SchemaOfFacts SchemaOfCover.
Import ListNotations.
Local Open Scope N_scope.
Local Open Scope string_scope.
Local Open Scope list_scope.

(** fuel that suffices for a type: the nesting depth of its declarations *)
Fixpoint sdepth (t : ty) : nat :=
  match t with
  | TPrim _ | TUnit _ => 1
  | TRaw _ => 3
  | TText _ => 2
  | TSeq _ t' | TArray _ t' => S (sdepth t')
  | TProd _ ts => S (S (list_max (map (fun x => sdepth x) ts)))
  | TSum _ vs => S (S (S (list_max (map (fun x => sdepth x) vs))))
  | TWrap _ t' => sdepth t'
  end.

Lemma list_max_in (l : list nat) x : In x l -> (x <= list_max l)%nat.
Proof.
  induction l as [|y r IH]; intros H; [destruct H|]. change (list_max (y :: r)) with (Nat.max y (list_max r)).
  destruct H as [->|H]; [lia|]. specialize (IH H). lia.
Qed.

(** * Pieces of [sdec_r] *)
Lemma stake_app a r n : len a = n -> stake n (a ++ r) = Ok (a, r).
Proof. intros <-. unfold stake. now rewrite take_app. Qed.

Lemma srepeat_ok {A} (f : sparser) (g : A -> sval) (l : list A) (ps : list bytes) rest :
  Forall2 (fun x p => forall r, f (p ++ r) = Ok (g x, r)) l ps ->
  srepeat f (len l) (concat ps ++ rest) = Ok (map g l, rest).
Proof.
  intros H. unfold srepeat.
  assert (G : forall acc,
            iterN (len l) (fun '(acc, s) => '(v, s') <- f s ;; Ok (v :: acc, s')) (acc, concat ps ++ rest)
            = Ok (rev (map g l) ++ acc, rest)).
  { induction H as [|x p l ps Hx Hr IH]; intros acc.
    - reflexivity.
    - rewrite len_cons, iterN_succ. cbn [concat]. rewrite <- app_assoc, Hx. cbn [bind].
      rewrite IH. cbn [map rev]. now rewrite <- app_assoc. }
  rewrite G. cbn [bind]. now rewrite app_nil_r, rev_involutive.
Qed.

Lemma chunks_Forall2 {A} (V : A -> bytes -> Prop) l body :
  chunks V l body -> exists ps, body = concat ps /\ Forall2 V l ps.
Proof.
  induction 1 as [|l a p1 p2 Hc (ps & -> & HF) Hv].
  - exists []. split; [reflexivity|constructor].
  - exists (ps ++ [p1]). split.
    + rewrite concat_app. cbn [concat]. now rewrite app_nil_r.
    + apply Forall2_app; [exact HF|]. constructor; [exact Hv|constructor].
Qed.

Lemma concat_singletons (b : bytes) : concat (map (fun x => [x]) b) = b.
Proof. induction b as [|x r IH]; cbn; [reflexivity|now rewrite IH]. Qed.

Lemma byte_sval_of_bytes b : map byte_sval (of_bytes b) = map (fun x => SPrim [x]) b.
Proof.
  unfold of_bytes. rewrite map_map. apply map_ext. intros x. cbn [byte_sval]. now rewrite n2b_b2n.
Qed.

Lemma erase_u8_of_bytes b : map (erase (TPrim (PInt false W1))) (of_bytes b) = map (fun x => SPrim [x]) b.
Proof.
  unfold of_bytes. rewrite map_map. apply map_ext. intros x. cbn [erase prim_width wbytes le]. now rewrite n2b_b2n.
Qed.

Lemma is_u8_eq t : is_u8 t = true -> t = TPrim (PInt false W1).
Proof. destruct t as [[[] []| | | | | |]| | | | | | | |]; cbn; intros H; try discriminate; reflexivity. Qed.

Lemma len_le4 n : len (le 4 n) = 4.
Proof. rewrite len_eq, length_le. reflexivity. Qed.

Lemma find_variant_tag : forall (vs : list (Z * string * string)) tags b base i,
  map (fun v => fst (fst v)) vs = map z_of_n tags ->
  find_tag tags b base = Some i ->
  exists n, i = base + N.of_nat n /\ nth_error tags n = Some b /\ find_variant vs (z_of_n b) = nth_error vs n.
Proof.
  induction vs as [|v vr IH]; intros [|tg tr] b base i Hm H; cbn [map] in Hm; try discriminate; cbn [find_tag] in H; try discriminate.
  inversion Hm as [[H1 H2]]. cbn [find_variant]. rewrite H1.
  destruct (N.eqb_spec tg b) as [->|Hne].
  - inversion H; subst. exists 0%nat. rewrite Z.eqb_refl. split; [lia|]. split; reflexivity.
  - assert (E : Z.eqb (z_of_n tg) (z_of_n b) = false).
    { apply Z.eqb_neq. intros E. apply Hne. destruct tg, b; cbn in E; congruence. }
    rewrite E. destruct (IH tr b (N.succ base) i H2 H) as (n & -> & Hn & Hf).
    exists (S n). split; [lia|]. split; assumption.
Qed.

Lemma sall_cons_result (rec : string -> sparser) d dr bs l rest :
  sall rec (d :: dr) bs = Ok (l, rest) -> exists v r, l = v :: r.
Proof.
  cbn [sall]. intros H. apply bind_ok in H. destruct H as ([v s1] & _ & H).
  apply bind_ok in H. destruct H as ([r s2] & _ & H). inversion H; subst. eauto.
Qed.

Lemma seq_kind_eq_deque k : k = SDeque \/ k <> SDeque.
Proof. destruct k; (now left) || (right; discriminate). Qed.

Section Sim.
  Variable C : container.

  Definition Sim (t : ty) (v : val) (pre : bytes) : Prop :=
    forall fuel rest, (sdepth t <= fuel)%nat ->
      sdec_r C fuel (decl_of t) (pre ++ rest) = Ok (erase t v, rest).

  Lemma sdec_prim_def d n f a rest :
    lookup (defs C) d = Some (Primitive n) -> len a = n ->
    sdec_r C (S f) d (a ++ rest) = Ok (SPrim a, rest).
  Proof.
    intros L Hl. cbn [sdec_r]. unfold get_definition. rewrite L. now rewrite (stake_app a rest n Hl).
  Qed.

  Lemma srepeat_bytes el f body rest :
    lookup (defs C) el = Some (Primitive 1) ->
    srepeat (sdec_r C (S f) el) (len body) (body ++ rest) = Ok (map (fun x => SPrim [x]) body, rest).
  Proof.
    intros L. rewrite <- (concat_singletons body) at 2. apply srepeat_ok.
    induction body as [|x r IH]; cbn [map]; constructor; [|exact IH].
    intros r0. apply (sdec_prim_def el 1); [exact L|reflexivity].
  Qed.

  Lemma sdec_seq d el f n body ls rest :
    lookup (defs C) d = Some (seq_def el) -> n < U32_LIMIT ->
    srepeat (sdec_r C f el) n (body ++ rest) = Ok (ls, rest) ->
    sdec_r C (S f) d ((le 4 n ++ body) ++ rest) = Ok (SSeq ls, rest).
  Proof.
    intros L Hn Hr. cbn [sdec_r]. unfold get_definition. rewrite L. unfold seq_def, DEFAULT_LENGTH_WIDTH.
    change (4 =? 0)%N with false. cbv iota. rewrite <- app_assoc, (stake_app _ _ 4 (len_le4 n)). cbn [bind].
    rewrite unle_le by exact Hn.
    assert (E : ((0 <=? n)%N && (n <=? U32_MAX)%N) = true).
    { apply andb_true_iff. split; apply N.leb_le; [lia|]. unfold U32_MAX. change U32_LIMIT with 4294967296 in Hn. lia. }
    rewrite E. cbn [bind]. rewrite Hr. reflexivity.
  Qed.

  Lemma sdec_array d el f n body ls rest :
    lookup (defs C) d = Some (array_def n el) ->
    srepeat (sdec_r C f el) n (body ++ rest) = Ok (ls, rest) ->
    sdec_r C (S f) d (body ++ rest) = Ok (SSeq ls, rest).
  Proof.
    intros L Hr. cbn [sdec_r]. unfold get_definition. rewrite L. unfold array_def.
    change (0 =? 0)%N with true. cbv iota. rewrite N.eqb_refl. cbn [bind]. rewrite Hr. reflexivity.
  Qed.

  Lemma sdec_enum d variants f b dv vn vd payload pre rest :
    lookup (defs C) d = Some (Enum 1 variants) -> b < 256 ->
    find_variant variants (z_of_n b) = Some (dv, vn, vd) ->
    sdec_r C f vd (pre ++ rest) = Ok (payload, rest) ->
    sdec_r C (S f) d (([n2b b] ++ pre) ++ rest) = Ok (SEnum dv vn payload, rest).
  Proof.
    intros L Hb Hf Hp. cbn [sdec_r]. unfold get_definition. rewrite L. change (1 =? 0)%N with false. cbv iota.
    rewrite <- app_assoc, (stake_app [n2b b] _ 1 eq_refl). cbn [bind unle].
    rewrite b2n_n2b, N.mod_small by exact Hb. rewrite N.mul_0_r, N.add_0_r, Hf, Hp. reflexivity.
  Qed.

  Lemma sdec_struct name fn sk decls vals f bs rest :
    lookup (defs C) name = Some (Struct (mk_fields fn sk decls)) ->
    names_ok fn (length decls) = true ->
    sall (sdec_r C f) (keep sk decls) bs = Ok (keep sk vals, rest) ->
    sdec_r C (S f) name bs = Ok (mk_sfields fn sk vals, rest).
  Proof.
    intros L Hn H. cbn [sdec_r]. unfold get_definition. rewrite L. unfold mk_fields, mk_sfields.
    destruct (keep sk decls) as [|d dr] eqn:Ed.
    - cbn [sall] in H. inversion H as [[H1 H2]]. reflexivity.
    - destruct (sall_cons_result _ _ _ _ _ _ H) as (v & r & Ev). rewrite Ev in *.
      destruct fn as [|fn0 fnr].
      + rewrite H. reflexivity.
      + assert (El : length (keep sk (fn0 :: fnr)) = length (d :: dr)).
        { rewrite <- Ed. apply keep_length. unfold names_ok in Hn. now apply Nat.eqb_eq in Hn. }
        rewrite (map_snd_combine _ _ El), H. cbn [bind]. rewrite (map_fst_combine _ _ El). reflexivity.
  Qed.
End Sim.

(** * lists without skipped entries *)
Lemma keep_nosk {A} sk (l : list A) : forallb negb sk = true -> keep sk l = l.
Proof.
  revert sk; induction l as [|x l IH]; intros sk H; [reflexivity|]. cbn [keep].
  destruct sk as [|[|] sr]; cbn [forallb negb andb] in H; try discriminate; f_equal; auto.
Qed.
Lemma pad_false_nosk n : forallb negb (pad_false n []) = true.
Proof. induction n as [|n IH]; cbn; auto. Qed.
Lemma fields_all_nosk f ts sk : forallb negb sk = true -> fields_all f ts sk = forallb f ts.
Proof.
  revert sk; induction ts as [|t tr IH]; intros sk H; [reflexivity|]. cbn [fields_all forallb].
  destruct sk as [|[|] sr]; cbn [forallb negb andb] in H; try discriminate; f_equal; auto.
Qed.
Lemma calls_fields_nosk f ts sk : forallb negb sk = true -> calls_fields f ts sk = flat_map f ts.
Proof.
  revert sk; induction ts as [|t tr IH]; intros sk H; [reflexivity|]. cbn [calls_fields flat_map].
  destruct sk as [|[|] sr]; cbn [forallb negb andb] in H; try discriminate; f_equal; auto.
Qed.
Lemma prod_skips_nosk k n : match k with PStruct _ _ _ | PVariant _ _ => False | _ => True end ->
  forallb negb (prod_skips k n) = true.
Proof. destruct k; cbn; intros H; try contradiction; apply pad_false_nosk. Qed.

Section Main.
  Variable C : container.
  Variable c : cfg.
  Hypothesis Hstrict : strict c = true.

  Definition cov_list (L : list (string * definition)) : Prop :=
    forall d def, In (d, def) L -> lookup (defs C) d = Some def.

  Lemma cov_list_app_l L1 L2 : cov_list (L1 ++ L2) -> cov_list L1.
  Proof. intros H d e I. apply H. apply in_or_app. now left. Qed.
  Lemma cov_list_app_r L1 L2 : cov_list (L1 ++ L2) -> cov_list L2.
  Proof. intros H d e I. apply H. apply in_or_app. now right. Qed.
  Lemma cov_list_tl x L : cov_list (x :: L) -> cov_list L.
  Proof. intros H d e I. apply H. now right. Qed.
  Lemma cov_list_hd d e L : cov_list ((d, e) :: L) -> lookup (defs C) d = Some e.
  Proof. intros H. apply H. now left. Qed.

  Definition simP (t : ty) : Prop :=
    wf t = true -> dflt_ok t = true -> has_schema t = true -> cov_list (calls t) ->
    PS (Sim C t) (dec slice_reader c t).
  Definition simQ (t : ty) : Prop :=
    simP t /\ (forall fn sk ts, t = TProd (PVariant fn sk) ts -> Forall simP ts).
  Lemma simQ_fst l : Forall simQ l -> Forall simP l.
  Proof. apply Forall_impl. intros x [H _]. exact H. Qed.

  (** ** fields *)
  Definition FieldsSim (ts : list ty) (sk : list bool) (l : list val) (pre : bytes) : Prop :=
    forall fuel rest, (list_max (map (fun x => sdepth x) ts) <= fuel)%nat ->
      sall (sdec_r C fuel) (keep sk (map (fun x => decl_of x) ts)) (pre ++ rest)
      = Ok (keep sk (erase_fields (fun t' x => erase t' x) ts l), rest).

  Fixpoint fields_hyp (ts : list ty) (sk : list bool) : Prop :=
    match ts with
    | [] => True
    | t :: tr =>
        match sk with
        | true :: sr => fields_hyp tr sr
        | _ :: sr => PS (Sim C t) (dec slice_reader c t) /\ fields_hyp tr sr
        | [] => PS (Sim C t) (dec slice_reader c t) /\ fields_hyp tr []
        end
    end.

  Lemma PS_dec_fields_sim ts : forall sk, length sk = length ts -> fields_hyp ts sk ->
    PS (FieldsSim ts sk) (dec_fields (fun t' s => dec slice_reader c t' s) ts sk).
  Proof.
    induction ts as [|t' tr IH]; intros sk Hlen Hh; cbn [dec_fields].
    - apply PS_ret. intros fuel rest _. destruct sk; reflexivity.
    - destruct sk as [|sb sr]; [discriminate|]. cbn [length] in Hlen.
      eapply (PS_bind (fun v pre => if sb then pre = [] else Sim C t' v pre)).
      + destruct sb; [apply PS_ret; reflexivity|exact (proj1 Hh)].
      + intros v pre1 Hv.
        eapply PS_ext with (p := fun s => '(r, s2) <- dec_fields (fun t' s => dec slice_reader c t' s) tr sr s ;; l <- Ok (v :: r) ;; Ok (l, s2)).
        { intros bs. destruct (dec_fields _ tr sr bs) as [[r s2]|k m|w]; reflexivity. }
        eapply PS_post; [apply (IH sr); [lia|destruct sb; [exact Hh|exact (proj2 Hh)]]|].
        intros r pre2 Hr. cbn beta iota. intros fuel rest Hf.
        change (list_max (map (fun x => sdepth x) (t' :: tr))) with (Nat.max (sdepth t') (list_max (map (fun x => sdepth x) tr))) in Hf.
        cbn [map erase_fields]. destruct sb; cbn [keep].
        * subst pre1. cbn [app]. apply Hr. lia.
        * cbn [sall]. rewrite <- app_assoc. rewrite (Hv fuel (pre2 ++ rest)) by lia. cbn [bind].
          rewrite Hr by lia. reflexivity.
  Qed.

  Lemma mk_fields_hyp ts : Forall simP ts -> forall sk,
    forallb (fun x => wf x) ts = true -> forallb (fun x => dflt_ok x) ts = true ->
    fields_all (fun x => has_schema x) ts sk = true ->
    cov_list (calls_fields (fun x => calls x) ts sk) -> fields_hyp ts sk.
  Proof.
    induction 1 as [|t tr Ht Htr IH]; intros sk Hw Hd Hs Hc; [exact I|].
    cbn [forallb] in Hw, Hd. apply andb_true_iff in Hw, Hd. destruct Hw as [Hw1 Hw2]. destruct Hd as [Hd1 Hd2].
    cbn [fields_hyp fields_all calls_fields] in *.
    destruct sk as [|[|] sr].
    - apply andb_true_iff in Hs. destruct Hs as [Hs1 Hs2].
      split; [apply Ht; auto; exact (cov_list_app_l _ _ Hc)|apply IH; auto; exact (cov_list_app_r _ _ Hc)].
    - now apply IH.
    - apply andb_true_iff in Hs. destruct Hs as [Hs1 Hs2].
      split; [apply Ht; auto; exact (cov_list_app_l _ _ Hc)|apply IH; auto; exact (cov_list_app_r _ _ Hc)].
  Qed.

  (** the payload of a struct-like item registered under [name] *)
  Lemma PS_struct_like k name fn sk ts :
    prod_skips k (length ts) = sk -> length sk = length ts ->
    Forall simP ts ->
    forallb (fun x => wf x) ts = true -> forallb (fun x => dflt_ok x) ts = true ->
    names_ok fn (length ts) = true -> fields_all (fun x => has_schema x) ts sk = true ->
    lookup (defs C) name = Some (Struct (mk_fields fn sk (map (fun x => decl_of x) ts))) ->
    cov_list (calls_fields (fun x => calls x) ts sk) ->
    PS (fun v pre => forall fuel rest, (S (list_max (map (fun x => sdepth x) ts)) <= fuel)%nat ->
          sdec_r C fuel name (pre ++ rest)
          = Ok (mk_sfields fn sk (match v with VL l => erase_fields (fun t' x => erase t' x) ts l | _ => [] end), rest))
       (dec slice_reader c (TProd k ts)).
  Proof.
    intros Hsk Hlen Hts Hw Hd Hn Hs L Hc. cbn [dec]. rewrite Hsk.
    eapply PS_ext with (p := fun s => '(l, s') <- dec_fields (fun t' s => dec slice_reader c t' s) ts sk s ;; v <- Ok (VL l) ;; Ok (v, s')).
    { intros bs. destruct (dec_fields _ ts _ bs) as [[l r]|? ?|?]; reflexivity. }
    eapply PS_post; [apply (PS_dec_fields_sim ts sk Hlen); now apply mk_fields_hyp|].
    intros l pre H. cbn beta iota. intros fuel rest Hf. destruct fuel as [|f]; [lia|].
    apply (sdec_struct C name fn sk (map (fun x => decl_of x) ts)); [exact L|now rewrite map_length|]. apply H. lia.
  Qed.

  (** ** sequences *)
  Lemma post_sim k t' l body :
    wf (TSeq k t') = true -> is_index k = false ->
    forallb (has_ty t') l = true -> len l < U32_LIMIT ->
    lookup (defs C) (decl_of (TSeq k t')) = Some (seq_def (decl_of t')) ->
    (forall f rest, (sdepth t' <= f)%nat ->
       srepeat (sdec_r C f (decl_of t')) (len l) (body ++ rest) = Ok (map (erase t') l, rest)) ->
    match post c k (key_ty k t') l with
    | Ok v => Sim C (TSeq k t') v (le 4 (len l) ++ body)
    | Err e _ => e = InvalidData
    | Panic _ => False
    end.
  Proof.
    intros Hwf Hni Hty Hlen L Hrep. unfold post.
    set (cmp := cmp_val (key_ty k t')). set (key := key_val k). rewrite Hstrict.
    assert (Fin : Sim C (TSeq k t') (VL l) (le 4 (len l) ++ body) \/ k = SDeque).
    { destruct (seq_kind_eq_deque k) as [->|Hk]; [now right|left].
      intros fuel rest Hf. cbn [sdepth] in Hf. destruct fuel as [|f]; [lia|].
      replace (erase (TSeq k t') (VL l)) with (SSeq (map (erase t') l)) by (destruct k; try reflexivity; congruence).
      apply (sdec_seq C _ (decl_of t')); [exact L|exact Hlen|apply Hrep; lia]. }
    destruct (is_ordered k) eqn:Ho; cbn [andb].
    - destruct (strictly_ascending cmp key l) eqn:Hsa; cbn [negb]; [|reflexivity].
      assert (Hk : is_keyed k = true) by (unfold is_keyed; now rewrite Ho).
      pose (P := fun x => has_ty (key_ty k t') (key x) = true).
      assert (HP : Forall P l) by (apply (Forall_P k t' Hwf); exact Hty).
      assert (Hcs : collect_sorted cmp key l = l).
      { apply (collect_sorted_id cmp key P); [apply (c_anti k t')|apply (c_lt k t' Hk Hwf)|exact HP|exact Hsa]. }
      rewrite Hcs. destruct Fin as [Fin| ->]; [|discriminate Ho].
      destruct k; cbn in Ho; try discriminate Ho; exact Fin.
    - destruct k; cbn in Ho, Hni; try discriminate Ho; try discriminate Hni;
        try (destruct Fin as [Fin|E]; [exact Fin|discriminate E]).
      (* deque *)
      intros fuel rest Hf. cbn [sdepth] in Hf. destruct fuel as [|f]; [lia|].
      cbn [erase]. rewrite app_nil_r. apply (sdec_seq C _ (decl_of t')); [exact L|exact Hlen|apply Hrep; lia].
  Qed.

  Lemma elems_rep t' l body :
    (if is_u8 t' then l = of_bytes body else chunks (fun x p => Typed t' x p /\ Sim C t' x p) l body) ->
    cov_list (calls t') ->
    forallb (has_ty t') l = true /\
    forall f rest, (sdepth t' <= f)%nat ->
      srepeat (sdec_r C f (decl_of t')) (len l) (body ++ rest) = Ok (map (erase t') l, rest).
  Proof.
    intros Hl Hc. destruct (is_u8 t') eqn:Eu.
    - apply is_u8_eq in Eu. subst t' l. split; [apply forallb_u8_of_bytes|].
      intros f rest Hf. cbn [sdepth] in Hf. destruct f as [|f]; [lia|].
      rewrite len_of_bytes, erase_u8_of_bytes. apply srepeat_bytes. exact (cov_list_hd _ _ _ Hc).
    - split.
      + apply forallb_of_Forall. eapply chunks_Forall; [|exact Hl]. intros a p [[H _] _]. exact H.
      + intros f rest Hf. destruct (chunks_Forall2 _ _ _ Hl) as (ps & -> & HF).
        apply srepeat_ok. clear Hl. induction HF as [|x p l0 ps0 [_ Hx] HF' IHF]; constructor; [|exact IHF].
        intros r. now apply Hx.
  Qed.


  (** ** sums *)
  Lemma PS_variant (tsum vt : ty) VT b i dv vn vd (Pay : val -> sval) (D : nat) :
    lookup (defs C) (decl_of tsum) = Some (Enum 1 VT) -> b < 256 ->
    find_variant VT (z_of_n b) = Some (dv, vn, vd) ->
    PS (fun v pre => forall fuel rest, (D <= fuel)%nat -> sdec_r C fuel vd (pre ++ rest) = Ok (Pay v, rest))
       (dec slice_reader c vt) ->
    (forall v, erase tsum (VV i v) = SEnum dv vn (Pay v)) -> (S D <= sdepth tsum)%nat ->
    PS (fun v' pre2 => Sim C tsum v' ([n2b b] ++ pre2))
       (fun s => '(v, s2) <- dec slice_reader c vt s ;; Ok (VV i v, s2)).
  Proof.
    intros L Hb Hf Hp He HD.
    eapply PS_ext with (p := fun s => '(v, s2) <- dec slice_reader c vt s ;; v' <- Ok (VV i v) ;; Ok (v', s2)).
    { intros bs. destruct (dec slice_reader c vt bs) as [[v r]|? ?|?]; reflexivity. }
    eapply PS_post; [exact Hp|]. intros v pre H. cbn beta iota. intros fuel rest Hfu.
    destruct fuel as [|f]; [lia|]. rewrite He.
    apply (sdec_enum C (decl_of tsum) VT f b dv vn vd (Pay v) pre rest L Hb Hf). apply H. lia.
  Qed.

  Lemma enum_variants_fst name vn tags : length vn = length tags ->
    map (fun v => fst (fst v)) (enum_variants name vn tags) = map z_of_n tags.
  Proof.
    revert tags; induction vn as [|v vr IH]; intros [|g gr] H; try discriminate; [reflexivity|].
    cbn [enum_variants map fst]. f_equal. apply IH. now inversion H.
  Qed.
  Lemma enum_variants_nth name vn tags n g : length vn = length tags -> nth_error tags n = Some g ->
    nth_error (enum_variants name vn tags) n = Some (z_of_n g, nth_str vn n, (name ++ nth_str vn n)%string).
  Proof.
    revert tags n; induction vn as [|v vr IH]; intros [|g0 gr] n H E; try discriminate.
    - destruct n; discriminate.
    - destruct n as [|n]; cbn [nth_error enum_variants] in *.
      + inversion E; subst. reflexivity.
      + unfold nth_str. cbn [nth]. apply IH; [now inversion H|exact E].
  Qed.

  Lemma nth_error_nth_N (l : list N) n x : nth_error l n = Some x -> nth n l 0 = x.
  Proof. revert n; induction l as [|y r IH]; intros [|n] H; try discriminate; cbn in *; [congruence|auto]. Qed.

  (** the calls of variant [n] of a derived enum are among the enum's calls *)
  Lemma enum_calls_nth name (vn : list string) :
    forall (vs : list ty) base n fn sk ts,
    nth_error vs n = Some (TProd (PVariant fn sk) ts) ->
    incl (((name ++ nth_str vn (base + n))%string, Struct (mk_fields fn sk (map (fun x => decl_of x) ts))) ::
          calls_fields (fun x => calls x) ts sk)
         ((fix go (vs : list ty) (i : nat) {struct vs} : list (string * definition) :=
             match vs with
             | [] => []
             | v :: vr =>
                 match v with
                 | TProd (PVariant fn sk) ts =>
                     ((name ++ nth_str vn i)%string, Struct (mk_fields fn sk (map (fun x => decl_of x) ts))) ::
                     calls_fields (fun x => calls x) ts sk
                 | _ => []
                 end ++ go vr (S i)
             end) vs base).
  Proof.
    induction vs as [|v vr IH]; intros base n fn sk ts E; [destruct n; discriminate|].
    destruct n as [|n]; cbn [nth_error] in E.
    - inversion E; subst. rewrite Nat.add_0_r. apply incl_appl, incl_refl.
    - apply incl_appr. replace (base + S n)%nat with (S base + n)%nat by lia. now apply IH.
  Qed.

  Theorem simQ_all : forall t, simQ t.
  Proof.
    induction t as [p|u|k|k|k t' IH|n t' IH|k ts IH|k vs IH|w t' IH] using ty_ind';
      (split; [intros Hwf Hd Hs Hc|try (intros ? ? ? E; discriminate E)]);
      try (destruct IH as [IH _]).
    - (* prim *)
      cbn [dec].
      eapply PS_ext with (p := fun s => '(b, s') <- read_mapped slice_reader (N.of_nat (prim_width p)) s ;;
                                        v <- (match prim_de_check p (unle b) with Some m => Err InvalidData m | None => Ok (VN (unle b)) end) ;; Ok (v, s')).
      { intros bs. destruct (read_mapped slice_reader _ bs) as [[b r]|k m|w]; cbn [bind]; [|reflexivity|reflexivity].
        destruct (prim_de_check p (unle b)); reflexivity. }
      eapply PS_post; [apply PS_read|]. intros b pre [-> L].
      destruct (prim_de_check p (unle pre)) eqn:Ec; [reflexivity|].
      intros fuel rest Hf. cbn [sdepth] in Hf. destruct fuel as [|f]; [lia|]. cbn [decl_of erase].
      assert (Hl : length pre = prim_width p) by (rewrite len_eq in L; lia).
      rewrite <- Hl, le_unle.
      apply (sdec_prim_def C _ (prim_schema_width p)); [exact (cov_list_hd _ _ _ Hc)|].
      now rewrite prim_widths_agree.
    - (* unit *)
      cbn [dec]. apply PS_ret. intros fuel rest Hf. cbn [sdepth] in Hf. destruct fuel as [|f]; [lia|].
      destruct u; cbn [decl_of erase calls] in *.
      + apply (sdec_prim_def C _ 0 f [] rest); [exact (cov_list_hd _ _ _ Hc)|reflexivity].
      + apply (sdec_prim_def C _ 0 f [] rest); [exact (cov_list_hd _ _ _ Hc)|reflexivity].
      + cbn [sdec_r]. unfold get_definition. now rewrite (cov_list_hd _ _ _ Hc).
    - (* raw *)
      cbn [dec].
      eapply PS_ext with (p := fun s => '(b, s') <- read_mapped slice_reader (raw_len k) s ;; v <- Ok (VL (of_bytes b)) ;; Ok (v, s')).
      { intros bs. destruct (read_mapped slice_reader _ bs) as [[b r]|? ?|?]; reflexivity. }
      eapply PS_post; [apply PS_read|]. intros b pre [-> L]. cbn beta iota.
      intros fuel rest Hf. cbn [sdepth] in Hf.
      assert (Hip : forall n, raw_len k = n -> cov_list (ip_calls n) ->
                sdec_r C fuel (ip_decl n) (pre ++ rest)
                = Ok (SNamed [("octets", SSeq (map (fun x => SPrim [x]) pre))], rest)).
      { intros n En Hcn. unfold ip_calls in Hcn.
        pose proof (cov_list_hd _ _ _ Hcn) as L1. pose proof (cov_list_hd _ _ _ (cov_list_tl _ _ Hcn)) as L2.
        pose proof (cov_list_hd _ _ _ (cov_list_tl _ _ (cov_list_tl _ _ Hcn))) as L3.
        destruct fuel as [|f0]; [lia|]. cbn [sdec_r]. unfold get_definition. rewrite L1. cbn [map snd fst sall].
        destruct f0 as [|f1]; [lia|]. destruct f1 as [|f2]; [lia|].
        rewrite (sdec_array C (octets_decl n) "u8" (S f2) n pre (map (fun x => SPrim [x]) pre) rest L2).
        - reflexivity.
        - rewrite <- En, <- L. now apply srepeat_bytes. }
      destruct k; cbn [has_schema] in Hs; try discriminate; cbn [decl_of erase calls bytes_sval] in *;
        rewrite byte_sval_of_bytes.
      + exact (Hip 4 eq_refl Hc).
      + exact (Hip 16 eq_refl Hc).
    - (* text *)
      assert (Hvec : forall el, lookup (defs C) (decl_of (TText k)) = Some (seq_def el) ->
                lookup (defs C) el = Some (Primitive 1) ->
                PS (Sim C (TText k)) (fun s => '(l, s') <- dec_vec slice_reader true (fun _ => Panic P_ILLTYPED) s ;; v <- text_post k l ;; Ok (v, s'))).
      { intros el L1 L2. eapply PS_post.
        - eapply PS_ext; [|apply (PS_dec_vec true (fun _ => Err InvalidData MSimple) (fun _ _ => True)); apply PS_fail].
          intros bs. unfold dec_vec. destruct (read_u32 slice_reader bs) as [[n s1]|? ?|?]; cbn [bind]; [|reflexivity|reflexivity].
          destruct (n =? 0)%N; reflexivity.
        - intros l pre (body & -> & Hlen & ->). unfold text_post.
          destruct (typed_bytes body) as (ns & E & B & _). rewrite E.
          destruct (text_check k ns) eqn:Et; [reflexivity|].
          intros fuel rest Hf. cbn [sdepth] in Hf. destruct fuel as [|[|f]]; try lia.
          cbn [erase bytes_sval]. rewrite byte_sval_of_bytes.
          apply (sdec_seq C _ el); [exact L1|exact Hlen|]. rewrite len_of_bytes. now apply srepeat_bytes. }
      destruct k; cbn [has_schema] in Hs; try discriminate; cbn [dec];
        (apply (Hvec _ (cov_list_hd _ _ _ Hc)); exact (cov_list_hd _ _ _ (cov_list_tl _ _ Hc))).
    - (* seq *)
      assert (Hw' : wf t' = true).
      { cbn [wf] in Hwf. repeat (apply andb_true_iff in Hwf; destruct Hwf as [Hwf ?]). exact Hwf. }
      cbn [dflt_ok] in Hd.
      cbn [has_schema] in Hs. apply andb_true_iff in Hs. destruct Hs as [Hs _].
      apply andb_true_iff in Hs. destruct Hs as [Hnk Hs']. apply negb_true_iff in Hnk.
      cbn [calls] in Hc. pose proof (cov_list_hd _ _ _ Hc) as L1. pose proof (cov_list_tl _ _ Hc) as Hc'.
      cbn [dec]. destruct (mem_zst (key_ty k t')) eqn:Hz; [apply PS_fail|].
      eapply PS_post.
      + apply (PS_dec_vec (is_u8 t') _ (fun x p => Typed t' x p /\ Sim C t' x p)).
        apply PS_conj; [apply dec_typed; assumption|apply IH; assumption].
      + intros l pre (body & -> & Hlen & Hl).
        destruct (elems_rep t' l body Hl Hc') as [Hel Hrep].
        exact (post_sim k t' l body Hwf Hnk Hel Hlen L1 Hrep).
    - (* array *)
      cbn [wf dflt_ok has_schema] in *. cbn [calls] in Hc.
      pose proof (cov_list_hd _ _ _ Hc) as L1. pose proof (cov_list_tl _ _ Hc) as Hc'.
      cbn [dec]. destruct (is_u8 t') eqn:Eu.
      + eapply PS_ext with (p := fun s => '(b, s') <- read_mapped slice_reader n s ;; v <- Ok (VL (of_bytes b)) ;; Ok (v, s')).
        { intros bs. destruct (read_mapped slice_reader _ bs) as [[b r]|? ?|?]; reflexivity. }
        eapply PS_post; [apply PS_read|]. intros b pre [-> L]. cbn beta iota.
        assert (Hl : if is_u8 t' then of_bytes pre = of_bytes pre else chunks (fun x p => Typed t' x p /\ Sim C t' x p) (of_bytes pre) pre)
          by (rewrite Eu; reflexivity).
        destruct (elems_rep t' _ pre Hl Hc') as [_ Hrep].
        intros fuel rest Hf. cbn [sdepth] in Hf. destruct fuel as [|f]; [lia|]. cbn [erase].
        apply (sdec_array C _ (decl_of t') f n); [exact L1|]. rewrite <- L, <- len_of_bytes. apply Hrep. lia.
      + eapply PS_ext with (p := fun s => '(l, s') <- repeat_dec (dec slice_reader c t') n s ;; v <- Ok (VL l) ;; Ok (v, s')).
        { intros bs. destruct (repeat_dec _ n bs) as [[l r]|? ?|?]; reflexivity. }
        eapply PS_post.
        * apply (PS_repeat_dec _ (fun x p => Typed t' x p /\ Sim C t' x p) n).
          apply PS_conj; [apply dec_typed; assumption|apply IH; assumption].
        * intros l pre [Hch Hn]. cbn beta iota.
          assert (Hl : if is_u8 t' then l = of_bytes pre else chunks (fun x p => Typed t' x p /\ Sim C t' x p) l pre)
            by (rewrite Eu; exact Hch).
          destruct (elems_rep t' l pre Hl Hc') as [_ Hrep].
          intros fuel rest Hf. cbn [sdepth] in Hf. destruct fuel as [|f]; [lia|]. cbn [erase].
          apply (sdec_array C _ (decl_of t') f n); [exact L1|]. rewrite <- Hn. apply Hrep. lia.
    - (* prod *)
      apply simQ_fst in IH.
      cbn [wf] in Hwf. apply andb_true_iff in Hwf. destruct Hwf as [Hwf0 Hwts].
      cbn [dflt_ok] in Hd. apply andb_true_iff in Hd. destruct Hd as [Hdts _].
      destruct k as [|r| | |name fn sk|fn sk]; cbn [has_schema] in Hs; try discriminate.
      + (* tuple *)
        apply andb_true_iff in Hs. destruct Hs as [_ Hs].
        cbn [calls] in Hc. pose proof (cov_list_hd _ _ _ Hc) as L1. pose proof (cov_list_tl _ _ Hc) as Hc'.
        pose proof (pad_false_nosk (length ts)) as Hno.
        cbn [dec prod_skips].
        eapply PS_ext with (p := fun s => '(l, s') <- dec_fields (fun t' s => dec slice_reader c t' s) ts (pad_false (length ts) []) s ;; v <- Ok (VL l) ;; Ok (v, s')).
        { intros bs. destruct (dec_fields _ ts _ bs) as [[l r]|? ?|?]; reflexivity. }
        eapply PS_post.
        * apply (PS_dec_fields_sim ts _ (pad_false_length _ _)). apply mk_fields_hyp; auto.
          -- now rewrite fields_all_nosk.
          -- now rewrite calls_fields_nosk.
        * intros l pre H. cbn beta iota. intros fuel rest Hf. cbn [sdepth] in Hf. destruct fuel as [|f]; [lia|].
          cbn [sdec_r]. unfold get_definition. rewrite L1.
          specialize (H f rest). rewrite !keep_nosk in H by exact Hno. rewrite H by lia. reflexivity.
      + (* range *)
        apply andb_true_iff in Hs. destruct Hs as [Hs Hsame]. apply andb_true_iff in Hs. destruct Hs as [Hlen Hs].
        apply Nat.eqb_eq in Hlen.
        cbn [calls] in Hc. pose proof (cov_list_hd _ _ _ Hc) as L1. pose proof (cov_list_tl _ _ Hc) as Hc'.
        pose proof (pad_false_nosk (length ts)) as Hno.
        cbn [dec prod_skips].
        eapply PS_ext with (p := fun s => '(l, s') <- dec_fields (fun t' s => dec slice_reader c t' s) ts (pad_false (length ts) []) s ;; v <- Ok (VL l) ;; Ok (v, s')).
        { intros bs. destruct (dec_fields _ ts _ bs) as [[l r0]|? ?|?]; reflexivity. }
        eapply PS_post.
        * apply (PS_dec_fields_sim ts _ (pad_false_length _ _)). apply mk_fields_hyp; auto.
          -- now rewrite fields_all_nosk.
          -- now rewrite calls_fields_nosk.
        * intros l pre H. cbn beta iota. intros fuel rest Hf. cbn [sdepth] in Hf. destruct fuel as [|f]; [lia|].
          cbn [sdec_r]. unfold get_definition. rewrite L1.
          assert (El : length (range_fields r) = length (map (fun x => decl_of x) ts)) by (now rewrite map_length).
          rewrite (map_snd_combine _ _ El), (map_fst_combine _ _ El).
          specialize (H f rest). rewrite !keep_nosk in H by exact Hno. rewrite H by lia. reflexivity.
      + (* struct *)
        apply andb_true_iff in Hs. destruct Hs as [Hs Hfa]. apply andb_true_iff in Hs. destruct Hs as [Hn Hlen].
        apply Nat.eqb_eq in Hlen.
        cbn [calls] in Hc. pose proof (cov_list_hd _ _ _ Hc) as L1. pose proof (cov_list_tl _ _ Hc) as Hc'.
        assert (Esk : prod_skips (PStruct name fn sk) (length ts) = sk).
        { cbn [prod_skips]. rewrite <- Hlen. clear. induction sk as [|b r IHr]; cbn; [reflexivity|now rewrite IHr]. }
        eapply PS_weaken; [|exact (PS_struct_like (PStruct name fn sk) name fn sk ts Esk Hlen IH Hwts Hdts Hn Hfa L1 Hc')].
        intros v pre H fuel rest Hf. cbn [sdepth] in Hf. cbn [decl_of erase]. apply H. lia.
    - (* prod, second clause *)
      intros fn sk ts0 E. inversion E; subst. now apply simQ_fst.
    - (* sum *)
      pose proof IH as IHQ. apply simQ_fst in IH.
      cbn [wf] in Hwf. repeat (apply andb_true_iff in Hwf; destruct Hwf as [Hwf ?]).
      match goal with X : forallb (fun x => wf x) vs = true |- _ => rename X into Hwvs end.
      cbn [dflt_ok] in Hd. cbn [dec].
      eapply (PS_bind _ _ (read_u8 slice_reader)); [apply PS_read_u8|].
      intros b pre1 [-> Hb]. destruct (find_tag (sum_tags k) b 0) as [i|] eqn:Eft; [|apply PS_fail].
      destruct k as [| | | |name vn tags]; cbn [has_schema] in Hs; try discriminate.
      + (* option *)
        destruct vs as [|v0 [|t1 [|? ?]]];
          try (repeat match type of Hs with context [match ?x with _ => _ end] => destruct x end; discriminate).
        assert (Hs1 : has_schema t1 = true /\ v0 = TProd (PVariant [] []) []).
        { repeat match type of Hs with context [match ?x with _ => _ end] => destruct x end; try discriminate; split; [exact Hs|reflexivity]. }
        destruct Hs1 as [Hs1 ->].
        cbn [calls] in Hc. pose proof (cov_list_hd _ _ _ Hc) as L1. pose proof (cov_list_tl _ _ Hc) as Hc'.
        pose proof (cov_list_app_l _ _ Hc') as Hc1. pose proof (cov_list_hd _ _ _ (cov_list_app_r _ _ Hc')) as Lu.
        set (VT := [(0%Z, "None", UNIT_DECL); (1%Z, "Some", decl_of t1)]) in *.
        destruct (find_variant_tag VT (sum_tags KOption) b 0 i eq_refl Eft) as (ni & -> & Hnth & Hfv).
        replace (N.to_nat (0 + N.of_nat ni)) with ni by lia.
        destruct ni as [|[|ni]]; cbn [sum_tags nth_error] in Hnth; [| |destruct ni; discriminate].
        * inversion Hnth; subst b. cbn [nth_or].
          apply (PS_variant _ _ VT 0 _ _ _ _ (fun _ => SPrim []) 1%nat L1 Hb Hfv); [|reflexivity|cbn [sdepth]; lia].
          cbn [dec prod_skips length pad_false dec_fields].
          eapply PS_ext with (p := fun s => Ok (VL [], s)); [intros bs; reflexivity|].
          apply PS_ret. intros fuel rest Hf. destruct fuel as [|f]; [lia|].
          apply (sdec_prim_def C _ 0 f [] rest); [exact Lu|reflexivity].
        * inversion Hnth; subst b. cbn [nth_or].
          apply (PS_variant _ _ VT 1 _ _ _ _ (erase t1) (sdepth t1) L1 Hb Hfv).
          -- apply (Forall_inv (Forall_inv_tail IH)); auto.
             ++ cbn [forallb] in Hwvs. now repeat (apply andb_true_iff in Hwvs; destruct Hwvs as [? Hwvs]).
             ++ cbn [forallb] in Hd. now repeat (apply andb_true_iff in Hd; destruct Hd as [? Hd]).
          -- reflexivity.
          -- cbn [sdepth map]. change (list_max (?a :: ?l)) with (Nat.max a (list_max l)). cbn [list_max fold_right map]. lia.
      + (* result *)
        destruct vs as [|t0 [|t1 [|? ?]]]; try discriminate.
        apply andb_true_iff in Hs. destruct Hs as [Hs0 Hs1].
        cbn [calls] in Hc. pose proof (cov_list_hd _ _ _ Hc) as L1. pose proof (cov_list_tl _ _ Hc) as Hc'.
        pose proof (cov_list_app_l _ _ Hc') as Hc0. pose proof (cov_list_app_r _ _ Hc') as Hc1.
        set (VT := [(1%Z, "Ok", decl_of t0); (0%Z, "Err", decl_of t1)]) in *.
        destruct (find_variant_tag VT (sum_tags KResult) b 0 i eq_refl Eft) as (ni & -> & Hnth & Hfv).
        replace (N.to_nat (0 + N.of_nat ni)) with ni by lia.
        cbn [forallb] in Hwvs, Hd. apply andb_true_iff in Hwvs, Hd. destruct Hwvs as [Hw0 Hw1]. destruct Hd as [Hd0 Hd1].
        apply andb_true_iff in Hw1, Hd1. destruct Hw1 as [Hw1 _]. destruct Hd1 as [Hd1 _].
        destruct ni as [|[|ni]]; cbn [sum_tags nth_error] in Hnth; [| |destruct ni; discriminate].
        * inversion Hnth; subst b. cbn [nth_or].
          apply (PS_variant _ _ VT 1 _ _ _ _ (erase t0) (sdepth t0) L1 Hb Hfv).
          -- apply (Forall_inv IH); auto.
          -- reflexivity.
          -- cbn [sdepth map list_max fold_right]. lia.
        * inversion Hnth; subst b. cbn [nth_or].
          apply (PS_variant _ _ VT 0 _ _ _ _ (erase t1) (sdepth t1) L1 Hb Hfv).
          -- apply (Forall_inv (Forall_inv_tail IH)); auto.
          -- reflexivity.
          -- cbn [sdepth map list_max fold_right]. lia.
      + (* IpAddr *)
        destruct vs as [|t0 [|t1 [|? ?]]];
          try (repeat match type of Hs with context [match ?x with _ => _ end] => destruct x end; discriminate).
        assert (E01 : t0 = TRaw RIpv4 /\ t1 = TRaw RIpv6).
        { repeat match type of Hs with context [match ?x with _ => _ end] => destruct x end; try discriminate; split; reflexivity. }
        destruct E01 as [-> ->].
        cbn [calls] in Hc. unfold ipaddr_calls in Hc.
        pose proof (cov_list_app_l _ _ Hc) as HcA. pose proof (cov_list_app_r _ _ Hc) as HcB.
        pose proof (cov_list_app_l _ _ HcB) as HcB1. pose proof (cov_list_hd _ _ _ (cov_list_app_r _ _ HcB)) as L1.
        pose proof (cov_list_hd _ _ _ HcA) as L4. pose proof (cov_list_tl _ _ HcA) as Hc4.
        pose proof (cov_list_hd _ _ _ HcB1) as L6. pose proof (cov_list_tl _ _ HcB1) as Hc6.
        unfold ipaddr_def in L1.
        set (VT := [(0%Z, "V4", "IpAddrV4"); (1%Z, "V6", "IpAddrV6")]) in *.
        destruct (find_variant_tag VT (sum_tags KIpAddr) b 0 i eq_refl Eft) as (ni & -> & Hnth & Hfv).
        replace (N.to_nat (0 + N.of_nat ni)) with ni by lia.
        assert (Hpay : forall rk nm inner, simP (TRaw rk) -> has_schema (TRaw rk) = true -> cov_list (calls (TRaw rk)) ->
                  lookup (defs C) nm = Some (Struct (UnnamedFields [inner])) -> inner = decl_of (TRaw rk) ->
                  PS (fun v pre => forall fuel rest, (4 <= fuel)%nat ->
                        sdec_r C fuel nm (pre ++ rest) = Ok (SUnnamed [erase (TRaw rk) v], rest))
                     (dec slice_reader c (TRaw rk))).
        { intros rk nm inner Hsim Hsr Hcr Ln ->. eapply PS_weaken; [|apply Hsim; auto].
          intros v pre H fuel rest Hf. destruct fuel as [|f]; [lia|]. cbn [sdec_r]. unfold get_definition. rewrite Ln.
          cbn [sall]. rewrite H by (cbn [sdepth]; lia). reflexivity. }
        destruct ni as [|[|ni]]; cbn [sum_tags nth_error] in Hnth; [| |destruct ni; discriminate].
        * inversion Hnth; subst b. cbn [nth_or].
          apply (PS_variant (TSum KIpAddr [TRaw RIpv4; TRaw RIpv6]) (TRaw RIpv4) VT 0 _ _ _ _ (fun v => SUnnamed [erase (TRaw RIpv4) v]) 4%nat L1 Hb Hfv);
            [apply (Hpay RIpv4 _ _ (Forall_inv IH) eq_refl Hc4 L4 eq_refl)|reflexivity|cbn [sdepth map list_max fold_right]; lia].
        * inversion Hnth; subst b. cbn [nth_or].
          apply (PS_variant (TSum KIpAddr [TRaw RIpv4; TRaw RIpv6]) (TRaw RIpv6) VT 1 _ _ _ _ (fun v => SUnnamed [erase (TRaw RIpv6) v]) 4%nat L1 Hb Hfv);
            [apply (Hpay RIpv6 _ _ (Forall_inv (Forall_inv_tail IH)) eq_refl Hc6 L6 eq_refl)|reflexivity|cbn [sdepth map list_max fold_right]; lia].
      + (* derived enum *)
        apply andb_true_iff in Hs. destruct Hs as [Hs Hvs]. apply andb_true_iff in Hs. destruct Hs as [Hl1 Hl2].
        apply Nat.eqb_eq in Hl1, Hl2.
        cbn [calls decl_of] in Hc.
        pose proof (cov_list_app_l _ _ Hc) as HcV. pose proof (cov_list_hd _ _ _ (cov_list_app_r _ _ Hc)) as L1.
        assert (Hlt : length vn = length tags) by congruence.
        destruct (find_variant_tag (enum_variants name vn tags) _ _ _ _ (enum_variants_fst name vn tags Hlt) Eft)
          as (ni & -> & Hnth & Hfv).
        replace (N.to_nat (0 + N.of_nat ni)) with ni by lia.
        rewrite (enum_variants_nth name vn tags ni b Hlt Hnth) in Hfv.
        destruct (nth_error vs ni) as [vt|] eqn:Evt.
        2:{ apply nth_error_None in Evt. assert (ni < length tags)%nat by (apply nth_error_Some; congruence). lia. }
        assert (Hvt : exists fn sk ts, vt = TProd (PVariant fn sk) ts /\
                  names_ok fn (length ts) = true /\ length sk = length ts /\ fields_all (fun x => has_schema x) ts sk = true).
        { pose proof (forallb_In _ _ _ Hvs (nth_error_In _ _ Evt)) as Hv.
          destruct vt as [| | | | | |[| | | | |fn sk] ts| |]; try discriminate.
          apply andb_true_iff in Hv. destruct Hv as [Hv Hfa]. apply andb_true_iff in Hv. destruct Hv as [Hn Hl].
          apply Nat.eqb_eq in Hl. eauto 8. }
        destruct Hvt as (fn & sk & ts & -> & Hn & Hlsk & Hfa).
        pose proof (proj2 (Forall_nth_error' _ _ _ _ IHQ Evt) fn sk ts eq_refl) as Hts.
        pose proof (forallb_In _ _ _ Hwvs (nth_error_In _ _ Evt)) as Hwv.
        pose proof (forallb_In _ _ _ Hd (nth_error_In _ _ Evt)) as Hdv.
        cbn [wf] in Hwv. apply andb_true_iff in Hwv. destruct Hwv as [_ Hwts].
        cbn [dflt_ok] in Hdv. apply andb_true_iff in Hdv. destruct Hdv as [Hdts _].
        pose proof (enum_calls_nth name vn vs 0%nat ni fn sk ts Evt) as Hinc. cbn [Nat.add] in Hinc.
        assert (Lv : lookup (defs C) (name ++ nth_str vn ni)%string
                     = Some (Struct (mk_fields fn sk (map (fun x => decl_of x) ts)))).
        { apply HcV. apply Hinc. now left. }
        assert (Hcf : cov_list (calls_fields (fun x => calls x) ts sk)).
        { intros d e I. apply HcV. apply Hinc. now right. }
        assert (Esk : prod_skips (PVariant fn sk) (length ts) = sk).
        { cbn [prod_skips]. rewrite <- Hlsk. clear. induction sk as [|b0 r IHr]; cbn; [reflexivity|now rewrite IHr]. }
        eapply PS_ext with (p := fun s => '(v, s2) <- dec slice_reader c (TProd (PVariant fn sk) ts) s ;; Ok (VV (0 + N.of_nat ni) v, s2)).
        { intros bs. now rewrite (nth_or_some _ _ _ _ _ Evt). }
        apply (PS_variant (TSum (KEnum name vn tags) vs) (TProd (PVariant fn sk) ts) (enum_variants name vn tags) b _ _ _ _
                 (fun v => mk_sfields fn sk (match v with VL l => erase_fields (fun t' x => erase t' x) ts l | _ => [] end))
                 (S (list_max (map (fun x => sdepth x) ts))) L1 Hb Hfv).
        * exact (PS_struct_like (PVariant fn sk) _ fn sk ts Esk Hlsk Hts Hwts Hdts Hn Hfa Lv Hcf).
        * intros v. cbn [erase]. replace (N.to_nat (0 + N.of_nat ni)) with ni by lia.
          rewrite (nth_or_some _ _ _ _ _ Evt). cbn [sum_tags sum_vname erase].
          rewrite (nth_error_nth_N _ _ _ Hnth). reflexivity.
        * cbn [sdepth]. pose proof (list_max_in (map (fun x => sdepth x) vs) (sdepth (TProd (PVariant fn sk) ts))) as Hm.
          cbn [sdepth] in Hm. specialize (Hm (in_map _ _ _ (nth_error_In _ _ Evt))). lia.
    - (* wrap *)
      destruct w; cbn [has_schema] in Hs; try discriminate;
        cbn [wf dflt_ok calls dec] in *; (eapply PS_weaken; [|apply IH; assumption]);
        intros a pre H fuel rest Hf; cbn [sdepth decl_of erase] in *; now apply H.
  Qed.
End Main.

(** * C08_decodes for name-coherent types *)
Theorem schema_decodes t v c bs :
  wf t = true -> dflt_ok t = true -> has_schema t = true -> coherent t = true ->
  schema_of t = Ok c -> has_ty t v = true -> enc t v = Ok bs ->
  exists fuel, sdec c (decl_of t) fuel bs = Some (erase t (logical t v), []).
Proof.
  intros Hwf Hd Hs Hco Hsc Hty Henc.
  pose proof (schema_of_covers t c Hs Hco Hsc) as Hcov.
  pose proof (round_trip c_strict t v bs Hwf Hty Henc []) as Hrt. unfold dec_slice in Hrt.
  pose proof (proj1 (simQ_all c c_strict eq_refl t) Hwf Hd Hs Hcov (bs ++ [])) as HPS.
  rewrite Hrt in HPS. destruct HPS as (pre & E & Hsim & _).
  apply app_inv_tail in E. subst pre.
  exists (sdepth t). unfold sdec. rewrite <- (app_nil_r bs) at 1. now rewrite (Hsim (sdepth t) [] (le_n _)).
Qed.
Print Assumptions schema_decodes.

(** more: [sdec] reads exactly the encoding and leaves whatever follows, with any larger fuel *)
Theorem schema_decodes_stream t v c bs :
  wf t = true -> dflt_ok t = true -> has_schema t = true -> coherent t = true ->
  schema_of t = Ok c -> has_ty t v = true -> enc t v = Ok bs ->
  forall fuel rest, (sdepth t <= fuel)%nat ->
    sdec c (decl_of t) fuel (bs ++ rest) = Some (erase t (logical t v), rest).
Proof.
  intros Hwf Hd Hs Hco Hsc Hty Henc fuel rest Hf.
  pose proof (schema_of_covers t c Hs Hco Hsc) as Hcov.
  pose proof (round_trip c_strict t v bs Hwf Hty Henc []) as Hrt. unfold dec_slice in Hrt.
  pose proof (proj1 (simQ_all c c_strict eq_refl t) Hwf Hd Hs Hcov (bs ++ [])) as HPS.
  rewrite Hrt in HPS. destruct HPS as (pre & E & Hsim & _).
  apply app_inv_tail in E. subst pre. unfold sdec. now rewrite (Hsim fuel rest Hf).
Qed.
Print Assumptions schema_decodes_stream.
