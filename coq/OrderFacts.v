(** [cmp_val] (the model of Rust's [Ord]) is a strict total order on the
    well-typed values of a key type; the representation of a key is its
    logical value. *)
From Coq Require Import String.
From Coq Require Import List NArith PeanoNat Bool Lia.
From Borsh Require Import Bytes BytesFacts Result Ty TyInd RoundTrip.
Import ListNotations.
Local Open Scope N_scope.

(** * Comparisons *)

(** The lexicographic step as the pattern matching compiles it in [lex_by] / [lex2]. *)
Definition lexm (c k : comparison) : comparison :=
  match c with Eq => k | Lt => Lt | Gt => Gt end.

Lemma lex_cmp_lexm c k : lex_cmp c k = lexm c k.
Proof. destruct c; reflexivity. Qed.

Lemma CompOpp_fix c : c = CompOpp c -> c = Eq.
Proof. destruct c; cbn [CompOpp]; intros H; try reflexivity; discriminate. Qed.

Lemma lexm_eq_cong hab hac hbc kab kac kbc :
  (hab = Eq -> hac = hbc) ->
  (hab = Eq -> hac = Eq -> kab = Eq -> kac = kbc) ->
  lexm hab kab = Eq -> lexm hac kac = lexm hbc kbc.
Proof.
  intros H1 H2 H. destruct hab; cbn [lexm] in H; try discriminate.
  rewrite <- (H1 eq_refl). destruct hac; cbn [lexm]; try reflexivity.
  apply H2; auto.
Qed.

Lemma lexm_lt_trans hab hbc hac kab kbc kac :
  (hab = Eq -> hac = hbc) -> (hbc = Eq -> hac = hab) ->
  (hab = Lt -> hbc = Lt -> hac = Lt) ->
  (hab = Eq -> hbc = Eq -> kab = Lt -> kbc = Lt -> kac = Lt) ->
  lexm hab kab = Lt -> lexm hbc kbc = Lt -> lexm hac kac = Lt.
Proof.
  intros H1 H2 H3 H4 Hab Hbc.
  destruct hab, hbc; cbn [lexm] in Hab, Hbc; try discriminate.
  - rewrite (H1 eq_refl). cbn [lexm]. auto.
  - rewrite (H1 eq_refl). reflexivity.
  - rewrite (H2 eq_refl). reflexivity.
  - rewrite (H3 eq_refl eq_refl). reflexivity.
Qed.

Lemma forallb_Forall_true {A} (p : A -> bool) l :
  forallb p l = true -> Forall (fun x => p x = true) l.
Proof. intros H. apply Forall_forall. intros x Hx. exact (forallb_In _ _ _ H Hx). Qed.

Lemma Forall_nth_error' {A} (Q : A -> Prop) l n a : Forall Q l -> nth_error l n = Some a -> Q a.
Proof. intros H E. rewrite Forall_forall in H. apply H. eapply nth_error_In; eauto. Qed.

(** * Generic lexicographic order of lists *)
Section LexByFacts.
  Variable f : val -> val -> comparison.
  Variable P : val -> Prop.
  Hypothesis f_anti : forall a b, f a b = CompOpp (f b a).
  Hypothesis f_eq : forall a b c, P a -> P b -> P c -> f a b = Eq -> f a c = f b c.
  Hypothesis f_lt : forall a b c, P a -> P b -> P c -> f a b = Lt -> f b c = Lt -> f a c = Lt.

  Lemma lex_by_antisym la : forall lb, lex_by f la lb = CompOpp (lex_by f lb la).
  Proof.
    induction la as [|x ra IH]; intros [|y rb]; cbn [lex_by]; try reflexivity.
    rewrite (f_anti x y). destruct (f y x); cbn [CompOpp]; try reflexivity. apply IH.
  Qed.

  Lemma f_eq_r a b c : P a -> P b -> P c -> f b c = Eq -> f a c = f a b.
  Proof.
    intros Pa Pb Pc H. rewrite (f_anti a c), (f_anti a b). f_equal. symmetry.
    apply f_eq; assumption.
  Qed.

  Lemma lex_by_eq_cong la : forall lb lc, Forall P la -> Forall P lb -> Forall P lc ->
    lex_by f la lb = Eq -> lex_by f la lc = lex_by f lb lc.
  Proof.
    induction la as [|x ra IH]; intros [|y rb] [|z rc] Ha Hb Hc H; cbn [lex_by] in *;
      try discriminate; try reflexivity.
    pose proof (Forall_inv Ha) as Px. pose proof (Forall_inv_tail Ha) as Hra.
    pose proof (Forall_inv Hb) as Py. pose proof (Forall_inv_tail Hb) as Hrb.
    pose proof (Forall_inv Hc) as Pz. pose proof (Forall_inv_tail Hc) as Hrc.
    exact (lexm_eq_cong (f x y) (f x z) (f y z) (lex_by f ra rb) (lex_by f ra rc) (lex_by f rb rc)
             (fun E => f_eq x y z Px Py Pz E) (fun _ _ E => IH rb rc Hra Hrb Hrc E) H).
  Qed.

  Lemma lex_by_lt_trans la : forall lb lc, Forall P la -> Forall P lb -> Forall P lc ->
    lex_by f la lb = Lt -> lex_by f lb lc = Lt -> lex_by f la lc = Lt.
  Proof.
    induction la as [|x ra IH]; intros [|y rb] [|z rc] Ha Hb Hc H1 H2; cbn [lex_by] in *;
      try discriminate; try reflexivity.
    pose proof (Forall_inv Ha) as Px. pose proof (Forall_inv_tail Ha) as Hra.
    pose proof (Forall_inv Hb) as Py. pose proof (Forall_inv_tail Hb) as Hrb.
    pose proof (Forall_inv Hc) as Pz. pose proof (Forall_inv_tail Hc) as Hrc.
    exact (lexm_lt_trans (f x y) (f y z) (f x z) (lex_by f ra rb) (lex_by f rb rc) (lex_by f ra rc)
             (fun E => f_eq x y z Px Py Pz E) (fun E => f_eq_r x y z Px Py Pz E)
             (fun E1 E2 => f_lt x y z Px Py Pz E1 E2)
             (fun _ _ E1 E2 => IH rb rc Hra Hrb Hrc E1 E2) H1 H2).
  Qed.
End LexByFacts.

(** * Byte strings *)
Definition bcmp (a b : val) : comparison :=
  match a, b with VN x, VN y => N.compare x y | _, _ => Eq end.
Definition is_vn (v : val) : Prop := exists n, v = VN n.

Lemma lex_bytes_unfold : lex_bytes = lex_by bcmp.
Proof. reflexivity. Qed.

Lemma bcmp_antisym a b : bcmp a b = CompOpp (bcmp b a).
Proof. destruct a as [x|la|i x], b as [y|lb|j y]; cbn [bcmp]; try reflexivity. apply N.compare_antisym. Qed.
Lemma bcmp_eq_cong a b c : is_vn a -> is_vn b -> is_vn c -> bcmp a b = Eq -> bcmp a c = bcmp b c.
Proof.
  intros [x ->] [y ->] [z ->]. cbn [bcmp]. intros H. apply N.compare_eq in H. now subst.
Qed.
Lemma bcmp_lt_trans a b c : is_vn a -> is_vn b -> is_vn c -> bcmp a b = Lt -> bcmp b c = Lt -> bcmp a c = Lt.
Proof.
  intros [x ->] [y ->] [z ->]. cbn [bcmp]. rewrite !N.compare_lt_iff. lia.
Qed.

Lemma vals_ns_is_vn l : forall ns, vals_ns l = Some ns -> Forall is_vn l.
Proof.
  induction l as [|v r IH]; intros ns H; [constructor|].
  cbn [vals_ns] in H. destruct v as [n|l0|i x]; try discriminate.
  destruct (vals_ns r) as [nr|] eqn:Er; [|discriminate].
  constructor; [now exists n|]. now apply (IH nr).
Qed.

Lemma has_ty_raw_vn k l : has_ty (TRaw k) (VL l) = true -> Forall is_vn l.
Proof.
  cbn [has_ty]. destruct (vals_ns l) as [ns|] eqn:E; [|discriminate]. intros _. now apply (vals_ns_is_vn l ns).
Qed.
Lemma has_ty_text_vn k l : has_ty (TText k) (VL l) = true -> Forall is_vn l.
Proof.
  cbn [has_ty]. destruct (vals_ns l) as [ns|] eqn:E; [|discriminate]. intros _. now apply (vals_ns_is_vn l ns).
Qed.

(** * Antisymmetry (no typing needed) *)
Definition antisym_at (t : ty) : Prop := forall a b, cmp_val t a b = CompOpp (cmp_val t b a).

Lemma lex2_antisym ts : Forall antisym_at ts ->
  forall la lb, lex2 (fun t' x y => cmp_val t' x y) ts la lb
                = CompOpp (lex2 (fun t' x y => cmp_val t' x y) ts lb la).
Proof.
  induction 1 as [|t tr Ht Htr IH]; intros la lb.
  - reflexivity.
  - destruct la as [|x ra], lb as [|y rb]; cbn [lex2]; try reflexivity.
    rewrite (Ht x y). destruct (cmp_val t y x); cbn [CompOpp]; try reflexivity. apply IH.
Qed.

Lemma nth_or_antisym vs n x y : Forall antisym_at vs ->
  nth_or (fun t' => cmp_val t' x y) Eq vs n = CompOpp (nth_or (fun t' => cmp_val t' y x) Eq vs n).
Proof.
  intros H. destruct (nth_error vs n) as [t|] eqn:E.
  - rewrite !(nth_or_some _ _ _ _ _ E). exact (Forall_nth_error' _ _ _ _ H E x y).
  - rewrite !(nth_or_none _ _ _ _ E). reflexivity.
Qed.

Lemma cmp_val_antisym : forall t a b, cmp_val t a b = CompOpp (cmp_val t b a).
Proof.
  induction t as [p|u|k|k|k t' IH|n t' IH|k ts IH|k vs IH|w t' IH] using ty_ind'; intros a b.
  - destruct a as [x|la|i x], b as [y|lb|j y]; cbn [cmp_val]; try reflexivity. apply N.compare_antisym.
  - reflexivity.
  - destruct a as [x|la|i x], b as [y|lb|j y]; cbn [cmp_val]; try reflexivity.
    rewrite lex_bytes_unfold. apply lex_by_antisym. exact bcmp_antisym.
  - destruct a as [x|la|i x], b as [y|lb|j y]; cbn [cmp_val]; try reflexivity.
    rewrite lex_bytes_unfold. apply lex_by_antisym. exact bcmp_antisym.
  - destruct a as [x|la|i x], b as [y|lb|j y]; cbn [cmp_val]; try reflexivity.
    apply lex_by_antisym. exact IH.
  - destruct a as [x|la|i x], b as [y|lb|j y]; cbn [cmp_val]; try reflexivity.
    apply lex_by_antisym. exact IH.
  - destruct a as [x|la|i x], b as [y|lb|j y]; cbn [cmp_val]; try reflexivity.
    apply lex2_antisym. exact IH.
  - destruct a as [x|la|i x], b as [y|lb|j y]; cbn [cmp_val]; try reflexivity.
    rewrite (N.compare_antisym (sum_rank k j) (sum_rank k i)).
    destruct (sum_rank k j ?= sum_rank k i); cbn [CompOpp lex_cmp]; try reflexivity.
    rewrite (N.compare_antisym j i). destruct (j ?= i) eqn:E; cbn [CompOpp lex_cmp]; try reflexivity.
    apply N.compare_eq in E. subst j. apply nth_or_antisym. exact IH.
  - cbn [cmp_val]. apply IH.
Qed.

Lemma cmp_val_refl : forall t a, cmp_val t a a = Eq.
Proof. intros t a. apply CompOpp_fix. apply cmp_val_antisym. Qed.

(** * Eq-congruence and Lt-transitivity (typed) *)
Definition eq_cong_at (t : ty) : Prop := forall a b c,
  has_ty t a = true -> has_ty t b = true -> has_ty t c = true ->
  cmp_val t a b = Eq -> cmp_val t a c = cmp_val t b c.
Definition lt_trans_at (t : ty) : Prop := forall a b c,
  has_ty t a = true -> has_ty t b = true -> has_ty t c = true ->
  cmp_val t a b = Lt -> cmp_val t b c = Lt -> cmp_val t a c = Lt.
Definition ord_at (t : ty) : Prop := eq_cong_at t /\ lt_trans_at t.

Lemma eq_cong_r t a b c : eq_cong_at t ->
  has_ty t a = true -> has_ty t b = true -> has_ty t c = true ->
  cmp_val t b c = Eq -> cmp_val t a c = cmp_val t a b.
Proof.
  intros He Ha Hb Hc H. rewrite (cmp_val_antisym t a c), (cmp_val_antisym t a b). f_equal. symmetry.
  apply He; assumption.
Qed.

(** lists of elements of one type *)
Lemma lex_by_ord t' : ord_at t' -> forall la lb lc,
  forallb (has_ty t') la = true -> forallb (has_ty t') lb = true -> forallb (has_ty t') lc = true ->
  (lex_by (cmp_val t') la lb = Eq -> lex_by (cmp_val t') la lc = lex_by (cmp_val t') lb lc) /\
  (lex_by (cmp_val t') la lb = Lt -> lex_by (cmp_val t') lb lc = Lt -> lex_by (cmp_val t') la lc = Lt).
Proof.
  intros [He Hl] la lb lc Ha Hb Hc.
  apply forallb_Forall_true in Ha, Hb, Hc. split.
  - exact (lex_by_eq_cong (cmp_val t') (fun x => has_ty t' x = true) He la lb lc Ha Hb Hc).
  - exact (lex_by_lt_trans (cmp_val t') (fun x => has_ty t' x = true) (cmp_val_antisym t') He Hl
             la lb lc Ha Hb Hc).
Qed.

Lemma lex_bytes_ord la lb lc : Forall is_vn la -> Forall is_vn lb -> Forall is_vn lc ->
  (lex_bytes la lb = Eq -> lex_bytes la lc = lex_bytes lb lc) /\
  (lex_bytes la lb = Lt -> lex_bytes lb lc = Lt -> lex_bytes la lc = Lt).
Proof.
  intros Ha Hb Hc. rewrite lex_bytes_unfold. split.
  - exact (lex_by_eq_cong bcmp is_vn bcmp_eq_cong la lb lc Ha Hb Hc).
  - exact (lex_by_lt_trans bcmp is_vn bcmp_antisym bcmp_eq_cong bcmp_lt_trans la lb lc Ha Hb Hc).
Qed.

(** fields of a product *)
Lemma lex2_ord ts : Forall (fun t => key_ok t = true -> ord_at t) ts ->
  forallb (fun x => key_ok x) ts = true ->
  forall la lb lc,
    all2 (fun t' x => has_ty t' x) ts la = true ->
    all2 (fun t' x => has_ty t' x) ts lb = true ->
    all2 (fun t' x => has_ty t' x) ts lc = true ->
    (lex2 (fun t' x y => cmp_val t' x y) ts la lb = Eq ->
     lex2 (fun t' x y => cmp_val t' x y) ts la lc = lex2 (fun t' x y => cmp_val t' x y) ts lb lc) /\
    (lex2 (fun t' x y => cmp_val t' x y) ts la lb = Lt ->
     lex2 (fun t' x y => cmp_val t' x y) ts lb lc = Lt ->
     lex2 (fun t' x y => cmp_val t' x y) ts la lc = Lt).
Proof.
  induction 1 as [|t tr Ht Htr IH]; intros Hk la lb lc Ha Hb Hc.
  - cbn [lex2]. split; [reflexivity|discriminate].
  - cbn [forallb] in Hk. apply andb_true_iff in Hk. destruct Hk as [Hkt Hkr].
    destruct (Ht Hkt) as [He Hl].
    destruct la as [|x ra]; cbn [all2] in Ha; try discriminate.
    destruct lb as [|y rb]; cbn [all2] in Hb; try discriminate.
    destruct lc as [|z rc]; cbn [all2] in Hc; try discriminate.
    apply andb_true_iff in Ha, Hb, Hc.
    destruct Ha as [Hx Hra]. destruct Hb as [Hy Hrb]. destruct Hc as [Hz Hrc].
    destruct (IH Hkr ra rb rc Hra Hrb Hrc) as [IHe IHl].
    cbn [lex2]. split.
    + intros H.
      exact (lexm_eq_cong (cmp_val t x y) (cmp_val t x z) (cmp_val t y z) _ _ _
               (fun E => He x y z Hx Hy Hz E) (fun _ _ E => IHe E) H).
    + intros H1 H2.
      exact (lexm_lt_trans (cmp_val t x y) (cmp_val t y z) (cmp_val t x z) _ _ _
               (fun E => He x y z Hx Hy Hz E) (fun E => eq_cong_r t x y z He Hx Hy Hz E)
               (fun E1 E2 => Hl x y z Hx Hy Hz E1 E2)
               (fun _ _ E1 E2 => IHl E1 E2) H1 H2).
Qed.

Lemma has_ty_sum k vs i x : has_ty (TSum k vs) (VV i x) = true ->
  exists t, nth_error vs (N.to_nat i) = Some t /\ has_ty t x = true.
Proof. cbn [has_ty]. apply nth_or_true. Qed.

(** The order on the variants of a sum: by rank (the discriminant of a derived enum, the ordinal of
    a built-in sum), then by ordinal. *)
Definition vcmp (k : sum_kind) (i j : N) : comparison :=
  lexm (sum_rank k i ?= sum_rank k j) (i ?= j).

Lemma cmp_val_sum k vs i x j y :
  cmp_val (TSum k vs) (VV i x) (VV j y)
  = lexm (vcmp k i j) (nth_or (fun t' => cmp_val t' x y) Eq vs (N.to_nat i)).
Proof.
  cbn [cmp_val]. unfold vcmp. rewrite !lex_cmp_lexm.
  destruct (sum_rank k i ?= sum_rank k j); reflexivity.
Qed.

Lemma vcmp_eq k i j : vcmp k i j = Eq -> i = j.
Proof.
  unfold vcmp. destruct (sum_rank k i ?= sum_rank k j); cbn [lexm]; try discriminate.
  apply N.compare_eq.
Qed.

Lemma vcmp_lt_trans k i j l : vcmp k i j = Lt -> vcmp k j l = Lt -> vcmp k i l = Lt.
Proof.
  unfold vcmp. intros H1 H2.
  refine (lexm_lt_trans (sum_rank k i ?= sum_rank k j) (sum_rank k j ?= sum_rank k l)
            (sum_rank k i ?= sum_rank k l) _ _ _ _ _ _ _ H1 H2).
  - intros E. apply N.compare_eq in E. now rewrite E.
  - intros E. apply N.compare_eq in E. now rewrite E.
  - rewrite !N.compare_lt_iff. lia.
  - intros _ _. rewrite !N.compare_lt_iff. lia.
Qed.

Lemma sum_ord k vs : Forall (fun t => key_ok t = true -> ord_at t) vs ->
  forallb (fun x => key_ok x) vs = true -> ord_at (TSum k vs).
Proof.
  intros IH Hk.
  assert (Hvs : forall n t, nth_error vs n = Some t -> ord_at t).
  { intros n t E. apply (Forall_nth_error' _ _ _ _ IH E).
    exact (forallb_In _ _ _ Hk (nth_error_In _ _ E)). }
  split.
  - intros a b c Ha Hb Hc.
    destruct a as [|la|i x]; try discriminate.
    destruct b as [|lb|j y]; try discriminate.
    destruct c as [|lc|l z]; try discriminate.
    apply has_ty_sum in Ha, Hb, Hc.
    destruct Ha as (ti & Ei & Hx). destruct Hb as (tj & Ej & Hy). destruct Hc as (tl & El & Hz).
    rewrite !cmp_val_sum. intros H.
    refine (lexm_eq_cong (vcmp k i j) (vcmp k i l) (vcmp k j l) _ _ _ _ _ H).
    + intros E. apply vcmp_eq in E. now subst j.
    + intros E1 E2. apply vcmp_eq in E1, E2. subst j l.
      rewrite Ei in Ej, El. inversion Ej; subst tj. inversion El; subst tl.
      rewrite !(nth_or_some _ _ _ _ _ Ei).
      destruct (Hvs _ _ Ei) as [He _]. apply He; assumption.
  - intros a b c Ha Hb Hc.
    destruct a as [|la|i x]; try discriminate.
    destruct b as [|lb|j y]; try discriminate.
    destruct c as [|lc|l z]; try discriminate.
    apply has_ty_sum in Ha, Hb, Hc.
    destruct Ha as (ti & Ei & Hx). destruct Hb as (tj & Ej & Hy). destruct Hc as (tl & El & Hz).
    rewrite !cmp_val_sum. intros H1 H2.
    refine (lexm_lt_trans (vcmp k i j) (vcmp k j l) (vcmp k i l) _ _ _ _ _ _ _ H1 H2).
    + intros E. apply vcmp_eq in E. now subst j.
    + intros E. apply vcmp_eq in E. now subst l.
    + apply vcmp_lt_trans.
    + intros E1 E2. apply vcmp_eq in E1, E2. subst j l.
      rewrite Ei in Ej, El. inversion Ej; subst tj. inversion El; subst tl.
      rewrite !(nth_or_some _ _ _ _ _ Ei).
      destruct (Hvs _ _ Ei) as [_ Hl]. apply Hl; assumption.
Qed.

Lemma cmp_val_ord : forall t, key_ok t = true -> ord_at t.
Proof.
  induction t as [p|u|k|k|k t' IH|n t' IH|k ts IH|k vs IH|w t' IH] using ty_ind'; intros Hk.
  - (* primitives: [N.compare] on the keys *)
    split; intros a b c Ha Hb Hc;
      destruct a as [x|la|i x]; try discriminate;
      destruct b as [y|lb|j y]; try discriminate;
      destruct c as [z|lc|l z]; try discriminate; cbn [cmp_val].
    + intros H. apply N.compare_eq in H. now rewrite H.
    + rewrite !N.compare_lt_iff. lia.
  - split; intros a b c _ _ _; cbn [cmp_val]; [reflexivity|discriminate].
  - (* raw *)
    split; intros a b c Ha Hb Hc;
      destruct a as [x|la|i x]; try discriminate;
      destruct b as [y|lb|j y]; try discriminate;
      destruct c as [z|lc|l z]; try discriminate; cbn [cmp_val];
      apply has_ty_raw_vn in Ha, Hb, Hc;
      destruct (lex_bytes_ord la lb lc Ha Hb Hc) as [He Hl]; assumption.
  - (* text *)
    split; intros a b c Ha Hb Hc;
      destruct a as [x|la|i x]; try discriminate;
      destruct b as [y|lb|j y]; try discriminate;
      destruct c as [z|lc|l z]; try discriminate; cbn [cmp_val];
      apply has_ty_text_vn in Ha, Hb, Hc;
      destruct (lex_bytes_ord la lb lc Ha Hb Hc) as [He Hl]; assumption.
  - (* sequences *)
    destruct k; cbn [key_ok] in Hk; try discriminate.
    all: pose proof (IH Hk) as Hord.
    all: split; intros a b c Ha Hb Hc;
      destruct a as [x|la|i x]; try discriminate;
      destruct b as [y|lb|j y]; try discriminate;
      destruct c as [z|lc|l z]; try discriminate; cbn [cmp_val];
      cbn [has_ty] in Ha, Hb, Hc; apply andb_true_iff in Ha, Hb, Hc;
      destruct (lex_by_ord t' Hord la lb lc (proj1 Ha) (proj1 Hb) (proj1 Hc)) as [He Hl]; assumption.
  - (* arrays *)
    cbn [key_ok] in Hk. pose proof (IH Hk) as Hord.
    split; intros a b c Ha Hb Hc;
      destruct a as [x|la|i x]; try discriminate;
      destruct b as [y|lb|j y]; try discriminate;
      destruct c as [z|lc|l z]; try discriminate; cbn [cmp_val];
      cbn [has_ty] in Ha, Hb, Hc; apply andb_true_iff in Ha, Hb, Hc;
      destruct (lex_by_ord t' Hord la lb lc (proj2 Ha) (proj2 Hb) (proj2 Hc)) as [He Hl]; assumption.
  - (* products *)
    cbn [key_ok] in Hk. apply andb_true_iff in Hk. destruct Hk as [_ Hk].
    split; intros a b c Ha Hb Hc;
      destruct a as [x|la|i x]; try discriminate;
      destruct b as [y|lb|j y]; try discriminate;
      destruct c as [z|lc|l z]; try discriminate; cbn [cmp_val];
      cbn [has_ty] in Ha, Hb, Hc;
      destruct (lex2_ord ts IH Hk la lb lc Ha Hb Hc) as [He Hl]; assumption.
  - (* sums *)
    cbn [key_ok] in Hk. now apply sum_ord.
  - (* wrappers *)
    destruct w; cbn [key_ok] in Hk; try discriminate.
    all: destruct (IH Hk) as [He Hl].
    all: split; intros a b c Ha Hb Hc; cbn [has_ty cmp_val] in *; [apply He|apply Hl]; assumption.
Qed.

Lemma cmp_val_eq_cong : forall t, key_ok t = true -> forall a b c,
  has_ty t a = true -> has_ty t b = true -> has_ty t c = true ->
  cmp_val t a b = Eq -> cmp_val t a c = cmp_val t b c.
Proof. intros t Hk. exact (proj1 (cmp_val_ord t Hk)). Qed.

Lemma cmp_val_lt_trans : forall t, key_ok t = true -> forall a b c,
  has_ty t a = true -> has_ty t b = true -> has_ty t c = true ->
  cmp_val t a b = Lt -> cmp_val t b c = Lt -> cmp_val t a c = Lt.
Proof. intros t Hk. exact (proj2 (cmp_val_ord t Hk)). Qed.

(** * The representation of a key is its logical value *)
Definition logical_id_at (t : ty) : Prop :=
  key_ok t = true -> forall v, has_ty t v = true -> logical t v = v.

Lemma map_logical_id t' l : logical_id_at t' -> key_ok t' = true ->
  forallb (has_ty t') l = true -> map (logical t') l = l.
Proof.
  intros IH Hk Hl. rewrite <- (map_id l) at 2. apply map_ext_in.
  intros x Hx. apply IH; [exact Hk|]. exact (forallb_In _ _ _ Hl Hx).
Qed.

Lemma map_fields_id ts : Forall logical_id_at ts ->
  forallb (fun x => key_ok x) ts = true ->
  forall sk l, forallb negb sk = true -> length sk = length ts ->
    all2 (fun t' x => has_ty t' x) ts l = true ->
    map_fields (fun t' x => logical t' x) default_of ts sk l = l.
Proof.
  induction 1 as [|t tr Ht Htr IH]; intros Hk sk l Hsk Hlen Hty.
  - destruct l as [|x r]; cbn [all2] in Hty; try discriminate. reflexivity.
  - destruct l as [|x r]; cbn [all2] in Hty; try discriminate.
    destruct sk as [|s sr]; cbn [length] in Hlen; try discriminate.
    cbn [forallb] in Hk, Hsk. apply andb_true_iff in Hk, Hsk, Hty.
    destruct Hk as [Hkt Hkr]. destruct Hsk as [Hs Hsr]. destruct Hty as [Hx Hr].
    destruct s; cbn [negb] in Hs; try discriminate.
    cbn [map_fields]. rewrite (Ht Hkt x Hx). f_equal.
    apply IH; try assumption. now inversion Hlen.
Qed.

Lemma logical_key_id : forall t v, key_ok t = true -> has_ty t v = true -> logical t v = v.
Proof.
  intros t v Hk Hv. revert Hk v Hv. change (logical_id_at t).
  induction t as [p|u|k|k|k t' IH|n t' IH|k ts IH|k vs IH|w t' IH] using ty_ind'; intros Hk v Hv.
  - reflexivity.
  - reflexivity.
  - reflexivity.
  - reflexivity.
  - destruct k; cbn [key_ok] in Hk; try discriminate.
    all: destruct v as [x|l|i x]; try discriminate; cbn [has_ty] in Hv;
      apply andb_true_iff in Hv; destruct Hv as [Hv _];
      cbn [logical]; now rewrite (map_logical_id t' l IH Hk Hv).
  - cbn [key_ok] in Hk. destruct v as [x|l|i x]; try discriminate. cbn [has_ty] in Hv.
    apply andb_true_iff in Hv. destruct Hv as [_ Hv].
    cbn [logical]. now rewrite (map_logical_id t' l IH Hk Hv).
  - cbn [key_ok] in Hk. apply andb_true_iff in Hk. destruct Hk as [Hsk Hk].
    apply andb_true_iff in Hsk. destruct Hsk as [_ Hsk].
    destruct v as [x|l|i x]; try discriminate. cbn [has_ty] in Hv.
    cbn [logical]. f_equal.
    apply (map_fields_id ts IH Hk); [exact Hsk|apply prod_skips_length|exact Hv].
  - cbn [key_ok] in Hk. destruct v as [x|l|i x]; try discriminate.
    apply has_ty_sum in Hv. destruct Hv as (t & Et & Hx).
    cbn [logical]. rewrite (nth_or_some _ _ _ _ _ Et). f_equal.
    apply (Forall_nth_error' _ _ _ _ IH Et); [|exact Hx].
    exact (forallb_In _ _ _ Hk (nth_error_In _ _ Et)).
  - destruct w; cbn [key_ok] in Hk; try discriminate.
    all: cbn [has_ty] in Hv; cbn [logical]; now apply IH.
Qed.

(** * Which order it is on the variants of a sum

    For a well-formed derived enum two values in different variants compare as their TAGS do (with
    [use_discriminant = true] the tags are the Rust discriminants, which is what
    [#[derive(PartialOrd, Ord)]] compares); the ordinal tie-break of [cmp_val] never decides.
    Built-in sums compare by ordinal. *)
Lemma nodup_n_nth tags : nodup_n tags = true ->
  forall i j d d', (i < length tags)%nat -> (j < length tags)%nat -> nth i tags d = nth j tags d' -> i = j.
Proof.
  induction tags as [|a r IH]; intros H i j d d' Hi Hj E; cbn [length] in Hi, Hj; [lia|].
  cbn [nodup_n] in H. apply andb_true_iff in H. destruct H as [Ha Hr].
  apply negb_true_iff in Ha.
  assert (Hnot : forall m d0, (m < length r)%nat -> nth m r d0 <> a).
  { intros m d0 Hm E'. assert (Ht : existsb (N.eqb a) r = true); [|rewrite Ht in Ha; discriminate].
    apply existsb_exists. exists (nth m r d0). split.
    - now apply nth_In.
    - rewrite E'. apply N.eqb_refl. }
  destruct i as [|i], j as [|j]; cbn [nth] in E.
  - reflexivity.
  - exfalso. apply (Hnot j d'); [lia|]. now symmetry.
  - exfalso. apply (Hnot i d); [lia|]. exact E.
  - f_equal. apply (IH Hr i j d d'); [lia|lia|exact E].
Qed.

Lemma cmp_val_enum_tags nm vn tags vs i x j y :
  wf (TSum (KEnum nm vn tags) vs) = true ->
  (N.to_nat i < length vs)%nat -> (N.to_nat j < length vs)%nat -> i <> j ->
  cmp_val (TSum (KEnum nm vn tags) vs) (VV i x) (VV j y)
  = (nth (N.to_nat i) tags 0 ?= nth (N.to_nat j) tags 0).
Proof.
  intros Hwf Hi Hj Hne. cbn [wf sum_tags] in Hwf.
  repeat (apply andb_true_iff in Hwf; destruct Hwf as [Hwf ?]).
  apply Nat.eqb_eq in Hwf. rewrite <- Hwf in Hi, Hj.
  cbn [cmp_val sum_rank].
  rewrite (nth_indep tags i 0 Hi), (nth_indep tags j 0 Hj).
  destruct (nth (N.to_nat i) tags 0 ?= nth (N.to_nat j) tags 0) eqn:E; cbn [lex_cmp]; try reflexivity.
  exfalso. apply Hne. apply N.compare_eq in E.
  apply N2Nat.inj. eapply nodup_n_nth; eassumption.
Qed.

Lemma cmp_val_builtin_ordinal k vs i x j y :
  match k with KEnum _ _ _ => False | _ => True end -> i <> j ->
  cmp_val (TSum k vs) (VV i x) (VV j y) = (i ?= j).
Proof.
  intros Hk Hne. cbn [cmp_val].
  replace (sum_rank k i) with i by (destruct k; try reflexivity; contradiction).
  replace (sum_rank k j) with j by (destruct k; try reflexivity; contradiction).
  destruct (i ?= j) eqn:E; cbn [lex_cmp]; try reflexivity.
  now apply N.compare_eq in E.
Qed.

(** [#[borsh(use_discriminant = true)] enum KDesc { A = 5, B = 1, C = 3 }]: B < C < A. *)
Example kdesc_order :
  let t := TSum (KEnum "KDesc" ["A"; "B"; "C"]%string [5; 1; 3]) [TUnit UUnit; TUnit UUnit; TUnit UUnit] in
  cmp_val t (VV 1 (VL [])) (VV 2 (VL [])) = Lt /\ cmp_val t (VV 2 (VL [])) (VV 0 (VL [])) = Lt /\
  has_ty (TSeq SBTreeSet t) (VL [VV 1 (VL []); VV 2 (VL []); VV 0 (VL [])]) = true /\
  has_ty (TSeq SBTreeSet t) (VL [VV 0 (VL []); VV 1 (VL []); VV 2 (VL [])]) = false.
Proof. repeat split. Qed.

Print Assumptions cmp_val_antisym.
Print Assumptions cmp_val_enum_tags.
Print Assumptions cmp_val_builtin_ordinal.
Print Assumptions cmp_val_eq_cong.
Print Assumptions cmp_val_lt_trans.
Print Assumptions cmp_val_refl.
Print Assumptions logical_key_id.
