(** C05  Encodings are self-delimiting: exact consumption, no trailing or truncated input.
    Property theorems only; proofs live in ParseFacts.v / DecCorollaries.v / RoundTripKeyed.v. *)
From Coq Require Import String.
From Coq Require Import List NArith.
From Borsh Require Import Bytes Result Ty Ser De Entry RoundTrip RoundTripKeyed ParseFacts DecCorollaries RefusalStable C05Facts.
Import ListNotations.
Local Open Scope N_scope.

(** Decoding one value reads a prefix of the input and does not depend on what follows it:
    for EVERY type and EVERY byte string (no well-formedness needed). *)
Theorem C05_extend :
  forall (c : cfg) (t : ty) (bs : bytes) (v : val) (r x : bytes),
    dec_slice c t bs = Ok (v, r) -> dec_slice c t (bs ++ x) = Ok (v, r ++ x).
Proof. exact dec_extend. Qed.
Print Assumptions C05_extend.

Theorem C05_consumes_prefix :
  forall (c : cfg) (t : ty) (bs : bytes) (v : val) (r : bytes),
    dec_slice c t bs = Ok (v, r) ->
    exists pre, bs = pre ++ r /\ (forall r', dec_slice c t (pre ++ r') = Ok (v, r')) /\
                (forall q1 q2, pre = q1 ++ q2 -> q2 <> [] -> dec_slice c t q1 = Err InvalidData MUnexpectedLength).
Proof. exact dec_prefix. Qed.
Print Assumptions C05_consumes_prefix.

(** Exactly the bytes of the value are consumed (with C01). *)
Theorem C05_exact :
  forall (c : cfg) (t : ty) (v : val) (bs : bytes),
    wf t = true -> has_ty t v = true -> enc t v = Ok bs ->
    forall rest, deserialize c t (bs ++ rest) = Ok (logical t v, rest).
Proof. exact round_trip. Qed.
Print Assumptions C05_exact.

(** Values written back to back are read back in order, leaving the tail. *)
Theorem C05_stream :
  forall (c : cfg) (items : list (ty * val)) (bs : bytes),
    (forall t v, In (t, v) items -> wf t = true /\ has_ty t v = true) ->
    enc_stream items = Ok bs ->
    forall tail, dec_stream c (map fst items) (bs ++ tail)
                 = Ok (map (fun tv => logical (fst tv) (snd tv)) items, tail).
Proof. exact stream_wf. Qed.
Print Assumptions C05_stream.

(** Whole-input entry points reject left-over bytes ... *)
Theorem C05_trailing :
  forall (c : cfg) (t : ty) (v : val) (bs rest : bytes),
    wf t = true -> has_ty t v = true -> enc t v = Ok bs -> rest <> [] ->
    try_from_slice c t (bs ++ rest) = Err InvalidData MNotAllBytesRead /\
    from_slice c t (bs ++ rest) = Err InvalidData MNotAllBytesRead /\
    try_from_reader slice_reader c t (bs ++ rest) = Err InvalidData MNotAllBytesRead /\
    from_reader slice_reader c t (bs ++ rest) = Err InvalidData MNotAllBytesRead.
Proof. exact trailing_rejected. Qed.
Print Assumptions C05_trailing.

(** ... and all six entry points reject every proper prefix of a valid encoding. *)
Theorem C05_prefix :
  forall (c : cfg) (t : ty) (v : val) (q1 q2 : bytes),
    wf t = true -> has_ty t v = true -> enc t v = Ok (q1 ++ q2) -> q2 <> [] ->
    deserialize c t q1 = Err InvalidData MUnexpectedLength /\
    try_from_slice c t q1 = Err InvalidData MUnexpectedLength /\
    from_slice c t q1 = Err InvalidData MUnexpectedLength /\
    deserialize_reader slice_reader c t q1 = Err InvalidData MUnexpectedLength /\
    try_from_reader slice_reader c t q1 = Err InvalidData MUnexpectedLength /\
    from_reader slice_reader c t q1 = Err InvalidData MUnexpectedLength.
Proof. exact prefix_rejected. Qed.
Print Assumptions C05_prefix.

(** A refusal that does not ask for more bytes has seen enough: the same input followed by anything
    is refused in the same way by all six entry points - for EVERY type and EVERY byte string.  (The
    read-ahead stage of C11 rests on it: such a refusal must not depend on, nor consume, what follows.) *)
Theorem C05_refusal_stable :
  forall (c : cfg) (t : ty) (bs : bytes) (k : kind) (m : msg) (x : bytes),
    dec_slice c t bs = Err k m -> m <> MUnexpectedLength ->
    try_from_slice c t (bs ++ x) = Err k m /\ from_slice c t (bs ++ x) = Err k m /\
    deserialize c t (bs ++ x) = Err k m /\
    deserialize_reader slice_reader c t (bs ++ x) = Err k m /\
    try_from_reader slice_reader c t (bs ++ x) = Err k m /\ from_reader slice_reader c t (bs ++ x) = Err k m.
Proof. exact try_from_slice_refusal_stable. Qed.
Print Assumptions C05_refusal_stable.

(** ... and "Unexpected length of input" is the only refusal more bytes can change. *)
Theorem C05_refusal_changes_only_at_eof :
  forall (c : cfg) (t : ty) (bs : bytes) (k : kind) (m : msg) (x : bytes),
    dec_slice c t bs = Err k m -> dec_slice c t (bs ++ x) <> Err k m ->
    k = InvalidData /\ m = MUnexpectedLength.
Proof. exact refusal_changes_only_at_eof. Qed.
Print Assumptions C05_refusal_changes_only_at_eof.

(** Non-vacuity: a bad Option tag inside a vector is refused identically with 64 more bytes behind it, and a
    truncated input is the refusal that an extension does change. *)
Example C05_refusal_nonvacuous :
  let t := TSeq SVec (TSum KOption [TProd (PVariant [] []) []; TPrim (PInt false W1)]) in
  dec_slice {| strict := true |} t [Byte.x02; Byte.x00; Byte.x00; Byte.x00; Byte.x01; Byte.x07; Byte.x05] = Err InvalidData (MBadOption 5) /\
  dec_slice {| strict := true |} t ([Byte.x02; Byte.x00; Byte.x00; Byte.x00; Byte.x01; Byte.x07; Byte.x05] ++ repeat Byte.x41 64) = Err InvalidData (MBadOption 5) /\
  dec_slice {| strict := true |} t [Byte.x02; Byte.x00; Byte.x00; Byte.x00; Byte.x01; Byte.x07] = Err InvalidData MUnexpectedLength /\
  dec_slice {| strict := true |} t ([Byte.x02; Byte.x00; Byte.x00; Byte.x00; Byte.x01; Byte.x07] ++ [Byte.x00]) = Ok (VL [VV 1 (VN 7); VV 0 (VL [])], []).
Proof. vm_compute. repeat split. Qed.

(** Non-vacuity: two values of different types in one stream with a tail. *)
Example C05_nonvacuous :
  let items := [(TSeq SVec (TPrim (PInt false W2)), VL [VN 258; VN 3]); (TText XString, VL [VN 104; VN 105])] in
  exists bs, enc_stream items = Ok bs /\ len bs = 14 /\
    dec_stream {| strict := false |} (map fst items) (bs ++ [Byte.xff]) = Ok (map snd items, [Byte.xff]).
Proof. eexists. split; [vm_compute; reflexivity|]. split; vm_compute; reflexivity. Qed.
