(** C16  Malformed in-memory input is always reported as InvalidData.
    Property theorems only; proofs live in ParseFacts.v / DecCorollaries.v / C05Facts.v. *)
From Coq Require Import String.
From Coq Require Import List NArith.
From Borsh Require Import Bytes Result Ty Ser De Entry RoundTrip RoundTripKeyed ParseFacts DecCorollaries C05Facts.
Import ListNotations.
Local Open Scope N_scope.

(** For EVERY type (all constructors, all feature-gated kinds, no well-formedness needed),
    every byte string and both strictness settings: a failing slice decode fails with
    InvalidData, and the decoder never panics / never runs out of model fuel. *)
Theorem C16_kind :
  forall (c : cfg) (t : ty) (bs : bytes) (k : kind) (m : msg),
    dec_slice c t bs = Err k m -> k = InvalidData.
Proof. exact dec_err_kind. Qed.
Print Assumptions C16_kind.

Theorem C16_entry_points :
  forall (c : cfg) (t : ty) (bs : bytes) (k : kind) (m : msg),
    try_from_slice c t bs = Err k m -> k = InvalidData.
Proof. exact try_from_slice_err_kind. Qed.
Print Assumptions C16_entry_points.

Theorem C16_no_panic :
  forall (c : cfg) (t : ty) (bs : bytes) (w : N), dec_slice c t bs <> Panic w.
Proof. exact dec_no_panic. Qed.
Print Assumptions C16_no_panic.

(** truncated input reports the unexpected-length message *)
Theorem C16_truncated :
  forall (c : cfg) (t : ty) (v : val) (q1 q2 : bytes),
    wf t = true -> has_ty t v = true -> enc t v = Ok (q1 ++ q2) -> q2 <> [] ->
    dec_slice c t q1 = Err InvalidData MUnexpectedLength.
Proof. exact truncated_message. Qed.
Print Assumptions C16_truncated.

(** leftover bytes report the not-all-bytes-read message *)
Theorem C16_leftover :
  forall (c : cfg) (t : ty) (v : val) (bs rest : bytes),
    wf t = true -> has_ty t v = true -> enc t v = Ok bs -> rest <> [] ->
    try_from_slice c t (bs ++ rest) = Err InvalidData MNotAllBytesRead.
Proof. exact leftover_message. Qed.
Print Assumptions C16_leftover.

(** zero-sized collections report the public zero-sized-types message, for any input *)
Theorem C16_zst :
  forall (c : cfg) (k : seq_kind) (t' : ty) (bs : bytes),
    mem_zst (key_ty k t') = true -> dec_slice c (TSeq k t') bs = Err InvalidData MZst.
Proof. exact zst_refused_de. Qed.
Print Assumptions C16_zst.

(** Non-vacuity: a truncated ObjectId (the input on which the unchanged tree leaked
    UnexpectedEof, fixed in 2986370) and a bad tag are InvalidData in the model. *)
Example C16_nonvacuous :
  dec_slice {| strict := true |} (TRaw RObjectId) [Byte.x00; Byte.x00; Byte.x00; Byte.x00; Byte.x00]
    = Err InvalidData MUnexpectedLength /\
  dec_slice {| strict := true |} (TSum KOption [TProd (PVariant [] []) []; TPrim PBool]) [Byte.x02]
    = Err InvalidData (MBadOption 2).
Proof. split; vm_compute; reflexivity. Qed.
