(** C15  Array decoding neither leaks nor double-drops under failure at any element.
    Property theorems only; the machine is ArrayGuard.v, the proofs ArrayGuardProofs.v.

    SCOPE: the theorems are about the machine [run n o] = the transcription of the
    bookkeeping of [ArrayDropGuard] ([fill_buffer], [Drop], [transmute_to_array]) for an
    array of [n] slots and an arbitrary script [o] of the element decoder (the i-th entry
    says whether the i-th call returns a value, returns an error or panics; an exhausted
    script is an error).  Memory safety of the real pointer casts is outside Gallina. *)
From Coq Require Import List Arith.
From Borsh Require Import ArrayGuard ArrayGuardProofs.
Import ListNotations.

(** Nothing uninitialised or moved-out is ever read or dropped: for every length and every
    script the trace contains no [UB] event. *)
Theorem C15_no_ub :
  forall (n : nat) (o : list answer) (w : why), ~ In (UB w) (trace (run n o)).
Proof. exact no_ub. Qed.
Print Assumptions C15_no_ub.

(** Every value is constructed at most once, and is disposed of exactly as often as it was
    constructed — by its destructor or by being handed to the caller, never both, never
    twice, and nothing that was not constructed is dropped or returned; there is at most
    one [Return]; every disposal comes after the construction, and [Return] is the last
    event. *)
Theorem C15_exactly_once :
  forall (n : nat) (o : list answer) (id : nat),
    let t := trace (run n o) in
    constructs id t <= 1 /\
    drops id t + returned id t = constructs id t /\
    returns t <= 1 /\
    (forall t1 t2, t = t1 ++ DropEv id :: t2 -> In (Construct id) t1) /\
    (forall t1 t2 ids, t = t1 ++ Return ids :: t2 -> In id ids -> In (Construct id) t1 /\ t2 = []).
Proof. exact exactly_once. Qed.
Print Assumptions C15_exactly_once.

(** The element decoder fails (error return, panic, or end of input) at call [j] < [n]
    after [j] successes: the outcome is the failure (a panic stays a panic), the trace is
    the [j] constructions and writes followed by the destructors of exactly those [j]
    values in slot order, nothing is returned, and the decoder was called [j+1] times. *)
Theorem C15_failure_drops_prefix :
  forall (n : nat) (o : list answer) (j : nat),
    fails_at n o j ->
    let r := run n o in
    final r = stop_outcome (answer_at o j) /\
    trace r = cw 0 j ++ map DropEv (seq 0 j) /\
    constructed_ids (trace r) = seq 0 j /\
    dropped_ids (trace r) = constructed_ids (trace r) /\
    returns (trace r) = 0 /\
    calls_made r = S j.
Proof. exact failure_drops_prefix. Qed.
Print Assumptions C15_failure_drops_prefix.

(** All [n] calls succeed: all [n] values reach the caller, in slot order, and no
    destructor runs inside the decoder. *)
Theorem C15_success_returns_all :
  forall (n : nat) (o : list answer),
    all_ok n o ->
    let r := run n o in
    final r = Returned (seq 0 n) /\
    trace r = cw 0 n ++ [Return (seq 0 n)] /\
    constructed_ids (trace r) = seq 0 n /\
    dropped_ids (trace r) = [] /\
    calls_made r = n.
Proof. exact success_returns_all. Qed.
Print Assumptions C15_success_returns_all.

(** The two cases above are exhaustive. *)
Theorem C15_cases :
  forall (n : nat) (o : list answer), all_ok n o \/ exists j, fails_at n o j.
Proof. exact script_cases. Qed.
Print Assumptions C15_cases.

(** The loop invariant of the SAFETY comments: when [fill_buffer] stops — normally, by an
    error or by a panic — slots [0, init_count) are [Init] with pairwise distinct ids and the
    rest is [Uninit]; on normal termination [init_count = N] (the [debug_assert_eq!]). *)
Theorem C15_loop_invariant :
  forall (n : nat) (o : list answer),
    match fill as_written o n 0 (initial n) with
    | (_, fl, s) =>
        (exists ids, length (buffer s) = n /\ init_count s = length ids /\ NoDup ids /\
                     buffer s = map Init ids ++ repeat Uninit (n - length ids)) /\
        (fl = Continue -> init_count s = n)
    end.
Proof. exact fill_invariant. Qed.
Print Assumptions C15_loop_invariant.

(** Non-vacuity: a 3-slot array, failure at index 1 (error and panic), success, end of input. *)
Example C15_ex_err_at_1 :
  run 3 [OkElem; ErrElem; OkElem] =
  {| trace := [Construct 0; Write 0 0; DropEv 0]; final := Failed; calls_made := 2 |}.
Proof. vm_compute. reflexivity. Qed.

Example C15_ex_panic_at_2 :
  run 3 [OkElem; OkElem; PanicElem] =
  {| trace := [Construct 0; Write 0 0; Construct 1; Write 1 1; DropEv 0; DropEv 1];
     final := Panicked; calls_made := 3 |}.
Proof. vm_compute. reflexivity. Qed.

Example C15_ex_success :
  run 3 [OkElem; OkElem; OkElem; PanicElem] =
  {| trace := [Construct 0; Write 0 0; Construct 1; Write 1 1; Construct 2; Write 2 2; Return [0; 1; 2]];
     final := Returned [0; 1; 2]; calls_made := 3 |}.
Proof. vm_compute. reflexivity. Qed.

Example C15_ex_eof :
  run 3 [OkElem] =
  {| trace := [Construct 0; Write 0 0; DropEv 0]; final := Failed; calls_made := 2 |}.
Proof. vm_compute. reflexivity. Qed.

Example C15_ex_empty_array :
  run 0 [PanicElem] = {| trace := [Return []]; final := Returned []; calls_made := 0 |}.
Proof. vm_compute. reflexivity. Qed.

Example C15_ex_hypotheses_met :
  fails_at 3 [OkElem; ErrElem; OkElem] 1 /\ all_ok 3 [OkElem; OkElem; OkElem; PanicElem].
Proof. exact ex_hypotheses_met. Qed.

(** What the theorems exclude: the two classic mistakes, as alternative machines.
    (1) [init_count += 1] placed before [elem.write(f()?)]: a failure at index 1 makes the
        guard drop slot 1, which was never written. *)
Example C15_neg_incr_before_write :
  deserialize bug_incr_before_write 3 [OkElem; ErrElem; OkElem] =
  {| trace := [Construct 0; Write 0 0; DropEv 0; UB (DropUninit 1)];
     final := Failed; calls_made := 2 |}.
Proof. vm_compute. reflexivity. Qed.

Example C15_neg_incr_before_write_panic :
  deserialize bug_incr_before_write 2 [PanicElem] =
  {| trace := [UB (DropUninit 0)]; final := Panicked; calls_made := 1 |}.
Proof. vm_compute. reflexivity. Qed.

(** (2) no [init_count = 0] before the read: the guard's destructor runs over all slots
        although their values have been moved into the returned array — every element is
        dropped by the guard and again by the caller. *)
Example C15_neg_no_reset :
  deserialize bug_no_reset 2 [OkElem; OkElem] =
  {| trace := [Construct 0; Write 0 0; Construct 1; Write 1 1;
               UB (DropMoved 0); UB (DropMoved 1); Return [0; 1]];
     final := Returned [0; 1]; calls_made := 2 |}.
Proof. vm_compute. reflexivity. Qed.

(** and [C15_no_ub] is indeed false of them *)
Example C15_neg_variants_have_ub :
  existsb is_ub (trace (deserialize bug_incr_before_write 3 [OkElem; ErrElem; OkElem])) = true /\
  existsb is_ub (trace (deserialize bug_no_reset 2 [OkElem; OkElem])) = true /\
  existsb is_ub (trace (run 3 [OkElem; ErrElem; OkElem])) = false /\
  existsb is_ub (trace (run 2 [OkElem; OkElem])) = false.
Proof. vm_compute. repeat split. Qed.
