(** C12  Serialization is independent of the writer and transparent to its failures. *)
From Coq Require Import List NArith PArith Bool.
From Coq.Strings Require Import Byte.
From Borsh Require Import Bytes Result Loop Ty Ser De Entry Io IoSamples IoProofsWrite.
Import ListNotations.
Local Open Scope N_scope.

(** [stream t v] is the concatenation of the chunks [ser t v] emits: all of [enc t v] when
    that is [Ok].  For every writer schedule (any mixture of short writes, interruptions and
    failures), with std's write_all ([shim = false]) and the shim's ([shim = true]): the sink
    receives a prefix [p] of the stream; if the result is success, all of it, and [enc t v = Ok p];
    if the whole stream was delivered the result is the serializer's own. *)
Theorem C12_delivers : forall (shim : bool) (t : ty) (v : val) (s0 : bytes) (sch : list wresp),
  exists w' e p q,
    to_writer (sw_write_all shim) t v {| sink := s0; wsched := sch |} = Ok (w', e) /\
    stream t v = p ++ q /\ sink w' = s0 ++ p /\
    (e = None -> q = [] /\ enc t v = Ok p) /\
    (q = [] -> e = snd (ser t v)).
Proof. exact sched_delivers. Qed.
Print Assumptions C12_delivers.

(** A writer failure after a prefix of short writes and interruptions: either everything the
    serializer produced had been delivered before it was reached, or it is returned with kind
    and message unchanged, nothing after it in the schedule was used, and the sink holds a
    proper prefix of the stream. *)
Theorem C12_failure : forall (shim : bool) (t : ty) (v : val) (s0 : bytes)
    (pre : list wresp) (fk : kind) (fm : msg) (post : list wresp),
  wbenign pre -> fk <> Interrupted ->
  exists w' e p q,
    to_writer (sw_write_all shim) t v {| sink := s0; wsched := pre ++ WFail fk fm :: post |} = Ok (w', e) /\
    stream t v = p ++ q /\ sink w' = s0 ++ p /\
    ((q = [] /\ e = snd (ser t v) /\ len p <= wcap pre) \/
     (q <> [] /\ e = Some (fk, fm) /\ wsched w' = post /\ wcnt pre <= len p <= wcap pre)).
Proof. exact sched_failure. Qed.
Print Assumptions C12_failure.

(** A writer that takes nothing ([Ok(0)]) while bytes remain: WriteZero "failed to write whole
    buffer", with the bytes accepted so far in the sink. *)
Theorem C12_write_zero : forall (shim : bool) (t : ty) (v : val) (s0 : bytes)
    (pre : list wresp) (post : list wresp),
  wbenign pre ->
  exists w' e p q,
    to_writer (sw_write_all shim) t v {| sink := s0; wsched := pre ++ Refuse :: post |} = Ok (w', e) /\
    stream t v = p ++ q /\ sink w' = s0 ++ p /\
    ((q = [] /\ e = snd (ser t v) /\ len p <= wcap pre) \/
     (q <> [] /\ e = Some (WriteZero, MWriteWhole) /\ wsched w' = post /\ wcnt pre <= len p <= wcap pre)).
Proof. exact sched_write_zero. Qed.
Print Assumptions C12_write_zero.

(** Failure after exactly [j] bytes ([j] below the length of the stream): that error, and
    exactly the first [j] bytes in the sink. *)
Theorem C12_failure_at : forall (shim : bool) (t : ty) (v : val) (s0 : bytes) (j : nat)
    (fk : kind) (fm : msg) (post : list wresp),
  fk <> Interrupted -> N.of_nat j < len (stream t v) ->
  exists w', to_writer (sw_write_all shim) t v
               {| sink := s0; wsched := repeat (WAccept 1) j ++ WFail fk fm :: post |} = Ok (w', Some (fk, fm)) /\
             sink w' = s0 ++ firstn j (stream t v) /\ wsched w' = post.
Proof. exact sched_failure_at. Qed.
Print Assumptions C12_failure_at.

(** A fixed buffer ([Write for &mut [u8]]) with [cap] bytes of room, std contract and shim:
    the stream fits and the result is the serializer's, or exactly the first [cap] bytes are
    written and the result is WriteZero "failed to write whole buffer". *)
Theorem C12_fixed_buffer : forall (shim : bool) (t : ty) (v : val) (s0 : bytes) (cap : N),
  to_writer (fw_write_all shim) t v {| fsink := s0; room := cap |} =
  if len (stream t v) <=? cap
  then Ok ({| fsink := s0 ++ stream t v; room := cap - len (stream t v) |}, snd (ser t v))
  else Ok ({| fsink := s0 ++ firstn (N.to_nat cap) (stream t v); room := 0 |}, Some (WriteZero, MWriteWhole)).
Proof. exact fixed_buffer. Qed.
Print Assumptions C12_fixed_buffer.

(** A buffer of exactly the right size is filled completely. *)
Theorem C12_exact_buffer : forall (shim : bool) (t : ty) (v : val) (bs : bytes),
  enc t v = Ok bs ->
  to_writer (fw_write_all shim) t v {| fsink := []; room := len bs |} = Ok ({| fsink := bs; room := 0 |}, None).
Proof. exact exact_buffer. Qed.
Print Assumptions C12_exact_buffer.

(** [Vec<u8>] as the writer (what [to_vec] does). *)
Theorem C12_vec : forall (shim : bool) (t : ty) (v : val) (s0 : bytes),
  to_writer (vw_write_all shim) t v s0 = Ok (s0 ++ stream t v, snd (ser t v)).
Proof. exact vec_writer. Qed.
Print Assumptions C12_vec.

(** [object_length] is the length of the encoding, and fails exactly as the encoder does,
    as long as the length is below 2^64. *)
Theorem C12_length : forall (t : ty) (v : val),
  len (stream t v) < 2 ^ 64 ->
  object_length t v = rmap (fun bs => len bs) (enc t v) /\
  (forall bs, enc t v = Ok bs -> object_length t v = Ok (len bs)) /\
  (forall n, object_length t v = Ok n -> exists bs, enc t v = Ok bs /\ len bs = n).
Proof. exact object_length_iff. Qed.
Print Assumptions C12_length.

(** Non-vacuity. *)
Example C12_enc : enc c12_ty c12_val = Ok [x02; x00; x00; x00; x68; x69; x01; x02; x01; x00; x00].
Proof. vm_compute. reflexivity. Qed.
Example C12_delivers_instance :
  to_writer (sw_write_all true) c12_ty c12_val
    {| sink := []; wsched := [WAccept 1; WInterrupt; WAccept 2; WAccept 1; WFail Interrupted (MUser 1); WAccept 3] |}
  = Ok ({| sink := [x02; x00; x00; x00; x68; x69; x01; x02; x01; x00; x00]; wsched := [] |}, None).
Proof. vm_compute. reflexivity. Qed.
Example C12_failure_hyp : wbenign [WAccept 2; WInterrupt; WAccept 3].
Proof. repeat constructor. Qed.
Example C12_failure_instance :
  to_writer (sw_write_all false) c12_ty c12_val
    {| sink := []; wsched := [WAccept 2; WInterrupt; WAccept 3] ++ WFail (KUser 3) (MUser 5) :: [WAccept 1] |}
  = Ok ({| sink := [x02; x00; x00; x00]; wsched := [WAccept 1] |}, Some (KUser 3, MUser 5)).
Proof. vm_compute. reflexivity. Qed.
Example C12_write_zero_instance :
  to_writer (sw_write_all true) c12_ty c12_val {| sink := []; wsched := [WAccept 3] ++ Refuse :: [] |}
  = Ok ({| sink := [x02; x00; x00]; wsched := [] |}, Some (WriteZero, MWriteWhole)).
Proof. vm_compute. reflexivity. Qed.
Example C12_fixed_instance :
  to_writer (fw_write_all true) c12_ty c12_val {| fsink := []; room := 5 |}
  = Ok ({| fsink := [x02; x00; x00; x00; x68]; room := 0 |}, Some (WriteZero, MWriteWhole)).
Proof. vm_compute. reflexivity. Qed.
Example C12_length_instance : object_length c12_ty c12_val = Ok 11.
Proof. vm_compute. reflexivity. Qed.
