(** C12, independence of the serializer's own chunking: every statement of C12 holds for an
    arbitrary list of chunks [cs] (and final serializer verdict [e0]) in the place of the
    [write_all] calls that [ser t v] makes today; [to_writer] is the instance
    [cs := fst (ser t v)], [e0 := snd (ser t v)].  A serializer that merges or splits
    [write_all] calls while producing the same byte stream therefore still satisfies C12;
    what changes is only which schedule entries meet which bytes. *)
From Coq Require Import List NArith PArith Bool.
From Coq.Strings Require Import Byte.
From Borsh Require Import Bytes Result Loop Ty Ser De Entry Io IoSamples IoProofsWrite IoRechunk.
Import ListNotations.
Local Open Scope N_scope.

Theorem C12_to_writer_is_an_instance :
  forall (W : Type) (wa : bytes -> W -> result (W * werr)) (t : ty) (v : val) (w : W),
    to_writer wa t v w = to_writer_cs wa (fst (ser t v)) (snd (ser t v)) w.
Proof. exact @to_writer_as_cs. Qed.
Print Assumptions C12_to_writer_is_an_instance.

Theorem C12_rechunk_delivers : forall (shim : bool) (cs : list bytes) (e0 : werr) (s0 : bytes) (sch : list wresp),
  exists w' e p q, to_writer_cs (sw_write_all shim) cs e0 {| sink := s0; wsched := sch |} = Ok (w', e) /\
    concat cs = p ++ q /\ sink w' = s0 ++ p /\
    (q = [] -> e = e0) /\ (q <> [] -> exists km, e = Some km).
Proof. exact cs_delivers. Qed.
Print Assumptions C12_rechunk_delivers.

Theorem C12_rechunk_failure : forall (shim : bool) (cs : list bytes) (e0 : werr) (s0 : bytes)
    (pre : list wresp) (fk : kind) (fm : msg) (post : list wresp),
  wbenign pre -> fk <> Interrupted ->
  exists w' e p q, to_writer_cs (sw_write_all shim) cs e0 {| sink := s0; wsched := pre ++ WFail fk fm :: post |} = Ok (w', e) /\
    concat cs = p ++ q /\ sink w' = s0 ++ p /\
    ((q = [] /\ e = e0 /\ len p <= wcap pre) \/
     (q <> [] /\ e = Some (fk, fm) /\ wsched w' = post /\ wcnt pre <= len p <= wcap pre)).
Proof. exact cs_failure. Qed.
Print Assumptions C12_rechunk_failure.

Theorem C12_rechunk_write_zero : forall (shim : bool) (cs : list bytes) (e0 : werr) (s0 : bytes)
    (pre post : list wresp),
  wbenign pre ->
  exists w' e p q, to_writer_cs (sw_write_all shim) cs e0 {| sink := s0; wsched := pre ++ Refuse :: post |} = Ok (w', e) /\
    concat cs = p ++ q /\ sink w' = s0 ++ p /\
    ((q = [] /\ e = e0 /\ len p <= wcap pre) \/
     (q <> [] /\ e = Some (WriteZero, MWriteWhole) /\ wsched w' = post /\ wcnt pre <= len p <= wcap pre)).
Proof. exact cs_write_zero. Qed.
Print Assumptions C12_rechunk_write_zero.

Theorem C12_rechunk_failure_at : forall (shim : bool) (cs : list bytes) (e0 : werr) (s0 : bytes) (j : nat)
    (fk : kind) (fm : msg) (post : list wresp),
  fk <> Interrupted -> N.of_nat j < len (concat cs) ->
  exists w', to_writer_cs (sw_write_all shim) cs e0
               {| sink := s0; wsched := repeat (WAccept 1) j ++ WFail fk fm :: post |} = Ok (w', Some (fk, fm)) /\
             sink w' = s0 ++ firstn j (concat cs) /\ wsched w' = post.
Proof. exact cs_failure_at. Qed.
Print Assumptions C12_rechunk_failure_at.

Theorem C12_rechunk_fixed_buffer : forall (shim : bool) (cs : list bytes) (e0 : werr) (s0 : bytes) (cap : N),
  to_writer_cs (fw_write_all shim) cs e0 {| fsink := s0; room := cap |} =
  if len (concat cs) <=? cap
  then Ok ({| fsink := s0 ++ concat cs; room := cap - len (concat cs) |}, e0)
  else Ok ({| fsink := s0 ++ firstn (N.to_nat cap) (concat cs); room := 0 |}, Some (WriteZero, MWriteWhole)).
Proof. exact cs_fixed_buffer. Qed.
Print Assumptions C12_rechunk_fixed_buffer.

Theorem C12_rechunk_vec : forall (shim : bool) (cs : list bytes) (e0 : werr) (s0 : bytes),
  to_writer_cs (vw_write_all shim) cs e0 s0 = Ok (s0 ++ concat cs, e0).
Proof. exact cs_vec_writer. Qed.
Print Assumptions C12_rechunk_vec.

(** Two chunkings of one stream: identical results on vectors and fixed buffers, and under
    one-byte-per-call schedules with a failure. *)
Theorem C12_rechunk_same_vec : forall (shim : bool) (cs cs' : list bytes) (e0 : werr) (s0 : bytes),
  concat cs = concat cs' ->
  to_writer_cs (vw_write_all shim) cs e0 s0 = to_writer_cs (vw_write_all shim) cs' e0 s0.
Proof. exact rechunk_vec. Qed.
Print Assumptions C12_rechunk_same_vec.

Theorem C12_rechunk_same_fixed : forall (shim : bool) (cs cs' : list bytes) (e0 : werr) (s0 : bytes) (cap : N),
  concat cs = concat cs' ->
  to_writer_cs (fw_write_all shim) cs e0 {| fsink := s0; room := cap |} =
  to_writer_cs (fw_write_all shim) cs' e0 {| fsink := s0; room := cap |}.
Proof. exact rechunk_fixed. Qed.
Print Assumptions C12_rechunk_same_fixed.

Theorem C12_rechunk_same_failure_at : forall (shim : bool) (cs cs' : list bytes) (e0 : werr) (s0 : bytes) (j : nat)
    (fk : kind) (fm : msg) (post : list wresp),
  concat cs = concat cs' -> fk <> Interrupted -> N.of_nat j < len (concat cs) ->
  exists w', to_writer_cs (sw_write_all shim) cs e0
               {| sink := s0; wsched := repeat (WAccept 1) j ++ WFail fk fm :: post |} = Ok (w', Some (fk, fm)) /\
             to_writer_cs (sw_write_all shim) cs' e0
               {| sink := s0; wsched := repeat (WAccept 1) j ++ WFail fk fm :: post |} = Ok (w', Some (fk, fm)).
Proof. exact rechunk_failure_at. Qed.
Print Assumptions C12_rechunk_same_failure_at.

(** Non-vacuity: the chunks [ser] produces for the running example, the same stream cut
    differently, and a schedule under which the two differ in what reaches the sink before the
    failure - both results are prefixes of the one stream, as the theorems say. *)
Example C12_rechunk_chunks :
  fst (ser c12_ty c12_val) <> [concat (fst (ser c12_ty c12_val))] /\
  concat (fst (ser c12_ty c12_val)) = [x02; x00; x00; x00; x68; x69; x01; x02; x01; x00; x00].
Proof. split; [vm_compute; discriminate|vm_compute; reflexivity]. Qed.
Example C12_rechunk_differ :
  let s := {| sink := []; wsched := [WAccept 6; WFail (KUser 3) (MUser 5)] |} in
  to_writer_cs (sw_write_all false) (fst (ser c12_ty c12_val)) None s
    = Ok ({| sink := [x02; x00; x00; x00]; wsched := [] |}, Some (KUser 3, MUser 5)) /\
  to_writer_cs (sw_write_all false) [concat (fst (ser c12_ty c12_val))] None s
    = Ok ({| sink := [x02; x00; x00; x00; x68; x69]; wsched := [] |}, Some (KUser 3, MUser 5)).
Proof. split; vm_compute; reflexivity. Qed.
