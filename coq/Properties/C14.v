(** C14  Collections of zero-sized elements are refused consistently.
    Property theorems only; proofs live in DecCorollaries.v / ZstFacts.v. *)
From Coq Require Import String.
From Coq Require Import List NArith.
From Borsh Require Import Bytes Result Ty Ser De Entry RoundTrip RoundTripKeyed DecCorollaries ZstFacts.
From Borsh Require Import Schema SchemaFns SchemaSpec SchemaOf SchemaOfFacts SchemaOfCover SchemaOfValidate.
Import ListNotations.
Local Open Scope N_scope.

(** Serializing: every owned dynamically sized collection kind (all kinds except the borrowed
    slice) whose element -- for maps: key -- type occupies no memory is refused, whatever the value. *)
Theorem C14_refuse_ser :
  forall (k : seq_kind) (t' : ty) (v : val),
    ser_checks_zst k = true -> mem_zst (key_ty k t') = true ->
    enc (TSeq k t') v = Err InvalidData MZst.
Proof. exact zst_refused_ser. Qed.
Print Assumptions C14_refuse_ser.

(** Deserializing: refused for EVERY input, including the empty one: no length is read first.
    (Boxed/ref-counted slices decode through Vec, so they are refused here too.) *)
Theorem C14_refuse_de :
  forall (c : cfg) (k : seq_kind) (t' : ty) (bs : bytes),
    mem_zst (key_ty k t') = true -> dec_slice c (TSeq k t') bs = Err InvalidData MZst.
Proof. exact zst_refused_de. Qed.
Print Assumptions C14_refuse_de.

(** A zero-sized type itself (unit, PhantomData, RangeFull, empty/zero-length arrays, tuples
    and structs of these, nested) always encodes and decodes back. *)
Theorem C14_usable_zst :
  forall (c : cfg) (t : ty) (v : val),
    wf t = true -> mem_zst t = true -> has_ty t v = true ->
    exists bs, enc t v = Ok bs /\ forall rest, dec_slice c t (bs ++ rest) = Ok (logical t v, rest).
Proof. exact zst_usable. Qed.
Print Assumptions C14_usable_zst.

(** Fixed-size arrays and options do not guard: they encode whenever their elements do. *)
Theorem C14_usable_array :
  forall (n : N) (t' : ty) (l : list val),
    (forall x, In x l -> snd (ser t' x) = None) -> is_u8 t' = false ->
    snd (ser (TArray n t') (VL l)) = None.
Proof. exact array_usable. Qed.
Print Assumptions C14_usable_array.

Theorem C14_usable_option :
  forall (t' : ty) (x : val), snd (ser t' x) = None ->
    snd (ser (TSum KOption [TProd (PVariant [] []) []; t']) (VV 1 x)) = None.
Proof. exact option_usable. Qed.
Print Assumptions C14_usable_option.

(** Agreement with schema validation (proofs in SchemaOfValidate.v; the same statements are
    listed with the schema theorems in Properties/C08.v).  [wire_empty e]: every value of [e]
    encodes to zero bytes; [coherent]: each declaration string stands for one definition
    (decidable; finding F13 shows it cannot be dropped).  For sequence and set element types
    that are empty both in memory and on the wire the run-time refusal and the
    zero-sized-sequence verdict of validation agree ... *)
Theorem C14_agree :
  forall k e c cfg0 v bs,
    has_schema (TSeq k e) = true -> coherent (TSeq k e) = true -> schema_of (TSeq k e) = Ok c ->
    ser_checks_zst k = true -> is_map k = false ->
    mem_zst e = true -> wire_empty e = true ->
    enc (TSeq k e) v = Err InvalidData MZst /\
    dec_slice cfg0 (TSeq k e) bs = Err InvalidData MZst /\
    validate c = SErr (ZSTSequence (decl_of (TSeq k e))).
Proof. exact agree_runtime. Qed.
Print Assumptions C14_agree.

(** ... and for element types that do occupy the wire validation never gives that verdict. *)
Theorem C14_agree_converse :
  forall k e c, has_schema (TSeq k e) = true -> coherent (TSeq k e) = true -> schema_of (TSeq k e) = Ok c ->
    wire_empty e = false -> validate c <> SErr (ZSTSequence (decl_of (TSeq k e))).
Proof. exact agree_nonempty. Qed.
Print Assumptions C14_agree_converse.

(** Non-vacuity: a nested zero-sized element type; the same type is fine inside an array. *)
Definition zst_elem : ty := TProd PTuple [TArray 0 (TPrim (PInt false W1)); TUnit UPhantom; TArray 3 (TUnit UUnit)].
Example C14_nonvacuous :
  mem_zst zst_elem = true /\ wf zst_elem = true /\
  enc (TSeq SVec zst_elem) (VL []) = Err InvalidData MZst /\
  enc (TSeq SHashMap (TProd PTuple [zst_elem; TPrim PBool])) (VL []) = Err InvalidData MZst /\
  dec_slice {| strict := true |} (TSeq SDeque zst_elem) [] = Err InvalidData MZst /\
  enc (TArray 2 zst_elem) (VL [VL [VL []; VL []; VL [VL []; VL []; VL []]]; VL [VL []; VL []; VL [VL []; VL []; VL []]]]) = Ok [] /\
  enc (TSeq SSlice zst_elem) (VL []) = Ok [Byte.x00; Byte.x00; Byte.x00; Byte.x00].
Proof. repeat split; vm_compute; reflexivity. Qed.
