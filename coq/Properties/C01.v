(** C01  Round trip: decoding an encoding returns the original value.
    Property theorems only; proofs live in RoundTrip.v. *)
From Coq Require Import String.
From Coq Require Import List NArith.
From Borsh Require Import Bytes Result Ty Ser De Entry RoundTrip.
Import ListNotations.
Local Open Scope N_scope.

(** FULL STATEMENT (target): the same without the [plain t] hypothesis, i.e. including
    BTreeSet/BTreeMap/HashSet/HashMap/IndexSet/IndexMap at any depth.
    PROVED SO FAR: every type of the family in which no ordered/hashed/indexed collection
    occurs ([plain]).  For every such type, every value of it, under both settings of
    de_strict_order, and any bytes following the encoding: decoding returns the logical
    value (skipped fields as their default, deque joined, wrappers transparent) and leaves
    exactly the trailing bytes. *)
Theorem C01_round_trip_partial :
  forall (c : cfg) (t : ty) (v : val) (bs : bytes),
    wf t = true -> plain t = true -> has_ty t v = true -> enc t v = Ok bs ->
    forall rest, dec_slice c t (bs ++ rest) = Ok (logical t v, rest).
Proof. exact round_trip_plain. Qed.
Print Assumptions C01_round_trip_partial.

(** whole-input entry points *)
Theorem C01_from_slice_partial :
  forall (c : cfg) (t : ty) (v : val) (bs : bytes),
    wf t = true -> plain t = true -> has_ty t v = true -> to_vec t v = Ok bs ->
    from_slice c t bs = Ok (logical t v).
Proof. exact from_slice_plain. Qed.
Print Assumptions C01_from_slice_partial.

(** Non-vacuity: a nested value meets the hypotheses, and the conclusion computes. *)
Local Open Scope string_scope.
Definition ex_t : ty :=
  TProd (PStruct "S" ["a"; "b"; "c"] [false; true; false])
    [TSeq SVec (TSum KOption [TProd (PVariant [] []) []; TProd PTuple [TPrim (PInt false W1); TPrim (PFloat false)]]);
     TPrim (PInt true W4);
     TSeq SDeque (TText XString)].
Definition ex_v : val :=
  VL [VL [VV 1 (VL [VN 7; VN 1065353216]); VV 0 (VL [])]; VN 99; VL [VL [VL [VN 104; VN 105]]; VL [VL []]]].
Example C01_nonvacuous :
  wf ex_t = true /\ plain ex_t = true /\ has_ty ex_t ex_v = true /\
  exists bs, enc ex_t ex_v = Ok bs /\ len bs = 25 /\
             dec_slice {| strict := true |} ex_t bs = Ok (logical ex_t ex_v, []).
Proof.
  split; [reflexivity|]. split; [reflexivity|]. split; [reflexivity|].
  eexists. split; [vm_compute; reflexivity|]. split; vm_compute; reflexivity.
Qed.
