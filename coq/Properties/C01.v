(** C01  Round trip: decoding an encoding returns the original value.
    Property theorems only; proofs live in RoundTrip.v / RoundTripKeyed.v. *)
From Coq Require Import String.
From Coq Require Import List NArith.
From Borsh Require Import Bytes Result Ty Ser De Entry RoundTrip RoundTripKeyed.
Import ListNotations.
Local Open Scope N_scope.

(** For every type of the family ([wf]: tuple arities, distinct one-byte tags, key types
    with [Ord], defaults for skipped fields, no borrowed slice of zero-sized elements),
    every value of it ([has_ty]), both settings of de_strict_order ([c]) and any bytes
    following the encoding: if the value serializes, decoding returns the logical value
    (skipped fields as their default, hash collections as their sorted content, deque
    joined, wrappers transparent) and leaves exactly the trailing bytes. *)
Theorem C01_round_trip :
  forall (c : cfg) (t : ty) (v : val) (bs : bytes),
    wf t = true -> has_ty t v = true -> enc t v = Ok bs ->
    forall rest, dec_slice c t (bs ++ rest) = Ok (logical t v, rest).
Proof. exact round_trip. Qed.
Print Assumptions C01_round_trip.

(** the whole-input entry points (to_vec / from_slice, try_from_slice) *)
Theorem C01_from_slice :
  forall (c : cfg) (t : ty) (v : val) (bs : bytes),
    wf t = true -> has_ty t v = true -> to_vec t v = Ok bs ->
    from_slice c t bs = Ok (logical t v).
Proof. exact from_slice_round_trip. Qed.
Print Assumptions C01_from_slice.

(** Non-vacuity: a nested value with a skipped field, a deque split in two, a hash map
    listed out of order and a B-tree set meets the hypotheses, and the conclusion computes. *)
Local Open Scope string_scope.
Definition ex_t : ty :=
  TProd (PStruct "S" ["a"; "b"; "c"; "d"] [false; true; false; false])
    [TSeq SVec (TSum KOption [TProd (PVariant [] []) []; TProd PTuple [TPrim (PInt false W1); TPrim (PFloat false)]]);
     TPrim (PInt true W4);
     TSeq SDeque (TText XString);
     TSeq SHashMap (TProd PTuple [TPrim (PInt true W1); TSeq SBTreeSet (TPrim (PInt false W2))])].
Definition ex_v : val :=
  VL [VL [VV 1 (VL [VN 7; VN 1065353216]); VV 0 (VL [])]; VN 99; VL [VL [VL [VN 104; VN 105]]; VL [VL []]];
      VL [VL [VN 3; VL [VN 1; VN 2]]; VL [VN 255; VL []]]].
Example C01_nonvacuous :
  wf ex_t = true /\ has_ty ex_t ex_v = true /\
  exists bs, enc ex_t ex_v = Ok bs /\ len bs = 43 /\
             dec_slice {| strict := true |} ex_t bs = Ok (logical ex_t ex_v, []) /\
             logical ex_t ex_v <> ex_v.
Proof.
  split; [reflexivity|]. split; [reflexivity|].
  eexists. split; [vm_compute; reflexivity|]. split; [vm_compute; reflexivity|].
  split; [vm_compute; reflexivity|]. vm_compute. discriminate.
Qed.
