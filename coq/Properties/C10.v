(** C10  Schema validation is total and flags exactly the ill-formed containers.
    Property theorems only; proofs live in SchemaProofsZero.v, SchemaProofsValidate.v,
    SchemaProofsC10.v.  [validate], [is_zero_size] are the transcriptions in SchemaFns.v of
    borsh/src/schema/container_ext/{validate.rs,max_size.rs}; [ZeroSized], [WellFormed],
    [Reach], [defect], [sizes] are the specifications in SchemaSpec.v. *)
From Coq Require Import String List NArith ZArith.
From Borsh Require Import Schema SchemaFns SchemaSpec SchemaProofsBase SchemaProofsC10 SchemaCyclic.
Import ListNotations.
Local Open Scope N_scope.

(** Validating any container terminates (the model's fuel [S (length defs)] is never
    exhausted) and does not panic (the only partial operations, [width * 8] in [u8] and
    [1 << _] in [u64], stay in range).  No hypothesis on the container: field values
    outside the machine ranges are covered too. *)
Theorem C10_total : forall c, validate c <> SFuel /\ validate c <> SPanic.
Proof. exact c10_total. Qed.
Print Assumptions C10_total.

Theorem C10_zero_total : forall c d, is_zero_size c d <> SFuel /\ is_zero_size c d <> SPanic.
Proof. exact c10_zero_total. Qed.
Print Assumptions C10_zero_total.

(** [is_zero_size] (fresh stack) answers [Ok(true)] exactly on the zero-sized declarations;
    [Ok(false)] and both errors ([Recursive], [MissingDefinition]) refute zero-sizedness. *)
Theorem C10_zero : forall c d,
  (is_zero_size c d = SOk true <-> ZeroSized c d) /\
  (is_zero_size c d = SOk false -> ~ ZeroSized c d) /\
  (forall e, is_zero_size c d = SErr e -> ~ ZeroSized c d).
Proof. exact c10_zero. Qed.
Print Assumptions C10_zero.

(** ... and [ZeroSized] means what it says: every value the declaration describes encodes
    to no bytes. *)
Theorem C10_zero_sized_meaning : forall c d, ZeroSized c d -> forall n, sizes c d n -> n = 0.
Proof. exact zero_sized_sizes. Qed.
Print Assumptions C10_zero_sized_meaning.

(** Validation succeeds exactly on the well-formed containers.  [ranges_fit 64 c] says that
    every [*length_range.end()] is a [u64], which holds of every Rust value; it is needed
    only for "8 bytes is wide enough" in the left-to-right direction. *)
Theorem C10_exact : forall c, ranges_fit 64 c -> (validate c = SOk tt <-> WellFormed c).
Proof. exact c10_exact. Qed.
Print Assumptions C10_exact.

Theorem C10_well_formed_accepted : forall c, WellFormed c -> validate c = SOk tt.
Proof. exact c10_wf_accepted. Qed.
Print Assumptions C10_well_formed_accepted.

(** Blame: the declaration carried by an error is reachable from the root and has the
    named defect; and a reachable declaration with any of these defects makes the
    container ill-formed. *)
Theorem C10_blame : forall c e, validate c = SErr e -> Reach c (root c) (blamed e) /\ defect c e.
Proof. exact c10_blame. Qed.
Print Assumptions C10_blame.

Theorem C10_defect_ill_formed : forall c e,
  Reach c (root c) (blamed e) -> defect c e -> ~ WellFormed c.
Proof. exact c10_defect_ill_formed. Qed.
Print Assumptions C10_defect_ill_formed.

(** * Non-vacuity *)
Local Open Scope string_scope.

(** [Vec<(Option<u16>, [u8; 0], [u8; 0])>]-like container plus an unreachable bad declaration:
    well-formed, and validated. *)
Definition ex_good : container :=
  {| root := "V";
     defs := [("V", Sequence 4 0 4294967295 "T");
              ("T", Tuple ["O"; "Z"; "Z"]);
              ("O", Enum 1 [(0%Z, "None", "()"); (1%Z, "Some", "u16")]);
              ("Z", Sequence 0 0 0 "u8");
              ("()", Tuple []);
              ("u16", Primitive 2);
              ("u8", Primitive 1);
              ("unreachable", Sequence 3 5 3 "nowhere")] |}.

Example C10_nonvacuous_good :
  ranges_fit 64 ex_good /\ validate ex_good = SOk tt /\ WellFormed ex_good /\
  is_zero_size ex_good "Z" = SOk true /\ ZeroSized ex_good "Z" /\
  is_zero_size ex_good "T" = SOk false /\ ~ ZeroSized ex_good "T".
Proof.
  assert (Hfit : ranges_fit 64 ex_good) by (apply ranges_fit_b_sound; vm_compute; reflexivity).
  assert (Hv : validate ex_good = SOk tt) by (vm_compute; reflexivity).
  split; [exact Hfit|]. split; [exact Hv|]. split; [apply C10_exact; assumption|].
  split; [vm_compute; reflexivity|]. split; [apply C10_zero; vm_compute; reflexivity|].
  split; [vm_compute; reflexivity|]. apply C10_zero. vm_compute. reflexivity.
Qed.

(** The two containers on which the code as found went wrong (a zero-sized array type twice
    in one tuple; an untagged full-range sequence), and a recursive one. *)
Definition ex_zst_twice : container :=
  {| root := "V";
     defs := [("V", Sequence 4 0 4294967295 "T"); ("T", Tuple ["Z"; "Z"]);
              ("Z", Sequence 0 0 0 "u8"); ("u8", Primitive 1)] |}.
Definition ex_full_range : container :=
  {| root := "X"; defs := [("X", Sequence 0 0 18446744073709551615 "u8"); ("u8", Primitive 1)] |}.
Definition ex_rec : container :=
  {| root := "L"; defs := [("L", Sequence 4 0 4294967295 "R"); ("R", Struct (UnnamedFields ["B"]));
                           ("B", Tuple ["R"])] |}.

Example C10_nonvacuous_bad :
  validate ex_zst_twice = SErr (ZSTSequence "V") /\ defect ex_zst_twice (ZSTSequence "V") /\
  ~ WellFormed ex_zst_twice /\
  validate ex_full_range = SOk tt /\
  is_zero_size ex_rec "R" = SErr ZRecursive /\ ~ ZeroSized ex_rec "R" /\ validate ex_rec = SOk tt.
Proof.
  assert (Hv : validate ex_zst_twice = SErr (ZSTSequence "V")) by (vm_compute; reflexivity).
  split; [exact Hv|]. split; [apply (C10_blame _ _ Hv)|].
  split; [apply (C10_defect_ill_formed _ _ (proj1 (C10_blame _ _ Hv)) (proj2 (C10_blame _ _ Hv)))|].
  split; [vm_compute; reflexivity|]. split; [vm_compute; reflexivity|].
  split; [|vm_compute; reflexivity].
  apply (proj2 (proj2 (C10_zero ex_rec "R")) ZRecursive). vm_compute. reflexivity.
Qed.


(** Finding F25.  [ZeroSized] - the notion [validate] and [is_zero_size] implement, and the one the theorems
    above speak about - is a least fixed point; "every value is empty" is the greatest one, and through a cycle
    of untagged definitions they differ: the full-strength reading of the property ("elements that are not
    zero-sized" = elements that have a non-empty value) is REFUTED by a container whose sequence elements are
    inhabited, always empty, and not [ZeroSized]; [validate] accepts it and [max_size] of the element type
    answers Recursive although its true maximum is 0 (witness reproduced on the implementation on every run:
    known finding class cyclic-zero-size). *)
Theorem C10_zero_sized_semantic_refuted :
  exists c d, (forall n, sizes c d n -> n = 0) /\ Inhabited c d /\ ~ ZeroSized c d.
Proof. exact zero_sized_lfp_incomplete. Qed.
Print Assumptions C10_zero_sized_semantic_refuted.

Example C10_cyclic_witness_validates :
  validate cyc_seq = SOk tt /\ max_size cyc_x = SErr MRecursive /\
  get_definition cyc_seq "S" = Some (Sequence 4 0 10 "X").
Proof. repeat split; vm_compute; reflexivity. Qed.
