(** C13  std and no_std builds are observably equivalent (io part and codec part). *)
From Coq Require Import List NArith PArith Bool.
From Coq.Strings Require Import Byte.
From Borsh Require Import Bytes Result Loop Ty Ser De Entry Io IoSamples IoProofsOps IoForward.
Import ListNotations.
Local Open Scope N_scope.

(** For every sequence of read / read_exact / write / write_all / by_ref calls on a slice
    reader, a fixed-buffer writer and a vector writer: the model of nostd_io.rs and the model
    of the std::io contract (default methods over the primitive calls) give the same
    observable run: every outcome except those of reads issued after a failed read_exact
    (std does not specify the reader's position then), the contents and remaining room of the
    fixed buffer, the vector, and the remaining input unless a read_exact has failed. *)
Theorem C13_io : forall (ops : list io_op) (input : bytes) (cap : N),
  observable io_std ops (world0 input cap) = observable io_shim ops (world0 input cap).
Proof. exact ops_equiv. Qed.
Print Assumptions C13_io.

(** The codec does not depend on which read_exact / write_all transcription it runs on:
    scheduled readers (every schedule), slice readers (std contract, shim, and the slice
    model used by the codec theorems), scheduled / fixed / vector writers. *)
Theorem C13_codec :
  (forall c t st,
     dec sched_reader_std c t st = dec sched_reader_shim c t st /\
     try_from_reader sched_reader_std c t st = try_from_reader sched_reader_shim c t st) /\
  (forall c t bs,
     dec slice_reader_std c t bs = dec slice_reader c t bs /\
     dec slice_reader_shim c t bs = dec slice_reader c t bs) /\
  (forall t v,
     (forall st, to_writer (sw_write_all false) t v st = to_writer (sw_write_all true) t v st) /\
     (forall st, to_writer (fw_write_all false) t v st = to_writer (fw_write_all true) t v st) /\
     (forall st, to_writer (vw_write_all false) t v st = to_writer (vw_write_all true) t v st)).
Proof. exact codec_all. Qed.
Print Assumptions C13_codec.

(** Non-vacuity: a run in which a read_exact fails, after which the two models differ on the
    unspecified part only. *)
Example C13_io_std :
  fst (run_ops_std c13_ops (world0 [x0a; x0b; x0c; x0d] 4)) =
  [ReadGot [x0a; x0b]; WroteAll; ExactErr UnexpectedEof MFillWhole; Wrote 1; ReadGot [];
   WriteAllErr WriteZero MWriteWhole; WroteAll].
Proof. vm_compute. reflexivity. Qed.
Example C13_io_shim :
  fst (run_ops_shim c13_ops (world0 [x0a; x0b; x0c; x0d] 4)) =
  [ReadGot [x0a; x0b]; WroteAll; ExactErr UnexpectedEof MFillWhole; Wrote 1; ReadGot [x0c];
   WriteAllErr WriteZero MWriteWhole; WroteAll].
Proof. vm_compute. reflexivity. Qed.
Example C13_io_observable :
  observable io_shim c13_ops (world0 [x0a; x0b; x0c; x0d] 4) =
  ([Some (ReadGot [x0a; x0b]); Some WroteAll; Some (ExactErr UnexpectedEof MFillWhole); Some (Wrote 1); None;
    Some (WriteAllErr WriteZero MWriteWhole); Some WroteAll],
   ([x01; x02; x03; x04], 0), [x07; x08], None).
Proof. vm_compute. reflexivity. Qed.


(** `by_ref` / `&mut W`: in [run_ops] the adaptor copies the record, so forwarding is true by construction there.  What it is
    worth is stated on the functions: the overridden `write_all` of `&mut [u8]` and of `Vec<u8>` returns exactly what the
    trait's default loop over `write` returns (the shim's loop and std's) - an adaptor that forwards `write_all` and one
    that falls back to the default loop are the same writer. *)
Theorem C13_write_all_overrides :
  (forall (b : bytes) (st : fstate),
     fwrite_all_shim b st = write_all_shim fwrite (fun _ => 0) b st /\
     fwrite_all_shim b st = write_all_std fwrite (fun _ => 0) b st) /\
  (forall (b v : bytes),
     vwrite_all_shim b v = write_all_shim vwrite (fun _ => 0) b v /\
     vwrite_all_shim b v = write_all_std vwrite (fun _ => 0) b v).
Proof. exact (conj fixed_override_is_default_loop vec_override_is_default_loop). Qed.
Print Assumptions C13_write_all_overrides.
