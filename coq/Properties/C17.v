(** C17  Schema-prefixed encoding round-trips and rejects a foreign schema.
    Property theorems only; proofs live in WithSchemaFacts.v (on top of C01/C05). *)
From Coq Require Import String List NArith ZArith.
From Borsh Require Import Bytes Result Ty Ser De Entry Schema SchemaOf WithSchema WithSchemaFacts SchemaOfSorted.
Import ListNotations.
Local Open Scope N_scope.
Local Open Scope string_scope.

(** Hypothesis [has_ty ty_container (container_to_val sc) = true] says the container is a Rust
    value: names are UTF-8 [String]s, [u8]/[u64]/[i64] fields are in range, the map is listed in
    strictly ascending key order.  It is decidable and computes to [true] on the examples below;
    the correspondence checks it on every generated type (the model's bytes equal the
    implementation's). *)
Theorem C17_round_trip :
  forall (c : cfg) (t : ty) (v : val) (bs : bytes) (sc : container),
    wf t = true -> has_ty t v = true -> schema_of t = Ok sc ->
    has_ty ty_container (container_to_val sc) = true ->
    try_to_vec_with_schema t v = Ok bs ->
    try_from_slice_with_schema c t bs = Ok (logical t v).
Proof. exact with_schema_round_trip. Qed.
Print Assumptions C17_round_trip.

(** Reading with a type whose container differs: the schema test fails, or the tuple
    [(BorshSchemaContainer, U)] already failed to decode (with that very error). *)
Theorem C17_foreign :
  forall (c : cfg) (t u : ty) (v : val) (bs : bytes) (sct scu : container),
    schema_of t = Ok sct -> schema_of u = Ok scu ->
    has_ty ty_container (container_to_val sct) = true ->
    container_to_val sct <> container_to_val scu ->
    try_to_vec_with_schema t v = Ok bs ->
    try_from_slice_with_schema c u bs = Err InvalidData MSchemaMismatch \/
    exists m, from_slice c (TProd PTuple [ty_container; u]) bs = Err InvalidData m /\
              try_from_slice_with_schema c u bs = Err InvalidData m.
Proof. exact with_schema_foreign. Qed.
Print Assumptions C17_foreign.

(** Any input at all: acceptance means the schema part decoded to exactly the reader's own
    container; every refusal is [InvalidData]; no panic. *)
Theorem C17_corrupt :
  forall (c : cfg) (t : ty) (bs : bytes) (own : container),
    schema_of t = Ok own ->
    match try_from_slice_with_schema c t bs with
    | Ok v => exists s, from_slice c (TProd PTuple [ty_container; t]) bs = Ok (VL [s; v]) /\ s = container_to_val own
    | Err k _ => k = InvalidData
    | Panic _ => False
    end.
Proof. exact with_schema_corrupt. Qed.
Print Assumptions C17_corrupt.

Theorem C17_corrupt_rejected :
  forall (c : cfg) (t : ty) (bs : bytes) (own : container) (s o : val),
    schema_of t = Ok own ->
    from_slice c (TProd PTuple [ty_container; t]) bs = Ok (VL [s; o]) ->
    s <> container_to_val own ->
    try_from_slice_with_schema c t bs = Err InvalidData MSchemaMismatch.
Proof. exact with_schema_corrupt_rejected. Qed.
Print Assumptions C17_corrupt_rejected.

(** The container codec is C01 at [ty_container]; the definitions are written in the order of the
    list, which [has_ty] requires to be strictly ascending by name (the [BTreeMap] clause). *)
Theorem C17_container_canonical :
  forall (c : cfg) (sc : container) (bs : bytes),
    has_ty ty_container (container_to_val sc) = true ->
    to_vec ty_container (container_to_val sc) = Ok bs ->
    from_slice c ty_container bs = Ok (container_to_val sc).
Proof. exact container_codec_round_trip. Qed.
Print Assumptions C17_container_canonical.


(** * The ordering part is a theorem
    [schema_of] lists its definitions in strictly ascending name order (the order they are
    written in), so of "the container is a Rust value" only [container_fits] remains to be
    assumed: every name is a UTF-8 [String] and every number fits its [u8]/[u64]/[i64] field. *)
Theorem C17_definitions_ascending :
  forall t sc, schema_of t = Ok sc -> sorted_keys (defs sc) = true.
Proof. exact schema_of_sorted. Qed.
Print Assumptions C17_definitions_ascending.

Theorem C17_container_typed :
  forall t sc, schema_of t = Ok sc -> container_fits sc = true ->
    has_ty ty_container (container_to_val sc) = true.
Proof. exact schema_container_typed. Qed.
Print Assumptions C17_container_typed.

Theorem C17_round_trip_fits :
  forall (c : cfg) (t : ty) (v : val) (bs : bytes) (sc : container),
    wf t = true -> has_ty t v = true -> schema_of t = Ok sc -> container_fits sc = true ->
    try_to_vec_with_schema t v = Ok bs ->
    try_from_slice_with_schema c t bs = Ok (logical t v).
Proof. exact with_schema_round_trip_fits. Qed.
Print Assumptions C17_round_trip_fits.

Theorem C17_foreign_fits :
  forall (c : cfg) (t u : ty) (v : val) (bs : bytes) (sct scu : container),
    schema_of t = Ok sct -> schema_of u = Ok scu -> container_fits sct = true ->
    container_to_val sct <> container_to_val scu ->
    try_to_vec_with_schema t v = Ok bs ->
    try_from_slice_with_schema c u bs = Err InvalidData MSchemaMismatch \/
    exists m, from_slice c (TProd PTuple [ty_container; u]) bs = Err InvalidData m /\
              try_from_slice_with_schema c u bs = Err InvalidData m.
Proof. exact with_schema_foreign_fits. Qed.
Print Assumptions C17_foreign_fits.

(** Non-vacuity: a struct with a skipped field holding a derived enum with discriminants. *)
Definition ex_enum : ty :=
  TSum (KEnum "E" ["A"; "B"] [5; 9])
    [TProd (PVariant [] []) []; TProd (PVariant ["x"; "y"] [false; true]) [TSeq SVec (TPrim (PInt false W1)); TPrim (PInt false W4)]].
Definition ex_t : ty :=
  TProd (PStruct "S" ["a"; "b"] [false; true]) [TSum KOption [TProd (PVariant [] []) []; ex_enum]; TPrim (PInt false W1)].
Definition ex_v : val := VL [VV 1 (VV 1 (VL [VL [VN 3; VN 4]; VN 77])); VN 9].

Example C17_nonvacuous :
  wf ex_t = true /\ has_ty ex_t ex_v = true /\
  exists sc se bs,
    schema_of ex_t = Ok sc /\ schema_of ex_enum = Ok se /\
    has_ty ty_container (container_to_val sc) = true /\
    val_to_container (container_to_val sc) = Some sc /\
    try_to_vec_with_schema ex_t ex_v = Ok bs /\ len bs = 244 /\
    try_from_slice_with_schema {| strict := true |} ex_t bs = Ok (logical ex_t ex_v) /\
    logical ex_t ex_v <> ex_v /\
    container_to_val sc <> container_to_val se /\
    (exists m, try_from_slice_with_schema {| strict := true |} ex_enum bs = Err InvalidData m) /\
    map fst (defs sc) = ["()"; "E"; "EA"; "EB"; "Option<E>"; "S"; "Vec<u8>"; "u8"] /\
    container_fits sc = true.
Proof.
  split; [reflexivity|]. split; [reflexivity|].
  eexists. eexists. eexists. split; [vm_compute; reflexivity|]. split; [vm_compute; reflexivity|].
  split; [vm_compute; reflexivity|]. split; [vm_compute; reflexivity|].
  split; [vm_compute; reflexivity|]. split; [vm_compute; reflexivity|].
  split; [vm_compute; reflexivity|]. split; [vm_compute; discriminate|].
  split; [vm_compute; discriminate|]. split; [eexists; vm_compute; reflexivity|].
  split; vm_compute; reflexivity.
Qed.
