(** C04  Decoder accepts exactly the valid encodings (bijective in strict mode).
    Property theorems only; proofs live in C04Facts.v (and RoundTripKeyed.v for completeness). *)
From Coq Require Import String.
From Coq Require Import List NArith.
From Borsh Require Import Bytes Result Ty Ser De Entry RoundTrip RoundTripKeyed ParseFacts C04Facts.
Import ListNotations.
Local Open Scope N_scope.

(** Completeness: every well-formed encoding of a value is accepted and yields that value (C01). *)
Theorem C04_complete :
  forall (c : cfg) (t : ty) (v : val) (bs : bytes),
    wf t = true -> has_ty t v = true -> enc t v = Ok bs -> try_from_slice c t bs = Ok (logical t v).
Proof. exact from_slice_round_trip. Qed.
Print Assumptions C04_complete.

(** Soundness, both modes: whatever is accepted is a well-typed value in logical form
    (range, non-zero, non-NaN, UTF-8/ASCII, distinct ascending keys, valid tags all hold). *)
Theorem C04_sound :
  forall (c : cfg) (t : ty) (bs : bytes) (v : val) (rest : bytes),
    wf t = true -> dflt_ok t = true -> dec_slice c t bs = Ok (v, rest) ->
    exists pre, bs = pre ++ rest /\ has_ty t v = true /\ logical t v = v.
Proof. exact accept_sound. Qed.
Print Assumptions C04_sound.

(** Strict key ordering: the consumed bytes ARE the encoding of the returned value ... *)
Theorem C04_strict_reencodes :
  forall (c : cfg) (t : ty) (bs : bytes) (v : val) (rest : bytes),
    strict c = true -> wf t = true -> dflt_ok t = true -> no_index t = true ->
    dec_slice c t bs = Ok (v, rest) ->
    exists pre, bs = pre ++ rest /\ has_ty t v = true /\ enc t v = Ok pre.
Proof. exact accept_strict_reencodes. Qed.
Print Assumptions C04_strict_reencodes.

(** ... so every accepted byte string re-serializes to exactly itself, and accepted byte
    strings and values correspond one to one. *)
Theorem C04_strict_bijective :
  forall (c : cfg) (t : ty) (bs : bytes) (v : val),
    strict c = true -> wf t = true -> dflt_ok t = true -> no_index t = true ->
    try_from_slice c t bs = Ok v -> enc t v = Ok bs.
Proof. exact strict_whole_input_bijective. Qed.
Print Assumptions C04_strict_bijective.

Theorem C04_strict_injective :
  forall (c : cfg) (t : ty) (bs1 bs2 : bytes) (v : val),
    strict c = true -> wf t = true -> dflt_ok t = true -> no_index t = true ->
    try_from_slice c t bs1 = Ok v -> try_from_slice c t bs2 = Ok v -> bs1 = bs2.
Proof. exact strict_injective. Qed.
Print Assumptions C04_strict_injective.

(** Without strict ordering the only additional inputs accepted are those strict mode rejects
    for key order (unsorted or repeated entries), with the same value otherwise; for EVERY type
    and byte string. *)
Theorem C04_loose_accepts_more :
  forall (t : ty) (bs : bytes) (r : val * bytes),
    dec_slice c_loose t bs = Ok r ->
    dec_slice c_strict t bs = Ok r \/ dec_slice c_strict t bs = Err InvalidData MKeyOrder.
Proof. exact loose_accepts_more. Qed.
Print Assumptions C04_loose_accepts_more.

Theorem C04_strict_accepts_less :
  forall (t : ty) (bs : bytes) (r : val * bytes),
    dec_slice c_strict t bs = Ok r -> dec_slice c_loose t bs = Ok r.
Proof. exact strict_accepts_less. Qed.
Print Assumptions C04_strict_accepts_less.

(** KNOWN FINDING F8 ([no_index] cannot be dropped): IndexSet/IndexMap accept repeated entries
    in every mode and re-encode them differently. *)
Theorem C04_index_refuted :
  exists (t : ty) (bs : bytes) (v : val),
    wf t = true /\ dflt_ok t = true /\ try_from_slice c_strict t bs = Ok v /\ enc t v <> Ok bs.
Proof. exact index_accepts_duplicates. Qed.
Print Assumptions C04_index_refuted.

(** Non-vacuity: a nested type meets the hypotheses; an unsorted set is accepted loosely and
    rejected strictly with the key-order error. *)
Definition ex_t : ty := TSeq SHashMap (TProd PTuple [TText XString; TSeq SBTreeSet (TPrim (PInt true W2))]).
Example C04_nonvacuous :
  wf ex_t = true /\ dflt_ok ex_t = true /\ no_index ex_t = true /\
  (exists v, dec_slice c_loose (TSeq SBTreeSet (TPrim (PInt false W1))) [Byte.x02; Byte.x00; Byte.x00; Byte.x00; Byte.x05; Byte.x01] = Ok (v, [])) /\
  dec_slice c_strict (TSeq SBTreeSet (TPrim (PInt false W1))) [Byte.x02; Byte.x00; Byte.x00; Byte.x00; Byte.x05; Byte.x01] = Err InvalidData MKeyOrder.
Proof. repeat split; try reflexivity. eexists. vm_compute. reflexivity. Qed.
