(** C04  Decoder accepts exactly the valid encodings (bijective in strict mode).
    Property theorems only; proofs live in C04Facts.v (and RoundTripKeyed.v for completeness). *)
From Coq Require Import String.
From Coq Require Import List NArith.
From Borsh Require Import Bytes Result Ty Ser De Entry RoundTrip RoundTripKeyed ParseFacts C04Facts SortLast C04Value.
From Borsh Require Import Spec C04Encodable.
Import ListNotations.
Local Open Scope N_scope.

(** Completeness: every well-formed encoding of a value is accepted and yields that value (C01). *)
Theorem C04_complete :
  forall (c : cfg) (t : ty) (v : val) (bs : bytes),
    wf t = true -> has_ty t v = true -> enc t v = Ok bs -> try_from_slice c t bs = Ok (logical t v).
Proof. exact from_slice_round_trip. Qed.
Print Assumptions C04_complete.

(** Soundness, both modes: whatever is accepted is a well-typed value in logical form
    (range, non-zero, non-NaN, UTF-8/ASCII, distinct ascending keys, valid tags all hold). *)
Theorem C04_sound :
  forall (c : cfg) (t : ty) (bs : bytes) (v : val) (rest : bytes),
    wf t = true -> dflt_ok t = true -> dec_slice c t bs = Ok (v, rest) ->
    exists pre, bs = pre ++ rest /\ has_ty t v = true /\ logical t v = v.
Proof. exact accept_sound. Qed.
Print Assumptions C04_sound.

(** "... of SOME VALUE of that type": [has_ty] above admits values the encoder refuses (a float
    NaN is a value of f32/f64 and fails to serialize; so do 2^32 or more elements, and guarded
    collections of memory-zero-sized elements: [Spec.refusable], C02_refuses).  The decoder never
    returns one: in BOTH modes and for ALL collection kinds (IndexSet/IndexMap included), whatever
    is accepted decodes to a value that HAS an encoding ... *)
Theorem C04_accepted_is_encodable :
  forall (c : cfg) (t : ty) (bs : bytes) (v : val) (rest : bytes),
    wf t = true -> dflt_ok t = true -> dec_slice c t bs = Ok (v, rest) ->
    exists bs', enc t v = Ok bs'.
Proof. exact accepted_is_encodable. Qed.
Print Assumptions C04_accepted_is_encodable.

(** ... and that encoding is itself accepted, in every mode, completely, with the same value:
    the accepted input and the encoding of its value mean the same (and are the same bytes under
    strict ordering without index kinds, next theorem). *)
Theorem C04_accepted_reencodes :
  forall (c : cfg) (t : ty) (bs : bytes) (v : val) (rest : bytes),
    wf t = true -> dflt_ok t = true -> dec_slice c t bs = Ok (v, rest) ->
    has_ty t v = true /\ refusable t v = false /\
    exists bs', enc t v = Ok bs' /\ forall c', try_from_slice c' t bs' = Ok v.
Proof. exact accepted_reencodes. Qed.
Print Assumptions C04_accepted_reencodes.

(** Strict key ordering: the consumed bytes ARE the encoding of the returned value ... *)
Theorem C04_strict_reencodes :
  forall (c : cfg) (t : ty) (bs : bytes) (v : val) (rest : bytes),
    strict c = true -> wf t = true -> dflt_ok t = true -> no_index t = true ->
    dec_slice c t bs = Ok (v, rest) ->
    exists pre, bs = pre ++ rest /\ has_ty t v = true /\ enc t v = Ok pre.
Proof. exact accept_strict_reencodes. Qed.
Print Assumptions C04_strict_reencodes.

(** ... so every accepted byte string re-serializes to exactly itself, and accepted byte
    strings and values correspond one to one. *)
Theorem C04_strict_bijective :
  forall (c : cfg) (t : ty) (bs : bytes) (v : val),
    strict c = true -> wf t = true -> dflt_ok t = true -> no_index t = true ->
    try_from_slice c t bs = Ok v -> enc t v = Ok bs.
Proof. exact strict_whole_input_bijective. Qed.
Print Assumptions C04_strict_bijective.

Theorem C04_strict_injective :
  forall (c : cfg) (t : ty) (bs1 bs2 : bytes) (v : val),
    strict c = true -> wf t = true -> dflt_ok t = true -> no_index t = true ->
    try_from_slice c t bs1 = Ok v -> try_from_slice c t bs2 = Ok v -> bs1 = bs2.
Proof. exact strict_injective. Qed.
Print Assumptions C04_strict_injective.

(** Without strict ordering the only additional inputs accepted are those strict mode rejects
    for key order (unsorted or repeated entries), with the same value otherwise; for EVERY type
    and byte string. *)
Theorem C04_loose_accepts_more :
  forall (t : ty) (bs : bytes) (r : val * bytes),
    dec_slice c_loose t bs = Ok r ->
    dec_slice c_strict t bs = Ok r \/ dec_slice c_strict t bs = Err InvalidData MKeyOrder.
Proof. exact loose_accepts_more. Qed.
Print Assumptions C04_loose_accepts_more.

Theorem C04_strict_accepts_less :
  forall (t : ty) (bs : bytes) (r : val * bytes),
    dec_slice c_strict t bs = Ok r -> dec_slice c_loose t bs = Ok r.
Proof. exact strict_accepts_less. Qed.
Print Assumptions C04_strict_accepts_less.

(** KNOWN FINDING F8 ([no_index] cannot be dropped): IndexSet/IndexMap accept repeated entries
    in every mode and re-encode them differently. *)
Theorem C04_index_refuted :
  exists (t : ty) (bs : bytes) (v : val),
    wf t = true /\ dflt_ok t = true /\ try_from_slice c_strict t bs = Ok v /\ enc t v <> Ok bs.
Proof. exact index_accepts_duplicates. Qed.
Print Assumptions C04_index_refuted.

(** Non-vacuity: a nested type meets the hypotheses; an unsorted set is accepted loosely and
    rejected strictly with the key-order error. *)
Definition ex_t : ty := TSeq SHashMap (TProd PTuple [TText XString; TSeq SBTreeSet (TPrim (PInt true W2))]).
Example C04_nonvacuous :
  wf ex_t = true /\ dflt_ok ex_t = true /\ no_index ex_t = true /\
  (exists v, dec_slice c_loose (TSeq SBTreeSet (TPrim (PInt false W1))) [Byte.x02; Byte.x00; Byte.x00; Byte.x00; Byte.x05; Byte.x01] = Ok (v, [])) /\
  dec_slice c_strict (TSeq SBTreeSet (TPrim (PInt false W1))) [Byte.x02; Byte.x00; Byte.x00; Byte.x00; Byte.x05; Byte.x01] = Err InvalidData MKeyOrder.
Proof. repeat split; try reflexivity. eexists. vm_compute. reflexivity. Qed.

(** The conclusions of the strict theorems are reached: the nested type of C01_nonvacuous (a struct
    with a SKIPPED field, a vector of options of tuples with a float, a deque, a hash map holding
    B-tree sets) and the encoding of a representation that is not in logical form (skipped field
    99, deque split in two, hash map listed out of order): the strict decoder accepts the 43 bytes,
    the value differs from the representation, and re-encodes to exactly the bytes accepted. *)
Local Open Scope string_scope.
Definition ex_s : ty :=
  TProd (PStruct "S" ["a"; "b"; "c"; "d"] [false; true; false; false])
    [TSeq SVec (TSum KOption [TProd (PVariant [] []) []; TProd PTuple [TPrim (PInt false W1); TPrim (PFloat false)]]);
     TPrim (PInt true W4);
     TSeq SDeque (TText XString);
     TSeq SHashMap (TProd PTuple [TPrim (PInt true W1); TSeq SBTreeSet (TPrim (PInt false W2))])].
Definition ex_sv : val :=
  VL [VL [VV 1 (VL [VN 7; VN 1065353216]); VV 0 (VL [])]; VN 99; VL [VL [VL [VN 104; VN 105]]; VL [VL []]];
      VL [VL [VN 3; VL [VN 1; VN 2]]; VL [VN 255; VL []]]].
Example C04_strict_nonvacuous :
  wf ex_s = true /\ dflt_ok ex_s = true /\ no_index ex_s = true /\ has_ty ex_s ex_sv = true /\
  exists bs v, enc ex_s ex_sv = Ok bs /\ len bs = 43 /\
               try_from_slice c_strict ex_s bs = Ok v /\ v <> ex_sv /\ has_ty ex_s v = true /\
               enc ex_s v = Ok bs.
Proof.
  split; [reflexivity|]. split; [reflexivity|]. split; [reflexivity|]. split; [reflexivity|].
  eexists. eexists. split; [vm_compute; reflexivity|]. split; [vm_compute; reflexivity|].
  split; [vm_compute; reflexivity|]. split; [vm_compute; discriminate|].
  split; vm_compute; reflexivity.
Qed.

(** C04_accepted_is_encodable, instance: BTreeMap<u8, f32>.  The entries (5, 1.0) (1, 2.0), out of
    order, are accepted loosely (refused strictly); the decoded map re-encodes -- to the SORTED
    bytes, which both modes accept with the same value.  The entry (5, NaN) is a value of the type
    ([has_ty]) that the encoder refuses; the decoder rejects its bytes, in both modes. *)
Definition ex_mf : ty := TSeq SBTreeMap (TProd PTuple [TPrim (PInt false W1); TPrim (PFloat false)]).
Definition ex_mf_unsorted : bytes :=
  [Byte.x02; Byte.x00; Byte.x00; Byte.x00;
   Byte.x05; Byte.x00; Byte.x00; Byte.x80; Byte.x3f;
   Byte.x01; Byte.x00; Byte.x00; Byte.x00; Byte.x40].
Definition ex_mf_sorted : bytes :=
  [Byte.x02; Byte.x00; Byte.x00; Byte.x00;
   Byte.x01; Byte.x00; Byte.x00; Byte.x00; Byte.x40;
   Byte.x05; Byte.x00; Byte.x00; Byte.x80; Byte.x3f].
Definition ex_mf_nan : bytes :=
  [Byte.x01; Byte.x00; Byte.x00; Byte.x00; Byte.x05; Byte.x00; Byte.x00; Byte.xc0; Byte.x7f].
Example C04_accepted_is_encodable_instance :
  wf ex_mf = true /\ dflt_ok ex_mf = true /\
  dec_slice c_strict ex_mf ex_mf_unsorted = Err InvalidData MKeyOrder /\
  (exists v, dec_slice c_loose ex_mf ex_mf_unsorted = Ok (v, []) /\
             enc ex_mf v = Ok ex_mf_sorted /\
             try_from_slice c_loose ex_mf ex_mf_sorted = Ok v /\
             try_from_slice c_strict ex_mf ex_mf_sorted = Ok v) /\
  (has_ty ex_mf (VL [VL [VN 5; VN 2143289344]]) = true /\
   refusable ex_mf (VL [VL [VN 5; VN 2143289344]]) = true /\
   enc ex_mf (VL [VL [VN 5; VN 2143289344]]) = Err InvalidData MNaNSer /\
   dec_slice c_loose ex_mf ex_mf_nan = Err InvalidData MNaNDe /\
   dec_slice c_strict ex_mf ex_mf_nan = Err InvalidData MNaNDe).
Proof.
  split; [reflexivity|]. split; [reflexivity|]. split; [vm_compute; reflexivity|].
  split; [eexists; repeat split; vm_compute; reflexivity|].
  repeat split; vm_compute; reflexivity.
Qed.

(** The VALUE of an accepted keyed collection, in every mode and for every byte string: it is
    the same bytes read as a plain Vec of the entries (for a map: of the (key, value) pairs),
    collected with [collect_sorted] (BTreeSet/BTreeMap/HashSet/HashMap) or [collect_index]
    (IndexSet/IndexMap).  No hypothesis on the types. *)
Theorem C04_loose_value :
  forall (c : cfg) (k : seq_kind) (t' : ty) (bs : bytes) (v : val) (r : bytes),
    is_keyed k = true ->
    dec slice_reader c (TSeq k t') bs = Ok (v, r) ->
    exists l, dec slice_reader c (TSeq SVec t') bs = Ok (VL l, r) /\
              v = VL (if is_index k then collect_index (cmp_val (key_ty k t')) (key_val k) l
                      else collect_sorted (cmp_val (key_ty k t')) (key_val k) l).
Proof. exact loose_value. Qed.
Print Assumptions C04_loose_value.

(** ... and what that is ([collected], C04Value.v): [x] is an entry of the value exactly when it is
    the LAST entry of the Vec with its key ([last_of], SortLast.v), the entries are in strictly
    ascending key order (sorted kinds) / their keys are, position by position, those of the Vec with
    only the first entry of each key kept ([first_keys]; index kinds); this determines the value:
    no other list meets the description.  Every key of the Vec is a key of the value, once. *)
Theorem C04_loose_value_spec :
  forall (c : cfg) (k : seq_kind) (t' : ty) (bs : bytes) (v : val) (r : bytes),
    is_keyed k = true -> wf (TSeq k t') = true -> dflt_ok t' = true ->
    dec_slice c (TSeq k t') bs = Ok (v, r) ->
    exists l s,
      dec_slice c (TSeq SVec t') bs = Ok (VL l, r) /\ forallb (has_ty t') l = true /\
      v = VL s /\
      ((forall x, In x s <-> last_of (cmp_val (key_ty k t')) (key_val k) l x) /\
       (if is_index k
        then Forall2 (fun x f => cmp_val (key_ty k t') (key_val k x) (key_val k f) = Eq) s
                     (first_keys (cmp_val (key_ty k t')) (key_val k) l)
        else strictly_ascending (cmp_val (key_ty k t')) (key_val k) s = true)) /\
      (forall s', collected k (key_ty k t') l s' -> s' = s) /\
      (forall y, In y l -> exists x, In x s /\ cmp_val (key_ty k t') (key_val k y) (key_val k x) = Eq) /\
      no_dup_keys (cmp_val (key_ty k t')) (key_val k) s = true.
Proof. exact loose_value_spec. Qed.
Print Assumptions C04_loose_value_spec.

(** When the strict decoder accepts an ordered collection, the entries were already strictly
    ascending, the value is those entries, and the loose decoder returns the same. *)
Theorem C04_strict_is_loose_on_sorted :
  forall (k : seq_kind) (t' : ty) (bs : bytes) (v : val) (r : bytes),
    is_ordered k = true -> wf (TSeq k t') = true -> dflt_ok t' = true ->
    dec_slice c_strict (TSeq k t') bs = Ok (v, r) ->
    dec_slice c_loose (TSeq k t') bs = Ok (v, r) /\
    exists l, dec_slice c_strict (TSeq SVec t') bs = Ok (VL l, r) /\
              strictly_ascending (cmp_val (key_ty k t')) (key_val k) l = true /\
              v = VL l.
Proof. exact strict_is_loose_on_sorted. Qed.
Print Assumptions C04_strict_is_loose_on_sorted.

(** Entries (2,10) (1,11) (2,12), unsorted and repeated: BTreeMap<u8,u8> loosely gives
    [(1,11); (2,12)], strictly refuses; IndexMap<u8,u8> gives [(2,12); (1,11)]; the Vec of pairs
    gives the three entries as they stand. *)
Example C04_loose_value_btreemap :
  dec_slice c_loose (TSeq SBTreeMap (TProd PTuple [TPrim (PInt false W1); TPrim (PInt false W1)]))
    [Byte.x03; Byte.x00; Byte.x00; Byte.x00; Byte.x02; Byte.x0a; Byte.x01; Byte.x0b; Byte.x02; Byte.x0c]
  = Ok (VL [VL [VN 1; VN 11]; VL [VN 2; VN 12]], []).
Proof. vm_compute. reflexivity. Qed.

Example C04_strict_refuses_btreemap :
  dec_slice c_strict (TSeq SBTreeMap (TProd PTuple [TPrim (PInt false W1); TPrim (PInt false W1)]))
    [Byte.x03; Byte.x00; Byte.x00; Byte.x00; Byte.x02; Byte.x0a; Byte.x01; Byte.x0b; Byte.x02; Byte.x0c]
  = Err InvalidData MKeyOrder.
Proof. vm_compute. reflexivity. Qed.

Example C04_loose_value_indexmap :
  dec_slice c_loose (TSeq SIndexMap (TProd PTuple [TPrim (PInt false W1); TPrim (PInt false W1)]))
    [Byte.x03; Byte.x00; Byte.x00; Byte.x00; Byte.x02; Byte.x0a; Byte.x01; Byte.x0b; Byte.x02; Byte.x0c]
  = Ok (VL [VL [VN 2; VN 12]; VL [VN 1; VN 11]], []).
Proof. vm_compute. reflexivity. Qed.

Example C04_plain_vec_of_pairs :
  dec_slice c_loose (TSeq SVec (TProd PTuple [TPrim (PInt false W1); TPrim (PInt false W1)]))
    [Byte.x03; Byte.x00; Byte.x00; Byte.x00; Byte.x02; Byte.x0a; Byte.x01; Byte.x0b; Byte.x02; Byte.x0c]
  = Ok (VL [VL [VN 2; VN 10]; VL [VN 1; VN 11]; VL [VN 2; VN 12]], []).
Proof. vm_compute. reflexivity. Qed.
