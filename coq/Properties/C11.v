(** C11  Decoding is independent of how the reader fragments or interrupts the stream. *)
From Coq Require Import List NArith PArith Bool.
From Coq.Strings Require Import Byte.
From Borsh Require Import Bytes Result Loop Ty Ser De Entry Io IoSamples IoProofsSched RefusalStable.
Import ListNotations.
Local Open Scope N_scope.

(** Fragmentation and interruption: for every type, configuration, input and every schedule
    of Deliver / Interrupt entries (an error of kind Interrupted counts as an interruption),
    with std's read_exact ([shim = false]) and with the shim's ([shim = true]): the scheduled
    decode succeeds with value [v] and leaves [rest] unread exactly when the slice decode
    returns [(v, rest)]; it fails with [k, m] exactly when the slice decode does. *)
Theorem C11_fragment : forall (shim : bool) (c : cfg) (t : ty) (d : bytes) (sch : list rresp),
  benign sch ->
  (forall v rest,
     dec slice_reader c t d = Ok (v, rest) <->
     exists st', dec (sched_reader shim) c t {| data := d; sched := sch |} = Ok (v, st') /\ data st' = rest) /\
  (forall k m,
     dec slice_reader c t d = Err k m <->
     dec (sched_reader shim) c t {| data := d; sched := sch |} = Err k m) /\
  (forall w,
     dec slice_reader c t d = Panic w <->
     dec (sched_reader shim) c t {| data := d; sched := sch |} = Panic w).
Proof. exact fragment_iff. Qed.
Print Assumptions C11_fragment.

(** A genuine failure that is reached while the value is incomplete (the deliveries scheduled
    before it cannot cover the value) is returned with kind and message unchanged. *)
Theorem C11_failure : forall (shim : bool) (c : cfg) (t : ty) (d : bytes) (v : val) (rest : bytes)
    (pre : list rresp) (fk : kind) (fm : msg) (post : list rresp),
  dec slice_reader c t d = Ok (v, rest) ->
  benign pre -> cap pre + len rest < len d ->
  fk <> Interrupted -> fk <> UnexpectedEof ->
  dec (sched_reader shim) c t {| data := d; sched := pre ++ Fail fk fm :: post |} = Err fk fm.
Proof. exact failure_reached. Qed.
Print Assumptions C11_failure.

(** Whatever precedes the failure and whatever the input: the failure comes out unchanged, or
    decoding ended before reaching it exactly as on the slice (having consumed no more than
    was delivered). *)
Theorem C11_failure_transparent : forall (shim : bool) (c : cfg) (t : ty) (d : bytes)
    (pre : list rresp) (fk : kind) (fm : msg) (post : list rresp),
  benign pre -> fk <> Interrupted -> fk <> UnexpectedEof ->
  let r := dec (sched_reader shim) c t {| data := d; sched := pre ++ Fail fk fm :: post |} in
  r = Err fk fm \/
  match dec slice_reader c t d with
  | Ok (v, rest) => exists st', r = Ok (v, st') /\ data st' = rest /\ len d <= len rest + cap pre
  | Err k m => r = Err k m
  | Panic w => r = Panic w
  end.
Proof. exact failure_transparent. Qed.
Print Assumptions C11_failure_transparent.

(** A refusal that does not ask for more bytes ("Unexpected length of input") does not depend on what
    follows the input in the stream, nor on how either run is fragmented: the decoder has seen enough
    when it refuses, so it has no reason to pull further bytes (the read-ahead stage of the check observes
    the bytes pulled on the implementation). *)
Theorem C11_refusal_stable : forall (shim : bool) (c : cfg) (t : ty) (d x : bytes) (sch sch' : list rresp)
    (k : kind) (m : msg),
  benign sch -> benign sch' ->
  dec (sched_reader shim) c t {| data := d; sched := sch |} = Err k m -> m <> MUnexpectedLength ->
  dec (sched_reader shim) c t {| data := d ++ x; sched := sch' |} = Err k m.
Proof. exact sched_refusal_stable. Qed.
Print Assumptions C11_refusal_stable.

(** [try_from_reader] / [from_reader]: the result is that of [try_from_slice]; the number of
    bytes pulled from the reader is the whole input when it is exactly one value, and the
    length of the value plus the one probed byte when something follows. *)
Theorem C11_probe : forall (shim : bool) (c : cfg) (t : ty) (d : bytes) (sch : list rresp),
  benign sch ->
  rmap fst (try_from_reader (sched_reader shim) c t {| data := d; sched := sch |}) = try_from_slice c t d /\
  fst (try_from_reader_count shim c t {| data := d; sched := sch |}) =
    rmap fst (try_from_reader (sched_reader shim) c t {| data := d; sched := sch |}) /\
  try_from_reader_count shim c t {| data := d; sched := sch |} =
  match dec slice_reader c t d with
  | Ok (v, []) => (Ok v, Some (len d))
  | Ok (v, ((_ :: _) as rest)) => (Err InvalidData MNotAllBytesRead, Some (len d + 1 - len rest))
  | Err k m => (Err k m, None)
  | Panic w => (Panic w, None)
  end.
Proof. exact probe_all. Qed.
Print Assumptions C11_probe.

(** Non-vacuity: a [Vec<u8>] followed by a [u16] inside a tuple, delivered in fragments with
    interruptions inside the length prefix and inside the payload. *)
Example C11_fragment_hyp : benign c11_sched.
Proof. apply benignb_spec. vm_compute. reflexivity. Qed.
Example C11_fragment_slice :
  dec slice_reader {| strict := true |} c11_ty c11_data = Ok (VL [VL [VN 10; VN 11; VN 12]; VN 513], [xff]).
Proof. vm_compute. reflexivity. Qed.
Example C11_fragment_sched_std :
  decr false {| strict := true |} c11_ty {| data := c11_data; sched := c11_sched |}
  = Ok (VL [VL [VN 10; VN 11; VN 12]; VN 513], 9).
Proof. vm_compute. reflexivity. Qed.
Example C11_fragment_sched_shim :
  decr true {| strict := true |} c11_ty {| data := c11_data; sched := c11_sched |}
  = Ok (VL [VL [VN 10; VN 11; VN 12]; VN 513], 9).
Proof. vm_compute. reflexivity. Qed.
(** the failure hypotheses are satisfiable: 5 bytes deliverable, the value needs 9 *)
Example C11_failure_hyp :
  benign [Deliver 4; Interrupt; Deliver 1] /\ cap [Deliver 4; Interrupt; Deliver 1] + len [xff] < len c11_data.
Proof. split; [apply benignb_spec; vm_compute; reflexivity|vm_compute; reflexivity]. Qed.
Example C11_failure_instance :
  dec (sched_reader true) {| strict := true |} c11_ty
      {| data := c11_data; sched := [Deliver 4; Interrupt; Deliver 1] ++ Fail (KUser 2) (MUser 7) :: [] |}
  = Err (KUser 2) (MUser 7).
Proof. vm_compute. reflexivity. Qed.
Example C11_probe_instance :
  try_from_reader_count false {| strict := true |} c11_ty {| data := c11_data; sched := c11_sched |}
  = (Err InvalidData MNotAllBytesRead, Some 10).
Proof. vm_compute. reflexivity. Qed.

(** The hypothesis [fk <> UnexpectedEof] of [C11_failure] cannot be dropped: an UnexpectedEof
    raised BY THE READER ITSELF (a genuine failure with its own message, five bytes into an
    eight-byte integer) is rewritten on every [read_exact] path into the crate's own
    InvalidData / "Unexpected length of input", so the full statement "a genuine reader failure
    is returned with its kind and message unchanged" is refuted for this kind (finding F18).
    Inside the byte loop of a byte vector the same error passes through unchanged. *)
Example C11_failure_eof_refuted :
  dec (sched_reader false) {| strict := true |} (TPrim (PInt false W8))
      {| data := [x01; x02; x03; x04; x05; x06; x07; x08]; sched := [Deliver 4; Interrupt; Deliver 1] ++ Fail UnexpectedEof (MUser 7) :: [] |}
  = Err InvalidData MUnexpectedLength /\
  dec (sched_reader false) {| strict := true |} (TSeq SVec (TPrim (PInt false W1)))
      {| data := [x03; x00; x00; x00; x01; x02; x03]; sched := [Deliver 4; Deliver 1] ++ Fail UnexpectedEof (MUser 7) :: [] |}
  = Err UnexpectedEof (MUser 7).
Proof. split; vm_compute; reflexivity. Qed.
