(** C08 (generic items): the name a derived generic item declares and the per-variant inner structs
    of the BorshSchema derive (schema/mod.rs [declaration], [filter_used_params],
    [mentions_dropped_param]; schema/enums/mod.rs [inner_struct_definition]) -- the code after the F9
    repair.  Property theorems only; proofs in GenericsFacts.v and GenericsSchemaFacts.v.

    Proved: [C08gen_declaration] (the declaration is [Name<d1, .., dn>] over exactly the types bounded
    by BorshSchema, in the order of the generics), [C08gen_inner_params] (which parameters an inner
    struct declares), [C08gen_inner_where_closed] (the F9 property: a kept where-predicate names no
    dropped parameter), [C08gen_inner_where_relevant], [C08gen_inner_scope_partial]; and
    [C08gen_inner_scope_refuted]: the inner struct does NOT always declare the parameters its own
    fields name ([enum E<T> { A(PhantomData<T>), B(u8) }] -- E0401 on the real macro). *)
From Coq Require Import String List Bool.
From Borsh Require Import Item Generics GenericsSamples GenericsFacts GenericsSchema GenericsSchemaFacts.
Import ListNotations.

Theorem C08gen_declaration : forall decl_of it,
  schema_declaration decl_of it
  = declaration (gi_name it)
      (map decl_of (documented_types (type_params (gi_params it)) infers_schema schema_explicit (all_fields it))).
Proof. exact schema_declaration_documented. Qed.
Print Assumptions C08gen_declaration.

(** Lifetimes and consts are kept; a type parameter is kept iff the visitor finds it in one of the
    variant's fields -- ALL fields: skipped ones too, attributes not consulted ([found_in]: it [occurs]
    in a field type or a field type is [P::Assoc..]); the order is that of the enum. *)
Theorem C08gen_inner_params : forall it v,
  fst (inner_struct_generics it v)
  = filter (fun p => match p with GPType id _ => found_in id (gv_fields v) | _ => true end)
           (without_defaults (gi_params it)).
Proof. exact inner_params. Qed.
Print Assumptions C08gen_inner_params.

Theorem C08gen_inner_type_params : forall it v,
  type_params (gi_params (inner_struct it v))
  = filter (fun id => found_in id (gv_fields v)) (type_params (gi_params it)).
Proof. exact inner_type_params. Qed.
Print Assumptions C08gen_inner_type_params.

(** The property whose violation was F9. *)
Theorem C08gen_inner_where_closed : forall it v p P,
  In p (gi_where (inner_struct it v)) ->
  In P (type_params (gi_params it)) ->
  In P (ident_toks (toks_pred p)) ->
  In P (type_params (gi_params (inner_struct it v))).
Proof. exact inner_where_closed. Qed.
Print Assumptions C08gen_inner_where_closed.

Theorem C08gen_inner_where_relevant : forall it v p,
  In p (gi_where (inner_struct it v)) ->
  In p (gi_where it) /\
  match p with
  | WLifetime _ => True
  | WUser b _ | WBound b _ => type_contains_some_param b (variant_params it v) = true
  end.
Proof. exact inner_where_relevant. Qed.
Print Assumptions C08gen_inner_where_relevant.

(** Scope of the inner struct's own fields.  The full-strength statement

      forall it v f P, In f (gv_fields v) -> In P (type_params (gi_params it)) ->
        uses P (gf_ty f) = true -> In P (type_params (gi_params (inner_struct it v)))

    (every type parameter a field of the variant names is declared by the inner struct, which is what
    rustc demands: E0401 otherwise) is FALSE; it holds for occurrences the bound-inference visitor
    counts. *)
Theorem C08gen_inner_scope_partial : forall it v f P,
  In f (gv_fields v) -> In P (type_params (gi_params it)) -> occurs P (gf_ty f) = true ->
  In P (type_params (gi_params (inner_struct it v))).
Proof. exact inner_scope_partial. Qed.
Print Assumptions C08gen_inner_scope_partial.

Theorem C08gen_inner_scope_refuted :
  exists it vs v f P,
    gi_body it = GEnum vs /\ In v vs /\ In f (gv_fields v) /\ In P (type_params (gi_params it)) /\
    uses P (gf_ty f) = true /\
    ~ In P (type_params (gi_params (inner_struct it v))).
Proof. exact inner_scope_refuted. Qed.
Print Assumptions C08gen_inner_scope_refuted.

(** the verdict the correspondence driver prints per variant ([inner_scope_ok], extracted) decides exactly the
    statement above: where it is false the inner struct names a parameter it does not declare *)
Theorem C08gen_inner_scope_decided : forall it v,
  inner_scope_ok it v = true <->
  (forall P f, In P (type_params (gi_params it)) -> In f (gv_fields v) -> uses P (gf_ty f) = true ->
               In P (type_params (gi_params (inner_struct it v)))).
Proof. exact inner_scope_ok_spec. Qed.
Print Assumptions C08gen_inner_scope_decided.

(** ** computed instances *)
(** the F9 witness [enum G<T, U> where T: Into<U> { X(T), Y(U) }]: neither inner struct keeps the predicate *)
Example C08gen_f9 :
  inner_view f9_enum 0 = (["T"], [])%string /\ inner_view f9_enum 1 = (["U"], [])%string.
Proof. vm_compute. repeat split. Qed.
(** [enum H<'a, T, U = u8, const N: usize> where T: Clone, U: Copy { P(#[borsh(skip)] T, [u8; N]), Q(&'a U), R }] *)
Example C08gen_mixed :
  inner_view mixed_enum 0 = (["'a"; "T"; "N"], ["T : Clone"])%string /\
  inner_view mixed_enum 1 = (["'a"; "U"; "N"], ["U : Copy"])%string /\
  inner_view mixed_enum 2 = (["'a"; "N"], [])%string /\
  map render_pred (bounds_of DSchema mixed_enum) = ["T : Clone"; "U : Copy"; "U : borsh::BorshSchema"]%string.
Proof. vm_compute. repeat split. Qed.
(** the refutation witness: [struct EA(PhantomData<T>);] without [<T>] *)
Example C08gen_phantom : inner_view phantom_enum 0 = ([], []).
Proof. vm_compute. reflexivity. Qed.
(** declarations: [A<V>] for the rustdoc's [schema(params = "V => V")] example at [V := u64] *)
Example C08gen_declaration_ex :
  schema_declaration (fun t => if String.eqb (render t) "V" then "u64" else if String.eqb (render t) "U" then "String" else "?")%string doc_schema_params = "A<u64>"%string /\
  schema_declaration (fun t => if String.eqb (render t) "V" then "u64" else if String.eqb (render t) "U" then "String" else "?")%string doc_a = "A<String, u64>"%string /\
  schema_declaration (fun _ => "?")%string phantom_struct = "S"%string.
Proof. vm_compute. repeat split. Qed.
