(** C02  Encoded bytes equal the Borsh specification encoding.
    Property theorems only; the reference encoder and the refusable set are in Spec.v, the
    proofs in SpecFacts.v / SpecConform.v / SpecRefuse.v. *)
From Coq Require Import String.
From Coq Require Import List NArith.
From Coq.Strings Require Import Byte.
From Borsh Require Import Bytes Result Ty Ser Spec SpecFacts SpecConform SpecRefuse.
Import ListNotations.
Local Open Scope N_scope.

(** For every type of the family, every value of it: when the model of the code produces
    bytes, they are the bytes the reference encoder [spec_enc] (written from the Borsh
    specification, independent of the model) prescribes for the logical value. *)
Theorem C02_conforms :
  forall (t : ty) (v : val) (bs : bytes),
    wf t = true -> has_ty t v = true -> enc t v = Ok bs -> spec_enc t (logical t v) = Some bs.
Proof. exact conforms. Qed.
Print Assumptions C02_conforms.

(** The values that are refused are exactly those that contain, in a position that is
    written, a NaN, a dynamically sized collection or string of 2^32 or more elements, or a
    guarded collection whose element (key) type is memory-zero-sized.
    A mutably borrowed RefCell (the fourth refusal in borsh, "already mutably borrowed") is a
    state of the program, not a value: it has no representation as a [val] and is outside
    this theorem; the harness never serializes a RefCell while it is borrowed. *)
Theorem C02_refuses :
  forall (t : ty) (v : val),
    wf t = true -> has_ty t v = true ->
    ((exists k m, enc t v = Err k m) <-> refusable t v = true).
Proof. exact refuses. Qed.
Print Assumptions C02_refuses.

(** Every refusal of a well-typed value has kind InvalidData. *)
Theorem C02_refusal_kind :
  forall (t : ty) (v : val) (k : kind) (m : msg),
    wf t = true -> has_ty t v = true -> enc t v = Err k m -> k = InvalidData.
Proof. exact refusal_kind. Qed.
Print Assumptions C02_refusal_kind.

(** No third outcome (in particular no panic): a well-typed value is either encoded or
    refused with InvalidData, as [refusable] says. *)
Theorem C02_total :
  forall (t : ty) (v : val),
    wf t = true -> has_ty t v = true ->
    (refusable t v = false /\ exists bs, enc t v = Ok bs) \/
    (refusable t v = true /\ exists m, enc t v = Err InvalidData m).
Proof. exact enc_total. Qed.
Print Assumptions C02_total.

(** The one case of "2^32 or more elements" a program can reach without 2^32 elements in
    memory: a slice [&[Z]] of a zero-sized [Z] (the slice impl has no zero-size guard).  The
    harness builds it and the check compares with this clause. *)
Theorem C02_too_long_slice :
  forall (t : ty) (l : list val), U32_LIMIT <= len l -> enc (TSeq SSlice t) (VL l) = Err InvalidData MSimple.
Proof. exact too_long_slice. Qed.
Print Assumptions C02_too_long_slice.

(** The positional little-endian of the specification (byte i of n is (n / 256^i) mod 256)
    is the recursive one of the model; the NaN test and the widths agree as well. *)
Theorem C02_le_positional : forall (w : nat) (n : N), spec_le w n = le w n.
Proof. exact spec_le_le. Qed.
Print Assumptions C02_le_positional.

Theorem C02_nan_agrees : forall (d : bool) (n : N), spec_nan d n = is_nan d n.
Proof. exact spec_nan_eq. Qed.
Print Assumptions C02_nan_agrees.

(** Non-vacuity.  The nested value of C01 (struct with a skipped field, options of tuples
    with a float, a deque split in two, a hash map listed out of order holding B-tree sets):
    hypotheses hold, 43 bytes come out, the reference encoder gives the same bytes from the
    logical value -- and the reference bytes are spelled out for two small values. *)
Local Open Scope string_scope.
Definition ex_t : ty :=
  TProd (PStruct "S" ["a"; "b"; "c"; "d"] [false; true; false; false])
    [TSeq SVec (TSum KOption [TProd (PVariant [] []) []; TProd PTuple [TPrim (PInt false W1); TPrim (PFloat false)]]);
     TPrim (PInt true W4);
     TSeq SDeque (TText XString);
     TSeq SHashMap (TProd PTuple [TPrim (PInt true W1); TSeq SBTreeSet (TPrim (PInt false W2))])].
Definition ex_v : val :=
  VL [VL [VV 1 (VL [VN 7; VN 1065353216]); VV 0 (VL [])]; VN 99; VL [VL [VL [VN 104; VN 105]]; VL [VL []]];
      VL [VL [VN 3; VL [VN 1; VN 2]]; VL [VN 255; VL []]]].
Example C02_nonvacuous :
  wf ex_t = true /\ has_ty ex_t ex_v = true /\ refusable ex_t ex_v = false /\
  exists bs, enc ex_t ex_v = Ok bs /\ len bs = 43%N /\ spec_enc ex_t (logical ex_t ex_v) = Some bs /\
             spec_enc ex_t ex_v = None.      (* the representation itself is not in wire order *)
Proof.
  split; [reflexivity|]. split; [reflexivity|]. split; [reflexivity|].
  eexists. split; [vm_compute; reflexivity|]. split; [vm_compute; reflexivity|].
  split; vm_compute; reflexivity.
Qed.

(** Result<u16, Option<bool>>: Ok(0x1234) is 01 34 12, Err(Some(true)) is 00 01 01. *)
Example C02_result_bytes :
  let t := TSum KResult [TPrim (PInt false W2); TSum KOption [TProd (PVariant [] []) []; TPrim PBool]] in
  spec_enc t (VV 0 (VN 4660)) = Some [x01; x34; x12] /\
  spec_enc t (VV 1 (VV 1 (VN 1))) = Some [x00; x01; x01] /\
  enc t (VV 0 (VN 4660)) = Ok [x01; x34; x12] /\
  enc t (VV 1 (VV 1 (VN 1))) = Ok [x00; x01; x01].
Proof. repeat split; vm_compute; reflexivity. Qed.

(** Refusals: a NaN inside an option inside a vector; a Vec of a zero-sized type; the same
    zero-sized elements in an array are fine; a NaN in a skipped field is not written. *)
Example C02_refusals :
  let tf := TSeq SVec (TSum KOption [TProd (PVariant [] []) []; TPrim (PFloat false)]) in
  let vf := VL [VV 0 (VL []); VV 1 (VN 2143289344)] in
  let tz := TSeq SVec (TUnit UUnit) in
  let ta := TArray 3 (TUnit UUnit) in
  let ts := TProd (PStruct "T" ["x"; "y"] [true; false]) [TPrim (PFloat true); TPrim (PInt false W1)] in
  (has_ty tf vf = true /\ refusable tf vf = true /\ enc tf vf = Err InvalidData MNaNSer /\ spec_enc tf (logical tf vf) = None) /\
  (has_ty tz (VL []) = true /\ refusable tz (VL []) = true /\ enc tz (VL []) = Err InvalidData MZst) /\
  (refusable ta (VL [VL []; VL []; VL []]) = false /\ enc ta (VL [VL []; VL []; VL []]) = Ok []) /\
  (has_ty ts (VL [VN 9221120237041090560; VN 5]) = true /\ refusable ts (VL [VN 9221120237041090560; VN 5]) = false /\
   enc ts (VL [VN 9221120237041090560; VN 5]) = Ok [x05]).
Proof. repeat split; vm_compute; reflexivity. Qed.
