(** C03  Canonical encoding: equal values always produce identical bytes.
    Property theorems only; proofs in SpecConform.v (canonicity through the reference
    encoder) and SpecCanon.v (the individual mechanisms). *)
From Coq Require Import String.
From Coq Require Import List NArith Permutation.
From Coq.Strings Require Import Byte.
From Borsh Require Import Bytes Result Ty Ser De Entry Spec SpecFacts SpecConform SpecRefuse SpecCanon.
Import ListNotations.
Local Open Scope N_scope.

(** The bytes depend only on the logical value: two representations (insertion orders of a
    hash collection, splits of a deque, wrappers, at any depth) of one logical value that
    both encode give the same bytes ... *)
Theorem C03_canonical :
  forall (t : ty) (v1 v2 : val) (b1 b2 : bytes),
    wf t = true -> has_ty t v1 = true -> has_ty t v2 = true -> logical t v1 = logical t v2 ->
    enc t v1 = Ok b1 -> enc t v2 = Ok b2 -> b1 = b2.
Proof. exact canonical_bytes. Qed.
Print Assumptions C03_canonical.

(** ... and whether a value is refused depends only on the logical value too, so that equal
    values are either both encoded, identically, or both refused. *)
Theorem C03_canonical_refusal :
  forall (t : ty) (v1 v2 : val),
    has_ty t v1 = true -> has_ty t v2 = true -> logical t v1 = logical t v2 ->
    refusable t v1 = refusable t v2.
Proof. exact canonical_refusal. Qed.
Print Assumptions C03_canonical_refusal.

Theorem C03_canonical_total :
  forall (t : ty) (v1 v2 : val),
    wf t = true -> has_ty t v1 = true -> has_ty t v2 = true -> logical t v1 = logical t v2 ->
    (exists bs, enc t v1 = Ok bs /\ enc t v2 = Ok bs) \/
    (exists m1 m2, enc t v1 = Err InvalidData m1 /\ enc t v2 = Err InvalidData m2).
Proof. exact canonical_total. Qed.
Print Assumptions C03_canonical_total.

(** Hash sets and maps: insertion order, hasher seed and capacity only permute the iteration
    order, and a permutation does not change the result.  ([wf] is needed: it makes the key
    type one on which Rust's [Ord] is a strict total order.) *)
Theorem C03_perm :
  forall (k : seq_kind) (t : ty) (l1 l2 : list val),
    is_hash k = true -> wf (TSeq k t) = true -> Permutation l1 l2 ->
    has_ty (TSeq k t) (VL l1) = true ->
    enc (TSeq k t) (VL l1) = enc (TSeq k t) (VL l2).
Proof. exact hash_perm. Qed.
Print Assumptions C03_perm.

(** What a hash set / map writes is the count and then its entries in strictly ascending key
    order: the same bytes as the B-tree collection with the same content, accepted by the
    decoder that insists on ascending keys. *)
Theorem C03_sorted :
  forall (k : seq_kind) (t : ty) (l : list val) (bs : bytes),
    is_hash k = true -> wf (TSeq k t) = true -> has_ty (TSeq k t) (VL l) = true ->
    enc (TSeq k t) (VL l) = Ok bs ->
    let sorted := sort_by (cmp_val (key_ty k t)) (key_val k) l in
    ser (TSeq k t) (VL l) = emit_len (len sorted) >> each_out (ser t) sorted /\
    Permutation sorted l /\
    strictly_ascending (cmp_val (key_ty k t)) (key_val k) sorted = true /\
    has_ty (TSeq (ordered_twin k) t) (VL sorted) = true /\
    enc (TSeq (ordered_twin k) t) (VL sorted) = Ok bs /\
    dec_slice {| strict := true |} (TSeq k t) bs = Ok (logical (TSeq k t) (VL l), []).
Proof. exact hash_sorted. Qed.
Print Assumptions C03_sorted.

(** Every split (ring-buffer offset) of a deque encodes like the Vec of the joined content. *)
Theorem C03_deque :
  forall (t : ty) (a b : list val),
    has_ty (TSeq SDeque t) (VL [VL a; VL b]) = true ->
    enc (TSeq SDeque t) (VL [VL a; VL b]) = enc (TSeq SVec t) (VL (a ++ b)).
Proof. exact deque_as_vec. Qed.
Print Assumptions C03_deque.

(** All seven wrappers (&T, Box, Cow, Rc, Arc, Cell, RefCell) are transparent, for every
    value, typed or not. *)
Theorem C03_wrap : forall (w : wrap_kind) (t : ty) (v : val), enc (TWrap w t) v = enc t v.
Proof. exact wrap_transparent. Qed.
Print Assumptions C03_wrap.

(** A borrowed / boxed / shared slice and a Vec give the same result (the slice impl is the
    only one without the zero-size guard, hence the side condition). *)
Theorem C03_slice_vec :
  forall (t : ty) (v : val), mem_zst t = false -> enc (TSeq SSlice t) v = enc (TSeq SVec t) v.
Proof. exact slice_as_vec. Qed.
Print Assumptions C03_slice_vec.

(** The bulk write of a run of u8 produces the bytes of the element-by-element write ... *)
Theorem C03_fast_path :
  forall l : list val,
    forallb (has_ty (TPrim (PInt false W1))) l = true ->
    snd (emit_bytes_of l) = None /\ snd (each_out (ser (TPrim (PInt false W1))) l) = None /\
    concat (fst (emit_bytes_of l)) = concat (fst (each_out (ser (TPrim (PInt false W1))) l)).
Proof. exact fast_path. Qed.
Print Assumptions C03_fast_path.

(** ... so Vec<u8>, [u8], Box<[u8]>, BTreeSet<u8>, IndexSet<u8> encode like LinkedList<u8>,
    which has no bulk path (hash sets sort first, see C03_sorted; deques: C03_deque), and
    [u8; N] is the concatenation of its element encodings. *)
Theorem C03_fast_path_seq :
  forall (k : seq_kind) (l : list val),
    is_hash k = false -> k <> SDeque -> forallb (has_ty (TPrim (PInt false W1))) l = true ->
    enc (TSeq k (TPrim (PInt false W1))) (VL l) = enc (TSeq SList (TPrim (PInt false W1))) (VL l).
Proof. exact fast_path_seq. Qed.
Print Assumptions C03_fast_path_seq.

Theorem C03_fast_path_array :
  forall (n : N) (l : list val),
    has_ty (TArray n (TPrim (PInt false W1))) (VL l) = true ->
    enc (TArray n (TPrim (PInt false W1))) (VL l) = Ok (concat (fst (each_out (ser (TPrim (PInt false W1))) l))).
Proof. exact fast_path_array. Qed.
Print Assumptions C03_fast_path_array.

(** Non-vacuity: HashMap<String, VecDeque<Rc<Option<(u8, i16)>>>> listed in two different
    iteration orders, with different deque splits and under different wrappers, gives one
    byte string; the two representations differ but have the same logical value. *)
Definition ex_elem : ty := TSum KOption [TProd (PVariant [] []) []; TProd PTuple [TPrim (PInt false W1); TPrim (PInt true W2)]].
Definition ex_t1 : ty :=
  TSeq SHashMap (TProd PTuple [TText XString; TSeq SDeque (TWrap WRc ex_elem)]).
Definition ex_t2 : ty :=
  TWrap WBox (TSeq SHashMap (TProd PTuple [TText XString; TSeq SDeque (TWrap WRefCell ex_elem)])).
Definition e1 := VV 1 (VL [VN 7; VN 65535]).
Definition e0 := VV 0 (VL []).
Definition ex_r1 : val :=
  VL [VL [VL [VN 98]; VL [VL [e1; e0]; VL [e1]]]; VL [VL [VN 97; VN 97]; VL [VL []; VL [e0]]]; VL [VL []; VL [VL []; VL []]]].
Definition ex_r2 : val :=
  VL [VL [VL []; VL [VL []; VL []]]; VL [VL [VN 97; VN 97]; VL [VL [e0]; VL []]]; VL [VL [VN 98]; VL [VL [e1]; VL [e0; e1]]]].
Example C03_nonvacuous :
  wf ex_t1 = true /\ wf ex_t2 = true /\ has_ty ex_t1 ex_r1 = true /\ has_ty ex_t2 ex_r2 = true /\
  ex_r1 <> ex_r2 /\ logical ex_t1 ex_r1 = logical ex_t1 ex_r2 /\
  exists bs, enc ex_t1 ex_r1 = Ok bs /\ enc ex_t2 ex_r2 = Ok bs /\ enc ex_t1 ex_r2 = Ok bs /\ len bs = 41.
Proof.
  repeat split; try (vm_compute; reflexivity).
  - vm_compute. discriminate.
  - eexists. repeat split; vm_compute; reflexivity.
Qed.

(** the bulk path on real bytes: Vec<u8>, LinkedList<u8> and the deque split (1, 2) *)
Example C03_fast_path_example :
  let u8 := TPrim (PInt false W1) in
  enc (TSeq SVec u8) (VL [VN 1; VN 2; VN 255]) = Ok [x03; x00; x00; x00; x01; x02; xff] /\
  enc (TSeq SList u8) (VL [VN 1; VN 2; VN 255]) = Ok [x03; x00; x00; x00; x01; x02; xff] /\
  enc (TSeq SDeque u8) (VL [VL [VN 1]; VL [VN 2; VN 255]]) = Ok [x03; x00; x00; x00; x01; x02; xff] /\
  fst (ser (TSeq SVec u8) (VL [VN 1; VN 2; VN 255])) <> fst (ser (TSeq SList u8) (VL [VN 1; VN 2; VN 255])).
Proof. repeat split; try (vm_compute; reflexivity). vm_compute. discriminate. Qed.
