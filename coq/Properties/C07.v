(** C07  Decoding untrusted bytes is safe: no panic, bounded memory and work.
    Property theorems only; definitions in Cost.v, proofs in CostFacts.v / CostLoops.v /
    CostBasic.v / CostBounds.v / CostMain.v; the tight bounds in CostTight.v / CostTightMain.v;
    the conversions into the final collection in CostConv.v / CostConvMain.v. *)
From Coq Require Import String.
From Coq Require Import List NArith.
From Coq.Strings Require Import Byte.
From Borsh Require Import Bytes Result Ty Ser De Entry Cost CostFacts CostLoops CostBasic CostBounds CostMain
     CostTight CostTightMain CostConv CostConvMain.
Import ListNotations.
Local Open Scope N_scope.

(** Erasure: the instrumented decoder returns exactly the result of the slice decoder
    ([sz_ok]: every type that is not memory-zero-sized has 0 < size_of - the meaning of
    [mem_zst], compared with the real size_of on every run). *)
Theorem C07_erasure :
  forall (sz : ty -> N) (c : cfg) (t : ty) (bs : bytes),
    sz_ok sz -> snd (cdec sz c t bs) = dec slice_reader c t bs.
Proof. exact (fun sz c t bs H => cdec_erase sz c H t bs). Qed.
Print Assumptions C07_erasure.

(** No panic, for every type (no well-formedness needed), every byte string: the decoder
    itself ([dec_PS]) and the division inside [hint::cautious]. *)
Theorem C07_no_panic :
  forall (sz : ty -> N) (c : cfg) (t : ty) (bs : bytes) (w : N),
    sz_ok sz -> snd (cdec sz c t bs) <> Panic w.
Proof. exact (fun sz c t bs w H => cdec_no_panic sz c t bs w H). Qed.
Print Assumptions C07_no_panic.

Theorem C07_error_kind :
  forall (sz : ty -> N) (c : cfg) (t : ty) (bs : bytes) (k : kind) (m : msg),
    sz_ok sz -> snd (cdec sz c t bs) = Err k m -> k = InvalidData.
Proof. exact (fun sz c t bs k m H => cdec_err_kind sz c t bs k m H). Qed.
Print Assumptions C07_error_kind.

(** The hypothesis on size_of is needed: a zero-sized element divides by zero (every caller
    refuses zero-sized elements first).  Before the fix recorded as F15 the size was truncated
    to u32 first, and every multiple of 2^32 divided by zero as well. *)
Theorem C07_hint_div0 : forall hint : N, cautious 0 hint = Panic P_DIV0.
Proof. exact cautious_div0. Qed.
Print Assumptions C07_hint_div0.

(** [hint::cautious]: at most 4096 bytes worth of elements (one element if a single one is
    larger), never more elements than announced, at least one. *)
Theorem C07_hint :
  forall sz len : N, 0 < sz ->
    exists c0, cautious sz len = Ok c0 /\ c0 * sz <= N.max 4096 sz /\ c0 <= N.max len 1 /\ 1 <= c0.
Proof. exact cautious_spec. Qed.
Print Assumptions C07_hint.

(** The byte loop of [u8::vec_from_reader]: in every state reachable from the start of the
    loop on input [s0] with announced length [n], the buffer length is at most
    max (min n 1MiB) (2 * bytes consumed so far); [pos] is the number of bytes consumed. *)
Theorem C07_bulk :
  forall (n : N) (s0 : bytes) (buf pos : N) (acc : list bytes) (s : bytes),
    bulk_reach n s0 (buf, pos, acc, s) ->
    buf <= N.max (N.min n CHUNK) (2 * pos) /\ pos + len s = len s0 /\ pos <= buf.
Proof. exact bulk_buffer_bound. Qed.
Print Assumptions C07_bulk.

(** ... and its requests: a bare length prefix costs one request of at most 1 MiB; every
    request is at most max (min n 1MiB) (2 * consumed); all requests together at most
    min n 1MiB + 4 * consumed. *)
Theorem C07_bulk_requests :
  forall (n : N) (s0 : bytes), 0 < n ->
    exists pos, pos <= n /\ pos <= len s0 /\
      sum_of ev_alloc (fst (cbulk n s0)) <= N.min n CHUNK + 4 * pos /\
      sum_of ev_elem (fst (cbulk n s0)) = 0 /\
      Forall (alloc_le (N.max (N.min n CHUNK) (2 * pos))) (fst (cbulk n s0)).
Proof. exact cbulk_cost. Qed.
Print Assumptions C07_bulk_requests.

(** * The family: [fam t] (Cost.v) -- every collection inside [t] either is refused by
    check_zst or has elements with at least one wire byte ([wire_pos]).  Constants, by
    recursion on the type (CostMain.v), with e = size_of of the element type:
      B0 (Vec<T>) = B0 T + 2^20 + 4096 + 9e      B1 (Vec<T>) = B1 T + 2e + 2
      K0 a b (Vec<T>) = a*(2^20 + 4096 + e) + K0 T + b + 16ae
      K1 a b (Vec<T>) = K0 T + b + K1 T + 4ae + 4a
      String/Bytes/BytesMut: as Vec with e = 1 and T = u8 (K0 T = K1 T = B0 T = B1 T = 0)
      [T; n]: K0 = n * (K0 T + b), the rest as T;  tuples/structs/enums: sums;  wrappers: as T.
    (a, b) = (1, 0) gives bytes requested, (0, 1) gives element decodes. *)

(** No single request exceeds a constant plus a multiple of the input length, whatever the
    length prefixes say ("a length prefix alone never causes a proportional allocation"):
    for Vec<u8> / String the bound is 2^20 + 4113 + 4 * |input|. *)
Theorem C07_prefix_alone :
  forall (sz : ty -> N) (c : cfg) (t : ty) (bs : bytes),
    sz_ok sz -> fam t = true ->
    max_request (cost_of (fst (cdec sz c t bs))) <= B0 sz t + B1 sz t * len bs.
Proof. exact cdec_max_request. Qed.
Print Assumptions C07_prefix_alone.

(** Work: the number of element decodes started is linear in the input length. *)
Theorem C07_work :
  forall (sz : ty -> N) (c : cfg) (t : ty) (bs : bytes),
    sz_ok sz -> fam t = true ->
    elems (cost_of (fst (cdec sz c t bs))) <= K0 0 1 sz t + K1 0 1 sz t * len bs.
Proof. exact cdec_work. Qed.
Print Assumptions C07_work.

(** Allocation: the total of all requests (hence the peak of live modelled bytes) is linear
    in the input length. *)
Theorem C07_alloc :
  forall (sz : ty -> N) (c : cfg) (t : ty) (bs : bytes),
    sz_ok sz -> fam t = true ->
    total_requested (cost_of (fst (cdec sz c t bs))) <= K0 1 0 sz t + K1 1 0 sz t * len bs.
Proof. exact cdec_alloc. Qed.
Print Assumptions C07_alloc.

(** On success the cost is linear in the bytes CONSUMED, and a type with wire_min >= 1 consumes. *)
Theorem C07_consumed :
  forall (sz : ty -> N) (c : cfg) (t : ty) (bs : bytes) (v : val) (rest : bytes),
    sz_ok sz -> fam t = true -> snd (cdec sz c t bs) = Ok (v, rest) ->
    len rest <= len bs /\
    total_requested (cost_of (fst (cdec sz c t bs))) + K1 1 0 sz t * len rest <= K0 1 0 sz t + K1 1 0 sz t * len bs /\
    elems (cost_of (fst (cdec sz c t bs))) + K1 0 1 sz t * len rest <= K0 0 1 sz t + K1 0 1 sz t * len bs /\
    (wire_pos t = true -> len rest < len bs).
Proof. exact cdec_alloc_consumed. Qed.
Print Assumptions C07_consumed.

(** * Examples (vm_compute): the adversarial prefix ff ff ff ff *)
Definition ex_sz (t : ty) : N :=
  match t with
  | TPrim (PInt _ W1) => 1 | TPrim (PInt _ W4) => 4
  | TSeq _ _ | TText _ => 24
  | _ => 8
  end.
Definition ex_cfg : cfg := {| strict := true |}.
Definition ffff : bytes := [xff; xff; xff; xff].
Definition u8 := TPrim (PInt false W1).
Definition u32 := TPrim (PInt false W4).

Example C07_ex_vec_u8 :
  dec_cost ex_sz ex_cfg (TSeq SVec u8) ffff =
  (Err InvalidData MUnexpectedLength,
   {| max_request := 1048576; total_requested := 1048576; elems := 0; max_explicit := 1048576; conv_units := 0; conv_bytes := 0 |}).
Proof. vm_compute. reflexivity. Qed.

Example C07_ex_vec_u32 :
  dec_cost ex_sz ex_cfg (TSeq SVec u32) ffff =
  (Err InvalidData MUnexpectedLength,
   {| max_request := 4096; total_requested := 4096; elems := 1; max_explicit := 4096; conv_units := 0; conv_bytes := 0 |}).
Proof. vm_compute. reflexivity. Qed.

Example C07_ex_string :
  dec_cost ex_sz ex_cfg (TText XString) ffff =
  (Err InvalidData MUnexpectedLength,
   {| max_request := 1048576; total_requested := 1048576; elems := 0; max_explicit := 1048576; conv_units := 0; conv_bytes := 0 |}).
Proof. vm_compute. reflexivity. Qed.

(** outer Vec: 170 * 24 = 4080 bytes (cautious), first inner Vec<u8>: 1 MiB, then failure *)
Example C07_ex_vec_vec_u8 :
  dec_cost ex_sz ex_cfg (TSeq SVec (TSeq SVec u8)) (ffff ++ ffff) =
  (Err InvalidData MUnexpectedLength,
   {| max_request := 1048576; total_requested := 1052656; elems := 1; max_explicit := 1048576; conv_units := 0; conv_bytes := 0 |}).
Proof. vm_compute. reflexivity. Qed.

(** growth by doubling from the cautious capacity: 5 u32 announced as 5 -> one request of 20 bytes;
    BytesMut announced 9 bytes -> one request of 9 bytes *)
Example C07_ex_exact_capacity :
  snd (dec_cost ex_sz ex_cfg (TSeq SVec u32)
         ([x05; x00; x00; x00] ++ concat (repeat [x01; x00; x00; x00] 5))) =
  {| max_request := 20; total_requested := 20; elems := 5; max_explicit := 20; conv_units := 0; conv_bytes := 0 |}.
Proof. vm_compute. reflexivity. Qed.

(** a size_of of 0 makes cautious divide by zero: the hypothesis [sz_ok] is not vacuous; an element
    of 2^32 (or 2^32 + 1) bytes is handled like any other large element: capacity 1 (F15) *)
Example C07_ex_div0 :
  fst (dec_cost (fun _ => 0) ex_cfg (TSeq SVec u32) ffff) = Panic P_DIV0 /\
  cautious (2 ^ 32) 7 = Ok 1 /\ cautious (2 ^ 32 + 1) 4096 = Ok 1.
Proof. vm_compute. repeat split; reflexivity. Qed.

(** out of the family: Vec<RefCell<()>> is not refused by check_zst and its elements take no
    wire bytes: a 4-byte input announcing 1000 elements decodes 1000 elements *)
Example C07_ex_out_of_family :
  fam (TSeq SVec (TWrap WRefCell (TUnit UUnit))) = false /\
  elems (snd (dec_cost (fun _ => 8) ex_cfg (TSeq SVec (TWrap WRefCell (TUnit UUnit))) [xe8; x03; x00; x00])) = 1000.
Proof. split; vm_compute; reflexivity. Qed.

(** the constants for some types (element sizes as in [ex_sz]) *)
Example C07_ex_constants :
  (B0 ex_sz (TSeq SVec u8), B1 ex_sz (TSeq SVec u8)) = (1052681, 4) /\
  (B0 ex_sz (TSeq SVec u32), B1 ex_sz (TSeq SVec u32)) = (1052708, 10) /\
  (K0 1 0 ex_sz (TSeq SVec u32), K1 1 0 ex_sz (TSeq SVec u32)) = (1052740, 20) /\
  (K0 0 1 ex_sz (TSeq SVec u32), K1 0 1 ex_sz (TSeq SVec u32)) = (1, 1) /\
  (K0 0 1 ex_sz (TSeq SVec (TSeq SVec u32)), K1 0 1 ex_sz (TSeq SVec (TSeq SVec u32))) = (2, 3) /\
  (K0 1 0 ex_sz (TSeq SVec (TSeq SVec u8)), K1 1 0 ex_sz (TSeq SVec (TSeq SVec u8))) = (2105769, 1052797).
Proof. vm_compute. repeat split; reflexivity. Qed.

(** * Tight bounds (CostTight.v /\
CostTightMain.v)
    The constants of [C07_alloc] charge a collection the additive constant of its element
    once PER ELEMENT, so the 1 MiB that a failing [Vec<u8>] may request becomes a cost per
    input byte of [Vec<Vec<u8>>] (K1 = 1052797).  But decoding stops at the first failure,
    and a SUCCESSFUL [Vec<u8>] decode has requested at most 5 * (bytes it consumed).  With
    separate constants for success (S0) and failure (F0), a = weight of a requested byte,
    b = weight of an element decode, e = size_of of the element type:
      Vec<u8>, String, ...:  S0 = 0   F0 = a * 2^20                    S1 = 5a
      BytesMut:               S0 = 0   F0 = 4096a + b                    S1 = b + 4a
      Vec<T>, collections:    S0 = 0   F0 = a * max 4096 e + b + F0 T    S1 = S0 T + b + S1 T + 4ae
      [u8; n]: 0, 0, 0;  [T; n]: S0 = n * (S0 T + b), F0 = (n-1) * (S0 T + b) + b + F0 T, S1 = S1 T
      tuples / structs:       S0 = sum S0,  F0 = max_k (S0 T1 + .. + S0 T(k-1) + F0 Tk),  S1 = max S1
      enums: maxima over the variants;  wrappers: as the wrapped type.
    The failure constant of the element is ADDED once, not multiplied by the length. *)

(** Allocation: total of all requests <= F0 + S1 * |input|. *)
Theorem C07_alloc_tight :
  forall (sz : ty -> N) (c : cfg) (t : ty) (bs : bytes),
    sz_ok sz -> fam t = true ->
    total_requested (cost_of (fst (cdec sz c t bs))) <= F0 1 0 sz t + S1 1 0 sz t * len bs.
Proof. exact cdec_alloc_tight. Qed.
Print Assumptions C07_alloc_tight.

(** Work: element decodes started <= F0 + S1 * |input| (weights a = 0, b = 1). *)
Theorem C07_work_tight :
  forall (sz : ty -> N) (c : cfg) (t : ty) (bs : bytes),
    sz_ok sz -> fam t = true ->
    elems (cost_of (fst (cdec sz c t bs))) <= F0 0 1 sz t + S1 0 1 sz t * len bs.
Proof. exact cdec_work_tight. Qed.
Print Assumptions C07_work_tight.

(** A successful decode has requested at most S0 + S1 * (bytes consumed); S0 = 0 for every
    collection and text type: an accepted input never costs the 1 MiB. *)
Theorem C07_alloc_success :
  forall (sz : ty -> N) (c : cfg) (t : ty) (bs : bytes) (v : val) (rest : bytes),
    sz_ok sz -> fam t = true -> snd (cdec sz c t bs) = Ok (v, rest) ->
    len rest <= len bs /\
    total_requested (cost_of (fst (cdec sz c t bs))) <= S0 1 0 sz t + S1 1 0 sz t * (len bs - len rest).
Proof. exact cdec_alloc_success. Qed.
Print Assumptions C07_alloc_success.

Theorem C07_work_success :
  forall (sz : ty -> N) (c : cfg) (t : ty) (bs : bytes) (v : val) (rest : bytes),
    sz_ok sz -> fam t = true -> snd (cdec sz c t bs) = Ok (v, rest) ->
    len rest <= len bs /\
    elems (cost_of (fst (cdec sz c t bs))) <= S0 0 1 sz t + S1 0 1 sz t * (len bs - len rest).
Proof. exact cdec_work_success. Qed.
Print Assumptions C07_work_success.

(** The tight constants are never above the loose ones. *)
Theorem C07_tight_le_loose :
  forall (alpha beta : N) (sz : ty -> N) (t : ty),
    sz_ok sz -> F0 alpha beta sz t <= K0 alpha beta sz t /\ S1 alpha beta sz t <= K1 alpha beta sz t.
Proof. exact tight_le_loose. Qed.
Print Assumptions C07_tight_le_loose.

(** the tight constants (F0, S1) for bytes requested; element sizes as in [ex_sz], a
    (String, Vec<u32>) tuple of 48 bytes *)
Definition ex_sz2 (t : ty) : N := match t with TProd _ _ => 48 | _ => ex_sz t end.
Definition vec_vec_u8 := TSeq SVec (TSeq SVec u8).
Definition string_vec_u32 := TProd PTuple [TText XString; TSeq SVec u32].

Example C07_ex_constants_tight :
  (F0 1 0 ex_sz (TSeq SVec u8), S1 1 0 ex_sz (TSeq SVec u8)) = (1048576, 5) /\
  (F0 1 0 ex_sz (TSeq SVec u32), S1 1 0 ex_sz (TSeq SVec u32)) = (4096, 16) /\
  (F0 1 0 ex_sz vec_vec_u8, S1 1 0 ex_sz vec_vec_u8) = (1052672, 101) /\
  (F0 1 0 ex_sz (TSeq SVec vec_vec_u8), S1 1 0 ex_sz (TSeq SVec vec_vec_u8)) = (1056768, 197) /\
  (F0 1 0 ex_sz2 (TSeq SVec string_vec_u32), S1 1 0 ex_sz2 (TSeq SVec string_vec_u32)) = (1052672, 208) /\
  (F0 1 0 ex_sz2 (TSeq SHashMap (TProd PTuple [TText XString; TSeq SVec u8])),
   S1 1 0 ex_sz2 (TSeq SHashMap (TProd PTuple [TText XString; TSeq SVec u8]))) = (1052672, 197) /\
  (F0 1 0 ex_sz (TText XBytesMut), S1 1 0 ex_sz (TText XBytesMut)) = (4096, 4) /\
  (* element decodes *)
  (F0 0 1 ex_sz vec_vec_u8, S1 0 1 ex_sz vec_vec_u8) = (1, 1) /\
  (F0 0 1 ex_sz (TSeq SVec (TSeq SVec u32)), S1 0 1 ex_sz (TSeq SVec (TSeq SVec u32))) = (2, 2) /\
  (* success constants *)
  S0 1 0 ex_sz vec_vec_u8 = 0 /\ S0 1 0 ex_sz2 (TSeq SVec string_vec_u32) = 0 /\
  (* the loose constants of the same types, for comparison *)
  (K0 1 0 ex_sz vec_vec_u8, K1 1 0 ex_sz vec_vec_u8) = (2105769, 1052797) /\
  (K0 1 0 ex_sz (TSeq SVec vec_vec_u8), K1 1 0 ex_sz (TSeq SVec vec_vec_u8)) = (3158849, 3158666).
Proof. vm_compute. repeat split; reflexivity. Qed.

(** the hostile input of [C07_ex_vec_vec_u8] (8 bytes, cost 1052656): the tight bound is
    1053480 = cost + 824; the loose bound of [C07_alloc] is 10528145 *)
Example C07_ex_tightness :
  total_requested (snd (dec_cost ex_sz ex_cfg vec_vec_u8 (ffff ++ ffff))) = 1052656 /\
  F0 1 0 ex_sz vec_vec_u8 + S1 1 0 ex_sz vec_vec_u8 * len (ffff ++ ffff) = 1053480 /\
  (1052656 <=? F0 1 0 ex_sz vec_vec_u8 + S1 1 0 ex_sz vec_vec_u8 * 8) = true /\
  (F0 1 0 ex_sz vec_vec_u8 + S1 1 0 ex_sz vec_vec_u8 * 8 <=? 1052656 + 1024) = true /\
  (F0 1 0 ex_sz vec_vec_u8 + S1 1 0 ex_sz vec_vec_u8 * 8 <=? 2 * 1052656 + 65536) = true /\
  K0 1 0 ex_sz vec_vec_u8 + K1 1 0 ex_sz vec_vec_u8 * 8 = 10528145.
Proof. vm_compute. repeat split; reflexivity. Qed.

(** three levels: one outer element, one middle element, then the hostile inner prefix:
    cost 1052680 against a bound of 1056768 + 197 * 12 *)
Example C07_ex_three_levels :
  total_requested (snd (dec_cost ex_sz ex_cfg (TSeq SVec vec_vec_u8) ([x01; x00; x00; x00] ++ ffff ++ ffff))) = 1052680 /\
  F0 1 0 ex_sz (TSeq SVec vec_vec_u8) + S1 1 0 ex_sz (TSeq SVec vec_vec_u8) * 12 = 1059132.
Proof. vm_compute. repeat split; reflexivity. Qed.

(** an accepted input: two inner vectors of 3 and 2 bytes (17 bytes in all) cost
    2 * 24 (outer buffer) + 3 + 2, far below S1 * 17 and without any constant *)
Example C07_ex_success :
  snd (dec_cost ex_sz ex_cfg vec_vec_u8
         ([x02; x00; x00; x00] ++ [x03; x00; x00; x00; x01; x02; x03] ++ [x02; x00; x00; x00; x01; x02])) =
  {| max_request := 48; total_requested := 53; elems := 2; max_explicit := 48; conv_units := 0; conv_bytes := 0 |} /\
  S0 1 0 ex_sz vec_vec_u8 + S1 1 0 ex_sz vec_vec_u8 * 17 = 1717.
Proof. vm_compute. repeat split; reflexivity. Qed.

(** * Conversions (CostConv.v / CostConvMain.v)
    The bounds above count the requests of the code in borsh/src/de: for [HashMap<K,V>],
    [BTreeMap], [BTreeSet], [LinkedList], [Box<T>], [Rc<[T]>], [Bytes] ... that is the
    intermediate [Vec]; the final collection is built by a constructor outside borsh
    ([collect()], [Box::new], [Rc::from], [Bytes::from]), recorded as [EConv n e] (n values
    of e bytes each).  These theorems bound what is handed to those constructors:
    [conv_units] = sum of n, [conv_bytes] = sum of n * e.

    Relative to the element decodes: every unit converted by a collection was decoded as an
    element first.  Not element decodes: the bytes of [Bytes], [BTreeSet<u8>], [Box<[u8]>],
    [Box<str>] (the byte loop decodes no element; they are input bytes: slope CW1) and the
    single value of [Box::new] / [Rc::new] (constant CW0; slope CW1 inside a collection).
    So the statement "conv_units <= elems + C(t)" is FALSE in general ([Bytes] of n bytes:
    conv_units = n, elems = 0; [Vec<Box<Box<u64>>>]: conv_units = 2 * elems); the true one
    has the slope CW1 t per input byte, and CW0 t = CW1 t = 0 - that is conv_units <= elems -
    for every type without these ([HashMap<String, Vec<u8>>], [BTreeSet<u32>], ...).

    What is NOT said: how many bytes the foreign constructor (B-tree nodes, the buckets of a
    hash table, the [Rc] header, list nodes) requests per converted byte.  That factor is
    std's / hashbrown's / indexmap's; it is observed by the allocator measurements of the
    check, which allows 12 * converted bytes + 48 per unit. *)
Theorem C07_conv_units_elems :
  forall (sz : ty -> N) (c : cfg) (t : ty) (bs : bytes),
    sz_ok sz -> fam t = true ->
    conv_units (cost_of (fst (cdec sz c t bs))) <=
    elems (cost_of (fst (cdec sz c t bs))) + CW0 sz t + CW1 sz t * len bs.
Proof. exact cdec_conv_units_elems. Qed.
Print Assumptions C07_conv_units_elems.

(** bytes: an element decode is worth at most CBG t = the largest size_of among the element
    types of the converting collections inside t *)
Theorem C07_conv_bytes_elems :
  forall (sz : ty -> N) (c : cfg) (t : ty) (bs : bytes),
    sz_ok sz -> fam t = true ->
    conv_bytes (cost_of (fst (cdec sz c t bs))) <=
    CBG sz t * elems (cost_of (fst (cdec sz c t bs))) + CBW0 sz t + CBW1 sz t * len bs.
Proof. exact cdec_conv_bytes_elems. Qed.
Print Assumptions C07_conv_bytes_elems.

(** In terms of the input length alone (with [C07_work_tight]):
    CU0 = F0 0 1 + CW0, CU1 = S1 0 1 + CW1;  CB0 = CBG * F0 0 1 + CBW0, CB1 = CBG * S1 0 1 + CBW1. *)
Theorem C07_conv_units :
  forall (sz : ty -> N) (c : cfg) (t : ty) (bs : bytes),
    sz_ok sz -> fam t = true ->
    conv_units (cost_of (fst (cdec sz c t bs))) <= CU0 sz t + CU1 sz t * len bs.
Proof. exact cdec_conv_units. Qed.
Print Assumptions C07_conv_units.

Theorem C07_conv_bytes :
  forall (sz : ty -> N) (c : cfg) (t : ty) (bs : bytes),
    sz_ok sz -> fam t = true ->
    conv_bytes (cost_of (fst (cdec sz c t bs))) <= CB0 sz t + CB1 sz t * len bs.
Proof. exact cdec_conv_bytes. Qed.
Print Assumptions C07_conv_bytes.

(** an accepted input: linear in the bytes CONSUMED *)
Theorem C07_conv_success :
  forall (sz : ty -> N) (c : cfg) (t : ty) (bs : bytes) (v : val) (rest : bytes),
    sz_ok sz -> fam t = true -> snd (cdec sz c t bs) = Ok (v, rest) ->
    (len rest <= len bs /\
     conv_units (cost_of (fst (cdec sz c t bs))) <=
     elems (cost_of (fst (cdec sz c t bs))) + VS0 qu sz t + CW1 sz t * (len bs - len rest)) /\
    (len rest <= len bs /\
     conv_bytes (cost_of (fst (cdec sz c t bs))) <=
     CBG sz t * elems (cost_of (fst (cdec sz c t bs))) + VS0 qb sz t + CBW1 sz t * (len bs - len rest)).
Proof. exact cdec_conv_success. Qed.
Print Assumptions C07_conv_success.

(** the constants; sizes: (u8, u16) 4 bytes, other tuples 48, the rest as [ex_sz] *)
Definition u16 := TPrim (PInt false W2).
Definition u64 := TPrim (PInt false W8).
Definition ex_sz3 (t : ty) : N :=
  match t with
  | TProd _ [TPrim (PInt _ W1); TPrim (PInt _ W2)] => 4
  | TProd _ _ => 48
  | _ => ex_sz t
  end.
Definition hashmap_string_vec_u8 := TSeq SHashMap (TProd PTuple [TText XString; TSeq SVec u8]).
Definition btreeset_u32 := TSeq SBTreeSet u32.
Definition box_u64 := TWrap WBox u64.
Definition linkedlist_u8_u16 := TSeq SList (TProd PTuple [u8; u16]).
Definition conv_consts (t : ty) :=
  ((CW0 ex_sz3 t, CW1 ex_sz3 t), (CU0 ex_sz3 t, CU1 ex_sz3 t),
   (CBG ex_sz3 t, CBW0 ex_sz3 t, CBW1 ex_sz3 t), (CB0 ex_sz3 t, CB1 ex_sz3 t)).

(** ((CW0, CW1), (CU0, CU1), (CBG, CBW0, CBW1), (CB0, CB1)) *)
Example C07_ex_conv_constants :
  conv_consts hashmap_string_vec_u8 = ((0, 0), (1, 1), (48, 0, 0), (48, 48)) /\
  conv_consts btreeset_u32 = ((0, 0), (1, 1), (4, 0, 0), (4, 4)) /\
  conv_consts box_u64 = ((1, 0), (1, 0), (0, 8, 0), (8, 0)) /\
  conv_consts linkedlist_u8_u16 = ((0, 0), (1, 1), (4, 0, 0), (4, 4)) /\
  (* the byte loop decodes no element: slope 1 per input byte *)
  conv_consts (TText XBytes) = ((0, 1), (0, 1), (0, 0, 1), (0, 1)) /\
  conv_consts (TSeq SBTreeSet u8) = ((0, 1), (0, 1), (1, 0, 1), (0, 1)) /\
  conv_consts (TWrap WBox (TText XStr)) = ((0, 1), (0, 1), (0, 0, 1), (0, 1)) /\
  (* Rc<[u32]>: the slice's elements pay *)
  conv_consts (TWrap WRc (TSeq SSlice u32)) = ((0, 0), (1, 1), (4, 0, 0), (4, 4)) /\
  (* Vec<Box<u64>>: one Box::new per element, paid by the element's wire bytes *)
  conv_consts (TSeq SVec box_u64) = ((0, 1), (1, 2), (0, 0, 8), (0, 8)) /\
  conv_consts (TSeq SBTreeSet btreeset_u32) = ((0, 0), (2, 2), (24, 0, 0), (48, 48)) /\
  (* Vec<[Box<u64>; 3]>: a failing decode may have boxed two values of the failing array *)
  conv_consts (TSeq SVec (TArray 3 box_u64)) = ((2, 3), (6, 7), (0, 16, 24), (16, 24)).
Proof. vm_compute. repeat split; reflexivity. Qed.

(** a valid BTreeSet<u32> of 3 elements: conv_units = elems = 3, conv_bytes = 3 * 4 *)
Example C07_ex_conv_btreeset :
  dec_cost ex_sz3 ex_cfg btreeset_u32
    ([x03; x00; x00; x00] ++ [x01; x00; x00; x00] ++ [x02; x00; x00; x00] ++ [x05; x00; x00; x00]) =
  (Ok (VL [VN 1; VN 2; VN 5], []),
   {| max_request := 12; total_requested := 12; elems := 3; max_explicit := 12; conv_units := 3; conv_bytes := 12 |}).
Proof. vm_compute. reflexivity. Qed.

(** [Bytes] of 3 bytes: conv_units = 3 with elems = 0 (why "conv_units <= elems + C" is false);
    Rc<[u32]> of 2 elements: conv_units = elems = 2; HashMap<String, Vec<u8>> with one entry *)
Example C07_ex_conv_more :
  snd (dec_cost ex_sz3 ex_cfg (TText XBytes) ([x03; x00; x00; x00] ++ [x01; x02; x03])) =
  {| max_request := 3; total_requested := 3; elems := 0; max_explicit := 3; conv_units := 3; conv_bytes := 3 |} /\
  snd (dec_cost ex_sz3 ex_cfg (TWrap WRc (TSeq SSlice u32)) ([x02; x00; x00; x00] ++ [x01; x00; x00; x00] ++ [x02; x00; x00; x00])) =
  {| max_request := 8; total_requested := 8; elems := 2; max_explicit := 8; conv_units := 2; conv_bytes := 8 |} /\
  snd (dec_cost ex_sz3 ex_cfg hashmap_string_vec_u8
         ([x01; x00; x00; x00] ++ [x01; x00; x00; x00; x61] ++ [x02; x00; x00; x00; x01; x02])) =
  {| max_request := 48; total_requested := 51; elems := 1; max_explicit := 48; conv_units := 1; conv_bytes := 48 |}.
Proof. vm_compute. repeat split; reflexivity. Qed.
