(** C07  Decoding untrusted bytes is safe: no panic, bounded memory and work.
    Property theorems only; definitions in Cost.v, proofs in CostFacts.v / CostLoops.v /
    CostBasic.v / CostBounds.v / CostMain.v. *)
From Coq Require Import String.
From Coq Require Import List NArith.
From Coq.Strings Require Import Byte.
From Borsh Require Import Bytes Result Ty Ser De Entry Cost CostFacts CostLoops CostBasic CostBounds CostMain.
Import ListNotations.
Local Open Scope N_scope.

(** Erasure: the instrumented decoder returns exactly the result of the slice decoder
    ([sz_ok]: every type that is not memory-zero-sized has 0 < size_of < 2^32). *)
Theorem C07_erasure :
  forall (sz : ty -> N) (c : cfg) (t : ty) (bs : bytes),
    sz_ok sz -> snd (cdec sz c t bs) = dec slice_reader c t bs.
Proof. exact (fun sz c t bs H => cdec_erase sz c H t bs). Qed.
Print Assumptions C07_erasure.

(** No panic, for every type (no well-formedness needed), every byte string: the decoder
    itself ([dec_PS]) and the division inside [hint::cautious]. *)
Theorem C07_no_panic :
  forall (sz : ty -> N) (c : cfg) (t : ty) (bs : bytes) (w : N),
    sz_ok sz -> snd (cdec sz c t bs) <> Panic w.
Proof. exact (fun sz c t bs w H => cdec_no_panic sz c t bs w H). Qed.
Print Assumptions C07_no_panic.

Theorem C07_error_kind :
  forall (sz : ty -> N) (c : cfg) (t : ty) (bs : bytes) (k : kind) (m : msg),
    sz_ok sz -> snd (cdec sz c t bs) = Err k m -> k = InvalidData.
Proof. exact (fun sz c t bs k m H => cdec_err_kind sz c t bs k m H). Qed.
Print Assumptions C07_error_kind.

(** The hypothesis on size_of is needed: at a multiple of 2^32 the cast to u32 gives 0. *)
Theorem C07_hint_div0 : forall k hint : N, cautious (k * U32) hint = Panic P_DIV0.
Proof. exact cautious_div0. Qed.
Print Assumptions C07_hint_div0.

(** [hint::cautious]: at most 4096 bytes worth of elements (one element if a single one is
    larger), never more elements than announced, at least one. *)
Theorem C07_hint :
  forall sz len : N, 0 < sz -> sz < U32 ->
    exists c0, cautious sz len = Ok c0 /\ c0 * sz <= N.max 4096 sz /\ c0 <= N.max len 1 /\ 1 <= c0.
Proof. exact cautious_spec. Qed.
Print Assumptions C07_hint.

(** The byte loop of [u8::vec_from_reader]: in every state reachable from the start of the
    loop on input [s0] with announced length [n], the buffer length is at most
    max (min n 1MiB) (2 * bytes consumed so far); [pos] is the number of bytes consumed. *)
Theorem C07_bulk :
  forall (n : N) (s0 : bytes) (buf pos : N) (acc : list bytes) (s : bytes),
    bulk_reach n s0 (buf, pos, acc, s) ->
    buf <= N.max (N.min n CHUNK) (2 * pos) /\ pos + len s = len s0 /\ pos <= buf.
Proof. exact bulk_buffer_bound. Qed.
Print Assumptions C07_bulk.

(** ... and its requests: a bare length prefix costs one request of at most 1 MiB; every
    request is at most max (min n 1MiB) (2 * consumed); all requests together at most
    min n 1MiB + 4 * consumed. *)
Theorem C07_bulk_requests :
  forall (n : N) (s0 : bytes), 0 < n ->
    exists pos, pos <= n /\ pos <= len s0 /\
      sum_of ev_alloc (fst (cbulk n s0)) <= N.min n CHUNK + 4 * pos /\
      sum_of ev_elem (fst (cbulk n s0)) = 0 /\
      Forall (alloc_le (N.max (N.min n CHUNK) (2 * pos))) (fst (cbulk n s0)).
Proof. exact cbulk_cost. Qed.
Print Assumptions C07_bulk_requests.

(** * The family: [fam t] (Cost.v) -- every collection inside [t] either is refused by
    check_zst or has elements with at least one wire byte ([wire_pos]).  Constants, by
    recursion on the type (CostMain.v), with e = size_of of the element type:
      B0 (Vec<T>) = B0 T + 2^20 + 4096 + 9e      B1 (Vec<T>) = B1 T + 2e + 2
      K0 a b (Vec<T>) = a*(2^20 + 4096 + e) + K0 T + b + 16ae
      K1 a b (Vec<T>) = K0 T + b + K1 T + 4ae + 4a
      String/Bytes/BytesMut: as Vec with e = 1 and T = u8 (K0 T = K1 T = B0 T = B1 T = 0)
      [T; n]: K0 = n * (K0 T + b), the rest as T;  tuples/structs/enums: sums;  wrappers: as T.
    (a, b) = (1, 0) gives bytes requested, (0, 1) gives element decodes. *)

(** No single request exceeds a constant plus a multiple of the input length, whatever the
    length prefixes say ("a length prefix alone never causes a proportional allocation"):
    for Vec<u8> / String the bound is 2^20 + 4113 + 4 * |input|. *)
Theorem C07_prefix_alone :
  forall (sz : ty -> N) (c : cfg) (t : ty) (bs : bytes),
    sz_ok sz -> fam t = true ->
    max_request (cost_of (fst (cdec sz c t bs))) <= B0 sz t + B1 sz t * len bs.
Proof. exact cdec_max_request. Qed.
Print Assumptions C07_prefix_alone.

(** Work: the number of element decodes started is linear in the input length. *)
Theorem C07_work :
  forall (sz : ty -> N) (c : cfg) (t : ty) (bs : bytes),
    sz_ok sz -> fam t = true ->
    elems (cost_of (fst (cdec sz c t bs))) <= K0 0 1 sz t + K1 0 1 sz t * len bs.
Proof. exact cdec_work. Qed.
Print Assumptions C07_work.

(** Allocation: the total of all requests (hence the peak of live modelled bytes) is linear
    in the input length. *)
Theorem C07_alloc :
  forall (sz : ty -> N) (c : cfg) (t : ty) (bs : bytes),
    sz_ok sz -> fam t = true ->
    total_requested (cost_of (fst (cdec sz c t bs))) <= K0 1 0 sz t + K1 1 0 sz t * len bs.
Proof. exact cdec_alloc. Qed.
Print Assumptions C07_alloc.

(** On success the cost is linear in the bytes CONSUMED, and a type with wire_min >= 1 consumes. *)
Theorem C07_consumed :
  forall (sz : ty -> N) (c : cfg) (t : ty) (bs : bytes) (v : val) (rest : bytes),
    sz_ok sz -> fam t = true -> snd (cdec sz c t bs) = Ok (v, rest) ->
    len rest <= len bs /\
    total_requested (cost_of (fst (cdec sz c t bs))) + K1 1 0 sz t * len rest <= K0 1 0 sz t + K1 1 0 sz t * len bs /\
    elems (cost_of (fst (cdec sz c t bs))) + K1 0 1 sz t * len rest <= K0 0 1 sz t + K1 0 1 sz t * len bs /\
    (wire_pos t = true -> len rest < len bs).
Proof. exact cdec_alloc_consumed. Qed.
Print Assumptions C07_consumed.

(** * Examples (vm_compute): the adversarial prefix ff ff ff ff *)
Definition ex_sz (t : ty) : N :=
  match t with
  | TPrim (PInt _ W1) => 1 | TPrim (PInt _ W4) => 4
  | TSeq _ _ | TText _ => 24
  | _ => 8
  end.
Definition ex_cfg : cfg := {| strict := true |}.
Definition ffff : bytes := [xff; xff; xff; xff].
Definition u8 := TPrim (PInt false W1).
Definition u32 := TPrim (PInt false W4).

Example C07_ex_vec_u8 :
  dec_cost ex_sz ex_cfg (TSeq SVec u8) ffff =
  (Err InvalidData MUnexpectedLength,
   {| max_request := 1048576; total_requested := 1048576; elems := 0; max_explicit := 1048576; conv_units := 0; conv_bytes := 0 |}).
Proof. vm_compute. reflexivity. Qed.

Example C07_ex_vec_u32 :
  dec_cost ex_sz ex_cfg (TSeq SVec u32) ffff =
  (Err InvalidData MUnexpectedLength,
   {| max_request := 4096; total_requested := 4096; elems := 1; max_explicit := 4096; conv_units := 0; conv_bytes := 0 |}).
Proof. vm_compute. reflexivity. Qed.

Example C07_ex_string :
  dec_cost ex_sz ex_cfg (TText XString) ffff =
  (Err InvalidData MUnexpectedLength,
   {| max_request := 1048576; total_requested := 1048576; elems := 0; max_explicit := 1048576; conv_units := 0; conv_bytes := 0 |}).
Proof. vm_compute. reflexivity. Qed.

(** outer Vec: 170 * 24 = 4080 bytes (cautious), first inner Vec<u8>: 1 MiB, then failure *)
Example C07_ex_vec_vec_u8 :
  dec_cost ex_sz ex_cfg (TSeq SVec (TSeq SVec u8)) (ffff ++ ffff) =
  (Err InvalidData MUnexpectedLength,
   {| max_request := 1048576; total_requested := 1052656; elems := 1; max_explicit := 1048576; conv_units := 0; conv_bytes := 0 |}).
Proof. vm_compute. reflexivity. Qed.

(** growth by doubling from the cautious capacity: 5 u32 announced as 5 -> one request of 20 bytes;
    BytesMut announced 9 bytes -> one request of 9 bytes *)
Example C07_ex_exact_capacity :
  snd (dec_cost ex_sz ex_cfg (TSeq SVec u32)
         ([x05; x00; x00; x00] ++ concat (repeat [x01; x00; x00; x00] 5))) =
  {| max_request := 20; total_requested := 20; elems := 5; max_explicit := 20; conv_units := 0; conv_bytes := 0 |}.
Proof. vm_compute. reflexivity. Qed.

(** a size_of of 2^32 makes the transcribed cautious divide by zero: the hypothesis [sz_ok] is not vacuous *)
Example C07_ex_div0 :
  fst (dec_cost (fun _ => 2 ^ 32) ex_cfg (TSeq SVec u32) ffff) = Panic P_DIV0.
Proof. vm_compute. reflexivity. Qed.

(** out of the family: Vec<RefCell<()>> is not refused by check_zst and its elements take no
    wire bytes: a 4-byte input announcing 1000 elements decodes 1000 elements *)
Example C07_ex_out_of_family :
  fam (TSeq SVec (TWrap WRefCell (TUnit UUnit))) = false /\
  elems (snd (dec_cost (fun _ => 8) ex_cfg (TSeq SVec (TWrap WRefCell (TUnit UUnit))) [xe8; x03; x00; x00])) = 1000.
Proof. split; vm_compute; reflexivity. Qed.

(** the constants for some types (element sizes as in [ex_sz]) *)
Example C07_ex_constants :
  (B0 ex_sz (TSeq SVec u8), B1 ex_sz (TSeq SVec u8)) = (1052681, 4) /\
  (B0 ex_sz (TSeq SVec u32), B1 ex_sz (TSeq SVec u32)) = (1052708, 10) /\
  (K0 1 0 ex_sz (TSeq SVec u32), K1 1 0 ex_sz (TSeq SVec u32)) = (1052740, 20) /\
  (K0 0 1 ex_sz (TSeq SVec u32), K1 0 1 ex_sz (TSeq SVec u32)) = (1, 1) /\
  (K0 0 1 ex_sz (TSeq SVec (TSeq SVec u32)), K1 0 1 ex_sz (TSeq SVec (TSeq SVec u32))) = (2, 3) /\
  (K0 1 0 ex_sz (TSeq SVec (TSeq SVec u8)), K1 1 0 ex_sz (TSeq SVec (TSeq SVec u8))) = (2105769, 1052797).
Proof. vm_compute. repeat split; reflexivity. Qed.
