(** C09  max_serialized_size is a sound and exact upper bound.
    Property theorems only; proofs live in SchemaProofsUnb.v (what the unbounded maximum
    means), SchemaProofsMax.v (the transcription refines it), SchemaProofsC09.v.
    [max_size] is the transcription in SchemaFns.v of
    borsh/src/schema/container_ext/max_size.rs with [usize] = 64 bits; [max_size_at ub] is the
    same code with a [ub]-bit [usize]; [max_size c = max_size_at 64 c] by definition.
    [sizes], [Reach], [OnCycle], [Inhabited], [max_unbounded] are specifications (SchemaSpec.v).
    [sizes] is tied to actual byte strings in SchemaSizes.v: [C09_sdec_sizes] (what the
    container-driven decoder [sdec] consumes is one of the [sizes]) and [C09_bounds_encodings]
    (for a Rust type, every encoding of every value is within the reported maximum).

    Hypothesis [ranges_fit 64 c] (only on the statements that compare with the unbounded
    maximum: refinement, precision of [Overflow]): every [*length_range.end()] is
    below 2^64, i.e. is a [u64]; this holds of every Rust [BorshSchemaContainer].  It makes
    [usize::try_from(max_len)] succeed, so the [is_zero_size_impl] shortcut of
    max_size.rs:120-121 is dead code on a 64-bit target.  For a narrower [usize] the shortcut
    is live; totality, soundness, exactness and the structural error conditions are proved for it too
    ([..._any_usize]), but the refinement statement is then FALSE of the code: see
    [C09_refines_refuted_32bit] at the end. *)
From Coq Require Import String List NArith ZArith.
From Borsh Require Import Schema SchemaFns SchemaSpec SchemaProofsBase SchemaProofsC09 SchemaProofsMaxDirect SchemaProofsExamples.
From Borsh Require Import Bytes Result Ty Ser C04Facts SchemaOf SchemaDec SchemaOfCover SchemaOfDecode SchemaSizes.
Import ListNotations.
Local Open Scope N_scope.

(** No panic, and the model's fuel is never exhausted: for every container, including
    field values outside the machine ranges. *)
Theorem C09_no_panic : forall c, max_size c <> SFuel /\ max_size c <> SPanic.
Proof. exact (c09_total_any 64). Qed.
Print Assumptions C09_no_panic.

(** The reported value is the unbounded maximum (sum over members, largest variant plus tag,
    largest count times element size plus length prefix, at every nesting level) when that is
    below 2^64, and [Overflow] otherwise: an intermediate overflow implies a final one. *)
Theorem C09_refines : forall c, ranges_fit 64 c -> forall n,
  max_unbounded c = SOk n -> max_size c = if n <? 2 ^ 64 then SOk n else SErr Overflow.
Proof. exact (c09_refines_at 64). Qed.
Print Assumptions C09_refines.

(** When the unbounded traversal meets a cycle or an undefined declaration, the code reports
    that same error, or an [Overflow] met earlier in declaration order. *)
Theorem C09_refines_err : forall c, ranges_fit 64 c -> forall e,
  max_unbounded c = SErr e -> max_size c = SErr e \/ max_size c = SErr Overflow.
Proof. exact (c09_refines_err_at 64). Qed.
Print Assumptions C09_refines_err.

(** Conversely a reported maximum is the unbounded maximum. *)
Theorem C09_ok_is_unbounded : forall c, ranges_fit 64 c -> forall m,
  max_size c = SOk m -> max_unbounded c = SOk m /\ m < 2 ^ 64.
Proof. exact (c09_ok_unbounded_at 64). Qed.
Print Assumptions C09_ok_is_unbounded.

(** Soundness: no described value is longer than the reported maximum (no hypothesis). *)
Theorem C09_sound : forall c m,
  max_size c = SOk m -> forall n, sizes c (root c) n -> n <= m.
Proof. exact (c09_sound_any 64). Qed.
Print Assumptions C09_sound.

(** The yardstick [sizes] measures real byte strings.  Whatever the decoder that is driven by the
    container alone ([sdec], SchemaDec.v: C08) accepts as a value of declaration [d], from any
    input, with any fuel, for ANY container: it consumed a prefix of the input, and the number
    of bytes consumed is one of [sizes c d].  With [C09_sound]: nothing [sdec] reads as a value
    of the root declaration is longer than the reported maximum. *)
Theorem C09_sdec_sizes : forall c d fuel bs sv rest,
  sdec c d fuel bs = Some (sv, rest) -> len rest <= len bs /\ sizes c d (len bs - len rest).
Proof. exact sdec_sizes. Qed.
Print Assumptions C09_sdec_sizes.

Theorem C09_sdec_prefix_sizes : forall c d fuel bs sv rest,
  sdec c d fuel bs = Some (sv, rest) -> exists pre, bs = (pre ++ rest)%list /\ sizes c d (len pre).
Proof. exact sdec_prefix_sizes. Qed.
Print Assumptions C09_sdec_prefix_sizes.

(** "For Rust types, all values": when [max_serialized_size] of the container of a type reports
    [m], the encoding of EVERY value of the type is at most [m] bytes long.  Hypotheses: those
    of C08_decodes_partial ([wf], [has_schema], typed defaults of skipped fields [dflt_ok], name
    coherence [coherent]: without coherence the container may describe another layout than the
    type's, finding F13 / C08_decodes_refuted).  [enc t v = Ok bs]: the encoder did not refuse
    the value (C02_refuses). *)
Theorem C09_bounds_encodings : forall t v c m bs,
  wf t = true -> dflt_ok t = true -> has_schema t = true -> coherent t = true ->
  schema_of t = Ok c -> max_size c = SOk m -> has_ty t v = true -> enc t v = Ok bs ->
  len bs <= m.
Proof. exact max_size_bounds_enc. Qed.
Print Assumptions C09_bounds_encodings.

(** ... because the length of every encoding is one of the root declaration's [sizes] *)
Theorem C09_encodings_are_sizes : forall t v c bs,
  wf t = true -> dflt_ok t = true -> has_schema t = true -> coherent t = true ->
  schema_of t = Ok c -> has_ty t v = true -> enc t v = Ok bs ->
  sizes c (root c) (len bs).
Proof. exact enc_len_sizes. Qed.
Print Assumptions C09_encodings_are_sizes.

(** Exactness: when every reachable declaration describes at least one value, some value
    has exactly the reported size (no hypothesis on the field ranges). *)
Theorem C09_exact : forall c m,
  max_size c = SOk m -> (forall d, Reach c (root c) d -> Inhabited c d) -> sizes c (root c) m.
Proof. exact (c09_exact_any 64). Qed.
Print Assumptions C09_exact.

(** Error conditions: [Recursive] only if a reachable declaration lies on a cycle;
    [MissingDefinition d] only if [d] is reachable and undefined; [Overflow] only if the
    unbounded maximum (when it exists) is at least 2^64; and none of the three when the
    unbounded maximum exists and is below 2^64. *)
Theorem C09_errors : forall c, ranges_fit 64 c ->
  (max_size c = SErr MRecursive -> exists x, Reach c (root c) x /\ OnCycle c x) /\
  (forall d, max_size c = SErr (MMissingDefinition d) -> Reach c (root c) d /\ get_definition c d = None) /\
  (max_size c = SErr Overflow -> forall n, max_unbounded c = SOk n -> 2 ^ 64 <= n) /\
  (forall n, max_unbounded c = SOk n -> n < 2 ^ 64 -> max_size c = SOk n).
Proof. exact (c09_errors_at 64). Qed.
Print Assumptions C09_errors.

(** The yardstick itself, independent of the code and of any hypothesis: the unbounded maximum
    bounds every described value, is attained when everything reachable is inhabited, and fails
    only with [Recursive] at a reachable cycle or [MissingDefinition] at a reachable undefined
    declaration (it is total and never reports [Overflow]). *)
Theorem C09_unbounded_meaning : forall c n,
  max_unbounded c = SOk n ->
  (forall k, sizes c (root c) k -> k <= n) /\
  ((forall d, Reach c (root c) d -> Inhabited c d) -> sizes c (root c) n).
Proof. exact c09_unbounded_meaning. Qed.
Print Assumptions C09_unbounded_meaning.

Theorem C09_unbounded_errors : forall c,
  max_unbounded c <> SFuel /\ max_unbounded c <> SPanic /\ max_unbounded c <> SErr Overflow /\
  (max_unbounded c = SErr MRecursive -> exists x, Reach c (root c) x /\ OnCycle c x) /\
  (forall d, max_unbounded c = SErr (MMissingDefinition d) -> Reach c (root c) d /\ get_definition c d = None).
Proof. exact c09_unbounded_errors. Qed.
Print Assumptions C09_unbounded_errors.

(** [Recursive] and [MissingDefinition] are never reported without cause (no hypothesis). *)
Theorem C09_errors_structural : forall c,
  (max_size c = SErr MRecursive -> exists x, Reach c (root c) x /\ OnCycle c x) /\
  (forall d, max_size c = SErr (MMissingDefinition d) -> Reach c (root c) d /\ get_definition c d = None).
Proof. exact (fun c => conj (c09_recursive_any 64 c) (c09_missing_any 64 c)). Qed.
Print Assumptions C09_errors_structural.

(** The same for a [usize] of any width [ub] (e.g. 32): totality, soundness, exactness and the
    structural error conditions hold for every container, INCLUDING sequences whose largest length does
    not fit [usize], where the code falls back on [is_zero_size_impl]; the refinement needs
    [ranges_fit ub c] (and is false without it, see the end of this file). *)
Theorem C09_no_panic_any_usize : forall ub c, max_size_at ub c <> SFuel /\ max_size_at ub c <> SPanic.
Proof. exact c09_total_any. Qed.
Print Assumptions C09_no_panic_any_usize.

Theorem C09_sound_any_usize : forall ub c m,
  max_size_at ub c = SOk m -> forall n, sizes c (root c) n -> n <= m.
Proof. exact c09_sound_any. Qed.
Print Assumptions C09_sound_any_usize.

Theorem C09_exact_any_usize : forall ub c m,
  max_size_at ub c = SOk m -> (forall d, Reach c (root c) d -> Inhabited c d) -> sizes c (root c) m.
Proof. exact c09_exact_any. Qed.
Print Assumptions C09_exact_any_usize.

Theorem C09_errors_structural_any_usize : forall ub c,
  (max_size_at ub c = SErr MRecursive -> exists x, Reach c (root c) x /\ OnCycle c x) /\
  (forall d, max_size_at ub c = SErr (MMissingDefinition d) -> Reach c (root c) d /\ get_definition c d = None).
Proof. exact (fun ub c => conj (c09_recursive_any ub c) (c09_missing_any ub c)). Qed.
Print Assumptions C09_errors_structural_any_usize.

Theorem C09_refines_any_usize : forall ub c, ranges_fit ub c -> forall n,
  max_unbounded c = SOk n -> max_size_at ub c = if n <? 2 ^ ub then SOk n else SErr Overflow.
Proof. exact c09_refines_at. Qed.
Print Assumptions C09_refines_any_usize.

(** * Non-vacuity *)
Local Open Scope string_scope.

(** [ex_arr] ([[Option<u8>; 10]] together with a short vector of it, in a struct) and the proof
    that each of its six declarations is inhabited are in SchemaProofsExamples.v. *)
Example C09_nonvacuous :
  ranges_fit 64 ex_arr /\ max_unbounded ex_arr = SOk 27 /\ max_size ex_arr = SOk 27 /\
  (forall n, sizes ex_arr (root ex_arr) n -> n <= 27) /\ sizes ex_arr (root ex_arr) 27.
Proof.
  assert (Hfit : ranges_fit 64 ex_arr) by (apply ranges_fit_b_sound; vm_compute; reflexivity).
  assert (Hm : max_size ex_arr = SOk 27) by (vm_compute; reflexivity).
  split; [exact Hfit|]. split; [vm_compute; reflexivity|]. split; [exact Hm|].
  split; [apply (C09_sound _ _ Hm) | apply (C09_exact _ _ Hm), ex_arr_inhabited].
Qed.

(** [C09_bounds_encodings] on a Rust type: the struct
      struct P { a: [Option<u16>; 3], #[borsh(skip)] b: u32, c: Result<bool, (u64, E)> }   enum E { A, B(u8, i16) }
    meets the hypotheses ([b] is not on the wire), its container reports 22 = 3*(1+2) + 1 + (8 + 1 + (1+2)),
    one value attains it, another takes 5 bytes, and every value's encoding is within it. *)
Definition ex_p : ty :=
  TProd (PStruct "P" ["a"; "b"; "c"] [false; true; false])
    [TArray 3 (TSum KOption [TProd (PVariant [] []) []; TPrim (PInt false W2)]);
     TPrim (PInt false W4);
     TSum KResult [TPrim PBool;
                   TProd PTuple [TPrim (PInt false W8);
                                 TSum (KEnum "E" ["A"; "B"] [0; 1])
                                   [TProd (PVariant [] []) [];
                                    TProd (PVariant [] [false; false]) [TPrim (PInt false W1); TPrim (PInt true W2)]]]]].
Definition ex_pv : val :=
  VL [VL [VV 1 (VN 513); VV 1 (VN 0); VV 1 (VN 65535)]; VN 7; VV 1 (VL [VN 1234567890123; VV 1 (VL [VN 9; VN 65535])])].
Definition ex_pv_small : val :=
  VL [VL [VV 0 (VL []); VV 0 (VL []); VV 0 (VL [])]; VN 7; VV 0 (VN 1)].

Example C09_bounds_encodings_instance :
  wf ex_p = true /\ dflt_ok ex_p = true /\ has_schema ex_p = true /\ coherent ex_p = true /\
  has_ty ex_p ex_pv = true /\ has_ty ex_p ex_pv_small = true /\
  exists c, schema_of ex_p = Ok c /\ max_size c = SOk 22 /\
    (exists bs, enc ex_p ex_pv = Ok bs /\ len bs = 22) /\
    (exists bs, enc ex_p ex_pv_small = Ok bs /\ len bs = 5) /\
    (forall v bs, has_ty ex_p v = true -> enc ex_p v = Ok bs -> len bs <= 22).
Proof.
  assert (Hw : wf ex_p = true) by reflexivity.
  assert (Hd : dflt_ok ex_p = true) by reflexivity.
  assert (Hs : has_schema ex_p = true) by reflexivity.
  assert (Hc : coherent ex_p = true) by (vm_compute; reflexivity).
  split; [exact Hw|]. split; [exact Hd|]. split; [exact Hs|]. split; [exact Hc|].
  split; [vm_compute; reflexivity|]. split; [vm_compute; reflexivity|].
  destruct (schema_of ex_p) as [c| |] eqn:Ec; try (vm_compute in Ec; discriminate Ec).
  exists c. split; [reflexivity|].
  assert (Hm : max_size c = SOk 22) by (vm_compute in Ec; injection Ec as <-; vm_compute; reflexivity).
  split; [exact Hm|].
  split; [eexists; split; vm_compute; reflexivity|].
  split; [eexists; split; vm_compute; reflexivity|].
  intros v bs Hty Henc. exact (C09_bounds_encodings ex_p v c 22 bs Hw Hd Hs Hc Ec Hm Hty Henc).
Qed.

(** [Vec<Vec<u8>>] overflows, [struct R(Option<Box<R>>)] is recursive, a dangling name is missing. *)
Definition ex_vv : container :=
  {| root := "VV"; defs := [("VV", Sequence 4 0 4294967295 "V"); ("V", Sequence 4 0 4294967295 "u8");
                            ("u8", Primitive 1)] |}.
Definition ex_r : container :=
  {| root := "R"; defs := [("R", Struct (UnnamedFields ["O"]));
                           ("O", Enum 1 [(0%Z, "None", "()"); (1%Z, "Some", "R")]); ("()", Tuple [])] |}.
Definition ex_m : container :=
  {| root := "T"; defs := [("T", Tuple ["u8"; "gone"]); ("u8", Primitive 1)] |}.

Example C09_nonvacuous_errors :
  ranges_fit 64 ex_vv /\ max_size ex_vv = SErr Overflow /\
  max_unbounded ex_vv = SOk 18446744082299486209 /\
  max_size ex_r = SErr MRecursive /\ (exists x, Reach ex_r (root ex_r) x /\ OnCycle ex_r x) /\
  max_size ex_m = SErr (MMissingDefinition "gone") /\ Reach ex_m (root ex_m) "gone".
Proof.
  assert (Hfit : ranges_fit 64 ex_vv) by (apply ranges_fit_b_sound; vm_compute; reflexivity).
  assert (Hfr : ranges_fit 64 ex_r) by (apply ranges_fit_b_sound; vm_compute; reflexivity).
  assert (Hfm : ranges_fit 64 ex_m) by (apply ranges_fit_b_sound; vm_compute; reflexivity).
  split; [exact Hfit|]. split; [vm_compute; reflexivity|]. split; [vm_compute; reflexivity|].
  assert (Hr : max_size ex_r = SErr MRecursive) by (vm_compute; reflexivity).
  split; [exact Hr|]. split; [apply (proj1 (C09_errors _ Hfr) Hr)|].
  assert (Hm : max_size ex_m = SErr (MMissingDefinition "gone")) by (vm_compute; reflexivity).
  split; [exact Hm|]. apply (proj1 (proj2 (C09_errors _ Hfm)) _ Hm).
Qed.

(** * A statement that is FALSE of the code for a narrower [usize]
    Without [ranges_fit] the refinement fails: with a 32-bit [usize], a sequence whose largest
    length does not fit and whose elements have an empty length range [3..=0] is reported as
    [Overflow] by the [is_zero_size_impl] shortcut, although the maximum the schema implies is 0.
    (Not observable on x86_64, where the shortcut is dead code; the container is rejected by
    [validate] with [EmptyLengthRange].) *)
Definition ex_32 : container :=
  {| root := "X"; defs := [("X", Sequence 0 0 18446744073709551615 "E"); ("E", Sequence 0 3 0 "u8");
                           ("u8", Primitive 1)] |}.
Theorem C09_refines_refuted_32bit :
  exists c n, max_unbounded c = SOk n /\ n < 2 ^ 32 /\ max_size_at 32 c = SErr Overflow /\ max_size c = SOk n.
Proof. exists ex_32, 0. vm_compute. repeat split; reflexivity. Qed.
Print Assumptions C09_refines_refuted_32bit.
