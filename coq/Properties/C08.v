(** C08  A type's schema is a correct, self-contained description of its wire format.
    Property theorems only; proofs live in SchemaOfFacts.v.

    Proved here: [C08_widths], [C08_closed] (with the provenance of every definition),
    [C08_decodes_refuted] (the full-strength decoding statement is FALSE of the faithful model,
    and of the implementation: known finding F13), and computed instances of the decoding and
    validation statements on nested types; and, for NAME-COHERENT types ([coherent t]: in the
    full unfolding [calls t] of the type a declaration string is paired with one definition only --
    decidable, and exactly what [add_definition]'s [assert_eq!] is meant to enforce),
    [C08_decodes_partial], [C08_validates], [C10_rust], [C14_agree]. *)
From Coq Require Import String List NArith ZArith.
From Borsh Require Import Discr Item DeriveCheck DeriveSchemaAccept.
From Borsh Require Import Bytes Result Ty Ser De C04Facts Schema SchemaFns SchemaSpec SchemaOf SchemaDec SchemaOfFacts
     SchemaOfCover SchemaOfDecode SchemaOfValidate SchemaOfFits.
Import ListNotations.
Local Open Scope N_scope.
Local Open Scope string_scope.

(** Every primitive's schema size (the [$size] column of [impl_for_primitives!] /
    [impl_for_renamed_primitives!], transcribed entry by entry) is its width on the wire. *)
Theorem C08_widths : forall p, prim_schema_width p = N.of_nat (prim_width p).
Proof. exact prim_widths_agree. Qed.
Print Assumptions C08_widths.

(** For every type with a [BorshSchema] impl: if [for_type] does not panic, the root declaration is
    defined, every declaration mentioned by a definition of the container is defined in it, and
    every definition of the container is one that some impl reachable from the type passes to
    [add_definition] ([calls t]: nothing else gets in, nothing is altered). *)
Theorem C08_closed :
  forall t c, has_schema t = true -> schema_of t = Ok c ->
    lookup (defs c) (root c) <> None /\
    (forall d def, lookup (defs c) d = Some def -> forall m, In m (members def) -> lookup (defs c) m <> None) /\
    (forall d def, lookup (defs c) d = Some def -> In (d, def) (calls t)).
Proof. exact schema_of_closed. Qed.
Print Assumptions C08_closed.

(** [defs_of] only adds definitions and never changes an existing one. *)
Theorem C08_monotone :
  forall t a b, has_schema t = true -> defs_of t a = Ok b ->
    forall d def, lookup a d = Some def -> lookup b d = Some def.
Proof. intros t a b Hs H. exact (proj1 (proj1 (defs_of_good t Hs a b H))). Qed.
Print Assumptions C08_monotone.

(** * The full-strength decoding statement is false (F13)
    [C08_decodes] as designed:
      wf t -> has_schema t -> schema_of t = Ok c -> has_ty t v -> enc t v = Ok bs ->
      exists fuel, sdec c (decl_of t) fuel bs = Some (erase t (logical t v), []).
    Witness: the pair of two structs both called [S], each with one field of a struct called [X],
    where the first [X] holds a [u8] and the second a [u16] (two modules).  The second [S] finds its
    declaration present with an equal definition ([{ f: "X" }]), so the derive's
    [no_recursion_flag] skips its field types: the conflicting [X] never reaches the [assert_eq!]
    of [add_definition], [for_type] does not panic, and the container describes the second [S]
    with the first [X]'s layout. *)
Definition sx (w : width) : ty :=
  TProd (PStruct "S" ["f"] [false]) [TProd (PStruct "X" ["a"] [false]) [TPrim (PInt false w)]].
Definition refute_t : ty := TProd PTuple [sx W1; sx W2].
Definition refute_v : val := VL [VL [VL [VN 1]]; VL [VL [VN 515]]].

Theorem C08_decodes_refuted :
  exists t v c bs,
    wf t = true /\ has_schema t = true /\ schema_of t = Ok c /\ has_ty t v = true /\ enc t v = Ok bs /\
    forall fuel, sdec c (decl_of t) fuel bs <> Some (erase t (logical t v), []).
Proof.
  exists refute_t, refute_v. eexists. eexists.
  split; [reflexivity|]. split; [reflexivity|]. split; [vm_compute; reflexivity|].
  split; [reflexivity|]. split; [vm_compute; reflexivity|].
  intros [|[|[|[|fuel]]]]; vm_compute; discriminate.
Qed.
Print Assumptions C08_decodes_refuted.

(** the conflict that IS caught: the two [X] side by side *)
Example C08_conflict_panics :
  schema_of (TProd PTuple [TProd (PStruct "X" ["a"] [false]) [TPrim (PInt false W1)];
                           TProd (PStruct "X" ["a"] [false]) [TPrim (PInt false W2)]]) = Panic P_REDEFINE.
Proof. vm_compute. reflexivity. Qed.

(** * Computed instances on nested types: a derived enum with explicit discriminants, a struct with
    a skipped field, options, maps, arrays, ip addresses. *)
Definition ex_u8 : ty := TPrim (PInt false W1).
Definition ex_none : ty := TProd (PVariant [] []) [].
Definition ex_enum : ty :=
  TSum (KEnum "E" ["A"; "B"; "C"] [5; 9; 200])
    [TProd (PVariant [] []) [];
     TProd (PVariant ["x"; "y"] [false; true]) [TSeq SVec ex_u8; TPrim (PInt false W4)];
     TProd (PVariant [] [false; false]) [TPrim (PInt true W2); TText XString]].
Definition ex_struct : ty :=
  TProd (PStruct "S" ["a"; "b"; "c"] [false; true; false])
    [TSum KOption [ex_none; ex_enum]; ex_u8;
     TSeq SHashMap (TProd PTuple [TText XString; TArray 2 (TSum KIpAddr [TRaw RIpv4; TRaw RIpv6])])].
Definition ex_val : val :=
  VL [VV 1 (VV 1 (VL [VL [VN 3; VN 4]; VN 77])); VN 9;
      VL [VL [VL [VN 98]; VL [VV 0 (VL [VN 127; VN 0; VN 0; VN 1]); VV 1 (VL (repeat (VN 0) 15 ++ [VN 1])%list)]];
          VL [VL [VN 97]; VL [VV 0 (VL [VN 10; VN 0; VN 0; VN 2]); VV 0 (VL [VN 10; VN 0; VN 0; VN 3])]]]].

Example C08_decodes_instance :
  wf ex_struct = true /\ has_schema ex_struct = true /\ has_ty ex_struct ex_val = true /\
  exists c bs, schema_of ex_struct = Ok c /\ enc ex_struct ex_val = Ok bs /\ len bs = 54 /\

    sdec c (decl_of ex_struct) 12 bs = Some (erase ex_struct (logical ex_struct ex_val), []) /\
    validate c = SOk tt /\
    lookup (defs c) "E" = Some (Enum 1 [(5%Z, "A", "EA"); (9%Z, "B", "EB"); (200%Z, "C", "EC")]) /\
    lookup (defs c) "EB" = Some (Struct (NamedFields [("x", "Vec<u8>")])) /\
    lookup (defs c) "S" = Some (Struct (NamedFields [("a", "Option<E>"); ("c", "HashMap<String, [IpAddr; 2]>")])).
Proof.
  split; [reflexivity|]. split; [reflexivity|]. split; [vm_compute; reflexivity|].
  eexists. eexists. split; [vm_compute; reflexivity|]. split; [vm_compute; reflexivity|].
  repeat split; vm_compute; reflexivity.
Qed.

(** [C08_validates] / [C14_agree], instances: a sequence whose elements are empty in memory and
    on the wire fails validation with [ZSTSequence]; one whose elements occupy the wire passes. *)
Example C14_agree_instances :
  let zst := TProd PTuple [TArray 0 ex_u8; TArray 0 ex_u8; TUnit UUnit] in
  mem_zst zst = true /\
  (exists c, schema_of (TSeq SVec zst) = Ok c /\ validate c = SErr (ZSTSequence "Vec<([u8; 0], [u8; 0], ())>")) /\
  (exists c, schema_of (TSeq SVec (TArray 3 (TUnit UUnit))) = Ok c /\ validate c = SErr (ZSTSequence "Vec<[(); 3]>")) /\
  (exists c, schema_of (TSeq SBTreeSet (TSum KOption [ex_none; TUnit UUnit])) = Ok c /\ validate c = SOk tt) /\
  (exists c, schema_of (TProd PTuple [ex_u8; TSeq SVec (TSeq SVec (TUnit UPhantom))]) = Ok c /\
             validate c = SErr (ZSTSequence "Vec<()>")).
Proof.
  cbv zeta. split; [reflexivity|].
  repeat split; eexists; (split; [vm_compute; reflexivity|vm_compute; reflexivity]).
Qed.

(** * Name-coherent types
    [coherent t = true]: no declaration string stands for two different definitions anywhere in the
    unfolding of [t].  Without it the statements below are false ([C08_decodes_refuted]); the
    implementation's [assert_eq!] enforces it only one level deep (F13). *)

(** Under coherence the container holds every definition the type's impls register. *)
Theorem C08_covers :
  forall t c, has_schema t = true -> coherent t = true -> schema_of t = Ok c ->
    forall d def, In (d, def) (calls t) -> lookup (defs c) d = Some def.
Proof. exact schema_of_covers. Qed.
Print Assumptions C08_covers.

(** [C08_decodes] (full statement: the same without [coherent t = true] and [dflt_ok t = true];
    refuted above).  [dflt_ok t]: the [Default] of every skipped field is a value of the field's
    type (true of every Rust type; decidable; the hypothesis C04's [dec_typed] needs).
    Decoding the bytes of any value with nothing but the container consumes exactly all bytes and
    rebuilds the value's structure: field order and names, variant names and tag values, element
    counts, primitive widths ([erase]). *)
Theorem C08_decodes_partial :
  forall t v c bs,
    wf t = true -> dflt_ok t = true -> has_schema t = true -> coherent t = true ->
    schema_of t = Ok c -> has_ty t v = true -> enc t v = Ok bs ->
    exists fuel, sdec c (decl_of t) fuel bs = Some (erase t (logical t v), []).
Proof. exact schema_decodes. Qed.
Print Assumptions C08_decodes_partial.

(** ... with any larger fuel, and leaving whatever follows the encoding untouched *)
Theorem C08_decodes_stream :
  forall t v c bs,
    wf t = true -> dflt_ok t = true -> has_schema t = true -> coherent t = true ->
    schema_of t = Ok c -> has_ty t v = true -> enc t v = Ok bs ->
    forall fuel rest, (sdepth t <= fuel)%nat ->
      sdec c (decl_of t) fuel (bs ++ rest)%list = Some (erase t (logical t v), rest).
Proof. exact schema_decodes_stream. Qed.
Print Assumptions C08_decodes_stream.

(** [C08_validates] / [C10_rust]: the container of a Rust type passes its own validation exactly
    when the type has no dynamically sized collection whose elements always encode to zero bytes
    ([no_empty_coll], [wire_empty]: structural predicates on the type; skipped fields are not on
    the wire).  [ranges_fit 64 c]: array lengths are [u64]s (needed, as in C10_exact, for the
    left-to-right half only). *)
Theorem C08_validates :
  forall t c, has_schema t = true -> coherent t = true -> schema_of t = Ok c ->
    ranges_fit 64 c -> (validate c = SOk tt <-> no_empty_coll t = true).
Proof. exact schema_validates. Qed.
Print Assumptions C08_validates.

(** [C10_rust]: the same with structural hypotheses only ([arrays_fit t]: every array length of
    the type is a 64-bit [usize], which makes [ranges_fit 64 c] a theorem). *)
Theorem C10_rust :
  forall t c, has_schema t = true -> coherent t = true -> arrays_fit t = true -> schema_of t = Ok c ->
    (validate c = SOk tt <-> no_empty_coll t = true).
Proof. exact schema_validates_structural. Qed.
Print Assumptions C10_rust.

Theorem C08_validates_ok :
  forall t c, has_schema t = true -> coherent t = true -> schema_of t = Ok c ->
    no_empty_coll t = true -> validate c = SOk tt.
Proof. exact schema_validates_ok. Qed.
Print Assumptions C08_validates_ok.

(** the schema's notion of zero size is the type's *)
Theorem C08_zero_sized :
  forall t c, has_schema t = true -> coherent t = true -> schema_of t = Ok c ->
    (ZeroSized c (decl_of t) <-> wire_empty t = true).
Proof. exact zero_sized_iff. Qed.
Print Assumptions C08_zero_sized.

(** [C14_agree]: for an element type that is empty in memory AND on the wire, the run-time
    refusal of the collection (C14_refuse_ser / C14_refuse_de: before any length is read) and the
    [ZSTSequence] verdict of schema validation agree ... *)
Theorem C14_agree :
  forall k e c cfg0 v bs,
    has_schema (TSeq k e) = true -> coherent (TSeq k e) = true -> schema_of (TSeq k e) = Ok c ->
    ser_checks_zst k = true -> is_map k = false ->
    mem_zst e = true -> wire_empty e = true ->
    enc (TSeq k e) v = Err InvalidData MZst /\
    dec_slice cfg0 (TSeq k e) bs = Err InvalidData MZst /\
    validate c = SErr (ZSTSequence (decl_of (TSeq k e))).
Proof. exact agree_runtime. Qed.
Print Assumptions C14_agree.

(** ... whatever the memory size, wire-empty elements fail validation at the root ... *)
Theorem C14_agree_empty :
  forall k e c, has_schema (TSeq k e) = true -> coherent (TSeq k e) = true -> schema_of (TSeq k e) = Ok c ->
    wire_empty e = true -> validate c = SErr (ZSTSequence (decl_of (TSeq k e))).
Proof. exact agree_empty. Qed.
Print Assumptions C14_agree_empty.

(** ... and for element types that do occupy the wire validation never fails that way. *)
Theorem C14_agree_converse :
  forall k e c, has_schema (TSeq k e) = true -> coherent (TSeq k e) = true -> schema_of (TSeq k e) = Ok c ->
    wire_empty e = false -> validate c <> SErr (ZSTSequence (decl_of (TSeq k e))).
Proof. exact agree_nonempty. Qed.
Print Assumptions C14_agree_converse.

(** Non-vacuity: the hypotheses hold of the nested example above (derived enum with
    discriminants, skipped fields, option, hash map, arrays, ip addresses), and fail of the F13 witness. *)
Example C08_coherent_instance :
  coherent ex_struct = true /\ dflt_ok ex_struct = true /\ no_empty_coll ex_struct = true /\ arrays_fit ex_struct = true /\
  coherent refute_t = false /\
  coherent (TSeq SVec (TProd PTuple [TArray 0 ex_u8; TUnit UPhantom])) = true /\
  wire_empty (TProd PTuple [TArray 0 ex_u8; TUnit UPhantom]) = true /\
  mem_zst (TProd PTuple [TArray 0 ex_u8; TUnit UPhantom]) = true.
Proof. repeat split; vm_compute; reflexivity. Qed.


(** "The schema derive accepts every struct and enum definition that the serialization derives accept": at the
    level of the macros' own checks.  (That rustc then compiles what the schema derive emits is validated by
    generated programs; the recorded exceptions are findings F14, F16, F19, F23, F24.) *)
Theorem C08_schema_derive_accepts :
  forall it : item, check DSer it = accept -> check DSchema it = accept.
Proof. exact ser_accept_schema_accept. Qed.
Print Assumptions C08_schema_derive_accepts.
