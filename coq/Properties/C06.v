(** C06: what the derive macros emit is what their documentation says.
    Statements only; the proofs are in DiscrFacts.v, EvalFacts.v and DeriveFacts.v. *)
From Coq Require Import String.
From Coq Require Import List ZArith NArith Bool.
From Coq.Strings Require Import Byte.
From Borsh Require Import Bytes Result Ty Ser De Discr DiscrFacts EvalFacts Item DeriveCheck Derive DeriveFacts DeriveSamples.
Import ListNotations.

(** * 1. Discriminants: the token splice of [Discriminants::new] is the language rule *)
Theorem C06_discr : forall ds i,
  forallb canonical_opt ds = true ->
  tag_eval false ISize (derive_discr ds i) = rust_discr ds i.
Proof. exact derive_discr_correct. Qed.
Print Assumptions C06_discr.

Theorem C06_discr_any_type : forall t ds,
  forallb canonical_opt ds = true ->
  map (tag_eval false t) (derive_discrs ds) = rust_discrs t ds.
Proof. exact derive_discrs_correct. Qed.
Print Assumptions C06_discr_any_type.

Theorem C06_parse_roundtrip : forall e, canonical e = true -> parse (tokens_of e) = Some e.
Proof. exact parse_tokens_of. Qed.
Print Assumptions C06_parse_roundtrip.

(** * 2. Structs *)
Theorem C06_struct : forall k it fs t,
  k <> DSchema -> it_body it = BStruct fs -> check k it = accept ->
  derive_ty k it = DOk t -> t = documented_sem k it.
Proof. exact derive_struct_documented. Qed.
Print Assumptions C06_struct.

(** * 3. Enums *)
(** The full-strength statement

    C06_enum : forall k it vs t,
      k <> DSchema -> it_body it = BEnum vs -> discrs_canonical it = true ->
      check k it = accept -> derive_ty k it = DOk t -> t = documented_sem k it

    ([discrs_canonical] delimits the ASTs a parser can produce) is FALSE: finding F12.
    Under [use_discriminant = true] the macro splices the discriminant expression into a
    position typed [u8], while the discriminant itself is typed [isize]; an expression whose
    value depends on the type it is read at ([!0]: 255 / -1; [128 << 1]: 0 / 256) passes all
    checks and is given a tag that is not its discriminant.  See [C06_enum_refuted].
    What holds is the statement restricted to type-independent discriminants. *)
Theorem C06_enum_partial : forall k it vs t,
  k <> DSchema -> it_body it = BEnum vs -> discrs_canonical it = true ->
  type_dependent_discr it = false ->
  check k it = accept -> derive_ty k it = DOk t -> t = documented_sem k it.
Proof. exact derive_enum_documented_partial. Qed.
Print Assumptions C06_enum_partial.

Theorem C06_enum_refuted :
  exists k it vs t,
    it_body it = BEnum vs /\ discrs_canonical it = true /\ check k it = accept /\
    derive_ty k it = DOk t /\ t <> documented_sem k it.
Proof. exact derive_enum_refuted. Qed.
Print Assumptions C06_enum_refuted.

(** * 4. The [init] hook runs once on success and never on failure *)
Theorem C06_init_once : forall c hook it t bs r n,
  derived_deserialize_reader c hook it t bs = (r, n) ->
  (is_ok r = true -> n = match init_of it with Some _ => 1 | None => 0 end) /\
  (is_ok r = false -> n = 0).
Proof. exact init_once. Qed.
Print Assumptions C06_init_once.

(** * 5. [deserialize_variant] *)
Theorem C06_variant : forall c hook it name vn tags vs b r,
  deserialize_variant c hook it (TSum (KEnum name vn tags) vs) r (b2n b) =
  enum_deserialize_reader c hook it (TSum (KEnum name vn tags) vs) (b :: r).
Proof. exact deserialize_variant_tag. Qed.
Print Assumptions C06_variant.

Theorem C06_variant_sem : forall c hook it name vn tags vs bs,
  enum_deserialize_reader c hook it (TSum (KEnum name vn tags) vs) bs =
  with_init hook it (dec_slice c (TSum (KEnum name vn tags) vs) bs).
Proof. exact enum_deserialize_reader_dec. Qed.
Print Assumptions C06_variant_sem.

(** * 5b. The hook on the decoded VALUE *)
(** What the emitted decoder returns is the value [dec] of the item's type returns, with the hook
    applied to it exactly once ([hooked]: not at all without [init]); and decoding a variant directly
    from its tag returns the same hooked value.  Both hold by construction of [with_init] (the
    transcription of [let mut return_value = ..; return_value.init(); Ok(return_value)]): that the
    real expansion behaves so is observed on generated items by checks/c06.py (the generated hook
    counts its calls in a skipped field of the object and writes a checksum of the decoded fields). *)
Theorem C06_init_on_value : forall c hook it t bs v rest n,
  (forall vs0, it_body it = BEnum vs0 -> exists name vn tags vs, t = TSum (KEnum name vn tags) vs) ->
  derived_deserialize_reader c hook it t bs = (Ok (v, rest), n) ->
  exists v0, dec_slice c t bs = Ok (v0, rest) /\ v = hooked hook it v0.
Proof. exact init_on_value. Qed.
Print Assumptions C06_init_on_value.

Theorem C06_variant_on_value : forall c hook it name vn tags vs b r v rest n,
  deserialize_variant c hook it (TSum (KEnum name vn tags) vs) r (b2n b) = (Ok (v, rest), n) ->
  exists v0, dec_slice c (TSum (KEnum name vn tags) vs) (b :: r) = Ok (v0, rest) /\ v = hooked hook it v0.
Proof. exact variant_on_value. Qed.
Print Assumptions C06_variant_on_value.

(** * Examples: the hypotheses are satisfiable on non-trivial items *)
Open Scope string_scope.

(** ** discriminants *)
(** [A = 1 | 2, B]: before the F5 repair the splice for [B] was [1 | 2 + 1], which rustc reads
    as [1 | (2 + 1)] = 3; the language says 4. *)
Example C06_discr_asfound_refuted :
  forallb canonical_opt ds2 = true /\
  map (tag_eval false ISize) (derive_discrs_asfound ds2) = [Some 3%Z; Some 3%Z] /\
  rust_discrs ISize ds2 = [Some 3%Z; Some 4%Z] /\
  map (tag_eval false ISize) (derive_discrs ds2) = [Some 3%Z; Some 4%Z].
Proof. repeat split. Qed.

(** [A = 1 | 2, B, C = 2 + 3 * 2, D, E = 1 << 3, F = (5), G] *)
Example C06_discr_ex_hyp : forallb canonical_opt ds7 = true.
Proof. vm_compute; reflexivity. Qed.
Example C06_discr_ex_tokens :
  derive_discr ds7 3 =
  [TLP; TLit User 2; TOp User Add; TLit User 3; TOp User Mul; TLit User 2; TRP; TOp Macro Add; TLit Macro 1].
Proof. vm_compute; reflexivity. Qed.
Example C06_discr_ex_derived :
  map (fun i => tag_eval false ISize (derive_discr ds7 i)) (seq 0 7) =
  [Some 3; Some 4; Some 8; Some 9; Some 8; Some 5; Some 6]%Z.
Proof. vm_compute; reflexivity. Qed.
Example C06_discr_ex_language :
  map (rust_discr ds7) (seq 0 7) = [Some 3; Some 4; Some 8; Some 9; Some 8; Some 5; Some 6]%Z.
Proof. vm_compute; reflexivity. Qed.
Example C06_discr_ex_u8 :
  map (tag_eval false U8) (derive_discrs ds7) = [Some 3; Some 4; Some 8; Some 9; Some 8; Some 5; Some 6]%Z.
Proof. vm_compute; reflexivity. Qed.
Example C06_parse_ex :
  parse [TLit User 2; TOp User Add; TLit User 3; TOp User Mul; TLit User 2] =
  Some (EBin User Add (L 2) (EBin User Mul (L 3) (L 2))).
Proof. vm_compute; reflexivity. Qed.

(** ** a struct: [a: u8], [#[borsh(skip)] b: u32], [#[borsh(serialize_with = "f", deserialize_with = "g")] c: u32]
    whose functions write/read two bytes, [d: u8] *)
Example C06_struct_ex_check : check DSer S4 = accept /\ check DDe S4 = accept.
Proof. repeat split. Qed.
Example C06_struct_ex_ty :
  derive_ty DSer S4 = DOk (documented_sem DSer S4) /\
  derive_ty DDe S4 = DOk (documented_sem DDe S4) /\
  documented_sem DSer S4 = S4_ty /\ documented_sem DDe S4 = S4_ty.
Proof. repeat split. Qed.
Example C06_struct_ex_enc :
  enc S4_ty (VL [VN 1; VN 99; VN 515; VN 4]) = Ok [x01; x03; x02; x04].
Proof. vm_compute; reflexivity. Qed.
Example C06_struct_ex_dec :
  dec_slice cfg0 S4_ty [x01; x03; x02; x04; xff] = Ok (VL [VN 1; VN 0; VN 515; VN 4], [xff]).
Proof. vm_compute; reflexivity. Qed.

(** ** an enum without discriminants: a struct variant, then a unit variant *)
Example C06_enum_ex_unit_hyps :
  discrs_canonical EU = true /\ type_dependent_discr EU = false /\
  check DSer EU = accept /\ check DDe EU = accept.
Proof. repeat split. Qed.
Example C06_enum_ex_unit_ty :
  derive_ty DSer EU = DOk (documented_sem DSer EU) /\
  derive_ty DDe EU = DOk (documented_sem DDe EU) /\ documented_sem DDe EU = EU_ty.
Proof. repeat split. Qed.
Example C06_enum_ex_unit_enc :
  enc EU_ty (VV 0 (VL [VN 7; VN 8; VN 9])) = Ok [x00; x07; x09; x00] /\
  enc EU_ty (VV 1 (VL [])) = Ok [x01].
Proof. repeat split. Qed.
Example C06_enum_ex_unit_dec :
  dec_slice cfg0 EU_ty [x01; x05] = Ok (VV 1 (VL []), [x05]) /\
  dec_slice cfg0 EU_ty [x00; x07; x09; x00] = Ok (VV 0 (VL [VN 7; VN 0; VN 9]), []) /\
  dec_slice cfg0 EU_ty [x02] = Err InvalidData (MBadVariant 2).
Proof. repeat split. Qed.

(** ** operator-expression discriminants, [use_discriminant = true]:
    [A = 1 | 2, B(#[borsh(skip)] u8, u8), C = 2 + 3 * 2, D] *)
Example C06_enum_ex_true_hyps :
  discrs_canonical ET = true /\ type_dependent_discr ET = false /\
  check DSer ET = accept /\ check DDe ET = accept.
Proof. repeat split. Qed.
Example C06_enum_ex_true_ty :
  derive_ty DSer ET = DOk (documented_sem DSer ET) /\
  derive_ty DDe ET = DOk (documented_sem DDe ET) /\ documented_sem DSer ET = ET_ty.
Proof. repeat split. Qed.
Example C06_enum_ex_true_enc :
  enc ET_ty (VV 1 (VL [VN 7; VN 9])) = Ok [x04; x09] /\
  enc ET_ty (VV 3 (VL [])) = Ok [x09].
Proof. repeat split. Qed.
Example C06_enum_ex_true_dec :
  dec_slice cfg0 ET_ty [x04; x09] = Ok (VV 1 (VL [VN 0; VN 9]), []) /\
  dec_slice cfg0 ET_ty [x08] = Ok (VV 2 (VL []), []) /\
  dec_slice cfg0 ET_ty [x01] = Err InvalidData (MBadVariant 1).
Proof. repeat split. Qed.

(** ** the same variants under [use_discriminant = false]: the tags are the positions *)
Example C06_enum_ex_false_hyps :
  discrs_canonical EF = true /\ type_dependent_discr EF = false /\
  check DSer EF = accept /\ check DDe EF = accept.
Proof. repeat split. Qed.
Example C06_enum_ex_false_ty :
  derive_ty DSer EF = DOk (documented_sem DSer EF) /\
  derive_ty DDe EF = DOk (documented_sem DDe EF) /\
  derive_tags EF vsT = DOk [0; 1; 2; 3]%N.
Proof. repeat split. Qed.
Example C06_enum_ex_false_enc :
  forall t, derive_ty DSer EF = DOk t -> enc t (VV 1 (VL [VN 7; VN 9])) = Ok [x01; x09].
Proof. intros t H. vm_compute in H. inversion H. vm_compute. reflexivity. Qed.

(** ** the F12 witness: [#[borsh(use_discriminant = true)] enum E { A = !0 }] *)
Example C06_enum_ex_F12 :
  type_dependent_discr F12_item = true /\ check DSer F12_item = accept /\
  derive_tags F12_item [mkv "A" (Some (EUn Not (L 0))) FUnit] = DOk [255%N] /\
  rust_discr [Some (EUn Not (L 0))] 0 = Some (-1)%Z.
Proof. repeat split. Qed.

(** ** [init]: [#[borsh(init = setup)] enum E { A { x, #[skip] y, z }, B }], the hook wraps the value *)
Example C06_init_ex :
  check DDe EI = accept /\ init_of EI = Some "setup" /\
  derived_deserialize_reader cfg0 hook0 EI EU_ty [x01; x05] = (Ok (VL [VV 1 (VL []); VN 42], [x05]), 1) /\
  derived_deserialize_reader cfg0 hook0 EI EU_ty [x02] = (Err InvalidData (MBadVariant 2), 0) /\
  derived_deserialize_reader cfg0 hook0 EI EU_ty [x00; x07] = (Err InvalidData MUnexpectedLength, 0) /\
  derived_deserialize_reader cfg0 hook0 EU EU_ty [x01; x05] = (Ok (VV 1 (VL []), [x05]), 0) /\
  deserialize_variant cfg0 hook0 EI EU_ty [x05] 1 = (Ok (VL [VV 1 (VL []); VN 42], [x05]), 1).
Proof. repeat split. Qed.

(** * 7. Where-clause inference ([C06_bounds]): generics.rs [FindTyParams] and the where-clauses
      the three derives build, against the rule of the rustdoc.  Proofs in GenericsFacts.v. *)
From Borsh Require Import Generics GenericsSamples GenericsFacts.

(** The where-clause of the emitted impl IS the documented one -- same predicates, same order:
    the item's own where-clause; then, parameter after parameter in the order of the generics, the
    derive's trait on the parameter when it occurs ([occurs]: written as a type, outside
    [PhantomData<..>] and type macros) in a field the derive infers from (BorshSerialize /
    BorshDeserialize / BorshSchema: not skipped; the [Default] list of BorshDeserialize: skipped; in
    each case not overridden by [bound(..)] resp. [schema(params)]) and on the field types of the form
    [P::Assoc..] / the [schema(params)] entries filed under it, no type twice; then the user's
    [bound(serialize|deserialize = "..")] predicates of ALL fields, skipped or not. *)
Theorem C06_bounds : forall k it, bounds_of k it = documented_bounds k it.
Proof. exact bounds_documented. Qed.
Print Assumptions C06_bounds.

(** The visitor marks exactly the declared parameters that occur. *)
Theorem C06_bounds_visitor : forall t all rel P,
  mem P (visit_type all rel t) = mem P rel || (mem P all && occurs P t).
Proof. exact visit_type_occurs. Qed.
Print Assumptions C06_bounds_visitor.

(** The rule read as membership.  ([sel]/[ex]: which fields are inferred from / their explicit
    entries, e.g. [infers_ser]/[no_explicit], [infers_default]/[no_explicit], [infers_schema]/[schema_explicit].) *)
Theorem C06_bounds_param_sound : forall ps sel ex fs P,
  (forall f, In f fs -> ex f = []) ->
  In (GParam P) (documented_types ps sel ex fs) ->
  In P ps /\ exists f, In f fs /\ sel f = true /\ occurs P (gf_ty f) = true.
Proof. exact param_bounded_sound. Qed.
Print Assumptions C06_bounds_param_sound.

Theorem C06_bounds_param_complete : forall ps sel ex fs P f,
  In P ps -> In f fs -> sel f = true -> occurs P (gf_ty f) = true ->
  exists t, In t (documented_types ps sel ex fs) /\ render t = render (GParam P).
Proof. exact param_bounded_complete. Qed.
Print Assumptions C06_bounds_param_complete.

Theorem C06_bounds_provenance : forall ps sel ex fs t,
  In t (documented_types ps sel ex fs) ->
  exists P, In P ps /\
    ((t = GParam P /\ exists f, In f fs /\ sel f = true /\ occurs P (gf_ty f) = true) \/
     (exists f, In f fs /\ sel f = true /\ assoc_of P (gf_ty f) = true /\ t = gf_ty f) \/
     (exists f, In f fs /\ In (P, t) (ex f))).
Proof. exact bounded_provenance. Qed.
Print Assumptions C06_bounds_provenance.

(** [schema(params = "P => ty")] on a non-skipped field bounds [ty] -- when [P] is a parameter. *)
Theorem C06_bounds_override : forall it f l P t,
  In f (all_fields it) -> gf_skip f = false -> gf_schema_params f = Some l -> In (P, t) l ->
  In P (type_params (gi_params it)) ->
  exists t', In (WBound t' TrSchema) (bounds_of DSchema it) /\ render t' = render t.
Proof. exact override_bounded. Qed.
Print Assumptions C06_bounds_override.

(** The full-strength statement of the rustdoc entry rule, without "[P] is a parameter of the item",
    is FALSE: a mistyped [order_param] makes the macro drop the entry silently. *)
Theorem C06_bounds_override_refuted :
  exists it f P t,
    In f (all_fields it) /\ gf_skip f = false /\ gf_schema_params f = Some [(P, t)] /\
    forall p, In p (bounds_of DSchema it) -> render_pred p <> render_pred (WBound t TrSchema).
Proof. exact override_unknown_param_refuted. Qed.
Print Assumptions C06_bounds_override_refuted.

(** "adds the bound to any type parameter found in item's fields" read naively (the identifier is
    written somewhere in a serialized field) is FALSE: [struct S<T: Tr> { a: Vec<T::A> }]. *)
Theorem C06_bounds_naive_refuted :
  exists it f P,
    In f (all_fields it) /\ gf_skip f = false /\ gf_bound_ser f = None /\
    In P (type_params (gi_params it)) /\ uses P (gf_ty f) = true /\
    forall p, In p (bounds_of DSer it) -> ~ In P (ident_toks (toks_pred p)).
Proof. exact naive_rule_refuted. Qed.
Print Assumptions C06_bounds_naive_refuted.

(** ** the examples of the rustdoc, computed *)
Example C06_bounds_doc_a :
  map render_pred (bounds_of DSer doc_a) = ["U : borsh::ser::BorshSerialize"; "V : borsh::ser::BorshSerialize"]%string /\
  map render_pred (bounds_of DSer doc_a_skip) = ["U : borsh::ser::BorshSerialize"]%string /\
  map render_pred (bounds_of DDe doc_a_skip) = ["U : borsh::de::BorshDeserialize"; "V : core::default::Default"]%string /\
  map render_pred (bounds_of DSchema doc_a_skip) = ["U : borsh::BorshSchema"]%string.
Proof. vm_compute. repeat split. Qed.
Example C06_bounds_doc_overrides :
  map render_pred (bounds_of DDe doc_hashmap_skip) = ["U : borsh::de::BorshDeserialize"]%string /\
  map render_pred (bounds_of DSer doc_hashmap_skip) = ["U : borsh::ser::BorshSerialize"]%string /\
  map render_pred (bounds_of DSer doc_bound_override) = ["T : BorshSerialize + Ord"; "U : BorshSerialize"]%string /\
  map render_pred (bounds_of DDe doc_bound_override) = ["T : borsh::de::BorshDeserialize"; "U : borsh::de::BorshDeserialize"]%string.
Proof. vm_compute. repeat split. Qed.
(** "derive here figures the bound erroneously as [T: BorshSerialize]"; the unit-test snapshot
    [generic_associated_type]; [schema(params)] *)
Example C06_bounds_doc_assoc :
  map render_pred (bounds_of DSer doc_qualified_assoc)
    = ["T : TraitName"; "T : borsh::ser::BorshSerialize"; "V : borsh::ser::BorshSerialize"]%string /\
  map render_pred (bounds_of DSchema snap_assoc)
    = ["T : TraitName"; "V : borsh::BorshSchema"; "T :: Associated : borsh::BorshSchema"]%string /\
  map render_pred (bounds_of DSchema doc_schema_params) = ["V : borsh::BorshSchema"]%string /\
  map render_pred (bounds_of DSchema doc_schema_params_assoc)
    = ["T : TraitName"; "V : borsh::BorshSchema"; "< T as TraitName > :: Associated : borsh::BorshSchema"]%string.
Proof. vm_compute. repeat split. Qed.
(** shapes: array, tuple/reference, fn pointer are searched; PhantomData, type macros are not;
    a skipped field only counts for [Default] *)
Example C06_bounds_shapes :
  map render_pred (bounds_of DSer shapes_struct)
    = ["A : borsh::ser::BorshSerialize"; "B : borsh::ser::BorshSerialize"; "C : borsh::ser::BorshSerialize"]%string /\
  map render_pred (bounds_of DDe shapes_struct)
    = ["A : borsh::de::BorshDeserialize"; "B : borsh::de::BorshDeserialize"; "C : borsh::de::BorshDeserialize";
       "F : core::default::Default"]%string /\
  bounds_of DSer phantom_struct = [] /\ bounds_of DDe phantom_struct = [] /\ bounds_of DSchema phantom_struct = [].
Proof. vm_compute. repeat split. Qed.
