(** C18: the derive macros reject exactly the definitions the documentation forbids --
    as far as that is true.  Statements only; the proofs are in DeriveCheckFacts.v
    (with EvalFacts.v and DiscrFacts.v).  [check] transcribes the macros' checks and
    rustc's verdict on the emitted tag expressions; [violations] is the rule list. *)
From Coq Require Import String.
From Coq Require Import List ZArith NArith Bool.
From Borsh Require Import Bytes Result Ty Discr DiscrFacts EvalFacts Item DeriveCheck DeriveCheckFacts.
Import ListNotations.

(** * 1. Every rejection belongs to a violated rule *)
Theorem C18_class : forall k it c,
  discrs_canonical it = true -> check k it = reject c -> In (rule_of_class c) (violations k it).
Proof. exact reject_class_violated. Qed.
Print Assumptions C18_class.

(** * 2. Rejected iff some rule is violated, outside two classes of items *)
(** The full-strength statement

      C18_exact : forall k it, (exists c, check k it = reject c) <-> violates k it <> None

    is FALSE.  It fails on two classes of items, each refuted in section 3:
    F11 ([implicit_overflow]): an implicit discriminant overflows [u8] in the [+ 1] the macro wrote;
    F12 ([type_dependent_discr]): a discriminant expression whose value depends on the type it is read at.
    (F7, [#[borsh(..)]] attributes on enum variants being ignored, is repaired: such items are now
    rejected with [CVariantAttr], see [variant_attr_rejected] below, and [has_variant_attrs] is no
    longer an exception class.) *)
Theorem C18_exact_partial : forall k it,
  discrs_canonical it = true ->
  implicit_overflow it = false -> type_dependent_discr it = false ->
  ((exists c, check k it = reject c) <-> violates k it <> None).
Proof. exact reject_iff_violates. Qed.
Print Assumptions C18_exact_partial.

(** Without any hypothesis on the item: an accepted item violates no rule other than the
    discriminant-fit rule (the rule F11 and F12 are about). *)
Theorem C18_accept_only_fit : forall k it r,
  check k it = accept -> In r (violations k it) -> r = RDiscrFit.
Proof. exact accept_only_fit. Qed.
Print Assumptions C18_accept_only_fit.

(** A key written twice inside one [#[borsh(..)]] list -- at item level, on a field, anywhere in
    the item, next to whatever other attributes -- is refused by all three derives (commit
    922f373; before it the last occurrence silently won). *)
Theorem C18_repeated_key : forall k it,
  r_repeated_key it = true -> exists c, check k it = reject c.
Proof. exact repeated_key_rejected. Qed.
Print Assumptions C18_repeated_key.

(** * 3. The two refutations of [C18_exact] (witnesses [W_F11], [W_F12]) *)
(** F11: [#[borsh(use_discriminant = true)] enum E { A = 255, B }] is accepted. *)
Theorem C18_exact_refuted_F11 :
  exists k it, discrs_canonical it = true /\ check k it = accept /\ violates k it <> None.
Proof. exact exact_refuted_F11. Qed.
Print Assumptions C18_exact_refuted_F11.

(** F12: [#[borsh(use_discriminant = true)] enum E { A = !0 }] is accepted. *)
Theorem C18_exact_refuted_F12 :
  exists k it, discrs_canonical it = true /\ check k it = accept /\ violates k it <> None.
Proof. exact exact_refuted_F12. Qed.
Print Assumptions C18_exact_refuted_F12.

(** formerly F7: [enum V { #[borsh(skip)] A, #[borsh(bogus = 3)] B(u8) }] is now rejected *)
Example variant_attr_rejected :
  has_variant_attrs X_variant_attr = true /\
  check DSer X_variant_attr = reject CVariantAttr /\ violates DSer X_variant_attr = Some RUnknownAttr /\
  check DDe X_variant_attr = reject CVariantAttr /\ violates DDe X_variant_attr = Some RUnknownAttr /\
  check DSchema X_variant_attr = reject CVariantAttr /\ violates DSchema X_variant_attr = Some RUnknownAttr.
Proof. vm_compute. repeat split. Qed.
Example W_F11_class : implicit_overflow W_F11 = true /\ violates DSer W_F11 = Some RDiscrFit.
Proof. vm_compute. repeat split. Qed.
Example W_F12_class : type_dependent_discr W_F12 = true /\ violates DSer W_F12 = Some RDiscrFit.
Proof. vm_compute. repeat split. Qed.

(** * 4. Non-vacuity *)
(** legal, non-trivial items satisfy the hypotheses of [C18_exact_partial] and are accepted *)
Example legal_struct :
  hyps X_struct = true /\
  check DSer X_struct = accept /\ check DDe X_struct = accept /\ check DSchema X_struct = accept /\
  violates DSer X_struct = None /\ violates DDe X_struct = None.
Proof. vm_compute. repeat split. Qed.
Example legal_enum :
  hyps X_enum = true /\
  check DSer X_enum = accept /\ check DDe X_enum = accept /\ check DSchema X_enum = accept /\
  violates DSer X_enum = None /\ violates DDe X_enum = None.
Proof. vm_compute. repeat split. Qed.

(** one rejected item per class; all satisfy the hypotheses *)
Example rej_multiple : hyps X_multiple = true /\ rejected_as DSer X_multiple CMultipleAttrs.
Proof. vm_compute. repeat split. Qed.
Example rej_repeated_item : hyps X_repeated_item = true /\ rejected_as DSer X_repeated_item CRepeatedKey.
Proof. vm_compute. repeat split. Qed.
Example rej_repeated_ud :
  hyps X_repeated_ud = true /\ rejected_as DSer X_repeated_ud CRepeatedKey /\
  rejected_as DDe X_repeated_ud CRepeatedKey /\ rejected_as DSchema X_repeated_ud CRepeatedKey.
Proof. vm_compute. repeat split. Qed.
Example rej_repeated_skip : hyps X_repeated_skip = true /\ rejected_as DDe X_repeated_skip CRepeatedKey.
Proof. vm_compute. repeat split. Qed.
Example rej_repeated_with : hyps X_repeated_with = true /\ rejected_as DSer X_repeated_with CRepeatedKey.
Proof. vm_compute. repeat split. Qed.
Example rej_repeated_schema :
  check DSchema X_repeated_schema = reject CRepeatedKey /\
  violations DSchema X_repeated_schema = [RRepeatedKey; RSkipConflict].
Proof. vm_compute. repeat split. Qed.
Example rej_variant_attr : hyps X_variant_attr = true /\ rejected_as DSer X_variant_attr CVariantAttr.
Proof. vm_compute. repeat split. Qed.
Example rej_unknown_item : hyps X_unknown_item = true /\ rejected_as DSer X_unknown_item CUnknownItemKey.
Proof. vm_compute. repeat split. Qed.
Example rej_ud_struct : hyps X_ud_struct = true /\ rejected_as DSer X_ud_struct CUseDiscrStruct.
Proof. vm_compute. repeat split. Qed.
Example rej_ud_value : hyps X_ud_value = true /\ rejected_as DSer X_ud_value CUseDiscrValue.
Proof. vm_compute. repeat split. Qed.
Example rej_malformed : hyps X_malformed = true /\ rejected_as DSer X_malformed CMalformedValue.
Proof. vm_compute. repeat split. Qed.
Example rej_too_many : hyps X_too_many = true /\ rejected_as DSer X_too_many CTooManyVariants.
Proof. vm_compute. repeat split. Qed.
Example rej_no_setting : hyps X_no_setting = true /\ rejected_as DSer X_no_setting CDiscrNeedsSetting.
Proof. vm_compute. repeat split. Qed.
Example rej_skip_with : hyps X_skip_with = true /\ rejected_as DSer X_skip_with CSkipConflict.
Proof. vm_compute. repeat split. Qed.
Example rej_skip_schema : hyps X_skip_schema = true /\ rejected_as DSchema X_skip_schema CSkipSchemaConflict.
Proof. vm_compute. repeat split. Qed.
Example rej_unknown_field : hyps X_unknown_field = true /\ rejected_as DSer X_unknown_field CUnknownFieldKey.
Proof. vm_compute. repeat split. Qed.
Example rej_with_funcs : hyps X_with_funcs = true /\ rejected_as DSchema X_with_funcs CWithFuncsIncomplete.
Proof. vm_compute. repeat split. Qed.
Example rej_union : hyps X_union = true /\ rejected_as DSer X_union CUnion.
Proof. vm_compute. repeat split. Qed.
Example rej_tag_type : hyps X_tag_type = true /\ rejected_as DSer X_tag_type CTagType.
Proof. vm_compute. repeat split. Qed.
Example rej_tag_literal : hyps X_tag_literal = true /\ rejected_as DSer X_tag_literal CTagLiteral.
Proof. vm_compute. repeat split. Qed.
Example rej_tag_arith : hyps X_tag_arith = true /\ rejected_as DSer X_tag_arith CTagArith.
Proof. vm_compute. repeat split. Qed.
