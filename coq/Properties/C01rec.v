(** C01 (with C04/C05/C16) for RECURSIVE derived items, through finite unfoldings.
    Property theorems only; definitions in Rec.v, proofs in RecFacts.v.

    A recursive item ([struct Tree { label: u8, children: Vec<Tree> }], ...) is an open type
    term [oty] with references [ORef name] into an environment [env] of item bodies.
    [unfold e fuel ot] is a member of the closed universe [ty]: references are replaced by
    bodies [fuel] levels deep, then by the placeholder [CUT] = [&Vec<()>], a well-formed type
    that borsh refuses to encode and to decode.  [has_ty_rec e n ot v]: [v] is a value of the
    recursive type of nesting depth at most [n] (typed at the n-th unfolding, never at a
    placeholder).  [enc_rec] / [dec_rec] / [logical_rec]: encoder, decoder, logical value of
    the n-th unfolding.

    Hypotheses on the environment: [env_ok e] (decidable: every definition is a derived
    struct/enum, is not zero-sized, and no [Option]'s [None] payload mentions a reference),
    [opt_ok ot] (the same last condition on the root term) and [rec_wf e ot] (every unfolding
    is in the supported family [wf]).  Since [CUT] is neither a key type nor [Default],
    [rec_wf] excludes a recursive item used as a set element / map key, and a skipped field
    whose [Default] would have to construct the item itself. *)
From Coq Require Import String.
From Coq Require Import List NArith.
From Borsh Require Import Bytes Result Ty Ser De Entry Rec RecFacts.
Import ListNotations.
Local Open Scope N_scope.

(** The semantics of a recursive type does not depend on how far one unfolds, beyond the
    depth of the value: a value typed at fuel [n] is typed at every larger fuel, with the same
    encoder outcome (bytes, or the same error), the same logical value and the same decoding
    of its encoding followed by any bytes. *)
Theorem rec_fuel_monotone :
  forall (e : env) (ot : oty) (n m : nat) (v : val),
    env_ok e = true -> opt_ok ot = true -> rec_wf e ot -> (n <= m)%nat ->
    has_ty_rec e n ot v = true ->
    has_ty_rec e m ot v = true /\
    enc_rec e m ot v = enc_rec e n ot v /\
    logical_rec e m ot v = logical_rec e n ot v /\
    (forall (c : cfg) (bs rest : bytes), enc_rec e n ot v = Ok bs ->
       dec_rec e c m ot (bs ++ rest) = dec_rec e c n ot (bs ++ rest)).
Proof. exact rec_monotone. Qed.
Print Assumptions rec_fuel_monotone.

(** the same for the complete trace of writes, needing [wf] of the smaller unfolding only *)
Theorem rec_fuel_monotone_trace :
  forall (e : env) (ot : oty) (n m : nat) (v : val),
    env_ok e = true -> opt_ok ot = true -> wf (unfold e n ot) = true -> (n <= m)%nat ->
    has_ty_rec e n ot v = true ->
    has_ty_rec e m ot v = true /\
    ser (unfold e m ot) v = ser (unfold e n ot) v /\
    enc_rec e m ot v = enc_rec e n ot v /\
    logical_rec e m ot v = logical_rec e n ot v.
Proof. exact rec_mono. Qed.
Print Assumptions rec_fuel_monotone_trace.

(** C01 for recursive items: every value typed at some fuel, both settings of
    de_strict_order, every trailing bytes, every sufficient fuel of the decoder: decoding the
    encoding returns the logical value and exactly the trailing bytes. *)
Theorem C01_rec_round_trip :
  forall (e : env) (ot : oty) (n : nat) (v : val) (bs : bytes),
    env_ok e = true -> opt_ok ot = true -> rec_wf e ot ->
    has_ty_rec e n ot v = true -> enc_rec e n ot v = Ok bs ->
    forall m, (n <= m)%nat ->
    forall (c : cfg) (rest : bytes), dec_rec e c m ot (bs ++ rest) = Ok (logical_rec e n ot v, rest).
Proof. exact rec_round_trip. Qed.
Print Assumptions C01_rec_round_trip.

Theorem C01_rec_from_slice :
  forall (e : env) (ot : oty) (n : nat) (v : val) (bs : bytes),
    env_ok e = true -> opt_ok ot = true -> rec_wf e ot ->
    has_ty_rec e n ot v = true -> enc_rec e n ot v = Ok bs ->
    forall m, (n <= m)%nat ->
    forall (c : cfg), from_slice c (unfold e m ot) bs = Ok (logical_rec e n ot v).
Proof. exact rec_from_slice. Qed.
Print Assumptions C01_rec_from_slice.

(** A decoder with more unfolding accepts at least as much, with the same value and the same
    rest: for every byte string, every reader.  (This is what justifies testing the
    implementation against finite unfoldings: once the model accepts at some fuel, the answer
    is final.) *)
Theorem rec_decode_stable :
  forall (e : env) (c : cfg) (ot : oty) (n m : nat) (bs : bytes) (v : val) (r : bytes),
    env_ok e = true -> opt_ok ot = true -> wf (unfold e n ot) = true -> (n <= m)%nat ->
    dec_rec e c n ot bs = Ok (v, r) -> dec_rec e c m ot bs = Ok (v, r).
Proof. exact rec_stable. Qed.
Print Assumptions rec_decode_stable.

Theorem rec_decode_stable_reader :
  forall (St : Type) (R : reader St) (e : env) (c : cfg) (ot : oty) (n m : nat) (s : St) (v : val) (s' : St),
    env_ok e = true -> opt_ok ot = true -> wf (unfold e n ot) = true -> (n <= m)%nat ->
    dec R c (unfold e n ot) s = Ok (v, s') -> dec R c (unfold e m ot) s = Ok (v, s').
Proof. exact @rec_stable_reader. Qed.
Print Assumptions rec_decode_stable_reader.

Theorem rec_decode_stable_try_from_slice :
  forall (e : env) (c : cfg) (ot : oty) (n m : nat) (bs : bytes) (v : val),
    env_ok e = true -> opt_ok ot = true -> wf (unfold e n ot) = true -> (n <= m)%nat ->
    try_from_slice c (unfold e n ot) bs = Ok v -> try_from_slice c (unfold e m ot) bs = Ok v.
Proof. exact rec_stable_try_from_slice. Qed.
Print Assumptions rec_decode_stable_try_from_slice.

(** Finality, errors included: at the smaller fuel the decoder gives the answer of every larger
    fuel -- value, error message, everything -- or gives up with the placeholder's refusal
    [Err InvalidData MZst].  (So a differential test against an unfolding is conclusive on every
    input on which the model does not answer with that refusal.) *)
Theorem rec_decode_final :
  forall (e : env) (c : cfg) (ot : oty) (n m : nat) (bs : bytes),
    env_ok e = true -> opt_ok ot = true -> wf (unfold e n ot) = true -> (n <= m)%nat ->
    dec_rec e c n ot bs = dec_rec e c m ot bs \/ dec_rec e c n ot bs = Err InvalidData MZst.
Proof. exact rec_final. Qed.
Print Assumptions rec_decode_final.

Theorem rec_decode_final_reader :
  forall (St : Type) (R : reader St) (e : env) (c : cfg) (ot : oty) (n m : nat) (s : St),
    env_ok e = true -> opt_ok ot = true -> wf (unfold e n ot) = true -> (n <= m)%nat ->
    dec R c (unfold e n ot) s = dec R c (unfold e m ot) s \/ dec R c (unfold e n ot) s = Err InvalidData MZst.
Proof. exact @rec_final_reader. Qed.
Print Assumptions rec_decode_final_reader.

(** C05 at every unfolding, every byte string, no hypothesis: a successful decode reads a
    prefix, is independent of what follows, and every proper prefix of what it read fails
    with "unexpected length". *)
Theorem C05_rec_extend :
  forall (e : env) (c : cfg) (fuel : nat) (ot : oty) (bs : bytes) (v : val) (r : bytes),
    dec_rec e c fuel ot bs = Ok (v, r) ->
    (forall x, dec_rec e c fuel ot (bs ++ x) = Ok (v, r ++ x)) /\
    exists pre, bs = pre ++ r /\ (forall r', dec_rec e c fuel ot (pre ++ r') = Ok (v, r')) /\
                (forall q1 q2, pre = q1 ++ q2 -> q2 <> [] ->
                   dec_rec e c fuel ot q1 = Err InvalidData MUnexpectedLength).
Proof. exact (fun e c fuel ot bs v r H => conj (fun x => rec_dec_extend e c fuel ot bs v r x H) (rec_dec_prefix e c fuel ot bs v r H)). Qed.
Print Assumptions C05_rec_extend.

(** C16 at every unfolding: failures are InvalidData; nothing panics.  Running out of fuel
    is such a failure (the zero-sized-collection refusal of the placeholder), never a wrong
    success -- see [rec_decode_stable]. *)
Theorem C16_rec_kind :
  forall (e : env) (c : cfg) (fuel : nat) (ot : oty) (bs : bytes),
    (forall k m, dec_rec e c fuel ot bs = Err k m -> k = InvalidData) /\
    (forall w, dec_rec e c fuel ot bs <> Panic w).
Proof. exact (fun e c fuel ot bs => conj (fun k m => rec_dec_err_kind e c fuel ot bs k m) (rec_dec_no_panic e c fuel ot bs)). Qed.
Print Assumptions C16_rec_kind.

Theorem rec_cut_is_refused :
  forall (e : env) (c : cfg) (x : string) (bs : bytes), dec_rec e c 0 (ORef x) bs = Err InvalidData MZst.
Proof. exact rec_cut_refused. Qed.
Print Assumptions rec_cut_is_refused.

(** [rec_wf] has a decidable sufficient condition: [owf], the clauses of [wf] read off the
    open terms (a reference counts as well-formed, not a key type, without [Default], not
    zero-sized), for the root term and for every definition of the environment. *)
Theorem rec_wf_decidable :
  forall (e : env) (ot : oty),
    env_ok e = true -> env_owf e = true -> owf ot = true -> rec_wf e ot.
Proof. exact owf_rec_wf. Qed.
Print Assumptions rec_wf_decidable.

(** The four running examples satisfy the hypotheses (all fuels). *)
Local Open Scope string_scope.
Theorem rec_examples_in_scope :
  env_ok rec_env = true /\ rec_wf rec_env (ORef "Tree") /\ rec_wf rec_env (ORef "List") /\
  rec_wf rec_env (ORef "Json") /\ rec_wf rec_env (ORef "Rec").
Proof. exact (conj rec_env_ok (conj rec_wf_tree (conj rec_wf_list (conj rec_wf_json rec_wf_rec)))). Qed.
Print Assumptions rec_examples_in_scope.

(** * Non-vacuity: values of depth >= 3 of the four Rust items.
    Each: typed at its depth, NOT typed one level below (the depth is tight), same bytes at a
    larger fuel, decoding at a still larger fuel with a trailing byte returns the value and
    the byte, decoding with too little fuel is the placeholder's refusal. *)

(** Tree { 1, [ Tree { 2, [ Tree{3,[]}, Tree{4,[]} ] }, Tree { 5, [] } ] }   depth 3 *)
Definition v_tree : val :=
  VL [VN 1; VL [VL [VN 2; VL [VL [VN 3; VL []]; VL [VN 4; VL []]]]; VL [VN 5; VL []]]].
Example tree_example :
  has_ty_rec rec_env 3 (ORef "Tree") v_tree = true /\ has_ty_rec rec_env 2 (ORef "Tree") v_tree = false /\
  exists bs, enc_rec rec_env 3 (ORef "Tree") v_tree = Ok bs /\ len bs = 25 /\
    enc_rec rec_env 7 (ORef "Tree") v_tree = Ok bs /\
    dec_rec rec_env {| strict := true |} 9 (ORef "Tree") (bs ++ [Byte.xff])%list = Ok (v_tree, [Byte.xff]) /\
    dec_rec rec_env {| strict := true |} 2 (ORef "Tree") bs = Err InvalidData MZst.
Proof.
  split; [vm_compute; reflexivity|]. split; [vm_compute; reflexivity|].
  eexists. split; [vm_compute; reflexivity|]. repeat split; vm_compute; reflexivity.
Qed.

(** Cons(1, Cons(2, Cons(3, Nil)))   depth 4 *)
Definition v_list : val :=
  VV 1 (VL [VN 1; VV 1 (VL [VN 2; VV 1 (VL [VN 3; VV 0 (VL [])])])]).
Example list_example :
  has_ty_rec rec_env 4 (ORef "List") v_list = true /\ has_ty_rec rec_env 3 (ORef "List") v_list = false /\
  exists bs, enc_rec rec_env 4 (ORef "List") v_list = Ok bs /\ len bs = 16 /\
    enc_rec rec_env 10 (ORef "List") v_list = Ok bs /\
    dec_rec rec_env {| strict := false |} 12 (ORef "List") (bs ++ [Byte.x01])%list = Ok (v_list, [Byte.x01]) /\
    dec_rec rec_env {| strict := false |} 3 (ORef "List") bs = Err InvalidData MZst.
Proof.
  split; [vm_compute; reflexivity|]. split; [vm_compute; reflexivity|].
  eexists. split; [vm_compute; reflexivity|]. repeat split; vm_compute; reflexivity.
Qed.

(** Arr [ Obj { "a": Arr [ Num 5, Null ], "b": Null }, Null ]   depth 4 *)
Definition v_json : val :=
  VV 2 (VL [VL [VV 3 (VL [VL [VL [VL [VN 97]; VV 2 (VL [VL [VV 1 (VL [VN 5]); VV 0 (VL [])]])];
                            VL [VL [VN 98]; VV 0 (VL [])]]]);
                VV 0 (VL [])]]).
Example json_example :
  has_ty_rec rec_env 4 (ORef "Json") v_json = true /\ has_ty_rec rec_env 3 (ORef "Json") v_json = false /\
  exists bs, enc_rec rec_env 4 (ORef "Json") v_json = Ok bs /\ len bs = 37 /\
    enc_rec rec_env 6 (ORef "Json") v_json = Ok bs /\
    dec_rec rec_env {| strict := true |} 7 (ORef "Json") (bs ++ [Byte.x00])%list = Ok (v_json, [Byte.x00]) /\
    dec_rec rec_env {| strict := true |} 3 (ORef "Json") bs = Err InvalidData MZst.
Proof.
  split; [vm_compute; reflexivity|]. split; [vm_compute; reflexivity|].
  eexists. split; [vm_compute; reflexivity|]. repeat split; vm_compute; reflexivity.
Qed.

(** Rec(Some(Rec(Some(Rec(None)))))   depth 3 *)
Definition v_rec : val := VL [VV 1 (VL [VV 1 (VL [VV 0 (VL [])])])].
Example rec_example :
  has_ty_rec rec_env 3 (ORef "Rec") v_rec = true /\ has_ty_rec rec_env 2 (ORef "Rec") v_rec = false /\
  exists bs, enc_rec rec_env 3 (ORef "Rec") v_rec = Ok bs /\ len bs = 3 /\
    enc_rec rec_env 8 (ORef "Rec") v_rec = Ok bs /\
    dec_rec rec_env {| strict := true |} 8 (ORef "Rec") (bs ++ [Byte.x07])%list = Ok (v_rec, [Byte.x07]) /\
    dec_rec rec_env {| strict := true |} 2 (ORef "Rec") bs = Err InvalidData MZst.
Proof.
  split; [vm_compute; reflexivity|]. split; [vm_compute; reflexivity|].
  eexists. split; [vm_compute; reflexivity|]. repeat split; vm_compute; reflexivity.
Qed.

(** The non-zero-size condition of [env_ok] is needed: [struct Z([Z; 0])] is legal Rust and
    zero-sized; cutting it makes [Vec<Z>] look encodable at fuel 0 while borsh (and the
    unfolding at fuel 1) refuses it. *)
Example rec_fuel_monotone_needs_nonzero_size :
  let e := [("Z", OProd (PStruct "Z" [] [false]) [OArray 0 (ORef "Z")])] in
  let ot := OSeq SVec (ORef "Z") in
  env_ok e = false /\ has_ty_rec e 0 ot (VL []) = true /\
  enc_rec e 0 ot (VL []) = Ok [Byte.x00; Byte.x00; Byte.x00; Byte.x00] /\
  has_ty_rec e 1 ot (VL []) = true /\ enc_rec e 1 ot (VL []) = Err InvalidData MZst.
Proof. repeat split; vm_compute; reflexivity. Qed.
