(** Extraction of the executable model for the correspondence driver.
    ExtrOcamlBasic only; numbers and bytes stay as extracted inductives. *)
From Coq Require Import String.
From Coq Require Import List NArith.
From Coq.Strings Require Import Byte.
From Borsh Require Import Bytes Result Ty Ser De Entry Schema SchemaFns SchemaSpec ArrayGuard.
Require Import ExtrOcamlBasic.
Extraction Language OCaml.
Extraction "model.ml"
  N.add N.mul N.div_eucl N.compare Byte.of_N Byte.to_N
  enc ser dec_slice logical has_ty wf mem_zst default_of cmp_val
  slice_reader try_from_slice try_from_reader object_length
  max_size max_size_at validate is_zero_size max_unbounded
  ArrayGuard.deserialize.
