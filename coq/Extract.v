(** Extraction of the executable model for the correspondence driver.
    ExtrOcamlBasic only; numbers and bytes stay as extracted inductives. *)
From Coq Require Import String.
From Coq Require Import List NArith.
From Coq.Strings Require Import Byte.
From Borsh Require Import Bytes Result Ty Ser De Entry Schema SchemaFns SchemaSpec ArrayGuard Io Spec SchemaOf SchemaDec WithSchema Cost.
From Borsh Require Import Discr Item DeriveCheck Derive.
From Borsh Require Import Generics GenericsSchema.
From Borsh Require Import IoRechunk.
Require Import ExtrOcamlBasic.
Extraction Language OCaml.
(* stable names for the byte conversions: extraction renames [Byte.of_N]/[Byte.to_N] as soon as
   [Z.of_N]/[Z.to_N] are extracted too *)
Definition byte_of_N := Byte.of_N.
Definition byte_to_N := Byte.to_N.
Extraction "model.ml"
  N.add N.mul N.div_eucl N.compare byte_of_N byte_to_N
  enc ser dec_slice logical has_ty wf mem_zst default_of cmp_val
  slice_reader try_from_slice try_from_reader object_length
  max_size max_size_at validate is_zero_size max_unbounded
  ArrayGuard.deserialize as_written bug_incr_before_write bug_no_reset
  check violations derive_ty documented_sem has_variant_attrs implicit_overflow type_dependent_discr discrs_canonical
  rust_discrs derive_discrs tag_eval canonical parse tokens_of
  decr try_from_reader_count to_writer to_writer_cs sw_write_all fw_write_all vw_write_all run_ops observable io_std io_shim world0
  spec_enc refusable emit_len
  schema_of insert lookup has_schema decl_of sdec erase prim_decl prim_schema_width prim_width all_prims N.of_nat
  ty_container container_to_val val_to_container try_to_vec_with_schema try_from_slice_with_schema
  dec_cost dec_trace fam wire_pos cautious
  bounds_of documented_bounds render render_pred uses occurs type_params
  inner_struct schema_declaration_params schema_declaration inner_scope_ok.
