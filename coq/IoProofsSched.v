(** The scheduled readers against the slice reader: fragmentation and interruption
    change nothing; a hard failure that is reached comes out unchanged; the probe of
    [try_from_reader] takes at most one byte. *)
From Coq Require Import List NArith PArith Bool Lia.
From Borsh Require Import Bytes BytesFacts Result Loop LoopFacts Ty TyInd Ser De Entry Io IoProofsBase IoProofsRead.
Import ListNotations.
Local Open Scope N_scope.

(** A schedule entry that neither fails for good nor ends the stream. *)
Definition benign_entry (r : rresp) : bool :=
  match r with
  | Deliver _ | Interrupt => true
  | Fail Interrupted _ => true
  | Fail _ _ => false
  end.
Definition benign (l : list rresp) : Prop := Forall (fun r => benign_entry r = true) l.
Definition benignb (l : list rresp) : bool := forallb benign_entry l.

Lemma benignb_spec l : benignb l = true <-> benign l.
Proof. unfold benignb, benign. rewrite forallb_forall, Forall_forall. reflexivity. Qed.

(** The most bytes a schedule prefix can hand over. *)
Fixpoint cap (l : list rresp) : N :=
  match l with
  | [] => 0
  | Deliver k :: q => Npos k + cap q
  | _ :: q => cap q
  end.

(** * Two specified readers give the same outcomes *)
Section OutSim.
  Context {S1 S2 : Type}.
  Variable view1 : S1 -> bytes.
  Variable good1 : S1 -> Prop.
  Variable view2 : S2 -> bytes.
  Variable good2 : S2 -> Prop.
  Variable fault : option (kind * msg).
  Definition vrel (s1 : S1) (s2 : S2) : Prop := good1 s1 /\ good2 s2 /\ view1 s1 = view2 s2.

  Lemma out_gsim ek em n s1 s2 r1 r2 :
    view1 s1 = view2 s2 ->
    Out view1 good1 fault ek em n s1 r1 ->
    Out view2 good2 None ek em n s2 r2 ->
    gsim vrel fault r1 r2.
  Proof.
    intros V [(k & m & F & ->)|[(a1 & t1 & -> & G1 & V1 & L1)|(Lt1 & ->)]] H2.
    - left. eauto.
    - right. destruct H2 as [(k & m & F & _)|[(a2 & t2 & -> & G2 & V2 & L2)|(Lt2 & ->)]].
      + discriminate.
      + rewrite V1, V2 in V. apply app_len_inj in V; [|congruence]. destruct V as [-> V].
        cbn. unfold vrel. auto.
      + rewrite <- V, V1, len_app in Lt2. lia.
    - right. destruct H2 as [(k & m & F & _)|[(a2 & t2 & -> & G2 & V2 & L2)|(Lt2 & ->)]].
      + discriminate.
      + rewrite V, V2, len_app in Lt1. lia.
      + cbn. auto.
  Qed.
End OutSim.

(** * The scheduled [read] meets the specification *)
Section Sched.
  Variable tl : list rresp.            (* what follows the benign prefix: nothing, or the failure *)
  Variable fault : option (kind * msg).
  Variable d0 : bytes.                 (* the whole input *)
  Variable c0 : N.                     (* capacity of the benign prefix at the start *)
  Hypothesis Htl :
    match tl with
    | [] => fault = None
    | Fail k m :: _ => fault = Some (k, m) /\ k <> Interrupted
    | _ :: _ => False
    end.

  Definition sgood (st : rstate) : Prop :=
    exists pre, sched st = pre ++ tl /\ benign pre /\
                (tl <> [] -> len d0 + cap pre <= len (data st) + c0).

  Lemma sread_spec : rd_spec sread sbudget data sgood fault.
  Proof.
    intros n [d sch] (pre & Es & Bp & Hc) Hn. cbn [sched data] in *. unfold sread, sbudget, sgood. cbn [sched data].
    destruct pre as [|e pre].
    - (* the benign prefix is used up *)
      cbn [app] in Es. subst sch. destruct tl as [|e tl'] eqn:Etl.
      + destruct (take_upto n d) as [a r] eqn:E. apply take_upto_app in E. destruct E as [-> La].
        cbn [sched data]. repeat split.
        * exists []. cbn. repeat split; [constructor|congruence].
        * lia.
        * intros ->. rewrite len_nil in La. cbn [app] in *. apply len_zero_nil. lia.
        * lia.
      + destruct e as [k| |k m]; try contradiction. destruct Htl as [-> Hk].
        destruct k; try reflexivity. contradiction.
    - cbn [app] in Es. subst sch. inversion Bp as [|? ? Be Bp']; subst.
      assert (Hlen : len (pre ++ tl) < len (e :: pre ++ tl)) by (rewrite len_cons; lia).
      destruct e as [k| |k m].
      + destruct (take_upto (N.min (N.pos k) n) d) as [a r] eqn:E.
        apply take_upto_app in E. destruct E as [-> La]. cbn [sched data]. repeat split.
        * exists pre. repeat split; auto. intros Ht. specialize (Hc Ht).
          cbn [cap] in Hc. rewrite len_app in Hc. lia.
        * lia.
        * intros ->. rewrite len_nil in La. cbn [app] in *. apply len_zero_nil. lia.
        * lia.
      + cbn [sched data]. repeat split; [|lia]. exists pre. repeat split; auto.
      + destruct k; cbn in Be; try discriminate.
        cbn [sched data]. repeat split; [|lia]. exists pre. repeat split; auto.
  Qed.

  Definition srel (st : rstate) (bs : bytes) : Prop := vrel data sgood (fun b : bytes => b) (fun _ => True) st bs.

  Lemma sched_exact_sim shim n st bs :
    srel st bs -> gsim srel fault (rd_exact (sched_reader shim) n st) (rd_exact slice_reader n bs).
  Proof.
    intros (G & _ & V). eapply out_gsim; [exact V| |apply slice_exact_out].
    destruct shim; cbn [sched_reader rd_exact sched_reader_std sched_reader_shim].
    - apply (read_exact_shim_out _ _ _ _ _ sread_spec); assumption.
    - apply (read_exact_std_out _ _ _ _ _ sread_spec); assumption.
  Qed.

  Lemma sched_bulk_sim shim n st bs :
    srel st bs -> gsim srel fault (bulk (sched_reader shim) n st) (bulk slice_reader n bs).
  Proof.
    intros (G & _ & V). eapply out_gsim; [exact V| |apply slice_bulk_out].
    apply (bulk_out _ _ _ _ _ sread_spec); destruct shim; auto.
  Qed.

  Hypothesis fault_not_eof : forall k m, fault = Some (k, m) -> k <> UnexpectedEof.

  Lemma sched_dec_sim shim c t st bs :
    srel st bs -> gsim srel fault (dec (sched_reader shim) c t st) (dec slice_reader c t bs).
  Proof.
    apply dec_sim.
    - exact fault_not_eof.
    - intros; now apply sched_exact_sim.
    - intros; now apply sched_bulk_sim.
  Qed.
End Sched.

(** * Fragmentation and interruption *)
Lemma srel_benign d sch : benign sch -> srel [] d 0 {| data := d; sched := sch |} d.
Proof.
  intros B. split; [|split; [exact I|reflexivity]].
  exists sch. cbn. rewrite app_nil_r. repeat split; auto. congruence.
Qed.

Lemma sgood_benign_inv d0 c0 st : sgood [] d0 c0 st -> benign (sched st).
Proof. intros (pre & E & B & _). rewrite app_nil_r in E. congruence. Qed.

Theorem fragment_sim shim c t d sch :
  benign sch ->
  match dec slice_reader c t d with
  | Ok (v, rest) => exists st', dec (sched_reader shim) c t {| data := d; sched := sch |} = Ok (v, st') /\
                                data st' = rest /\ benign (sched st')
  | Err k m => dec (sched_reader shim) c t {| data := d; sched := sch |} = Err k m
  | Panic w => dec (sched_reader shim) c t {| data := d; sched := sch |} = Panic w
  end.
Proof.
  intros B.
  pose proof (sched_dec_sim [] None d 0 eq_refl ltac:(discriminate) shim c t _ d (srel_benign d sch B)) as H.
  destruct H as [(k & m & F & _)|H]; [discriminate|].
  destruct (dec (sched_reader shim) c t {| data := d; sched := sch |}) as [[v1 s1]|k1 m1|w1],
           (dec slice_reader c t d) as [[v2 s2]|k2 m2|w2]; cbn in H; try contradiction.
  - destruct H as [-> (G & _ & V)]. exists s1. repeat split; auto. eapply sgood_benign_inv; eauto.
  - destruct H as [-> ->]. reflexivity.
  - now subst.
Qed.

Theorem fragment_iff shim c t d sch :
  benign sch ->
  (forall v rest,
     dec slice_reader c t d = Ok (v, rest) <->
     exists st', dec (sched_reader shim) c t {| data := d; sched := sch |} = Ok (v, st') /\ data st' = rest) /\
  (forall k m,
     dec slice_reader c t d = Err k m <->
     dec (sched_reader shim) c t {| data := d; sched := sch |} = Err k m) /\
  (forall w,
     dec slice_reader c t d = Panic w <->
     dec (sched_reader shim) c t {| data := d; sched := sch |} = Panic w).
Proof.
  intros B. pose proof (fragment_sim shim c t d sch B) as H.
  destruct (dec slice_reader c t d) as [[v2 s2]|k2 m2|w2].
  - destruct H as (st' & E & D & _). rewrite E. repeat split.
    + intros H1. inversion H1; subst. eauto.
    + intros (st2 & H1 & H2). inversion H1; subst. reflexivity.
    + discriminate.
    + discriminate.
    + discriminate.
    + discriminate.
  - rewrite H. split; [|split].
    + intros v rest. split; [discriminate|intros (? & ? & _); discriminate].
    + intros k m. split; intros E; inversion E; reflexivity.
    + intros w. split; discriminate.
  - rewrite H. split; [|split].
    + intros v rest. split; [discriminate|intros (? & ? & _); discriminate].
    + intros k m. split; discriminate.
    + intros w. split; intros E; inversion E; reflexivity.
Qed.

(** * A hard failure *)
Lemma srel_fault d pre fk fm post :
  benign pre ->
  srel (Fail fk fm :: post) d (cap pre) {| data := d; sched := pre ++ Fail fk fm :: post |} d.
Proof.
  intros B. split; [|split; [exact I|reflexivity]].
  exists pre. cbn [sched data]. split; [reflexivity|]. split; [assumption|]. intros _. lia.
Qed.

(** Whatever the schedule before the failure: either the failure comes out unchanged,
    or decoding ended before reaching it exactly as it does on the slice. *)
Theorem failure_transparent shim c t d pre fk fm post :
  benign pre -> fk <> Interrupted -> fk <> UnexpectedEof ->
  let r := dec (sched_reader shim) c t {| data := d; sched := pre ++ Fail fk fm :: post |} in
  r = Err fk fm \/
  match dec slice_reader c t d with
  | Ok (v, rest) => exists st', r = Ok (v, st') /\ data st' = rest /\ len d <= len rest + cap pre
  | Err k m => r = Err k m
  | Panic w => r = Panic w
  end.
Proof.
  intros B Hi He r.
  pose proof (sched_dec_sim (Fail fk fm :: post) (Some (fk, fm)) d (cap pre) (conj eq_refl Hi)
                ltac:(intros k m E; inversion E; subst; assumption)
                shim c t _ d (srel_fault d pre fk fm post B)) as H.
  fold r in H. destruct H as [(k & m & F & E)|H].
  - inversion F; subst. left. exact E.
  - right. destruct r as [[v1 s1]|k1 m1|w1], (dec slice_reader c t d) as [[v2 s2]|k2 m2|w2];
      cbn in H; try contradiction.
    + destruct H as [-> ((pre' & _ & _ & Hc) & _ & V)]. exists s1. repeat split; auto.
      cbn in V. rewrite <- V. specialize (Hc ltac:(discriminate)). lia.
    + destruct H as [-> ->]. reflexivity.
    + now subst.
Qed.

(** If the deliveries before the failure cannot cover the value, the failure is reached
    and returned with its kind and message unchanged. *)
Theorem failure_reached shim c t d v rest pre fk fm post :
  dec slice_reader c t d = Ok (v, rest) ->
  benign pre -> cap pre + len rest < len d ->
  fk <> Interrupted -> fk <> UnexpectedEof ->
  dec (sched_reader shim) c t {| data := d; sched := pre ++ Fail fk fm :: post |} = Err fk fm.
Proof.
  intros E B Hc Hi He.
  destruct (failure_transparent shim c t d pre fk fm post B Hi He) as [H|H]; [exact H|].
  rewrite E in H. destruct H as (st' & _ & _ & Hl). lia.
Qed.

(** * The probe of [try_from_reader] / [from_reader] *)
Lemma probe_out shim d0 st :
  sgood [] d0 0 st ->
  match data st with
  | [] => rd_exact (sched_reader shim) 1 st = Err UnexpectedEof MFillWhole
  | _ :: _ => exists b st', rd_exact (sched_reader shim) 1 st = Ok ([b], st') /\ data st = b :: data st'
  end.
Proof.
  intros G.
  assert (H : Out data (sgood [] d0 0) None UnexpectedEof MFillWhole 1 st (rd_exact (sched_reader shim) 1 st)).
  { destruct shim; cbn [sched_reader rd_exact sched_reader_std sched_reader_shim].
    - apply (read_exact_shim_out _ _ _ _ _ (sread_spec [] None d0 0 eq_refl)); assumption.
    - apply (read_exact_std_out _ _ _ _ _ (sread_spec [] None d0 0 eq_refl)); assumption. }
  destruct H as [(k & m & F & _)|[(a & st' & E & _ & V & L)|(Lt & E)]]; [discriminate| |].
  - rewrite V. destruct a as [|b [|b' a]].
    + rewrite len_nil in L. lia.
    + cbn [app]. exists b, st'. auto.
    + rewrite !len_cons in L. lia.
  - destruct (data st) as [|b r]; [exact E|]. rewrite len_cons in Lt. lia.
Qed.

Theorem probe_count shim c t d sch :
  benign sch ->
  try_from_reader_count shim c t {| data := d; sched := sch |} =
  match dec slice_reader c t d with
  | Ok (v, []) => (Ok v, Some (len d))
  | Ok (v, ((_ :: _) as rest)) => (Err InvalidData MNotAllBytesRead, Some (len d + 1 - len rest))
  | Err k m => (Err k m, None)
  | Panic w => (Panic w, None)
  end.
Proof.
  intros B. unfold try_from_reader_count.
  pose proof (sched_dec_sim [] None d 0 eq_refl ltac:(discriminate) shim c t _ d (srel_benign d sch B)) as H.
  destruct H as [(k & m & F & _)|H]; [discriminate|].
  destruct (dec (sched_reader shim) c t {| data := d; sched := sch |}) as [[v1 s1]|k1 m1|w1],
           (dec slice_reader c t d) as [[v2 s2]|k2 m2|w2]; cbn in H; try contradiction.
  - destruct H as [-> (G & _ & V)]. cbn in V. subst s2.
    pose proof (probe_out shim d s1 G) as P. unfold pulled. cbn [data].
    destruct (data s1) as [|b r] eqn:Ed.
    + rewrite P. rewrite len_nil. f_equal. f_equal. lia.
    + destruct P as (b' & st' & -> & Eq). inversion Eq; subst. f_equal. f_equal.
      rewrite len_cons. lia.
  - destruct H as [-> ->]. reflexivity.
  - now subst.
Qed.

(** The counting variant returns what [Entry.try_from_reader] returns. *)
Lemma try_from_reader_count_fst shim c t st :
  fst (try_from_reader_count shim c t st) = rmap fst (try_from_reader (sched_reader shim) c t st).
Proof.
  unfold try_from_reader_count, try_from_reader, rmap.
  destruct (dec (sched_reader shim) c t st) as [[v s1]|k m|w]; cbn [bind fst]; try reflexivity.
  destruct (rd_exact (sched_reader shim) 1 s1) as [[b s2]|k m|w]; cbn [bind fst]; try reflexivity.
  destruct k; reflexivity.
Qed.

(** [try_from_reader] under fragmentation and interruption is [try_from_slice]. *)
Theorem try_from_reader_slice shim c t d sch :
  benign sch ->
  rmap fst (try_from_reader (sched_reader shim) c t {| data := d; sched := sch |}) = try_from_slice c t d.
Proof.
  intros B. rewrite <- try_from_reader_count_fst, (probe_count shim c t d sch B).
  unfold try_from_slice, dec_slice.
  destruct (dec slice_reader c t d) as [[v [|b r]]|k m|w]; reflexivity.
Qed.

Theorem probe_all shim c t d sch :
  benign sch ->
  rmap fst (try_from_reader (sched_reader shim) c t {| data := d; sched := sch |}) = try_from_slice c t d /\
  fst (try_from_reader_count shim c t {| data := d; sched := sch |}) =
    rmap fst (try_from_reader (sched_reader shim) c t {| data := d; sched := sch |}) /\
  try_from_reader_count shim c t {| data := d; sched := sch |} =
  match dec slice_reader c t d with
  | Ok (v, []) => (Ok v, Some (len d))
  | Ok (v, ((_ :: _) as rest)) => (Err InvalidData MNotAllBytesRead, Some (len d + 1 - len rest))
  | Err k m => (Err k m, None)
  | Panic w => (Panic w, None)
  end.
Proof.
  intros B. split; [now apply try_from_reader_slice|]. split; [apply try_from_reader_count_fst|now apply probe_count].
Qed.
