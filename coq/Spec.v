(** The reference encoder, written from the Borsh specification, and the set of values the
    implementation is allowed to refuse, written from the text of property C02.

    Independent of the model of the code (Ser.v): it shares with it only the type universe
    and the values ([Ty.ty], [Ty.val]), byte strings ([Bytes.byte], [Bytes.bytes]), the order
    on keys ([Ty.cmp_val], Rust's [Ord]) and the memory-zero-size judgement ([Ty.mem_zst],
    used by [refusable] only).  No trace machinery, no [Bytes.le], no combinator of Ty.v.

    [spec_enc t v] takes the LOGICAL value (what [Ty.logical] produces): ordered and hashed
    collections in ascending key order, a deque as [VL [VL joined; VL []]], skipped fields
    present (as their default) but not written, wrappers transparent.  Definitions only. *)
From Coq Require Import String.
From Coq Require Import List NArith Bool.
From Coq.Strings Require Import Byte.
From Borsh Require Import Bytes Ty.
Import ListNotations.
Local Open Scope N_scope.

(** * Option monad *)
Definition sbind {A B} (o : option A) (f : A -> option B) : option B :=
  match o with Some a => f a | None => None end.

(** [b1 ++ b2] when both parts exist *)
Definition oapp (a b : option bytes) : option bytes :=
  sbind a (fun x => option_map (app x) b).

Section AllSome.
  Context {A B : Type}.
  Variable f : A -> option B.
  (** [map f l] when every element has an image *)
  Fixpoint all_some (l : list A) : option (list B) :=
    match l with
    | [] => Some []
    | x :: r => sbind (f x) (fun y => option_map (cons y) (all_some r))
    end.
End AllSome.

(** the encodings of the elements, one after the other *)
Definition concat_enc {A} (f : A -> option bytes) (l : list A) : option bytes :=
  option_map (@concat byte) (all_some f l).

(** * Little-endian, positionally: byte [i] of [n] is [(n / 256^i) mod 256] *)
Definition byte_of (n : N) : byte :=
  match Byte.of_N n with Some b => b | None => x00 end.
Definition digit (i : nat) (n : N) : N := (n / 256 ^ N.of_nat i) mod 256.
Definition spec_le (w : nat) (n : N) : bytes := map (fun i => byte_of (digit i n)) (seq 0 w).

(** a [w]-byte unsigned integer; a number that does not fit has no encoding *)
Definition spec_uint (w : nat) (n : N) : option bytes :=
  if n <? 256 ^ N.of_nat w then Some (spec_le w n) else None.

(** number of elements, and the 4-byte count written before every dynamically sized
    sequence, string or map: absent from 2^32 elements on *)
Definition count_of {A} (l : list A) : N := N.of_nat (length l).
Definition with_count {A} (l : list A) (body : option bytes) : option bytes :=
  oapp (spec_uint 4 (count_of l)) body.

(** * Primitives.  Integers are their two's-complement bit pattern, floats their IEEE bits. *)
Definition spec_width (p : prim) : nat :=
  match p with
  | PInt _ w | PNonZero _ w =>
      match w with W1 => 1 | W2 => 2 | W4 => 4 | W8 => 8 | W16 => 16 end
  | PSize _ | PNonZeroSize => 8          (* usize / isize travel as 64-bit integers *)
  | PFloat double => if double then 8 else 4
  | PBool | PAsciiChar => 1
  end%nat.

(** NaN: the magnitude bits exceed those of infinity *)
Definition spec_nan (double : bool) (bits : N) : bool :=
  if double then 2047 * 2 ^ 52 <? bits mod 2 ^ 63
  else 255 * 2 ^ 23 <? bits mod 2 ^ 31.

Definition spec_prim (p : prim) (n : N) : option bytes :=
  match p with
  | PFloat d => if spec_nan d n then None else spec_uint (spec_width p) n
  | PBool => match n with 0 => Some [x00] | 1 => Some [x01] | _ => None end
  | _ => spec_uint (spec_width p) n
  end.

(** a list of small numbers as the bytes they are *)
Definition spec_byte (v : val) : option byte :=
  match v with
  | VN n => if n <? 256 then Some (byte_of n) else None
  | _ => None
  end.
Definition spec_bytes (l : list val) : option bytes := all_some spec_byte l.

Definition spec_raw_len (k : raw_kind) : N :=
  match k with RIpv4 => 4 | RIpv6 => 16 | RObjectId => 12 end.

(** * Collections *)
Definition spec_is_map (k : seq_kind) : bool :=
  match k with SBTreeMap | SHashMap | SIndexMap => true | _ => false end.
(** kinds whose wire order is ascending key order *)
Definition spec_sorted_kind (k : seq_kind) : bool :=
  match k with SBTreeSet | SBTreeMap | SHashSet | SHashMap => true | _ => false end.
(** a map is a sequence of (key, value) pairs; the key is the first component *)
Definition spec_key_ty (k : seq_kind) (t : ty) : ty :=
  if spec_is_map k then match t with TProd _ (kt :: _) => kt | _ => t end else t.
Definition spec_key (k : seq_kind) (v : val) : val :=
  if spec_is_map k then match v with VL (kv :: _) => kv | _ => v end else v.

Section Ascending.
  Variable lt : val -> val -> bool.
  (** every element is strictly below its successor *)
  Fixpoint ascending (l : list val) : bool :=
    match l with
    | [] => true
    | x :: r => match r with
                | [] => true
                | y :: _ => lt x y && ascending r
                end
    end.
End Ascending.

Definition key_lt (k : seq_kind) (t : ty) (a b : val) : bool :=
  match cmp_val (spec_key_ty k t) (spec_key k a) (spec_key k b) with Lt => true | _ => false end.

(** * Products and sums *)
Definition spec_skips (k : prod_kind) : list bool :=
  match k with PStruct _ _ sk | PVariant _ sk => sk | _ => [] end.

Section Fields.
  Variable f : ty -> val -> option bytes.
  (** fields in declaration order, skipped ones not written; a flag list that is too
      short means "not skipped" *)
  Fixpoint spec_fields (ts : list ty) (sk : list bool) (l : list val) : option bytes :=
    match ts, l with
    | [], [] => Some []
    | t' :: tr, x :: r =>
        oapp (if hd false sk then Some [] else f t' x) (spec_fields tr (tl sk) r)
    | _, _ => None
    end.
End Fields.

(** the tag byte of the [i]-th variant in declaration order *)
Definition spec_tag (k : sum_kind) (i : nat) : option N :=
  match k with
  | KOption => match i with O => Some 0 (* None *) | S O => Some 1 (* Some *) | _ => None end
  | KResult => match i with O => Some 1 (* Ok *) | S O => Some 0 (* Err *) | _ => None end
  | KIpAddr | KSocketAddr => match i with O => Some 0 (* V4 *) | S O => Some 1 (* V6 *) | _ => None end
  | KEnum _ _ tags => nth_error tags i
  end.

Section AtVariant.
  Context {R : Type}.
  Variable f : ty -> R.
  Variable d : R.
  (** [f] at the payload type of the [i]-th variant *)
  Fixpoint at_variant (vs : list ty) (i : nat) : R :=
    match vs, i with
    | t' :: _, O => f t'
    | _ :: r, S i' => at_variant r i'
    | [], _ => d
    end.
End AtVariant.

(** * The reference encoder *)
Fixpoint spec_enc (t : ty) (v : val) {struct t} : option bytes :=
  match t with
  | TPrim p => match v with VN n => spec_prim p n | _ => None end
  | TUnit _ => match v with VL [] => Some [] | _ => None end
  | TRaw k =>                                  (* fixed number of bytes, no count *)
      match v with
      | VL l => if count_of l =? spec_raw_len k then spec_bytes l else None
      | _ => None
      end
  | TText _ => match v with VL l => with_count l (spec_bytes l) | _ => None end
  | TSeq k t' =>
      match k, v with
      | SDeque, VL [VL l; VL []] => with_count l (concat_enc (spec_enc t') l)
      | SDeque, _ => None
      | _, VL l =>
          if spec_sorted_kind k && negb (ascending (key_lt k t') l) then None
          else with_count l (concat_enc (spec_enc t') l)
      | _, _ => None
      end
  | TArray n t' =>                             (* fixed length: no count *)
      match v with
      | VL l => if count_of l =? n then concat_enc (spec_enc t') l else None
      | _ => None
      end
  | TProd k ts =>
      match v with
      | VL l => spec_fields (fun t' x => spec_enc t' x) ts (spec_skips k) l
      | _ => None
      end
  | TSum k vs =>
      match v with
      | VV i x =>
          oapp (sbind (spec_tag k (N.to_nat i)) (spec_uint 1))
               (at_variant (fun t' => spec_enc t' x) None vs (N.to_nat i))
      | _ => None
      end
  | TWrap _ t' => spec_enc t' v
  end.

(** * What may be refused (property C02): the value -- as a representation -- contains, in a
    position that is written, a NaN, a dynamically sized collection or string with 2^32 or
    more elements, or a collection of a kind that guards against zero-sized elements whose
    element (key, for maps) type occupies no memory. *)
Definition too_many (n : N) : bool := 2 ^ 32 <=? n.

(** every collection impl except the one for borrowed slices [[T]] starts with the guard *)
Definition guards (k : seq_kind) : bool :=
  match k with SSlice => false | _ => true end.

Section AnyField.
  Variable f : ty -> val -> bool.
  Fixpoint any_field (ts : list ty) (sk : list bool) (l : list val) : bool :=
    match ts, l with
    | t' :: tr, x :: r => (if hd false sk then false else f t' x) || any_field tr (tl sk) r
    | _, _ => false
    end.
End AnyField.

Fixpoint refusable (t : ty) (v : val) {struct t} : bool :=
  match t with
  | TPrim (PFloat d) => match v with VN n => spec_nan d n | _ => false end
  | TPrim _ | TUnit _ | TRaw _ => false
  | TText _ => match v with VL l => too_many (count_of l) | _ => false end
  | TSeq k t' =>
      (guards k && mem_zst (spec_key_ty k t')) ||
      match k, v with
      | SDeque, VL [VL a; VL b] =>
          too_many (count_of a + count_of b) || existsb (refusable t') a || existsb (refusable t') b
      | SDeque, _ => false
      | _, VL l => too_many (count_of l) || existsb (refusable t') l
      | _, _ => false
      end
  | TArray _ t' => match v with VL l => existsb (refusable t') l | _ => false end
  | TProd k ts =>
      match v with
      | VL l => any_field (fun t' x => refusable t' x) ts (spec_skips k) l
      | _ => false
      end
  | TSum _ vs =>
      match v with
      | VV i x => at_variant (fun t' => refusable t' x) false vs (N.to_nat i)
      | _ => false
      end
  | TWrap _ t' => refusable t' v
  end.
