(** Finding F25: "zero-sized" as a LEAST fixed point ([ZeroSized], the notion the code's
    [is_zero_size] implements: a declaration met again on the recursion stack counts as not
    zero-sized) is strictly weaker than "every value is empty" once a cycle runs through
    untagged definitions.  Witness: [X = Enum { tag_width 0, [A -> U, B -> X] }], [U = Tuple []]:
    the values of X are A, B(A), B(B(A)), ... and every one of them encodes to no bytes, X is
    inhabited, and X is not [ZeroSized].  A dynamically sized sequence of X therefore passes
    validation ([validate] is run on the witness below) although all its elements are always
    empty, and [max_size] of X is [Recursive] although the true maximum is 0. *)
From Coq Require Import String List NArith ZArith Bool Lia.
From Borsh Require Import Schema SchemaFns SchemaSpec.
Import ListNotations.
Local Open Scope N_scope.
Local Open Scope string_scope.

Definition cyc_defs : list (string * definition) :=
  [("S", Sequence 4 0 10 "X");
   ("U", Tuple []);
   ("X", Enum 0 [(0%Z, "A", "U"); (1%Z, "B", "X")])].
Definition cyc_seq : container := {| root := "S"; defs := cyc_defs |}.
Definition cyc_x : container := {| root := "X"; defs := cyc_defs |}.

Lemma cyc_get d : get_definition cyc_seq d =
  if String.eqb "S" d then Some (Sequence 4 0 10 "X")
  else if String.eqb "U" d then Some (Tuple [])
  else if String.eqb "X" d then Some (Enum 0 [(0%Z, "A", "U"); (1%Z, "B", "X")]) else None.
Proof. reflexivity. Qed.

(** every value of X (and of U) is empty *)
Lemma cyc_sizes_zero : forall d n, sizes cyc_seq d n -> d <> "S" -> n = 0.
Proof.
  intros d n H. induction H as [d s Hg|d lw lo hi el ns Hg Hlo Hhi Hf|d els ns Hg Hf|d tw vs v n Hg Hin Hs IH|d fs ns Hg Hf];
    intros Hd; rewrite cyc_get in Hg.
  - destruct (String.eqb "S" d); [discriminate|]. destruct (String.eqb "U" d); [discriminate|].
    destruct (String.eqb "X" d); discriminate.
  - destruct (String.eqb_spec "S" d) as [E|_]; [congruence|]. destruct (String.eqb "U" d); [discriminate|].
    destruct (String.eqb "X" d); discriminate.
  - destruct (String.eqb "S" d); [discriminate|]. destruct (String.eqb "U" d).
    + inversion Hg; subst. inversion Hf; subst. reflexivity.
    + destruct (String.eqb "X" d); discriminate.
  - destruct (String.eqb "S" d); [discriminate|]. destruct (String.eqb "U" d); [discriminate|].
    destruct (String.eqb "X" d); [|discriminate]. inversion Hg; subst.
    destruct Hin as [<-|[<-|[]]]; cbn [variant_decl snd] in *; rewrite IH by discriminate; reflexivity.
  - destruct (String.eqb "S" d); [discriminate|]. destruct (String.eqb "U" d); [discriminate|].
    destruct (String.eqb "X" d); discriminate.
Qed.

Lemma cyc_x_inhabited : Inhabited cyc_seq "X".
Proof.
  exists (0 + 0). apply (Sz_enum cyc_seq "X" 0 [(0%Z, "A", "U"); (1%Z, "B", "X")] (0%Z, "A", "U") 0).
  - reflexivity.
  - left. reflexivity.
  - cbn [variant_decl snd]. apply (Sz_tuple cyc_seq "U" [] []); [reflexivity|constructor].
Qed.

(** ... and X is not zero-sized in the least-fixed-point sense: a derivation of [ZeroSized X]
    would contain a strictly smaller one *)
Fixpoint cyc_x_not_lfp (d : string) (H : ZeroSized cyc_seq d) {struct H} : d <> "X".
Proof.
  destruct H as [d Hg|d lo hi el Hg _ _|d lo hi el Hg _|d els Hg _|d vs Hg HF|d fs Hg _];
    rewrite cyc_get in Hg; intros ->; cbn in Hg; try discriminate.
  inversion Hg; subst vs. clear Hg. cbn [map variant_decl snd] in HF.
  inversion HF as [|a l Ha HF']; subst. inversion HF' as [|a' l' Hx _]; subst.
  exact (cyc_x_not_lfp "X" Hx eq_refl).
Qed.

Theorem zero_sized_lfp_incomplete :
  exists c d, (forall n, sizes c d n -> n = 0) /\ Inhabited c d /\ ~ ZeroSized c d.
Proof.
  exists cyc_seq, "X". split; [|split].
  - intros n H. apply (cyc_sizes_zero "X" n H). discriminate.
  - exact cyc_x_inhabited.
  - intros H. exact (cyc_x_not_lfp "X" H eq_refl).
Qed.

(** what the transcribed code says about the witness *)
Example cyc_validate_ok : validate cyc_seq = SOk tt.
Proof. vm_compute. reflexivity. Qed.
Example cyc_max_size_recursive : max_size cyc_x = SErr MRecursive.
Proof. vm_compute. reflexivity. Qed.
