(** Sample instances used by the non-vacuity examples of Properties/C11-C13 (definitions only). *)
From Coq Require Import List NArith PArith Bool.
From Coq.Strings Require Import Byte.
From Borsh Require Import Bytes Result Ty Ser De Entry Io.
Import ListNotations.
Local Open Scope N_scope.

Definition c11_ty : ty := TProd PTuple [TSeq SVec (TPrim (PInt false W1)); TPrim (PInt false W2)].
Definition c11_data : bytes := [x03; x00; x00; x00; x0a; x0b; x0c; x01; x02; xff].
Definition c11_sched : list rresp :=
  [Deliver 1; Interrupt; Deliver 2; Deliver 5; Interrupt; Fail Interrupted (MUser 9); Deliver 1; Deliver 1; Deliver 7].


Definition c12_ty : ty := TProd PTuple [TText XString; TSum KOption [TUnit UUnit; TPrim (PInt false W4)]].
Definition c12_val : val := VL [VL [VN 104; VN 105]; VV 1 (VN 258)].

Definition c13_ops : list io_op :=
  [ORead 2; OWriteAll TSlice [x01; x02; x03]; OByRef (OReadExact 5); OWrite TSlice [x04; x05];
   ORead 1; OWriteAll TSlice [x06]; OWriteAll TVec [x07; x08]].
