(** Decoders on in-memory input as well-behaved parsers: a successful run reads a
    prefix [pre] of the input, satisfies a relation [V value pre], behaves the same
    whatever follows [pre], and fails with "unexpected length" on every proper prefix of
    [pre]; a failing run fails with [InvalidData]; nothing panics. *)
From Coq Require Import String.
From Coq Require Import List NArith Bool Lia.
From Coq.Strings Require Import Byte.
From Borsh Require Import Bytes BytesFacts Result Loop LoopFacts Ty TyInd Ser De CodecFacts.
Import ListNotations.
Local Open Scope N_scope.

Definition parser (A : Type) := bytes -> result (A * bytes).

Definition PS {A} (V : A -> bytes -> Prop) (p : parser A) : Prop :=
  forall bs,
    match p bs with
    | Ok (a, r) => exists pre, bs = pre ++ r /\ V a pre /\ (forall r', p (pre ++ r') = Ok (a, r')) /\
                               (forall q1 q2, pre = q1 ++ q2 -> q2 <> [] -> p q1 = Err InvalidData MUnexpectedLength)
    | Err k _ => k = InvalidData
    | Panic _ => False
    end.

Lemma PS_weaken {A} (V W : A -> bytes -> Prop) p : (forall a pre, V a pre -> W a pre) -> PS V p -> PS W p.
Proof.
  intros HVW H bs. specialize (H bs). destruct (p bs) as [[a r]|k m|w]; auto.
  destruct H as (pre & E & Hv & Hext & Htr). exists pre. auto.
Qed.

Lemma PS_ext {A} (V : A -> bytes -> Prop) p q : (forall bs, p bs = q bs) -> PS V p -> PS V q.
Proof.
  intros E H bs. specialize (H bs). rewrite <- E. destruct (p bs) as [[a r]|k m|w]; auto.
  destruct H as (pre & E1 & Hv & Hext & Htr). exists pre. repeat split; auto.
  - intros r'. rewrite <- E. apply Hext.
  - intros q1 q2 Hq Hne. rewrite <- E. eapply Htr; eauto.
Qed.

Lemma PS_ret {A} (a : A) (V : A -> bytes -> Prop) : V a [] -> PS V (fun bs => Ok (a, bs)).
Proof.
  intros Hv bs. exists []. repeat split; auto.
  intros q1 q2 Hq Hne. symmetry in Hq. apply app_eq_nil in Hq. destruct Hq; contradiction.
Qed.

Lemma PS_fail {A} (V : A -> bytes -> Prop) m : PS V (fun _ => Err InvalidData m).
Proof. intros bs. reflexivity. Qed.

Lemma split_app_cases {A} (a b c d : list A) :
  a ++ b = c ++ d ->
  (exists m, c = a ++ m /\ b = m ++ d) \/ (exists m, a = c ++ m /\ d = m ++ b).
Proof.
  revert c; induction a as [|x a IH]; intros c H.
  - left. exists c. auto.
  - destruct c as [|y c].
    + right. exists (x :: a). auto.
    + cbn in H. inversion H; subst. destruct (IH c H2) as [(m & -> & ->)|(m & -> & ->)].
      * left. exists m. auto.
      * right. exists m. auto.
Qed.

(** sequencing *)
Lemma PS_bind {A B} (V : A -> bytes -> Prop) (W : B -> bytes -> Prop)
      (p : parser A) (q : A -> parser B) :
  PS V p ->
  (forall a pre1, V a pre1 -> PS (fun b pre2 => W b (pre1 ++ pre2)) (q a)) ->
  PS W (fun bs => '(a, r) <- p bs ;; q a r).
Proof.
  intros Hp Hq bs. specialize (Hp bs).
  destruct (p bs) as [[a r]|k m|w] eqn:Ep; cbn [bind]; auto.
  destruct Hp as (pre1 & E1 & Hv & Hext1 & Htr1).
  specialize (Hq a pre1 Hv r).
  destruct (q a r) as [[b r2]|k m|w] eqn:Eq; auto.
  destruct Hq as (pre2 & E2 & Hw & Hext2 & Htr2).
  exists (pre1 ++ pre2). repeat split.
  - rewrite E1, E2. now rewrite app_assoc.
  - exact Hw.
  - intros r'. rewrite <- app_assoc, Hext1. cbn [bind]. apply Hext2.
  - intros q1 q2 Hsplit Hne.
    (* q1 is a proper prefix of pre1 ++ pre2: it ends inside pre1 or inside pre2 *)
    destruct (split_app_cases _ _ _ _ Hsplit) as [(m & Hm1 & Hm2)|(m & Hm1 & Hm2)].
    + (* q1 = pre1 ++ m, pre2 = m ++ q2 *)
      subst q1. rewrite Hext1. cbn [bind]. eapply Htr2; eauto.
    + (* pre1 = q1 ++ m, q2 = m ++ pre2 *)
      destruct m as [|m0 mr].
      * rewrite app_nil_r in Hm1. subst q1. cbn [app] in Hm2. subst q2.
        rewrite <- (app_nil_r pre1), Hext1. cbn [bind]. eapply (Htr2 [] pre2); auto.
      * rewrite (Htr1 q1 (m0 :: mr) Hm1) by discriminate. reflexivity.
Qed.

(** post-processing of the value that may reject with InvalidData *)
Lemma PS_post {A B} (V : A -> bytes -> Prop) (W : B -> bytes -> Prop) (p : parser A) (g : A -> result B) :
  PS V p ->
  (forall a pre, V a pre -> match g a with Ok b => W b pre | Err k _ => k = InvalidData | Panic _ => False end) ->
  PS W (fun bs => '(a, r) <- p bs ;; b <- g a ;; Ok (b, r)).
Proof.
  intros Hp Hg bs. specialize (Hp bs).
  destruct (p bs) as [[a r]|k m|w] eqn:Ep; cbn [bind]; auto.
  destruct Hp as (pre & E1 & Hv & Hext & Htr). specialize (Hg a pre Hv).
  destruct (g a) as [b|k m|w] eqn:Eg; cbn [bind]; auto.
  exists pre. repeat split; auto.
  - intros r'. rewrite Hext. cbn [bind]. rewrite Eg. reflexivity.
  - intros q1 q2 Hq Hne. rewrite (Htr q1 q2 Hq Hne). reflexivity.
Qed.

(** * Primitive reads *)
Lemma PS_read n : PS (fun a pre => a = pre /\ len a = n) (read_mapped slice_reader n).
Proof.
  intros bs. destruct (read_mapped_slice_cases bs n) as [(a & rest & E & L & ->)|[L ->]]; [|reflexivity].
  exists a. repeat split; auto.
  - intros r'. now apply read_mapped_app.
  - intros q1 q2 Hq Hne. apply read_mapped_short. rewrite <- L, Hq, len_app.
    destruct q2; [contradiction|rewrite len_cons; lia].
Qed.

Lemma PS_read_u8 : PS (fun n pre => pre = [n2b n] /\ n < 256) (read_u8 slice_reader).
Proof.
  intros bs. unfold read_u8.
  destruct (read_mapped_slice_cases bs 1) as [(a & rest & E & L & ->)|[L ->]]; [|reflexivity].
  cbn [bind]. destruct a as [|b [|? ?]]; rewrite ?len_cons, ?len_nil in L; try lia.
  exists [b]. cbn [unle]. replace (b2n b + 256 * 0) with (b2n b) by lia.
  repeat split; auto.
  - now rewrite n2b_b2n.
  - apply b2n_lt.
  - intros r'. rewrite (read_mapped_app [b] r' 1) by reflexivity. cbn [bind unle].
    now replace (b2n b + 256 * 0) with (b2n b) by lia.
  - intros q1 q2 Hq Hne. rewrite read_mapped_short; [reflexivity|].
    assert (len [b] = len q1 + len q2) by (rewrite Hq; apply len_app).
    rewrite len_cons, len_nil in H. destruct q2; [contradiction|rewrite len_cons in H; lia].
Qed.

Lemma PS_read_u32 : PS (fun n pre => pre = le 4 n /\ n < U32_LIMIT) (read_u32 slice_reader).
Proof.
  intros bs. unfold read_u32.
  destruct (read_mapped_slice_cases bs 4) as [(a & rest & E & L & ->)|[L ->]]; [|reflexivity].
  cbn [bind].
  assert (Hlen : length a = 4%nat) by (rewrite len_eq in L; lia).
  exists a. repeat split; auto.
  - rewrite <- Hlen. symmetry. apply le_unle.
  - pose proof (unle_bound a) as Hb. rewrite Hlen in Hb. exact Hb.
  - intros r'. rewrite (read_mapped_app a r' 4) by exact L. reflexivity.
  - intros q1 q2 Hq Hne. rewrite read_mapped_short; [reflexivity|].
    rewrite <- L, Hq, len_app. destruct q2; [contradiction|rewrite len_cons; lia].
Qed.

(** * The element loop *)
Definition iter_step {A} (f : parser A) : list A * bytes -> result (list A * bytes) :=
  fun '(acc, s) => '(v, s') <- f s ;; Ok (v :: acc, s').

Lemma PS_iter {A} (f : parser A) (V : A -> bytes -> Prop) (W : list A -> bytes -> Prop) :
  PS V f ->
  (forall a l p1 p2, V a p1 -> W l p2 -> W (l ++ [a]) (p2 ++ p1)) ->
  forall n acc pacc, W (rev acc) pacc ->
  PS (fun l pre => W (rev l) (pacc ++ pre)) (fun s => iterN n (iter_step f) (acc, s)).
Proof.
  intros Hf Wstep n. induction n as [|n IH] using N.peano_ind; intros acc pacc Hacc.
  - cbn [iterN]. apply PS_ret. now rewrite app_nil_r.
  - eapply PS_ext with (p := fun bs => '(a, r) <- f bs ;; iterN n (iter_step f) (a :: acc, r)).
    { intros bs. rewrite iterN_succ. unfold iter_step at 2. destruct (f bs) as [[a r]|k m|w]; reflexivity. }
    eapply (PS_bind V).
    + exact Hf.
    + intros a p1 Hv. eapply PS_weaken; [|apply (IH (a :: acc) (pacc ++ p1))].
      * intros l pre Hw. now rewrite app_assoc.
      * cbn [rev]. now apply Wstep.
Qed.

(** a list decoded element by element: the input prefix is the concatenation of the
    elements' prefixes, each related to its element *)
Inductive chunks {A} (V : A -> bytes -> Prop) : list A -> bytes -> Prop :=
| chunks_nil : chunks V [] []
| chunks_snoc l a p1 p2 : chunks V l p2 -> V a p1 -> chunks V (l ++ [a]) (p2 ++ p1).

Lemma PS_strengthen {A} (V : A -> bytes -> Prop) (U : A -> Prop) (p : parser A) :
  PS V p -> (forall bs a r, p bs = Ok (a, r) -> U a) -> PS (fun a pre => V a pre /\ U a) p.
Proof.
  intros Hp HU bs. specialize (Hp bs). destruct (p bs) as [[a r]|k m|w] eqn:E; auto.
  destruct Hp as (pre & E1 & Hv & Hext & Htr). exists pre. repeat split; auto. eapply HU; eauto.
Qed.

Lemma iter_step_len {A} (f : parser A) n acc s acc' s' :
  iterN n (iter_step f) (acc, s) = Ok (acc', s') -> len acc' = len acc + n.
Proof.
  intros H.
  pose (Inv := fun (i : N) (st : list A * bytes) => len (fst st) = len acc + i).
  assert (HI : Inv (0 + n) (acc', s')).
  { apply (iterN_ok_inv (iter_step f) Inv n 0 (acc, s) (acc', s')); [|unfold Inv; cbn [fst]; lia|exact H].
    intros i [a0 s0] [a1 s1] _ _ HI0 Hf. unfold iter_step in Hf.
    destruct (f s0) as [[v s2]|k m|w]; cbn in Hf; try discriminate. inversion Hf; subst.
    unfold Inv in *. cbn [fst] in *. rewrite len_cons. lia. }
  unfold Inv in HI. cbn [fst] in HI. lia.
Qed.

Lemma PS_repeat_dec (f : parser val) (V : val -> bytes -> Prop) n :
  PS V f -> PS (fun l pre => chunks V l pre /\ len l = n) (repeat_dec f n).
Proof.
  intros Hf. unfold repeat_dec.
  eapply PS_ext with (p := fun s => '(acc, s') <- iterN n (iter_step f) ([], s) ;; l <- Ok (rev acc) ;; Ok (l, s')).
  { intros bs. unfold iter_step. destruct (iterN n _ ([], bs)) as [[a r]|k m|w]; reflexivity. }
  eapply PS_post with (V := fun acc pre => chunks V (rev acc) pre /\ len acc = n).
  - apply PS_strengthen with (U := fun acc => len acc = n).
    + eapply PS_weaken; [|apply (PS_iter f V (chunks V) Hf) with (acc := []) (pacc := [])].
      * intros a pre H. exact H.
      * intros a l p1 p2 Hv Hc. now constructor.
      * constructor.
    + intros bs a r E. apply iter_step_len in E. rewrite len_nil in E. lia.
  - intros acc pre [Hc Hl]. cbn. split; [exact Hc|]. rewrite !len_eq in *. now rewrite rev_length.
Qed.

Lemma PS_bulk n : 0 < n -> PS (fun a pre => a = pre /\ len a = n) (bulk slice_reader n).
Proof.
  intros Hn bs. destruct (bulk_slice_cases n bs Hn) as [(a & rest & E & L & ->)|[L ->]]; [|reflexivity].
  exists a. repeat split; auto.
  - intros r'. rewrite <- L. apply bulk_slice. lia.
  - intros q1 q2 Hq Hne. apply bulk_slice_short; [exact Hn|].
    rewrite <- L, Hq, len_app. destruct q2; [contradiction|rewrite len_cons; lia].
Qed.

Lemma len_of_bytes b : len (of_bytes b) = len b.
Proof. unfold of_bytes. rewrite !len_eq, map_length. reflexivity. Qed.

(** what [dec_vec] accepts: a u32 count, then the body *)
Definition vecV (u8 : bool) (V : val -> bytes -> Prop) (l : list val) (pre : bytes) : Prop :=
  exists body, pre = le 4 (len l) ++ body /\ len l < U32_LIMIT /\
               (if u8 then l = of_bytes body else chunks V l body).

Lemma PS_dec_vec u8 (f : parser val) V : PS V f -> PS (vecV u8 V) (dec_vec slice_reader u8 f).
Proof.
  intros Hf. unfold dec_vec.
  eapply (PS_bind _ _ (read_u32 slice_reader)); [apply PS_read_u32|].
  intros n pre1 [-> Hn].
  destruct (N.eqb_spec n 0) as [->|Hn0].
  - apply PS_ret. exists []. split; [reflexivity|]. split; [reflexivity|]. destruct u8; [reflexivity|constructor].
  - destruct u8.
    + eapply PS_ext with (p := fun s => '(b, s2) <- bulk slice_reader n s ;; l <- Ok (of_bytes b) ;; Ok (l, s2)).
      { intros bs. destruct (bulk slice_reader n bs) as [[b r]|k m|w]; reflexivity. }
      eapply PS_post; [apply PS_bulk; lia|].
      intros b pre [E L]. subst pre. cbn. exists b. rewrite len_of_bytes, L. repeat split; auto.
    + eapply PS_weaken; [|apply (PS_repeat_dec f V n Hf)].
      intros l pre [Hc Hl]. exists pre. rewrite Hl. repeat split; auto.
Qed.

(** * Every decoder of the family is a well-behaved parser (C05, C16, no panic) *)
Definition anyV : val -> bytes -> Prop := fun _ _ => True.

Lemma PS_any {A} (V : A -> bytes -> Prop) p : PS V p -> PS (fun _ _ => True) p.
Proof. apply PS_weaken. auto. Qed.

Lemma post_good c k kt l : match post c k kt l with Ok _ => True | Err e _ => e = InvalidData | Panic _ => False end.
Proof. unfold post. destruct (_ && _ && _); [reflexivity|exact I]. Qed.

Lemma text_post_of_bytes k b : match text_post k (of_bytes b) with Ok _ => True | Err e _ => e = InvalidData | Panic _ => False end.
Proof. unfold text_post. rewrite vals_ns_of_bytes. destruct (text_check k _); [reflexivity|exact I]. Qed.

Lemma PS_dec_fields c ts :
  Forall (fun t => PS anyV (dec slice_reader c t)) ts ->
  forall sk, PS (fun _ _ => True) (dec_fields (fun t' s => dec slice_reader c t' s) ts sk).
Proof.
  induction 1 as [|t' tr Ht' Htr IH]; intros sk; cbn [dec_fields].
  - apply PS_ret. exact I.
  - set (sb := match sk with b :: _ => b | [] => false end).
    set (sr := match sk with _ :: r => r | [] => [] end).
    eapply (PS_bind (fun _ _ => True)).
    + destruct sb; [apply PS_ret; exact I|exact Ht'].
    + intros v pre1 _.
      eapply PS_ext with (p := fun s => '(r, s2) <- dec_fields (fun t' s => dec slice_reader c t' s) tr sr s ;; l <- Ok (v :: r) ;; Ok (l, s2)).
      { intros bs. destruct (dec_fields _ tr sr bs) as [[r s2]|k m|w]; reflexivity. }
      eapply PS_post; [apply IH|]. intros; exact I.
Qed.

Theorem dec_PS c t : PS anyV (dec slice_reader c t).
Proof.
  induction t as [p|u|k|k|k t' IH|n t' IH|k ts IH|k vs IH|w t' IH] using ty_ind'.
  - (* prim *)
    cbn [dec].
    eapply PS_ext with (p := fun s => '(b, s') <- read_mapped slice_reader (N.of_nat (prim_width p)) s ;;
                                      v <- (match prim_de_check p (unle b) with Some m => Err InvalidData m | None => Ok (VN (unle b)) end) ;; Ok (v, s')).
    { intros bs. destruct (read_mapped slice_reader _ bs) as [[b r]|k m|w]; cbn [bind]; [|reflexivity|reflexivity].
      destruct (prim_de_check p (unle b)); reflexivity. }
    eapply PS_post; [apply PS_read|]. intros b pre _. destruct (prim_de_check p (unle b)); [reflexivity|exact I].
  - cbn [dec]. apply PS_ret. exact I.
  - cbn [dec].
    eapply PS_ext with (p := fun s => '(b, s') <- read_mapped slice_reader (raw_len k) s ;; v <- Ok (VL (of_bytes b)) ;; Ok (v, s')).
    { intros bs. destruct (read_mapped slice_reader _ bs) as [[b r]|? ?|?]; reflexivity. }
    eapply PS_post; [apply PS_read|]. intros; exact I.
  - (* text *)
    assert (Hvec : PS anyV (fun s => '(l, s') <- dec_vec slice_reader true (fun _ => Panic P_ILLTYPED) s ;; v <- text_post k l ;; Ok (v, s'))).
    { eapply PS_post.
      - eapply PS_ext; [|apply (PS_dec_vec true (fun _ => Err InvalidData MSimple) (fun _ _ => True)); apply PS_fail].
        intros bs. unfold dec_vec. destruct (read_u32 slice_reader bs) as [[n s1]|? ?|?]; cbn [bind]; [|reflexivity|reflexivity].
        destruct (n =? 0); reflexivity.
      - intros l pre (body & _ & _ & ->). apply text_post_of_bytes. }
    destruct k; cbn [dec]; try exact Hvec.
    (* BytesMut *)
    eapply (PS_bind _ _ (read_u32 slice_reader)); [apply PS_read_u32|].
    intros n pre1 _.
    eapply PS_ext with (p := fun s => '(l, s2) <- repeat_dec (fun s => '(b, s') <- read_u8 slice_reader s ;; Ok (VN b, s')) n s ;; v <- Ok (VL l) ;; Ok (v, s2)).
    { intros bs. destruct (repeat_dec _ n bs) as [[l s2]|? ?|?]; reflexivity. }
    eapply PS_post; [|intros; exact I].
    apply PS_repeat_dec with (V := fun _ _ => True).
    eapply PS_ext with (p := fun s => '(b, s') <- read_u8 slice_reader s ;; v <- Ok (VN b) ;; Ok (v, s')).
    { intros bs. destruct (read_u8 slice_reader bs) as [[b r]|? ?|?]; reflexivity. }
    eapply PS_post; [apply PS_read_u8|intros; exact I].
  - (* seq *)
    cbn [dec]. destruct (mem_zst (key_ty k t')); [apply PS_fail|].
    eapply PS_post; [apply (PS_dec_vec (is_u8 t') _ anyV IH)|].
    intros l pre _. apply post_good.
  - (* array *)
    cbn [dec]. destruct (is_u8 t').
    + eapply PS_ext with (p := fun s => '(b, s') <- read_mapped slice_reader n s ;; v <- Ok (VL (of_bytes b)) ;; Ok (v, s')).
      { intros bs. destruct (read_mapped slice_reader _ bs) as [[b r]|? ?|?]; reflexivity. }
      eapply PS_post; [apply PS_read|]. intros; exact I.
    + eapply PS_ext with (p := fun s => '(l, s') <- repeat_dec (dec slice_reader c t') n s ;; v <- Ok (VL l) ;; Ok (v, s')).
      { intros bs. destruct (repeat_dec _ n bs) as [[l r]|? ?|?]; reflexivity. }
      eapply PS_post; [apply (PS_repeat_dec _ anyV n IH)|]. intros; exact I.
  - (* prod *)
    cbn [dec].
    eapply PS_ext with (p := fun s => '(l, s') <- dec_fields (fun t' s => dec slice_reader c t' s) ts (prod_skips k (length ts)) s ;; v <- Ok (VL l) ;; Ok (v, s')).
    { intros bs. destruct (dec_fields _ ts _ bs) as [[l r]|? ?|?]; reflexivity. }
    eapply PS_post; [apply PS_dec_fields; exact IH|]. intros; exact I.
  - (* sum *)
    cbn [dec].
    eapply (PS_bind _ _ (read_u8 slice_reader)); [apply PS_read_u8|].
    intros b pre1 _. destruct (find_tag (sum_tags k) b 0) as [i|]; [|apply PS_fail].
    eapply PS_ext with (p := fun s => '(v, s2) <- nth_or (fun t' => dec slice_reader c t') (fun _ => Err InvalidData (bad_tag k b)) vs (N.to_nat i) s ;; v' <- Ok (VV i v) ;; Ok (v', s2)).
    { intros bs.
      assert (E : nth_or (fun t' => dec slice_reader c t' bs) (Err InvalidData (bad_tag k b)) vs (N.to_nat i) =
                  nth_or (fun t' => dec slice_reader c t') (fun _ => Err InvalidData (bad_tag k b)) vs (N.to_nat i) bs).
      { generalize (N.to_nat i). clear. induction vs as [|x r IHv]; intros [|m]; cbn; auto. }
      rewrite E. destruct (nth_or _ _ vs (N.to_nat i) bs) as [[v r]|? ?|?]; reflexivity. }
    eapply (PS_post anyV); [|intros; exact I].
    generalize (N.to_nat i). induction IH as [|x r Hx Hr IHr]; intros [|m]; cbn [nth_or]; try apply PS_fail.
    + exact Hx.
    + apply IHr.
  - cbn [dec]. exact IH.
Qed.
