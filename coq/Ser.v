(** The encoder: one clause per [BorshSerialize] impl of borsh/src/ser/mod.rs.
    The result is the trace of [write_all] calls issued (one [bytes] chunk per
    call) followed by the error, if any, at which serialization stopped. *)
From Coq Require Import String.
From Coq Require Import List NArith Bool.
From Borsh Require Import Bytes Result Ty.
Import ListNotations.
Local Open Scope N_scope.

Record cfg := { strict : bool }.      (* de_strict_order *)

Definition out := (list bytes * option (kind * msg))%type.
Definition emit (b : bytes) : out := ([b], None).
Definition done : out := ([], None).
Definition fail (k : kind) (m : msg) : out := ([], Some (k, m)).
Definition ill : out := fail Other (MUser 0).      (* value outside [has_ty]; excluded by theorem *)
Definition andthen (a b : out) : out :=
  match snd a with
  | None => (fst a ++ fst b, snd b)
  | Some _ => a
  end.
Infix ">>" := andthen (at level 60, right associativity).

Definition U32_LIMIT : N := 2 ^ 32.

(** [u32::try_from(len).map_err(|_| ErrorKind::InvalidData)?] then the 4 length bytes. *)
Definition emit_len (n : N) : out :=
  if n <? U32_LIMIT then emit (le 4 n) else fail InvalidData MSimple.

(** Kinds whose impl starts with [check_zst]. *)
Definition ser_checks_zst (k : seq_kind) : bool :=
  match k with SSlice => false | _ => true end.
(** Kinds that go through [serialize_slice] (and so through the [u8_slice] fast path). *)
Definition uses_slice_path (k : seq_kind) : bool :=
  match k with SVec | SSlice | SDeque => true | _ => false end.

Definition emit_bytes_of (l : list val) : out :=
  match vals_ns l with
  | Some ns => emit (to_bytes ns)
  | None => ill
  end.

Section SerComb.
  (** [for item in data { item.serialize(writer)?; }] *)
  Section Each. Variable f : val -> out.
    Fixpoint each_out (l : list val) : out :=
      match l with [] => done | x :: r => f x >> each_out r end.
  End Each.
  (** the fields of a tuple / struct / variant in declaration order, skipped ones omitted *)
  Section Fields. Variable f : ty -> val -> out.
    Fixpoint fields_out (ts : list ty) (sk : list bool) (l : list val) : out :=
      match ts, sk, l with
      | [], _, [] => done
      | t' :: tr, s :: sr, x :: r => (if s then done else f t' x) >> fields_out tr sr r
      | _, _, _ => ill
      end.
  End Fields.
End SerComb.

(** [serialize_slice]: the [u8_slice] fast path or element by element *)
Definition slice_out (u8 : bool) (f : val -> out) (l : list val) : out :=
  if u8 then emit_bytes_of l else each_out f l.

Fixpoint ser (t : ty) (v : val) {struct t} : out :=
  match t with
  | TPrim p =>
      match v with
      | VN n => match prim_ser_check p n with
                | Some m => fail InvalidData m
                | None => emit (le (prim_width p) n)
                end
      | _ => ill
      end
  | TUnit _ => done
  | TRaw _ => match v with VL l => emit_bytes_of l | _ => ill end
  | TText _ =>
      match v with
      | VL l => emit_len (len l) >> emit_bytes_of l
      | _ => ill
      end
  | TSeq k t' =>
      let slice := slice_out (is_u8 t' && uses_slice_path k) (ser t') in
      if ser_checks_zst k && mem_zst (key_ty k t') then fail InvalidData MZst else
      match k, v with
      | SDeque, VL [VL a; VL b] => emit_len (len a + len b) >> slice a >> slice b
      | SDeque, _ => ill
      | (SHashSet | SHashMap), VL l =>
          let sorted := sort_by (cmp_val (key_ty k t')) (key_val k) l in
          emit_len (len sorted) >> each_out (ser t') sorted
      | _, VL l => emit_len (len l) >> slice l
      | _, _ => ill
      end
  | TArray n t' =>
      match v with
      | VL l =>
          if n =? 0 then done
          else slice_out (is_u8 t') (ser t') l
      | _ => ill
      end
  | TProd k ts =>
      match v with
      | VL l => fields_out (fun t' x => ser t' x) ts (prod_skips k (length ts)) l
      | _ => ill
      end
  | TSum k vs =>
      match v with
      | VV i x =>
          match nth_error (sum_tags k) (N.to_nat i) with
          | Some tag => emit [n2b tag] >> nth_or (fun t' => ser t' x) ill vs (N.to_nat i)
          | None => ill
          end
      | _ => ill
      end
  | TWrap _ t' => ser t' v
  end.

Definition enc (t : ty) (v : val) : result bytes :=
  let o := ser t v in
  match snd o with
  | None => Ok (concat (fst o))
  | Some (k, m) => Err k m
  end.
