(** C01: decoding an encoding returns the logical value and consumes exactly the encoding. *)
From Coq Require Import String.
From Coq Require Import List NArith Bool Lia.
From Coq.Strings Require Import Byte.
From Borsh Require Import Bytes BytesFacts Result Loop LoopFacts Ty TyInd Ser De Entry CodecFacts.
Import ListNotations.
Local Open Scope N_scope.

Definition RT (c : cfg) (t : ty) : Prop :=
  forall v, has_ty t v = true -> snd (ser t v) = None ->
  forall rest, dec slice_reader c t (sbytes (ser t v) ++ rest) = Ok (logical t v, rest).

(** * each_out *)
Lemma each_out_ok (g : val -> out) l :
  snd (each_out g l) = None <-> (forall x, In x l -> snd (g x) = None).
Proof.
  induction l as [|x r IH]; cbn [each_out].
  - split; [intros _ y []|reflexivity].
  - split.
    + intros H. apply andthen_ok in H. destruct H as [Hx Hr]. intros y [<-|Hy]; [assumption|]. now apply IH.
    + intros H. apply andthen_ok_intro; [apply H; now left|]. apply IH. intros y Hy. apply H. now right.
Qed.

Lemma each_out_cons_bytes (g : val -> out) x r :
  snd (g x) = None -> sbytes (each_out g (x :: r)) = sbytes (g x) ++ sbytes (each_out g r).
Proof. intros H. cbn [each_out]. now apply andthen_bytes. Qed.

(** * The element loop *)
Lemma repeat_dec_rt (f : bytes -> result (val * bytes)) (g : val -> out) (lg : val -> val) l rest :
  (forall x, In x l -> snd (g x) = None /\ forall r, f (sbytes (g x) ++ r) = Ok (lg x, r)) ->
  repeat_dec f (len l) (sbytes (each_out g l) ++ rest) = Ok (map lg l, rest).
Proof.
  intros H. unfold repeat_dec.
  pose (Inv := fun (i : N) (st : list val * bytes) =>
                 exists dn todo, l = dn ++ todo /\ len dn = i /\ fst st = rev (map lg dn) /\
                                 snd st = sbytes (each_out g todo) ++ rest).
  match goal with |- context [iterN ?n ?F ?s0] =>
    destruct (iterN_inv F Inv n 0 s0) as ([acc s'] & E & I) end.
  - intros i [acc s] _ Hi (dn & todo & Hl & Hdn & Hacc & Hs). cbn [fst snd] in *.
    destruct todo as [|x todo'].
    { rewrite app_nil_r in Hl. subst dn. lia. }
    assert (Hx : In x l) by (rewrite Hl; apply in_or_app; right; now left).
    destruct (H x Hx) as [Hok Hf].
    rewrite Hs, each_out_cons_bytes by exact Hok. rewrite <- app_assoc, Hf. cbn [bind].
    eexists. split; [reflexivity|].
    exists (dn ++ [x]), todo'. cbn [fst snd]. repeat split.
    + now rewrite <- app_assoc.
    + rewrite len_app, len_cons, len_nil. lia.
    + rewrite map_app, rev_app_distr. cbn. now rewrite Hacc.
  - exists [], l. repeat split.
  - rewrite E. cbn [bind]. destruct I as (dn & todo & Hl & Hdn & Hacc & Hs). cbn [fst snd] in *.
    rewrite N.add_0_l in Hdn.
    assert (todo = []).
    { destruct todo as [|y todo']; [reflexivity|].
      assert (len l = len dn + len (y :: todo')) by (rewrite Hl at 1; apply len_app).
      rewrite len_cons in H0. lia. }
    subst todo. rewrite app_nil_r in Hl. subst dn.
    rewrite Hacc, rev_involutive, Hs. reflexivity.
Qed.

(** u8 elements written one by one give the same bytes as the bulk write *)
Lemma each_u8_bytes l ns :
  vals_ns l = Some ns -> all_byte ns = true ->
  snd (each_out (ser (TPrim (PInt false W1))) l) = None /\
  sbytes (each_out (ser (TPrim (PInt false W1))) l) = to_bytes ns.
Proof.
  revert ns; induction l as [|x r IH]; intros ns Hns Hb.
  - cbn in Hns. inversion Hns; subst. split; reflexivity.
  - cbn [vals_ns] in Hns. destruct x as [n| |]; try discriminate.
    destruct (vals_ns r) as [nr|] eqn:Er; [|discriminate]. inversion Hns; subst ns; clear Hns.
    unfold all_byte in Hb. cbn [forallb] in Hb. apply andb_true_iff in Hb. destruct Hb as [Hn Hr].
    destruct (IH nr eq_refl Hr) as [IH1 IH2].
    assert (Hx : snd (ser (TPrim (PInt false W1)) (VN n)) = None) by reflexivity.
    split.
    + cbn [each_out]. apply andthen_ok_intro; assumption.
    + rewrite each_out_cons_bytes by exact Hx. rewrite IH2. reflexivity.
Qed.

Lemma has_ty_u8_list l :
  forallb (has_ty (TPrim (PInt false W1))) l = true ->
  exists ns, vals_ns l = Some ns /\ all_byte ns = true.
Proof.
  induction l as [|x r IH]; cbn [forallb]; intros H.
  - exists []. split; reflexivity.
  - apply andb_true_iff in H. destruct H as [Hx Hr]. destruct (IH Hr) as (nr & E & B).
    destruct x as [n| |]; cbn in Hx; try discriminate.
    exists (n :: nr). cbn [vals_ns]. rewrite E. split; [reflexivity|].
    unfold all_byte in *. cbn [forallb]. rewrite B, andb_true_r.
    unfold prim_val_ok in Hx. cbn in Hx. apply andb_true_iff in Hx. destruct Hx as [Hx _].
    exact Hx.
Qed.

Lemma emit_bytes_of_ok l ns : vals_ns l = Some ns ->
  snd (emit_bytes_of l) = None /\ sbytes (emit_bytes_of l) = to_bytes ns.
Proof. intros H. unfold emit_bytes_of. rewrite H. split; [reflexivity|apply sbytes_emit]. Qed.

(** the element block of a sequence, however it was written *)
Lemma slice_out_u8 b l ns :
  vals_ns l = Some ns -> all_byte ns = true ->
  snd (slice_out b (ser (TPrim (PInt false W1))) l) = None /\
  sbytes (slice_out b (ser (TPrim (PInt false W1))) l) = to_bytes ns.
Proof.
  intros H B. unfold slice_out. destruct b.
  - now apply emit_bytes_of_ok.
  - now apply each_u8_bytes.
Qed.

(** * [dec_vec] inverts "length then elements" *)
Lemma dec_vec_u8_rt l ns rest :
  vals_ns l = Some ns -> all_byte ns = true -> len l < U32_LIMIT ->
  forall f, dec_vec slice_reader true f (le 4 (len l) ++ to_bytes ns ++ rest) = Ok (l, rest).
Proof.
  intros Hns Hb Hlen f. unfold dec_vec. rewrite read_u32_app by exact Hlen. cbn [bind].
  destruct (N.eqb_spec (len l) 0) as [E0|E0].
  - assert (l = []) by (destruct l; [reflexivity|rewrite len_cons in E0; lia]). subst l.
    cbn in Hns. inversion Hns; subst. reflexivity.
  - assert (Hl : len (to_bytes ns) = len l) by (rewrite len_to_bytes; symmetry; now apply vals_ns_len).
    rewrite <- Hl. rewrite bulk_slice by (rewrite Hl; lia). cbn [bind].
    rewrite of_to_bytes by exact Hb. now rewrite (vals_ns_Some l ns Hns).
Qed.

Lemma dec_vec_elems_rt (f : bytes -> result (val * bytes)) (g : val -> out) (lg : val -> val) l rest :
  len l < U32_LIMIT ->
  (forall x, In x l -> snd (g x) = None /\ forall r, f (sbytes (g x) ++ r) = Ok (lg x, r)) ->
  dec_vec slice_reader false f (le 4 (len l) ++ sbytes (each_out g l) ++ rest) = Ok (map lg l, rest).
Proof.
  intros Hlen H. unfold dec_vec. rewrite read_u32_app by exact Hlen. cbn [bind].
  destruct (N.eqb_spec (len l) 0) as [E0|E0].
  - assert (l = []) by (destruct l; [reflexivity|rewrite len_cons in E0; lia]). subst l. reflexivity.
  - now apply repeat_dec_rt.
Qed.

(** * Small facts on the combinators *)
Lemma nth_or_some {A R} (f : A -> R) d l n a : nth_error l n = Some a -> nth_or f d l n = f a.
Proof.
  revert n; induction l as [|x r IH]; intros [|n]; cbn; try discriminate.
  - intros H; inversion H; reflexivity.
  - apply IH.
Qed.
Lemma nth_or_none {A R} (f : A -> R) d l n : nth_error l n = None -> nth_or f d l n = d.
Proof.
  revert n; induction l as [|x r IH]; intros [|n]; cbn; try discriminate; auto.
Qed.
Lemma nth_or_true {A} (f : A -> bool) l n : nth_or f false l n = true -> exists a, nth_error l n = Some a /\ f a = true.
Proof.
  destruct (nth_error l n) as [a|] eqn:E.
  - rewrite (nth_or_some f false l n a E). eauto.
  - rewrite (nth_or_none f false l n E). discriminate.
Qed.

Lemma pad_false_length n l : length (pad_false n l) = n.
Proof. revert l; induction n as [|n IH]; intros [|b r]; cbn; auto. Qed.
Lemma prod_skips_length k n : length (prod_skips k n) = n.
Proof. destruct k; cbn; apply pad_false_length. Qed.

Lemma find_tag_nodup tags tag n base :
  nodup_n tags = true -> nth_error tags n = Some tag ->
  find_tag tags tag base = Some (base + N.of_nat n).
Proof.
  revert n base; induction tags as [|t r IH]; intros [|n] base Hnd Hn; cbn in Hn; try discriminate.
  - inversion Hn; subst. cbn [find_tag]. rewrite N.eqb_refl. f_equal. lia.
  - cbn [nodup_n] in Hnd. apply andb_true_iff in Hnd. destruct Hnd as [Hnot Hnd].
    cbn [find_tag]. destruct (N.eqb_spec t tag) as [->|Hne].
    + exfalso. apply negb_true_iff in Hnot.
      assert (existsb (N.eqb tag) r = true).
      { apply existsb_exists. exists tag. split; [eapply nth_error_In; eauto|apply N.eqb_refl]. }
      congruence.
    + rewrite (IH n (N.succ base) Hnd Hn). f_equal. lia.
Qed.

Lemma forallb_In {A} (f : A -> bool) l x : forallb f l = true -> In x l -> f x = true.
Proof. intros H Hx. rewrite forallb_forall in H. now apply H. Qed.

(** * No keyed collection anywhere (this restriction is lifted in RoundTripKeyed.v) *)
Fixpoint plain (t : ty) : bool :=
  match t with
  | TPrim _ | TUnit _ | TRaw _ | TText _ => true
  | TSeq k t' => negb (is_keyed k) && plain t'
  | TArray _ t' => plain t'
  | TProd _ ts => forallb (fun x => plain x) ts
  | TSum _ vs => forallb (fun x => plain x) vs
  | TWrap _ t' => plain t'
  end.

Section Cases.
  Variable c : cfg.

  Lemma rt_prim p : RT c (TPrim p).
  Proof.
    intros v Hty Hok rest. destruct v as [n| |]; cbn [has_ty] in Hty; try discriminate.
    cbn [ser] in *. destruct (prim_ser_check p n) eqn:Es; [discriminate|].
    rewrite sbytes_emit. cbn [dec].
    rewrite read_mapped_app by (rewrite len_eq, length_le; reflexivity).
    cbn [bind].
    unfold prim_val_ok in Hty. apply andb_true_iff in Hty. destruct Hty as [Hlt Hchk].
    apply N.ltb_lt in Hlt. rewrite unle_le by exact Hlt.
    assert (Hde : prim_de_check p n = None).
    { destruct p; cbn in *; try reflexivity;
        try (destruct (n =? 0); [discriminate|reflexivity]);
        try (destruct (n <? 2); [reflexivity|discriminate]);
        try (destruct (n <? 128); [reflexivity|discriminate]).
      destruct (is_nan double n); [discriminate|reflexivity]. }
    rewrite Hde. reflexivity.
  Qed.

  Lemma rt_unit u : RT c (TUnit u).
  Proof.
    intros v Hty Hok rest. cbn [has_ty] in Hty. destruct v as [|[|]|]; try discriminate. reflexivity.
  Qed.

  Lemma rt_raw k : RT c (TRaw k).
  Proof.
    intros v Hty Hok rest. destruct v as [|l|]; cbn [has_ty] in Hty; try discriminate.
    destruct (vals_ns l) as [ns|] eqn:Ens; [|discriminate].
    apply andb_true_iff in Hty. destruct Hty as [Hb Hlen]. apply N.eqb_eq in Hlen.
    cbn [ser]. destruct (emit_bytes_of_ok l ns Ens) as [_ ->].
    cbn [dec]. rewrite read_mapped_app by (now rewrite len_to_bytes).
    cbn [bind logical]. rewrite of_to_bytes by exact Hb. now rewrite (vals_ns_Some l ns Ens).
  Qed.

  Lemma read_byte_rt n r : n < 256 ->
    ('(b, s') <- read_u8 slice_reader (sbytes (ser (TPrim (PInt false W1)) (VN n)) ++ r) ;; Ok (VN b, s')) = Ok (VN n, r).
  Proof.
    intros H. cbn [ser prim_ser_check prim_width wbytes]. rewrite sbytes_emit. cbn [le app].
    rewrite read_u8_app. cbn [bind]. rewrite b2n_n2b, N.mod_small by exact H. reflexivity.
  Qed.

  Lemma rt_text k : RT c (TText k).
  Proof.
    intros v Hty Hok rest. destruct v as [|l|]; cbn [has_ty] in Hty; try discriminate.
    destruct (vals_ns l) as [ns|] eqn:Ens; [|discriminate].
    apply andb_true_iff in Hty. destruct Hty as [Hb Htc].
    cbn [ser] in *. apply andthen_ok in Hok. destruct Hok as [Hlen _].
    apply emit_len_ok in Hlen. destruct Hlen as [Hlen Hlb].
    rewrite andthen_bytes by (unfold emit_len; destruct (len l <? U32_LIMIT) eqn:E; [reflexivity|apply N.ltb_ge in E; lia]).
    rewrite Hlb. destruct (emit_bytes_of_ok l ns Ens) as [_ ->]. rewrite <- app_assoc.
    assert (Hpost : text_post k l = Ok (VL l)).
    { unfold text_post. rewrite Ens. destruct (text_check k ns); [discriminate|reflexivity]. }
    assert (Hgen : forall f, (x <- dec_vec slice_reader true f (le 4 (len l) ++ to_bytes ns ++ rest) ;;
                              (let '(l0, s') := x in v <- text_post k l0 ;; Ok (v, s'))) = Ok (VL l, rest)).
    { intros f. rewrite (dec_vec_u8_rt l ns rest Ens Hb Hlen). cbn [bind]. rewrite Hpost. reflexivity. }
    destruct k; cbn [dec logical]; try apply Hgen.
    (* BytesMut: byte by byte *)
    rewrite read_u32_app by exact Hlen. cbn [bind].
    destruct (each_u8_bytes l ns Ens Hb) as [Hok8 Hb8]. rewrite <- Hb8.
    rewrite (repeat_dec_rt _ (ser (TPrim (PInt false W1))) (fun x => x) l rest).
    - cbn [bind]. now rewrite map_id.
    - intros x Hx. split; [now apply (proj1 (each_out_ok _ l) Hok8)|].
      intros r. rewrite (vals_ns_Some l ns Ens) in Hx. apply in_map_iff in Hx. destruct Hx as (n & <- & Hn).
      apply read_byte_rt. unfold all_byte in Hb. apply N.ltb_lt. exact (forallb_In _ _ _ Hb Hn).
  Qed.

  (** elements, given the induction hypothesis for the element type *)
  Lemma elems_hyp t' l :
    RT c t' -> forallb (has_ty t') l = true -> snd (each_out (ser t') l) = None ->
    forall x, In x l -> snd (ser t' x) = None /\ forall r, dec slice_reader c t' (sbytes (ser t' x) ++ r) = Ok (logical t' x, r).
  Proof.
    intros IH Hty Hok x Hx. split.
    - now apply (proj1 (each_out_ok _ l) Hok).
    - intros r. apply IH; [exact (forallb_In _ _ _ Hty Hx)|now apply (proj1 (each_out_ok _ l) Hok)].
  Qed.

  Lemma logical_u8_list l : map (logical (TPrim (PInt false W1))) l = l.
  Proof. induction l as [|x r IH]; cbn [map]; [reflexivity|]. rewrite IH. reflexivity. Qed.

  (** "length, then the elements" decodes to the list of logical elements *)
  Lemma seq_body_rt t' b l rest :
    RT c t' -> forallb (has_ty t') l = true -> len l < U32_LIMIT ->
    snd (slice_out (is_u8 t' && b) (ser t') l) = None ->
    dec_vec slice_reader (is_u8 t') (dec slice_reader c t')
      (le 4 (len l) ++ sbytes (slice_out (is_u8 t' && b) (ser t') l) ++ rest) = Ok (map (logical t') l, rest).
  Proof.
    intros IH Hty Hlen Hok.
    destruct (is_u8 t') eqn:Eu.
    - assert (t' = TPrim (PInt false W1)).
      { destruct t' as [[[] []| | | | | |]| | | | | | | |]; cbn in Eu; try discriminate; reflexivity. }
      subst t'. destruct (has_ty_u8_list l Hty) as (ns & Ens & Hb).
      destruct (slice_out_u8 (true && b) l ns Ens Hb) as [_ ->].
      rewrite logical_u8_list. now apply dec_vec_u8_rt.
    - cbn [andb] in *. unfold slice_out in *.
      apply dec_vec_elems_rt; [exact Hlen|]. now apply elems_hyp.
  Qed.
End Cases.

Section Cases2.
  Variable c : cfg.

  Lemma emit_len_intro n : n < U32_LIMIT -> snd (emit_len n) = None.
  Proof. intros H. unfold emit_len. destruct (N.ltb_spec n U32_LIMIT); [reflexivity|lia]. Qed.

  (** A length prefix followed by a body. *)
  Lemma len_then_body n (body : out) :
    snd (emit_len n >> body) = None ->
    n < U32_LIMIT /\ snd body = None /\ sbytes (emit_len n >> body) = le 4 n ++ sbytes body.
  Proof.
    intros H. apply andthen_ok in H. destruct H as [H1 H2].
    destruct (emit_len_ok n H1) as [Hn Hb]. repeat split; try assumption.
    rewrite andthen_bytes by exact H1. now rewrite Hb.
  Qed.

  Lemma rt_seq_plain k t' : is_keyed k = false -> wf (TSeq k t') = true -> RT c t' -> RT c (TSeq k t').
  Proof.
    intros Hk Hwf IH v Hty Hok rest.
    cbn [wf] in Hwf. repeat (apply andb_true_iff in Hwf; destruct Hwf as [Hwf ?]).
    assert (Hkt : key_ty k t' = t') by (destruct k; cbn in Hk; try discriminate; reflexivity).
    assert (Hz : mem_zst t' = false).
    { destruct (mem_zst t') eqn:Ez; [|reflexivity]. exfalso.
      destruct k; cbn in Hk; try discriminate.
      all: try (cbn [ser ser_checks_zst andb] in Hok; rewrite Hkt, Ez in Hok; cbn in Hok; discriminate).
      all: try (rewrite Ez in H; cbn in H; discriminate). }
    cbn [ser dec] in *. rewrite Hkt in *. rewrite Hz in *. rewrite andb_false_r in *.
    destruct k; cbn in Hk; try discriminate.
    - (* Vec *)
      destruct v as [|l|]; cbn [has_ty] in Hty; try discriminate. rewrite andb_true_r in Hty.
      destruct (len_then_body _ _ Hok) as (Hlen & Hbody & ->). rewrite <- app_assoc.
      cbn [uses_slice_path] in *.
      rewrite (seq_body_rt c t' true l rest IH Hty Hlen Hbody). reflexivity.
    - (* Deque *)
      destruct v as [|[|[|a|] [|[|b|] [|]]]|]; cbn [has_ty] in Hty; try discriminate.
      apply andb_true_iff in Hty. destruct Hty as [Ha Hb].
      destruct (len_then_body _ _ Hok) as (Hlen & Hbody & ->). rewrite <- app_assoc.
      apply andthen_ok in Hbody. destruct Hbody as [Hba Hbb].
      rewrite andthen_bytes by exact Hba. cbn [uses_slice_path] in *.
      (* the two slices together are the body of a sequence holding a ++ b *)
      assert (Hjoin : snd (slice_out (is_u8 t' && true) (ser t') (a ++ b)) = None /\
                      sbytes (slice_out (is_u8 t' && true) (ser t') (a ++ b)) =
                      sbytes (slice_out (is_u8 t' && true) (ser t') a) ++ sbytes (slice_out (is_u8 t' && true) (ser t') b)).
      { destruct (is_u8 t') eqn:Eu.
        - assert (t' = TPrim (PInt false W1)).
          { destruct t' as [[[] []| | | | | |]| | | | | | | |]; cbn in Eu; try discriminate; reflexivity. }
          subst t'. destruct (has_ty_u8_list a Ha) as (na & Ea & Hna). destruct (has_ty_u8_list b Hb) as (nb & Eb & Hnb).
          assert (Eab : vals_ns (a ++ b) = Some (na ++ nb)).
          { rewrite (vals_ns_Some a na Ea), (vals_ns_Some b nb Eb), <- map_app.
            clear. induction (na ++ nb) as [|x r IHl]; cbn; [reflexivity|now rewrite IHl]. }
          assert (Hnab : all_byte (na ++ nb) = true) by (unfold all_byte in *; now rewrite forallb_app, Hna, Hnb).
          destruct (slice_out_u8 (true && true) (a ++ b) (na ++ nb) Eab Hnab) as [-> ->].
          destruct (slice_out_u8 (true && true) a na Ea Hna) as [_ ->].
          destruct (slice_out_u8 (true && true) b nb Eb Hnb) as [_ ->].
          split; [reflexivity|]. unfold to_bytes. now rewrite map_app.
        - cbn [andb] in *. unfold slice_out in *. split.
          + apply each_out_ok. intros x Hx. apply in_app_or in Hx.
            destruct Hx as [Hx|Hx]; [now apply (proj1 (each_out_ok _ a) Hba)|now apply (proj1 (each_out_ok _ b) Hbb)].
          + clear - Hba. induction a as [|x r IHa]; [reflexivity|].
            cbn [app]. apply andthen_ok in Hba. destruct Hba as [Hx Hr].
            rewrite !each_out_cons_bytes by exact Hx. rewrite IHa by exact Hr. now rewrite app_assoc. }
      destruct Hjoin as [Hjok Hjb]. rewrite <- app_assoc, (app_assoc (sbytes _) (sbytes _) rest), <- Hjb.
      assert (Hlab : len (a ++ b) = len a + len b) by apply len_app.
      rewrite <- Hlab in *.
      assert (Htab : forallb (has_ty t') (a ++ b) = true) by (now rewrite forallb_app, Ha, Hb).
      rewrite (seq_body_rt c t' true (a ++ b) rest IH Htab Hlen Hjok). reflexivity.
    - (* LinkedList *)
      destruct v as [|l|]; cbn [has_ty] in Hty; try discriminate. rewrite andb_true_r in Hty.
      destruct (len_then_body _ _ Hok) as (Hlen & Hbody & ->). rewrite <- app_assoc.
      cbn [uses_slice_path] in *.
      rewrite (seq_body_rt c t' false l rest IH Hty Hlen Hbody). reflexivity.
    - (* Slice *)
      destruct v as [|l|]; cbn [has_ty] in Hty; try discriminate. rewrite andb_true_r in Hty.
      destruct (len_then_body _ _ Hok) as (Hlen & Hbody & ->). rewrite <- app_assoc.
      cbn [uses_slice_path] in *.
      rewrite (seq_body_rt c t' true l rest IH Hty Hlen Hbody). reflexivity.
  Qed.
End Cases2.

Section Cases3.
  Variable c : cfg.

  Lemma len_zero_nil {A} (l : list A) : len l = 0 -> l = [].
  Proof. destruct l; [reflexivity|]. rewrite len_cons. lia. Qed.

  Lemma rt_array n t' : RT c t' -> RT c (TArray n t').
  Proof.
    intros IH v Hty Hok rest. destruct v as [|l|]; cbn [has_ty] in Hty; try discriminate.
    apply andb_true_iff in Hty. destruct Hty as [Hlen Hty]. apply N.eqb_eq in Hlen.
    cbn [ser dec logical] in *.
    destruct (N.eqb_spec n 0) as [E0|E0].
    - subst n. apply len_zero_nil in E0. subst l. cbn [sbytes done fst concat app map].
      destruct (is_u8 t').
      + destruct rest; reflexivity.
      + reflexivity.
    - destruct (is_u8 t') eqn:Eu.
      + assert (t' = TPrim (PInt false W1)).
        { destruct t' as [[[] []| | | | | |]| | | | | | | |]; cbn in Eu; try discriminate; reflexivity. }
        subst t'. destruct (has_ty_u8_list l Hty) as (ns & Ens & Hb).
        destruct (slice_out_u8 true l ns Ens Hb) as [_ ->].
        rewrite read_mapped_app by (rewrite len_to_bytes, <- (vals_ns_len l ns Ens); exact Hlen).
        cbn [bind]. rewrite of_to_bytes by exact Hb. rewrite logical_u8_list.
        now rewrite (vals_ns_Some l ns Ens).
      + unfold slice_out in *. rewrite <- Hlen.
        rewrite (repeat_dec_rt (dec slice_reader c t') (ser t') (logical t') l rest); [reflexivity|].
        now apply elems_hyp.
  Qed.

  Lemma fields_rt ts :
    Forall (fun t => wf t = true -> RT c t) ts ->
    forall sk l rest,
      forallb (fun x => wf x) ts = true ->
      all2 (fun t' x => has_ty t' x) ts l = true ->
      length sk = length ts ->
      snd (fields_out (fun t' x => ser t' x) ts sk l) = None ->
      dec_fields (fun t' s => dec slice_reader c t' s) ts sk
        (sbytes (fields_out (fun t' x => ser t' x) ts sk l) ++ rest)
      = Ok (map_fields (fun t' x => logical t' x) default_of ts sk l, rest).
  Proof.
    induction 1 as [|t' tr Ht' Htr IH]; intros sk l rest Hwf Hty Hsk Hok.
    - destruct l; cbn in Hty; try discriminate. destruct sk; reflexivity.
    - destruct l as [|x r]; cbn [all2] in Hty; try discriminate.
      destruct sk as [|s sr]; cbn [length] in Hsk; try discriminate.
      apply andb_true_iff in Hty. destruct Hty as [Hx Hr].
      cbn [forallb] in Hwf. apply andb_true_iff in Hwf. destruct Hwf as [Hwx Hwr].
      cbn [fields_out dec_fields map_fields] in *.
      apply andthen_ok in Hok. destruct Hok as [Hox Hor].
      rewrite andthen_bytes by exact Hox. rewrite <- app_assoc.
      destruct s.
      + cbn [sbytes done fst concat app bind].
        rewrite (IH sr r rest Hwr Hr) by (try lia; assumption). reflexivity.
      + rewrite (Ht' Hwx x Hx Hox). cbn [bind].
        rewrite (IH sr r rest Hwr Hr) by (try lia; assumption). reflexivity.
  Qed.

  Lemma rt_prod k ts : Forall (fun t => wf t = true -> RT c t) ts -> wf (TProd k ts) = true -> RT c (TProd k ts).
  Proof.
    intros IH Hwf v Hty Hok rest. destruct v as [|l|]; cbn [has_ty] in Hty; try discriminate.
    cbn [wf] in Hwf. apply andb_true_iff in Hwf. destruct Hwf as [_ Hwf].
    cbn [ser dec logical] in *.
    rewrite (fields_rt ts IH _ l rest Hwf Hty (prod_skips_length k (length ts)) Hok). reflexivity.
  Qed.

  Lemma Forall_nth_error {A} (P : A -> Prop) l n a : Forall P l -> nth_error l n = Some a -> P a.
  Proof. intros H E. rewrite Forall_forall in H. apply H. eapply nth_error_In; eauto. Qed.

  Lemma rt_sum k vs : Forall (fun t => wf t = true -> RT c t) vs -> wf (TSum k vs) = true -> RT c (TSum k vs).
  Proof.
    intros IH Hwf v Hty Hok rest. destruct v as [| |i x]; cbn [has_ty] in Hty; try discriminate.
    cbn [wf] in Hwf. repeat (apply andb_true_iff in Hwf; destruct Hwf as [Hwf ?]).
    rename H into Hwvs. rename H0 into Hlt. rename H1 into Hnd.
    apply nth_or_true in Hty. destruct Hty as (t' & Et' & Hx).
    cbn [ser dec logical] in *.
    destruct (nth_error (sum_tags k) (N.to_nat i)) as [tag|] eqn:Etag; [|discriminate].
    rewrite (nth_or_some _ _ _ _ _ Et') in *.
    apply andthen_ok in Hok. destruct Hok as [_ Hox].
    rewrite andthen_bytes by reflexivity. rewrite sbytes_emit. cbn [app].
    rewrite read_u8_app. cbn [bind].
    assert (Htag : tag < 256).
    { apply N.ltb_lt. exact (forallb_In _ _ _ Hlt (nth_error_In _ _ Etag)). }
    rewrite b2n_n2b, N.mod_small by exact Htag.
    rewrite (find_tag_nodup _ _ _ 0 Hnd Etag). rewrite N.add_0_l, Nnat.N2Nat.id.
    rewrite (nth_or_some _ _ _ _ _ Et').
    assert (Hwt : wf t' = true) by exact (forallb_In _ _ _ Hwvs (nth_error_In _ _ Et')).
    rewrite (Forall_nth_error _ _ _ _ IH Et' Hwt x Hx Hox).
    rewrite (nth_or_some (fun t0 => logical t0 x) x vs _ _ Et'). reflexivity.
  Qed.

  Theorem rt_plain t : wf t = true -> plain t = true -> RT c t.
  Proof.
    induction t as [p|u|k|k|k t' IH|n t' IH|k ts IH|k vs IH|w t' IH] using ty_ind'; intros Hwf Hpl.
    - apply rt_prim.
    - apply rt_unit.
    - apply rt_raw.
    - apply rt_text.
    - cbn [plain] in Hpl. apply andb_true_iff in Hpl. destruct Hpl as [Hk Hpl]. apply negb_true_iff in Hk.
      apply rt_seq_plain; [exact Hk|exact Hwf|]. apply IH; [|exact Hpl].
      cbn [wf] in Hwf. repeat (apply andb_true_iff in Hwf; destruct Hwf as [Hwf ?]). exact Hwf.
    - apply rt_array. apply IH; assumption.
    - apply rt_prod; [|exact Hwf].
      cbn [plain] in Hpl. rewrite forallb_forall in Hpl.
      rewrite Forall_forall in *. intros t' Ht' Hw'. apply IH; auto.
    - apply rt_sum; [|exact Hwf].
      cbn [plain] in Hpl. rewrite forallb_forall in Hpl.
      rewrite Forall_forall in *. intros t' Ht' Hw'. apply IH; auto.
    - intros v Hty Hok rest. cbn [has_ty ser dec logical] in *. apply IH; assumption.
  Qed.
End Cases3.

Lemma round_trip_plain c t v bs :
  wf t = true -> plain t = true -> has_ty t v = true -> enc t v = Ok bs ->
  forall rest, dec_slice c t (bs ++ rest) = Ok (logical t v, rest).
Proof.
  intros Hwf Hpl Hty Henc rest. apply enc_ok_iff in Henc. destruct Henc as [Hok ->].
  unfold dec_slice. now apply rt_plain.
Qed.

Lemma from_slice_plain c t v bs :
  wf t = true -> plain t = true -> has_ty t v = true -> to_vec t v = Ok bs ->
  from_slice c t bs = Ok (logical t v).
Proof.
  intros Hwf Hpl Hty Henc. unfold from_slice, try_from_slice.
  rewrite <- (app_nil_r bs). rewrite (round_trip_plain c t v bs Hwf Hpl Hty Henc []). reflexivity.
Qed.
