(** C04, the value of an accepted keyed collection: the bytes read as a plain [Vec] of the
    entries, then collected - last entry of every key, in strictly ascending key order
    (BTreeSet/BTreeMap/HashSet/HashMap) or in order of first occurrence (IndexSet/IndexMap).
    This pins down the value returned for inputs whose entries are unsorted or repeated. *)
From Coq Require Import String.
From Coq Require Import List NArith Bool Lia Permutation.
From Borsh Require Import Bytes BytesFacts Result Loop LoopFacts Ty TyInd Ser De Entry CodecFacts RoundTrip
     OrderFacts SortFacts RoundTripKeyed ParseFacts DecCorollaries C04Facts SortLast.
Import ListNotations.
Local Open Scope N_scope.

(** * The zero-size guards: a map looks at its key type, the Vec of entries at the entry type *)
Lemma key_ty_not_zst k t' : mem_zst (key_ty k t') = false -> mem_zst t' = false.
Proof.
  unfold key_ty. destruct (is_map k); [|auto].
  destruct t' as [| | | | | |pk [|kt ts]| |]; auto.
  intros Hz. cbn [mem_zst forallb]. rewrite Hz. cbn [andb]. destruct pk as [|[]| | | |]; reflexivity.
Qed.

(** what the collection does with the decoded entries *)
Definition collect (k : seq_kind) (kt : ty) (l : list val) : list val :=
  if is_index k then collect_index (cmp_val kt) (key_val k) l
  else collect_sorted (cmp_val kt) (key_val k) l.

(** * The value is the collected plain [Vec], for every reader *)
Lemma loose_value_gen {St} (R : reader St) c k t' s v s' :
  is_keyed k = true ->
  dec R c (TSeq k t') s = Ok (v, s') ->
  exists l, dec R c (TSeq SVec t') s = Ok (VL l, s') /\ v = VL (collect k (key_ty k t') l).
Proof.
  intros Hk H. cbn [dec] in H.
  destruct (mem_zst (key_ty k t')) eqn:Hz; [discriminate|].
  destruct (dec_vec R (is_u8 t') (dec R c t') s) as [[l s1]|e m|w] eqn:Hv; cbn [bind] in H; try discriminate.
  destruct (post c k (key_ty k t') l) as [v0|e m|w] eqn:Hp; cbn [bind] in H; try discriminate.
  inversion H; subst v0 s1. exists l. split.
  - cbn [dec]. change (key_ty SVec t') with t'. rewrite (key_ty_not_zst k t' Hz), Hv. reflexivity.
  - unfold post in Hp.
    destruct (is_ordered k && strict c && negb (strictly_ascending (cmp_val (key_ty k t')) (key_val k) l));
      [discriminate|].
    inversion Hp. unfold collect. destruct k; cbn in Hk; try discriminate Hk; reflexivity.
Qed.

Theorem loose_value c k t' bs v r :
  is_keyed k = true ->
  dec slice_reader c (TSeq k t') bs = Ok (v, r) ->
  exists l, dec slice_reader c (TSeq SVec t') bs = Ok (VL l, r) /\
            v = VL (if is_index k then collect_index (cmp_val (key_ty k t')) (key_val k) l
                    else collect_sorted (cmp_val (key_ty k t')) (key_val k) l).
Proof. exact (loose_value_gen slice_reader c k t' bs v r). Qed.

(** * The specification of the collected list *)
(** [s] lists exactly the last entry of every key of [l]: strictly ascending (sorted kinds),
    by first occurrence of the keys (index kinds) *)
Definition collected (k : seq_kind) (kt : ty) (l s : list val) : Prop :=
  (forall x, In x s <-> last_of (cmp_val kt) (key_val k) l x) /\
  (if is_index k then Forall2 (keq (cmp_val kt) (key_val k)) s (first_keys (cmp_val kt) (key_val k) l)
   else strictly_ascending (cmp_val kt) (key_val k) s = true).

Section Collected.
  Variables (k : seq_kind) (t' : ty).
  Hypothesis Hk : is_keyed k = true.
  Hypothesis Hwf : wf (TSeq k t') = true.

  Let kt := key_ty k t'.
  Let key := key_val k.
  Let cmp := cmp_val kt.
  Let P := fun x => has_ty kt (key x) = true.

  Lemma collect_collected l : forallb (has_ty t') l = true -> collected k kt l (collect k kt l).
  Proof.
    intros Hty. pose proof (Forall_P k t' Hwf l Hty) as HP. fold kt key P in HP.
    unfold collected, collect. fold cmp key. destruct (is_index k); split.
    - exact (collect_index_In cmp key P (c_anti k t') (c_eq k t' Hk Hwf) l HP).
    - exact (collect_index_order cmp key P (c_anti k t') (c_eq k t' Hk Hwf) l HP).
    - exact (collect_sorted_In cmp key P (c_anti k t') (c_eq k t' Hk Hwf) (c_lt k t' Hk Hwf) l HP).
    - exact (collect_sorted_sorted cmp key P (c_anti k t') (c_eq k t' Hk Hwf) (c_lt k t' Hk Hwf) l HP).
  Qed.

  Lemma collected_unique l s : forallb (has_ty t') l = true -> collected k kt l s -> s = collect k kt l.
  Proof.
    intros Hty [Hm Ho]. pose proof (Forall_P k t' Hwf l Hty) as HP. fold kt key P in HP.
    unfold collect. fold cmp key in Hm, Ho |- *. destruct (is_index k).
    - apply (collect_index_unique cmp key P (c_anti k t') (c_eq k t' Hk Hwf) l s HP); [|exact Ho].
      apply Forall_forall. intros x Hx. now apply Hm.
    - exact (collect_sorted_unique cmp key P (c_anti k t') (c_eq k t' Hk Hwf) (c_lt k t' Hk Hwf) l s HP Ho Hm).
  Qed.

  Lemma collect_keys l : forallb (has_ty t') l = true ->
    forall y, In y l -> exists x, In x (collect k kt l) /\ cmp (key y) (key x) = Eq.
  Proof.
    intros Hty. pose proof (Forall_P k t' Hwf l Hty) as HP. fold kt key P in HP.
    unfold collect. fold cmp key. destruct (is_index k).
    - exact (collect_index_keys cmp key P (c_anti k t') (c_eq k t' Hk Hwf) l HP).
    - exact (collect_sorted_keys cmp key P (c_anti k t') (c_eq k t' Hk Hwf) (c_lt k t' Hk Hwf) l HP).
  Qed.

  Lemma collect_no_dup l : forallb (has_ty t') l = true -> no_dup_keys cmp key (collect k kt l) = true.
  Proof.
    intros Hty. pose proof (Forall_P k t' Hwf l Hty) as HP. fold kt key P in HP.
    unfold collect. fold cmp key. destruct (is_index k).
    - exact (collect_index_nodup cmp key P (c_anti k t') (c_eq k t' Hk Hwf) l HP).
    - apply (strictly_ascending_no_dup cmp key P (c_lt k t' Hk Hwf)).
      + exact (csorted_P cmp key P l HP).
      + exact (collect_sorted_sorted cmp key P (c_anti k t') (c_eq k t' Hk Hwf) (c_lt k t' Hk Hwf) l HP).
  Qed.
End Collected.

Lemma wf_seq_elem k t' : wf (TSeq k t') = true -> wf t' = true.
Proof. intros Hwf. cbn [wf] in Hwf. repeat (apply andb_true_iff in Hwf; destruct Hwf as [Hwf ?]). exact Hwf. Qed.

(** the entries of an accepted plain [Vec] are typed *)
Lemma vec_entries_typed c t' bs l r :
  wf t' = true -> dflt_ok t' = true ->
  dec_slice c (TSeq SVec t') bs = Ok (VL l, r) -> forallb (has_ty t') l = true.
Proof.
  intros Hwf Hd H.
  assert (Hwv : wf (TSeq SVec t') = true) by (cbn [wf is_map is_keyed is_ordered is_index orb]; now rewrite Hwf).
  destruct (accept_sound c (TSeq SVec t') bs (VL l) r Hwv Hd H) as (pre & _ & Hty & _).
  cbn [has_ty] in Hty. now rewrite andb_true_r in Hty.
Qed.

(** * The readable statement: the entries of the value are exactly the last entry of every key
    of the plain [Vec], in ascending key order / by first occurrence; no other list is. *)
Theorem loose_value_spec c k t' bs v r :
  is_keyed k = true -> wf (TSeq k t') = true -> dflt_ok t' = true ->
  dec_slice c (TSeq k t') bs = Ok (v, r) ->
  exists l s,
    dec_slice c (TSeq SVec t') bs = Ok (VL l, r) /\ forallb (has_ty t') l = true /\
    v = VL s /\
    collected k (key_ty k t') l s /\
    (forall s', collected k (key_ty k t') l s' -> s' = s) /\
    (forall y, In y l -> exists x, In x s /\ cmp_val (key_ty k t') (key_val k y) (key_val k x) = Eq) /\
    no_dup_keys (cmp_val (key_ty k t')) (key_val k) s = true.
Proof.
  intros Hk Hwf Hd H. unfold dec_slice in *.
  destruct (loose_value_gen slice_reader c k t' bs v r Hk H) as (l & Hl & ->).
  pose proof (vec_entries_typed c t' bs l r (wf_seq_elem k t' Hwf) Hd Hl) as Hty.
  exists l, (collect k (key_ty k t') l). repeat split.
  - exact Hl.
  - exact Hty.
  - apply (collect_collected k t' Hk Hwf l Hty).
  - apply (collect_collected k t' Hk Hwf l Hty).
  - apply (collect_collected k t' Hk Hwf l Hty).
  - intros s' Hs'. exact (collected_unique k t' Hk Hwf l s' Hty Hs').
  - exact (collect_keys k t' Hk Hwf l Hty).
  - exact (collect_no_dup k t' Hk Hwf l Hty).
Qed.

(** the same without [dflt_ok], the typing of the entries being given *)
Theorem loose_value_spec_typed c k t' bs v r l :
  is_keyed k = true -> wf (TSeq k t') = true ->
  dec_slice c (TSeq k t') bs = Ok (v, r) ->
  dec_slice c (TSeq SVec t') bs = Ok (VL l, r) -> forallb (has_ty t') l = true ->
  exists s, v = VL s /\ collected k (key_ty k t') l s /\ (forall s', collected k (key_ty k t') l s' -> s' = s).
Proof.
  intros Hk Hwf H Hl Hty. unfold dec_slice in *.
  destruct (loose_value_gen slice_reader c k t' bs v r Hk H) as (l0 & Hl0 & ->).
  rewrite Hl in Hl0. inversion Hl0; subst l0.
  exists (collect k (key_ty k t') l). split; [reflexivity|]. split.
  - exact (collect_collected k t' Hk Hwf l Hty).
  - intros s' Hs'. exact (collected_unique k t' Hk Hwf l s' Hty Hs').
Qed.

(** * Strict ordering accepts exactly the already collected inputs, with the loose value *)
Theorem strict_is_loose_on_sorted k t' bs v r :
  is_ordered k = true -> wf (TSeq k t') = true -> dflt_ok t' = true ->
  dec_slice c_strict (TSeq k t') bs = Ok (v, r) ->
  dec_slice c_loose (TSeq k t') bs = Ok (v, r) /\
  exists l, dec_slice c_strict (TSeq SVec t') bs = Ok (VL l, r) /\
            strictly_ascending (cmp_val (key_ty k t')) (key_val k) l = true /\
            v = VL l.
Proof.
  intros Ho Hwf Hd H. split; [exact (strict_accepts_less (TSeq k t') bs (v, r) H)|].
  assert (Hk : is_keyed k = true) by (unfold is_keyed; now rewrite Ho).
  unfold dec_slice in *.
  destruct (loose_value_gen slice_reader c_strict k t' bs v r Hk H) as (l & Hl & Hv).
  exists l. split; [exact Hl|].
  assert (Hsa : strictly_ascending (cmp_val (key_ty k t')) (key_val k) l = true).
  { cbn [dec] in H, Hl. change (key_ty SVec t') with t' in Hl.
    destruct (mem_zst (key_ty k t')) eqn:Hz; [discriminate|]. rewrite (key_ty_not_zst k t' Hz) in Hl.
    destruct (dec_vec slice_reader (is_u8 t') (dec slice_reader c_strict t') bs) as [[l0 s1]|e m|w]; cbn [bind] in H, Hl; try discriminate.
    unfold post in Hl. cbn [is_ordered andb bind] in Hl. inversion Hl; subst l0 s1.
    unfold post in H. rewrite Ho in H. cbn [strict c_strict andb] in H.
    destruct (strictly_ascending (cmp_val (key_ty k t')) (key_val k) l); [reflexivity|discriminate]. }
  split; [exact Hsa|]. rewrite Hv. f_equal.
  pose proof (vec_entries_typed c_strict t' bs l r (wf_seq_elem k t' Hwf) Hd Hl) as Hty.
  pose proof (Forall_P k t' Hwf l Hty) as HP.
  unfold collect. assert (Hi : is_index k = false) by (destruct k; cbn in Ho; try discriminate Ho; reflexivity).
  rewrite Hi.
  exact (collect_sorted_id (cmp_val (key_ty k t')) (key_val k) _ (c_anti k t') (c_lt k t' Hk Hwf) l HP Hsa).
Qed.

Print Assumptions loose_value.
Print Assumptions loose_value_spec.
Print Assumptions loose_value_spec_typed.
Print Assumptions strict_is_loose_on_sorted.
