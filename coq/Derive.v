(** What the derived [BorshSerialize] / [BorshDeserialize] code does, as a [ty] whose
    [ser]/[dec] semantics it has ([derive_ty], transcribing the field walks of
    borsh-derive/src/internals/{serialize,deserialize}), the placement of the [init]
    hook and [EnumExt::deserialize_variant]; and the documented semantics
    ([documented_sem], written from borsh/docs/rustdoc_include/*.md).  Definitions only. *)
From Coq Require Import String.
From Coq Require Import List NArith ZArith Bool.
From Borsh Require Import Bytes Result Ty Ser De Discr Item DeriveCheck.
Import ListNotations.
Local Open Scope N_scope.

Inductive derive_error :=
| ENoCodec          (* BorshSchema is not a codec derive / unions *)
| ETag (i : nat).   (* the tag expression of variant [i] has no [u8] value (a compile error, or the
                       run-time overflow of F11) *)
Inductive dresult (A : Type) := DOk (a : A) | DErr (e : derive_error).
Arguments DOk {A} a.
Arguments DErr {A} e.

(** * The field walks *)
(** serialize/{structs,enums}::process_field: [if !parsed.skip { body.extend(serialize_output(.., parsed.serialize_with)) }];
    in a variant header a skipped field is not bound ([_idN] / omitted before [..]). *)
Definition ser_field_ty (f : field) : ty :=
  let a := parsed f in
  if fa_skip a then f_ty f
  else match fa_ser_with a with Some t => t | None => f_ty f end.
(** deserialize::process_field: [if parsed.skip { field_default_output } else { field_output(.., parsed.deserialize_with) }] *)
Definition de_field_ty (f : field) : ty :=
  let a := parsed f in
  if fa_skip a then f_ty f
  else match fa_de_with a with Some t => t | None => f_ty f end.

Definition field_ty (k : derive_kind) (f : field) : ty :=
  match k with DSer => ser_field_ty f | _ => de_field_ty f end.

(** the walk: one entry per field, in the order of [fields.named] / [fields.unnamed] *)
Fixpoint walk (k : derive_kind) (fs : list field) : list (string * bool * ty) :=
  match fs with
  | [] => []
  | f :: r => (f_name f, fa_skip (parsed f), field_ty k f) :: walk k r
  end.

Definition prod_of (mk : list string -> list bool -> prod_kind) (w : list (string * bool * ty)) : ty :=
  TProd (mk (map (fun x => fst (fst x)) w) (map (fun x => snd (fst x)) w)) (map snd w).

(** * Tags *)
(** [Discriminants::get]: [use_discriminant ? discriminants[variant] : variant_idx as u8];
    the discriminant token stream is read by rustc at type [u8]. *)
Fixpoint ordinals (i : N) (n : nat) : list N :=
  match n with O => [] | S n' => i :: ordinals (N.succ i) n' end.
Fixpoint tags_of_tokens (i : nat) (tss : list (list token)) : dresult (list N) :=
  match tss with
  | [] => DOk []
  | ts :: r =>
      match tag_eval false U8 ts with
      | Some z => match tags_of_tokens (S i) r with
                  | DOk l => DOk (Z.to_N z :: l)
                  | DErr e => DErr e
                  end
      | None => DErr (ETag i)
      end
  end.
Definition derive_tags (it : item) (vs : list variant) : dresult (list N) :=
  if use_discriminant it
  then tags_of_tokens 0 (derive_discrs (map v_discr vs))
  else DOk (ordinals 0 (length vs)).

(** * The type the derived code implements *)
Definition variant_payload (k : derive_kind) (v : variant) : ty :=
  prod_of PVariant (walk k (fields_list (v_fields v))).

Definition derive_ty (k : derive_kind) (it : item) : dresult ty :=
  match k with
  | DSchema => DErr ENoCodec
  | _ =>
      match it_body it with
      | BStruct fs => DOk (prod_of (PStruct (it_name it)) (walk k (fields_list fs)))
      | BEnum vs =>
          match derive_tags it vs with
          | DOk tags => DOk (TSum (KEnum (it_name it) (map v_name vs) tags) (map (variant_payload k) vs))
          | DErr e => DErr e
          end
      | BUnion _ => DErr ENoCodec
      end
  end.

(** * The documented semantics (rustdoc of the two derive macros)
    - every field that is not [#[borsh(skip)]] is written in declaration order, with
      [serialize_with]/[deserialize_with] functions standing in for the field's own impl;
    - a skipped field is absent from the wire and is [Default::default()] after decoding;
    - an enum is one tag byte and the fields of the variant; the tag is the position of the
      variant, unless [use_discriminant = true], in which case it is the variant's discriminant
      as Rust assigns it. *)
Definition doc_skipped (f : field) : bool := existsb is_skip (field_metas f).
Definition doc_with (k : derive_kind) (f : field) : option ty :=
  fold_left (fun acc m =>
               match k, m with
               | DSer, FSerializeWith _ t => Some t
               | DDe, FDeserializeWith _ t => Some t
               | _, _ => acc
               end) (field_metas f) None.
Definition doc_field_ty (k : derive_kind) (f : field) : ty :=
  match doc_with k f with
  | Some t => if doc_skipped f then f_ty f else t
  | None => f_ty f
  end.
Definition doc_fields (k : derive_kind) (mk : list string -> list bool -> prod_kind) (fs : list field) : ty :=
  TProd (mk (map f_name fs) (map doc_skipped fs)) (map (doc_field_ty k) fs).

Definition doc_tag (it : item) (vs : list variant) (i : nat) : N :=
  match setting it with
  | Some true => match rust_discr (map v_discr vs) i with Some z => Z.to_N z | None => 0 end
  | _ => N.of_nat i
  end.

Definition documented_sem (k : derive_kind) (it : item) : ty :=
  match it_body it with
  | BStruct fs => doc_fields k (PStruct (it_name it)) (fields_list fs)
  | BEnum vs =>
      TSum (KEnum (it_name it) (map v_name vs) (map (doc_tag it vs) (seq 0 (length vs))))
           (map (fun v => doc_fields k PVariant (fields_list (v_fields v))) vs)
  | BUnion fs => TUnit UUnit          (* unions are refused: no documented semantics *)
  end.

(** * The emitted decoder: init hook and [deserialize_variant] *)
Section Run.
  Variable c : cfg.
  (** what the user's [fn init(&mut self)] named by the path does to the value *)
  Variable hook : string -> val -> val.

  (** [let mut return_value = CONSTRUCT?; return_value.init(); Ok(return_value)]
      the second component counts the calls of the hook *)
  Definition with_init (it : item) (r : result (val * bytes)) : result (val * bytes) * nat :=
    match r with
    | Ok (v, rest) =>
        match init_of it with
        | Some h => (Ok (hook h v, rest), 1%nat)
        | None => (Ok (v, rest), 0%nat)
        end
    | Err k m => (Err k m, 0%nat)
    | Panic w => (Panic w, 0%nat)
    end.

  (** deserialize/structs: [Ok(Self { f: deserialize_reader(reader)?, .. })] *)
  Definition struct_deserialize_reader (it : item) (t : ty) (bs : bytes) : result (val * bytes) * nat :=
    with_init it (dec_slice c t bs).

  (** deserialize/enums: [if variant_tag == TAG0 { V0 .. } else if variant_tag == TAG1 { V1 .. } else
      { return Err(InvalidData, "Unexpected variant tag") }] *)
  Fixpoint variant_chain (tag : N) (i : N) (tags : list N) (vs : list ty) (bs : bytes) : result (val * bytes) :=
    match tags, vs with
    | t :: tr, p :: pr =>
        if t =? tag
        then '(v, rest) <- dec_slice c p bs ;; Ok (VV i v, rest)
        else variant_chain tag (N.succ i) tr pr bs
    | _, _ => Err InvalidData (MBadVariant tag)
    end.

  (** [EnumExt::deserialize_variant(reader, variant_tag)] *)
  Definition deserialize_variant (it : item) (t : ty) (bs : bytes) (tag : N) : result (val * bytes) * nat :=
    match t with
    | TSum (KEnum _ _ tags) vs => with_init it (variant_chain tag 0 tags vs bs)
    | _ => (Panic P_ILLTYPED, 0%nat)
    end.

  (** [let tag = <u8 as BorshDeserialize>::deserialize_reader(reader)?; Self::deserialize_variant(reader, tag)] *)
  Definition enum_deserialize_reader (it : item) (t : ty) (bs : bytes) : result (val * bytes) * nat :=
    match dec_slice c (TPrim (PInt false W1)) bs with
    | Ok (VN tag, rest) => deserialize_variant it t rest tag
    | Ok _ => (Panic P_ILLTYPED, 0%nat)
    | Err k m => (Err k m, 0%nat)
    | Panic w => (Panic w, 0%nat)
    end.

  Definition derived_deserialize_reader (it : item) (t : ty) (bs : bytes) : result (val * bytes) * nat :=
    match it_body it with
    | BEnum _ => enum_deserialize_reader it t bs
    | _ => struct_deserialize_reader it t bs
    end.
End Run.
