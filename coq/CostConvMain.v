(** C07, conversions, second part: the constants by recursion on the type, the main
    induction, and the statements about the cost record.

    [q] is the weight of one converted value of [e] bytes ([fun _ => 1]: units, [fun e => e]:
    bytes); [sz] is size_of.  With e = size_of of the element type:
      VG t  : weight of an element decode (every converting collection inside [t] converts
              elements that were decoded as elements): max of q e over these collections
      VS0 t : what a SUCCESSFUL decode converts beyond VG * elems + VS1 * (bytes consumed)
      VF0 t : the same for a FAILING decode, beyond VG * elems + VS1 * |input|
      VS1 t : converted weight per input byte
      Bytes:                         VG = 0     VS0 = VF0 = 0   VS1 = q 1  (the byte loop decodes no element)
      str (for Box<str>, Rc<str>):   VG = 0     VS0 = VF0 = 0   VS1 = q 1
      String, BytesMut:              0, 0, 0, 0
      BTreeSet<T>, HashMap<K,V>, LinkedList<T> ..., [T] (for Box<[T]>), T not u8:
                                     VG = max (q e) (VG T)   VS0 = 0   VF0 = VF0 T   VS1 = VS0 T + VS1 T
      the same with T = u8:          VG = q e                VS0 = VF0 = 0           VS1 = q e
      Vec<T>, VecDeque<T>:           VG = VG T               VS0 = 0   VF0 = VF0 T   VS1 = VS0 T + VS1 T
      [T; n]:                        VS0 = n * VS0 T   VF0 = (n-1) * VS0 T + VF0 T   VS1 = VS1 T
      tuples / structs:              VS0 = sum, VF0 = max_k (VS0 T1 + .. + VS0 T(k-1) + VF0 Tk), VG, VS1 = max
      enums:                         maxima over the variants
      Box<T>, Rc<T>, Arc<T>:         VS0 = VS0 T + q (size_of T)   (nothing for Box<[T]> / Box<str>:
                                     the slice was paid by its elements / bytes)
      other wrappers:                as the wrapped type. *)
From Coq Require Import String.
From Coq Require Import List NArith Bool Lia.
From Borsh Require Import Bytes BytesFacts Result Loop LoopFacts Ty TyInd Ser De CodecFacts ParseFacts DecCorollaries
     Cost CostFacts CostLoops CostBasic CostBounds CostMain CostTight CostTightMain CostConv.
Import ListNotations.
Local Open Scope N_scope.

(** credit per decoded item of a sequence: spent by the collection's own conversion, or
    (for a slice) kept for the [Box] / [Rc] / [Arc] around it *)
Definition dseq (q : N -> N) (sz : ty -> N) (k : seq_kind) (t' : ty) : N :=
  match k with SVec | SDeque => 0 | _ => q (sz t') end.
Definition dtext (q : N -> N) (k : text_kind) : N :=
  match k with XBytes | XStr | XAsciiStr => q 1 | _ => 0 end.
(** credit per item that a decoded value of type [t] keeps for a wrapper *)
Definition dres (q : N -> N) (sz : ty -> N) (t : ty) : N :=
  match t with
  | TSeq SSlice e => q (sz e)
  | TText XStr | TText XAsciiStr => q 1
  | _ => 0
  end.
Definition cwrap (q : N -> N) (sz : ty -> N) (w : wrap_kind) (t' : ty) : N :=
  match w with
  | WBox | WRc | WArc =>
      match t' with
      | TSeq SSlice _ => 0
      | TText XStr | TText XAsciiStr => 0
      | _ => q (sz t')
      end
  | _ => 0
  end.

Fixpoint VG (q : N -> N) (sz : ty -> N) (t : ty) {struct t} : N :=
  match t with
  | TPrim _ | TUnit _ | TRaw _ | TText _ => 0
  | TSeq k t' => N.max (dseq q sz k t') (VG q sz t')
  | TArray _ t' => VG q sz t'
  | TProd _ ts => fold_right (fun x a => N.max (VG q sz x) a) 0 ts
  | TSum _ vs => fold_right (fun x a => N.max (VG q sz x) a) 0 vs
  | TWrap _ t' => VG q sz t'
  end.
Fixpoint VS0 (q : N -> N) (sz : ty -> N) (t : ty) {struct t} : N :=
  match t with
  | TPrim _ | TUnit _ | TRaw _ | TText _ | TSeq _ _ => 0
  | TArray n t' => if is_u8 t' then 0 else n * VS0 q sz t'
  | TProd _ ts => fold_right (fun x a => VS0 q sz x + a) 0 ts
  | TSum _ vs => fold_right (fun x a => N.max (VS0 q sz x) a) 0 vs
  | TWrap w t' => VS0 q sz t' + cwrap q sz w t'
  end.
Fixpoint VF0 (q : N -> N) (sz : ty -> N) (t : ty) {struct t} : N :=
  match t with
  | TPrim _ | TUnit _ | TRaw _ | TText _ => 0
  | TSeq _ t' => if is_u8 t' then 0 else VF0 q sz t'
  | TArray n t' => if is_u8 t' then 0 else if n =? 0 then 0 else (n - 1) * VS0 q sz t' + VF0 q sz t'
  | TProd _ ts => fold_right (fun x a => N.max (VF0 q sz x) (VS0 q sz x + a)) 0 ts
  | TSum _ vs => fold_right (fun x a => N.max (VF0 q sz x) a) 0 vs
  | TWrap _ t' => VF0 q sz t'
  end.
Fixpoint VS1 (q : N -> N) (sz : ty -> N) (t : ty) {struct t} : N :=
  match t with
  | TPrim _ | TUnit _ | TRaw _ => 0
  | TText k => dtext q k
  | TSeq k t' => if is_u8 t' then dseq q sz k t' else VS0 q sz t' + VS1 q sz t'
  | TArray _ t' => VS1 q sz t'
  | TProd _ ts => fold_right (fun x a => N.max (VS1 q sz x) a) 0 ts
  | TSum _ vs => fold_right (fun x a => N.max (VS1 q sz x) a) 0 vs
  | TWrap _ t' => VS1 q sz t'
  end.


Section ConvMain.
  Variables (q : N -> N) (sz : ty -> N) (c : cfg).

  Notation vG := (VG q sz).
  Notation vS0 := (VS0 q sz).
  Notation vF0 := (VF0 q sz).
  Notation vS1 := (VS1 q sz).
  Notation vb := (vbound q).
  Definition rres (t : ty) (v : val) : N := dres q sz t * val_len v.
  Ltac vw := try (intros; unfold r0, rres; cbn [dres]; cbv beta; lia); auto; try discriminate.

  Lemma cm_conv1 n e : cm q [EConv n e] = n * q e.
  Proof. unfold cm. rewrite sum_of_cons, sum_of_nil. cbn [wq]. lia. Qed.

  Lemma text_post_ok k l v : text_post k l = Ok v -> v = VL l.
  Proof.
    unfold text_post. destruct (vals_ns l); [|discriminate].
    destruct (text_check k l0); [discriminate|]. intros H. now inversion H.
  Qed.

  (** the struct / tuple field loop *)
  Lemma cdec_fields_conv ts :
    Forall (fun t => fam t = true -> vb (vG t) (wire_pos t) (rres t) (vS0 t) (vF0 t) (vS1 t) (cdec sz c t)) ts ->
    forallb (fun x => fam x) ts = true ->
    forall sk,
      vb (fold_right (fun x a => N.max (vG x) a) 0 ts)
         (any_unskipped (fun x => wire_pos x) ts sk) r0
         (fold_right (fun x a => vS0 x + a) 0 ts)
         (fold_right (fun x a => N.max (vF0 x) (vS0 x + a)) 0 ts)
         (fold_right (fun x a => N.max (vS1 x) a) 0 ts)
         (cdec_fields (fun t' s => cdec sz c t' s) ts sk).
  Proof.
    induction 1 as [|t' tr Ht' Htr IH]; intros Hfam sk; cbn [cdec_fields any_unskipped fold_right forallb] in *.
    - apply vbound_ret.
    - apply andb_true_iff in Hfam. destruct Hfam as [Hf1 Hf2].
      set (sb := match sk with b :: _ => b | [] => false end).
      set (sr := match sk with _ :: r => r | [] => [] end).
      set (GG := fold_right (fun x a => N.max (vG x) a) 0 tr) in *.
      set (SS := fold_right (fun x a => vS0 x + a) 0 tr) in *.
      set (FF := fold_right (fun x a => N.max (vF0 x) (vS0 x + a)) 0 tr) in *.
      set (AA := fold_right (fun x a => N.max (vS1 x) a) 0 tr) in *.
      refine (vbound_bind q (N.max (vG t') GG) (negb sb && wire_pos t') (any_unskipped (fun x => wire_pos x) tr sr)
                r0 (vS0 t') (vF0 t') SS FF (N.max (vS1 t') AA) _ _ _ _).
      + destruct sb; cbn [negb andb].
        * eapply vbound_weaken; [| | | | | |apply (vbound_ret q 0)]; vw.
        * eapply vbound_weaken; [| | | | | |apply (Ht' Hf1)]; vw.
      + intros v. apply vbound_map.
        eapply vbound_weaken; [| | | | | |apply (IH Hf2 sr)]; vw.
  Qed.

  (** the variant dispatch *)
  Lemma nth_or_conv vs d :
    Forall (fun t => fam t = true -> vb (vG t) (wire_pos t) (rres t) (vS0 t) (vF0 t) (vS1 t) (cdec sz c t)) vs ->
    forallb (fun x => fam x) vs = true ->
    forall m,
      vb (fold_right (fun x a => N.max (vG x) a) 0 vs) false r0
         (fold_right (fun x a => N.max (vS0 x) a) 0 vs)
         (fold_right (fun x a => N.max (vF0 x) a) 0 vs)
         (fold_right (fun x a => N.max (vS1 x) a) 0 vs)
         (fun s1 => nth_or (fun t' => cdec sz c t' s1) (mlift (Err InvalidData d)) vs m).
  Proof.
    induction 1 as [|x r Hx Hr IH]; intros Hfam m; cbn [fold_right forallb] in *.
    - destruct m; cbn [nth_or]; (eapply vbound_weaken; [| | | | | |apply (vbound_fail q 0 r0 InvalidData d)]; vw).
    - apply andb_true_iff in Hfam. destruct Hfam as [Hf1 Hf2].
      destruct m as [|m]; cbn [nth_or].
      + eapply vbound_weaken; [| | | | | |apply (Hx Hf1)]; vw.
      + eapply vbound_weaken; [| | | | | |apply (IH Hf2 m)]; vw.
  Qed.

  Theorem cdec_vbound :
    sz_ok sz -> forall t, fam t = true ->
    vb (vG t) (wire_pos t) (rres t) (vS0 t) (vF0 t) (vS1 t) (cdec sz c t).
  Proof.
    intros Hsz. induction t as [p|u|k|k|k t' IH|n t' IH|k ts IH|k vs IH|w t' IH] using ty_ind'; intros Hfam.
    - (* prim *)
      cbn [cdec wire_pos VG VS0 VF0 VS1].
      eapply vbound_weaken; [| | | | | |apply (vbound_lift q 0 true)]; vw.
      intros bs a rest. cbn [dec].
      destruct (read_mapped slice_reader (N.of_nat (prim_width p)) bs) as [[b s']|? ?|?] eqn:E; cbn [bind]; try discriminate.
      apply read_mapped_len in E. destruct (prim_de_check p (unle b)); [discriminate|].
      intros H. inversion H; subst. pose proof (prim_width_pos p). cbn [bpos]. lia.
    - (* unit *)
      cbn [cdec wire_pos VG VS0 VF0 VS1].
      eapply vbound_weaken; [| | | | | |apply (vbound_lift q 0 false)]; vw.
      intros bs a rest. cbn [dec]. intros H. inversion H; subst. cbn [bpos]. lia.
    - (* raw *)
      cbn [cdec wire_pos VG VS0 VF0 VS1].
      eapply vbound_weaken; [| | | | | |apply (vbound_lift q 0 true)]; vw.
      intros bs a rest. cbn [dec].
      destruct (read_mapped slice_reader (raw_len k) bs) as [[b s']|? ?|?] eqn:E; cbn [bind]; try discriminate.
      apply read_mapped_len in E. intros H. inversion H; subst. cbn [bpos]. destruct k; cbn [raw_len] in E; lia.
    - (* text *)
      assert (Hvec : vb 0 true (rres (TText k)) 0 0 (dtext q k)
                 (fun s => '(l, s') <<- cdec_vec 1 true (fun s => mlift (Panic P_ILLTYPED)) s ;;
                           v <<- mlift (text_post k l) ;; _ <<- emits (conv_text k (len l)) ;; mret (v, s'))).
      { eapply vbound_weaken;
          [| | | | | |apply (vbound_tail q 0 true (fun l : list val => dtext q k * len l) (rres (TText k)) 0 0 (dtext q k) 0
                             (cdec_vec 1 true (fun s => mlift (Panic P_ILLTYPED))) (text_post k) (fun l => conv_text k (len l)))]; vw.
        - apply (cdec_vec_conv q 0 (dtext q k) 0 0 0 (dtext q k) 1 true); [lia|discriminate].
        - intros l. apply conv_text_only.
        - intros l v E. apply text_post_ok in E. subst v. unfold rres. cbn [val_len].
          destruct k; cbn [conv_text dres dtext]; rewrite ?cm_conv1, ?cm_nil; lia. }
      destruct k; cbn [cdec wire_pos VG VS0 VF0 VS1]; try exact Hvec.
      (* BytesMut *)
      set (rd := fun s : bytes => mlift ('(b, s') <- read_u8 slice_reader s ;; Ok (VN b, s'))).
      assert (Hrd : vb 0 true r0 0 0 0 rd).
      { apply vbound_lift. intros bs a rest. destruct (read_u8 slice_reader bs) as [[b s']|? ?|?] eqn:E; cbn [bind]; try discriminate.
        apply read_u8_len in E. intros H. inversion H; subst. cbn [bpos]. lia. }
      eapply vbound_weaken;
        [| | | | | |apply (vbound_bind q 0 true false (rres (TText XBytesMut)) 0 0 0 0 0 (fun s => mlift (read_u32 slice_reader s))
                             (fun n s1 => '(l, s2) <<- cpush_loop 1 rd n s1 ;; mret (VL l, s2)))]; vw.
      + apply vbound_lift. intros bs n s1 H. apply read_u32_len in H. cbn [bpos]. lia.
      + intros n. apply vbound_map.
        eapply vbound_weaken; [| | | | | |apply (cpush_loop_conv q 0 0 0 0 1 rd n Hrd)]; vw.
    - (* seq *)
      cbn [cdec wire_pos VG VS0 VF0 VS1]. cbn [fam] in Hfam.
      destruct (mem_zst (key_ty k t')) eqn:Ez.
      + eapply vbound_weaken; [| | | | | |apply (vbound_fail q 0 (rres (TSeq k t')) InvalidData MZst)]; vw.
      + cbn [orb] in Hfam. apply andb_true_iff in Hfam. destruct Hfam as [Hwp Hft].
        set (GG := N.max (dseq q sz k t') (vG t')).
        set (AA := if is_u8 t' then dseq q sz k t' else vS0 t' + vS1 t').
        eapply vbound_weaken;
          [| | | | | |apply (vbound_tail q GG true (fun l : list val => dseq q sz k t' * len l) (rres (TSeq k t'))
                              0 (if is_u8 t' then 0 else vF0 t') AA 0
                              (cdec_vec (sz t') (is_u8 t') (cdec sz c t')) (post c k (key_ty k t'))
                              (fun l => conv_seq k (len l) (sz t')))]; vw.
        * apply (cdec_vec_conv q GG (dseq q sz k t') (vS0 t') (vF0 t') (vS1 t') AA (sz t') (is_u8 t')).
          -- intros Eu. unfold AA. rewrite Eu. lia.
          -- intros Eu. unfold AA. rewrite Eu. repeat split; try (unfold GG; lia).
             ++ specialize (IH Hft). rewrite Hwp in IH.
                eapply vbound_weaken; [| | | | | |exact IH]; unfold GG; vw.
             ++ apply Hsz. now apply (mem_zst_key k).
        * intros l. apply conv_seq_only.
        * intros l v E. unfold rres, post in E |- *.
          destruct k; cbn [conv_seq dres dseq is_ordered andb] in *;
            rewrite ?cm_conv1, ?cm_nil; try lia.
          inversion E; subst v. cbn [val_len]. lia.
    - (* array *)
      cbn [cdec wire_pos VG VS0 VF0 VS1]. cbn [fam] in Hfam.
      destruct (is_u8 t') eqn:Eu.
      + assert (Hwp : wire_pos t' = true) by (destruct t' as [[[] []| | | | | |]| | | | | | | |]; try discriminate; reflexivity).
        rewrite Hwp, andb_true_r.
        eapply vbound_weaken; [| | | | | |apply (vbound_lift q 0 (negb (n =? 0)))]; vw.
        intros bs a rest. destruct (read_mapped slice_reader n bs) as [[b s']|? ?|?] eqn:E; cbn [bind]; try discriminate.
        apply read_mapped_len in E. intros H. inversion H; subst. destruct (N.eqb_spec n 0); cbn [negb bpos]; lia.
      + apply vbound_map. destruct (N.eqb_spec n 0) as [->|Hn0].
        * (* no iteration *)
          cbn [N.eqb negb andb]. intros bs. unfold crepeat. cbn [citerN]. rewrite mbind_ret_l.
          cbn [mret fst snd rev_append bpos]. change (cm q []) with 0. change (el []) with 0.
          unfold rres. cbn [dres]. split; lia.
        * cbn [orb] in Hfam. cbn [negb andb].
          assert (Hel : vb (vG t') (wire_pos t') r0 (vS0 t') (vF0 t') (vS1 t') (cdec sz c t')).
          { eapply vbound_weaken; [| | | | | |exact (IH Hfam)]; vw. }
          eapply vbound_weaken; [| | | | | |apply (crepeat_array_conv q (vG t') (wire_pos t') (vS0 t') (vF0 t') (vS1 t') (cdec sz c t') n n Hel)]; vw.
    - (* prod *)
      cbn [cdec wire_pos VG VS0 VF0 VS1]. cbn [fam] in Hfam. apply vbound_map.
      eapply vbound_weaken; [| | | | | |apply (cdec_fields_conv ts IH Hfam)]; vw.
    - (* sum *)
      cbn [cdec wire_pos VG VS0 VF0 VS1]. cbn [fam] in Hfam.
      set (GG := fold_right (fun x a => N.max (vG x) a) 0 vs).
      set (SS := fold_right (fun x a => N.max (vS0 x) a) 0 vs).
      set (FF := fold_right (fun x a => N.max (vF0 x) a) 0 vs).
      set (AA := fold_right (fun x a => N.max (vS1 x) a) 0 vs).
      eapply vbound_weaken;
        [| | | | | |apply (vbound_bind q GG true false (rres (TSum k vs)) 0 0 SS FF AA (fun s => mlift (read_u8 slice_reader s)))]; vw.
      + eapply vbound_weaken; [| | | | | |apply (vbound_lift q GG true (read_u8 slice_reader))]; vw.
        intros bs b s1 H. apply read_u8_len in H. cbn [bpos]. lia.
      + intros b. destruct (find_tag (sum_tags k) b 0) as [i|].
        * apply vbound_map.
          eapply vbound_weaken; [| | | | | |apply (nth_or_conv vs (bad_tag k b) IH Hfam)]; vw.
        * eapply vbound_weaken; [| | | | | |apply (vbound_fail q GG (rres (TSum k vs)) InvalidData (bad_tag k b))]; vw.
    - (* wrap *)
      cbn [cdec wire_pos VG VS0 VF0 VS1]. cbn [fam] in Hfam.
      apply (vbound_conv q _ _ (rres t') (rres (TWrap w t')) _ _ _ (cwrap q sz w t') _ (conv_wrap sz w t')); [exact (IH Hfam)| |].
      + intros v. apply conv_wrap_only.
      + intros v. unfold rres.
        destruct w; cbn [conv_wrap cwrap dres]; rewrite ?cm_nil; try lia.
        all: destruct t' as [| | |[]|[] ?| | | |]; cbn [dres]; rewrite ?cm_conv1; lia.
  Qed.
End ConvMain.

(** * The statements about the cost record *)
Definition qu (e : N) : N := 1.     (* converted units *)
Definition qb (e : N) : N := e.     (* converted bytes *)

Lemma cm_units tr : cm qu tr = sum_of ev_conv_units tr.
Proof.
  unfold cm. induction tr as [|e tr IH]; [reflexivity|]. rewrite !sum_of_cons, IH.
  destruct e; cbn [wq ev_conv_units]; unfold qu; lia.
Qed.
Lemma cm_bytes tr : cm qb tr = sum_of ev_conv_bytes tr.
Proof.
  unfold cm. induction tr as [|e tr IH]; [reflexivity|]. rewrite !sum_of_cons, IH.
  destruct e; cbn [wq ev_conv_bytes]; unfold qb; lia.
Qed.

Lemma vbound_total q {A} g pos (r : A -> N) s0 f0 a1 (p : cparser A) bs :
  vbound q g pos r s0 f0 a1 p ->
  cm q (fst (p bs)) <= g * el (fst (p bs)) + N.max s0 f0 + a1 * len bs.
Proof.
  intros H. specialize (H bs). destruct (snd (p bs)) as [[a rest]|k e|w]; lia.
Qed.

Lemma vbound_success q {A} g pos (r : A -> N) s0 f0 a1 (p : cparser A) bs v rest :
  vbound q g pos r s0 f0 a1 p -> snd (p bs) = Ok (v, rest) ->
  len rest <= len bs /\ cm q (fst (p bs)) <= g * el (fst (p bs)) + s0 + a1 * (len bs - len rest).
Proof.
  intros H E. specialize (H bs). rewrite E in H. destruct H as [Hl Hm].
  assert (Hle : len rest <= len bs) by lia. split; [exact Hle|].
  rewrite N.mul_sub_distr_l.
  assert (a1 * len rest <= a1 * len bs) by (apply N.mul_le_mono_l; exact Hle). lia.
Qed.

(** for units the weight of an element decode is at most 1 *)
Lemma VG_units_le1 sz t : VG qu sz t <= 1.
Proof.
  induction t as [p|u|k|k|k t' IH|n t' IH|k ts IH|k vs IH|w t' IH] using ty_ind'; cbn [VG]; try lia.
  - unfold dseq. assert (Hq : forall e, qu e = 1) by reflexivity. destruct k; rewrite ?Hq; lia.
  - induction IH as [|x r Hx Hr IHr]; cbn [fold_right]; lia.
  - induction IH as [|x r Hx Hr IHr]; cbn [fold_right]; lia.
Qed.

(** constants of the conversions relative to the element decodes *)
Definition CW0 (sz : ty -> N) (t : ty) : N := N.max (VS0 qu sz t) (VF0 qu sz t).
Definition CW1 (sz : ty -> N) (t : ty) : N := VS1 qu sz t.
Definition CBG (sz : ty -> N) (t : ty) : N := VG qb sz t.
Definition CBW0 (sz : ty -> N) (t : ty) : N := N.max (VS0 qb sz t) (VF0 qb sz t).
Definition CBW1 (sz : ty -> N) (t : ty) : N := VS1 qb sz t.

(** Every converted unit was decoded as an element first, except: the bytes of [Bytes],
    [BTreeSet<u8>], [Box<[u8]>], [Box<str>] ... (decoded by the byte loop, which decodes no
    element: [CW1] per input byte) and single values boxed by [Box::new] / [Rc::new]
    ([CW0], or [CW1] per input byte when they sit inside a collection).  For a type
    without these, [CW0 = CW1 = 0]: conv_units <= elems. *)
Theorem cdec_conv_units_elems sz c t bs :
  sz_ok sz -> fam t = true ->
  conv_units (cost_of (fst (cdec sz c t bs))) <=
  elems (cost_of (fst (cdec sz c t bs))) + CW0 sz t + CW1 sz t * len bs.
Proof.
  intros Hsz Hf. cbn [cost_of conv_units elems]. rewrite <- cm_units.
  pose proof (vbound_total qu _ _ _ _ _ _ _ bs (cdec_vbound qu sz c Hsz t Hf)) as H.
  pose proof (VG_units_le1 sz t) as Hg. unfold CW0, CW1.
  assert (VG qu sz t * el (fst (cdec sz c t bs)) <= 1 * el (fst (cdec sz c t bs))) by (apply N.mul_le_mono_r; exact Hg).
  unfold el in *. lia.
Qed.

Theorem cdec_conv_units_success sz c t bs v rest :
  sz_ok sz -> fam t = true -> snd (cdec sz c t bs) = Ok (v, rest) ->
  len rest <= len bs /\
  conv_units (cost_of (fst (cdec sz c t bs))) <=
  elems (cost_of (fst (cdec sz c t bs))) + VS0 qu sz t + CW1 sz t * (len bs - len rest).
Proof.
  intros Hsz Hf E. cbn [cost_of conv_units elems]. rewrite <- cm_units.
  destruct (vbound_success qu _ _ _ _ _ _ _ bs v rest (cdec_vbound qu sz c Hsz t Hf) E) as [Hl H].
  split; [exact Hl|].
  pose proof (VG_units_le1 sz t) as Hg. unfold CW1.
  assert (VG qu sz t * el (fst (cdec sz c t bs)) <= 1 * el (fst (cdec sz c t bs))) by (apply N.mul_le_mono_r; exact Hg).
  unfold el in *. lia.
Qed.

(** The same for bytes: an element decode is worth at most [CBG] = the largest size_of
    among the element types of the converting collections inside [t]. *)
Theorem cdec_conv_bytes_elems sz c t bs :
  sz_ok sz -> fam t = true ->
  conv_bytes (cost_of (fst (cdec sz c t bs))) <=
  CBG sz t * elems (cost_of (fst (cdec sz c t bs))) + CBW0 sz t + CBW1 sz t * len bs.
Proof.
  intros Hsz Hf. cbn [cost_of conv_bytes elems]. rewrite <- cm_bytes.
  exact (vbound_total qb _ _ _ _ _ _ _ bs (cdec_vbound qb sz c Hsz t Hf)).
Qed.

Theorem cdec_conv_bytes_success sz c t bs v rest :
  sz_ok sz -> fam t = true -> snd (cdec sz c t bs) = Ok (v, rest) ->
  len rest <= len bs /\
  conv_bytes (cost_of (fst (cdec sz c t bs))) <=
  CBG sz t * elems (cost_of (fst (cdec sz c t bs))) + VS0 qb sz t + CBW1 sz t * (len bs - len rest).
Proof.
  intros Hsz Hf E. cbn [cost_of conv_bytes elems]. rewrite <- cm_bytes.
  exact (vbound_success qb _ _ _ _ _ _ _ bs v rest (cdec_vbound qb sz c Hsz t Hf) E).
Qed.

Theorem cdec_conv_success sz c t bs v rest :
  sz_ok sz -> fam t = true -> snd (cdec sz c t bs) = Ok (v, rest) ->
  (len rest <= len bs /\
   conv_units (cost_of (fst (cdec sz c t bs))) <=
   elems (cost_of (fst (cdec sz c t bs))) + VS0 qu sz t + CW1 sz t * (len bs - len rest)) /\
  (len rest <= len bs /\
   conv_bytes (cost_of (fst (cdec sz c t bs))) <=
   CBG sz t * elems (cost_of (fst (cdec sz c t bs))) + VS0 qb sz t + CBW1 sz t * (len bs - len rest)).
Proof.
  intros H1 H2 H3. split; [exact (cdec_conv_units_success sz c t bs v rest H1 H2 H3)|exact (cdec_conv_bytes_success sz c t bs v rest H1 H2 H3)].
Qed.

(** * In terms of the input length alone (with the tight work bound [cdec_work_tight]) *)
Definition CU0 (sz : ty -> N) (t : ty) : N := F0 0 1 sz t + CW0 sz t.
Definition CU1 (sz : ty -> N) (t : ty) : N := S1 0 1 sz t + CW1 sz t.
Definition CB0 (sz : ty -> N) (t : ty) : N := CBG sz t * F0 0 1 sz t + CBW0 sz t.
Definition CB1 (sz : ty -> N) (t : ty) : N := CBG sz t * S1 0 1 sz t + CBW1 sz t.

Theorem cdec_conv_units sz c t bs :
  sz_ok sz -> fam t = true ->
  conv_units (cost_of (fst (cdec sz c t bs))) <= CU0 sz t + CU1 sz t * len bs.
Proof.
  intros Hsz Hf.
  pose proof (cdec_conv_units_elems sz c t bs Hsz Hf) as H1.
  pose proof (cdec_work_tight sz c t bs Hsz Hf) as H2.
  unfold CU0, CU1. lia.
Qed.

Theorem cdec_conv_bytes sz c t bs :
  sz_ok sz -> fam t = true ->
  conv_bytes (cost_of (fst (cdec sz c t bs))) <= CB0 sz t + CB1 sz t * len bs.
Proof.
  intros Hsz Hf.
  pose proof (cdec_conv_bytes_elems sz c t bs Hsz Hf) as H1.
  pose proof (cdec_work_tight sz c t bs Hsz Hf) as H2.
  apply (N.mul_le_mono_l _ _ (CBG sz t)) in H2.
  unfold CB0, CB1. lia.
Qed.
