(** The decoder: one clause per [BorshDeserialize] impl of borsh/src/de/mod.rs,
    generic in the reader. *)
From Coq Require Import String.
From Coq Require Import List NArith Bool.
From Borsh Require Import Bytes Result Loop Ty Ser.
Import ListNotations.
Local Open Scope N_scope.

(** One [Read::read] call. *)
Inductive read_result :=
| RData (b : bytes)            (* Ok(n) with these n bytes; [] is Ok(0) *)
| RIntr                        (* Err(Interrupted) *)
| RFail (k : kind) (m : msg).

Record reader (St : Type) := {
  rd_exact : N -> St -> result (bytes * St);     (* Read::read_exact on an n-byte buffer *)
  rd_some : N -> St -> read_result * St;         (* one Read::read call on an n-byte buffer *)
  rd_budget : St -> N;                          (* upper bound on the RIntr answers still to come *)
}.
Arguments rd_exact {St}.
Arguments rd_some {St}.
Arguments rd_budget {St}.

(** [unexpected_eof_to_unexpected_length_of_input] *)
Definition map_eof {A} (r : result A) : result A :=
  match r with
  | Err UnexpectedEof _ => Err InvalidData MUnexpectedLength
  | _ => r
  end.

Definition CHUNK : N := 1024 * 1024.

Section Dec.
  Context {St : Type} (R : reader St) (c : cfg).

  Definition read_mapped (n : N) (s : St) : result (bytes * St) := map_eof (rd_exact R n s).

  Definition read_u8 (s : St) : result (N * St) :=
    '(b, s') <- read_mapped 1 s ;; Ok (unle b, s').
  Definition read_u32 (s : St) : result (N * St) :=
    '(b, s') <- read_mapped 4 s ;; Ok (unle b, s').

  (** [u8::vec_from_reader]: buffer of [min len 1MiB], doubled (capped at [len])
      whenever it is full, filled by bare [read] calls. *)
  Definition bulk_step (n : N) (st : N * N * list bytes * St) : result ((N * N * list bytes * St) + (bytes * St)) :=
    let '(buf, pos, acc, s) := st in
    if pos <? n then
      let buf' := if pos =? buf then N.min (2 * buf) n else buf in
      match rd_some R (buf' - pos) s with
      | (RData [], _) => Err InvalidData MUnexpectedLength
      | (RData ch, s') => Ok (inl (buf', pos + len ch, ch :: acc, s'))
      | (RIntr, s') => Ok (inl (buf', pos, acc, s'))
      | (RFail k m, _) => Err k m
      end
    else Ok (inr (concat (rev acc), s)).
  Definition bulk (n : N) (s : St) : result (bytes * St) :=
    loop_fuel (n + rd_budget R s + 1) (bulk_step n) (N.min n CHUNK, 0, [], s).

  (** [for _ in 0..len { result.push(T::deserialize_reader(reader)?) }] *)
  Definition repeat_dec (f : St -> result (val * St)) (n : N) (s : St) : result (list val * St) :=
    '(acc, s') <- iterN n (fun '(acc, s) => '(v, s') <- f s ;; Ok (v :: acc, s')) ([], s) ;;
    Ok (rev acc, s').

  (** [Vec<T>::deserialize_reader] after the [check_zst]. *)
  Definition dec_vec (u8 : bool) (f : St -> result (val * St)) (s : St) : result (list val * St) :=
    '(n, s1) <- read_u32 s ;;
    if n =? 0 then Ok ([], s1)
    else if u8 then '(b, s2) <- bulk n s1 ;; Ok (of_bytes b, s2)
    else repeat_dec f n s1.

  (** What each keyed collection does with the decoded [Vec]. *)
  Definition post (k : seq_kind) (kt : ty) (l : list val) : result val :=
    let cmp := cmp_val kt in
    let key := key_val k in
    if is_ordered k && strict c && negb (strictly_ascending cmp key l)
    then Err InvalidData MKeyOrder
    else Ok (match k with
             | SBTreeSet | SBTreeMap | SHashSet | SHashMap => VL (collect_sorted cmp key l)
             | SIndexSet | SIndexMap => VL (collect_index cmp key l)
             | SDeque => VL [VL l; VL []]
             | _ => VL l
             end).

  Definition text_post (k : text_kind) (l : list val) : result val :=
    match vals_ns l with
    | Some ns => match text_check k ns with
                 | None => Ok (VL l)
                 | Some m => Err InvalidData m
                 end
    | None => Panic P_ILLTYPED
    end.

  (** fields in declaration order; a skipped field is its [Default] and reads nothing *)
  Section DecFields. Variable f : ty -> St -> result (val * St).
    Fixpoint dec_fields (ts : list ty) (sk : list bool) (s : St) : result (list val * St) :=
      match ts with
      | [] => Ok ([], s)
      | t' :: tr =>
          let sb := match sk with b :: _ => b | [] => false end in
          let sr := match sk with _ :: r => r | [] => [] end in
          '(v, s1) <- (if sb then Ok (default_of t', s) else f t' s) ;;
          '(r, s2) <- dec_fields tr sr s1 ;;
          Ok (v :: r, s2)
      end.
  End DecFields.

  Fixpoint dec (t : ty) {struct t} : St -> result (val * St) :=
    match t with
    | TPrim p => fun s =>
        '(b, s') <- read_mapped (N.of_nat (prim_width p)) s ;;
        let n := unle b in
        match prim_de_check p n with
        | Some m => Err InvalidData m
        | None => Ok (VN n, s')
        end
    | TUnit _ => fun s => Ok (VL [], s)
    | TRaw k => fun s =>
        '(b, s') <- read_mapped (raw_len k) s ;; Ok (VL (of_bytes b), s')
    | TText XBytesMut => fun s =>
        '(n, s1) <- read_u32 s ;;
        '(l, s2) <- repeat_dec (fun s => '(b, s') <- read_u8 s ;; Ok (VN b, s')) n s1 ;;
        Ok (VL l, s2)
    | TText k => fun s =>
        '(l, s') <- dec_vec true (fun s => Panic P_ILLTYPED) s ;;
        v <- text_post k l ;; Ok (v, s')
    | TSeq k t' => fun s =>
        if mem_zst (key_ty k t') then Err InvalidData MZst else
        '(l, s') <- dec_vec (is_u8 t') (dec t') s ;;
        v <- post k (key_ty k t') l ;; Ok (v, s')
    | TArray n t' => fun s =>
        if is_u8 t' then '(b, s') <- read_mapped n s ;; Ok (VL (of_bytes b), s')
        else '(l, s') <- repeat_dec (dec t') n s ;; Ok (VL l, s')
    | TProd k ts => fun s =>
        '(l, s') <- dec_fields (fun t' s => dec t' s) ts (prod_skips k (length ts)) s ;;
        Ok (VL l, s')
    | TSum k vs => fun s =>
        '(b, s1) <- read_u8 s ;;
        match find_tag (sum_tags k) b 0 with
        | None => Err InvalidData (bad_tag k b)
        | Some i =>
            '(v, s2) <- nth_or (fun t' => dec t' s1) (Err InvalidData (bad_tag k b)) vs (N.to_nat i) ;;
            Ok (VV i v, s2)
        end
    | TWrap _ t' => dec t'
    end.
End Dec.

(** * The in-memory reader: [Read for &[u8]] *)
Definition slice_reader : reader bytes := {|
  rd_exact := fun n bs =>
    match take n bs with
    | Some (a, r) => Ok (a, r)
    | None => Err UnexpectedEof MFillWhole
    end;
  rd_some := fun n bs =>
    match take (N.min n (len bs)) bs with
    | Some (a, r) => (RData a, r)
    | None => (RData [], bs)           (* unreachable *)
    end;
  rd_budget := fun _ => 0;
|}.

Definition dec_slice (c : cfg) (t : ty) (bs : bytes) : result (val * bytes) :=
  dec slice_reader c t bs.
