(** C07, conversions: the [EConv] events (values handed to a constructor outside borsh:
    [collect()] into a keyed collection or a [LinkedList], [Box::new], [Rc::from],
    [Bytes::from] ...) are bounded by what is already bounded: the element decodes and
    the input length.

    The weight of [EConv n e] is [n * q e] for a parameter [q] ([q = fun _ => 1]: converted
    units; [q = fun e => e]: converted bytes).  For the measures
        cm tr = sum of n * q e over the EConv of tr,     el tr = number of EElem of tr
    [vbound g pos r s0 f0 a1 p] says, for every input [bs]:
      - on success with value [a] and [rest] left: |rest| (+1 if pos) <= |bs| and
            cm + r a + a1 * |rest| <= g * el + s0 + a1 * |bs|
        ([r a]: a residual credit kept for a conversion that a caller performs on [a]:
         a collection converts the [Vec] decoded by [cdec_vec], [Box<[T]>] converts the
         slice decoded underneath);
      - on failure: cm <= g * el + f0 + a1 * |bs|.
    Every element converted by a collection was decoded as an element first ([g * el]
    pays for it); what is not an element decode (the bytes of [Bytes], [BTreeSet<u8>],
    [Box<[u8]>], [Box<str>] come from the byte loop, which decodes no element; [Box::new]
    of one value) is paid by the input bytes consumed ([a1]) or by a constant ([s0]).

    What these theorems do NOT say: how many bytes the foreign constructor (a B-tree node,
    the buckets of a hash table, an [Rc] header) requests per converted byte.  That factor is
    std's / hashbrown's / indexmap's; it is observed by the allocator measurements of the
    check (which allows 12 * converted bytes + 48 per unit). *)
From Coq Require Import String.
From Coq Require Import List NArith Bool Lia.
From Borsh Require Import Bytes BytesFacts Result Loop LoopFacts Ty TyInd Ser De CodecFacts ParseFacts DecCorollaries
     Cost CostFacts CostLoops CostBasic CostBounds CostMain CostTight CostTightMain.
Import ListNotations.
Local Open Scope N_scope.

Section Conv.
  Variable q : N -> N.

  Definition wq (e : event) : N := match e with EConv n e => n * q e | _ => 0 end.
  Definition cm (tr : trace) : N := sum_of wq tr.
  Definition el (tr : trace) : N := sum_of ev_elem tr.

  Lemma cm_app a b : cm (a ++ b) = cm a + cm b.
  Proof. apply sum_of_app. Qed.
  Lemma cm_nil : cm [] = 0.
  Proof. reflexivity. Qed.
  Lemma el_app a b : el (a ++ b) = el a + el b.
  Proof. apply sum_of_app. Qed.
  Lemma el_nil : el [] = 0.
  Proof. reflexivity. Qed.
  Lemma cm_elem_cons tr : cm (EElem :: tr) = cm tr.
  Proof. unfold cm. rewrite sum_of_cons. cbn [wq]. lia. Qed.
  Lemma el_elem_cons tr : el (EElem :: tr) = 1 + el tr.
  Proof. unfold el. rewrite sum_of_cons. cbn [ev_elem]. lia. Qed.

  (** traces of requests only *)
  Definition alloc_only (tr : trace) : Prop := Forall (fun e => match e with EAlloc _ _ => True | _ => False end) tr.
  Lemma alloc_only_cm tr : alloc_only tr -> cm tr = 0.
  Proof. induction 1 as [|e tr He _ IH]; [reflexivity|]. unfold cm in *. rewrite sum_of_cons, IH. destruct e; try contradiction. cbn; lia. Qed.
  Lemma alloc_only_el tr : alloc_only tr -> el tr = 0.
  Proof. induction 1 as [|e tr He _ IH]; [reflexivity|]. unfold el in *. rewrite sum_of_cons, IH. destruct e; try contradiction. cbn; lia. Qed.
  Lemma conv_only_el tr : conv_only tr -> el tr = 0.
  Proof. induction 1 as [|e tr He _ IH]; [reflexivity|]. unfold el in *. rewrite sum_of_cons, IH. destruct e; try contradiction. cbn; lia. Qed.

  Definition vbound {A} (g : N) (pos : bool) (r : A -> N) (s0 f0 a1 : N) (p : cparser A) : Prop :=
    forall bs,
      match snd (p bs) with
      | Ok (a, rest) => len rest + bpos pos <= len bs /\
                        cm (fst (p bs)) + r a + a1 * len rest <= g * el (fst (p bs)) + s0 + a1 * len bs
      | _ => cm (fst (p bs)) <= g * el (fst (p bs)) + f0 + a1 * len bs
      end.

  Definition r0 {A} (a : A) : N := 0.

  Lemma vbound_weaken {A} g g' (pos pos' : bool) (r r' : A -> N) s0 f0 a1 s0' f0' a1' (p : cparser A) :
    g <= g' -> (pos' = true -> pos = true) -> (forall a, r' a <= r a) -> s0 <= s0' -> f0 <= f0' -> a1 <= a1' ->
    vbound g pos r s0 f0 a1 p -> vbound g' pos' r' s0' f0' a1' p.
  Proof.
    intros Hg Hp Hr H0 H1 H2 H bs. specialize (H bs).
    assert (Hbs : a1 * len bs <= a1' * len bs) by (apply N.mul_le_mono_r; exact H2).
    assert (Hge : g * el (fst (p bs)) <= g' * el (fst (p bs))) by (apply N.mul_le_mono_r; exact Hg).
    destruct (snd (p bs)) as [[a rest]|k e|w].
    - destruct H as [Hl Hm]. split.
      + destruct pos'; cbn [bpos] in *; [rewrite (Hp eq_refl) in Hl; cbn [bpos] in Hl|]; lia.
      + assert (Hle : len rest <= len bs) by lia. specialize (Hr a).
        assert ((a1' - a1) * len rest <= (a1' - a1) * len bs) by (apply N.mul_le_mono_l; exact Hle).
        assert (E1 : a1' * len rest = a1 * len rest + (a1' - a1) * len rest) by (rewrite <- N.mul_add_distr_r; f_equal; lia).
        assert (E2 : a1' * len bs = a1 * len bs + (a1' - a1) * len bs) by (rewrite <- N.mul_add_distr_r; f_equal; lia).
        lia.
    - lia.
    - lia.
  Qed.

  Lemma vbound_ext {A} g pos (r : A -> N) s0 f0 a1 (p p' : cparser A) :
    (forall s, p s = p' s) -> vbound g pos r s0 f0 a1 p -> vbound g pos r s0 f0 a1 p'.
  Proof. intros E H bs. rewrite <- E. apply H. Qed.

  Lemma vbound_lift {A} g (pos : bool) (f : bytes -> result (A * bytes)) :
    (forall bs a rest, f bs = Ok (a, rest) -> len rest + bpos pos <= len bs) ->
    vbound g pos r0 0 0 0 (fun s => mlift (f s)).
  Proof.
    intros H bs. cbn [mlift fst snd].
    destruct (f bs) as [[a rest]|k e|w] eqn:E; rewrite cm_nil, el_nil; unfold r0; try lia.
    split; [eapply H; eauto|lia].
  Qed.

  Lemma vbound_ret {A} g (a : A) : vbound g false r0 0 0 0 (fun s => mret (a, s)).
  Proof. intros bs. cbn [mret fst snd bpos]. rewrite cm_nil, el_nil. unfold r0. split; lia. Qed.

  Lemma vbound_fail {A} g (r : A -> N) (k : kind) (m : msg) : vbound g true r 0 0 0 (fun _ => mlift (Err k m)).
  Proof. intros bs. cbn [mlift fst snd]. rewrite cm_nil. lia. Qed.

  Lemma vbound_bind {A B} g pos1 pos2 (r : B -> N) s0 f0 s0' f0' a1 (p : cparser A) (k : A -> cparser B) :
    vbound g pos1 r0 s0 f0 a1 p -> (forall x, vbound g pos2 r s0' f0' a1 (k x)) ->
    vbound g (pos1 || pos2) r (s0 + s0') (N.max f0 (s0 + f0')) a1 (fun s => '(x, s1) <<- p s ;; k x s1).
  Proof.
    intros Hp Hq bs. specialize (Hp bs).
    destruct (p bs) as [tr1 [[x s1]|ke e|w]] eqn:Ep; cbn [fst snd] in *.
    - rewrite (mbind_ok _ _ (x, s1)) by reflexivity. cbn [fst snd].
      destruct Hp as [Hl Hm]. specialize (Hq x s1). unfold r0 in Hm.
      assert (Hle : len s1 <= len bs) by lia.
      rewrite cm_app, el_app, N.mul_add_distr_l. destruct (snd (k x s1)) as [[y s2]|ke e|w].
      + destruct Hq as [Hl2 Hm2]. split; [destruct pos1, pos2; cbn [bpos orb] in *; lia|lia].
      + lia.
      + lia.
    - rewrite (mbind_err _ _ ke e) by reflexivity. cbn [fst snd]. lia.
    - rewrite (mbind_panic _ _ w) by reflexivity. cbn [fst snd]. lia.
  Qed.

  Lemma vbound_map {A B} g pos (r : B -> N) s0 f0 a1 (p : cparser A) (h : A -> B) :
    vbound g pos (fun x => r (h x)) s0 f0 a1 p ->
    vbound g pos r s0 f0 a1 (fun s => '(x, s1) <<- p s ;; mret (h x, s1)).
  Proof.
    intros Hp bs. specialize (Hp bs).
    destruct (p bs) as [tr1 [[x s1]|k e|w]] eqn:Ep; cbn [fst snd] in *.
    - rewrite (mbind_ok _ _ (x, s1)) by reflexivity. cbn [mret fst snd]. rewrite app_nil_r. exact Hp.
    - rewrite (mbind_err _ _ k e) by reflexivity. exact Hp.
    - rewrite (mbind_panic _ _ w) by reflexivity. exact Hp.
  Qed.

  (** a tail that post-processes the value and records a conversion paid by the residual
      credit of [p] (plus a constant [c0]) *)
  Lemma vbound_tail {A B} g pos (rp : A -> N) (r : B -> N) s0 f0 a1 c0 (p : cparser A) (h : A -> result B) (cv : A -> trace) :
    vbound g pos rp s0 f0 a1 p ->
    (forall l, conv_only (cv l)) ->
    (forall l v, h l = Ok v -> cm (cv l) + r v <= rp l + c0) ->
    vbound g pos r (s0 + c0) (N.max s0 f0) a1
      (fun s => '(l, s') <<- p s ;; v <<- mlift (h l) ;; _ <<- emits (cv l) ;; mret (v, s')).
  Proof.
    intros Hp Hcv Hr bs. specialize (Hp bs).
    destruct (p bs) as [tr1 [[x s1]|k e|w]] eqn:Ep; cbn [fst snd] in *.
    - rewrite (mbind_ok _ _ (x, s1)) by reflexivity. cbn [fst snd].
      destruct Hp as [Hl Hm].
      assert (Hs1 : a1 * len s1 <= a1 * len bs) by (apply N.mul_le_mono_l; lia).
      destruct (h x) as [v|k e|w] eqn:Eg.
      + rewrite (mbind_ok (mlift (Ok v)) _ v) by reflexivity. cbn [mlift fst snd app].
        rewrite (mbind_ok (emits _) _ tt) by reflexivity. cbn [emits mret fst snd]. rewrite app_nil_r.
        rewrite cm_app, el_app, (conv_only_el _ (Hcv x)). specialize (Hr x v Eg).
        rewrite N.add_0_r. split; lia.
      + rewrite (mbind_err (mlift (Err k e)) _ k e) by reflexivity. cbn [mlift fst snd]. rewrite app_nil_r. lia.
      + rewrite (mbind_panic (mlift (Panic w)) _ w) by reflexivity. cbn [mlift fst snd]. rewrite app_nil_r. lia.
    - rewrite (mbind_err _ _ k e) by reflexivity. cbn [fst snd]. lia.
    - rewrite (mbind_panic _ _ w) by reflexivity. cbn [fst snd]. lia.
  Qed.

  Lemma vbound_conv {A} g pos (rp r : A -> N) s0 f0 a1 c0 (p : cparser A) (cv : A -> trace) :
    vbound g pos rp s0 f0 a1 p ->
    (forall v, conv_only (cv v)) ->
    (forall v, cm (cv v) + r v <= rp v + c0) ->
    vbound g pos r (s0 + c0) f0 a1 (fun s => '(v, s') <<- p s ;; _ <<- emits (cv v) ;; mret (v, s')).
  Proof.
    intros Hp Hcv Hr bs. specialize (Hp bs).
    destruct (p bs) as [tr1 [[x s1]|k e|w]] eqn:Ep; cbn [fst snd] in *.
    - rewrite (mbind_ok _ _ (x, s1)) by reflexivity. cbn [fst snd].
      rewrite (mbind_ok (emits _) _ tt) by reflexivity. cbn [emits mret fst snd]. rewrite app_nil_r.
      rewrite cm_app, el_app, (conv_only_el _ (Hcv x)). specialize (Hr x). rewrite N.add_0_r.
      destruct Hp. split; lia.
    - rewrite (mbind_err _ _ k e) by reflexivity. exact Hp.
    - rewrite (mbind_panic _ _ w) by reflexivity. exact Hp.
  Qed.

  (** * The loops *)
  Lemma push_cost_alloc_only e cap cnt : alloc_only (fst (push_cost e cap cnt)).
  Proof. unfold push_cost. destruct (cnt =? cap); cbn [fst]; repeat constructor. Qed.

  Lemma len_rev_append {A} (l : list A) : len (rev_append l []) = len l.
  Proof. rewrite rev_append_rev, app_nil_r, !len_eq, rev_length. reflexivity. Qed.

  (** the push loop of [Vec<T>]: every element takes at least one wire byte, which pays
      for the element's constant; every element decoded leaves a credit of [g] for the
      conversion of the whole vector *)
  Lemma crepeat_vec_conv g s0 f0 a1 (f : cparser val) e cap0 n :
    vbound g true r0 s0 f0 a1 f ->
    vbound g false (fun l => g * len l) 0 f0 (s0 + a1) (crepeat (push_cost e) f cap0 n).
  Proof.
    intros Hf bs. unfold crepeat. set (A := s0 + a1).
    pose (Inv := fun (i : N) (tr : trace) (st : N * N * list val * bytes) =>
                   let '(cap, cnt, acc, s') := st in
                   len acc = i /\ len s' + i <= len bs /\
                   cm tr + g * i + A * len s' <= g * el tr + A * len bs).
    pose (Q := fun tr : trace => cm tr <= g * el tr + f0 + A * len bs).
    pose proof (citerN_inv (cloop_step (push_cost e) f) Inv Q n 0 [] ((cap0, 0, [], bs) : N * N * list val * bytes)) as H.
    cbn [app] in H.
    assert (Hstep : forall i tr s, 0 <= i -> i < 0 + n -> Inv i tr s ->
              match snd (cloop_step (push_cost e) f s) with
              | Ok s' => Inv (i + 1) (tr ++ fst (cloop_step (push_cost e) f s)) s'
              | _ => Q (tr ++ fst (cloop_step (push_cost e) f s))
              end).
    { intros i tr [[[cap cnt] acc] s'] _ _ (Hacc & Hlen & Hmu).
      pose proof (Hf s') as Hfc.
      assert (Hs' : len s' <= len bs) by lia.
      assert (HAi : A * len s' <= A * len bs) by (apply N.mul_le_mono_l; exact Hs').
      destruct (f s') as [trf [[v s1]|k er|w]] eqn:Ef; cbn [fst snd] in Hfc.
      - rewrite (cloop_step_ok _ _ _ _ _ _ _ _ _ Ef). cbn [fst snd].
        destruct Hfc as [Hl1 Hm1]. cbn [bpos] in Hl1. unfold r0 in Hm1.
        pose proof (push_cost_alloc_only e cap cnt) as Hpa.
        assert (Hs0 : s0 * (len s1 + 1) <= s0 * len s') by (apply N.mul_le_mono_l; exact Hl1).
        unfold Inv. repeat split.
        + rewrite len_cons. lia.
        + lia.
        + rewrite cm_app, el_app, cm_elem_cons, el_elem_cons, cm_app, el_app.
          rewrite (alloc_only_cm _ Hpa), (alloc_only_el _ Hpa). unfold A in *. lia.
      - rewrite (cloop_step_err _ _ _ _ _ _ _ _ _ Ef). cbn [fst snd]. unfold Q.
        rewrite cm_app, el_app, cm_elem_cons, el_elem_cons.
        assert (a1 * len s' <= A * len s') by (apply N.mul_le_mono_r; unfold A; lia). lia.
      - rewrite (cloop_step_panic _ _ _ _ _ _ _ _ Ef). cbn [fst snd]. unfold Q.
        rewrite cm_app, el_app, cm_elem_cons, el_elem_cons.
        assert (a1 * len s' <= A * len s') by (apply N.mul_le_mono_r; unfold A; lia). lia. }
    specialize (H Hstep).
    assert (H0 : Inv 0 [] ((cap0, 0, [], bs) : N * N * list val * bytes)).
    { unfold Inv. rewrite cm_nil, el_nil, len_nil. repeat split; lia. }
    specialize (H H0). clear Hstep H0.
    destruct (citerN n (cloop_step (push_cost e) f) _) as [tr [[[[cap cnt] acc] s']|k er|w]]; cbn [fst snd] in H.
    - rewrite (mbind_ok _ _ (cap, cnt, acc, s')) by reflexivity. cbn [mret fst snd]. rewrite app_nil_r.
      destruct H as (Hacc & Hlen & Hmu). rewrite len_rev_append, Hacc. cbn [bpos]. split; lia.
    - rewrite (mbind_err _ _ k er) by reflexivity. cbn [fst snd]. exact H.
    - rewrite (mbind_panic _ _ w) by reflexivity. cbn [fst snd]. exact H.
  Qed.

  (** the loop of a fixed array [T; n]: elements may be wire-empty, nothing converts the array *)
  Lemma crepeat_array_conv g pos s0 f0 a1 (f : cparser val) cap0 n :
    vbound g pos r0 s0 f0 a1 f -> 0 < n ->
    vbound g pos r0 (n * s0) ((n - 1) * s0 + f0) a1 (crepeat no_push f cap0 n).
  Proof.
    intros Hf Hn bs. unfold crepeat.
    pose (Inv := fun (i : N) (tr : trace) (st : N * N * list val * bytes) =>
                   let '(cap, cnt, acc, s') := st in
                   len s' + bpos pos * i <= len bs /\
                   cm tr + a1 * len s' <= g * el tr + i * s0 + a1 * len bs).
    pose (Q := fun tr : trace => cm tr <= g * el tr + ((n - 1) * s0 + f0) + a1 * len bs).
    pose proof (citerN_inv (cloop_step no_push f) Inv Q n 0 [] ((cap0, 0, [], bs) : N * N * list val * bytes)) as H.
    cbn [app] in H.
    assert (Hstep : forall i tr s, 0 <= i -> i < 0 + n -> Inv i tr s ->
              match snd (cloop_step no_push f s) with
              | Ok s' => Inv (i + 1) (tr ++ fst (cloop_step no_push f s)) s'
              | _ => Q (tr ++ fst (cloop_step no_push f s))
              end).
    { intros i tr [[[cap cnt] acc] s'] _ Hin (Hlen & Hmu).
      pose proof (Hf s') as Hfc.
      assert (Hs' : len s' <= len bs) by lia.
      assert (Hin' : i * s0 <= (n - 1) * s0) by (apply N.mul_le_mono_r; lia).
      assert (Ha1 : a1 * len s' <= a1 * len bs) by (apply N.mul_le_mono_l; exact Hs').
      destruct (f s') as [trf [[v s1]|k er|w]] eqn:Ef; cbn [fst snd] in Hfc.
      - rewrite (cloop_step_ok _ _ _ _ _ _ _ _ _ Ef). cbn [fst snd no_push]. rewrite app_nil_r.
        destruct Hfc as [Hl1 Hm1]. unfold r0 in Hm1. unfold Inv. split.
        + destruct pos; cbn [bpos] in *; lia.
        + rewrite cm_app, el_app, cm_elem_cons, el_elem_cons. lia.
      - rewrite (cloop_step_err _ _ _ _ _ _ _ _ _ Ef). cbn [fst snd]. unfold Q.
        rewrite cm_app, el_app, cm_elem_cons, el_elem_cons. lia.
      - rewrite (cloop_step_panic _ _ _ _ _ _ _ _ Ef). cbn [fst snd]. unfold Q.
        rewrite cm_app, el_app, cm_elem_cons, el_elem_cons. lia. }
    specialize (H Hstep).
    assert (H0 : Inv 0 [] ((cap0, 0, [], bs) : N * N * list val * bytes)).
    { unfold Inv. rewrite cm_nil, el_nil. split; lia. }
    specialize (H H0). clear Hstep H0.
    destruct (citerN n (cloop_step no_push f) _) as [tr [[[[cap cnt] acc] s']|k er|w]]; cbn [fst snd] in H.
    - rewrite (mbind_ok _ _ (cap, cnt, acc, s')) by reflexivity. cbn [mret fst snd]. rewrite app_nil_r.
      destruct H as (Hlen & Hmu). unfold r0. split; [|lia].
      destruct pos; cbn [bpos] in *; lia.
    - rewrite (mbind_err _ _ k er) by reflexivity. cbn [fst snd]. exact H.
    - rewrite (mbind_panic _ _ w) by reflexivity. cbn [fst snd]. exact H.
  Qed.

  (** * The byte loop: requests only; its bytes pay for a later conversion *)
  Lemma cbulk_alloc_only n s : alloc_only (fst (cbulk n s)).
  Proof.
    unfold cbulk. rewrite (mbind_ok _ _ tt) by reflexivity. cbn [emit fst snd].
    change (EAlloc true (N.min n CHUNK) :: fst (cloop_fuel (n + rd_budget slice_reader s + 1) (cbulk_step n) (N.min n CHUNK, 0, [], s)))
      with ([EAlloc true (N.min n CHUNK)] ++ fst (cloop_fuel (n + rd_budget slice_reader s + 1) (cbulk_step n) (N.min n CHUNK, 0, [], s))).
    apply (cloop_fuel_inv (cbulk_step n) (fun tr _ => alloc_only tr) alloc_only).
    - intros tr [[[buf pos] acc] s'] Htr. unfold cbulk_step. cbn [fst snd].
      assert (Hc : alloc_only (tr ++ bulk_cost n (buf, pos, acc, s'))).
      { apply Forall_app. split; [exact Htr|]. unfold bulk_cost. destruct ((pos <? n) && (pos =? buf)); repeat constructor. }
      destruct (is_cont _); exact Hc.
    - intros tr _ Htr. exact Htr.
    - repeat constructor.
  Qed.

  Lemma cbulk_conv g d A n :
    0 < n -> d <= A -> vbound g true (fun b : bytes => d * len b) 0 0 A (cbulk n).
  Proof.
    intros Hn HdA bs. pose proof (cbulk_alloc_only n bs) as Ha.
    rewrite (alloc_only_cm _ Ha), (alloc_only_el _ Ha), cbulk_erase.
    destruct (bulk_slice_cases n bs Hn) as [(a & rest & E & L & ->)|[L ->]]; [|lia].
    subst bs. rewrite len_app. cbn [bpos]. split; [lia|].
    assert (d * len a <= A * len a) by (apply N.mul_le_mono_r; exact HdA). lia.
  Qed.

  Lemma len_of_bytes b : len (of_bytes b) = len b.
  Proof. unfold of_bytes. rewrite !len_eq, map_length. reflexivity. Qed.

  (** [with_capacity(cautious(len))] + push loop *)
  Lemma cpush_loop_conv g s0 f0 a1 e (f : cparser val) n :
    vbound g true r0 s0 f0 a1 f -> 0 < e ->
    vbound g false (fun l => g * len l) 0 f0 (s0 + a1) (cpush_loop e f n).
  Proof.
    intros Hf He0 bs. unfold cpush_loop.
    destruct (cautious_ok e n He0) as (c0 & Ec & _).
    rewrite Ec. rewrite (mbind_ok (mlift (Ok c0)) _ c0) by reflexivity. cbn [mlift fst snd app].
    rewrite (mbind_ok (emit _) _ tt) by reflexivity. cbn [emit fst snd].
    pose proof (crepeat_vec_conv g s0 f0 a1 f e c0 n Hf bs) as Hc.
    change (EAlloc true (c0 * e) :: fst (crepeat (push_cost e) f c0 n bs)) with ([EAlloc true (c0 * e)] ++ fst (crepeat (push_cost e) f c0 n bs)).
    rewrite cm_app, el_app.
    assert (Ha : alloc_only [EAlloc true (c0 * e)]) by repeat constructor.
    rewrite (alloc_only_cm _ Ha), (alloc_only_el _ Ha), !N.add_0_l. exact Hc.
  Qed.

  (** * [Vec<T>::deserialize_reader]: the decoded list keeps a credit of [d] per item *)
  Lemma cdec_vec_conv g d s0 f0 a1 A e u8 (f : cparser val) :
    (u8 = true -> d <= A) ->
    (u8 = false -> vbound g true r0 s0 f0 a1 f /\ 0 < e /\ d <= g /\ s0 + a1 <= A) ->
    vbound g true (fun l => d * len l) 0 (if u8 then 0 else f0) A (cdec_vec e u8 f).
  Proof.
    intros Hu1 Hu2. unfold cdec_vec.
    set (FF := if u8 then 0 else f0).
    eapply vbound_weaken;
      [| | | | | |apply (vbound_bind g true false (fun l : list val => d * len l) 0 0 0 FF A (fun s => mlift (read_u32 slice_reader s)))];
      try (intros; cbv beta; lia); auto.
    - eapply vbound_weaken; [| | | | | |apply (vbound_lift g true (read_u32 slice_reader))]; try (intros; cbv beta; lia); auto.
      intros bs n s1 H. apply read_u32_len in H. cbn [bpos]. lia.
    - intros n. destruct (N.eqb_spec n 0) as [->|Hn0].
      + intros bs. cbn [mret fst snd bpos]. change (cm []) with 0. change (el []) with 0. change (len (@nil val)) with 0. split; lia.
      + destruct u8.
        * apply vbound_map.
          eapply vbound_weaken; [| | | | | |apply (cbulk_conv g d A n ltac:(lia) (Hu1 eq_refl))]; try (intros; cbv beta; lia); auto.
          intros b. cbv beta. rewrite len_of_bytes. lia.
        * destruct (Hu2 eq_refl) as (Hf & He0 & Hdg & HA).
          eapply vbound_weaken; [| | | | | |apply (cpush_loop_conv g s0 f0 a1 e f n Hf He0)]; unfold FF; try (intros; cbv beta; lia); auto.
          intros l. cbv beta. apply N.mul_le_mono_r. exact Hdg.
  Qed.
End Conv.
