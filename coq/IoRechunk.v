(** C12 does not depend on how the serializer cuts its output into [write_all] calls.

    [Ser.ser t v] fixes ONE chunking of the byte stream (the one the Rust code uses today: a
    length prefix, then a payload, ...).  Every statement of C12 is proved here for an ARBITRARY
    list of chunks [cs] and an arbitrary final serializer verdict [e0], with [concat cs] in the
    place of [stream t v]: a serializer that merges two [write_all] calls into one, or splits
    one into several, delivers the same bytes, fails with the same errors after the same
    prefixes and fills the same buffers.  [to_writer] is the instance
    [cs := fst (ser t v)], [e0 := snd (ser t v)] ([to_writer_as_cs]). *)
From Coq Require Import List NArith PArith Bool Lia.
From Borsh Require Import Bytes BytesFacts Result Loop LoopFacts Ty Ser De Entry Io IoProofsBase IoProofsWrite.
Import ListNotations.
Local Open Scope N_scope.

Definition to_writer_cs {W : Type} (wa : bytes -> W -> result (W * werr))
           (cs : list bytes) (e0 : werr) (w : W) : result (W * werr) :=
  '(w', e) <- feed wa cs w ;;
  match e with
  | Some _ => Ok (w', e)
  | None => Ok (w', e0)
  end.

Lemma to_writer_as_cs {W : Type} (wa : bytes -> W -> result (W * werr)) t v w :
  to_writer wa t v w = to_writer_cs wa (fst (ser t v)) (snd (ser t v)) w.
Proof. reflexivity. Qed.

Section Spec.
  Context {W : Type}.
  Variable wsink : W -> bytes.
  Variable good : W -> Prop.
  Variable Ferr : W -> kind * msg -> Prop.
  Variable wa : bytes -> W -> result (W * werr).
  Hypothesis Hwa : wa_spec wsink good Ferr wa.

  Lemma to_writer_cs_spec cs e0 w : good w ->
    exists w' e p q, to_writer_cs wa cs e0 w = Ok (w', e) /\ concat cs = p ++ q /\ wsink w' = wsink w ++ p /\
      ((q = [] /\ good w' /\ e = e0) \/ (exists km, e = Some km /\ Ferr w' km /\ q <> [])).
  Proof.
    intros Hg. unfold to_writer_cs.
    destruct (feed_spec wsink good Ferr wa Hwa cs w Hg) as (w1 & e1 & p & q & E & Ec & Es & He).
    rewrite E. cbn [bind]. destruct e1 as [km|].
    - exists w1, (Some km), p, q. repeat split; auto. right. exists km. destruct He. auto.
    - destruct He as (-> & G1). exists w1, e0, p, []. repeat split; auto.
  Qed.
End Spec.

(** Every schedule: the sink receives a prefix of the stream, all of it when no writer error occurs. *)
Theorem cs_delivers shim cs e0 s0 sch :
  exists w' e p q, to_writer_cs (sw_write_all shim) cs e0 {| sink := s0; wsched := sch |} = Ok (w', e) /\
    concat cs = p ++ q /\ sink w' = s0 ++ p /\
    (q = [] -> e = e0) /\ (q <> [] -> exists km, e = Some km).
Proof.
  destruct (wsched_split sch) as (pre & tl & -> & B & Htl).
  destruct (to_writer_cs_spec sink (swgood tl s0 (wcap pre) (wcnt pre)) (swferr tl s0 (wcap pre) (wcnt pre))
              (sw_write_all shim) (sw_write_all_spec tl s0 _ _ Htl shim) cs e0 {| sink := s0; wsched := pre ++ tl |})
    as (w' & e & p & q & E & Est & Es & He).
  { now apply swgood_init. }
  exists w', e, p, q. cbn [sink] in Es. repeat split; auto.
  - intros ->. destruct He as [(_ & _ & Ee)|(km & _ & _ & Q)]; [assumption|contradiction].
  - intros Hq. destruct He as [(Q & _ & _)|(km & Ee & _ & _)]; [contradiction|eauto].
Qed.

Theorem cs_stop shim cs e0 s0 pre st post :
  wbenign pre -> wbenign_entry st = false ->
  exists w' e p q, to_writer_cs (sw_write_all shim) cs e0 {| sink := s0; wsched := pre ++ st :: post |} = Ok (w', e) /\
    concat cs = p ++ q /\ sink w' = s0 ++ p /\
    ((q = [] /\ e = e0 /\ len p <= wcap pre) \/
     (q <> [] /\ e = Some (stop_err st) /\ wsched w' = post /\ wcnt pre <= len p <= wcap pre)).
Proof.
  intros B Hk.
  destruct (to_writer_cs_spec sink (swgood (st :: post) s0 (wcap pre) (wcnt pre))
              (swferr (st :: post) s0 (wcap pre) (wcnt pre))
              (sw_write_all shim) (sw_write_all_spec (st :: post) s0 _ _ Hk shim) cs e0
              {| sink := s0; wsched := pre ++ st :: post |})
    as (w' & e & p & q & E & Est & Es & He).
  { now apply swgood_init. }
  exists w', e, p, q. cbn [sink] in Es. repeat split; auto.
  destruct He as [(Q & (pre' & _ & _ & Hc) & Ee)|(km & Ee & F & Q)].
  - left. repeat split; auto. specialize (Hc ltac:(discriminate)). rewrite Es, len_app in Hc. lia.
  - right. destruct F as (-> & Ew & H1 & H2). rewrite Es, len_app in H1, H2. repeat split; auto; lia.
Qed.

Theorem cs_failure shim cs e0 s0 pre fk fm post :
  wbenign pre -> fk <> Interrupted ->
  exists w' e p q, to_writer_cs (sw_write_all shim) cs e0 {| sink := s0; wsched := pre ++ WFail fk fm :: post |} = Ok (w', e) /\
    concat cs = p ++ q /\ sink w' = s0 ++ p /\
    ((q = [] /\ e = e0 /\ len p <= wcap pre) \/
     (q <> [] /\ e = Some (fk, fm) /\ wsched w' = post /\ wcnt pre <= len p <= wcap pre)).
Proof.
  intros B Hk. exact (cs_stop shim cs e0 s0 pre (WFail fk fm) post B (wfail_not_benign fk fm Hk)).
Qed.

Theorem cs_write_zero shim cs e0 s0 pre post :
  wbenign pre ->
  exists w' e p q, to_writer_cs (sw_write_all shim) cs e0 {| sink := s0; wsched := pre ++ Refuse :: post |} = Ok (w', e) /\
    concat cs = p ++ q /\ sink w' = s0 ++ p /\
    ((q = [] /\ e = e0 /\ len p <= wcap pre) \/
     (q <> [] /\ e = Some (WriteZero, MWriteWhole) /\ wsched w' = post /\ wcnt pre <= len p <= wcap pre)).
Proof. intros B. exact (cs_stop shim cs e0 s0 pre Refuse post B eq_refl). Qed.

Theorem cs_failure_at shim cs e0 s0 j fk fm post :
  fk <> Interrupted -> N.of_nat j < len (concat cs) ->
  exists w', to_writer_cs (sw_write_all shim) cs e0
               {| sink := s0; wsched := repeat (WAccept 1) j ++ WFail fk fm :: post |} = Ok (w', Some (fk, fm)) /\
             sink w' = s0 ++ firstn j (concat cs) /\ wsched w' = post.
Proof.
  intros Hk Hj.
  destruct (cs_failure shim cs e0 s0 (repeat (WAccept 1) j) fk fm post (wbenign_units j) Hk)
    as (w' & e & p & q & E & Est & Es & [(Q & _ & Lp)|(Q & Ee & Ew & L1 & L2)]).
  - subst q. rewrite app_nil_r in Est. rewrite Est, wcap_units in *. lia.
  - rewrite wcap_units in L2. rewrite wcnt_units in L1. subst e. exists w'. repeat split; auto.
    rewrite Es. f_equal. rewrite Est.
    assert (j = length p) by (rewrite len_eq in *; lia). subst j. now rewrite prefix_firstn.
Qed.

Theorem cs_fixed_buffer shim cs e0 s0 cap :
  to_writer_cs (fw_write_all shim) cs e0 {| fsink := s0; room := cap |} =
  if len (concat cs) <=? cap
  then Ok ({| fsink := s0 ++ concat cs; room := cap - len (concat cs) |}, e0)
  else Ok ({| fsink := s0 ++ firstn (N.to_nat cap) (concat cs); room := 0 |}, Some (WriteZero, MWriteWhole)).
Proof.
  destruct (to_writer_cs_spec fsink (fgood (len s0 + cap)) (fferr (len s0 + cap))
              (fw_write_all shim) (fw_write_all_spec _ shim) cs e0 {| fsink := s0; room := cap |})
    as (w' & e & p & q & E & Est & Es & He).
  { unfold fgood. cbn. reflexivity. }
  rewrite E. cbn [fsink] in Es. destruct w' as [sk rm]. cbn [fsink room] in *. subst sk.
  destruct He as [(Q & G & Ee)|(km & Ee & (Ekm & Rm & G) & Q)]; unfold fgood in G; cbn [fsink room] in G;
    rewrite len_app in G.
  - subst q. rewrite app_nil_r in Est. rewrite Est.
    destruct (N.leb_spec (len p) cap); [|lia]. do 2 f_equal; [|assumption]. f_equal. lia.
  - subst. rewrite Est, len_app.
    assert (0 < len q) by (destruct q; [contradiction|apply len_pos_cons]).
    cbn [room] in Rm. subst rm.
    destruct (N.leb_spec (len p + len q) cap); [lia|].
    rewrite firstn_len_app by lia. reflexivity.
Qed.

Theorem cs_vec_writer shim cs e0 s0 :
  to_writer_cs (vw_write_all shim) cs e0 s0 = Ok (s0 ++ concat cs, e0).
Proof.
  destruct (to_writer_cs_spec _ _ _ _ (vw_write_all_spec shim) cs e0 s0 I)
    as (w' & e & p & q & E & Est & Es & [(Q & _ & Ee)|(km & _ & [] & _)]).
  subst. rewrite app_nil_r in Est. now rewrite E, Est.
Qed.

(** Two chunkings of the same stream are indistinguishable for the vector and for the fixed buffer
    (whole results equal), and for every scheduled writer they deliver prefixes of the same stream. *)
Corollary rechunk_vec shim cs cs' e0 s0 :
  concat cs = concat cs' ->
  to_writer_cs (vw_write_all shim) cs e0 s0 = to_writer_cs (vw_write_all shim) cs' e0 s0.
Proof. intros H. now rewrite !cs_vec_writer, H. Qed.

Corollary rechunk_fixed shim cs cs' e0 s0 cap :
  concat cs = concat cs' ->
  to_writer_cs (fw_write_all shim) cs e0 {| fsink := s0; room := cap |} =
  to_writer_cs (fw_write_all shim) cs' e0 {| fsink := s0; room := cap |}.
Proof. intros H. now rewrite !cs_fixed_buffer, H. Qed.

(** One byte accepted per call: the result does not depend on the chunking at all. *)
Corollary rechunk_failure_at shim cs cs' e0 s0 j fk fm post :
  concat cs = concat cs' -> fk <> Interrupted -> N.of_nat j < len (concat cs) ->
  exists w', to_writer_cs (sw_write_all shim) cs e0
               {| sink := s0; wsched := repeat (WAccept 1) j ++ WFail fk fm :: post |} = Ok (w', Some (fk, fm)) /\
             to_writer_cs (sw_write_all shim) cs' e0
               {| sink := s0; wsched := repeat (WAccept 1) j ++ WFail fk fm :: post |} = Ok (w', Some (fk, fm)).
Proof.
  intros H Hk Hj.
  destruct (cs_failure_at shim cs e0 s0 j fk fm post Hk Hj) as ([sk1 sc1] & E1 & S1 & P1).
  assert (Hj' : N.of_nat j < len (concat cs')) by now rewrite <- H.
  destruct (cs_failure_at shim cs' e0 s0 j fk fm post Hk Hj') as ([sk2 sc2] & E2 & S2 & P2).
  cbn [sink wsched] in *. exists {| sink := sk1; wsched := sc1 |}. split; [exact E1|].
  rewrite E2. subst. now rewrite H.
Qed.
