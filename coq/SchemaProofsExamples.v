(** Concrete containers used by the non-vacuity examples of Properties/C09.v, with the
    facts about them that need more than [vm_compute]. *)
From Coq Require Import String List NArith ZArith.
From Borsh Require Import Schema SchemaFns SchemaSpec SchemaProofsBase SchemaProofsC09.
Import ListNotations.
Local Open Scope N_scope.
Local Open Scope string_scope.

(** [[Option<u8>; 10]] together with a vector of it (the shape on which the code as found
    under-counted: it reported 2 for the array). *)
Definition ex_arr : container :=
  {| root := "S";
     defs := [("S", Struct (NamedFields [("a", "[Option<u8>; 10]"); ("v", "Vec<Option<u8>>")]));
              ("[Option<u8>; 10]", Sequence 0 10 10 "Option<u8>");
              ("Vec<Option<u8>>", Sequence 1 0 3 "Option<u8>");
              ("Option<u8>", Enum 1 [(0%Z, "None", "()"); (1%Z, "Some", "u8")]);
              ("()", Tuple []);
              ("u8", Primitive 1)] |}.

Lemma ex_arr_inhabited : forall d, Reach ex_arr (root ex_arr) d -> Inhabited ex_arr d.
Proof.
  intros d Hr.
  apply (reach_closed ex_arr ["S"; "[Option<u8>; 10]"; "Vec<Option<u8>>"; "Option<u8>"; "()"; "u8"]) in Hr;
    [|left; reflexivity | vm_compute; reflexivity].
  assert (Hu8 : sizes ex_arr "u8" 1) by (apply Sz_prim; reflexivity).
  assert (Hunit : sizes ex_arr "()" 0) by (apply (Sz_tuple ex_arr "()" [] []); [reflexivity | constructor]).
  assert (Hopt : sizes ex_arr "Option<u8>" (1 + 1)).
  { eapply (Sz_enum ex_arr "Option<u8>" 1 _ (1%Z, "Some", "u8")); [reflexivity | right; left; reflexivity | exact Hu8]. }
  assert (Harr : sizes ex_arr "[Option<u8>; 10]" (0 + sumN (repeat 2 10))).
  { eapply Sz_seq; [reflexivity | vm_compute; discriminate | vm_compute; discriminate|].
    apply Forall_forall. intros x Hx. apply repeat_spec in Hx. subst. exact Hopt. }
  assert (Hvec : sizes ex_arr "Vec<Option<u8>>" (1 + sumN [])).
  { eapply Sz_seq; [reflexivity | vm_compute; discriminate | vm_compute; discriminate | constructor]. }
  destruct Hr as [<-|[<-|[<-|[<-|[<-|[<-|[]]]]]]]; try (eexists; eassumption).
  eexists. eapply (Sz_struct ex_arr "S" _ [_; _]); [reflexivity|].
  constructor; [exact Harr|]. constructor; [exact Hvec | constructor].
Qed.

