(** Loops over binary counts with early exit.
    [iterN n f s]: apply [f] [n] times, stopping at the first non-[Ok].
    [loopP p f s]: run the step function [f] until it answers [inr a] (done),
    at most [p] times.  Both recurse on the binary representation so that a
    count of 2^32 costs nothing when the body fails early. *)
From Coq Require Import NArith PArith.
From Borsh Require Import Result.

Fixpoint iterP {S} (p : positive) (f : S -> result S) (s : S) : result S :=
  match p with
  | xH => f s
  | xO p' => s' <- iterP p' f s ;; iterP p' f s'
  | xI p' => s0 <- f s ;; s' <- iterP p' f s0 ;; iterP p' f s'
  end.

Definition iterN {S} (n : N) (f : S -> result S) (s : S) : result S :=
  match n with
  | N0 => Ok s
  | Npos p => iterP p f s
  end.

(** [f s] answers [inl s'] to continue and [inr a] to stop. *)
Fixpoint loopP {S A} (p : positive) (f : S -> result (S + A)) (s : S) : result (S + A) :=
  match p with
  | xH => f s
  | xO p' =>
      r <- loopP p' f s ;;
      match r with inl s' => loopP p' f s' | inr a => Ok (inr a) end
  | xI p' =>
      r0 <- f s ;;
      match r0 with
      | inr a => Ok (inr a)
      | inl s0 =>
          r <- loopP p' f s0 ;;
          match r with inl s' => loopP p' f s' | inr a => Ok (inr a) end
      end
  end.

(** Run to completion within [fuel] steps; exhausting the fuel is a model panic. *)
Definition loop_fuel {S A} (fuel : N) (f : S -> result (S + A)) (s : S) : result A :=
  r <- loopP (N.succ_pos fuel) f s ;;
  match r with inr a => Ok a | inl _ => Panic P_FUEL end.
