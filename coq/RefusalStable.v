(** Refusals that do not come from running out of input depend on a prefix only.

    [ParseFacts.dec_PS] says what an ACCEPTING run of the decoder looks like (a prefix is
    consumed, what follows is irrelevant, every proper prefix of that prefix is refused as
    "unexpected length").  This file is the counterpart for REFUSING runs: when [dec] refuses
    an input with any message other than "Unexpected length of input" - a bad tag, invalid
    UTF-8, a zero NonZero, keys out of order, a zero-sized element type - it has seen enough:
    the same input followed by ANY further bytes is refused with the same kind and message.
    (The only refusal that more bytes can turn into something else is the one that asks for
    more bytes.)  It is the reason the read-ahead stage of C11 may compare the bytes pulled
    from a reader on [bs] and on [bs ++ x]. *)
From Coq Require Import String.
From Coq Require Import List NArith Bool Lia.
From Borsh Require Import Bytes BytesFacts Result Loop LoopFacts Ty TyInd Ser De Entry CodecFacts ParseFacts Io IoProofsSched.
Import ListNotations.
Local Open Scope N_scope.

Definition ES {A} (p : parser A) : Prop :=
  forall bs k m x, p bs = Err k m -> m <> MUnexpectedLength -> p (bs ++ x) = Err k m.

Lemma ES_ext {A} (p q : parser A) : (forall bs, p bs = q bs) -> ES p -> ES q.
Proof. intros E H bs k m x. rewrite <- !E. apply H. Qed.

Lemma ES_ret {A} (a : A) : ES (fun bs => Ok (a, bs)).
Proof. intros bs k m x H. discriminate. Qed.

Lemma ES_fail {A} k0 m0 : ES (fun _ : bytes => @Err (A * bytes) k0 m0).
Proof. intros bs k m x H _. exact H. Qed.

(** a parser whose only refusal is the end of input *)
Lemma ES_eof_only {A} (p : parser A) :
  (forall bs k m, p bs = Err k m -> m = MUnexpectedLength) -> ES p.
Proof. intros H bs k m x E Hm. exfalso. apply Hm. eapply H; eauto. Qed.

Lemma ES_bind {A B} (V : A -> bytes -> Prop) (p : parser A) (q : A -> parser B) :
  PS V p -> ES p -> (forall a, ES (q a)) ->
  ES (fun bs => '(a, r) <- p bs ;; q a r).
Proof.
  intros Hps Hp Hq bs k m x E Hm. specialize (Hps bs).
  destruct (p bs) as [[a r]|k' m'|w] eqn:Ep; cbn [bind] in E.
  - destruct Hps as (pre & -> & _ & Hext & _). rewrite <- app_assoc, Hext. cbn [bind].
    eapply Hq; eauto.
  - inversion E; subst. rewrite (Hp bs _ _ x Ep Hm). reflexivity.
  - discriminate.
Qed.

Lemma ES_post {A B} (V : A -> bytes -> Prop) (p : parser A) (g : A -> result B) :
  PS V p -> ES p ->
  ES (fun bs => '(a, r) <- p bs ;; b <- g a ;; Ok (b, r)).
Proof.
  intros Hps Hp. apply (ES_bind V); auto.
  intros a bs k m x E _. destruct (g a) as [b|k' m'|w]; cbn [bind] in *; [discriminate|exact E|discriminate].
Qed.

(** * Primitive reads: their only refusal is the end of input *)
Lemma read_mapped_err bs n k m : read_mapped slice_reader n bs = Err k m -> m = MUnexpectedLength.
Proof.
  intros E. destruct (read_mapped_slice_cases bs n) as [(a & rest & _ & _ & E')|[_ E']]; rewrite E' in E.
  - discriminate.
  - now inversion E.
Qed.

Lemma ES_read n : ES (read_mapped slice_reader n).
Proof. apply ES_eof_only. intros bs k m. apply read_mapped_err. Qed.

Lemma ES_read_u8 : ES (read_u8 slice_reader).
Proof.
  apply ES_eof_only. intros bs k m E. unfold read_u8 in E.
  destruct (read_mapped slice_reader 1 bs) as [[b r]|k' m'|w] eqn:Er; cbn [bind] in E; try discriminate.
  inversion E; subst. eapply read_mapped_err; eauto.
Qed.

Lemma ES_read_u32 : ES (read_u32 slice_reader).
Proof.
  apply ES_eof_only. intros bs k m E. unfold read_u32 in E.
  destruct (read_mapped slice_reader 4 bs) as [[b r]|k' m'|w] eqn:Er; cbn [bind] in E; try discriminate.
  inversion E; subst. eapply read_mapped_err; eauto.
Qed.

Lemma ES_bulk n : 0 < n -> ES (bulk slice_reader n).
Proof.
  intros Hn. apply ES_eof_only. intros bs k m E.
  destruct (bulk_slice_cases n bs Hn) as [(a & rest & _ & _ & E')|[_ E']]; rewrite E' in E.
  - discriminate.
  - now inversion E.
Qed.

(** * The element loop *)
Lemma ES_iter {A} (f : parser A) (V : A -> bytes -> Prop) :
  PS V f -> ES f ->
  forall n acc, ES (fun s => iterN n (iter_step f) (acc, s)).
Proof.
  intros Hps Hf n. induction n as [|n IH] using N.peano_ind; intros acc.
  - cbn [iterN]. apply ES_ret.
  - eapply ES_ext with (p := fun bs => '(a, r) <- f bs ;; iterN n (iter_step f) (a :: acc, r)).
    { intros bs. rewrite iterN_succ. unfold iter_step at 2. destruct (f bs) as [[a r]|k m|w]; reflexivity. }
    apply (ES_bind V); auto.
Qed.

Lemma ES_repeat_dec (f : parser val) (V : val -> bytes -> Prop) n :
  PS V f -> ES f -> ES (repeat_dec f n).
Proof.
  intros Hps Hf. unfold repeat_dec.
  eapply ES_ext with (p := fun s => '(acc, s') <- iterN n (iter_step f) ([], s) ;; l <- Ok (rev acc) ;; Ok (l, s')).
  { intros bs. unfold iter_step. destruct (iterN n _ ([], bs)) as [[a r]|k m|w]; reflexivity. }
  eapply ES_post with (V := fun _ _ => True).
  - eapply PS_weaken; [|apply (PS_iter f V (fun _ _ => True) Hps (fun _ _ _ _ _ _ => I) n [] [] I)]. auto.
  - apply (ES_iter f V); auto.
Qed.

Lemma ES_dec_vec u8 (f : parser val) V : PS V f -> ES f -> ES (dec_vec slice_reader u8 f).
Proof.
  intros Hps Hf. unfold dec_vec.
  apply (ES_bind _ (read_u32 slice_reader) _ PS_read_u32 ES_read_u32).
  intros n. destruct (N.eqb_spec n 0) as [->|Hn0].
  - apply ES_ret.
  - destruct u8.
    + eapply ES_ext with (p := fun s => '(b, s2) <- bulk slice_reader n s ;; l <- Ok (of_bytes b) ;; Ok (l, s2)).
      { intros bs. destruct (bulk slice_reader n bs) as [[b r]|k m|w]; reflexivity. }
      eapply ES_post; [apply PS_bulk; lia|apply ES_bulk; lia].
    + apply (ES_repeat_dec f V n Hps Hf).
Qed.

Lemma ES_dec_fields c ts :
  Forall (fun t => ES (dec slice_reader c t)) ts ->
  forall sk, ES (dec_fields (fun t' s => dec slice_reader c t' s) ts sk).
Proof.
  induction 1 as [|t' tr Ht' Htr IH]; intros sk; cbn [dec_fields].
  - apply ES_ret.
  - set (sb := match sk with b :: _ => b | [] => false end).
    set (sr := match sk with _ :: r => r | [] => [] end).
    eapply (ES_bind (fun _ _ => True)).
    + destruct sb; [apply PS_ret; exact I|apply PS_any with (V := anyV); apply dec_PS].
    + destruct sb; [apply ES_ret|exact Ht'].
    + intros v.
      eapply ES_ext with (p := fun s => '(r, s2) <- dec_fields (fun t' s => dec slice_reader c t' s) tr sr s ;; l <- Ok (v :: r) ;; Ok (l, s2)).
      { intros bs. destruct (dec_fields _ tr sr bs) as [[r s2]|k m|w]; reflexivity. }
      eapply ES_post; [|apply IH].
      apply PS_dec_fields. rewrite Forall_forall. intros t _. apply dec_PS.
Qed.

(** * Every decoder of the family *)
Theorem dec_ES c t : ES (dec slice_reader c t).
Proof.
  induction t as [p|u|k|k|k t' IH|n t' IH|k ts IH|k vs IH|w t' IH] using ty_ind'.
  - (* prim *)
    cbn [dec].
    eapply ES_ext with (p := fun s => '(b, s') <- read_mapped slice_reader (N.of_nat (prim_width p)) s ;;
                                      v <- (match prim_de_check p (unle b) with Some m => Err InvalidData m | None => Ok (VN (unle b)) end) ;; Ok (v, s')).
    { intros bs. destruct (read_mapped slice_reader _ bs) as [[b r]|k m|w]; cbn [bind]; [|reflexivity|reflexivity].
      destruct (prim_de_check p (unle b)); reflexivity. }
    eapply ES_post; [apply PS_read|apply ES_read].
  - cbn [dec]. apply ES_ret.
  - cbn [dec].
    eapply ES_ext with (p := fun s => '(b, s') <- read_mapped slice_reader (raw_len k) s ;; v <- Ok (VL (of_bytes b)) ;; Ok (v, s')).
    { intros bs. destruct (read_mapped slice_reader _ bs) as [[b r]|? ?|?]; reflexivity. }
    eapply ES_post; [apply PS_read|apply ES_read].
  - (* text *)
    assert (Hvec : ES (fun s => '(l, s') <- dec_vec slice_reader true (fun _ => Panic P_ILLTYPED) s ;; v <- text_post k l ;; Ok (v, s'))).
    { eapply ES_post with (V := fun _ _ => True).
      - eapply PS_any. eapply PS_ext; [|apply (PS_dec_vec true (fun _ => Err InvalidData MSimple) (fun _ _ => True)); apply PS_fail].
        intros bs. unfold dec_vec. destruct (read_u32 slice_reader bs) as [[n s1]|? ?|?]; cbn [bind]; [|reflexivity|reflexivity].
        destruct (n =? 0); reflexivity.
      - eapply ES_ext; [|apply (ES_dec_vec true (fun _ => Err InvalidData MSimple) (fun _ _ => True)); [apply PS_fail|apply ES_fail]].
        intros bs. unfold dec_vec. destruct (read_u32 slice_reader bs) as [[n s1]|? ?|?]; cbn [bind]; [|reflexivity|reflexivity].
        destruct (n =? 0); reflexivity. }
    destruct k; cbn [dec]; try exact Hvec.
    (* BytesMut *)
    apply (ES_bind _ (read_u32 slice_reader) _ PS_read_u32 ES_read_u32).
    intros n.
    eapply ES_ext with (p := fun s => '(l, s2) <- repeat_dec (fun s => '(b, s') <- read_u8 slice_reader s ;; Ok (VN b, s')) n s ;; v <- Ok (VL l) ;; Ok (v, s2)).
    { intros bs. destruct (repeat_dec _ n bs) as [[l s2]|? ?|?]; reflexivity. }
    assert (Hps : PS (fun _ _ => True) (fun s => '(b, s') <- read_u8 slice_reader s ;; Ok (VN b, s'))).
    { eapply PS_ext with (p := fun s => '(b, s') <- read_u8 slice_reader s ;; v <- Ok (VN b) ;; Ok (v, s')).
      { intros bs. destruct (read_u8 slice_reader bs) as [[b r]|? ?|?]; reflexivity. }
      eapply PS_post; [apply PS_read_u8|intros; exact I]. }
    assert (Hes : ES (fun s => '(b, s') <- read_u8 slice_reader s ;; Ok (VN b, s'))).
    { eapply ES_ext with (p := fun s => '(b, s') <- read_u8 slice_reader s ;; v <- Ok (VN b) ;; Ok (v, s')).
      { intros bs. destruct (read_u8 slice_reader bs) as [[b r]|? ?|?]; reflexivity. }
      eapply ES_post; [apply PS_read_u8|apply ES_read_u8]. }
    eapply ES_post with (V := fun _ _ => True).
    + eapply PS_any. apply (PS_repeat_dec _ (fun _ _ => True) n Hps).
    + apply (ES_repeat_dec _ (fun _ _ => True) n Hps Hes).
  - (* seq *)
    cbn [dec]. destruct (mem_zst (key_ty k t')); [apply ES_fail|].
    eapply ES_post with (V := fun _ _ => True).
    + eapply PS_any. apply (PS_dec_vec (is_u8 t') _ anyV (dec_PS c t')).
    + apply (ES_dec_vec (is_u8 t') _ anyV (dec_PS c t') IH).
  - (* array *)
    cbn [dec]. destruct (is_u8 t').
    + eapply ES_ext with (p := fun s => '(b, s') <- read_mapped slice_reader n s ;; v <- Ok (VL (of_bytes b)) ;; Ok (v, s')).
      { intros bs. destruct (read_mapped slice_reader _ bs) as [[b r]|? ?|?]; reflexivity. }
      eapply ES_post; [apply PS_read|apply ES_read].
    + eapply ES_ext with (p := fun s => '(l, s') <- repeat_dec (dec slice_reader c t') n s ;; v <- Ok (VL l) ;; Ok (v, s')).
      { intros bs. destruct (repeat_dec _ n bs) as [[l r]|? ?|?]; reflexivity. }
      eapply ES_post with (V := fun _ _ => True).
      * eapply PS_any. apply (PS_repeat_dec _ anyV n (dec_PS c t')).
      * apply (ES_repeat_dec _ anyV n (dec_PS c t') IH).
  - (* prod *)
    cbn [dec].
    eapply ES_ext with (p := fun s => '(l, s') <- dec_fields (fun t' s => dec slice_reader c t' s) ts (prod_skips k (length ts)) s ;; v <- Ok (VL l) ;; Ok (v, s')).
    { intros bs. destruct (dec_fields _ ts _ bs) as [[l r]|? ?|?]; reflexivity. }
    eapply ES_post with (V := fun _ _ => True).
    + apply PS_dec_fields. rewrite Forall_forall. intros t _. apply dec_PS.
    + apply ES_dec_fields. exact IH.
  - (* sum *)
    cbn [dec].
    apply (ES_bind _ (read_u8 slice_reader) _ PS_read_u8 ES_read_u8).
    intros b. destruct (find_tag (sum_tags k) b 0) as [i|]; [|apply ES_fail].
    eapply ES_ext with (p := fun s => '(v, s2) <- nth_or (fun t' => dec slice_reader c t') (fun _ => Err InvalidData (bad_tag k b)) vs (N.to_nat i) s ;; v' <- Ok (VV i v) ;; Ok (v', s2)).
    { intros bs.
      assert (E : nth_or (fun t' => dec slice_reader c t' bs) (Err InvalidData (bad_tag k b)) vs (N.to_nat i) =
                  nth_or (fun t' => dec slice_reader c t') (fun _ => Err InvalidData (bad_tag k b)) vs (N.to_nat i) bs).
      { generalize (N.to_nat i). clear. induction vs as [|x r IHv]; intros [|m]; cbn; auto. }
      rewrite E. destruct (nth_or _ _ vs (N.to_nat i) bs) as [[v r]|? ?|?]; reflexivity. }
    eapply ES_post with (V := anyV).
    + generalize (N.to_nat i). clear IH. induction vs as [|x r IHr]; intros [|m]; cbn [nth_or]; try apply PS_fail.
      * apply dec_PS.
      * apply IHr.
    + generalize (N.to_nat i). induction IH as [|x r Hx Hr IHr]; intros [|m]; cbn [nth_or]; try apply ES_fail.
      * exact Hx.
      * apply IHr.
  - cbn [dec]. exact IH.
Qed.

(** * The entry points *)
Theorem dec_refusal_stable c t bs k m x :
  dec_slice c t bs = Err k m -> m <> MUnexpectedLength -> dec_slice c t (bs ++ x) = Err k m.
Proof. apply dec_ES. Qed.

(** The whole-input entry points have one more refusal, "Not all bytes read", which by its
    nature is not stable in the other direction; a refusal of the decoder itself is. *)
Theorem try_from_slice_refusal_stable c t bs k m x :
  dec_slice c t bs = Err k m -> m <> MUnexpectedLength ->
  try_from_slice c t (bs ++ x) = Err k m /\ from_slice c t (bs ++ x) = Err k m /\
  deserialize c t (bs ++ x) = Err k m /\
  deserialize_reader slice_reader c t (bs ++ x) = Err k m /\
  try_from_reader slice_reader c t (bs ++ x) = Err k m /\ from_reader slice_reader c t (bs ++ x) = Err k m.
Proof.
  intros E Hm. pose proof (dec_refusal_stable c t bs k m x E Hm) as H.
  unfold from_slice, try_from_slice, deserialize, deserialize_reader, from_reader, try_from_reader.
  unfold dec_slice in H. unfold dec_slice. rewrite H. cbn [bind]. repeat split; reflexivity.
Qed.

Lemma msg_eq_dec (a b : msg) : {a = b} + {a <> b}.
Proof. decide equality; apply N.eq_dec. Qed.

(** Conversely the end-of-input refusal is the ONLY one more bytes can change: if [bs] is refused
    and [bs ++ x] is not refused in the same way, then [bs] was refused for being too short. *)
Corollary refusal_changes_only_at_eof c t bs k m x :
  dec_slice c t bs = Err k m -> dec_slice c t (bs ++ x) <> Err k m ->
  k = InvalidData /\ m = MUnexpectedLength.
Proof.
  intros E Hne. split.
  - pose proof (dec_PS c t bs) as P. unfold dec_slice in E. rewrite E in P. exact P.
  - destruct (msg_eq_dec m MUnexpectedLength) as [->|Hm]; [reflexivity|].
    exfalso. apply Hne. now apply dec_refusal_stable.
Qed.

(** * Through any reader schedule
    With [IoProofsSched.fragment_iff]: however the two runs are fragmented and interrupted, a refusal
    that does not ask for more bytes is the same refusal when more bytes follow in the stream. *)
Theorem sched_refusal_stable shim c t d x sch sch' k m :
  benign sch -> benign sch' ->
  dec (sched_reader shim) c t {| data := d; sched := sch |} = Err k m -> m <> MUnexpectedLength ->
  dec (sched_reader shim) c t {| data := d ++ x; sched := sch' |} = Err k m.
Proof.
  intros B B' E Hm.
  destruct (fragment_iff shim c t d sch B) as (_ & He & _).
  apply He in E.
  destruct (fragment_iff shim c t (d ++ x) sch' B') as (_ & He' & _).
  apply He'. exact (dec_refusal_stable c t d k m x E Hm).
Qed.
