(** The collection algorithms of Ty.v ([sort_by], [collect_sorted],
    [collect_index]) over an abstract strict total order on keys. *)
From Coq Require Import String.
From Coq Require Import List NArith Bool Lia Permutation.
From Borsh Require Import Bytes Result Ty.
Import ListNotations.

(** * Unfolding equations (no hypothesis on the order) *)
Section Unfold.
  Variable cmp : val -> val -> comparison.
  Variable key : val -> val.

  Lemma sort_by_cons x r : sort_by cmp key (x :: r) = insert_sorted cmp key x (sort_by cmp key r).
  Proof. reflexivity. Qed.

  Lemma sa_cons2 x y r :
    strictly_ascending cmp key (x :: y :: r) =
    match cmp (key x) (key y) with Lt => strictly_ascending cmp key (y :: r) | _ => false end.
  Proof. reflexivity. Qed.

  Lemma ndk_cons_eq x r :
    no_dup_keys cmp key (x :: r) =
    forallb (fun y => match cmp (key x) (key y) with Eq => false | _ => true end) r
    && no_dup_keys cmp key r.
  Proof. reflexivity. Qed.

  Lemma sa_tail x r : strictly_ascending cmp key (x :: r) = true -> strictly_ascending cmp key r = true.
  Proof.
    destruct r as [|y r']; [reflexivity|]. rewrite sa_cons2.
    destruct (cmp (key x) (key y)); try discriminate. auto.
  Qed.

  Lemma sa_app_l a : forall b, strictly_ascending cmp key (a ++ b) = true -> strictly_ascending cmp key a = true.
  Proof.
    induction a as [|x a' IH]; intros b H; [reflexivity|].
    destruct a' as [|y a'']; [reflexivity|].
    cbn [app] in H. rewrite sa_cons2 in *.
    destruct (cmp (key x) (key y)); try discriminate.
    apply (IH b). exact H.
  Qed.

  Lemma sa_cons_intro x r :
    Forall (fun y => cmp (key x) (key y) = Lt) r -> strictly_ascending cmp key r = true ->
    strictly_ascending cmp key (x :: r) = true.
  Proof.
    intros HF Hr. destruct r as [|y r']; [reflexivity|].
    rewrite sa_cons2, (Forall_inv HF). exact Hr.
  Qed.

  Lemma neq_Eq_iff (c : comparison) : match c with Eq => false | _ => true end = true <-> c <> Eq.
  Proof. destruct c; split; intros H; try reflexivity; try discriminate; congruence. Qed.

  Lemma ndk_cons x r :
    no_dup_keys cmp key (x :: r) = true <->
    Forall (fun y => cmp (key x) (key y) <> Eq) r /\ no_dup_keys cmp key r = true.
  Proof.
    rewrite ndk_cons_eq, andb_true_iff, forallb_forall, Forall_forall.
    split; intros [H1 H2]; (split; [|exact H2]); intros y Hy; apply neq_Eq_iff; now apply H1.
  Qed.

  Lemma insert_sorted_perm x l : Permutation (insert_sorted cmp key x l) (x :: l).
  Proof.
    induction l as [|y r IH]; cbn [insert_sorted]; [reflexivity|].
    destruct (cmp (key x) (key y)); try reflexivity.
    - eapply perm_trans; [apply perm_skip; exact IH|apply perm_swap].
    - eapply perm_trans; [apply perm_skip; exact IH|apply perm_swap].
  Qed.

  Lemma sort_by_perm' l : Permutation (sort_by cmp key l) l.
  Proof.
    induction l as [|x r IH]; [reflexivity|]. rewrite sort_by_cons.
    eapply perm_trans; [apply insert_sorted_perm|]. apply perm_skip. exact IH.
  Qed.

  Lemma insert_replace_incl x l z : In z (insert_replace cmp key x l) -> z = x \/ In z l.
  Proof.
    induction l as [|y r IH]; cbn [insert_replace].
    - intros [<-|[]]. now left.
    - destruct (cmp (key x) (key y)).
      + intros [<-|Hz]; [now left|right; now right].
      + intros [<-|Hz]; [now left|right; exact Hz].
      + intros [<-|Hz]; [right; now left|]. destruct (IH Hz) as [->|Hr]; [now left|right; now right].
  Qed.

  Lemma index_insert_incl x l z : In z (index_insert cmp key x l) -> z = x \/ In z l.
  Proof.
    induction l as [|y r IH]; cbn [index_insert].
    - intros [<-|[]]. now left.
    - destruct (cmp (key x) (key y)).
      + intros [<-|Hz]; [now left|right; now right].
      + intros [<-|Hz]; [right; now left|]. destruct (IH Hz) as [->|Hr]; [now left|right; now right].
      + intros [<-|Hz]; [right; now left|]. destruct (IH Hz) as [->|Hr]; [now left|right; now right].
  Qed.

  Lemma fold_left_incl (ins : val -> list val -> list val) :
    (forall x l z, In z (ins x l) -> z = x \/ In z l) ->
    forall l acc z, In z (fold_left (fun a x => ins x a) l acc) -> In z acc \/ In z l.
  Proof.
    intros Hins. induction l as [|x r IH]; intros acc z Hz; cbn [fold_left] in Hz.
    - now left.
    - destruct (IH _ _ Hz) as [Ha|Hr].
      + destruct (Hins _ _ _ Ha) as [->|Ha']; [right; now left|now left].
      + right; now right.
  Qed.
End Unfold.

(** * Mapping a key-preserving function over the elements *)
Lemma insert_sorted_map cmp key (g : val -> val) x l : (forall y, key (g y) = key y) ->
  insert_sorted cmp key (g x) (map g l) = map g (insert_sorted cmp key x l).
Proof.
  intros Hg. induction l as [|y r IH]; [reflexivity|].
  cbn [map insert_sorted]. rewrite !Hg. destruct (cmp (key x) (key y)); cbn [map]; try reflexivity.
  - now rewrite IH.
  - now rewrite IH.
Qed.

Lemma sort_by_map : forall cmp key (g : val -> val) l, (forall x, key (g x) = key x) ->
  sort_by cmp key (map g l) = map g (sort_by cmp key l).
Proof.
  intros cmp key g l Hg. induction l as [|x r IH]; [reflexivity|].
  cbn [map]. rewrite !sort_by_cons, IH. now apply insert_sorted_map.
Qed.

Lemma strictly_ascending_map : forall cmp key (g : val -> val) l, (forall x, key (g x) = key x) ->
  strictly_ascending cmp key (map g l) = strictly_ascending cmp key l.
Proof.
  intros cmp key g l Hg. induction l as [|x r IH]; [reflexivity|].
  destruct r as [|y r']; [reflexivity|].
  cbn [map] in *. rewrite !sa_cons2, !Hg, IH. reflexivity.
Qed.

Lemma no_dup_keys_map : forall cmp key (g : val -> val) l, (forall x, key (g x) = key x) ->
  no_dup_keys cmp key (map g l) = no_dup_keys cmp key l.
Proof.
  intros cmp key g l Hg. induction l as [|x r IH]; [reflexivity|].
  cbn [map]. rewrite !ndk_cons_eq, IH. f_equal.
  rewrite Hg. clear IH. induction r as [|y r' IHr]; [reflexivity|].
  cbn [map forallb]. now rewrite Hg, IHr.
Qed.

(** * The algorithms over a strict total order on the keys of [P]-elements *)
Section SortFacts.
  Variable cmp : val -> val -> comparison.
  Variable key : val -> val.
  Variable P : val -> Prop.
  Hypothesis cmp_anti : forall a b, cmp a b = CompOpp (cmp b a).
  Hypothesis cmp_eq : forall a b c, P a -> P b -> P c ->
    cmp (key a) (key b) = Eq -> cmp (key a) (key c) = cmp (key b) (key c).
  Hypothesis cmp_lt : forall a b c, P a -> P b -> P c ->
    cmp (key a) (key b) = Lt -> cmp (key b) (key c) = Lt -> cmp (key a) (key c) = Lt.

  Local Notation sa := (strictly_ascending cmp key).
  Local Notation ndk := (no_dup_keys cmp key).

  Lemma cmp_refl a : cmp a a = Eq.
  Proof. pose proof (cmp_anti a a) as H. destruct (cmp a a); cbn [CompOpp] in H; congruence. Qed.
  Lemma cmp_gt_lt a b : cmp a b = Gt -> cmp b a = Lt.
  Proof. intros H. rewrite (cmp_anti b a), H. reflexivity. Qed.
  Lemma cmp_lt_gt a b : cmp a b = Lt -> cmp b a = Gt.
  Proof. intros H. rewrite (cmp_anti b a), H. reflexivity. Qed.
  Lemma cmp_neq_sym a b : cmp a b <> Eq -> cmp b a <> Eq.
  Proof. intros H E. apply H. rewrite (cmp_anti a b), E. reflexivity. Qed.

  (** a strictly ascending list: the head is below everything else *)
  Lemma sa_cons_elim r : forall x, P x -> Forall P r -> sa (x :: r) = true ->
    Forall (fun y => cmp (key x) (key y) = Lt) r /\ sa r = true.
  Proof.
    induction r as [|y r' IH]; intros x Px Pr H.
    - split; [constructor|reflexivity].
    - rewrite sa_cons2 in H. destruct (cmp (key x) (key y)) eqn:E; try discriminate.
      split; [|exact H].
      pose proof (Forall_inv Pr) as Py. pose proof (Forall_inv_tail Pr) as Pr'.
      destruct (IH y Py Pr' H) as [Hy _].
      constructor; [exact E|].
      rewrite Forall_forall in *. intros z Hz.
      apply (cmp_lt x y z); auto.
  Qed.

  (** ** [sort_by] *)
  Lemma sort_by_perm : forall l, Permutation (sort_by cmp key l) l.
  Proof. apply sort_by_perm'. Qed.

  Lemma insert_sorted_sorted x l : P x -> Forall P l -> sa l = true ->
    Forall (fun y => cmp (key x) (key y) <> Eq) l -> sa (insert_sorted cmp key x l) = true.
  Proof.
    intros Px. induction l as [|y r IH]; intros Pl Hs Hne; [reflexivity|].
    cbn [insert_sorted].
    pose proof (Forall_inv Pl) as Py. pose proof (Forall_inv_tail Pl) as Pr.
    destruct (cmp (key x) (key y)) eqn:E.
    - exfalso. exact (Forall_inv Hne E).
    - rewrite sa_cons2, E. exact Hs.
    - destruct (sa_cons_elim r y Py Pr Hs) as [Hy Hr].
      apply sa_cons_intro.
      + apply (Permutation_Forall (Permutation_sym (insert_sorted_perm cmp key x r))).
        constructor; [now apply cmp_gt_lt|exact Hy].
      + apply IH; [exact Pr|exact Hr|exact (Forall_inv_tail Hne)].
  Qed.

  Lemma sort_by_sorted : forall l, Forall P l -> ndk l = true -> sa (sort_by cmp key l) = true.
  Proof.
    induction l as [|x r IH]; intros Pl Hnd; [reflexivity|].
    pose proof (Forall_inv Pl) as Px. pose proof (Forall_inv_tail Pl) as Pr.
    apply ndk_cons in Hnd. destruct Hnd as [Hx Hr].
    rewrite sort_by_cons. apply insert_sorted_sorted.
    - exact Px.
    - exact (Permutation_Forall (Permutation_sym (sort_by_perm r)) Pr).
    - now apply IH.
    - exact (Permutation_Forall (Permutation_sym (sort_by_perm r)) Hx).
  Qed.

  Lemma sort_by_sorted_id : forall l, Forall P l -> sa l = true -> sort_by cmp key l = l.
  Proof.
    induction l as [|x r IH]; intros Pl Hs; [reflexivity|].
    rewrite sort_by_cons, (IH (Forall_inv_tail Pl) (sa_tail cmp key x r Hs)).
    destruct r as [|y r']; [reflexivity|].
    rewrite sa_cons2 in Hs. cbn [insert_sorted].
    destruct (cmp (key x) (key y)); try discriminate. reflexivity.
  Qed.

  Lemma strictly_ascending_no_dup : forall l, Forall P l -> sa l = true -> ndk l = true.
  Proof.
    induction l as [|x r IH]; intros Pl Hs; [reflexivity|].
    pose proof (Forall_inv Pl) as Px. pose proof (Forall_inv_tail Pl) as Pr.
    destruct (sa_cons_elim r x Px Pr Hs) as [Hx Hr].
    apply ndk_cons. split; [|now apply IH].
    eapply Forall_impl; [|exact Hx]. intros y Hy. cbv beta in Hy. rewrite Hy. discriminate.
  Qed.

  (** ** [collect_sorted] *)
  Lemma insert_replace_snoc acc : forall x r, Forall P (acc ++ x :: r) -> sa (acc ++ x :: r) = true ->
    insert_replace cmp key x acc = acc ++ [x].
  Proof.
    induction acc as [|y acc' IH]; intros x r Pl Hs; [reflexivity|].
    cbn [app] in *.
    pose proof (Forall_inv Pl) as Py. pose proof (Forall_inv_tail Pl) as Pr.
    destruct (sa_cons_elim _ y Py Pr Hs) as [Hy Hr].
    assert (Hyx : cmp (key y) (key x) = Lt).
    { rewrite Forall_forall in Hy. apply Hy. apply in_elt. }
    cbn [insert_replace]. rewrite (cmp_lt_gt _ _ Hyx). f_equal. now apply (IH x r).
  Qed.

  Lemma collect_sorted_acc l : forall acc, Forall P (acc ++ l) -> sa (acc ++ l) = true ->
    fold_left (fun a x => insert_replace cmp key x a) l acc = acc ++ l.
  Proof.
    induction l as [|x r IH]; intros acc Pl Hs; cbn [fold_left].
    - now rewrite app_nil_r.
    - rewrite (insert_replace_snoc acc x r Pl Hs).
      replace (acc ++ x :: r) with ((acc ++ [x]) ++ r) in * by (rewrite <- app_assoc; reflexivity).
      now apply IH.
  Qed.

  Lemma collect_sorted_id : forall l, Forall P l -> sa l = true -> collect_sorted cmp key l = l.
  Proof. intros l Pl Hs. unfold collect_sorted. now apply (collect_sorted_acc l []). Qed.

  Lemma insert_replace_sorted x l : P x -> Forall P l -> sa l = true ->
    sa (insert_replace cmp key x l) = true.
  Proof.
    intros Px. induction l as [|y r IH]; intros Pl Hs; [reflexivity|].
    cbn [insert_replace].
    pose proof (Forall_inv Pl) as Py. pose proof (Forall_inv_tail Pl) as Pr.
    destruct (sa_cons_elim r y Py Pr Hs) as [Hy Hr].
    destruct (cmp (key x) (key y)) eqn:E.
    - apply sa_cons_intro; [|exact Hr].
      rewrite Forall_forall in *. intros z Hz.
      rewrite (cmp_eq x y z Px Py (Pr z Hz) E). now apply Hy.
    - rewrite sa_cons2, E. exact Hs.
    - apply sa_cons_intro; [|now apply IH].
      rewrite Forall_forall in *. intros z Hz.
      destruct (insert_replace_incl cmp key x r z Hz) as [->|Hz']; [now apply cmp_gt_lt|now apply Hy].
  Qed.

  Lemma insert_replace_P x l : P x -> Forall P l -> Forall P (insert_replace cmp key x l).
  Proof.
    intros Px Pl. rewrite Forall_forall in *. intros z Hz.
    destruct (insert_replace_incl cmp key x l z Hz) as [->|Hz']; auto.
  Qed.

  Lemma collect_sorted_acc_sorted l : forall acc, Forall P l -> Forall P acc -> sa acc = true ->
    sa (fold_left (fun a x => insert_replace cmp key x a) l acc) = true.
  Proof.
    induction l as [|x r IH]; intros acc Pl Pa Hs; cbn [fold_left]; [exact Hs|].
    pose proof (Forall_inv Pl) as Px. pose proof (Forall_inv_tail Pl) as Pr.
    apply IH; [exact Pr|now apply insert_replace_P|now apply insert_replace_sorted].
  Qed.

  Lemma collect_sorted_sorted : forall l, Forall P l -> sa (collect_sorted cmp key l) = true.
  Proof.
    intros l Pl. unfold collect_sorted. apply collect_sorted_acc_sorted; [exact Pl|constructor|reflexivity].
  Qed.

  Lemma collect_sorted_incl : forall l x, In x (collect_sorted cmp key l) -> In x l.
  Proof.
    intros l x Hx. unfold collect_sorted in Hx.
    destruct (fold_left_incl (insert_replace cmp key) (insert_replace_incl cmp key) l [] x Hx) as [[]|H].
    exact H.
  Qed.

  (** ** [collect_index] *)
  Lemma index_insert_snoc acc : forall x r, ndk (acc ++ x :: r) = true ->
    index_insert cmp key x acc = acc ++ [x].
  Proof.
    induction acc as [|y acc' IH]; intros x r Hnd; [reflexivity|].
    cbn [app] in *. apply ndk_cons in Hnd. destruct Hnd as [Hy Hr].
    assert (Hyx : cmp (key y) (key x) <> Eq).
    { rewrite Forall_forall in Hy. apply Hy. apply in_elt. }
    apply cmp_neq_sym in Hyx.
    cbn [index_insert]. rewrite (IH x r Hr).
    destruct (cmp (key x) (key y)); [congruence|reflexivity|reflexivity].
  Qed.

  Lemma collect_index_acc l : forall acc, ndk (acc ++ l) = true ->
    fold_left (fun a x => index_insert cmp key x a) l acc = acc ++ l.
  Proof.
    induction l as [|x r IH]; intros acc Hnd; cbn [fold_left].
    - now rewrite app_nil_r.
    - rewrite (index_insert_snoc acc x r Hnd).
      replace (acc ++ x :: r) with ((acc ++ [x]) ++ r) in * by (rewrite <- app_assoc; reflexivity).
      now apply IH.
  Qed.

  Lemma collect_index_id : forall l, Forall P l -> ndk l = true -> collect_index cmp key l = l.
  Proof. intros l _ Hnd. unfold collect_index. now apply (collect_index_acc l []). Qed.

  Lemma index_insert_nodup x l : P x -> Forall P l -> ndk l = true ->
    ndk (index_insert cmp key x l) = true.
  Proof.
    intros Px. induction l as [|y r IH]; intros Pl Hnd; [reflexivity|].
    pose proof (Forall_inv Pl) as Py. pose proof (Forall_inv_tail Pl) as Pr.
    apply ndk_cons in Hnd. destruct Hnd as [Hy Hr].
    assert (Hstep : ndk (y :: index_insert cmp key x r) = true \/ cmp (key x) (key y) = Eq).
    { destruct (cmp (key x) (key y)) eqn:E; [now right|left|left].
      all: apply ndk_cons; split; [|now apply IH].
      all: rewrite Forall_forall in *; intros z Hz.
      all: destruct (index_insert_incl cmp key x r z Hz) as [->|Hz']; [|now apply Hy].
      all: apply cmp_neq_sym; rewrite E; discriminate. }
    cbn [index_insert].
    destruct (cmp (key x) (key y)) eqn:E.
    - apply ndk_cons. split; [|exact Hr].
      rewrite Forall_forall in *. intros z Hz.
      rewrite (cmp_eq x y z Px Py (Pr z Hz) E). now apply Hy.
    - destruct Hstep as [H|H]; [exact H|discriminate].
    - destruct Hstep as [H|H]; [exact H|discriminate].
  Qed.

  Lemma index_insert_P x l : P x -> Forall P l -> Forall P (index_insert cmp key x l).
  Proof.
    intros Px Pl. rewrite Forall_forall in *. intros z Hz.
    destruct (index_insert_incl cmp key x l z Hz) as [->|Hz']; auto.
  Qed.

  Lemma collect_index_acc_nodup l : forall acc, Forall P l -> Forall P acc -> ndk acc = true ->
    ndk (fold_left (fun a x => index_insert cmp key x a) l acc) = true.
  Proof.
    induction l as [|x r IH]; intros acc Pl Pa Hnd; cbn [fold_left]; [exact Hnd|].
    pose proof (Forall_inv Pl) as Px. pose proof (Forall_inv_tail Pl) as Pr.
    apply IH; [exact Pr|now apply index_insert_P|now apply index_insert_nodup].
  Qed.

  Lemma collect_index_nodup : forall l, Forall P l -> ndk (collect_index cmp key l) = true.
  Proof.
    intros l Pl. unfold collect_index. apply collect_index_acc_nodup; [exact Pl|constructor|reflexivity].
  Qed.

  Lemma collect_index_incl : forall l x, In x (collect_index cmp key l) -> In x l.
  Proof.
    intros l x Hx. unfold collect_index in Hx.
    destruct (fold_left_incl (index_insert cmp key) (index_insert_incl cmp key) l [] x Hx) as [[]|H].
    exact H.
  Qed.

  (** ** Uniqueness of the sorted arrangement *)
  Lemma sorted_perm_unique : forall l1 l2, Forall P l1 -> sa l1 = true -> sa l2 = true ->
    Permutation l1 l2 -> l1 = l2.
  Proof.
    induction l1 as [|x r1 IH]; intros l2 HP H1 H2 Hp.
    - apply Permutation_nil in Hp. now subst.
    - destruct l2 as [|y r2]; [apply Permutation_sym, Permutation_nil in Hp; discriminate|].
      assert (HP2 : Forall P (y :: r2)) by exact (Permutation_Forall Hp HP).
      pose proof (Forall_inv HP) as Px. pose proof (Forall_inv_tail HP) as Pr1.
      pose proof (Forall_inv HP2) as Py. pose proof (Forall_inv_tail HP2) as Pr2.
      destruct (sa_cons_elim r1 x Px Pr1 H1) as [Hx1 Hs1].
      destruct (sa_cons_elim r2 y Py Pr2 H2) as [Hy2 Hs2].
      assert (Exy : x = y).
      { assert (Hin : In x (y :: r2)) by (eapply Permutation_in; [exact Hp|now left]).
        assert (Hin' : In y (x :: r1)) by (eapply Permutation_in; [apply Permutation_sym; exact Hp|now left]).
        destruct Hin as [Hin|Hin]; [now symmetry|]. destruct Hin' as [Hin'|Hin']; [exact Hin'|].
        rewrite Forall_forall in Hx1, Hy2.
        pose proof (Hx1 y Hin') as Lxy. pose proof (Hy2 x Hin) as Lyx.
        pose proof (cmp_lt x y x Px Py Px Lxy Lyx) as Lxx. rewrite cmp_refl in Lxx. discriminate. }
      subst y. f_equal. apply IH; try assumption. exact (Permutation_cons_inv Hp).
  Qed.

  Lemma no_dup_keys_perm' l1 l2 : Permutation l1 l2 -> ndk l1 = true -> ndk l2 = true.
  Proof.
    induction 1 as [|x l l' Hp IH|x y l|l l' l'' Hp1 IH1 Hp2 IH2]; intros Hnd.
    - reflexivity.
    - apply ndk_cons in Hnd. destruct Hnd as [Hx Hr]. apply ndk_cons. split; [|now apply IH].
      exact (Permutation_Forall Hp Hx).
    - apply ndk_cons in Hnd. destruct Hnd as [Hy Hnd].
      apply ndk_cons in Hnd. destruct Hnd as [Hx Hr].
      pose proof (Forall_inv Hy) as Hyx. pose proof (Forall_inv_tail Hy) as Hyl.
      apply ndk_cons. split; [constructor; [now apply cmp_neq_sym|exact Hx]|].
      apply ndk_cons. split; [exact Hyl|exact Hr].
    - auto.
  Qed.

  Lemma no_dup_keys_perm : forall l1 l2, Forall P l1 -> Permutation l1 l2 -> ndk l1 = true -> ndk l2 = true.
  Proof. intros l1 l2 _. apply no_dup_keys_perm'. Qed.

  Lemma sort_by_perm_eq : forall l1 l2, Forall P l1 -> ndk l1 = true -> Permutation l1 l2 ->
    sort_by cmp key l1 = sort_by cmp key l2.
  Proof.
    intros l1 l2 P1 Hnd Hp.
    assert (P2 : Forall P l2) by exact (Permutation_Forall Hp P1).
    assert (Hnd2 : ndk l2 = true) by exact (no_dup_keys_perm' l1 l2 Hp Hnd).
    apply sorted_perm_unique.
    - exact (Permutation_Forall (Permutation_sym (sort_by_perm l1)) P1).
    - now apply sort_by_sorted.
    - now apply sort_by_sorted.
    - eapply perm_trans; [apply sort_by_perm|]. eapply perm_trans; [exact Hp|].
      apply Permutation_sym, sort_by_perm.
  Qed.
End SortFacts.

Print Assumptions sort_by_perm_eq.
Print Assumptions collect_sorted_sorted.
Print Assumptions collect_index_nodup.
