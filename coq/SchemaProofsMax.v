(** [max_size_impl] refines [max_unb]: under [ranges_fit ub c] (every sequence's
    largest length is a [usize]) the transcription returns the unbounded maximum
    when it is below [2^ub] and [Overflow] otherwise; when the unbounded traversal
    meets an error the transcription reports the same error or an earlier overflow. *)
From Coq Require Import String List NArith ZArith Bool Lia ZifyBool Arith.
From Borsh Require Import Schema SchemaFns SchemaSpec SchemaProofsBase SchemaProofsUnb.
Import ListNotations.
Local Open Scope N_scope.

Definition sim_rel (ub count : N) (st : list string) (u : sres mserr N) (r : sres mserr (N * list string)) : Prop :=
  match u with
  | SOk M => r = if count * M <? 2 ^ ub then SOk (count * M, st) else SErr Overflow
  | SErr e => r = SErr e \/ r = SErr Overflow
  | SFuel | SPanic => True
  end.

Lemma pow2_pos ub : 0 < 2 ^ ub.
Proof. apply N.neq_0_lt_0, N.pow_nonzero. discriminate. Qed.

Lemma le_mul_count count x : 1 <= count -> x <= count * x.
Proof. nia. Qed.

(** The member loops *)
Lemma tuple_loop_sim ub (f : string -> sres mserr N) rec st :
  (forall el, sim_rel ub 1 st (f el) (rec el st)) ->
  forall els sum, sum < 2 ^ ub ->
  match sum_with f els with
  | SOk T => tuple_loop ub rec els sum st = if sum + T <? 2 ^ ub then SOk (sum + T, st) else SErr Overflow
  | SErr e => tuple_loop ub rec els sum st = SErr e \/ tuple_loop ub rec els sum st = SErr Overflow
  | _ => True
  end.
Proof.
  intros Hrec. induction els as [|el els IH]; intros sum Hsum; cbn [sum_with tuple_loop].
  - rewrite N.add_0_r. replace (sum <? 2 ^ ub) with true by lia. reflexivity.
  - specialize (Hrec el). unfold sim_rel in Hrec. destruct (f el) as [a|e| |]; cbn [sbind]; try exact I.
    + rewrite N.mul_1_l in Hrec. rewrite Hrec. destruct (a <? 2 ^ ub) eqn:Ha; cbn [sbind].
      * unfold usize_add. destruct (sum + a <? 2 ^ ub) eqn:Hs; cbn [sbind].
        -- specialize (IH (sum + a) ltac:(lia)).
           destruct (sum_with f els) as [b|e| |]; cbn [sbind]; try exact I.
           ++ rewrite IH, N.add_assoc. reflexivity.
           ++ exact IH.
        -- destruct (sum_with f els) as [b|e| |]; cbn [sbind]; try exact I.
           ++ replace (sum + (a + b) <? 2 ^ ub) with false by lia. reflexivity.
           ++ right; reflexivity.
      * destruct (sum_with f els) as [b|e| |]; cbn [sbind]; try exact I.
        -- replace (sum + (a + b) <? 2 ^ ub) with false by lia. reflexivity.
        -- right; reflexivity.
    + destruct Hrec as [-> | ->]; cbn [sbind]; auto.
Qed.

Lemma enum_loop_sim ub (f : string -> sres mserr N) rec st :
  (forall el, sim_rel ub 1 st (f el) (rec el st)) ->
  forall vs mx,
  match max_with f vs with
  | SOk M => enum_loop rec vs mx st = if M <? 2 ^ ub then SOk (N.max mx M, st) else SErr Overflow
  | SErr e => enum_loop rec vs mx st = SErr e \/ enum_loop rec vs mx st = SErr Overflow
  | _ => True
  end.
Proof.
  intros Hrec. pose proof (pow2_pos ub) as Hpos.
  induction vs as [|v vs IH]; intros mx; cbn [max_with enum_loop].
  - replace (0 <? 2 ^ ub) with true by lia. rewrite N.max_0_r. reflexivity.
  - specialize (Hrec v). unfold sim_rel in Hrec. destruct (f v) as [a|e| |]; cbn [sbind]; try exact I.
    + rewrite N.mul_1_l in Hrec. rewrite Hrec. destruct (a <? 2 ^ ub) eqn:Ha; cbn [sbind].
      * specialize (IH (N.max mx a)).
        destruct (max_with f vs) as [b|e| |]; cbn [sbind]; try exact I.
        -- rewrite IH. destruct (b <? 2 ^ ub) eqn:Hb.
           ++ replace (N.max a b <? 2 ^ ub) with true by lia. rewrite N.max_assoc. reflexivity.
           ++ replace (N.max a b <? 2 ^ ub) with false by lia. reflexivity.
        -- exact IH.
      * destruct (max_with f vs) as [b|e| |]; cbn [sbind]; try exact I.
        -- replace (N.max a b <? 2 ^ ub) with false by lia. reflexivity.
        -- right; reflexivity.
    + destruct Hrec as [-> | ->]; cbn [sbind]; auto.
Qed.

(** The common tails *)
Lemma add_mul_tail ub count sz lw d st : 1 <= count -> sz < 2 ^ ub ->
  sbind (s <~ usize_add ub sz lw ;; r <~ usize_mul ub count s ;; SOk (r, d :: st))
        (fun x => let '(res, stack) := x in SOk (res, tl stack))
  = if count * (sz + lw) <? 2 ^ ub then SOk (count * (sz + lw), st) else (@SErr mserr (N * list string) Overflow).
Proof.
  intros Hc Hsz. unfold usize_add, usize_mul.
  pose proof (le_mul_count count (sz + lw) Hc).
  destruct (sz + lw <? 2 ^ ub) eqn:Hs; cbn [sbind].
  - destruct (count * (sz + lw) <? 2 ^ ub); cbn [sbind tl]; reflexivity.
  - replace (count * (sz + lw) <? 2 ^ ub) with false by lia. reflexivity.
Qed.

Lemma tuple_size_sim ub (f : string -> sres mserr N) rec count els d st :
  1 <= count ->
  (forall el, sim_rel ub 1 (d :: st) (f el) (rec el (d :: st))) ->
  sim_rel ub count st (sum_with f els)
          (sbind (tuple_size ub rec count els (d :: st)) (fun x => let '(res, stack) := x in SOk (res, tl stack))).
Proof.
  intros Hc Hrec. pose proof (pow2_pos ub) as Hpos.
  pose proof (tuple_loop_sim ub f rec (d :: st) Hrec els 0 Hpos) as Hl.
  unfold tuple_size, sim_rel. destruct (sum_with f els) as [T|e| |]; try exact I.
  - rewrite Hl, N.add_0_l. pose proof (le_mul_count count T Hc). unfold usize_mul.
    destruct (T <? 2 ^ ub) eqn:HS; cbn [sbind].
    + destruct (count * T <? 2 ^ ub); cbn [sbind tl]; reflexivity.
    + replace (count * T <? 2 ^ ub) with false by lia. reflexivity.
  - destruct Hl as [-> | ->]; cbn [sbind]; auto.
Qed.

(** * The simulation *)
Lemma max_size_sim ub c : ranges_fit ub c -> forall fuel count d st, 1 <= count ->
  sim_rel ub count st (max_unb fuel c st d) (max_size_impl ub fuel c count d st).
Proof.
  intros Hfit. pose proof (pow2_pos ub) as Hpos.
  induction fuel as [|fuel IH]; intros count d st Hc; [exact I|].
  cbn [max_unb max_size_impl]. destruct (on_stack d st); [left; reflexivity|].
  assert (Hone : forall el, sim_rel ub 1 (d :: st) (max_unb fuel c (d :: st) el)
                                   (max_size_impl ub fuel c 1 el (d :: st))).
  { intros el. apply IH. lia. }
  destruct (get_definition c d) as [[s|lw lo hi el|els|tw vs|fs]|] eqn:Hd.
  - (* Primitive *)
    unfold sim_rel. destruct (s =? 0) eqn:Hs; cbn [sbind tl].
    + apply N.eqb_eq in Hs. subst s. rewrite N.mul_0_r. replace (0 <? 2 ^ ub) with true by lia. reflexivity.
    + unfold usize_mul. rewrite (N.mul_comm s count).
      destruct (count * s <? 2 ^ ub); cbn [sbind tl]; reflexivity.
  - (* Sequence *)
    pose proof (Hfit _ _ _ _ _ Hd) as Hhi. replace (hi <? 2 ^ ub) with true by lia.
    destruct (hi =? 0) eqn:Hz.
    + cbn [sbind]. unfold sim_rel. rewrite add_mul_tail by lia. rewrite N.add_0_l. reflexivity.
    + specialize (IH hi el (d :: st) ltac:(lia)). unfold sim_rel in IH |- *.
      destruct (max_unb fuel c (d :: st) el) as [m|e| |]; cbn [sbind]; try exact I.
      * rewrite IH. destruct (hi * m <? 2 ^ ub) eqn:Hm; cbn [sbind].
        -- rewrite add_mul_tail by lia. reflexivity.
        -- pose proof (le_mul_count count (hi * m + lw) Hc).
           replace (count * (hi * m + lw) <? 2 ^ ub) with false by lia. reflexivity.
      * destruct IH as [-> | ->]; cbn [sbind]; auto.
  - (* Tuple *) apply tuple_size_sim; assumption.
  - (* Enum *)
    pose proof (enum_loop_sim ub _ _ (d :: st) Hone (map variant_decl vs) 0) as Hl.
    unfold sim_rel. destruct (max_with (max_unb fuel c (d :: st)) (map variant_decl vs)) as [M|e| |];
      cbn [sbind]; try exact I.
    + rewrite Hl. rewrite N.max_0_l. destruct (M <? 2 ^ ub) eqn:HM; cbn [sbind].
      * rewrite add_mul_tail by lia. reflexivity.
      * pose proof (le_mul_count count (M + tw) Hc).
        replace (count * (M + tw) <? 2 ^ ub) with false by lia. reflexivity.
    + destruct Hl as [-> | ->]; cbn [sbind]; auto.
  - (* Struct *)
    destruct fs as [fs|fs|]; cbn [field_decls].
    + apply tuple_size_sim; assumption.
    + apply tuple_size_sim; assumption.
    + cbn [sum_with sbind tl]. unfold sim_rel. rewrite N.mul_0_r. replace (0 <? 2 ^ ub) with true by lia. reflexivity.
  - (* undefined *) left. reflexivity.
Qed.

(** * Consequences for the public function *)
Lemma max_size_at_sim ub c : ranges_fit ub c ->
  match max_unbounded c with
  | SOk n => max_size_at ub c = if n <? 2 ^ ub then SOk n else SErr Overflow
  | SErr e => max_size_at ub c = SErr e \/ max_size_at ub c = SErr Overflow
  | _ => True
  end.
Proof.
  intros Hfit. pose proof (max_size_sim ub c Hfit (full_fuel c) 1 (root c) [] ltac:(lia)) as H.
  unfold sim_rel in H. unfold max_unbounded, max_size_at.
  destruct (max_unb (full_fuel c) c [] (root c)) as [n|e| |]; try exact I.
  - rewrite H, N.mul_1_l. destruct (n <? 2 ^ ub); reflexivity.
  - destruct H as [-> | ->]; cbn [sbind]; auto.
Qed.
