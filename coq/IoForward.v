(** C13, the `by_ref` / `&mut W` part stated on the functions themselves.

    In nostd_io.rs `impl Write for &mut W` forwards `write_all` to W's own `write_all`; `&mut [u8]` and
    `Vec<u8>` override `write_all` ([fwrite_all_shim], [vwrite_all_shim]).  [Io.by_ref] copies the record, so
    inside [run_ops] forwarding is true by construction.  What forwarding is WORTH is stated here: the overridden
    `write_all` of the slice and of the vector returns exactly what the trait's default loop over `write` returns
    (the loop a `&mut W` that did not forward would run), for the shim's loop and for std's - so an adaptor that
    forwards and one that does not are observably the same writer.  (The seeded change C13d removed the forwarding
    and changed the default loop's error: this theorem is about the code as it is; the correspondence caught the change.) *)
From Coq Require Import List NArith PArith Bool Lia.
From Borsh Require Import Bytes BytesFacts Result Loop LoopFacts Ty Ser De Entry Io IoProofsBase IoProofsWrite IoRechunk.
Import ListNotations.
Local Open Scope N_scope.

Lemma single_chunk {W} (wa : bytes -> W -> result (W * werr)) b w w' e :
  wa b w = Ok (w', e) -> to_writer_cs wa [b] None w = Ok (w', e).
Proof.
  intros H. unfold to_writer_cs. cbn [feed]. rewrite H. cbn [bind]. destruct e; reflexivity.
Qed.

Lemma fixed_write_all_is_ok shim b st : exists w' e, fw_write_all shim b st = Ok (w', e).
Proof.
  destruct (fw_write_all_spec (len (fsink st) + room st) shim b st) as (w' & e & p & q & E & _).
  { unfold fgood. reflexivity. }
  eauto.
Qed.

Theorem fixed_override_is_default_loop b st :
  fwrite_all_shim b st = write_all_shim fwrite (fun _ => 0) b st /\
  fwrite_all_shim b st = write_all_std fwrite (fun _ => 0) b st.
Proof.
  assert (E : fw_write_all true b st = fw_write_all false b st).
  { destruct (fixed_write_all_is_ok true b st) as (w1 & e1 & H1).
    destruct (fixed_write_all_is_ok false b st) as (w2 & e2 & H2).
    pose proof (single_chunk _ _ _ _ _ H1) as S1. pose proof (single_chunk _ _ _ _ _ H2) as S2.
    destruct st as [sk rm]. rewrite cs_fixed_buffer in S1, S2. rewrite H1, H2. congruence. }
  cbn [fw_write_all] in E. split; [|exact E].
  rewrite E. unfold fwrite_all_std. apply write_all_std_shim.
Qed.

Lemma vec_write_all_is_ok shim b v : exists w' e, vw_write_all shim b v = Ok (w', e).
Proof.
  destruct (vw_write_all_spec shim b v I) as (w' & e & p & q & E & _). eauto.
Qed.

Theorem vec_override_is_default_loop b v :
  vwrite_all_shim b v = write_all_shim vwrite (fun _ => 0) b v /\
  vwrite_all_shim b v = write_all_std vwrite (fun _ => 0) b v.
Proof.
  assert (E : vw_write_all true b v = vw_write_all false b v).
  { destruct (vec_write_all_is_ok true b v) as (w1 & e1 & H1).
    destruct (vec_write_all_is_ok false b v) as (w2 & e2 & H2).
    pose proof (single_chunk _ _ _ _ _ H1) as S1. pose proof (single_chunk _ _ _ _ _ H2) as S2.
    rewrite cs_vec_writer in S1, S2. rewrite H1, H2. congruence. }
  cbn [vw_write_all] in E. split; [|exact E].
  rewrite E. unfold vwrite_all_std. apply write_all_std_shim.
Qed.
