(** Entry-point corollaries that combine the round trip with the parser facts. *)
From Coq Require Import String.
From Coq Require Import List NArith Bool Lia.
From Borsh Require Import Bytes BytesFacts Result Ty Ser De Entry CodecFacts RoundTrip RoundTripKeyed ParseFacts DecCorollaries.
Import ListNotations.
Local Open Scope N_scope.

Lemma stream_wf c items bs :
  (forall t v, In (t, v) items -> wf t = true /\ has_ty t v = true) ->
  enc_stream items = Ok bs ->
  forall tail, dec_stream c (map fst items) (bs ++ tail) = Ok (map (fun tv => logical (fst tv) (snd tv)) items, tail).
Proof.
  intros H. apply stream_round_trip. intros t v Hin b Hb rest.
  destruct (H t v Hin) as [Hwf Hty]. now apply round_trip.
Qed.

Lemma trailing_rejected c t v bs rest :
  wf t = true -> has_ty t v = true -> enc t v = Ok bs -> rest <> [] ->
  try_from_slice c t (bs ++ rest) = Err InvalidData MNotAllBytesRead /\
  from_slice c t (bs ++ rest) = Err InvalidData MNotAllBytesRead /\
  try_from_reader slice_reader c t (bs ++ rest) = Err InvalidData MNotAllBytesRead /\
  from_reader slice_reader c t (bs ++ rest) = Err InvalidData MNotAllBytesRead.
Proof.
  intros Hwf Hty Henc Hne.
  pose proof (round_trip c t v bs Hwf Hty Henc) as RTr.
  assert (Hs : try_from_slice c t (bs ++ rest) = Err InvalidData MNotAllBytesRead)
    by (eapply try_from_slice_trailing; eauto).
  assert (Hr : try_from_reader slice_reader c t (bs ++ rest) = Err InvalidData MNotAllBytesRead).
  { rewrite (try_from_reader_slice c t bs (logical t v) rest RTr). destruct rest; [contradiction|reflexivity]. }
  repeat split; assumption.
Qed.

Lemma prefix_rejected c t v q1 q2 :
  wf t = true -> has_ty t v = true -> enc t v = Ok (q1 ++ q2) -> q2 <> [] ->
  deserialize c t q1 = Err InvalidData MUnexpectedLength /\
  try_from_slice c t q1 = Err InvalidData MUnexpectedLength /\
  from_slice c t q1 = Err InvalidData MUnexpectedLength /\
  deserialize_reader slice_reader c t q1 = Err InvalidData MUnexpectedLength /\
  try_from_reader slice_reader c t q1 = Err InvalidData MUnexpectedLength /\
  from_reader slice_reader c t q1 = Err InvalidData MUnexpectedLength.
Proof.
  intros Hwf Hty Henc Hne.
  pose proof (round_trip c t v (q1 ++ q2) Hwf Hty Henc) as RTr.
  assert (Hd : dec_slice c t q1 = Err InvalidData MUnexpectedLength)
    by (exact (dec_truncated c t (q1 ++ q2) (logical t v) RTr q1 q2 eq_refl Hne)).
  assert (Hs : try_from_slice c t q1 = Err InvalidData MUnexpectedLength)
    by (unfold try_from_slice; now rewrite Hd).
  assert (Hr : try_from_reader slice_reader c t q1 = Err InvalidData MUnexpectedLength).
  { unfold try_from_reader. unfold dec_slice in Hd. now rewrite Hd. }
  repeat split; assumption.
Qed.

(** a proper prefix of a valid encoding is reported as "unexpected length" *)
Lemma truncated_message c t v q1 q2 :
  wf t = true -> has_ty t v = true -> enc t v = Ok (q1 ++ q2) -> q2 <> [] ->
  dec_slice c t q1 = Err InvalidData MUnexpectedLength.
Proof.
  intros Hwf Hty Henc Hne.
  exact (dec_truncated c t (q1 ++ q2) (logical t v) (round_trip c t v (q1 ++ q2) Hwf Hty Henc) q1 q2 eq_refl Hne).
Qed.

Lemma leftover_message c t v bs rest :
  wf t = true -> has_ty t v = true -> enc t v = Ok bs -> rest <> [] ->
  try_from_slice c t (bs ++ rest) = Err InvalidData MNotAllBytesRead.
Proof. intros H1 H2 H3 H4. exact (proj1 (trailing_rejected c t v bs rest H1 H2 H3 H4)). Qed.
