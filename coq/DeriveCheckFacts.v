(** C18: the checks of the derive macros ([DeriveCheck.check]) against the rule list
    ([DeriveCheck.violations]).  Every rejection belongs to a violated rule; outside
    the two classes F11 / F12 the macro rejects exactly the rule violators. *)
From Coq Require Import String.
From Coq Require Import List NArith ZArith Bool Lia Arith.
From Borsh Require Import Bytes Result Ty Discr DiscrFacts EvalFacts Item DeriveCheck.
Import ListNotations.

(** * [;;;] and [first_err] *)
Lemma andthen_none (a b : res) : a ;;; b = None <-> a = None /\ b = None.
Proof.
  destruct a; simpl; split.
  - discriminate.
  - intros [H _]; discriminate.
  - auto.
  - tauto.
Qed.

Lemma andthen_some (a b : res) c : a ;;; b = Some c -> a = Some c \/ (a = None /\ b = Some c).
Proof. destruct a; simpl; auto. Qed.

Lemma first_err_none {A} (f : A -> res) l : first_err f l = None <-> forall x, In x l -> f x = None.
Proof.
  induction l as [|a l IH]; simpl.
  - split; auto. intros _ x [].
  - destruct (f a) eqn:E.
    + split; [discriminate|]. intro H. rewrite (H a) in E by auto. discriminate.
    + rewrite IH. split.
      * intros H x [<-|I]; auto.
      * intros H x I. apply H. auto.
Qed.

Lemma first_err_some {A} (f : A -> res) l c : first_err f l = Some c -> exists x, In x l /\ f x = Some c.
Proof.
  induction l as [|a l IH]; simpl; [discriminate|].
  destruct (f a) eqn:E.
  - intro H. inversion H. subst. exists a. auto.
  - intro H. destruct (IH H) as [x [I F]]. exists x. auto.
Qed.

Lemma existsb_false {A} (f : A -> bool) l : existsb f l = false <-> forall x, In x l -> f x = false.
Proof.
  induction l as [|a l IH]; simpl.
  - split; auto. intros _ x [].
  - rewrite orb_false_iff, IH. split.
    + intros [H1 H2] x [<-|I]; auto.
    + intro H. split; [apply H; auto|]. intros x I. apply H. auto.
Qed.

(** * One attribute per node *)
Lemma get_one_none {M} (a : attrs M) : get_one a = None -> Nat.ltb 1 (length a) = false /\ concat a = first_attr a.
Proof.
  unfold get_one. destruct (Nat.ltb 1 (length a)) eqn:E; [discriminate|]. intros _. split; [reflexivity|].
  destruct a as [|m [|m' r]]; simpl in *; [reflexivity|apply app_nil_r|discriminate].
Qed.

Lemma get_one_shape {M} (a : attrs M) : get_one a = None -> a = [] \/ a = [first_attr a].
Proof.
  unfold get_one. destruct a as [|m [|m' r]]; simpl; auto. discriminate.
Qed.

Lemma get_one_some {M} (a : attrs M) c : get_one a = Some c -> c = CMultipleAttrs /\ Nat.ltb 1 (length a) = true.
Proof.
  unfold get_one. destruct (Nat.ltb 1 (length a)); [|discriminate]. intro H. inversion H. auto.
Qed.

(** * One key once per attribute ([keyed_err], [has_dup]) *)
Lemma item_key_eqb_sym a b : item_key_eqb a b = item_key_eqb b a.
Proof. destruct a, b; simpl; try reflexivity. apply String.eqb_sym. Qed.
Lemma field_key_eqb_sym a b : field_key_eqb a b = field_key_eqb b a.
Proof. destruct a, b; simpl; try reflexivity. apply String.eqb_sym. Qed.

Lemma seen_err_some {K} (eqb : K -> K -> bool) k seen c :
  seen_err eqb k seen = Some c -> c = CRepeatedKey /\ existsb (eqb k) seen = true.
Proof. unfold seen_err. destruct (existsb (eqb k) seen); [|discriminate]. intro H; inversion H; auto. Qed.
Lemma seen_err_none {K} (eqb : K -> K -> bool) k seen :
  seen_err eqb k seen = None -> existsb (eqb k) seen = false.
Proof. unfold seen_err. destruct (existsb (eqb k) seen); [discriminate|auto]. Qed.

Section Keyed.
  Context {A K : Type} (key : A -> K) (eqb : K -> K -> bool) (pre post : A -> res).
  Hypothesis eqb_sym : forall a b, eqb a b = eqb b a.

  (** an error of the walk is an error of one entry, or the repetition error -- and then a key
      occurs twice (or had been seen before the walk started) *)
  Lemma keyed_err_some : forall l seen c, keyed_err key eqb pre post seen l = Some c ->
    (exists x, In x l /\ (pre x = Some c \/ post x = Some c)) \/
    (c = CRepeatedKey /\
     (has_dup eqb (map key l) = true \/ exists x, In x l /\ existsb (eqb (key x)) seen = true)).
  Proof.
    induction l as [|x r IH]; intros seen c H; simpl in H; [discriminate|].
    apply andthen_some in H. destruct H as [H|[_ H]].
    { left. exists x. simpl. auto. }
    apply andthen_some in H. destruct H as [H|[_ H]].
    { apply seen_err_some in H. destruct H as [-> H]. right. split; [reflexivity|]. right. exists x. simpl. auto. }
    apply andthen_some in H. destruct H as [H|[_ H]].
    { left. exists x. simpl. auto. }
    apply IH in H. destruct H as [[y [I H]]|[-> [H|[y [I H]]]]].
    - left. exists y. simpl. auto.
    - right. split; [reflexivity|]. left. simpl. rewrite H. apply orb_true_r.
    - right. split; [reflexivity|]. simpl in H. apply orb_true_iff in H. destruct H as [H|H].
      + left. simpl. apply orb_true_iff. left. apply existsb_exists. exists (key y). split.
        * apply in_map. exact I.
        * rewrite eqb_sym. exact H.
      + right. exists y. simpl. auto.
  Qed.

  Lemma keyed_err_none : forall l seen, keyed_err key eqb pre post seen l = None ->
    (forall x, In x l -> pre x = None /\ post x = None /\ existsb (eqb (key x)) seen = false) /\
    has_dup eqb (map key l) = false.
  Proof.
    induction l as [|x r IH]; intros seen H; simpl in H.
    { split; [intros x []|reflexivity]. }
    apply andthen_none in H. destruct H as [H1 H].
    apply andthen_none in H. destruct H as [H2 H].
    apply andthen_none in H. destruct H as [H3 H].
    apply seen_err_none in H2. apply IH in H. destruct H as [H4 H5].
    split.
    - intros y [<-|I]; [auto|]. destruct (H4 y I) as [P1 [P2 P3]]. simpl in P3.
      apply orb_false_iff in P3. tauto.
    - simpl. rewrite H5, orb_false_r. apply existsb_false. intros k I.
      apply in_map_iff in I. destruct I as [y [<- I]]. destruct (H4 y I) as [_ [_ P3]]. simpl in P3.
      apply orb_false_iff in P3. rewrite eqb_sym. tauto.
  Qed.
End Keyed.

(** a node that passed [get_one] has at most one attribute: "twice in one attribute" is "twice in
    the first attribute" *)
Lemma one_attr_dup {M K} (key : M -> K) (eqb : K -> K -> bool) (a : attrs M) :
  get_one a = None ->
  existsb (fun ms => has_dup eqb (map key ms)) a = has_dup eqb (map key (first_attr a)).
Proof.
  intro G. destruct (get_one_shape a G) as [->|E]; [reflexivity|].
  rewrite E at 1. simpl. apply orb_false_r.
Qed.

(** * The slots of a field attribute, as folds *)
Definition is_some {A} (o : option A) : bool := match o with Some _ => true | None => false end.
Definition has_with (a : fattr) : bool := is_some (fa_ser_with a) || is_some (fa_de_with a).

Lemma fold_skip : forall ms a,
  fa_skip (fold_left field_meta_apply ms a) = fa_skip a || existsb is_skip ms.
Proof.
  induction ms as [|m ms IH]; intro a; simpl.
  - rewrite orb_false_r. reflexivity.
  - rewrite IH. destruct m; simpl; try reflexivity. rewrite orb_true_r. reflexivity.
Qed.

Lemma fold_with : forall ms a,
  has_with (fold_left field_meta_apply ms a) = has_with a || existsb is_with ms.
Proof.
  induction ms as [|m ms IH]; intro a; simpl.
  - rewrite orb_false_r. reflexivity.
  - rewrite IH. destruct m; simpl; try reflexivity; unfold has_with; simpl.
    + rewrite orb_true_r. reflexivity.
    + rewrite !orb_true_r. reflexivity.
Qed.

Definition sif_step (acc : option (bool * option (bool * bool))) (m : field_meta) :=
  match m with FSchema p wf => Some (p, wf) | _ => acc end.
(** what the fold of [field_meta_apply] leaves in the schema slots: the last [schema(..)] entry *)
Definition schema_in_force (ms : list field_meta) : option (bool * option (bool * bool)) :=
  fold_left sif_step ms None.
Definition override_of (acc : option (bool * option (bool * bool))) : bool :=
  match acc with
  | Some (p, wf) => p || match wf with Some _ => true | None => false end
  | None => false
  end.
Definition schema_override (ms : list field_meta) : bool := override_of (schema_in_force ms).
Definition slots (a : fattr) : bool * bool := (fa_schema_params a, fa_schema_funcs a).
Definition of_acc (acc : option (bool * option (bool * bool))) (d : bool * bool) : bool * bool :=
  match acc with Some (p, wf) => (p, is_some wf) | None => d end.

Lemma fold_slots : forall ms a acc d,
  slots a = of_acc acc d ->
  slots (fold_left field_meta_apply ms a) = of_acc (fold_left sif_step ms acc) d.
Proof.
  induction ms as [|m ms IH]; intros a acc d H; simpl; [exact H|].
  apply IH. destruct m; simpl; try exact H. destruct with_funcs; reflexivity.
Qed.

Lemma schema_slots ms :
  fa_schema_params (field_attr_of ms) || fa_schema_funcs (field_attr_of ms) = schema_override ms.
Proof.
  pose proof (fold_slots ms no_fattr None (false, false) eq_refl) as H.
  unfold schema_override, schema_in_force, override_of.
  fold (field_attr_of ms) in H. unfold slots in H.
  pose proof (f_equal fst H) as H1. pose proof (f_equal snd H) as H2. cbn [fst snd] in H1, H2.
  rewrite H1, H2.
  destruct (fold_left sif_step ms None) as [[p wf]|]; reflexivity.
Qed.

(** when no key is repeated the slot holds the one [schema(..)] entry there is: "the entry in
    force" and "some entry" are the same thing *)
Definition is_schema (m : field_meta) : bool := match m with FSchema _ _ => true | _ => false end.
Lemma no_later_schema ms :
  existsb (field_key_eqb FKSchema) (map field_key_of ms) = false -> existsb is_schema ms = false.
Proof.
  intro H. apply existsb_false. intros m I. rewrite existsb_false in H.
  specialize (H (field_key_of m) (in_map _ _ _ I)). destruct m; simpl in *; auto.
Qed.
Lemma no_schema_no_override ms : existsb is_schema ms = false -> existsb has_schema_override ms = false.
Proof.
  intro H. apply existsb_false. intros m I. rewrite existsb_false in H. specialize (H m I).
  destruct m; simpl in *; auto. discriminate.
Qed.
Lemma override_fold : forall ms acc,
  has_dup field_key_eqb (map field_key_of ms) = false ->
  (acc <> None -> existsb is_schema ms = false) ->
  override_of (fold_left sif_step ms acc) = override_of acc || existsb has_schema_override ms.
Proof.
  induction ms as [|m ms IH]; intros acc D N; simpl.
  { rewrite orb_false_r. reflexivity. }
  simpl in D. apply orb_false_iff in D. destruct D as [D1 D2].
  destruct (is_schema m) eqn:S.
  - destruct m; try discriminate. simpl in D1.
    assert (acc = None).
    { destruct acc; [|reflexivity]. assert (Some p <> None) as X by discriminate. apply N in X. simpl in X. discriminate. }
    subst acc. pose proof (no_later_schema ms D1) as NS.
    rewrite (IH _ D2 (fun _ => NS)). simpl.
    rewrite (no_schema_no_override ms NS), !orb_false_r. reflexivity.
  - assert (E : sif_step acc m = acc) by (destruct m; try reflexivity; discriminate).
    rewrite E. assert (O : has_schema_override m = false) by (destruct m; try reflexivity; discriminate).
    rewrite O. simpl. apply IH; [exact D2|]. intro X. apply N in X. simpl in X. rewrite S in X. exact X.
Qed.
Lemma schema_override_nodup ms :
  has_dup field_key_eqb (map field_key_of ms) = false ->
  schema_override ms = existsb has_schema_override ms.
Proof.
  intro D. unfold schema_override, schema_in_force.
  rewrite (override_fold ms None D); [reflexivity|]. intro X. contradiction.
Qed.
(** without that hypothesis: the entry in force is one of the entries *)
Lemma override_fold_some : forall ms acc,
  override_of (fold_left sif_step ms acc) = true -> override_of acc = true \/ existsb has_schema_override ms = true.
Proof.
  induction ms as [|m ms IH]; intros acc H; simpl in *; [auto|].
  apply IH in H. destruct H as [H|H]; [|right; rewrite H; apply orb_true_r].
  destruct m; simpl in H; auto. right. simpl. unfold override_of in H. rewrite H. reflexivity.
Qed.
Lemma schema_override_some ms : schema_override ms = true -> existsb has_schema_override ms = true.
Proof.
  intro H. apply override_fold_some in H. destruct H as [H|H]; [discriminate|exact H].
Qed.

Definition skip_conflict (ms : list field_meta) : bool :=
  existsb is_skip ms && (existsb is_with ms || schema_override ms).

Lemma fattr_check_spec ms :
  match fattr_check (field_attr_of ms) with
  | Some c => (c = CSkipConflict \/ c = CSkipSchemaConflict) /\ skip_conflict ms = true
  | None => skip_conflict ms = false
  end.
Proof.
  unfold fattr_check, skip_conflict.
  rewrite <- (schema_slots ms).
  pose proof (fold_skip ms no_fattr) as Hs. pose proof (fold_with ms no_fattr) as Hw.
  fold (field_attr_of ms) in Hs, Hw. simpl in Hs, Hw. rewrite <- Hs, <- Hw.
  unfold has_with, is_some.
  destruct (fa_skip (field_attr_of ms)); simpl; [|reflexivity].
  destruct (fa_ser_with (field_attr_of ms)); simpl; [auto|].
  destruct (fa_de_with (field_attr_of ms)); simpl; [auto|].
  destruct (fa_schema_params (field_attr_of ms)); simpl; [auto|].
  destruct (fa_schema_funcs (field_attr_of ms)); simpl; auto.
Qed.

(** * One field *)
Definition fr_repeated (f : field) : bool := Nat.ltb 1 (length (f_attrs f)).
Definition fr_unknown (f : field) : bool :=
  existsb (fun m => match m with FOther _ => true | _ => false end) (field_metas f).
Definition fm_undoc (m : field_meta) : bool :=
  match m with
  | FSchema false None | FBound false false => true
  | FSchema _ (Some (d1, d2)) => negb (d1 && d2)
  | _ => false
  end.
Definition fr_undoc (f : field) : bool := existsb fm_undoc (field_metas f).
Definition fr_skip (f : field) : bool :=
  existsb is_skip (field_metas f) && (existsb is_with (field_metas f) || existsb has_schema_override (field_metas f)).
Definition fr_repeated_key (f : field) : bool :=
  existsb (fun a => has_dup field_key_eqb (map field_key_of a)) (f_attrs f).

Definition field_viol (f : field) (r : rule) : bool :=
  match r with
  | RRepeatedAttr => fr_repeated f
  | RRepeatedKey => fr_repeated_key f
  | RUnknownAttr => fr_unknown f
  | RUndocumented => fr_undoc f
  | RSkipConflict => fr_skip f
  | _ => false
  end.

Lemma field_meta_err_some m c : field_meta_err m = Some c ->
  (c = CUnknownFieldKey /\ match m with FOther _ => true | _ => false end = true) \/
  (rule_of_class c = RUndocumented /\ fm_undoc m = true).
Proof.
  unfold field_meta_err.
  destruct m as [| | |[|] [|]|[|] [[[|] [|]]|]|]; simpl; intro H; inversion H; auto.
Qed.

Lemma field_meta_err_none m : field_meta_err m = None ->
  match m with FOther _ => true | _ => false end = false /\ fm_undoc m = false.
Proof.
  unfold field_meta_err.
  destruct m as [| | |[|] [|]|[|] [[[|] [|]]|]|]; simpl; intro H; try discriminate; auto.
Qed.

Lemma field_err_some f c : field_attrs_err (f_attrs f) = Some c -> field_viol f (rule_of_class c) = true.
Proof.
  unfold field_attrs_err. intro H.
  apply andthen_some in H. destruct H as [H|[G0 H]].
  { apply get_one_some in H. destruct H as [-> H]. exact H. }
  pose proof (get_one_none _ G0) as [_ G].
  apply andthen_some in H. destruct H as [H|[_ H]].
  - unfold field_metas_err in H. apply (keyed_err_some _ _ _ _ field_key_eqb_sym) in H.
    destruct H as [[m [I [H|H]]]|[-> [H|[m [_ H]]]]]; try discriminate.
    + apply field_meta_err_some in H. destruct H as [[-> H]|[R H]]; [|rewrite R]; simpl;
        [unfold fr_unknown|unfold fr_undoc]; unfold field_metas; rewrite G;
        apply existsb_exists; exists m; auto.
    + simpl. unfold fr_repeated_key. rewrite (one_attr_dup _ _ _ G0). exact H.
  - pose proof (fattr_check_spec (first_attr (f_attrs f))) as S. rewrite H in S.
    destruct S as [E S]. unfold skip_conflict in S. apply andb_prop in S. destruct S as [S1 S2].
    assert (X : fr_skip f = true).
    { unfold fr_skip, field_metas. rewrite G, S1. simpl. apply orb_true_iff in S2. destruct S2 as [S2|S2].
      - rewrite S2. reflexivity.
      - rewrite (schema_override_some _ S2). apply orb_true_r. }
    destruct E as [-> | ->]; exact X.
Qed.

Lemma field_err_none f : field_attrs_err (f_attrs f) = None ->
  fr_repeated f = false /\ fr_unknown f = false /\ fr_undoc f = false /\ fr_skip f = false /\
  fr_repeated_key f = false.
Proof.
  unfold field_attrs_err. intro H.
  apply andthen_none in H. destruct H as [G0 H].
  apply andthen_none in H. destruct H as [H1 H2].
  pose proof (get_one_none _ G0) as [G1 G].
  unfold field_metas_err in H1. apply (keyed_err_none _ _ _ _ field_key_eqb_sym) in H1. destruct H1 as [H1 D].
  pose proof (fattr_check_spec (first_attr (f_attrs f))) as S. rewrite H2 in S.
  unfold fr_repeated, fr_unknown, fr_undoc, fr_skip, fr_repeated_key, field_metas. rewrite G.
  repeat split.
  - exact G1.
  - apply existsb_false. intros m I. apply (field_meta_err_none m (proj1 (H1 m I))).
  - apply existsb_false. intros m I. apply (field_meta_err_none m (proj1 (H1 m I))).
  - unfold skip_conflict in S. rewrite (schema_override_nodup _ D) in S. exact S.
  - rewrite (one_attr_dup _ _ _ G0). exact D.
Qed.

(** * The rule list *)
Definition rule_bool (k : derive_kind) (it : item) (r : rule) : bool :=
  match r with
  | RDiscrNoSetting => r_discr_no_setting it
  | RUseDiscrStruct => r_use_discr_struct it
  | RUseDiscrValue => r_use_discr_value it
  | RDiscrFit => r_discr_fit it
  | RTooManyVariants => r_too_many it
  | RSkipConflict => r_skip_conflict it
  | RUnknownAttr => r_unknown it
  | RRepeatedAttr => r_repeated it
  | RRepeatedKey => r_repeated_key it
  | RUnion => r_union it
  | RUndocumented => r_undocumented k it
  end.

Lemma in_violations k it r : rule_bool k it r = true -> In r (violations k it).
Proof.
  intro H. unfold violations. apply in_map_iff. exists (r, true). split; [reflexivity|].
  apply filter_In. split; [|reflexivity].
  destruct r; simpl in H; unfold rules; rewrite H; simpl; tauto.
Qed.

Lemma no_violations k it : (forall r, rule_bool k it r = false) -> violations k it = [].
Proof.
  intro H. unfold violations, rules.
  rewrite (H RRepeatedAttr : r_repeated it = false), (H RRepeatedKey : r_repeated_key it = false),
    (H RUnknownAttr : r_unknown it = false),
    (H RUndocumented : r_undocumented k it = false), (H RUseDiscrStruct : r_use_discr_struct it = false),
    (H RUseDiscrValue : r_use_discr_value it = false), (H RUnion : r_union it = false),
    (H RTooManyVariants : r_too_many it = false), (H RDiscrNoSetting : r_discr_no_setting it = false),
    (H RSkipConflict : r_skip_conflict it = false), (H RDiscrFit : r_discr_fit it = false).
  reflexivity.
Qed.

(** * Item-level entries *)
Definition im_unknown (m : item_meta) : bool := match im_key m with IKOther _ => true | _ => false end.
Definition im_undoc (k : derive_kind) (m : item_meta) : bool :=
  match im_key m with
  | IKOther _ => false
  | IKUseDiscriminant => missing (im_val m)
  | IKCrate => match im_val m with MVStr _ true => false | _ => true end
  | IKInit => match k with
              | DDe => match im_val m with MVPath _ => false | _ => true end
              | _ => missing (im_val m)
              end
  end.
Definition im_udv (m : item_meta) : bool :=
  is_use_discr m && match im_val m with MVTrue | MVFalse | MVNone => false | _ => true end.
Definition is_setting (m : item_meta) : bool :=
  match im_key m, im_val m with
  | IKUseDiscriminant, MVTrue | IKUseDiscriminant, MVFalse => true
  | _, _ => false
  end.

Lemma r_unknown_item it m : In m (item_metas it) -> im_unknown m = true -> r_unknown it = true.
Proof.
  intros I H. unfold r_unknown. apply orb_true_iff. left. apply orb_true_iff. left.
  apply existsb_exists. exists m. split; [exact I|exact H].
Qed.
Lemma r_undoc_item k it m : In m (item_metas it) -> im_undoc k m = true -> r_undocumented k it = true.
Proof.
  intros I H. unfold r_undocumented. apply orb_true_iff. left.
  apply existsb_exists. exists m. split; [exact I|exact H].
Qed.
Lemma r_udv_item it m : In m (item_metas it) -> im_udv m = true -> r_use_discr_value it = true.
Proof.
  intros I H. unfold r_use_discr_value. apply existsb_exists. exists m. split; [exact I|exact H].
Qed.
Lemma r_uds_item it m : In m (item_metas it) -> is_struct (it_body it) = true -> is_use_discr m = true ->
  r_use_discr_struct it = true.
Proof.
  intros I S H. unfold r_use_discr_struct. rewrite S. simpl.
  apply existsb_exists. exists m. split; [exact I|exact H].
Qed.

Lemma field_viol_rule k it f r : In f (all_fields it) -> field_viol f r = true -> rule_bool k it r = true.
Proof.
  intros I H. destruct r; simpl in H; try discriminate; simpl.
  - unfold r_skip_conflict. apply existsb_exists. exists f. split; [exact I|exact H].
  - unfold r_unknown. apply orb_true_iff. left. apply orb_true_iff. right.
    apply existsb_exists. exists f. split; [exact I|exact H].
  - unfold r_repeated. apply orb_true_iff. left. apply orb_true_iff. right.
    apply existsb_exists. exists f. split; [exact I|exact H].
  - unfold r_repeated_key. apply orb_true_iff. left. apply orb_true_iff. right.
    apply existsb_exists. exists f. split; [exact I|exact H].
  - unfold r_undocumented. apply orb_true_iff. right.
    apply existsb_exists. exists f. split; [exact I|exact H].
Qed.

Lemma value_expr_some v c : value_expr v = Some c -> c = CMalformedValue /\ missing v = true.
Proof. unfold value_expr. destruct (missing v); [|discriminate]. intro H; inversion H; auto. Qed.
Lemma value_expr_none v : value_expr v = None -> missing v = false.
Proof. unfold value_expr. destruct (missing v); [discriminate|auto]. Qed.

Lemma missing_undoc k m : im_unknown m = false -> missing (im_val m) = true -> im_undoc k m = true.
Proof.
  destruct m as [key val]. unfold im_unknown, im_undoc. simpl.
  destruct key; try discriminate; destruct val; try discriminate; destruct k; reflexivity.
Qed.

(** what an item-level rejection says about the entry *)
Definition item_meta_viol (k : derive_kind) (b : body) (m : item_meta) (r : rule) : bool :=
  match r with
  | RUnknownAttr => im_unknown m
  | RUndocumented => im_undoc k m
  | RUseDiscrValue => im_udv m
  | RUseDiscrStruct => is_struct b && is_use_discr m
  | _ => false
  end.

Lemma item_meta_viol_rule k it m r : In m (item_metas it) ->
  item_meta_viol k (it_body it) m r = true -> rule_bool k it r = true.
Proof.
  intros I H. destruct r; simpl in H; try discriminate; simpl.
  - apply andb_prop in H. destruct H. eapply r_uds_item; eauto.
  - eapply r_udv_item; eauto.
  - eapply r_unknown_item; eauto.
  - eapply r_undoc_item; eauto.
Qed.

Lemma check_item_meta_some k b m c : check_item_meta b m = Some c ->
  item_meta_viol k b m (rule_of_class c) = true.
Proof.
  destruct m as [key val]. unfold check_item_meta. simpl im_key. simpl im_val. destruct key.
  - intro H. apply andthen_some in H. destruct H as [H|[_ H]].
    + apply value_expr_some in H. destruct H as [-> H]. simpl. exact H.
    + destruct (is_struct b) eqn:S; [|discriminate]. inversion H. simpl. rewrite S. reflexivity.
  - intro H. apply value_expr_some in H. destruct H as [-> H]. simpl.
    apply missing_undoc; [reflexivity|exact H].
  - intro H. apply value_expr_some in H. destruct H as [-> H]. simpl.
    apply missing_undoc; [reflexivity|exact H].
  - intro H. inversion H. reflexivity.
Qed.

Lemma item_unknown_err_some b m c : item_unknown_err m = Some c -> check_item_meta b m = Some c.
Proof.
  destruct m as [key val]. unfold item_unknown_err, check_item_meta. simpl.
  destruct key; try discriminate. auto.
Qed.

Lemma get_crate_meta_some k b m c : get_crate_meta m = Some c ->
  item_meta_viol k b m (rule_of_class c) = true.
Proof.
  destruct m as [key val]. unfold get_crate_meta. simpl im_key. simpl im_val. destruct key.
  - intro H. apply value_expr_some in H. destruct H as [-> H]. exact H.
  - intro H. apply value_expr_some in H. destruct H as [-> H]. simpl.
    apply missing_undoc; [reflexivity|exact H].
  - intro H. assert (c = CMalformedValue) by (destruct val as [| | | |s [|]|]; inversion H; reflexivity).
    subst c. simpl. unfold im_undoc. simpl. destruct val as [| | | |s [|]|]; try reflexivity. discriminate.
  - discriminate.
Qed.

Lemma use_discr_meta_some k b m c : use_discr_meta m = Some c ->
  item_meta_viol k b m (rule_of_class c) = true.
Proof.
  destruct m as [key val]. unfold use_discr_meta. simpl im_key. simpl im_val. destruct key.
  - destruct val; intro H; inversion H; reflexivity.
  - intro H. apply value_expr_some in H. destruct H as [-> H]. simpl.
    apply missing_undoc; [reflexivity|exact H].
  - intro H. apply value_expr_some in H. destruct H as [-> H]. simpl.
    apply missing_undoc; [reflexivity|exact H].
  - discriminate.
Qed.

Lemma init_meta_some b m c : init_meta m = Some c ->
  item_meta_viol DDe b m (rule_of_class c) = true.
Proof.
  destruct m as [key val]. unfold init_meta. simpl im_key. simpl im_val. destruct key.
  - intro H. apply value_expr_some in H. destruct H as [-> H]. exact H.
  - intro H. assert (c = CMalformedValue) by (destruct val; inversion H; reflexivity).
    subst c. simpl. unfold im_undoc. simpl. destruct val; try reflexivity. discriminate.
  - intro H. apply value_expr_some in H. destruct H as [-> H]. simpl.
    apply missing_undoc; [reflexivity|exact H].
  - discriminate.
Qed.

(** * The setting in force *)
Definition setting_step (acc : option bool) (m : item_meta) : option bool :=
  match im_key m, im_val m with
  | IKUseDiscriminant, MVTrue => Some true
  | IKUseDiscriminant, MVFalse => Some false
  | _, _ => acc
  end.

Lemma setting_step_none acc m : setting_step acc m = None -> acc = None /\ is_setting m = false.
Proof.
  destruct m as [key val]. unfold setting_step, is_setting. simpl.
  destruct key; auto; destruct val; auto; discriminate.
Qed.
Lemma setting_step_noop acc m : is_setting m = false -> setting_step acc m = acc.
Proof.
  destruct m as [key val]. unfold setting_step, is_setting. simpl.
  destruct key; auto; destruct val; auto; discriminate.
Qed.

Lemma setting_fold_none : forall ms acc, fold_left setting_step ms acc = None ->
  acc = None /\ forall m, In m ms -> is_setting m = false.
Proof.
  induction ms as [|m ms IH]; intros acc H; simpl in H.
  - split; [exact H|]. intros m [].
  - apply IH in H. destruct H as [H1 H2]. apply setting_step_none in H1. destruct H1 as [H1 H3].
    split; [exact H1|]. intros x [<-|I]; auto.
Qed.
Lemma setting_fold_noop : forall ms acc, (forall m, In m ms -> is_setting m = false) ->
  fold_left setting_step ms acc = acc.
Proof.
  induction ms as [|m ms IH]; intros acc H; simpl; [reflexivity|].
  rewrite setting_step_noop by (apply H; left; reflexivity). apply IH. intros x I. apply H. right. exact I.
Qed.

Lemma use_discr_setting_eq ms : use_discr_setting ms = fold_left setting_step ms None.
Proof. reflexivity. Qed.

Lemma use_discr_meta_none_setting m : use_discr_meta m = None -> is_use_discr m = true -> is_setting m = true.
Proof.
  destruct m as [key val]. unfold use_discr_meta, is_use_discr, is_setting. simpl.
  destruct key; try discriminate. destruct val; try discriminate; reflexivity.
Qed.

(** * The per-variant loop *)
Lemma discr_get_some idx c : discr_get idx = Some c -> c = CTooManyVariants /\ 256 <= idx.
Proof.
  unfold discr_get. destruct (Nat.ltb idx 256) eqn:E; [discriminate|]. intro H; inversion H.
  apply Nat.ltb_ge in E. auto.
Qed.

Lemma variants_err_some k : forall vs idx c, variants_err k idx vs = Some c ->
  (c = CTooManyVariants /\ 256 < idx + length vs) \/
  exists v, In v vs /\ fields_err (v_fields v) = Some c.
Proof.
  induction vs as [|v vs IH]; intros idx c H; simpl in H; [discriminate|].
  apply andthen_some in H. destruct H as [H|[_ H]].
  - assert (D : discr_get idx = Some c \/ fields_err (v_fields v) = Some c).
    { destruct k; apply andthen_some in H; tauto. }
    destruct D as [D|D].
    + apply discr_get_some in D. left. simpl. split; [tauto|lia].
    + right. exists v. simpl; auto.
  - apply IH in H. destruct H as [[H1 H2]|[x [I H]]].
    + left. simpl. split; [exact H1|lia].
    + right. exists x. simpl; auto.
Qed.

Lemma variants_err_none k : forall vs idx, variants_err k idx vs = None ->
  forall v, In v vs -> fields_err (v_fields v) = None.
Proof.
  induction vs as [|v vs IH]; intros idx H x I; [destruct I|].
  simpl in H. apply andthen_none in H. destruct H as [H1 H2].
  destruct I as [<-|I].
  - destruct k; apply andthen_none in H1; tauto.
  - eapply IH; eauto.
Qed.

(** * The emitted tag expressions *)
Lemma derive_discrs_from_length g : forall ds next, length (derive_discrs_from g next ds) = length ds.
Proof. induction ds as [|d ds IH]; intro next; simpl; [reflexivity|]. rewrite IH. reflexivity. Qed.

Lemma tag_exprs_length vs : length (tag_exprs vs) = length vs.
Proof. unfold tag_exprs, derive_discrs. rewrite map_length, derive_discrs_from_length, map_length. reflexivity. Qed.

Lemma rust_discrs_from_length t : forall ds next, length (rust_discrs_from t next ds) = length ds.
Proof. induction ds as [|d ds IH]; intro next; simpl; [reflexivity|]. rewrite IH. reflexivity. Qed.

Lemma forallb_map {A B} (f : A -> B) (p : B -> bool) l : forallb p (map f l) = forallb (fun x => p (f x)) l.
Proof. induction l as [|a l IH]; simpl; [reflexivity|]. rewrite IH. reflexivity. Qed.

Lemma tag_link vs : forallb canonical_opt (map v_discr vs) = true ->
  map (fun oe => obind oe (eval false U8)) (tag_exprs vs) = rust_discrs U8 (map v_discr vs).
Proof.
  intro C. rewrite <- (derive_discrs_correct U8 _ C). unfold tag_exprs. rewrite map_map.
  apply map_ext. intro ts. reflexivity.
Qed.

Lemma nth_rust8 vs i : forallb canonical_opt (map v_discr vs) = true ->
  nth i (rust_discrs U8 (map v_discr vs)) None = obind (nth i (tag_exprs vs) None) (eval false U8).
Proof.
  intro C. rewrite <- (tag_link vs C).
  apply (map_nth_default (fun oe => obind oe (eval false U8))). reflexivity.
Qed.

Lemma canonical_variants it vs : it_body it = BEnum vs -> discrs_canonical it = true ->
  forallb canonical_opt (map v_discr vs) = true.
Proof.
  intros B C. unfold discrs_canonical, variants_of in C. rewrite B in C.
  rewrite forallb_map. exact C.
Qed.

Lemma rustc_tags_some it vs c : rustc_tags it vs = Some c ->
  use_discriminant it = true /\ rule_of_class c = RDiscrFit /\
  exists oe, In oe (tag_exprs vs) /\ obind oe (eval false U8) = None.
Proof.
  unfold rustc_tags. destruct (use_discriminant it); [|discriminate].
  destruct (any_tag (has_neg U8) (tag_exprs vs)) eqn:E1; unfold any_tag in E1.
  { intro H; inversion H. split; [reflexivity|split; [reflexivity|]]. apply existsb_exists in E1. destruct E1 as [oe [I P]].
    exists oe. split; [exact I|]. destruct oe as [e|]; [|reflexivity]. apply has_neg_eval. exact P. }
  destruct (any_tag (has_big_lit U8) (tag_exprs vs)) eqn:E2; unfold any_tag in E2.
  { intro H; inversion H. split; [reflexivity|split; [reflexivity|]]. apply existsb_exists in E2. destruct E2 as [oe [I P]].
    exists oe. split; [exact I|]. destruct oe as [e|]; [|reflexivity]. apply has_big_lit_eval. exact P. }
  destruct (existsb tag_unevaluable (tag_exprs vs)) eqn:E3; [|discriminate].
  intro H; inversion H. split; [reflexivity|split; [reflexivity|]]. apply existsb_exists in E3. destruct E3 as [oe [I P]].
  exists oe. split; [exact I|]. destruct oe as [e|]; [|reflexivity]. simpl.
  apply eval_lax_none. simpl in P. destruct (eval true U8 e); [discriminate|reflexivity].
Qed.

Lemma rustc_tags_none it vs : rustc_tags it vs = None -> use_discriminant it = true ->
  forall oe, In oe (tag_exprs vs) -> exists e z, oe = Some e /\ eval true U8 e = Some z.
Proof.
  unfold rustc_tags. intros H U. rewrite U in H.
  destruct (any_tag (has_neg U8) (tag_exprs vs)); [discriminate|].
  destruct (any_tag (has_big_lit U8) (tag_exprs vs)); [discriminate|].
  destruct (existsb tag_unevaluable (tag_exprs vs)) eqn:E; [discriminate|].
  rewrite existsb_false in E. intros oe I. specialize (E oe I).
  destruct oe as [e|]; [|discriminate]. simpl in E.
  destruct (eval true U8 e) as [z|] eqn:Ev; [|discriminate]. exists e, z. auto.
Qed.

(** * Attributes on variants *)
Lemma variants_attr_err_some b c : variants_attr_err b = Some c ->
  c = CVariantAttr /\ exists vs v, b = BEnum vs /\ In v vs /\ v_attrs v <> [].
Proof.
  unfold variants_attr_err. destruct b as [fs|vs|fs]; try discriminate.
  intro H. apply first_err_some in H. destruct H as [v [I H]]. unfold variant_attr_err in H.
  destruct (v_attrs v) eqn:E; [discriminate|]. inversion H. split; [reflexivity|].
  exists vs, v. repeat split; auto. rewrite E. discriminate.
Qed.

Lemma variants_attr_err_none it : variants_attr_err (it_body it) = None ->
  forall v, In v (variants_of it) -> v_attrs v = [].
Proof.
  unfold variants_attr_err, variants_of. destruct (it_body it) as [fs|vs|fs]; intros H v I; try destruct I.
  rewrite first_err_none in H. specialize (H v I). unfold variant_attr_err in H.
  destruct (v_attrs v); [reflexivity|discriminate].
Qed.

(** * Soundness: every rejection belongs to a violated rule *)
Lemma setting_of_use it : item_metas it = first_attr (it_attrs it) ->
  use_discriminant it = true -> setting it = Some true.
Proof.
  unfold use_discriminant, setting. intros ->.
  destruct (use_discr_setting (first_attr (it_attrs it))) as [[|]|]; auto; discriminate.
Qed.
Lemma use_of_setting it : item_metas it = first_attr (it_attrs it) ->
  setting it = Some true -> use_discriminant it = true.
Proof. unfold use_discriminant, setting. intros -> ->. reflexivity. Qed.

Lemma r_discr_fit_true it vs oe : it_body it = BEnum vs -> discrs_canonical it = true ->
  setting it = Some true -> In oe (tag_exprs vs) -> obind oe (eval false U8) = None ->
  r_discr_fit it = true.
Proof.
  intros B C S I E. unfold r_discr_fit. rewrite S. unfold variants_of. rewrite B. cbv zeta.
  apply existsb_exists. destruct (In_nth _ _ None I) as [i [L N]]. exists i. split.
  - apply in_seq. rewrite map_length. rewrite tag_exprs_length in L. lia.
  - unfold tag_doc. rewrite (nth_rust8 vs i (canonical_variants it vs B C)). rewrite N, E. reflexivity.
Qed.

Lemma check_res_sound k it c : discrs_canonical it = true -> check_res k it = Some c ->
  rule_bool k it (rule_of_class c) = true.
Proof.
  intros C H. unfold check_res in H.
  apply andthen_some in H. destruct H as [H|[CA H]].
  { unfold check_attributes in H. apply andthen_some in H. destruct H as [H|[G H]].
    - apply get_one_some in H. destruct H as [-> H]. simpl. unfold r_repeated. rewrite H. reflexivity.
    - pose proof (get_one_none _ G) as [_ G'].
      apply andthen_some in H. destruct H as [H|[_ H]].
      + apply variants_attr_err_some in H. destruct H as [-> [vs [v [B [I N]]]]]. simpl.
        unfold r_unknown. apply orb_true_iff. right. unfold variants_of. rewrite B.
        apply existsb_exists. exists v. split; [exact I|]. destruct (v_attrs v); [contradiction|reflexivity].
      + unfold check_item_metas in H. apply (keyed_err_some _ _ _ _ item_key_eqb_sym) in H.
        destruct H as [[m [I H]]|[-> [H|[m [_ H]]]]]; try discriminate.
        * apply (item_meta_viol_rule k it m); [unfold item_metas; rewrite G'; exact I|].
          apply check_item_meta_some. destruct H as [H|H]; [|exact H].
          apply item_unknown_err_some. exact H.
        * simpl. unfold r_repeated_key. apply orb_true_iff. left. apply orb_true_iff. left.
          rewrite (one_attr_dup _ _ _ G). exact H. }
  unfold check_attributes in CA. apply andthen_none in CA. destruct CA as [G CA].
  apply get_one_none in G. destruct G as [G1 G].
  assert (IM : item_metas it = first_attr (it_attrs it)) by exact G. clear G.
  apply andthen_some in H. destruct H as [H|[GC H]].
  { unfold get_crate in H. apply first_err_some in H. destruct H as [m [I H]].
    apply (item_meta_viol_rule k it m); [rewrite IM; exact I|].
    apply get_crate_meta_some. exact H. }
  assert (INIT : forall c, contains_initialize_with it = Some c -> rule_bool DDe it (rule_of_class c) = true).
  { intros c' H'. unfold contains_initialize_with in H'. apply first_err_some in H'. destruct H' as [m [I H']].
    apply (item_meta_viol_rule DDe it m); [rewrite IM; exact I|].
    apply init_meta_some. exact H'. }
  assert (FLD : forall f c, In f (all_fields it) -> field_attrs_err (f_attrs f) = Some c ->
                            rule_bool k it (rule_of_class c) = true).
  { intros f c' I H'. apply (field_viol_rule k it f); [exact I|]. apply field_err_some. exact H'. }
  destruct (it_body it) as [fs|vs|fs] eqn:B.
  - (* struct *)
    apply andthen_some in H. destruct H as [H|[_ H]].
    + unfold fields_err in H. apply first_err_some in H. destruct H as [f [I H]].
      apply (FLD f); [|exact H]. unfold all_fields. rewrite B. exact I.
    + destruct k; try discriminate. apply INIT. exact H.
  - (* enum *)
    assert (TM : 256 < length vs -> r_too_many it = true).
    { intro L. unfold r_too_many, variants_of. rewrite B. apply Nat.ltb_lt. exact L. }
    apply andthen_some in H. destruct H as [H|[CU H]].
    { unfold contains_use_discriminant in H.
      apply andthen_some in H. destruct H as [H|[_ H]].
      { destruct (Nat.ltb 256 (length vs)) eqn:L; [|discriminate]. inversion H. simpl.
        apply TM. apply Nat.ltb_lt. exact L. }
      apply andthen_some in H. destruct H as [H|[UM H]].
      { apply first_err_some in H. destruct H as [m [I H]].
        apply (item_meta_viol_rule k it m); [rewrite IM; exact I|].
        apply use_discr_meta_some. exact H. }
      destruct (has_explicit vs) eqn:HE; [|discriminate]. simpl in H.
      destruct (use_discr_setting (first_attr (it_attrs it))) as [b|] eqn:US; [discriminate|].
      inversion H. simpl. unfold r_discr_no_setting, variants_of. rewrite B, HE. simpl.
      apply negb_true_iff. apply existsb_false. intros m I. rewrite IM in I.
      destruct (is_use_discr m) eqn:U; [|reflexivity].
      rewrite first_err_none in UM.
      pose proof (use_discr_meta_none_setting m (UM m I) U) as S1.
      rewrite use_discr_setting_eq in US. apply setting_fold_none in US. destruct US as [_ US].
      rewrite (US m I) in S1. discriminate. }
    apply andthen_some in H. destruct H as [H|[_ H]].
    { apply variants_err_some in H. destruct H as [[-> L]|[v [I H]]].
      - simpl. apply TM. lia.
      - unfold fields_err in H. apply first_err_some in H. destruct H as [f [I' H]].
        apply (FLD f); [|exact H]. unfold all_fields. rewrite B. apply in_flat_map. exists v. auto. }
    apply andthen_some in H. destruct H as [H|[_ H]].
    { destruct k; try discriminate. apply INIT. exact H. }
    apply rustc_tags_some in H. destruct H as [U [R [oe [I E]]]]. rewrite R. simpl.
    apply (r_discr_fit_true it vs oe B C (setting_of_use it IM U) I E).
  - (* union *)
    inversion H. simpl. unfold r_union. rewrite B. reflexivity.
Qed.

Theorem reject_class_violated : forall k it c,
  discrs_canonical it = true -> check k it = reject c -> In (rule_of_class c) (violations k it).
Proof.
  intros k it c C H. unfold check in H. destruct (check_res k it) as [c'|] eqn:E; [|discriminate].
  inversion H. subst c'. apply in_violations. apply check_res_sound; assumption.
Qed.

(** * Completeness outside the classes F11, F12 *)
Lemma item_meta_none k b m :
  check_item_meta b m = None -> get_crate_meta m = None -> (k = DDe -> init_meta m = None) ->
  im_unknown m = false /\ im_undoc k m = false /\ (is_struct b = true -> is_use_discr m = false).
Proof.
  destruct m as [key val].
  unfold check_item_meta, get_crate_meta, init_meta, im_unknown, im_undoc, is_use_discr, value_expr.
  simpl. intros H1 H2 H3.
  destruct (is_struct b); destruct key; try discriminate;
    destruct val as [| | | |s [|]|]; try discriminate;
    destruct k; try (specialize (H3 eq_refl)); try discriminate;
    repeat split; try reflexivity; intro; discriminate.
Qed.

Lemma udv_none m : use_discr_meta m = None -> im_udv m = false.
Proof.
  destruct m as [key val]. unfold use_discr_meta, im_udv, is_use_discr. simpl.
  destruct key; try reflexivity. destruct val; try discriminate; reflexivity.
Qed.

Definition facts (k : derive_kind) (it : item) : Prop :=
  r_union it = false /\
  Nat.ltb 1 (length (it_attrs it)) = false /\
  (forall m, In m (item_metas it) ->
     im_unknown m = false /\ im_undoc k m = false /\ im_udv m = false /\
     (is_struct (it_body it) = true -> is_use_discr m = false)) /\
  (forall f, In f (all_fields it) -> field_attrs_err (f_attrs f) = None) /\
  (forall v, In v (variants_of it) -> v_attrs v = []) /\
  r_too_many it = false /\ r_discr_no_setting it = false /\
  (discrs_canonical it = true -> implicit_overflow it = false -> type_dependent_discr it = false ->
   r_discr_fit it = false) /\
  existsb (fun a => has_dup item_key_eqb (map im_key a)) (it_attrs it) = false.

Lemma r_discr_fit_false it vs : it_body it = BEnum vs -> discrs_canonical it = true ->
  item_metas it = first_attr (it_attrs it) ->
  implicit_overflow it = false -> type_dependent_discr it = false ->
  rustc_tags it vs = None -> r_discr_fit it = false.
Proof.
  intros B C IM IO TD RT. unfold r_discr_fit.
  destruct (setting it) as [[|]|] eqn:S; try reflexivity.
  unfold variants_of. rewrite B. cbv zeta. apply existsb_false. intros i I.
  apply in_seq in I. rewrite map_length in I.
  pose proof (use_of_setting it IM S) as U.
  assert (L : i < length (tag_exprs vs)) by (rewrite tag_exprs_length; lia).
  pose proof (nth_In (tag_exprs vs) None L) as IN.
  destruct (rustc_tags_none it vs RT U _ IN) as [e [z [N Ev]]].
  (* no implicit overflow: the strict evaluation succeeds too *)
  unfold implicit_overflow in IO. rewrite S in IO. unfold variants_of in IO. rewrite B in IO.
  rewrite existsb_false in IO. specialize (IO _ IN). rewrite N in IO. rewrite Ev in IO.
  destruct (eval false U8 e) as [z'|] eqn:Es; [|discriminate].
  pose proof (nth_rust8 vs i (canonical_variants it vs B C)) as R8. rewrite N in R8. simpl in R8.
  rewrite Es in R8.
  (* stable discriminants: the same value at isize *)
  unfold type_dependent_discr in TD. rewrite S in TD. unfold variants_of in TD. rewrite B in TD.
  rewrite existsb_false in TD.
  assert (ST : forallb (fun d => match d with Some e => stable e | None => true end) (map v_discr vs) = true).
  { rewrite forallb_map. apply forallb_forall. intros v Iv. specialize (TD v Iv).
    destruct (v_discr v); [|reflexivity]. apply negb_false_iff. exact TD. }
  pose proof (rust_discrs_agree _ ST i z' R8) as RI.
  unfold tag_doc. rewrite R8, RI, Z.eqb_refl. reflexivity.
Qed.

(** everything but the discriminant-fit rule needs no hypothesis on the item *)
Lemma check_facts k it : check_res k it = None -> facts k it.
Proof.
  intros H. unfold check_res in H.
  apply andthen_none in H. destruct H as [CA H].
  unfold check_attributes in CA. apply andthen_none in CA. destruct CA as [G0 CA].
  pose proof (get_one_none _ G0) as [G1 G].
  assert (IM : item_metas it = first_attr (it_attrs it)) by exact G. clear G.
  apply andthen_none in CA. destruct CA as [VAE CA].
  pose proof (variants_attr_err_none it VAE) as VAE'. clear VAE. rename VAE' into VAE.
  unfold check_item_metas in CA. apply (keyed_err_none _ _ _ _ item_key_eqb_sym) in CA.
  destruct CA as [CA0 DUP]. rewrite <- (one_attr_dup _ _ _ G0) in DUP.
  assert (CA : forall m, In m (first_attr (it_attrs it)) -> check_item_meta (it_body it) m = None)
    by (intros m I; apply (CA0 m I)).
  clear CA0.
  apply andthen_none in H. destruct H as [GC H]. unfold get_crate in GC. rewrite first_err_none in GC.
  assert (INIT : match it_body it with BUnion _ => False | _ => True end ->
                 (match k with DDe => contains_initialize_with it | _ => None end) = None ->
                 forall m, In m (item_metas it) -> k = DDe -> init_meta m = None).
  { intros _ H' m I ->. unfold contains_initialize_with in H'. rewrite first_err_none in H'.
    apply H'. rewrite <- IM. exact I. }
  unfold facts.
  destruct (it_body it) as [fs|vs|fs] eqn:B.
  - (* struct *)
    apply andthen_none in H. destruct H as [FE IN]. specialize (INIT I IN).
    split; [unfold r_union; rewrite B; reflexivity|].
    split; [exact G1|].
    split.
    { intros m I. pose proof I as I'. rewrite IM in I'.
      destruct (item_meta_none k (BStruct fs) m (CA m I') (GC m I') (INIT m I)) as [A1 [A2 A3]].
      repeat split; auto.
      unfold im_udv. rewrite (A3 eq_refl). reflexivity. }
    split.
    { unfold all_fields. rewrite B. unfold fields_err in FE. rewrite first_err_none in FE. exact FE. }
    split; [exact VAE|].
    split; [unfold r_too_many, variants_of; rewrite B; reflexivity|].
    split; [unfold r_discr_no_setting, variants_of; rewrite B; reflexivity|].
    split; [|exact DUP].
    intros _ _ _. unfold r_discr_fit, variants_of. rewrite B. destruct (setting it) as [[|]|]; reflexivity.
  - (* enum *)
    apply andthen_none in H. destruct H as [CU H].
    apply andthen_none in H. destruct H as [VE H].
    apply andthen_none in H. destruct H as [IN RT]. specialize (INIT I IN).
    unfold contains_use_discriminant in CU.
    apply andthen_none in CU. destruct CU as [L CU].
    apply andthen_none in CU. destruct CU as [UM NS]. rewrite first_err_none in UM.
    split; [unfold r_union; rewrite B; reflexivity|].
    split; [exact G1|].
    split.
    { intros m I. pose proof I as I'. rewrite IM in I'.
      destruct (item_meta_none k (BEnum vs) m (CA m I') (GC m I') (INIT m I)) as [A1 [A2 A3]].
      repeat split; auto. apply udv_none. apply UM. exact I'. }
    split.
    { unfold all_fields. rewrite B. intros f I. apply in_flat_map in I. destruct I as [v [Iv I]].
      pose proof (variants_err_none k vs 0 VE v Iv) as FE.
      unfold fields_err in FE. rewrite first_err_none in FE. apply FE. exact I. }
    split; [exact VAE|].
    split.
    { unfold r_too_many, variants_of. rewrite B.
      destruct (Nat.ltb 256 (length vs)); [discriminate|reflexivity]. }
    split.
    { unfold r_discr_no_setting, variants_of. rewrite B.
      destruct (has_explicit vs); [|reflexivity]. simpl in NS |- *.
      apply negb_false_iff.
      destruct (existsb is_use_discr (item_metas it)) eqn:E; [reflexivity|].
      rewrite existsb_false in E. rewrite IM in E.
      rewrite use_discr_setting_eq in NS.
      rewrite setting_fold_noop in NS; [discriminate|].
      intros m I. specialize (E m I). destruct m as [key val]. unfold is_use_discr in E. unfold is_setting.
      simpl in *. destruct key; try discriminate; reflexivity. }
    split; [|exact DUP].
    intros C IO TD. apply (r_discr_fit_false it vs B C IM IO TD RT).
  - discriminate.
Qed.

Lemma rule_eq_fit (r : rule) : r = RDiscrFit \/ r <> RDiscrFit.
Proof. destruct r; (left; reflexivity) || (right; discriminate). Qed.

Lemma facts_rules k it : facts k it -> forall r, r <> RDiscrFit -> rule_bool k it r = false.
Proof.
  intros [NU [G1 [IMF [FA [VA [TM [NS [_ DUP]]]]]]]] r NR.
  assert (FF : forall f, In f (all_fields it) ->
                fr_repeated f = false /\ fr_unknown f = false /\ fr_undoc f = false /\ fr_skip f = false /\
                fr_repeated_key f = false).
  { intros f I. apply field_err_none. apply FA. exact I. }
  destruct r; simpl.
  - exact NS.
  - unfold r_use_discr_struct. destruct (is_struct (it_body it)) eqn:S; [|reflexivity]. simpl.
    apply existsb_false. intros m I. apply (IMF m I). reflexivity.
  - unfold r_use_discr_value. apply existsb_false. intros m I. apply (IMF m I).
  - contradiction.
  - exact TM.
  - unfold r_skip_conflict. apply existsb_false. intros f I. apply (FF f I).
  - unfold r_unknown. apply orb_false_iff. split; [apply orb_false_iff; split|].
    + apply existsb_false. intros m I. apply (IMF m I).
    + apply existsb_false. intros f I. apply (FF f I).
    + apply existsb_false. intros v I. rewrite (VA v I). reflexivity.
  - unfold r_repeated. apply orb_false_iff. split; [apply orb_false_iff; split|].
    + exact G1.
    + apply existsb_false. intros f I. apply (FF f I).
    + apply existsb_false. intros v I. rewrite (VA v I). reflexivity.
  - unfold r_repeated_key. apply orb_false_iff. split; [apply orb_false_iff; split|].
    + exact DUP.
    + apply existsb_false. intros f I. apply (FF f I).
    + apply existsb_false. intros v I. rewrite (VA v I). reflexivity.
  - exact NU.
  - unfold r_undocumented. apply orb_false_iff. split.
    + apply existsb_false. intros m I. apply (IMF m I).
    + apply existsb_false. intros f I. apply (FF f I).
Qed.

(** an accepted item violates no rule, except possibly the discriminant-fit rule (F11, F12);
    no hypothesis on the item *)
Lemma violations_in k it r : In r (violations k it) -> rule_bool k it r = true.
Proof.
  intro I. unfold violations in I. apply in_map_iff in I. destruct I as [[r' b] [E I]].
  apply filter_In in I. destruct I as [I B]. simpl in E, B. subst r' b.
  unfold rules in I. simpl in I.
  repeat (destruct I as [I|I]; [injection I as <- I; exact I|]). destruct I.
Qed.

Theorem accept_only_fit : forall k it r,
  check k it = accept -> In r (violations k it) -> r = RDiscrFit.
Proof.
  intros k it r H I. unfold check in H. destruct (check_res k it) eqn:E; [discriminate|].
  apply violations_in in I.
  destruct (rule_eq_fit r) as [->|NR]; [reflexivity|].
  rewrite (facts_rules k it (check_facts k it E) r NR) in I. discriminate.
Qed.

(** a key written twice in one attribute is refused by all three derives, whatever else the item holds *)
Theorem repeated_key_rejected : forall k it,
  r_repeated_key it = true -> exists c, check k it = reject c.
Proof.
  intros k it R. unfold check. destruct (check_res k it) as [c|] eqn:E; [exists c; reflexivity|].
  pose proof (facts_rules k it (check_facts k it E) RRepeatedKey ltac:(discriminate)) as F.
  simpl in F. rewrite F in R. discriminate.
Qed.

Theorem reject_iff_violates : forall k it,
  discrs_canonical it = true ->
  implicit_overflow it = false -> type_dependent_discr it = false ->
  ((exists c, check k it = reject c) <-> violates k it <> None).
Proof.
  intros k it C IO TD. split.
  - intros [c H]. pose proof (reject_class_violated k it c C H) as I. unfold violates.
    destruct (violations k it); [destruct I|discriminate].
  - intro V. unfold check. destruct (check_res k it) as [c|] eqn:E; [exists c; reflexivity|].
    exfalso. apply V. unfold violates.
    pose proof (check_facts k it E) as F.
    assert (DF : r_discr_fit it = false) by (apply F; assumption).
    rewrite (no_violations k it); [reflexivity|].
    intro r. destruct (rule_eq_fit r) as [->|NR]; [exact DF|]. apply (facts_rules k it F r NR).
Qed.

(** * The full-strength statement fails on three classes *)
(** [forall k it, (exists c, check k it = reject c) <-> violates k it <> None] is false:
    F11 (implicit discriminant overflow in the macro-written [+ 1]) and F12 (type-dependent
    discriminant expression).  (F7, variant attributes ignored, is repaired: [CVariantAttr].) *)
Local Open Scope string_scope.
Definition L (n : N) : expr := ELit User n.
Definition U8t : ty := TPrim (PInt false W1).
Definition mkv (n : string) (d : option expr) (fs : fields) : variant :=
  {| v_name := n; v_attrs := []; v_discr := d; v_fields := fs |}.
Definition mkva (n : string) (a : attrs string) (d : option expr) (fs : fields) : variant :=
  {| v_name := n; v_attrs := a; v_discr := d; v_fields := fs |}.
Definition mkf (n : string) (a : attrs field_meta) (t : ty) : field :=
  {| f_name := n; f_attrs := a; f_ty := t |}.
Definition im (key : item_key) (v : meta_val) : item_meta := {| im_key := key; im_val := v |}.
Definition ud (b : bool) : attrs item_meta := [[im IKUseDiscriminant (if b then MVTrue else MVFalse)]].
Definition mki (n : string) (a : attrs item_meta) (b : body) : item :=
  {| it_name := n; it_attrs := a; it_body := b |}.

(** [enum V { #[borsh(skip)] A, #[borsh(bogus = 3)] B(u8) }] *)
Definition X_variant_attr : item :=
  mki "V" [] (BEnum [mkva "A" [["skip"]] None FUnit; mkva "B" [["bogus"]] None (FTuple [mkf "0" [] U8t])]).
(** [#[borsh(use_discriminant = true)] enum E { A = 255, B }] *)
Definition W_F11 : item := mki "E" (ud true) (BEnum [mkv "A" (Some (L 255)) FUnit; mkv "B" None FUnit]).
(** [#[borsh(use_discriminant = true)] enum E { A = !0 }] *)
Definition W_F12 : item := mki "E" (ud true) (BEnum [mkv "A" (Some (EUn Not (L 0))) FUnit]).

Definition refuted : Prop :=
  exists k it, discrs_canonical it = true /\ check k it = accept /\ violates k it <> None.

Theorem exact_refuted_F11 : refuted.
Proof. exists DSer, W_F11. vm_compute. repeat split; discriminate. Qed.
Theorem exact_refuted_F12 : refuted.
Proof. exists DSer, W_F12. vm_compute. repeat split; discriminate. Qed.

(** * Example items (used in Properties/C18.v) *)
(** [struct S { #[borsh(skip)] a: u8, #[borsh(serialize_with = "f")] b: u8, c: u8 }] *)
Definition X_struct : item :=
  mki "S" [] (BStruct (FNamed [mkf "a" [[FSkip]] U8t; mkf "b" [[FSerializeWith "f" U8t]] U8t; mkf "c" [] U8t])).
(** [#[borsh(use_discriminant = true)] enum E { A = 1 | 2, B(#[borsh(skip)] u8, u8), C = 2 + 3 * 2 }] *)
Definition X_enum : item :=
  mki "E" (ud true)
    (BEnum [mkv "A" (Some (EBin User BitOr (L 1) (L 2))) FUnit;
            mkv "B" None (FTuple [mkf "0" [[FSkip]] U8t; mkf "1" [] U8t]);
            mkv "C" (Some (EBin User Add (L 2) (EBin User Mul (L 3) (L 2)))) FUnit]).
Definition hyps (it : item) : bool :=
  discrs_canonical it && negb (implicit_overflow it) && negb (type_dependent_discr it).

Definition unit_struct (a : attrs item_meta) : item := mki "S" a (BStruct FUnit).
Definition one_field (a : attrs field_meta) : item := mki "S" [] (BStruct (FNamed [mkf "a" a U8t])).
Definition one_variant (a : attrs item_meta) (e : expr) : item := mki "E" a (BEnum [mkv "A" (Some e) FUnit]).

Definition X_multiple : item := unit_struct [[im IKCrate (MVStr "b" true)]; [im IKInit (MVPath "f")]].
(** [#[borsh(crate = "b", crate = "b")] struct S;] *)
Definition X_repeated_item : item := unit_struct [[im IKCrate (MVStr "b" true); im IKCrate (MVStr "b" true)]].
(** [#[borsh(use_discriminant = true, use_discriminant = false)] enum E { A = 3 }] *)
Definition X_repeated_ud : item :=
  one_variant [[im IKUseDiscriminant MVTrue; im IKUseDiscriminant MVFalse]] (L 3).
(** [struct S { #[borsh(skip, skip)] a: u8 }], [.. #[borsh(serialize_with = "f", bound(..), serialize_with = "g")] ..] *)
Definition X_repeated_skip : item := one_field [[FSkip; FSkip]].
Definition X_repeated_with : item :=
  one_field [[FSerializeWith "f" U8t; FBound true false; FSerializeWith "g" U8t]].
(** [#[borsh(skip, schema(params = ".."), schema(params = ".."))]: the repetition is reported before the skip conflict *)
Definition X_repeated_schema : item := one_field [[FSkip; FSchema true None; FSchema true None]].
Definition X_unknown_item : item := unit_struct [[im (IKOther "foo") MVNone]].
Definition X_ud_struct : item := unit_struct (ud true).
Definition X_ud_value : item := one_variant [[im IKUseDiscriminant MVOther]] (L 1).
Definition X_malformed : item := unit_struct [[im IKCrate MVNone]].
Definition X_too_many : item := mki "E" [] (BEnum (repeat (mkv "A" None FUnit) 257)).
Definition X_no_setting : item := one_variant [] (L 3).
Definition X_skip_with : item := one_field [[FSkip; FSerializeWith "f" U8t]].
Definition X_skip_schema : item := one_field [[FSkip; FSchema true None]].
Definition X_unknown_field : item := one_field [[FOther "x"]].
Definition X_with_funcs : item := one_field [[FSchema false (Some (true, false))]].
Definition X_union : item := mki "U" [] (BUnion []).
Definition X_tag_type : item := one_variant (ud true) (EUn Neg (L 1)).
Definition X_tag_literal : item := one_variant (ud true) (L 300).
Definition X_tag_arith : item := one_variant (ud true) (EBin User Add (L 200) (L 100)).

(** rejected with class [c], and the first violated rule is the one [c] belongs to *)
Definition rejected_as (k : derive_kind) (it : item) (c : reject_class) : Prop :=
  check k it = reject c /\ violates k it = Some (rule_of_class c).
