(** Name coherence and coverage.

    [coherent t]: in the full unfolding of [t] ([calls t]) a declaration string is paired with
    ONE definition only.  This is what [add_definition]'s [assert_eq!] is meant to enforce; because
    of the derive's [no_recursion_flag] it does not (F13), so it is a hypothesis here.

    Under it, the container [schema_of t] generates holds every call of [calls t]
    ([schema_of_covers]).  The proof never looks at the traversal order: it only uses that the
    container is closed, that each of its entries is one of the calls ([schema_of_closed]), and
    that the calls are functional. *)
From Coq Require Import String Ascii List NArith ZArith Bool Lia.
From Borsh Require Import Bytes BytesFacts Result LoopFacts Ty TyInd Schema SchemaFns SchemaOf SchemaOfFacts.
Import ListNotations.
Local Open Scope N_scope.
Local Open Scope string_scope.
Local Open Scope list_scope.

Definition functional (C : list (string * definition)) : Prop :=
  forall d e1 e2, In (d, e1) C -> In (d, e2) C -> e1 = e2.

Fixpoint functional_b (C : list (string * definition)) : bool :=
  match C with
  | [] => true
  | (d, e) :: r =>
      forallb (fun p => negb (String.eqb (fst p) d) || definition_eqb (snd p) e) r && functional_b r
  end.

Lemma functional_b_ok C : functional_b C = true -> functional C.
Proof.
  induction C as [|[d e] r IH]; intros H; [intros ? ? ? []|].
  cbn [functional_b] in H. apply andb_true_iff in H. destruct H as [H1 H2]. specialize (IH H2).
  rewrite forallb_forall in H1.
  assert (Hhd : forall e', In (d, e') r -> e' = e).
  { intros e' Hin. specialize (H1 _ Hin). cbn [fst snd] in H1. rewrite String.eqb_refl in H1. cbn in H1.
    now apply definition_eqb_eq. }
  intros d0 e1 e2 [E1|I1] [E2|I2].
  - congruence.
  - inversion E1; subst. symmetry. now apply Hhd.
  - inversion E2; subst. now apply Hhd.
  - eapply IH; eauto.
Qed.

Definition coherent (t : ty) : bool := functional_b (calls t).

(** * keep / mk_fields *)
Lemma keep_length {A B} (sk : list bool) (a : list A) (b : list B) :
  length a = length b -> length (keep sk a) = length (keep sk b).
Proof.
  revert sk b; induction a as [|x a IH]; intros sk [|y b] H; try discriminate; [reflexivity|].
  cbn [length] in H. cbn [keep]. destruct sk as [|[|] sr]; cbn [length]; auto.
Qed.
Lemma map_snd_combine {A B} (a : list A) (b : list B) : length a = length b -> map snd (combine a b) = b.
Proof. revert b; induction a as [|x a IH]; intros [|y b] H; try discriminate; [reflexivity|]. cbn. f_equal. auto. Qed.
Lemma map_fst_combine {A B} (a : list A) (b : list B) : length a = length b -> map fst (combine a b) = a.
Proof. revert b; induction a as [|x a IH]; intros [|y b] H; try discriminate; [reflexivity|]. cbn. f_equal. auto. Qed.
Lemma keep_map {A B} (f : A -> B) sk l : keep sk (map f l) = map f (keep sk l).
Proof. revert sk; induction l as [|x l IH]; intros sk; [reflexivity|]. cbn [map keep]. destruct sk as [|[|] sr]; cbn [map]; now rewrite ?IH. Qed.

Lemma field_decls_mk_eq fn sk ds :
  names_ok fn (length ds) = true -> field_decls (mk_fields fn sk ds) = keep sk ds.
Proof.
  intros Hn. unfold mk_fields. destruct (keep sk ds) as [|x r] eqn:E; [reflexivity|].
  destruct fn as [|f fr]; [reflexivity|]. cbn [field_decls]. rewrite <- E.
  apply map_snd_combine. apply keep_length. unfold names_ok in Hn. now apply Nat.eqb_eq in Hn.
Qed.

(** * Coverage *)
Section Cover.
  Variable ds : defmap.
  Variable CT : list (string * definition).
  Hypothesis Hclosed : closed_defs ds.
  Hypothesis Hprov : forall d def, lookup ds d = Some def -> In (d, def) CT.
  Hypothesis Hfun : functional CT.

  Definition cov (C : list (string * definition)) : Prop :=
    forall d def, In (d, def) C -> lookup ds d = Some def.

  Lemma cov_nil : cov [].
  Proof. intros ? ? []. Qed.
  Lemma cov_cons d D C : lookup ds d = Some D -> cov C -> cov ((d, D) :: C).
  Proof. intros H HC d0 e [E|I]; [inversion E; subst; exact H|now apply HC]. Qed.
  Lemma cov_app C1 C2 : cov C1 -> cov C2 -> cov (C1 ++ C2).
  Proof. intros H1 H2 d e I. apply in_app_or in I. destruct I; auto. Qed.

  Lemma cover_node d D : In (d, D) CT -> defined ds d -> lookup ds d = Some D.
  Proof.
    intros Hin Hd. unfold defined in Hd. destruct (lookup ds d) as [e|] eqn:E; [|congruence].
    f_equal. exact (Hfun d e D (Hprov _ _ E) Hin).
  Qed.
  Lemma cover_kid d D m : lookup ds d = Some D -> In m (members D) -> defined ds m.
  Proof. intros H Hm. exact (Hclosed d D H m Hm). Qed.

  Definition coverP (t : ty) : Prop :=
    has_schema t = true -> incl (calls t) CT -> defined ds (decl_of t) -> cov (calls t).
  Definition coverQ (t : ty) : Prop :=
    coverP t /\ (forall fn sk ts, t = TProd (PVariant fn sk) ts -> Forall coverP ts).

  Lemma coverQ_fst l : Forall coverQ l -> Forall coverP l.
  Proof. apply Forall_impl. intros x [H _]. exact H. Qed.

  Lemma incl_cons_l {A} (x : A) l m : incl (x :: l) m -> In x m /\ incl l m.
  Proof. intros H. split; [apply H; now left|intros y Hy; apply H; now right]. Qed.
  Lemma incl_app_l {A} (l1 l2 m : list A) : incl (l1 ++ l2) m -> incl l1 m /\ incl l2 m.
  Proof. intros H. split; intros y Hy; apply H; apply in_or_app; auto. Qed.

  Lemma cov_each ts : Forall coverP ts -> forallb (fun x => has_schema x) ts = true ->
    incl (flat_map (fun x => calls x) ts) CT -> (forall t, In t ts -> defined ds (decl_of t)) ->
    cov (flat_map (fun x => calls x) ts).
  Proof.
    induction 1 as [|t tr Ht Htr IH]; intros Hs Hi Hd; cbn [flat_map] in *; [apply cov_nil|].
    cbn [forallb] in Hs. apply andb_true_iff in Hs. destruct Hs as [Hs1 Hs2].
    apply incl_app_l in Hi. destruct Hi as [Hi1 Hi2].
    apply cov_app; [apply Ht; auto; apply Hd; now left|apply IH; auto; intros t0 H0; apply Hd; now right].
  Qed.

  Lemma cov_fields ts : Forall coverP ts -> forall sk,
    fields_all (fun x => has_schema x) ts sk = true ->
    incl (calls_fields (fun x => calls x) ts sk) CT ->
    (forall m, In m (keep sk (map (fun x => decl_of x) ts)) -> defined ds m) ->
    cov (calls_fields (fun x => calls x) ts sk).
  Proof.
    induction 1 as [|t tr Ht Htr IH]; intros sk Hs Hi Hd; cbn [calls_fields fields_all map keep] in *; [apply cov_nil|].
    assert (Hkeep : forall sr, fields_all (fun x => has_schema x) (t :: tr) (false :: sr) = true ->
              incl (calls t ++ calls_fields (fun x => calls x) tr sr) CT ->
              (forall m, In m (decl_of t :: keep sr (map (fun x => decl_of x) tr)) -> defined ds m) ->
              cov (calls t ++ calls_fields (fun x => calls x) tr sr)).
    { intros sr Hs' Hi' Hd'. cbn [fields_all] in Hs'. apply andb_true_iff in Hs'. destruct Hs' as [Hs1 Hs2].
      apply incl_app_l in Hi'. destruct Hi' as [Hi1 Hi2].
      apply cov_app; [apply Ht; auto; apply Hd'; now left|apply IH; auto; intros m Hm; apply Hd'; now right]. }
    destruct sk as [|[|] sr].
    - apply (Hkeep []); assumption.
    - now apply IH.
    - now apply Hkeep.
  Qed.

  Lemma cov_ip n : incl (ip_calls n) CT -> defined ds (ip_decl n) -> cov (ip_calls n).
  Proof.
    unfold ip_calls. intros Hi Hd.
    apply incl_cons_l in Hi. destruct Hi as [I1 Hi]. apply incl_cons_l in Hi. destruct Hi as [I2 Hi].
    apply incl_cons_l in Hi. destruct Hi as [I3 _].
    pose proof (cover_node _ _ I1 Hd) as L1.
    assert (D2 : defined ds (octets_decl n)) by (eapply cover_kid; [exact L1|now left]).
    pose proof (cover_node _ _ I2 D2) as L2.
    assert (D3 : defined ds "u8") by (eapply cover_kid; [exact L2|now left]).
    pose proof (cover_node _ _ I3 D3) as L3.
    apply cov_cons; [exact L1|]. apply cov_cons; [exact L2|]. apply cov_cons; [exact L3|apply cov_nil].
  Qed.

  (** a derived struct / an enum variant's inner struct *)
  Lemma cov_struct name fn sk ts :
    Forall coverP ts ->
    names_ok fn (length ts) = true -> fields_all (fun x => has_schema x) ts sk = true ->
    incl ((name, Struct (mk_fields fn sk (map (fun x => decl_of x) ts))) :: calls_fields (fun x => calls x) ts sk) CT ->
    defined ds name ->
    cov ((name, Struct (mk_fields fn sk (map (fun x => decl_of x) ts))) :: calls_fields (fun x => calls x) ts sk).
  Proof.
    intros Hts Hn Hs Hi Hd. apply incl_cons_l in Hi. destruct Hi as [I1 Hi].
    pose proof (cover_node _ _ I1 Hd) as L1. apply cov_cons; [exact L1|].
    apply cov_fields; auto. intros m Hm. eapply cover_kid; [exact L1|].
    cbn [members]. rewrite field_decls_mk_eq by (now rewrite map_length). exact Hm.
  Qed.

  Theorem coverQ_all : forall t, coverQ t.
  Proof.
    induction t as [p|u|k|k|k t' IH|n t' IH|k ts IH|k vs IH|w t' IH] using ty_ind';
      (split; [intros Hs Hi Hd|try (intros ? ? ? E; discriminate E)]);
      try (destruct IH as [IH _]).
    - (* prim *)
      cbn [calls decl_of] in *. apply incl_cons_l in Hi. destruct Hi as [I1 _].
      apply cov_cons; [now apply cover_node|apply cov_nil].
    - (* unit *)
      destruct u; cbn [calls decl_of] in *; apply incl_cons_l in Hi; destruct Hi as [I1 _];
        (apply cov_cons; [now apply cover_node|apply cov_nil]).
    - (* raw *)
      destruct k; cbn [has_schema] in Hs; try discriminate; cbn [calls decl_of] in *; now apply cov_ip.
    - (* text *)
      destruct k; cbn [has_schema] in Hs; try discriminate; cbn [calls decl_of] in *;
        (apply incl_cons_l in Hi; destruct Hi as [I1 Hi]; apply incl_cons_l in Hi; destruct Hi as [I2 _];
         pose proof (cover_node _ _ I1 Hd) as L1;
         apply cov_cons; [exact L1|]; apply cov_cons; [|apply cov_nil];
         apply (cover_node _ _ I2); eapply cover_kid; [exact L1|now left]).
    - (* seq *)
      cbn [has_schema] in Hs. apply andb_true_iff in Hs. destruct Hs as [Hs _].
      apply andb_true_iff in Hs. destruct Hs as [_ Hs'].
      cbn [calls] in *. apply incl_cons_l in Hi. destruct Hi as [I1 Hi].
      pose proof (cover_node _ _ I1 Hd) as L1. apply cov_cons; [exact L1|].
      apply IH; auto. eapply cover_kid; [exact L1|now left].
    - (* array *)
      cbn [has_schema] in Hs. cbn [calls] in *. apply incl_cons_l in Hi. destruct Hi as [I1 Hi].
      pose proof (cover_node _ _ I1 Hd) as L1. apply cov_cons; [exact L1|].
      apply IH; auto. eapply cover_kid; [exact L1|now left].
    - (* prod *)
      apply coverQ_fst in IH.
      destruct k as [|r| | |name fn sk|fn sk]; cbn [has_schema] in Hs; try discriminate.
      + (* tuple *)
        apply andb_true_iff in Hs. destruct Hs as [_ Hs].
        cbn [calls] in *. apply incl_cons_l in Hi. destruct Hi as [I1 Hi].
        pose proof (cover_node _ _ I1 Hd) as L1. apply cov_cons; [exact L1|].
        apply cov_each; auto. intros t0 H0. eapply cover_kid; [exact L1|]. cbn [members]. now apply in_map.
      + (* range *)
        apply andb_true_iff in Hs. destruct Hs as [Hs Hsame]. apply andb_true_iff in Hs. destruct Hs as [Hlen Hs].
        cbn [calls] in *. apply incl_cons_l in Hi. destruct Hi as [I1 Hi].
        pose proof (cover_node _ _ I1 Hd) as L1. apply cov_cons; [exact L1|].
        apply cov_each; auto. intros t0 H0. eapply cover_kid; [exact L1|]. cbn [members field_decls].
        rewrite map_snd_combine; [now apply in_map|]. rewrite map_length. apply Nat.eqb_eq in Hlen. now symmetry.
      + (* struct *)
        apply andb_true_iff in Hs. destruct Hs as [Hs Hfa]. apply andb_true_iff in Hs. destruct Hs as [Hn _].
        cbn [calls decl_of] in *. now apply cov_struct.
    - (* prod, second clause *)
      intros fn sk ts0 E. inversion E; subst. now apply coverQ_fst.
    - (* sum *)
      pose proof IH as IHQ. apply coverQ_fst in IH.
      destruct k as [| | | |name vn tags]; cbn [has_schema] in Hs; try discriminate.
      + (* option *)
        destruct vs as [|v0 [|t1 [|? ?]]];
          try (repeat match type of Hs with context [match ?x with _ => _ end] => destruct x end; discriminate).
        assert (Hs1 : has_schema t1 = true).
        { repeat match type of Hs with context [match ?x with _ => _ end] => destruct x end; try discriminate; exact Hs. }
        pose proof (Forall_inv (Forall_inv_tail IH)) as G1.
        cbn [calls] in *. apply incl_cons_l in Hi. destruct Hi as [I1 Hi]. apply incl_app_l in Hi. destruct Hi as [Hi1 Hi2].
        apply incl_cons_l in Hi2. destruct Hi2 as [I2 _].
        pose proof (cover_node _ _ I1 Hd) as L1. apply cov_cons; [exact L1|]. apply cov_app.
        * apply G1; auto. eapply cover_kid; [exact L1|]. cbn. auto.
        * apply cov_cons; [|apply cov_nil]. apply (cover_node _ _ I2). eapply cover_kid; [exact L1|]. cbn. auto.
      + (* result *)
        destruct vs as [|t0 [|t1 [|? ?]]]; try discriminate.
        apply andb_true_iff in Hs. destruct Hs as [Hs0 Hs1].
        pose proof (Forall_inv IH) as G0. pose proof (Forall_inv (Forall_inv_tail IH)) as G1.
        cbn [calls] in *. apply incl_cons_l in Hi. destruct Hi as [I1 Hi]. apply incl_app_l in Hi. destruct Hi as [Hi1 Hi2].
        pose proof (cover_node _ _ I1 Hd) as L1. apply cov_cons; [exact L1|]. apply cov_app.
        * apply G0; auto. eapply cover_kid; [exact L1|]. cbn. auto.
        * apply G1; auto. eapply cover_kid; [exact L1|]. cbn. auto.
      + (* IpAddr *)
        cbn [calls decl_of] in *. unfold ipaddr_calls in *.
        apply incl_app_l in Hi. destruct Hi as [Hi1 Hi]. apply incl_app_l in Hi. destruct Hi as [Hi2 Hi3].
        apply incl_cons_l in Hi1. destruct Hi1 as [I1 Hi1]. apply incl_cons_l in Hi2. destruct Hi2 as [I2 Hi2].
        apply incl_cons_l in Hi3. destruct Hi3 as [I3 _].
        pose proof (cover_node _ _ I3 Hd) as L3.
        assert (D1 : defined ds "IpAddrV4") by (eapply cover_kid; [exact L3|]; cbn; auto).
        assert (D2 : defined ds "IpAddrV6") by (eapply cover_kid; [exact L3|]; cbn; auto).
        pose proof (cover_node _ _ I1 D1) as L1. pose proof (cover_node _ _ I2 D2) as L2.
        apply cov_app; [|apply cov_app].
        * apply cov_cons; [exact L1|]. apply cov_ip; [exact Hi1|]. eapply cover_kid; [exact L1|]. cbn. auto.
        * apply cov_cons; [exact L2|]. apply cov_ip; [exact Hi2|]. eapply cover_kid; [exact L2|]. cbn. auto.
        * apply cov_cons; [exact L3|apply cov_nil].
      + (* derived enum *)
        apply andb_true_iff in Hs. destruct Hs as [Hs Hvs]. apply andb_true_iff in Hs. destruct Hs as [Hl1 Hl2].
        apply Nat.eqb_eq in Hl1, Hl2.
        cbn [calls decl_of] in *.
        match goal with |- cov (?G vs 0%nat ++ _) => set (cgo := G) in * end.
        apply incl_app_l in Hi. destruct Hi as [Hi1 Hi2]. apply incl_cons_l in Hi2. destruct Hi2 as [I2 _].
        pose proof (cover_node _ _ I2 Hd) as L2.
        apply cov_app; [|apply cov_cons; [exact L2|apply cov_nil]].
        (* every inner struct is named by a row of the variant table *)
        assert (Hrow : forall (l : list ty) i, (i + length l = length vs)%nat ->
                  forall j, (j < length l)%nat -> defined ds (name ++ nth_str vn (i + j))%string).
        { intros l i Hil j Hj. eapply cover_kid; [exact L2|]. cbn [members].
          assert (Hnth : forall vn0 tg0 k, (k < length vn0)%nat -> (k < length tg0)%nat ->
                    In (name ++ nth_str vn0 k)%string (map variant_decl (enum_variants name vn0 tg0))).
          { induction vn0 as [|v0 vr IHv]; intros tg0 k Hk1 Hk2; [cbn in Hk1; lia|].
            destruct tg0 as [|g gr]; [cbn in Hk2; lia|]. cbn [enum_variants map variant_decl snd].
            destruct k as [|k]; [left; reflexivity|right]. unfold nth_str. cbn [nth].
            apply (IHv gr k); cbn [length] in *; lia. }
          apply Hnth; lia. }
        assert (Hgo : forall l i, Forall coverQ l -> (i + length l = length vs)%nat ->
                  forallb (fun v => match v with
                                    | TProd (PVariant fn sk) ts =>
                                        names_ok fn (length ts) && Nat.eqb (length sk) (length ts) &&
                                        fields_all (fun x => has_schema x) ts sk
                                    | _ => false end) l = true ->
                  incl (cgo l i) CT -> cov (cgo l i)).
        { induction l as [|v vr IHl]; intros i Hf Hil Hb Hinc; [apply cov_nil|].
          cbn [forallb] in Hb. apply andb_true_iff in Hb. destruct Hb as [Hv Hb].
          destruct v as [| | | | | |[| | | | |fn sk] ts| |]; try discriminate.
          apply andb_true_iff in Hv. destruct Hv as [Hv Hfa]. apply andb_true_iff in Hv. destruct Hv as [Hn _].
          pose proof (proj2 (Forall_inv Hf) fn sk ts eq_refl) as Hts.
          cbn [cgo] in Hinc |- *. fold cgo in Hinc |- *. apply incl_app_l in Hinc. destruct Hinc as [Hinc1 Hinc2].
          apply cov_app.
          - apply cov_struct; auto. replace i with (i + 0)%nat by lia. apply (Hrow (TProd (PVariant fn sk) ts :: vr) i Hil). cbn; lia.
          - apply IHl; auto; [exact (Forall_inv_tail Hf)|cbn [length] in Hil; lia]. }
        apply Hgo; auto.
    - (* wrap *)
      destruct w; cbn [has_schema] in Hs; try discriminate; cbn [calls decl_of] in *; now apply IH.
  Qed.
End Cover.

Definition covers (c : container) (t : ty) : Prop :=
  forall d def, In (d, def) (calls t) -> lookup (defs c) d = Some def.

Theorem schema_of_covers t c :
  has_schema t = true -> coherent t = true -> schema_of t = Ok c -> covers c t.
Proof.
  intros Hs Hc H. destruct (schema_of_closed t c Hs H) as (Hroot & Hclosed & Hprov).
  assert (Er : root c = decl_of t).
  { unfold schema_of in H. apply bind_ok in H. destruct H as (ds & _ & H2). now inversion H2. }
  rewrite Er in Hroot.
  exact (proj1 (coverQ_all (defs c) (calls t) Hclosed Hprov (functional_b_ok _ Hc) t) Hs (incl_refl _) Hroot).
Qed.
Print Assumptions schema_of_covers.
