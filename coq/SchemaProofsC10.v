(** The C10 statements, assembled from SchemaProofsZero.v and SchemaProofsValidate.v. *)
From Coq Require Import String List NArith ZArith Bool Lia.
From Borsh Require Import Schema SchemaFns SchemaSpec SchemaProofsBase SchemaProofsZero SchemaProofsValidate SchemaProofsUnb.
Import ListNotations.
Local Open Scope N_scope.

Lemma value_not_fuel_panic {E A} (r : sres E A) : is_value r -> r <> SFuel /\ r <> SPanic.
Proof. destruct r; cbn; intros H; try contradiction; split; discriminate. Qed.

Lemma c10_total c : validate c <> SFuel /\ validate c <> SPanic.
Proof. apply value_not_fuel_panic, validate_value. Qed.

Lemma c10_zero_total c d : is_zero_size c d <> SFuel /\ is_zero_size c d <> SPanic.
Proof. apply value_not_fuel_panic, is_zero_size_value. Qed.

Lemma c10_zero c d :
  (is_zero_size c d = SOk true <-> ZeroSized c d) /\
  (is_zero_size c d = SOk false -> ~ ZeroSized c d) /\
  (forall e, is_zero_size c d = SErr e -> ~ ZeroSized c d).
Proof.
  split; [apply is_zero_size_true|]. split; [apply is_zero_size_false|].
  intros e. apply is_zero_size_err.
Qed.

Lemma c10_exact c : ranges_fit 64 c -> (validate c = SOk tt <-> WellFormed c).
Proof. intros Hfit. split; [apply validate_ok_wf, Hfit | apply wf_validate_ok]. Qed.

Lemma c10_wf_accepted c : WellFormed c -> validate c = SOk tt.
Proof. apply wf_validate_ok. Qed.

Lemma c10_blame c e : validate c = SErr e -> Reach c (root c) (blamed e) /\ defect c e.
Proof. apply validate_blame. Qed.

Lemma c10_defect_ill_formed c e :
  Reach c (root c) (blamed e) -> defect c e -> ~ WellFormed c.
Proof. intros Hr Hd Hwf. eapply defect_not_ok; [exact Hd | apply Hwf, Hr]. Qed.

(** [ZeroSized] means what it says: every described value encodes to no bytes. *)
Lemma zero_sized_sizes c d : ZeroSized c d -> forall n, sizes c d n -> n = 0.
Proof.
  revert d. apply (ZeroSized_ind' c (fun d => forall n, sizes c d n -> n = 0)).
  intros d H n Hn. apply sizes_inv in Hn. unfold zs_body in H.
  assert (Hall : forall ds ns, Forall (fun x => ZeroSized c x /\ forall n, sizes c x n -> n = 0) ds ->
                 Forall2 (sizes c) ds ns -> sumN ns = 0).
  { intros ds ns HF H2. apply sumN_zero. revert HF. induction H2 as [|x y l l' Hxy _ IH]; intros HF; constructor.
    - inversion HF; subst. destruct H2 as [_ Hz]. apply Hz, Hxy.
    - inversion HF; subst. apply IH; assumption. }
  destruct (get_definition c d) as [[s|lw lo hi el|els|tw vs|fs]|]; try contradiction.
  - lia.
  - destruct Hn as (ns & Hlo & Hhi & HF & ->). destruct H as [-> [[-> ->]|[_ Hel]]].
    + destruct ns; [reflexivity | cbn [length] in Hhi; lia].
    + rewrite sumN_zero; [reflexivity|]. revert HF. apply Forall_impl. exact Hel.
  - destruct Hn as (ns & HF & ->). eapply Hall; eauto.
  - destruct Hn as (v & m & Hv & Hm & ->). destruct H as [-> HF].
    rewrite Forall_forall in HF. destruct (HF (variant_decl v) (in_map _ _ _ Hv)) as [_ Hz].
    rewrite (Hz _ Hm). reflexivity.
  - destruct Hn as (ns & HF & ->). eapply Hall; eauto.
Qed.
