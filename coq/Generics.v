(** Generic items as the derive macros see them, and where-clause inference.

    Part 1  syntax: type expressions mentioning type parameters ([syn::Type] as far as
            [FindTyParams] distinguishes shapes), where-predicates, fields with the PARSED
            field attributes that matter for bounds ([skip], [bound(serialize/deserialize)],
            [schema(params)]), generic parameter lists, items.
    Part 2  transcription of borsh-derive/src/internals/generics.rs ([FindTyParams],
            [process_for_bounds], [compute_predicates], [without_defaults], [default_where]) and of
            the where-clause construction of the three derives
            (serialize/mod.rs + structs/enums [process_field], deserialize/mod.rs [process_field] and
            [GenericsOutput::extend], schema/mod.rs [visit_field], [GenericsOutput::result]).
    Part 3  the DOCUMENTED rule, written independently from the rustdoc
            (borsh/docs/rustdoc_include/borsh_{serialize,deserialize,schema}.md).
    Definitions only; proofs in GenericsFacts.v. *)
From Coq Require Import String List Bool Arith.
From Borsh Require Import Item.
Import ListNotations.
Local Open Scope string_scope.
Local Open Scope list_scope.

(** * 1. Syntax *)

(** The unary type constructors ([Type::Array/Slice/Ptr/Reference/Paren/Group]); the visitor
    treats all of them alike (descend into [elem]); only [Group] matters elsewhere ([ungroup]). *)
Inductive gwrap :=
| GWArray (len : string)
| GWSlice
| GWPtr (mutable : bool)
| GWRef (lifetime : string) (mutable : bool)
| GWParen
| GWGroup.

(** Own list/option types instead of [list]/[option] so that every function below is a plain
    mutual [Fixpoint] and [Scheme] gives the mutual induction principle. *)
Inductive gty :=
| GPath (q : ogty) (qpos : nat) (colon : bool) (segs : gsegs)
     (* [Type::Path]: optional [<q as ..>] qualifier (the first [qpos] segments are inside the
        angle brackets), optional leading [::], segments *)
| GWrap (w : gwrap) (e : gty)
| GTuple (es : gtys)
| GFn (ins : gtys) (out : ogty)                 (* [Type::BareFn] *)
| GBounds (is_dyn : bool) (bs : gbounds)        (* [Type::ImplTrait] / [Type::TraitObject] *)
| GMacro (name : string) (args : list string)   (* [Type::Macro]: [name!(identifier tokens)] *)
| GOther (text : string)                        (* [Type::Never], [Type::Infer], [Type::Verbatim] *)
with ogty := ONone | OSome (t : gty)
with gtys := TNil | TCons (t : gty) (r : gtys)
with gsegs := SNil | SCons (id : string) (a : gargs) (r : gsegs)
with gargs :=
| ANone
| AAngle (l : garglist)                         (* [<..>] *)
| AParen (ins : gtys) (out : ogty)              (* [Fn(A, B) -> C] *)
with garglist :=
| LNil
| LType (t : gty) (r : garglist)                (* [GenericArgument::Type] *)
| LAssoc (id : string) (t : gty) (r : garglist) (* [GenericArgument::AssocType]: [Item = T] *)
| LOther (text : string) (r : garglist)         (* lifetime, const, assoc const, constraint *)
with gbounds :=
| BNil
| BTrait (colon : bool) (segs : gsegs) (r : gbounds)   (* [TypeParamBound::Trait] *)
| BOther (text : string) (r : gbounds).               (* lifetime / verbatim / precise capture *)

Scheme gty_mind := Induction for gty Sort Prop
with ogty_mind := Induction for ogty Sort Prop
with gtys_mind := Induction for gtys Sort Prop
with gsegs_mind := Induction for gsegs Sort Prop
with gargs_mind := Induction for gargs Sort Prop
with garglist_mind := Induction for garglist Sort Prop
with gbounds_mind := Induction for gbounds Sort Prop.
Combined Scheme gty_mutind from gty_mind, ogty_mind, gtys_mind, gsegs_mind, gargs_mind, garglist_mind, gbounds_mind.

Fixpoint tys_of_list (l : list gty) : gtys :=
  match l with [] => TNil | t :: r => TCons t (tys_of_list r) end.
Fixpoint segs_of_list (l : list (string * gargs)) : gsegs :=
  match l with [] => SNil | (id, a) :: r => SCons id a (segs_of_list r) end.
Fixpoint args_of_list (l : list gty) : garglist :=
  match l with [] => LNil | t :: r => LType t (args_of_list r) end.

(** Frequent shapes. *)
Definition GParam (p : string) : gty := GPath ONone 0 false (SCons p ANone SNil).
Definition GName (n : string) : gty := GPath ONone 0 false (SCons n ANone SNil).
Definition GApp (n : string) (args : list gty) : gty :=
  GPath ONone 0 false (SCons n (AAngle (args_of_list args)) SNil).
Definition GAssoc (p a : string) : gty :=                    (* [P::A] *)
  GPath ONone 0 false (SCons p ANone (SCons a ANone SNil)).
Definition GQAssoc (t : gty) (tr a : string) : gty :=        (* [<t as Tr>::A] *)
  GPath (OSome t) 1 false (SCons tr ANone (SCons a ANone SNil)).
Definition GPhantom (t : gty) : gty := GApp "PhantomData" [t].

(** ** Tokens ([to_token_stream]): used as the de-duplication key of [process_for_bounds]
    ([to_token_stream().to_string()]) and by the identifier walk of [mentions_dropped_param]. *)
Inductive tok := TI (s : string) | TP (s : string).      (* identifier / anything else *)
Definition tok_text (t : tok) : string := match t with TI s | TP s => s end.

Definition wrap_open (w : gwrap) : list tok :=
  match w with
  | GWArray _ => [TP "["] | GWSlice => [TP "["]
  | GWPtr m => [TP "*"; TI (if m then "mut" else "const")]
  | GWRef lt m => [TP "&"] ++ (if lt =? "" then [] else [TP lt]) ++ (if m then [TI "mut"] else [])
  | GWParen => [TP "("] | GWGroup => []
  end.
Definition wrap_close (w : gwrap) : list tok :=
  match w with
  | GWArray n => [TP ";"; TP n; TP "]"] | GWSlice => [TP "]"]
  | GWParen => [TP ")"] | _ => []
  end.

Fixpoint toks (t : gty) : list tok :=
  match t with
  | GPath q qpos colon segs =>
      match q with
      | ONone => (if colon then [TP "::"] else []) ++ toks_segs None true segs
      | OSome qt =>
          [TP "<"] ++ toks qt ++ (if Nat.eqb qpos 0 then [] else [TI "as"]) ++
          (if colon then [TP "::"] else []) ++ toks_segs (Some qpos) true segs
      end
  | GWrap w e => wrap_open w ++ toks e ++ wrap_close w
  | GTuple es => [TP "("] ++ toks_tys es ++ [TP ")"]
  | GFn ins out => [TI "fn"; TP "("] ++ toks_tys ins ++ [TP ")"] ++ toks_out out
  | GBounds d bs => [TI (if d then "dyn" else "impl")] ++ toks_bounds true bs
  | GMacro n args => [TI n; TP "!"; TP "("] ++ map TI args ++ [TP ")"]
  | GOther s => [TP s]
  end
with toks_out (o : ogty) : list tok :=
  match o with ONone => [] | OSome t => [TP "->"] ++ toks t end
with toks_tys (l : gtys) : list tok :=
  match l with TNil => [] | TCons t r => toks t ++ [TP ","] ++ toks_tys r end
with toks_segs (close : option nat) (first : bool) (s : gsegs) : list tok :=
  match s with
  | SNil => match close with Some _ => [TP ">"] | None => [] end
  | SCons id a r =>
      match close with
      | Some 0 => [TP ">"; TP "::"; TI id] ++ toks_args a ++ toks_segs None false r
      | Some (S n) => (if first then [] else [TP "::"]) ++ [TI id] ++ toks_args a ++ toks_segs (Some n) false r
      | None => (if first then [] else [TP "::"]) ++ [TI id] ++ toks_args a ++ toks_segs None false r
      end
  end
with toks_args (a : gargs) : list tok :=
  match a with
  | ANone => []
  | AAngle l => [TP "<"] ++ toks_arglist l ++ [TP ">"]
  | AParen ins out => [TP "("] ++ toks_tys ins ++ [TP ")"] ++ toks_out out
  end
with toks_arglist (l : garglist) : list tok :=
  match l with
  | LNil => []
  | LType t r => toks t ++ [TP ","] ++ toks_arglist r
  | LAssoc id t r => [TI id; TP "="] ++ toks t ++ [TP ","] ++ toks_arglist r
  | LOther s r => [TP s; TP ","] ++ toks_arglist r
  end
with toks_bounds (first : bool) (b : gbounds) : list tok :=
  match b with
  | BNil => []
  | BTrait colon segs r =>
      (if first then [] else [TP "+"]) ++ (if colon then [TP "::"] else []) ++ toks_segs None true segs ++ toks_bounds false r
  | BOther s r => (if first then [] else [TP "+"]) ++ [TP s] ++ toks_bounds false r
  end.

(** the identifier tokens *)
Definition ident_toks (l : list tok) : list string :=
  flat_map (fun k => match k with TI s => [s] | TP _ => [] end) l.

Definition render_toks (l : list tok) : string := String.concat " " (map tok_text l).
Definition render (t : gty) : string := render_toks (toks t).

(** ** Where-predicates *)
Inductive trait := TrSerialize | TrDeserialize | TrDefault | TrSchema.
Definition trait_path (tr : trait) : string :=
  match tr with
  | TrSerialize => "borsh::ser::BorshSerialize"
  | TrDeserialize => "borsh::de::BorshDeserialize"
  | TrDefault => "core::default::Default"
  | TrSchema => "borsh::BorshSchema"
  end.

Inductive wpred :=
| WBound (t : gty) (tr : trait)          (* written by the macro: [#t: #cratename::Trait] *)
| WUser (bounded : gty) (bs : gbounds)   (* written by the user: [WherePredicate::Type] *)
| WLifetime (text : string).             (* [WherePredicate::Lifetime] *)

Definition toks_pred (p : wpred) : list tok :=
  match p with
  | WBound t tr => toks t ++ [TP ":"; TP (trait_path tr)]
  | WUser t bs => toks t ++ [TP ":"] ++ toks_bounds true bs
  | WLifetime s => [TP s]
  end.
Definition render_pred (p : wpred) : string := render_toks (toks_pred p).

(** ** Fields, generics, items.  A field carries its type and the parsed [field::Attributes]
    as far as the where-clause depends on them (the rest is Item.v / DeriveCheck.v). *)
Record gfield := {
  gf_name : string;
  gf_skip : bool;
  gf_bound_ser : option (list wpred);          (* [bound(serialize = "p1, p2")]; [Some []] = [""] *)
  gf_bound_de : option (list wpred);           (* [bound(deserialize = "..")] *)
  gf_schema_params : option (list (string * gty));   (* [schema(params = "P => ty, ..")] *)
  gf_ty : gty;
}.

Inductive gparam :=
| GPType (id : string) (default : option gty)   (* [T] / [T = u8] (inline bounds are not looked at) *)
| GPLifetime (id : string)
| GPConst (id : string).

Record gvariant := { gv_name : string; gv_fields : list gfield }.
Inductive gbody := GStruct (fs : list gfield) | GEnum (vs : list gvariant).

Record gitem := {
  gi_name : string;
  gi_params : list gparam;          (* [generics.params], in order *)
  gi_where : list wpred;            (* the item's own where-clause *)
  gi_body : gbody;
}.

(** [generics.type_params()] *)
Definition type_params (ps : list gparam) : list string :=
  flat_map (fun p => match p with GPType id _ => [id] | _ => [] end) ps.

(** the order in which a derive walks the fields: [fields.named]/[fields.unnamed] of a struct,
    variant after variant for an enum *)
Definition all_fields (it : gitem) : list gfield :=
  match gi_body it with
  | GStruct fs => fs
  | GEnum vs => flat_map gv_fields vs
  end.

(** The attribute list of Item.v a field of this shape carries (what DeriveCheck.v looks at). *)
Definition field_metas (f : gfield) : list field_meta :=
  (if gf_skip f then [FSkip] else []) ++
  (match gf_bound_ser f, gf_bound_de f with
   | None, None => []
   | s, d => [FBound (if s then true else false) (if d then true else false)]
   end) ++
  (match gf_schema_params f with Some _ => [FSchema true None] | None => [] end).

(** * 2. The code *)

(** [HashSet<Ident>] as a duplicate-free list; only [contains]/[insert]/[is_empty] are used. *)
Definition mem (x : string) (l : list string) : bool := existsb (String.eqb x) l.
Definition set_insert (x : string) (l : list string) : list string := if mem x l then l else l ++ [x].

(** [HashMap<Ident, Vec<Type>>]; only [get]/[get_mut]/[insert]/[contains_key]/[is_empty] are used
    (never iterated), so an association list is exact. *)
Definition amap := list (string * list gty).
Fixpoint amap_get (k : string) (m : amap) : option (list gty) :=
  match m with
  | [] => None
  | (k', v) :: r => if String.eqb k k' then Some v else amap_get k r
  end.
Fixpoint amap_push (k : string) (t : gty) (m : amap) : amap :=
  match m with
  | [] => [(k, [t])]
  | (k', v) :: r => if String.eqb k k' then (k', v ++ [t]) :: r else (k', v) :: amap_push k t r
  end.

Record finder := {
  all_type_params : list string;             (* both the set and [all_type_params_ordered] *)
  relevant_type_params : list string;
  associated_type_params_usage : amap;
}.

(** [FindTyParams::new] *)
Definition finder_new (ps : list gparam) : finder :=
  {| all_type_params := type_params ps; relevant_type_params := []; associated_type_params_usage := [] |}.
(** [FindTyParams::from_params] *)
Definition finder_from_params (ps : list string) : finder :=
  {| all_type_params := ps; relevant_type_params := []; associated_type_params_usage := [] |}.

Fixpoint last_seg (s : gsegs) : option string :=
  match s with
  | SNil => None
  | SCons id _ SNil => Some id
  | SCons _ _ r => last_seg r
  end.
(** [path.segments.last()] is [PhantomData] *)
Definition is_phantom (s : gsegs) : bool :=
  match last_seg s with Some id => id =? "PhantomData" | None => false end.
(** [path.leading_colon.is_none() && path.segments.len() == 1] and the ident is a parameter:
    what [visit_path] inserts into [relevant_type_params] before descending *)
Definition path_hit (all rel : list string) (colon : bool) (s : gsegs) : list string :=
  match colon, s with
  | false, SCons id _ SNil => if mem id all then set_insert id rel else rel
  | _, _ => rel
  end.

(** [visit_type] and friends; the visitor state that changes is [relevant_type_params]. *)
Fixpoint visit_type (all rel : list string) (t : gty) : list string :=
  match t with
  | GPath q _ colon segs =>
      let rel := visit_otype all rel q in                      (* [if let Some(qself)] *)
      if is_phantom segs then rel                              (* [visit_path]: hardcoded exception *)
      else visit_segs all (path_hit all rel colon segs) segs
  | GWrap _ e => visit_type all rel e
  | GTuple es => visit_types all rel es
  | GFn ins out => visit_otype all (visit_types all rel ins) out
  | GBounds _ bs => visit_bounds all rel bs
  | GMacro _ _ => rel                                          (* [visit_macro]: nothing *)
  | GOther _ => rel
  end
with visit_otype (all rel : list string) (o : ogty) : list string :=
  match o with ONone => rel | OSome t => visit_type all rel t end
with visit_types (all rel : list string) (l : gtys) : list string :=
  match l with TNil => rel | TCons t r => visit_types all (visit_type all rel t) r end
with visit_segs (all rel : list string) (s : gsegs) : list string :=
  match s with SNil => rel | SCons _ a r => visit_segs all (visit_args all rel a) r end
with visit_args (all rel : list string) (a : gargs) : list string :=      (* [visit_path_arguments] *)
  match a with
  | ANone => rel
  | AAngle l => visit_arglist all rel l
  | AParen ins out => visit_otype all (visit_types all rel ins) out
  end
with visit_arglist (all rel : list string) (l : garglist) : list string :=
  match l with
  | LNil => rel
  | LType t r => visit_arglist all (visit_type all rel t) r
  | LAssoc _ t r => visit_arglist all (visit_type all rel t) r
  | LOther _ r => visit_arglist all rel r
  end
with visit_bounds (all rel : list string) (b : gbounds) : list string :=   (* [visit_type_param_bound] *)
  match b with
  | BNil => rel
  | BTrait colon segs r =>
      visit_bounds all (if is_phantom segs then rel else visit_segs all (path_hit all rel colon segs) segs) r
  | BOther _ r => visit_bounds all rel r
  end.

(** [visit_path], as a function of its own (the two call sites above are its unfolding) *)
Definition visit_path (all rel : list string) (colon : bool) (segs : gsegs) : list string :=
  if is_phantom segs then rel else visit_segs all (path_hit all rel colon segs) segs.

Fixpoint ungroup (t : gty) : gty :=
  match t with GWrap GWGroup e => ungroup e | _ => t end.

(** [param_associated_type_insert] *)
Definition param_associated_type_insert (f : finder) (param : string) (t : gty) : finder :=
  {| all_type_params := all_type_params f; relevant_type_params := relevant_type_params f;
     associated_type_params_usage := amap_push param t (associated_type_params_usage f) |}.

(** the first segment of a path type when it is followed by [::] ([Pair::Punctuated]) *)
Definition punctuated_head (t : gty) : option string :=
  match ungroup t with
  | GPath _ _ _ (SCons id _ (SCons _ _ _)) => Some id
  | _ => None
  end.

(** [visit_type_top_level] (= [visit_field] on the field's type) *)
Definition visit_type_top_level (f : finder) (t : gty) : finder :=
  let f1 := match punctuated_head t with
            | Some id => if mem id (all_type_params f) then param_associated_type_insert f id t else f
            | None => f
            end in
  {| all_type_params := all_type_params f1;
     relevant_type_params := visit_type (all_type_params f1) (relevant_type_params f1) t;
     associated_type_params_usage := associated_type_params_usage f1 |}.
Definition visit_field (f : finder) (fld : gfield) : finder := visit_type_top_level f (gf_ty fld).

(** [process_for_bounds]: [new_predicates] with the [HashSet<String>] of their renderings *)
Definition push_new (acc : list gty * list string) (t : gty) : list gty * list string :=
  let s := render t in
  if mem s (snd acc) then acc else (fst acc ++ [t], snd acc ++ [s]).
Definition process_for_bounds (f : finder) : list gty :=
  fst (fold_left
         (fun acc param =>
            let acc := if mem param (relevant_type_params f) then push_new acc (GParam param) else acc in
            match amap_get param (associated_type_params_usage f) with
            | Some v => fold_left push_new v acc
            | None => acc
            end)
         (all_type_params f) ([], [])).

(** [compute_predicates] *)
Definition compute_predicates (params : list gty) (tr : trait) : list wpred :=
  map (fun t => WBound t tr) params.

(** [without_defaults] (the generics of the emitted impl) and [default_where] *)
Definition without_defaults (ps : list gparam) : list gparam :=
  map (fun p => match p with GPType id _ => GPType id None | _ => p end) ps.
Definition default_where (w : list wpred) : list wpred := w.

(** [Attributes::needs_bounds_derive] / [collect_bounds] *)
Inductive bound_type := BTSerialize | BTDeserialize.
Definition get_bounds (fld : gfield) (ty : bound_type) : option (list wpred) :=
  match ty with BTSerialize => gf_bound_ser fld | BTDeserialize => gf_bound_de fld end.
Definition needs_bounds_derive (fld : gfield) (ty : bound_type) : bool :=
  match get_bounds fld ty with None => true | Some _ => false end.
Definition collect_bounds (fld : gfield) (ty : bound_type) : list wpred :=
  match get_bounds fld ty with None => [] | Some l => l end.
(** [needs_schema_params_derive] *)
Definition needs_schema_params_derive (fld : gfield) : bool :=
  match gf_schema_params fld with Some _ => false | None => true end.

(** ** BorshSerialize: serialize/mod.rs [GenericsOutput], structs/enums [process_field] *)
Record ser_output := { so_overrides : list wpred; so_visitor : finder }.
Definition ser_process_field (g : ser_output) (fld : gfield) : ser_output :=
  let needs := needs_bounds_derive fld BTSerialize in
  let g := {| so_overrides := so_overrides g ++ collect_bounds fld BTSerialize; so_visitor := so_visitor g |} in
  if negb (gf_skip fld) then
    if needs then {| so_overrides := so_overrides g; so_visitor := visit_field (so_visitor g) fld |} else g
  else g.
Definition ser_extend (g : ser_output) (where_clause : list wpred) : list wpred :=
  where_clause ++ compute_predicates (process_for_bounds (so_visitor g)) TrSerialize ++ so_overrides g.
Definition ser_where (it : gitem) : list wpred :=
  let generics := without_defaults (gi_params it) in
  let g := fold_left ser_process_field (all_fields it) {| so_overrides := []; so_visitor := finder_new generics |} in
  ser_extend g (default_where (gi_where it)).

(** ** BorshDeserialize: deserialize/mod.rs [GenericsOutput], [process_field] *)
Record de_output := { do_overrides : list wpred; do_default_visitor : finder; do_deserialize_visitor : finder }.
Definition de_process_field (g : de_output) (fld : gfield) : de_output :=
  let g := {| do_overrides := do_overrides g ++ collect_bounds fld BTDeserialize;
              do_default_visitor := do_default_visitor g; do_deserialize_visitor := do_deserialize_visitor g |} in
  let needs := needs_bounds_derive fld BTDeserialize in
  if gf_skip fld then
    if needs then {| do_overrides := do_overrides g; do_default_visitor := visit_field (do_default_visitor g) fld;
                     do_deserialize_visitor := do_deserialize_visitor g |} else g
  else
    if needs then {| do_overrides := do_overrides g; do_default_visitor := do_default_visitor g;
                     do_deserialize_visitor := visit_field (do_deserialize_visitor g) fld |} else g.
Definition de_extend (g : de_output) (where_clause : list wpred) : list wpred :=
  where_clause ++ compute_predicates (process_for_bounds (do_deserialize_visitor g)) TrDeserialize
               ++ compute_predicates (process_for_bounds (do_default_visitor g)) TrDefault
               ++ do_overrides g.
Definition de_where (it : gitem) : list wpred :=
  let generics := without_defaults (gi_params it) in
  let g := fold_left de_process_field (all_fields it)
             {| do_overrides := []; do_default_visitor := finder_new generics; do_deserialize_visitor := finder_new generics |} in
  de_extend g (default_where (gi_where it)).

(** ** BorshSchema: schema/mod.rs [visit_field], [visit_struct_fields], [GenericsOutput::result] *)
Definition schema_visit_field (v : finder) (fld : gfield) : finder :=
  if negb (gf_skip fld) then
    let v := if needs_schema_params_derive fld then visit_field v fld else v in
    match gf_schema_params fld with
    | Some schema_params =>
        fold_left (fun v ov => param_associated_type_insert v (fst ov) (snd ov)) schema_params v
    | None => v
    end
  else v.
Definition schema_visitor (it : gitem) : finder :=
  fold_left schema_visit_field (all_fields it) (finder_new (without_defaults (gi_params it))).
Definition schema_where (it : gitem) : list wpred :=
  default_where (gi_where it) ++ compute_predicates (process_for_bounds (schema_visitor it)) TrSchema.
(** the second component of [GenericsOutput::result]: the types whose [declaration()]s become the
    parameters of the item's own declaration (GenericsSchema.v) *)
Definition schema_declaration_params (it : gitem) : list gty := process_for_bounds (schema_visitor it).

(** The where-clause of the impl a derive emits. *)
Definition bounds_of (k : derive_kind) (it : gitem) : list wpred :=
  match k with DSer => ser_where it | DDe => de_where it | DSchema => schema_where it end.

(** * 3. The documented rule *)

(** "any type parameter found in item's fields": [P] is written as a type somewhere in [t].
    A parameter under [PhantomData<..>] does not count ("PhantomData<T> implements
    Serialize/Deserialize/Schema whether or not T implements it"; schema rustdoc: a parameter used
    only as [unused: PhantomData<K>] is not bounded), nor does one inside a type macro's tokens. *)
Definition is_single (P : string) (s : gsegs) : bool :=
  match s with SCons id _ SNil => id =? P | _ => false end.
Fixpoint occurs (P : string) (t : gty) : bool :=
  match t with
  | GPath q _ colon segs =>
      occurs_o P q || (negb (is_phantom segs) && ((negb colon && is_single P segs) || occurs_segs P segs))
  | GWrap _ e => occurs P e
  | GTuple es => occurs_tys P es
  | GFn ins out => occurs_tys P ins || occurs_o P out
  | GBounds _ bs => occurs_bounds P bs
  | GMacro _ _ => false
  | GOther _ => false
  end
with occurs_o (P : string) (o : ogty) : bool :=
  match o with ONone => false | OSome t => occurs P t end
with occurs_tys (P : string) (l : gtys) : bool :=
  match l with TNil => false | TCons t r => occurs P t || occurs_tys P r end
with occurs_segs (P : string) (s : gsegs) : bool :=
  match s with SNil => false | SCons _ a r => occurs_args P a || occurs_segs P r end
with occurs_args (P : string) (a : gargs) : bool :=
  match a with
  | ANone => false
  | AAngle l => occurs_arglist P l
  | AParen ins out => occurs_tys P ins || occurs_o P out
  end
with occurs_arglist (P : string) (l : garglist) : bool :=
  match l with
  | LNil => false
  | LType t r => occurs P t || occurs_arglist P r
  | LAssoc _ t r => occurs P t || occurs_arglist P r
  | LOther _ r => occurs_arglist P r
  end
with occurs_bounds (P : string) (b : gbounds) : bool :=
  match b with
  | BNil => false
  | BTrait colon segs r =>
      (negb (is_phantom segs) && ((negb colon && is_single P segs) || occurs_segs P segs)) || occurs_bounds P r
  | BOther _ r => occurs_bounds P r
  end.

(** "associated types are bounded as whole paths": a field whose type is a path that STARTS with
    the parameter and goes on ([P::Assoc], [P::Assoc<..>::More]) is itself bounded. *)
Definition assoc_of (P : string) (t : gty) : bool :=
  match punctuated_head t with Some id => id =? P | None => false end.

(** Which fields a derive infers bounds from, and with which trait. *)
Definition infers_ser (f : gfield) : bool :=          (* serialized and no [bound(serialize)] override *)
  negb (gf_skip f) && (match gf_bound_ser f with None => true | Some _ => false end).
Definition infers_de (f : gfield) : bool :=
  negb (gf_skip f) && (match gf_bound_de f with None => true | Some _ => false end).
Definition infers_default (f : gfield) : bool :=      (* skipped: restored with [Default] *)
  gf_skip f && (match gf_bound_de f with None => true | Some _ => false end).
Definition infers_schema (f : gfield) : bool :=
  negb (gf_skip f) && (match gf_schema_params f with None => true | Some _ => false end).

(** keep the first of several equal (equally rendered) types *)
Fixpoint dedup (seen : list string) (l : list gty) : list gty :=
  match l with
  | [] => []
  | t :: r => if mem (render t) seen then dedup seen r else t :: dedup (seen ++ [render t]) r
  end.

(** The types a derive bounds by its trait, given the fields [sel] it infers from and the explicit
    [(parameter, type)] entries ([schema(params)]) of the fields: parameter after parameter in the
    order of the generics; for each, the parameter itself when it occurs in a selected field, then
    the associated-type paths / explicit entries filed under it, in field order; no type twice. *)
Definition entries_of (sel : gfield -> bool) (explicit : gfield -> list (string * gty)) (P : string)
    (fs : list gfield) : list gty :=
  flat_map (fun f =>
              (if sel f && assoc_of P (gf_ty f) then [gf_ty f] else []) ++
              flat_map (fun e => if fst e =? P then [snd e] else []) (explicit f)) fs.
Definition documented_types (ps : list string) (sel : gfield -> bool)
    (explicit : gfield -> list (string * gty)) (fs : list gfield) : list gty :=
  dedup [] (flat_map (fun P =>
              (if existsb (fun f => sel f && occurs P (gf_ty f)) fs then [GParam P] else []) ++
              entries_of sel explicit P fs) ps).

Definition no_explicit (f : gfield) : list (string * gty) := [].
Definition schema_explicit (f : gfield) : list (string * gty) :=
  if gf_skip f then [] else match gf_schema_params f with Some l => l | None => [] end.
Definition user_bounds (ty : bound_type) (fs : list gfield) : list wpred :=
  flat_map (fun f => match get_bounds f ty with Some l => l | None => [] end) fs.

Definition documented_bounds (k : derive_kind) (it : gitem) : list wpred :=
  let ps := type_params (gi_params it) in
  let fs := all_fields it in
  match k with
  | DSer =>
      gi_where it
      ++ map (fun t => WBound t TrSerialize) (documented_types ps infers_ser no_explicit fs)
      ++ user_bounds BTSerialize fs
  | DDe =>
      gi_where it
      ++ map (fun t => WBound t TrDeserialize) (documented_types ps infers_de no_explicit fs)
      ++ map (fun t => WBound t TrDefault) (documented_types ps infers_default no_explicit fs)
      ++ user_bounds BTDeserialize fs
  | DSchema =>
      gi_where it
      ++ map (fun t => WBound t TrSchema) (documented_types ps infers_schema schema_explicit fs)
  end.

(** The naive reading of "any type parameter found in item's fields": [P] is written in type position
    anywhere in the field's type -- what rustc resolves as a use of the parameter: the whole path [P]
    or the head of [P::Assoc..]; under [PhantomData] too; a type macro's name and tokens are not types.
    (As a rule for bounds: refuted, GenericsFacts.v.  As the scope rule of rustc: GenericsSchemaFacts.v.) *)
Definition is_head (P : string) (s : gsegs) : bool :=
  match s with SCons id _ _ => id =? P | SNil => false end.
Fixpoint uses (P : string) (t : gty) : bool :=
  match t with
  | GPath q _ colon segs =>
      uses_o P q || (match q with ONone => negb colon && is_head P segs | OSome _ => false end) || uses_segs P segs
  | GWrap _ e => uses P e
  | GTuple es => uses_tys P es
  | GFn ins out => uses_tys P ins || uses_o P out
  | GBounds _ bs => uses_bounds P bs
  | GMacro _ _ => false
  | GOther _ => false
  end
with uses_o (P : string) (o : ogty) : bool :=
  match o with ONone => false | OSome t => uses P t end
with uses_tys (P : string) (l : gtys) : bool :=
  match l with TNil => false | TCons t r => uses P t || uses_tys P r end
with uses_segs (P : string) (s : gsegs) : bool :=
  match s with SNil => false | SCons _ a r => uses_args P a || uses_segs P r end
with uses_args (P : string) (a : gargs) : bool :=
  match a with
  | ANone => false
  | AAngle l => uses_arglist P l
  | AParen ins out => uses_tys P ins || uses_o P out
  end
with uses_arglist (P : string) (l : garglist) : bool :=
  match l with
  | LNil => false
  | LType t r => uses P t || uses_arglist P r
  | LAssoc _ t r => uses P t || uses_arglist P r
  | LOther _ r => uses_arglist P r
  end
with uses_bounds (P : string) (b : gbounds) : bool :=
  match b with
  | BNil => false
  | BTrait _ segs r => uses_segs P segs || uses_bounds P r
  | BOther _ r => uses_bounds P r
  end.
