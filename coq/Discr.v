(** Enum discriminant expressions: syntax, tokens, rustc's expression parser
    (precedence climbing), constant evaluation in an integer type, the language
    rule for implicit discriminants, and the transcription of
    [Discriminants::new] (borsh-derive/src/internals/enum_discriminant.rs),
    which builds implicit discriminants by *token concatenation*.  Definitions only. *)
From Coq Require Import List ZArith NArith Bool.
Import ListNotations.
Local Open Scope Z_scope.

(** * Syntax *)

(** Rust's integer-valued binary operators. *)
Inductive binop := Mul | Div | Rem | Add | Sub | Shl | Shr | BitAnd | BitXor | BitOr.
Inductive unop := Neg | Not.

(** Who wrote a token: the user (spans inside the item) or the macro ([quote!]).
    rustc reports its deny-by-default lints ([overflowing_literals],
    [arithmetic_overflow]) only for user-written code. *)
Inductive origin := User | Macro.

(** The AST rustc/syn build.  [EParen] is a node of its own ([syn::Expr::Paren]). *)
Inductive expr :=
| ELit (o : origin) (n : N)
| EParen (e : expr)
| EUn (u : unop) (e : expr)
| EBin (o : origin) (op : binop) (l r : expr).

(** Operator precedence (Rust reference, "Expression precedence"), all left associative:
    [* / %] > [+ -] > [<< >>] > [&] > [^] > [|].  Unary operators bind tighter than all. *)
Definition prec (op : binop) : nat :=
  match op with
  | Mul | Div | Rem => 7
  | Add | Sub => 6
  | Shl | Shr => 5
  | BitAnd => 4
  | BitXor => 3
  | BitOr => 2
  end%nat.
Definition ATOM : nat := 10.     (* level of literals, parenthesised and unary expressions *)

Definition level (e : expr) : nat :=
  match e with
  | EBin _ op _ _ => prec op
  | _ => ATOM
  end.

(** The ASTs a parser can produce ("what the macro sees"): a left operand never
    binds looser than its operator, a right operand binds strictly tighter, the
    operand of a unary operator is atomic. *)
Fixpoint canonical (e : expr) : bool :=
  match e with
  | ELit _ _ => true
  | EParen e' => canonical e'
  | EUn _ e' => Nat.eqb (level e') ATOM && canonical e'
  | EBin _ op l r =>
      Nat.leb (prec op) (level l) && Nat.ltb (prec op) (level r) && canonical l && canonical r
  end.

(** * Tokens *)
Inductive token :=
| TLit (o : origin) (n : N)
| TLP | TRP
| TBang                              (* [!] *)
| TOp (o : origin) (op : binop).     (* [TOp _ Sub] is also the unary minus, as in Rust *)

(** [ToTokens]: the token stream of an expression (no parentheses are invented). *)
Fixpoint tokens_of (e : expr) : list token :=
  match e with
  | ELit o n => [TLit o n]
  | EParen e' => TLP :: tokens_of e' ++ [TRP]
  | EUn Neg e' => TOp User Sub :: tokens_of e'
  | EUn Not e' => TBang :: tokens_of e'
  | EBin o op l r => tokens_of l ++ TOp o op :: tokens_of r
  end.

(** * The parser rustc applies to the emitted tokens: precedence climbing.
    [parse_expr minp]: an operand, then as many [op operand] as bind at least as
    tightly as [minp]; the right operand of [op] is parsed at [prec op + 1]. *)
Fixpoint parse_expr (fuel : nat) (minp : nat) (ts : list token) {struct fuel} : option (expr * list token) :=
  match fuel with
  | O => None
  | S f =>
      match parse_atom f ts with
      | Some (a, r) => parse_loop f minp a r
      | None => None
      end
  end
with parse_atom (fuel : nat) (ts : list token) {struct fuel} : option (expr * list token) :=
  match fuel with
  | O => None
  | S f =>
      match ts with
      | TLit o n :: r => Some (ELit o n, r)
      | TLP :: r =>
          match parse_expr f 0 r with
          | Some (e, TRP :: r') => Some (EParen e, r')
          | _ => None
          end
      | TOp _ Sub :: r =>
          match parse_atom f r with
          | Some (e, r') => Some (EUn Neg e, r')
          | None => None
          end
      | TBang :: r =>
          match parse_atom f r with
          | Some (e, r') => Some (EUn Not e, r')
          | None => None
          end
      | _ => None
      end
  end
with parse_loop (fuel : nat) (minp : nat) (lhs : expr) (ts : list token) {struct fuel} : option (expr * list token) :=
  match fuel with
  | O => None
  | S f =>
      match ts with
      | TOp o op :: r =>
          if Nat.leb minp (prec op) then
            match parse_expr f (S (prec op)) r with
            | Some (rhs, r') => parse_loop f minp (EBin o op lhs rhs) r'
            | None => None
            end
          else Some (lhs, ts)
      | _ => Some (lhs, ts)
      end
  end.

(** Enough fuel for any token list of that length (each call consumes a token or
    is followed by one that does; see [DiscrFacts.parse_complete]). *)
Definition parse_fuel (ts : list token) : nat := (3 * length ts + 3)%nat.

(** A complete expression: all tokens consumed. *)
Definition parse (ts : list token) : option expr :=
  match parse_expr (parse_fuel ts) 0 ts with
  | Some (e, []) => Some e
  | _ => None
  end.

(** * Constant evaluation in an integer type *)
Inductive ity := ISize | U8 | I32.     (* enum discriminants / borsh tags / shift amounts *)

Definition bits (t : ity) : Z := match t with ISize => 64 | U8 => 8 | I32 => 32 end.
Definition ity_min (t : ity) : Z := match t with ISize => - 2 ^ 63 | U8 => 0 | I32 => - 2 ^ 31 end.
Definition ity_max (t : ity) : Z := match t with ISize => 2 ^ 63 - 1 | U8 => 255 | I32 => 2 ^ 31 - 1 end.
Definition fits (t : ity) (z : Z) : bool := (ity_min t <=? z) && (z <=? ity_max t).
Definition chk (t : ity) (z : Z) : option Z := if fits t z then Some z else None.

(** two's complement wrap-around into the type *)
Definition wrap (t : ity) (z : Z) : Z :=
  let m := 2 ^ bits t in
  let r := z mod m in
  match t with
  | U8 => r
  | _ => if r <=? ity_max t then r else r - m
  end.

Definition obind {A B} (o : option A) (f : A -> option B) : option B :=
  match o with Some a => f a | None => None end.

(** [lax = true]: operations written by the macro are not checked at compile time
    (rustc does not lint macro-generated code) and wrap; [lax = false]: every
    operation must stay in range (const evaluation of a discriminant; debug-build
    arithmetic). *)
Definition arith (lax : bool) (t : ity) (o : origin) (z : Z) : option Z :=
  match lax, o with
  | true, Macro => Some (wrap t z)
  | _, _ => chk t z
  end.

Fixpoint eval (lax : bool) (t : ity) (e : expr) {struct e} : option Z :=
  match e with
  | ELit _ n => chk t (Z.of_N n)                    (* [overflowing_literals] *)
  | EParen e' => eval lax t e'
  | EUn Neg e' =>
      match t with
      | U8 => None                                   (* E0600: cannot apply unary [-] to [u8] *)
      | _ => obind (eval lax t e') (fun x => chk t (- x))
      end
  | EUn Not e' =>
      obind (eval lax t e') (fun x => Some (match t with U8 => 255 - x | _ => - x - 1 end))
  | EBin o op l r =>
      match op with
      | Shl | Shr =>
          (* the shift amount is typed on its own; an unsuffixed literal defaults to i32 *)
          obind (eval lax t l) (fun x =>
          obind (eval lax I32 r) (fun s =>
          if (0 <=? s) && (s <? bits t)
          then Some (match op with Shl => wrap t (x * 2 ^ s) | _ => x / 2 ^ s end)
          else None))
      | _ =>
          obind (eval lax t l) (fun x =>
          obind (eval lax t r) (fun y =>
          match op with
          | Mul => arith lax t o (x * y)
          | Div => if y =? 0 then None else arith lax t o (Z.quot x y)
          | Rem => if y =? 0 then None else arith lax t o (Z.rem x y)
          | Add => arith lax t o (x + y)
          | Sub => arith lax t o (x - y)
          | BitAnd => Some (Z.land x y)
          | BitXor => Some (Z.lxor x y)
          | BitOr => Some (Z.lor x y)
          | _ => None
          end))
      end
  end.

(** Which phase of rustc refuses a tag expression typed [u8] (the phases mask one another:
    type errors hide lints).  Shift amounts are [i32], where [-] is legal. *)
Fixpoint has_neg (t : ity) (e : expr) : bool :=
  match e with
  | ELit _ _ => false
  | EParen e' => has_neg t e'
  | EUn Neg e' => match t with U8 => true | _ => has_neg t e' end
  | EUn Not e' => has_neg t e'
  | EBin _ (Shl | Shr) l r => has_neg t l || has_neg I32 r
  | EBin _ _ l r => has_neg t l || has_neg t r
  end.
Fixpoint has_big_lit (t : ity) (e : expr) : bool :=
  match e with
  | ELit _ n => negb (fits t (Z.of_N n))
  | EParen e' | EUn _ e' => has_big_lit t e'
  | EBin _ (Shl | Shr) l r => has_big_lit t l || has_big_lit I32 r
  | EBin _ _ l r => has_big_lit t l || has_big_lit t r
  end.

(** * The language rule (Rust reference, "Assigning discriminant values"):
    an explicit expression is evaluated; an implicit discriminant is the previous
    one plus one; the first implicit one is zero.  [t = ISize] is the language. *)
Fixpoint rust_discrs_from (t : ity) (next : option Z) (ds : list (option expr)) : list (option Z) :=
  match ds with
  | [] => []
  | d :: rest =>
      let this := match d with
                  | Some e => eval false t e
                  | None => obind next (chk t)
                  end in
      this :: rust_discrs_from t (obind this (fun z => Some (z + 1))) rest
  end.
Definition rust_discrs (t : ity) (ds : list (option expr)) : list (option Z) :=
  rust_discrs_from t (Some 0) ds.
Definition rust_discr (ds : list (option expr)) (i : nat) : option Z :=
  nth i (rust_discrs ISize ds) None.

(** * [Discriminants::new], as it is now:
    [this = explicit ? (Lit | Path | Paren => e, _ => (e)) : next];  [next = this + 1]
    on token streams; [grouping = false] is the code before the F5 repair ([#e] unconditionally). *)
Definition group (grouping : bool) (e : expr) : list token :=
  match e with
  | ELit _ _ | EParen _ => tokens_of e
  | _ => if grouping then TLP :: tokens_of e ++ [TRP] else tokens_of e
  end.
Definition PLUS_ONE : list token := [TOp Macro Add; TLit Macro 1].

Fixpoint derive_discrs_from (grouping : bool) (next : list token) (ds : list (option expr)) : list (list token) :=
  match ds with
  | [] => []
  | d :: rest =>
      let this := match d with
                  | Some e => group grouping e
                  | None => next
                  end in
      this :: derive_discrs_from grouping (this ++ PLUS_ONE) rest
  end.
Definition derive_discrs (ds : list (option expr)) : list (list token) :=
  derive_discrs_from true [TLit Macro 0] ds.
Definition derive_discrs_asfound (ds : list (option expr)) : list (list token) :=
  derive_discrs_from false [TLit Macro 0] ds.
Definition derive_discr (ds : list (option expr)) (i : nat) : list token :=
  nth i (derive_discrs ds) [].

(** What rustc makes of a spliced tag expression, in type [t]. *)
Definition tag_eval (lax : bool) (t : ity) (ts : list token) : option Z :=
  obind (parse ts) (eval lax t).

(** Expressions whose value does not depend on the integer type they are typed at:
    no bitwise complement, no left shift that pushes bits out of a [u8]. *)
Fixpoint stable (e : expr) : bool :=
  match e with
  | ELit _ _ => true
  | EParen e' => stable e'
  | EUn Not _ => false
  | EUn Neg e' => stable e'
  | EBin _ Shl l r =>
      stable l &&
      match eval false U8 l, eval false I32 r with
      | Some x, Some s => x * 2 ^ s <=? 255
      | _, _ => true
      end
  | EBin _ Shr l r => stable l                   (* the amount is [i32] on both sides *)
  | EBin _ _ l r => stable l && stable r
  end.
