(** Every sequence of the generated container has a length range that fits [u64] when every
    array length of the type does ([arrays_fit]): the [ranges_fit 64] hypothesis of C10_exact /
    C08_validates is a property of the type. *)
From Coq Require Import String Ascii List NArith ZArith Bool Lia.
From Borsh Require Import Bytes BytesFacts Result LoopFacts Ty TyInd Schema SchemaFns SchemaSpec SchemaOf SchemaOfFacts
     SchemaOfCover SchemaOfDecode SchemaOfValidate SchemaOfSorted.
Import ListNotations.
Local Open Scope N_scope.
Local Open Scope string_scope.
Local Open Scope list_scope.

Definition fits_def (def : definition) : Prop :=
  match def with Sequence _ _ hi _ => hi < 2 ^ 64 | _ => True end.
Definition fits_map (m : defmap) : Prop := forall d def, lookup m d = Some def -> fits_def def.

Lemma add_fits d def a b : fits_map a -> fits_def def -> add_definition d def a = Ok b -> fits_map b.
Proof.
  intros Ha Hq H d0 e L. destruct (add_definition_ok _ _ _ _ H) as (L1 & L2 & _).
  destruct (string_dec d0 d) as [->|Hne]; [rewrite L1 in L; inversion L; subst; exact Hq|].
  rewrite (L2 d0 Hne) in L. exact (Ha d0 e L).
Qed.

Notation kp := (keeps fits_map).

Lemma kp_add d def : fits_def def -> kp (add_definition d def).
Proof. intros Hq a b Ha H. eapply add_fits; eauto. Qed.
Lemma kp_ret : kp (fun ds => Ok ds).
Proof. intros a b Ha H. inversion H; subst. exact Ha. Qed.
Lemma kp_bind f g : kp f -> kp g -> kp (fun ds => ds1 <- f ds ;; g ds1).
Proof. intros Hf Hg a b Ha H. apply bind_ok in H. destruct H as (a1 & H1 & H2). eauto. Qed.
Lemma kp_derived name fs rec : kp rec -> kp (derived_struct name fs rec).
Proof.
  intros Hr a b Ha H. unfold derived_struct in H. apply bind_ok in H. destruct H as (a1 & H1 & H2).
  pose proof (add_fits name (Struct fs) a a1 Ha Logic.I H1) as H1'. destruct (lookup a name); [inversion H2; subst; exact H1'|eauto].
Qed.
Lemma kp_each (f : ty -> defmap -> result defmap) ts : Forall (fun t => kp (f t)) ts -> kp (defs_each f ts).
Proof. induction 1 as [|t tr Ht Htr IH]; cbn [defs_each]; [apply kp_ret|exact (kp_bind _ _ Ht IH)]. Qed.
Lemma kp_fields (f : ty -> defmap -> result defmap) ts : Forall (fun t => kp (f t)) ts -> forall sk, kp (defs_fields f ts sk).
Proof.
  induction 1 as [|t tr Ht Htr IH]; intros sk; cbn [defs_fields]; [apply kp_ret|].
  destruct sk as [|[|] sr]; [exact (kp_bind _ _ Ht (IH []))|apply IH|exact (kp_bind _ _ Ht (IH sr))].
Qed.
Lemma kp_ip n : n < 2 ^ 64 -> kp (ip_defs n).
Proof.
  intros Hn. unfold ip_defs. apply kp_derived.
  apply (kp_bind (add_definition _ _) u8_defs); [apply kp_add; exact Hn|apply kp_add; exact Logic.I].
Qed.
Lemma fits_seq el : fits_def (seq_def el).
Proof. reflexivity. Qed.

Definition kpP (t : ty) : Prop := arrays_fit t = true -> kp (defs_of t).
Definition kpQ (t : ty) : Prop := kpP t /\ (forall fn sk ts, t = TProd (PVariant fn sk) ts -> Forall kpP ts).

Lemma kp_all l : Forall kpP l -> forallb (fun x => arrays_fit x) l = true -> Forall (fun x => kp (defs_of x)) l.
Proof. intros H Hb. exact (forallb_Forall_imp _ _ _ H Hb). Qed.

Theorem defs_of_fits : forall t, kpQ t.
Proof.
  induction t as [p|u|k|k|k t' IH|n t' IH|k ts IH|k vs IH|w t' IH] using ty_ind';
    (split; [intros Hf|try (intros ? ? ? E; discriminate E)]); try (destruct IH as [IH _]).
  - cbn [defs_of]. apply kp_add. exact Logic.I.
  - destruct u; cbn [defs_of]; apply kp_add; exact Logic.I.
  - destruct k; cbn [defs_of]; [apply kp_ip; reflexivity|apply kp_ip; reflexivity|apply kp_ret].
  - destruct k; cbn [defs_of]; try apply kp_ret;
      (apply (kp_bind (add_definition _ _)); [apply kp_add, fits_seq|apply kp_add; exact Logic.I]).
  - cbn [arrays_fit] in Hf. cbn [defs_of]. apply (kp_bind (add_definition _ _)); [apply kp_add, fits_seq|now apply IH].
  - cbn [arrays_fit] in Hf. apply andb_true_iff in Hf. destruct Hf as [Hn Hf]. apply N.ltb_lt in Hn.
    cbn [defs_of]. apply (kp_bind (add_definition _ _)); [apply kp_add; exact Hn|now apply IH].
  - assert (IH' : Forall kpP ts) by (eapply Forall_impl; [|exact IH]; intros x [H _]; exact H).
    cbn [arrays_fit] in Hf. pose proof (kp_all ts IH' Hf) as Hk.
    destruct k as [|r| | |name fn sk|fn sk]; cbn [defs_of]; try apply kp_ret.
    + apply (kp_bind (add_definition _ _)); [apply kp_add; exact Logic.I|]. now apply (kp_each (fun x => defs_of x)).
    + apply (kp_bind (add_definition _ _)); [apply kp_add; exact Logic.I|]. destruct ts as [|t0 tr]; [apply kp_ret|exact (Forall_inv Hk)].
    + apply kp_derived. now apply (kp_fields (fun x => defs_of x)).
  - intros fn sk ts0 E. inversion E; subst. eapply Forall_impl; [|exact IH]. intros x [H _]. exact H.
  - assert (IH' : Forall kpP vs) by (eapply Forall_impl; [|exact IH]; intros x [H _]; exact H).
    cbn [arrays_fit] in Hf. pose proof (kp_all vs IH' Hf) as Hk.
    destruct k as [| | | |name vn tags]; cbn [defs_of]; try apply kp_ret.
    + destruct vs as [|v0 [|t1 [|? ?]]]; try apply kp_ret.
      apply (kp_bind (add_definition _ _)); [apply kp_add; exact Logic.I|].
      apply (kp_bind (defs_of t1) unit_defs); [exact (Forall_inv (Forall_inv_tail Hk))|apply kp_add; exact Logic.I].
    + destruct vs as [|t0 [|t1 [|? ?]]]; try apply kp_ret.
      apply (kp_bind (add_definition _ _)); [apply kp_add; exact Logic.I|].
      apply (kp_bind (defs_of t0) (defs_of t1)); [exact (Forall_inv Hk)|exact (Forall_inv (Forall_inv_tail Hk))].
    + unfold ipaddr_defs. apply (kp_bind (derived_struct _ _ _)); [apply kp_derived, kp_ip; reflexivity|].
      apply (kp_bind (derived_struct _ _ _)); [apply kp_derived, kp_ip; reflexivity|apply kp_add; exact Logic.I].
    + match goal with |- kp (fun ds => ds1 <- ?G vs 0%nat ds ;; _) => set (go := G) end.
      apply (kp_bind (go vs 0%nat)); [|apply kp_add; exact Logic.I].
      assert (Hgo : forall l i, Forall kpQ l -> forallb (fun x => arrays_fit x) l = true -> kp (go l i)).
      { induction l as [|v vr IHl]; intros i Hq Hb; [apply kp_ret|]. cbn [go]. fold go.
        cbn [forallb] in Hb. apply andb_true_iff in Hb. destruct Hb as [Hb1 Hb2].
        apply (kp_bind _ (go vr (S i))); [|apply IHl; [exact (Forall_inv_tail Hq)|exact Hb2]].
        destruct v as [| | | | | |[| | | | |fn sk] ts| |]; try apply kp_ret.
        apply kp_derived. apply (kp_fields (fun x => defs_of x)).
        cbn [arrays_fit] in Hb1. exact (kp_all ts (proj2 (Forall_inv Hq) fn sk ts eq_refl) Hb1). }
      apply Hgo; [exact IH|exact Hf].
  - cbn [arrays_fit] in Hf. cbn [defs_of]. now apply IH.
Qed.

Theorem schema_of_ranges_fit t c : arrays_fit t = true -> schema_of t = Ok c -> ranges_fit 64 c.
Proof.
  unfold schema_of. intros Hf H. apply bind_ok in H. destruct H as (ds & H1 & H2). inversion H2; subst.
  assert (F : fits_map ds) by (apply (proj1 (defs_of_fits t) Hf [] ds); [intros d def L; discriminate L|exact H1]).
  intros d lw lo hi el L. unfold get_definition in L. cbn [defs] in L. exact (F d _ L).
Qed.

(** C08_validates with structural hypotheses only *)
Theorem schema_validates_structural t c :
  has_schema t = true -> coherent t = true -> arrays_fit t = true -> schema_of t = Ok c ->
  (validate c = SOk tt <-> no_empty_coll t = true).
Proof. intros Hs Hco Hf H. apply (schema_validates t c Hs Hco H). exact (schema_of_ranges_fit t c Hf H). Qed.
Print Assumptions schema_validates_structural.
