From Coq Require Import NArith PArith Lia.
From Borsh Require Import Result Loop.
Local Open Scope N_scope.

Lemma bind_assoc {A B C} (r : result A) (f : A -> result B) (g : B -> result C) :
  bind (bind r f) g = bind r (fun x => bind (f x) g).
Proof. destruct r; reflexivity. Qed.

Lemma bind_ext {A B} (r : result A) (f g : A -> result B) :
  (forall x, f x = g x) -> bind r f = bind r g.
Proof. intros H; destruct r; cbn; auto. Qed.

Lemma bind_ok {A B} (r : result A) (f : A -> result B) b :
  bind r f = Ok b -> exists a, r = Ok a /\ f a = Ok b.
Proof. destruct r; cbn; intros H; try discriminate. eauto. Qed.

Lemma iterP_comm {S} (f : S -> result S) p s :
  bind (iterP p f s) f = bind (f s) (iterP p f).
Proof.
  revert s; induction p as [p IH|p IH|]; intros s; cbn [iterP].
  - rewrite !bind_assoc. apply bind_ext; intros s0.
    rewrite bind_assoc.
    transitivity (bind (iterP p f s0) (fun s' => bind (f s') (iterP p f))).
    { apply bind_ext; intros s'. apply IH. }
    rewrite <- bind_assoc, IH, bind_assoc. reflexivity.
  - rewrite bind_assoc.
    transitivity (bind (iterP p f s) (fun s' => bind (f s') (iterP p f))).
    { apply bind_ext; intros s'. apply IH. }
    rewrite <- bind_assoc, IH, !bind_assoc. reflexivity.
  - reflexivity.
Qed.

Lemma iterP_succ {S} (f : S -> result S) p s :
  iterP (Pos.succ p) f s = bind (f s) (iterP p f).
Proof.
  revert s; induction p as [p IH|p IH|]; intros s; cbn [Pos.succ iterP].
  - rewrite IH. rewrite bind_assoc. apply bind_ext; intros s0.
    transitivity (bind (iterP p f s0) (fun s' => bind (f s') (iterP p f))).
    + apply bind_ext; intros s1. apply IH.
    + rewrite <- bind_assoc, iterP_comm, bind_assoc. reflexivity.
  - reflexivity.
  - reflexivity.
Qed.

Lemma iterN_0 {S} (f : S -> result S) s : iterN 0 f s = Ok s.
Proof. reflexivity. Qed.

Lemma iterN_succ {S} (f : S -> result S) n s :
  iterN (N.succ n) f s = bind (f s) (iterN n f).
Proof.
  destruct n as [|p]; cbn [N.succ iterN].
  - cbn [iterP]. destruct (f s); reflexivity.
  - apply iterP_succ.
Qed.

(** Success with an invariant indexed by the iteration count. *)
Lemma iterN_inv {S} (f : S -> result S) (Inv : N -> S -> Prop) n :
  forall base s,
  (forall i s, base <= i -> i < base + n -> Inv i s -> exists s', f s = Ok s' /\ Inv (i + 1) s') ->
  Inv base s -> exists s', iterN n f s = Ok s' /\ Inv (base + n) s'.
Proof.
  induction n as [|n IH] using N.peano_ind; intros base s Hstep H0.
  - exists s. rewrite N.add_0_r. split; [reflexivity|assumption].
  - rewrite iterN_succ.
    destruct (Hstep base s) as (s1 & E1 & I1); [lia|lia|assumption|].
    rewrite E1; cbn [bind].
    destruct (IH (base + 1) s1) as (s' & E' & I'); [|assumption|].
    + intros i s2 Hi1 Hi2 HI. apply Hstep; [lia|lia|assumption].
    + exists s'. split; [assumption|]. now replace (base + N.succ n) with (base + 1 + n) by lia.
Qed.

(** Inversion: whatever a successful run returns satisfies the invariant. *)
Lemma iterN_ok_inv {S} (f : S -> result S) (Inv : N -> S -> Prop) n :
  forall base s s',
  (forall i s s', base <= i -> i < base + n -> Inv i s -> f s = Ok s' -> Inv (i + 1) s') ->
  Inv base s -> iterN n f s = Ok s' -> Inv (base + n) s'.
Proof.
  induction n as [|n IH] using N.peano_ind; intros base s s' Hstep H0 E.
  - cbn in E. inversion E; subst. now rewrite N.add_0_r.
  - rewrite iterN_succ in E. apply bind_ok in E. destruct E as (s1 & E1 & E2).
    replace (base + N.succ n) with (base + 1 + n) by lia.
    apply (IH (base + 1) s1 s'); [|eapply Hstep; eauto; lia|assumption].
    intros i s2 s3 Hi1 Hi2 HI Hf. eapply Hstep; eauto; lia.
Qed.

(** A failing body at iteration [i] (after [i] successful ones) fails the loop the same way. *)
Lemma iterN_fail {S} (f : S -> result S) (Inv : N -> S -> Prop) n :
  forall base s,
  (forall i s, base <= i -> i < base + n -> Inv i s ->
     (exists s', f s = Ok s' /\ Inv (i + 1) s') \/ (exists k m, f s = Err k m)) ->
  Inv base s ->
  (exists s', iterN n f s = Ok s' /\ Inv (base + n) s') \/ (exists k m, iterN n f s = Err k m).
Proof.
  induction n as [|n IH] using N.peano_ind; intros base s Hstep H0.
  - left. exists s. rewrite N.add_0_r. split; [reflexivity|assumption].
  - rewrite iterN_succ.
    destruct (Hstep base s) as [(s1 & E1 & I1)|(k & m & E1)]; [lia|lia|assumption| |].
    + rewrite E1; cbn [bind].
      destruct (IH (base + 1) s1) as [(s' & E' & I')|(k & m & E')]; [|assumption| |].
      * intros i s2 Hi1 Hi2 HI. apply Hstep; [lia|lia|assumption].
      * left. exists s'. split; [assumption|]. now replace (base + N.succ n) with (base + 1 + n) by lia.
      * right. eauto.
    + right. rewrite E1. cbn. eauto.
Qed.

(** [loopP]: with an invariant and a strictly decreasing measure the loop ends within
    any fuel above the initial measure, in a state satisfying the post-condition. *)
Lemma loopP_inv {S A} (f : S -> result (S + A)) (Inv : S -> Prop) (mu : S -> N) (Post : A -> Prop) :
  (forall s, Inv s ->
     (exists s', f s = Ok (inl s') /\ Inv s' /\ mu s' < mu s) \/ (exists a, f s = Ok (inr a) /\ Post a)) ->
  forall p s, Inv s ->
    (exists a, loopP p f s = Ok (inr a) /\ Post a) \/
    (exists s', loopP p f s = Ok (inl s') /\ Inv s' /\ mu s' + Npos p <= mu s).
Proof.
  intros Hstep. induction p as [p IH|p IH|]; intros s HI; cbn [loopP].
  - destruct (Hstep s HI) as [(s0 & E0 & I0 & M0)|(a & E0 & Pa)]; rewrite E0; cbn [bind].
    + destruct (IH s0 I0) as [(a & E1 & Pa)|(s1 & E1 & I1 & M1)]; rewrite E1; cbn [bind].
      * left; eauto.
      * destruct (IH s1 I1) as [(a & E2 & Pa)|(s2 & E2 & I2 & M2)]; rewrite E2.
        -- left; eauto.
        -- right. exists s2. repeat split; auto. lia.
    + left; eauto.
  - destruct (IH s HI) as [(a & E1 & Pa)|(s1 & E1 & I1 & M1)]; rewrite E1; cbn [bind].
    + left; eauto.
    + destruct (IH s1 I1) as [(a & E2 & Pa)|(s2 & E2 & I2 & M2)]; rewrite E2.
      * left; eauto.
      * right. exists s2. repeat split; auto. lia.
  - destruct (Hstep s HI) as [(s0 & E0 & I0 & M0)|(a & E0 & Pa)]; rewrite E0.
    + right. exists s0. repeat split; auto. lia.
    + left; eauto.
Qed.

Lemma loop_fuel_inv {S A} (f : S -> result (S + A)) (Inv : S -> Prop) (mu : S -> N) (Post : A -> Prop) fuel s :
  (forall s, Inv s ->
     (exists s', f s = Ok (inl s') /\ Inv s' /\ mu s' < mu s) \/ (exists a, f s = Ok (inr a) /\ Post a)) ->
  Inv s -> mu s <= fuel ->
  exists a, loop_fuel fuel f s = Ok a /\ Post a.
Proof.
  intros Hstep HI Hm. unfold loop_fuel.
  destruct (loopP_inv f Inv mu Post Hstep (N.succ_pos fuel) s HI) as [(a & E & Pa)|(s' & E & I' & M')]; rewrite E; cbn [bind].
  - eauto.
  - rewrite N.succ_pos_spec in M'. lia.
Qed.

(** Same with failing steps: the final outcome (value or error) satisfies [Q]. *)
Lemma loopP_inv_q {S A} (f : S -> result (S + A)) (Inv : S -> Prop) (mu : S -> N) (Q : result A -> Prop) :
  (forall s, Inv s ->
     (exists s', f s = Ok (inl s') /\ Inv s' /\ mu s' < mu s) \/
     (exists a, f s = Ok (inr a) /\ Q (Ok a)) \/
     (exists k m, f s = Err k m /\ Q (Err k m))) ->
  forall p s, Inv s ->
    (exists a, loopP p f s = Ok (inr a) /\ Q (Ok a)) \/
    (exists k m, loopP p f s = Err k m /\ Q (Err k m)) \/
    (exists s', loopP p f s = Ok (inl s') /\ Inv s' /\ mu s' + Npos p <= mu s).
Proof.
  intros Hstep. induction p as [p IH|p IH|]; intros s HI; cbn [loopP].
  - destruct (Hstep s HI) as [(s0 & E0 & I0 & M0)|[(a & E0 & Qa)|(k & m & E0 & Qe)]]; rewrite E0; cbn [bind].
    + destruct (IH s0 I0) as [(a & E1 & Qa)|[(k & m & E1 & Qe)|(s1 & E1 & I1 & M1)]]; rewrite E1; cbn [bind].
      * left; eauto.
      * right; left; eauto.
      * destruct (IH s1 I1) as [(a & E2 & Qa)|[(k & m & E2 & Qe)|(s2 & E2 & I2 & M2)]]; rewrite E2.
        -- left; eauto.
        -- right; left; eauto.
        -- right; right. exists s2. repeat split; auto. lia.
    + left; eauto.
    + right; left; eauto.
  - destruct (IH s HI) as [(a & E1 & Qa)|[(k & m & E1 & Qe)|(s1 & E1 & I1 & M1)]]; rewrite E1; cbn [bind].
    + left; eauto.
    + right; left; eauto.
    + destruct (IH s1 I1) as [(a & E2 & Qa)|[(k & m & E2 & Qe)|(s2 & E2 & I2 & M2)]]; rewrite E2.
      * left; eauto.
      * right; left; eauto.
      * right; right. exists s2. repeat split; auto. lia.
  - destruct (Hstep s HI) as [(s0 & E0 & I0 & M0)|[(a & E0 & Qa)|(k & m & E0 & Qe)]]; rewrite E0.
    + right; right. exists s0. repeat split; auto. lia.
    + left; eauto.
    + right; left; eauto.
Qed.

Lemma loop_fuel_inv_q {S A} (f : S -> result (S + A)) (Inv : S -> Prop) (mu : S -> N) (Q : result A -> Prop) fuel s :
  (forall s, Inv s ->
     (exists s', f s = Ok (inl s') /\ Inv s' /\ mu s' < mu s) \/
     (exists a, f s = Ok (inr a) /\ Q (Ok a)) \/
     (exists k m, f s = Err k m /\ Q (Err k m))) ->
  Inv s -> mu s <= fuel -> Q (loop_fuel fuel f s).
Proof.
  intros Hstep HI Hm. unfold loop_fuel.
  destruct (loopP_inv_q f Inv mu Q Hstep (N.succ_pos fuel) s HI)
    as [(a & E & Qa)|[(k & m & E & Qe)|(s' & E & I' & M')]]; rewrite E; cbn [bind]; auto.
  rewrite N.succ_pos_spec in M'. lia.
Qed.
