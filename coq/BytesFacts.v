From Coq Require Import List NArith Lia.
From Coq.Strings Require Import Byte.
From Borsh Require Import Bytes.
Import ListNotations.
Local Open Scope N_scope.

Lemma b2n_lt b : b2n b < 256.
Proof. unfold b2n. pose proof (Byte.to_N_bounded b). lia. Qed.

Lemma n2b_b2n b : n2b (b2n b) = b.
Proof.
  unfold n2b, b2n. rewrite N.mod_small by apply b2n_lt.
  now rewrite Byte.of_to_N.
Qed.

Lemma b2n_n2b n : b2n (n2b n) = n mod 256.
Proof.
  unfold n2b, b2n.
  destruct (Byte.of_N (n mod 256)) eqn:E.
  - now apply Byte.to_of_N.
  - apply Byte.of_N_None_iff in E.
    pose proof (N.mod_upper_bound n 256). lia.
Qed.

Lemma length_le w n : length (le w n) = w.
Proof. revert n; induction w as [|w IH]; intros n; cbn [le length]; [reflexivity|now rewrite IH]. Qed.

Lemma unle_le w n : n < 256 ^ N.of_nat w -> unle (le w n) = n.
Proof.
  revert n; induction w as [|w IH]; intros n Hn.
  - cbn in *. lia.
  - cbn [le unle]. rewrite b2n_n2b.
    rewrite IH.
    + pose proof (N.div_mod n 256). lia.
    + rewrite Nnat.Nat2N.inj_succ, N.pow_succ_r' in Hn.
      apply N.div_lt_upper_bound; lia.
Qed.

Lemma unle_bound bs : unle bs < 256 ^ N.of_nat (length bs).
Proof.
  induction bs as [|b r IH]; cbn [unle length].
  - cbn. lia.
  - rewrite Nnat.Nat2N.inj_succ, N.pow_succ_r'.
    pose proof (b2n_lt b). lia.
Qed.

Lemma addmul_mod b r : b < 256 -> (b + 256 * r) mod 256 = b.
Proof. intros H. replace (256 * r) with (r * 256) by lia. rewrite N.mod_add by lia. now apply N.mod_small. Qed.
Lemma addmul_div b r : b < 256 -> (b + 256 * r) / 256 = r.
Proof. intros H. replace (256 * r) with (r * 256) by lia. rewrite N.div_add by lia. rewrite (N.div_small b) by exact H. lia. Qed.

Lemma le_unle bs : le (length bs) (unle bs) = bs.
Proof.
  induction bs as [|b r IH]; cbn [le unle length]; [reflexivity|].
  pose proof (b2n_lt b) as Hb.
  f_equal.
  - unfold n2b. rewrite addmul_mod by exact Hb.
    unfold b2n. now rewrite Byte.of_to_N.
  - rewrite addmul_div by exact Hb. exact IH.
Qed.

Lemma le_inj w a b : a < 256 ^ N.of_nat w -> b < 256 ^ N.of_nat w -> le w a = le w b -> a = b.
Proof. intros Ha Hb E. rewrite <- (unle_le w a Ha), <- (unle_le w b Hb). now rewrite E. Qed.

Lemma len_fold {A} (l : list A) n : fold_left (fun n _ => N.succ n) l n = n + N.of_nat (length l).
Proof.
  revert n; induction l as [|x r IH]; intros n; cbn [fold_left length].
  - lia.
  - rewrite IH. lia.
Qed.
Lemma len_eq {A} (l : list A) : len l = N.of_nat (length l).
Proof. unfold len. now rewrite len_fold. Qed.
Lemma len_app {A} (a b : list A) : len (a ++ b) = len a + len b.
Proof. rewrite !len_eq, app_length. lia. Qed.
Lemma len_nil {A} : len (@nil A) = 0.
Proof. reflexivity. Qed.
Lemma len_cons {A} (x : A) l : len (x :: l) = N.succ (len l).
Proof. rewrite !len_eq. cbn [length]. lia. Qed.

(** take *)
Lemma take_aux_spec bs n acc :
  take_pos_aux bs n acc =
  if n <=? len bs then Some (rev acc ++ firstn (N.to_nat n) bs, skipn (N.to_nat n) bs) else None.
Proof.
  revert n acc. induction bs as [|b r IH]; intros n acc; cbn [take_pos_aux]; rewrite ?rev_append_rev, ?app_nil_r.
  - rewrite len_eq; cbn [length].
    destruct (N.eqb_spec n 0) as [->|Hn]; cbn.
    + now rewrite app_nil_r.
    + destruct (N.leb_spec n 0); [lia|reflexivity].
  - destruct (N.eqb_spec n 0) as [->|Hn].
    + destruct (N.leb_spec 0 (len (b :: r))); [|lia]. cbn. now rewrite app_nil_r.
    + rewrite IH. rewrite !len_eq. cbn [length]. rewrite Nnat.Nat2N.inj_succ.
      destruct (N.leb_spec (N.pred n) (N.of_nat (length r))); destruct (N.leb_spec n (N.succ (N.of_nat (length r)))); try lia.
      * replace (N.to_nat n) with (S (N.to_nat (N.pred n))) by lia.
        cbn [firstn skipn rev]. now rewrite <- app_assoc.
      * reflexivity.
Qed.

Lemma take_spec n bs :
  take n bs = if n <=? len bs then Some (firstn (N.to_nat n) bs, skipn (N.to_nat n) bs) else None.
Proof. unfold take. now rewrite take_aux_spec. Qed.

Lemma take_app a rest : take (len a) (a ++ rest) = Some (a, rest).
Proof.
  rewrite take_spec. rewrite !len_eq. rewrite app_length, Nnat.Nat2N.inj_add.
  destruct (N.leb_spec (N.of_nat (length a)) (N.of_nat (length a) + N.of_nat (length rest))); [|lia].
  rewrite Nnat.Nat2N.id, firstn_app, skipn_app, PeanoNat.Nat.sub_diag, firstn_all, skipn_all.
  cbn. now rewrite app_nil_r.
Qed.

Lemma take_Some n bs a r : take n bs = Some (a, r) -> bs = a ++ r /\ len a = n.
Proof.
  rewrite take_spec. destruct (N.leb_spec n (len bs)) as [H|H]; [|discriminate].
  intros E; inversion E; subst; clear E. split.
  - now rewrite firstn_skipn.
  - rewrite !len_eq in *. rewrite firstn_length. lia.
Qed.

Lemma take_None n bs : take n bs = None -> len bs < n.
Proof. rewrite take_spec. destruct (N.leb_spec n (len bs)); [discriminate|auto]. Qed.
