(** Reader side: what [read_exact] and the byte-vector loop [bulk] compute over any
    reader whose [read] obeys an abstract specification; the generic simulation of
    [dec] between two readers; the scheduled readers against the slice reader. *)
From Coq Require Import List NArith PArith Bool Lia.
From Borsh Require Import Bytes BytesFacts Result Loop LoopFacts Ty TyInd Ser De Entry Io IoProofsBase.
Import ListNotations.
Local Open Scope N_scope.

(** * Part 1: loops over a specified [read] *)
Section RawSpec.
  Context {S : Type}.
  Variable rd : N -> S -> read_result * S.
  Variable budget : S -> N.
  Variable view : S -> bytes.             (* the bytes still to come *)
  Variable good : S -> Prop.              (* the states the analysis covers *)
  Variable fault : option (kind * msg).   (* the one hard failure the reader may raise *)

  Definition rd_spec : Prop := forall n s, good s -> 0 < n ->
    match rd n s with
    | (RIntr, s') => good s' /\ view s' = view s /\ budget s' < budget s
    | (RData ch, s') => good s' /\ view s = ch ++ view s' /\ len ch <= n /\
                        (ch = [] -> view s = []) /\ budget s' <= budget s
    | (RFail k m, _) => fault = Some (k, m)
    end.

  (** Outcome of "read exactly n bytes": the fault, or n bytes and a good state, or
      the end-of-input error [ek, em] when fewer than n bytes remain. *)
  Definition Out (ek : kind) (em : msg) (n : N) (s : S) (r : result (bytes * S)) : Prop :=
    (exists k m, fault = Some (k, m) /\ r = Err k m) \/
    (exists a s', r = Ok (a, s') /\ good s' /\ view s = a ++ view s' /\ len a = n) \/
    (len (view s) < n /\ r = Err ek em).

  Hypothesis Hrd : rd_spec.

  Lemma read_exact_std_out n s :
    good s -> Out UnexpectedEof MFillWhole n s (read_exact_std rd budget n s).
  Proof.
    intros Hg. unfold read_exact_std.
    apply (loop_fuel_gen (rx_step_std rd)
             (fun st : N * list bytes * S =>
                let '(need, acc, s1) := st in
                good s1 /\ view s = concat (rev acc) ++ view s1 /\ len (concat (rev acc)) + need = n)
             (fun st : N * list bytes * S => let '(need, _, s1) := st in need + budget s1)).
    - intros [[need acc] s1] (G1 & V1 & L1). unfold rx_step_std.
      destruct (N.eqb_spec need 0) as [->|Hn]; cbn [lift_out].
      + right; left. exists (concat (rev acc)), s1. repeat split; auto. lia.
      + pose proof (Hrd need s1 G1 ltac:(lia)) as Hs.
        destruct (rd need s1) as [[[|b ch]| |k m] s2]; cbn [lift_out].
        * destruct Hs as (_ & _ & _ & Hnil & _). right; right. split; [|reflexivity].
          rewrite V1, Hnil by reflexivity. rewrite app_nil_r. lia.
        * destruct Hs as (G2 & V2 & Lc & _ & B2). split.
          -- split; [assumption|]. rewrite concat_rev_cons. split.
             ++ rewrite V1, V2. now rewrite app_assoc.
             ++ rewrite len_app. lia.
          -- pose proof (len_pos_cons b ch). lia.
        * destruct Hs as (G2 & V2 & B2). split; [|lia]. split; [assumption|]. split; [congruence|lia].
        * left. eauto.
    - cbn. repeat split; auto.
    - lia.
  Qed.

  Lemma read_exact_shim_out n s :
    good s -> Out UnexpectedEof MFillWhole n s (read_exact_shim rd budget n s).
  Proof. rewrite <- read_exact_std_shim. apply read_exact_std_out. Qed.

  (** [bulk] only uses [rd_some] and [rd_budget]. *)
  Lemma bulk_out (R : reader S) n s :
    rd_some R = rd -> rd_budget R = budget ->
    good s -> Out InvalidData MUnexpectedLength n s (bulk R n s).
  Proof.
    intros ER EB Hg. unfold bulk. rewrite EB.
    apply (loop_fuel_gen (bulk_step R n)
             (fun st : N * N * list bytes * S =>
                let '(buf, pos, acc, s1) := st in
                good s1 /\ view s = concat (rev acc) ++ view s1 /\ len (concat (rev acc)) = pos /\
                pos <= n /\ pos <= buf /\ buf <= n /\ (0 < n -> 0 < buf))
             (fun st : N * N * list bytes * S => let '(_, pos, _, s1) := st in (n - pos) + budget s1)).
    - intros [[[buf pos] acc] s1] (G1 & V1 & L1 & Pn & Pb & Bn & B0). unfold bulk_step. rewrite ER.
      destruct (N.ltb_spec pos n) as [Hlt|Hge]; cbn [lift_out].
      + set (buf' := if pos =? buf then N.min (2 * buf) n else buf).
        assert (Hb' : pos < buf' /\ buf' <= n /\ 0 < buf').
        { unfold buf'. destruct (N.eqb_spec pos buf) as [->|Hne]; lia. }
        pose proof (Hrd (buf' - pos) s1 G1 ltac:(lia)) as Hs.
        destruct (rd (buf' - pos) s1) as [[[|b ch]| |k m] s2]; cbn [lift_out].
        * destruct Hs as (_ & _ & _ & Hnil & _). right; right. split; [|reflexivity].
          rewrite V1, Hnil by reflexivity. rewrite app_nil_r. lia.
        * destruct Hs as (G2 & V2 & Lc & _ & B2).
          pose proof (len_pos_cons b ch) as Hpos. split.
          -- split; [assumption|]. rewrite concat_rev_cons. split; [|split].
             ++ rewrite V1, V2. now rewrite app_assoc.
             ++ rewrite len_app. lia.
             ++ lia.
          -- lia.
        * destruct Hs as (G2 & V2 & B2). split; [|lia]. split; [assumption|]. split; [congruence|lia].
        * left. eauto.
      + right; left. exists (concat (rev acc)), s1. repeat split; auto. lia.
    - cbn. unfold CHUNK. repeat split; auto; lia.
    - lia.
  Qed.
End RawSpec.

(** * Part 2: the slice reader *)
Lemma slice_rd_spec :
  rd_spec (rd_some slice_reader) (fun _ => 0) (fun bs : bytes => bs) (fun _ => True) None.
Proof.
  intros n bs _ Hn. cbn [rd_some slice_reader].
  destruct (take (N.min n (len bs)) bs) as [[a r]|] eqn:E.
  - apply take_Some in E. destruct E as [-> La]. repeat split; auto; try lia.
    intros ->. rewrite len_nil in La. cbn [app]. cbn [app] in La.
    apply len_zero_nil. lia.
  - apply take_None in E. lia.
Qed.

Lemma slice_exact_out n bs :
  Out (fun bs : bytes => bs) (fun _ => True) None UnexpectedEof MFillWhole n bs (rd_exact slice_reader n bs).
Proof.
  cbn [rd_exact slice_reader]. destruct (take n bs) as [[a r]|] eqn:E.
  - apply take_Some in E. destruct E as [-> La]. right; left. exists a, r. auto.
  - apply take_None in E. right; right. auto.
Qed.

Lemma slice_bulk_out n bs :
  Out (fun bs : bytes => bs) (fun _ => True) None InvalidData MUnexpectedLength n bs (bulk slice_reader n bs).
Proof. apply (bulk_out _ _ _ _ _ slice_rd_spec); auto. Qed.

(** * Part 3: generic simulation of [dec] *)
Section Sim.
  Context {S1 S2 : Type} (R1 : reader S1) (R2 : reader S2) (c : cfg).
  Variable rel : S1 -> S2 -> Prop.
  Variable fault : option (kind * msg).
  Hypothesis fault_not_eof : forall k m, fault = Some (k, m) -> k <> UnexpectedEof.

  (** Same outcome (value, kind, message), related states — unless the first reader
      raised its fault, which then comes out unchanged. *)
  Definition gsim {A} (r1 : result (A * S1)) (r2 : result (A * S2)) : Prop :=
    (exists k m, fault = Some (k, m) /\ r1 = Err k m) \/
    match r1, r2 with
    | Ok (a1, s1), Ok (a2, s2) => a1 = a2 /\ rel s1 s2
    | Err k1 m1, Err k2 m2 => k1 = k2 /\ m1 = m2
    | Panic w1, Panic w2 => w1 = w2
    | _, _ => False
    end.

  Hypothesis exact_sim : forall n s1 s2, rel s1 s2 -> gsim (rd_exact R1 n s1) (rd_exact R2 n s2).
  Hypothesis bulk_sim : forall n s1 s2, rel s1 s2 -> gsim (bulk R1 n s1) (bulk R2 n s2).

  Lemma gsim_ok {A} (a : A) s1 s2 : rel s1 s2 -> gsim (Ok (a, s1)) (Ok (a, s2)).
  Proof. intros H. right. cbn. auto. Qed.
  Lemma gsim_err {A} k m : @gsim A (Err k m) (Err k m).
  Proof. right. cbn. auto. Qed.
  Lemma gsim_panic {A} w : @gsim A (Panic w) (Panic w).
  Proof. right. cbn. auto. Qed.

  Lemma gsim_bind {A B} (r1 : result (A * S1)) (r2 : result (A * S2))
        (f1 : A * S1 -> result (B * S1)) (f2 : A * S2 -> result (B * S2)) :
    gsim r1 r2 ->
    (forall a s1 s2, rel s1 s2 -> gsim (f1 (a, s1)) (f2 (a, s2))) ->
    gsim (bind r1 f1) (bind r2 f2).
  Proof.
    intros [(k & m & F & ->)|H] Hf.
    - left. exists k, m. auto.
    - destruct r1 as [[a1 s1]|k1 m1|w1], r2 as [[a2 s2]|k2 m2|w2]; cbn in H; try contradiction.
      + destruct H as [-> Hr]. cbn [bind]. now apply Hf.
      + destruct H as [-> ->]. apply gsim_err.
      + subst. apply gsim_panic.
  Qed.

  Lemma gsim_map_eof {A} (r1 : result (A * S1)) (r2 : result (A * S2)) :
    gsim r1 r2 -> gsim (map_eof r1) (map_eof r2).
  Proof.
    intros [(k & m & F & ->)|H].
    - left. exists k, m. split; [assumption|].
      pose proof (fault_not_eof k m F). destruct k; try reflexivity. contradiction.
    - destruct r1 as [[a1 s1]|k1 m1|w1], r2 as [[a2 s2]|k2 m2|w2]; cbn in H; try contradiction.
      + right. cbn. assumption.
      + destruct H as [-> ->]. destruct k2; cbn; apply gsim_err.
      + right. cbn. assumption.
  Qed.

  Lemma read_mapped_sim n s1 s2 : rel s1 s2 -> gsim (read_mapped R1 n s1) (read_mapped R2 n s2).
  Proof. intros H. unfold read_mapped. apply gsim_map_eof. now apply exact_sim. Qed.

  Lemma read_u8_sim s1 s2 : rel s1 s2 -> gsim (read_u8 R1 s1) (read_u8 R2 s2).
  Proof.
    intros H. unfold read_u8. apply gsim_bind; [now apply read_mapped_sim|].
    intros a t1 t2 Hr. now apply gsim_ok.
  Qed.
  Lemma read_u32_sim s1 s2 : rel s1 s2 -> gsim (read_u32 R1 s1) (read_u32 R2 s2).
  Proof.
    intros H. unfold read_u32. apply gsim_bind; [now apply read_mapped_sim|].
    intros a t1 t2 Hr. now apply gsim_ok.
  Qed.

  Section Elems.
    Variable f1 : S1 -> result (val * S1).
    Variable f2 : S2 -> result (val * S2).
    Hypothesis Hf : forall s1 s2, rel s1 s2 -> gsim (f1 s1) (f2 s2).

    Lemma iter_sim n : forall (acc : list val) s1 s2, rel s1 s2 ->
      gsim (iterN n (fun '(acc, s) => '(v, s') <- f1 s ;; Ok (v :: acc, s')) (acc, s1))
           (iterN n (fun '(acc, s) => '(v, s') <- f2 s ;; Ok (v :: acc, s')) (acc, s2)).
    Proof.
      induction n as [|n IH] using N.peano_ind; intros acc s1 s2 Hr.
      - cbn [iterN]. now apply gsim_ok.
      - rewrite !iterN_succ. apply gsim_bind.
        + apply gsim_bind; [now apply Hf|]. intros v t1 t2 Ht. now apply gsim_ok.
        + intros acc' t1 t2 Ht. now apply IH.
    Qed.

    Lemma repeat_dec_sim n s1 s2 : rel s1 s2 -> gsim (repeat_dec f1 n s1) (repeat_dec f2 n s2).
    Proof.
      intros Hr. unfold repeat_dec. apply gsim_bind; [now apply iter_sim|].
      intros acc t1 t2 Ht. now apply gsim_ok.
    Qed.

    Lemma dec_vec_sim u8 s1 s2 : rel s1 s2 -> gsim (dec_vec R1 u8 f1 s1) (dec_vec R2 u8 f2 s2).
    Proof.
      intros Hr. unfold dec_vec. apply gsim_bind; [now apply read_u32_sim|].
      intros n t1 t2 Ht. destruct (n =? 0); [now apply gsim_ok|].
      destruct u8.
      - apply gsim_bind; [now apply bulk_sim|]. intros b u1 u2 Hu. now apply gsim_ok.
      - now apply repeat_dec_sim.
    Qed.
  End Elems.

  Lemma gsim_pure_bind {A} (r : result A) (s1 : S1) (s2 : S2) :
    rel s1 s2 -> gsim (v <- r ;; Ok (v, s1)) (v <- r ;; Ok (v, s2)).
  Proof.
    intros Hr. destruct r; cbn [bind]; [now apply gsim_ok|apply gsim_err|apply gsim_panic].
  Qed.

  Lemma dec_fields_sim (ts : list ty) :
    Forall (fun t => forall s1 s2, rel s1 s2 -> gsim (dec R1 c t s1) (dec R2 c t s2)) ts ->
    forall sk s1 s2, rel s1 s2 ->
      gsim (dec_fields (fun t' s => dec R1 c t' s) ts sk s1) (dec_fields (fun t' s => dec R2 c t' s) ts sk s2).
  Proof.
    induction 1 as [|t tr Ht _ IH]; intros sk s1 s2 Hr; cbn [dec_fields].
    - now apply gsim_ok.
    - apply gsim_bind.
      + destruct (match sk with b :: _ => b | [] => false end); [now apply gsim_ok|now apply Ht].
      + intros v t1 t2 Hr1. apply gsim_bind; [now apply IH|].
        intros r u1 u2 Hu. now apply gsim_ok.
  Qed.

  Lemma nth_or_sim (vs : list ty) {A} (wrap : val -> A) :
    Forall (fun t => forall s1 s2, rel s1 s2 -> gsim (dec R1 c t s1) (dec R2 c t s2)) vs ->
    forall n k m s1 s2, rel s1 s2 ->
      gsim (nth_or (fun t' => dec R1 c t' s1) (Err k m) vs n) (nth_or (fun t' => dec R2 c t' s2) (Err k m) vs n).
  Proof.
    induction 1 as [|t tr Ht _ IH]; intros n k m s1 s2 Hr.
    - destruct n; cbn [nth_or]; apply gsim_err.
    - destruct n; cbn [nth_or]; [now apply Ht|now apply IH].
  Qed.

  Theorem dec_sim : forall t s1 s2, rel s1 s2 -> gsim (dec R1 c t s1) (dec R2 c t s2).
  Proof.
    induction t as [p|u|k|k|k t IH|n t IH|k ts IH|k vs IH|w t IH] using ty_ind'; intros s1 s2 Hr.
    - (* TPrim *) cbn [dec]. apply gsim_bind; [now apply read_mapped_sim|].
      intros b t1 t2 Ht. destruct (prim_de_check p (unle b)); [apply gsim_err|now apply gsim_ok].
    - (* TUnit *) cbn [dec]. now apply gsim_ok.
    - (* TRaw *) cbn [dec]. apply gsim_bind; [now apply read_mapped_sim|].
      intros b t1 t2 Ht. now apply gsim_ok.
    - (* TText *)
      destruct k; cbn [dec];
        try (apply gsim_bind;
             [apply dec_vec_sim; [intros; apply gsim_panic|assumption]
             |intros l t1 t2 Ht; now apply gsim_pure_bind]).
      apply gsim_bind; [now apply read_u32_sim|]. intros n t1 t2 Ht.
      apply gsim_bind.
      + apply repeat_dec_sim; [|assumption]. intros u1 u2 Hu.
        apply gsim_bind; [now apply read_u8_sim|]. intros b w1 w2 Hw. now apply gsim_ok.
      + intros l u1 u2 Hu. now apply gsim_ok.
    - (* TSeq *) cbn [dec]. destruct (mem_zst (key_ty k t)); [apply gsim_err|].
      apply gsim_bind; [apply dec_vec_sim; assumption|].
      intros l t1 t2 Ht. now apply gsim_pure_bind.
    - (* TArray *) cbn [dec]. destruct (is_u8 t).
      + apply gsim_bind; [now apply read_mapped_sim|]. intros b t1 t2 Ht. now apply gsim_ok.
      + apply gsim_bind; [apply repeat_dec_sim; assumption|]. intros l t1 t2 Ht. now apply gsim_ok.
    - (* TProd *) cbn [dec]. apply gsim_bind; [now apply dec_fields_sim|].
      intros l t1 t2 Ht. now apply gsim_ok.
    - (* TSum *) cbn [dec]. apply gsim_bind; [now apply read_u8_sim|].
      intros b t1 t2 Ht. destruct (find_tag (sum_tags k) b 0) as [i|]; [|apply gsim_err].
      apply gsim_bind; [now apply (nth_or_sim vs (fun v => v))|].
      intros v u1 u2 Hu. now apply gsim_ok.
    - (* TWrap *) cbn [dec]. now apply IH.
  Qed.
End Sim.
