(** Sample items, discriminant lists and types used by the non-vacuity examples of
    Properties/C06.v (definitions only). *)
From Coq Require Import String.
From Coq Require Import List ZArith NArith Bool.
From Borsh Require Import Bytes Result Ty Ser De Discr Item DeriveCheck Derive.
Import ListNotations.
Open Scope string_scope.
Definition L n := ELit User n.
Definition U8t := TPrim (PInt false W1).
Definition U16t := TPrim (PInt false W2).
Definition U32t := TPrim (PInt false W4).
Definition mkv n d fs := {| v_name := n; v_attrs := []; v_discr := d; v_fields := fs |}.
Definition mkf n a t := {| f_name := n; f_attrs := a; f_ty := t |}.
Definition ud (b : bool) : attrs item_meta :=
  [[{| im_key := IKUseDiscriminant; im_val := if b then MVTrue else MVFalse |}]].
Definition cfg0 : cfg := {| strict := true |}.
Definition ds2 : list (option expr) := [Some (EBin User BitOr (L 1) (L 2)); None].
Definition ds7 : list (option expr) :=
  [ Some (EBin User BitOr (L 1) (L 2)); None;
    Some (EBin User Add (L 2) (EBin User Mul (L 3) (L 2))); None;
    Some (EBin User Shl (L 1) (L 3));
    Some (EParen (L 5)); None ].
Definition S4 : item :=
  {| it_name := "S"; it_attrs := [];
     it_body := BStruct (FNamed
       [ mkf "a" [] U8t;
         mkf "b" [[FSkip]] U32t;
         mkf "c" [[FSerializeWith "f" U16t; FDeserializeWith "g" U16t]] U32t;
         mkf "d" [] U8t ]) |}.
Definition S4_ty : ty :=
  TProd (PStruct "S" ["a"; "b"; "c"; "d"] [false; true; false; false]) [U8t; U32t; U16t; U8t].
Definition EU : item :=
  {| it_name := "E"; it_attrs := [];
     it_body := BEnum
       [ mkv "A" None (FNamed [mkf "x" [] U8t; mkf "y" [[FSkip]] U8t; mkf "z" [] U16t]);
         mkv "B" None FUnit ] |}.
Definition EU_ty : ty :=
  TSum (KEnum "E" ["A"; "B"] [0; 1]%N)
       [ TProd (PVariant ["x"; "y"; "z"] [false; true; false]) [U8t; U8t; U16t];
         TProd (PVariant [] []) [] ].
Definition vsT : list variant :=
  [ mkv "A" (Some (EBin User BitOr (L 1) (L 2))) FUnit;
    mkv "B" None (FTuple [mkf "0" [[FSkip]] U8t; mkf "1" [] U8t]);
    mkv "C" (Some (EBin User Add (L 2) (EBin User Mul (L 3) (L 2)))) FUnit;
    mkv "D" None FUnit ].
Definition ET : item := {| it_name := "E"; it_attrs := ud true; it_body := BEnum vsT |}.
Definition ET_ty : ty :=
  TSum (KEnum "E" ["A"; "B"; "C"; "D"] [3; 4; 8; 9]%N)
       [ TProd (PVariant [] []) [];
         TProd (PVariant ["0"; "1"] [true; false]) [U8t; U8t];
         TProd (PVariant [] []) [];
         TProd (PVariant [] []) [] ].
Definition EF : item := {| it_name := "E"; it_attrs := ud false; it_body := BEnum vsT |}.
Definition EI : item :=
  {| it_name := "E"; it_attrs := [[{| im_key := IKInit; im_val := MVPath "setup" |}]];
     it_body := it_body EU |}.
Definition hook0 (h : string) (v : val) : val := VL [v; VN 42].
