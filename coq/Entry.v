(** The public entry points, on top of [dec] and [ser]. *)
From Coq Require Import String.
From Coq Require Import List NArith Bool.
From Borsh Require Import Bytes Result Loop Ty Ser De.
Import ListNotations.
Local Open Scope N_scope.

Section Entry.
  Context {St : Type} (R : reader St) (c : cfg).

  (** [BorshDeserialize::deserialize_reader] *)
  Definition deserialize_reader (t : ty) (s : St) : result (val * St) := dec R c t s.

  (** [try_from_reader] and [from_reader]: the value, then a one-byte probe that must hit EOF. *)
  Definition try_from_reader (t : ty) (s : St) : result (val * St) :=
    '(v, s1) <- dec R c t s ;;
    match rd_exact R 1 s1 with
    | Err UnexpectedEof _ => Ok (v, s1)
    | Panic w => Panic w                        (* a reader that panics in the probe: the panic is not caught *)
    | _ => Err InvalidData MNotAllBytesRead
    end.
  Definition from_reader := try_from_reader.
End Entry.

(** [deserialize]: advances the slice. *)
Definition deserialize (c : cfg) (t : ty) (bs : bytes) : result (val * bytes) := dec_slice c t bs.

(** [try_from_slice] and [from_slice]: nothing may be left. *)
Definition try_from_slice (c : cfg) (t : ty) (bs : bytes) : result val :=
  '(v, rest) <- dec_slice c t bs ;;
  match rest with
  | [] => Ok v
  | _ :: _ => Err InvalidData MNotAllBytesRead
  end.
Definition from_slice := try_from_slice.

(** [to_vec] *)
Definition to_vec (t : ty) (v : val) : result bytes := enc t v.

(** [object_length]: a writer that only counts, with [checked_add] on a 64-bit usize. *)
Definition object_length (t : ty) (v : val) : result N :=
  let o := ser t v in
  let step := fun (acc : result N) (chunk : bytes) =>
                n <- acc ;;
                let n' := n + len chunk in
                if n' <? 2 ^ 64 then Ok n' else Err OutOfMemory MSimple in
  n <- fold_left step (fst o) (Ok 0) ;;
  match snd o with
  | None => Ok n
  | Some (k, m) => Err k m
  end.
