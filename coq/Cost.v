(** C07: the slice decoder instrumented with the allocation requests and the
    element decodes it performs.  Definitions only; facts are in Cost*Facts.v.

    The instrumented decoder [cdec] mirrors [De.dec slice_reader] clause by clause
    and returns, next to the result, the *trace* of cost events in program order
    (also when the decode fails: the events issued before the failure).  The cost
    record [cost_of] (largest single request, total requested, elements, ...) is a
    fold of the trace.

    What is an event:
    - [EAlloc true b]: a request of [b] bytes with an explicit capacity written in
      borsh/src/de/mod.rs: [Vec::with_capacity(hint::cautious::<T>(len))],
      [BytesMut::with_capacity(hint::cautious::<u8>(len))], [vec![0u8; len.min(1024*1024)]].
    - [EAlloc false b]: a request of [b] bytes caused by growth: [vec.resize(..)] in
      [u8::vec_from_reader] and [result.push(..)] / [out.put_u8(..)] on a full buffer.
      The growth policy is alloc's [RawVec::grow_amortized]
      (new capacity = max(2*cap, cap+1, MIN_NON_ZERO_CAP)); it is transcribed here so
      that the numbers are comparable with measurements, but it is runtime behaviour:
      the theorems use only "at least doubling, at most 2*cap + 8".
    - [EElem]: one element decode started (one iteration of a push loop or an array loop).
    - [EConv n e]: [n] values of [e] bytes handed to a constructor outside borsh
      ([collect()] into a keyed collection or a [LinkedList], [Box::new], [Rc::from] ...).
      Informational: what these constructors allocate is not modelled.

    [size_of] is a PARAMETER [sz : ty -> N] (layouts are rustc's business); the harness
    supplies the real values. *)
From Coq Require Import String.
From Coq Require Import List NArith Bool.
From Borsh Require Import Bytes Result Loop Ty Ser De.
Import ListNotations.
Local Open Scope N_scope.

(** * Events and the cost record *)
Inductive event :=
| EAlloc (explicit : bool) (b : N)
| EElem
| EConv (n e : N).
Definition trace := list event.

Record cost := {
  max_request : N;        (* largest single [EAlloc] *)
  total_requested : N;    (* sum of all [EAlloc]: an upper bound on the peak of live modelled bytes *)
  elems : N;              (* number of [EElem] *)
  max_explicit : N;       (* largest [EAlloc true] *)
  conv_units : N;         (* sum of n over [EConv n e] *)
  conv_bytes : N;         (* sum of n * e over [EConv n e] *)
}.

Definition ev_alloc (e : event) : N := match e with EAlloc _ b => b | _ => 0 end.
Definition ev_explicit (e : event) : N := match e with EAlloc true b => b | _ => 0 end.
Definition ev_elem (e : event) : N := match e with EElem => 1 | _ => 0 end.
Definition ev_conv_units (e : event) : N := match e with EConv n _ => n | _ => 0 end.
Definition ev_conv_bytes (e : event) : N := match e with EConv n e => n * e | _ => 0 end.

Definition sum_of (w : event -> N) (tr : trace) : N := fold_left (fun a e => a + w e) tr 0.
Definition max_of (w : event -> N) (tr : trace) : N := fold_left (fun a e => N.max a (w e)) tr 0.

Definition cost_of (tr : trace) : cost := {|
  max_request := max_of ev_alloc tr;
  total_requested := sum_of ev_alloc tr;
  elems := sum_of ev_elem tr;
  max_explicit := max_of ev_explicit tr;
  conv_units := sum_of ev_conv_units tr;
  conv_bytes := sum_of ev_conv_bytes tr;
|}.

(** * The monad: a trace next to a [result]; the trace survives a failure *)
Definition M (A : Type) := (trace * result A)%type.
Definition mret {A} (a : A) : M A := ([], Ok a).
Definition mlift {A} (r : result A) : M A := ([], r).
Definition emit (e : event) : M unit := ([e], Ok tt).
Definition emits (tr : trace) : M unit := (tr, Ok tt).
Definition mbind {A B} (m : M A) (f : A -> M B) : M B :=
  match snd m with
  | Ok a => let m' := f a in (fst m ++ fst m', snd m')
  | Err k e => (fst m, Err k e)
  | Panic w => (fst m, Panic w)
  end.

Notation "x <<- a ;; b" := (mbind a (fun x => b)) (at level 61, a at next level, right associativity).
Notation "' p <<- a ;; b" := (mbind a (fun x => let p := x in b))
  (at level 61, p pattern, a at next level, right associativity).

(** Loops of [Loop.v] over [M]. *)
Fixpoint citerP {S} (p : positive) (f : S -> M S) (s : S) : M S :=
  match p with
  | xH => f s
  | xO p' => s' <<- citerP p' f s ;; citerP p' f s'
  | xI p' => s0 <<- f s ;; s' <<- citerP p' f s0 ;; citerP p' f s'
  end.
Definition citerN {S} (n : N) (f : S -> M S) (s : S) : M S :=
  match n with
  | N0 => mret s
  | Npos p => citerP p f s
  end.

Fixpoint cloopP {S A} (p : positive) (f : S -> M (S + A)) (s : S) : M (S + A) :=
  match p with
  | xH => f s
  | xO p' =>
      r <<- cloopP p' f s ;;
      match r with inl s' => cloopP p' f s' | inr a => mret (inr a) end
  | xI p' =>
      r0 <<- f s ;;
      match r0 with
      | inr a => mret (inr a)
      | inl s0 =>
          r <<- cloopP p' f s0 ;;
          match r with inl s' => cloopP p' f s' | inr a => mret (inr a) end
      end
  end.
Definition cloop_fuel {S A} (fuel : N) (f : S -> M (S + A)) (s : S) : M A :=
  r <<- cloopP (N.succ_pos fuel) f s ;;
  match r with inr a => mret a | inl _ => mlift (Panic P_FUEL) end.

(** * [hint::cautious]
    [let max_elems = (4096 / size_of::<T>()) as u32; max(min(hint, max_elems), 1) as usize]:
    the division panics for a zero-sized T (every caller refuses those first: [check_zst]).
    (Until the fix recorded as F15 the size was truncated to u32 before the division, which
    panicked for sizes that are multiples of 2^32.) *)
Definition cautious (size_of_T hint : N) : result N :=
  if size_of_T =? 0 then Panic P_DIV0
  else Ok (N.max (N.min hint (4096 / size_of_T)) 1).

(** * [RawVec::grow_amortized] on a full buffer of capacity [cap] (one more element needed) *)
Definition min_non_zero_cap (e : N) : N := if e =? 1 then 8 else if e <=? 1024 then 4 else 1.
Definition grow (e cap : N) : N := N.max (N.max (2 * cap) (cap + 1)) (min_non_zero_cap e).

(** what a [push] costs on a vector of capacity [cap] holding [cnt] elements of [e] bytes:
    the events and the new capacity *)
Definition push_cost (e : N) (cap cnt : N) : trace * N :=
  if cnt =? cap then ([EAlloc false (grow e cap * e)], grow e cap) else ([], cap).
(** writing into a fixed array: nothing *)
Definition no_push (cap cnt : N) : trace * N := ([], cap).

(** [vec.resize(vec.len().saturating_mul(2).min(len), 0)] on a full vector of [buf] bytes
    whose capacity equals its length: [reserve] asks [grow_amortized] for [2 * buf]
    (here [buf >= 2^20], so MIN_NON_ZERO_CAP is irrelevant) although only
    [min (2 * buf) len] bytes become part of the vector. *)
Definition resize_request (buf : N) : N := 2 * buf.

Definition cparser (A : Type) := bytes -> M (A * bytes).

Section CDec.
  Variable sz : ty -> N.          (* size_of::<T>() *)
  Variable c : cfg.
  Notation R := slice_reader.

  (** ** [u8::vec_from_reader] *)
  Definition bulk_cost (n : N) (st : N * N * list bytes * bytes) : trace :=
    let '(buf, pos, _, _) := st in
    if (pos <? n) && (pos =? buf) then [EAlloc false (resize_request buf)] else [].
  Definition cbulk_step (n : N) (st : N * N * list bytes * bytes)
    : M ((N * N * list bytes * bytes) + (bytes * bytes)) :=
    (bulk_cost n st, bulk_step R n st).
  Definition cbulk (n : N) (s : bytes) : M (bytes * bytes) :=
    _ <<- emit (EAlloc true (N.min n CHUNK)) ;;
    cloop_fuel (n + rd_budget R s + 1) (cbulk_step n) (N.min n CHUNK, 0, [], s).

  (** ** the push loop: [for _ in 0..len { result.push(T::deserialize_reader(reader)?) }]
      state: capacity, number of elements held, elements (reversed), remaining input *)
  Definition cloop_step (push : N -> N -> trace * N) (f : cparser val)
             (st : N * N * list val * bytes) : M (N * N * list val * bytes) :=
    let '(cap, cnt, acc, s) := st in
    _ <<- emit EElem ;;
    '(v, s') <<- f s ;;
    (fst (push cap cnt), Ok (snd (push cap cnt), cnt + 1, v :: acc, s')).
  Definition crepeat (push : N -> N -> trace * N) (f : cparser val) (cap0 n : N) (s : bytes)
    : M (list val * bytes) :=
    st <<- citerN n (cloop_step push f) (cap0, 0, [], s) ;;
    mret (rev_append (snd (fst st)) [], snd st).     (* = rev, linear *)

  (** ** [Vec::with_capacity(hint::cautious::<T>(len))] followed by the push loop; [e = size_of::<T>()] *)
  Definition cpush_loop (e : N) (f : cparser val) (n : N) (s : bytes) : M (list val * bytes) :=
    cap0 <<- mlift (cautious e n) ;;
    _ <<- emit (EAlloc true (cap0 * e)) ;;
    crepeat (push_cost e) f cap0 n s.

  (** ** [Vec<T>::deserialize_reader] after the [check_zst] *)
  Definition cdec_vec (e : N) (u8 : bool) (f : cparser val) (s : bytes) : M (list val * bytes) :=
    '(n, s1) <<- mlift (read_u32 R s) ;;
    if n =? 0 then mret ([], s1)
    else if u8 then '(b, s2) <<- cbulk n s1 ;; mret (of_bytes b, s2)
    else cpush_loop e f n s1.

  (** ** conversions outside borsh (informational) *)
  Definition conv_seq (k : seq_kind) (n e : N) : trace :=
    match k with
    | SVec | SSlice | SDeque => []          (* the Vec itself / [VecDeque::from(Vec)] reuses the buffer *)
    | _ => [EConv n e]
    end.
  Definition val_len (v : val) : N := match v with VL l => len l | _ => 0 end.
  Definition conv_wrap (w : wrap_kind) (t' : ty) (v : val) : trace :=
    match w with
    | WBox | WRc | WArc =>
        match t' with
        | TSeq SSlice e => [EConv (val_len v) (sz e)]          (* Vec<T> -> Box<[T]> -> Rc<[T]> *)
        | TText XStr | TText XAsciiStr => [EConv (val_len v) 1]
        | _ => [EConv 1 (sz t')]                               (* Box::new / Rc::from(Box) *)
        end
    | _ => []
    end.
  Definition conv_text (k : text_kind) (n : N) : trace :=
    match k with XBytes => [EConv n 1] | _ => [] end.          (* Bytes::from(Vec<u8>) *)

  Section CDecFields. Variable f : ty -> cparser val.
    Fixpoint cdec_fields (ts : list ty) (sk : list bool) (s : bytes) : M (list val * bytes) :=
      match ts with
      | [] => mret ([], s)
      | t' :: tr =>
          let sb := match sk with b :: _ => b | [] => false end in
          let sr := match sk with _ :: r => r | [] => [] end in
          '(v, s1) <<- (if sb then mret (default_of t', s) else f t' s) ;;
          '(r, s2) <<- cdec_fields tr sr s1 ;;
          mret (v :: r, s2)
      end.
  End CDecFields.

  Fixpoint cdec (t : ty) {struct t} : cparser val :=
    match t with
    | TPrim _ | TUnit _ | TRaw _ => fun s => mlift (dec R c t s)
    | TText XBytesMut => fun s =>
        '(n, s1) <<- mlift (read_u32 R s) ;;
        '(l, s2) <<- cpush_loop 1 (fun s => mlift ('(b, s') <- read_u8 R s ;; Ok (VN b, s'))) n s1 ;;
        mret (VL l, s2)
    | TText k => fun s =>
        '(l, s') <<- cdec_vec 1 true (fun s => mlift (Panic P_ILLTYPED)) s ;;
        v <<- mlift (text_post k l) ;;
        _ <<- emits (conv_text k (len l)) ;;
        mret (v, s')
    | TSeq k t' => fun s =>
        if mem_zst (key_ty k t') then mlift (Err InvalidData MZst) else
        '(l, s') <<- cdec_vec (sz t') (is_u8 t') (cdec t') s ;;
        v <<- mlift (post c k (key_ty k t') l) ;;
        _ <<- emits (conv_seq k (len l) (sz t')) ;;
        mret (v, s')
    | TArray n t' => fun s =>
        if is_u8 t' then mlift ('(b, s') <- read_mapped R n s ;; Ok (VL (of_bytes b), s'))
        else '(l, s') <<- crepeat no_push (cdec t') n n s ;; mret (VL l, s')
    | TProd k ts => fun s =>
        '(l, s') <<- cdec_fields (fun t' s => cdec t' s) ts (prod_skips k (length ts)) s ;;
        mret (VL l, s')
    | TSum k vs => fun s =>
        '(b, s1) <<- mlift (read_u8 R s) ;;
        match find_tag (sum_tags k) b 0 with
        | None => mlift (Err InvalidData (bad_tag k b))
        | Some i =>
            '(v, s2) <<- nth_or (fun t' => cdec t' s1) (mlift (Err InvalidData (bad_tag k b))) vs (N.to_nat i) ;;
            mret (VV i v, s2)
        end
    | TWrap w t' => fun s =>
        '(v, s') <<- cdec t' s ;;
        _ <<- emits (conv_wrap w t' v) ;;
        mret (v, s')
    end.

  (** The instrumented slice decoder: result and cost record. *)
  Definition dec_trace (t : ty) (bs : bytes) : M (val * bytes) := cdec t bs.
  Definition dec_cost (t : ty) (bs : bytes) : result (val * bytes) * cost :=
    (snd (cdec t bs), cost_of (fst (cdec t bs))).
End CDec.

(** * The family of C07 *)

(** [wire_pos t]: every encoding of [t] has at least one byte ([wire_min t >= 1]). *)
Section AnyUnskipped. Variable f : ty -> bool.
  Fixpoint any_unskipped (ts : list ty) (sk : list bool) : bool :=
    match ts with
    | [] => false
    | t' :: tr =>
        let sb := match sk with b :: _ => b | [] => false end in
        let sr := match sk with _ :: r => r | [] => [] end in
        (negb sb && f t') || any_unskipped tr sr
    end.
End AnyUnskipped.
Fixpoint wire_pos (t : ty) : bool :=
  match t with
  | TPrim _ | TRaw _ | TText _ | TSeq _ _ | TSum _ _ => true
  | TUnit _ => false
  | TArray n t' => negb (n =? 0) && wire_pos t'
  | TProd k ts => any_unskipped (fun x => wire_pos x) ts (prod_skips k (length ts))
  | TWrap _ t' => wire_pos t'
  end.

(** [fam t]: every collection inside [t] either is refused by [check_zst] (its element,
    or key, is memory-zero-sized) or has elements that occupy at least one byte on the
    wire.  Outside: [Vec<RefCell<()>>], [Vec<RangeInclusive<()>>], a [Vec] of a struct
    whose fields are all skipped, ... *)
Fixpoint fam (t : ty) : bool :=
  match t with
  | TPrim _ | TUnit _ | TRaw _ | TText _ => true
  | TSeq k t' => mem_zst (key_ty k t') || (wire_pos t' && fam t')
  | TArray n t' => (n =? 0) || fam t'
  | TProd _ ts => forallb (fun x => fam x) ts
  | TSum _ vs => forallb (fun x => fam x) vs
  | TWrap _ t' => fam t'
  end.

(** The hypothesis on [size_of]: a type that is not memory-zero-sized has a positive size
    (what [mem_zst] means; compared with the real [size_of::<T>()] for every catalogue type on
    every run). *)
Definition sz_ok (sz : ty -> N) : Prop := forall t, mem_zst t = false -> 0 < sz t.
