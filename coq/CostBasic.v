(** C07, first part: [cautious] never over-reserves, no panic, and the byte loop
    ([u8::vec_from_reader]) never holds a buffer larger than
    max (min len 1MiB) (2 * bytes consumed). *)
From Coq Require Import String.
From Coq Require Import List NArith Bool Lia.
From Borsh Require Import Bytes BytesFacts Result Loop LoopFacts Ty TyInd Ser De CodecFacts ParseFacts DecCorollaries
     Cost CostFacts CostLoops.
Import ListNotations.
Local Open Scope N_scope.

(** * [hint::cautious] *)
Lemma cautious_spec sz hint :
  0 < sz ->
  exists c0, cautious sz hint = Ok c0 /\
             c0 * sz <= N.max 4096 sz /\ c0 <= N.max hint 1 /\ 1 <= c0.
Proof.
  intros H0. unfold cautious.
  destruct (N.eqb_spec sz 0); [lia|].
  eexists. split; [reflexivity|].
  assert (Hd : sz * (4096 / sz) <= 4096) by (apply N.mul_div_le; lia).
  split; [|lia].
  destruct (N.max_spec (N.min hint (4096 / sz)) 1) as [[Hlt ->]|[Hge ->]]; [lia|].
  assert (N.min hint (4096 / sz) * sz <= (4096 / sz) * sz) by (apply N.mul_le_mono_r; lia).
  lia.
Qed.

(** the hypothesis is needed: a zero-sized element divides by zero *)
Lemma cautious_div0 hint : cautious 0 hint = Panic P_DIV0.
Proof. reflexivity. Qed.

(** * No panic *)
Theorem cdec_no_panic sz c t bs w : sz_ok sz -> snd (cdec sz c t bs) <> Panic w.
Proof. intros Hsz. rewrite cdec_erase by exact Hsz. apply (dec_no_panic c t bs w). Qed.

Theorem cdec_err_kind sz c t bs k m : sz_ok sz -> snd (cdec sz c t bs) = Err k m -> k = InvalidData.
Proof. intros Hsz. rewrite cdec_erase by exact Hsz. apply (dec_err_kind c t bs k m). Qed.

(** * The byte loop *)

(** States reachable by the loop of [bulk slice_reader n s0]. *)
Inductive bulk_reach (n : N) (s0 : bytes) : N * N * list bytes * bytes -> Prop :=
| br_init : bulk_reach n s0 (N.min n CHUNK, 0, [], s0)
| br_step st st' : bulk_reach n s0 st -> bulk_step slice_reader n st = Ok (inl st') -> bulk_reach n s0 st'.

(** one step on a slice *)
Lemma bulk_step_slice n buf pos (acc : list bytes) (s : bytes) :
  let buf' := if pos =? buf then N.min (2 * buf) n else buf in
  (pos < n /\ exists (ch r : bytes), s = ch ++ r /\ ch <> [] /\ len ch <= buf' - pos /\
      bulk_step slice_reader n (buf, pos, acc, s) = Ok (inl (buf', pos + len ch, ch :: acc, r))) \/
  (pos < n /\ bulk_step slice_reader n (buf, pos, acc, s) = Err InvalidData MUnexpectedLength) \/
  (n <= pos /\ bulk_step slice_reader n (buf, pos, acc, s) = Ok (inr (concat (rev acc), s))).
Proof.
  intros buf'. unfold bulk_step. destruct (N.ltb_spec pos n) as [Hlt|Hge]; [|right; right; auto].
  fold buf'. cbn [rd_some slice_reader].
  destruct (take_min_some (N.min (buf' - pos) (len s)) s) as (ch & r & Et & Es & Lch); [lia|].
  rewrite Et. destruct ch as [|c0 ch'].
  - right; left. auto.
  - left. split; [exact Hlt|]. exists (c0 :: ch'), r. repeat split; auto; [discriminate|lia].
Qed.

Theorem bulk_buffer_bound n s0 buf pos acc s :
  bulk_reach n s0 (buf, pos, acc, s) ->
  buf <= N.max (N.min n CHUNK) (2 * pos) /\ pos + len s = len s0 /\ pos <= buf.
Proof.
  intros H. remember (buf, pos, acc, s) as st eqn:E. revert buf pos acc s E.
  induction H as [|st0 st' Hr IH Hs]; intros buf pos acc s E.
  - inversion E; subst. lia.
  - destruct st0 as [[[buf1 pos1] acc1] s1]. specialize (IH buf1 pos1 acc1 s1 eq_refl). destruct IH as (Hb & Hc & Hp).
    destruct (bulk_step_slice n buf1 pos1 acc1 s1) as [(Hlt & ch & r & Es & Hne & Hl & Eq)|[(Hlt & Eq)|(Hge & Eq)]].
    all: pose proof (eq_trans (eq_sym Hs) Eq) as Hs'; try discriminate.
    injection Hs' as Hst. rewrite E in Hst. injection Hst as E1 E2 E3 E4. subst buf pos acc s s1.
    assert (Hch : 0 < len ch) by (destruct ch; [contradiction|rewrite len_cons; lia]).
    rewrite len_app in Hc.
    change (match buf1 with 0 => 0 | N.pos q => N.pos q~0 end) with (2 * buf1) in *.
    destruct (N.eqb_spec pos1 buf1); lia.
Qed.

(** the requests of the instrumented byte loop *)
Definition alloc_le (B : N) (e : event) : Prop := ev_alloc e <= B.

Lemma Forall_alloc_le_mono B B' tr : B <= B' -> Forall (alloc_le B) tr -> Forall (alloc_le B') tr.
Proof. intros H. apply Forall_impl. unfold alloc_le. intros; lia. Qed.

Lemma cbulk_cost n s0 :
  0 < n ->
  exists pos, pos <= n /\ pos <= len s0 /\
    sum_of ev_alloc (fst (cbulk n s0)) <= N.min n CHUNK + 4 * pos /\
    sum_of ev_elem (fst (cbulk n s0)) = 0 /\
    Forall (alloc_le (N.max (N.min n CHUNK) (2 * pos))) (fst (cbulk n s0)).
Proof.
  intros Hn. unfold cbulk. set (b0 := N.min n CHUNK).
  rewrite (mbind_ok _ _ tt) by reflexivity. cbn [emit fst snd].
  pose (Inv := fun (tr : trace) (st : N * N * list bytes * bytes) =>
                 let '(buf, pos, acc, s) := st in
                 pos + len s = len s0 /\ pos <= buf /\ buf <= n /\ b0 <= buf /\
                 sum_of ev_alloc tr <= b0 + 4 * pos /\
                 (sum_of ev_alloc tr + b0 <= 2 * buf \/ buf = n) /\
                 sum_of ev_elem tr = 0 /\
                 Forall (alloc_le (N.max b0 (2 * pos))) tr).
  pose (Q := fun tr : trace => exists pos, pos <= n /\ pos <= len s0 /\
                 sum_of ev_alloc tr <= b0 + 4 * pos /\ sum_of ev_elem tr = 0 /\
                 Forall (alloc_le (N.max b0 (2 * pos))) tr).
  apply (cloop_fuel_inv (cbulk_step n) Inv Q).
  - intros tr [[[buf pos] acc] s] (Ha & Hpb & Hbn & Hb0 & Hc & Hd & He & Hf).
    unfold cbulk_step. cbn [fst snd].
    set (buf' := if pos =? buf then N.min (2 * buf) n else buf).
    (* the trace after this step *)
    assert (Htr : pos < n ->
                  sum_of ev_alloc (tr ++ bulk_cost n (buf, pos, acc, s)) <= b0 + 4 * pos /\
                  (sum_of ev_alloc (tr ++ bulk_cost n (buf, pos, acc, s)) + b0 <= 2 * buf' \/ buf' = n) /\
                  sum_of ev_elem (tr ++ bulk_cost n (buf, pos, acc, s)) = 0 /\
                  Forall (alloc_le (N.max b0 (2 * pos))) (tr ++ bulk_cost n (buf, pos, acc, s))).
    { intros Hlt. unfold bulk_cost, buf'. destruct (N.ltb_spec pos n) as [_|?]; [|lia]. cbn [andb].
      destruct (N.eqb_spec pos buf) as [Epb|Npb].
      - rewrite !sum_of_app, !sum_of_cons, !sum_of_nil. cbn [ev_alloc ev_elem]. unfold resize_request.
        destruct Hd as [Hd|Hd]; [|lia].
        repeat split; try lia.
        apply Forall_app. split; [exact Hf|]. constructor; [|constructor]. unfold alloc_le. cbn [ev_alloc]. unfold resize_request. lia.
      - rewrite app_nil_r. auto. }
    destruct (bulk_step_slice n buf pos acc s) as [(Hlt & ch & r & Es & Hne & Hl & Eq)|[(Hlt & Eq)|(Hge & Eq)]];
      fold buf' in Eq; rewrite Eq; cbn [is_cont].
    + destruct (Htr Hlt) as (T1 & T2 & T3 & T4).
      assert (Hch : 0 < len ch) by (destruct ch; [contradiction|rewrite len_cons; lia]).
      assert (Hb' : pos < buf' /\ buf' <= n /\ b0 <= buf').
      { unfold buf'. destruct (N.eqb_spec pos buf); lia. }
      subst s. rewrite len_app in Ha. unfold Inv.
      repeat split; first [lia | exact T3 | exact T2 | (eapply Forall_alloc_le_mono; [|exact T4]; lia)].
    + destruct (Htr Hlt) as (T1 & T2 & T3 & T4). exists pos. repeat split; auto; lia.
    + exists pos. unfold bulk_cost. destruct (N.ltb_spec pos n); [lia|]. cbn [andb]. rewrite app_nil_r.
      repeat split; auto; lia.
  - intros tr [[[buf pos] acc] s] (Ha & Hpb & Hbn & Hb0 & Hc & Hd & He & Hf).
    exists pos. repeat split; auto; lia.
  - unfold Inv. rewrite !sum_of_cons, !sum_of_nil. cbn [ev_alloc ev_elem]. fold b0. repeat split; try lia.
    constructor; [|constructor]. unfold alloc_le. cbn [ev_alloc]. fold b0. lia.
Qed.
