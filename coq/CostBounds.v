(** C07, second part: work and allocation are linear in the input length, and no single
    request exceeds a constant plus a multiple of the input length, for every type of the
    family ([fam]) under the hypothesis on size_of ([sz_ok]).

    One induction on the type proves, for the weighted measure
        mu tr = alpha * (bytes requested in tr) + beta * (element decodes in tr),
    that every instrumented decoder [p] satisfies [cbound pos a0 a1 b0 b1 p]:
      - every request in the trace of [p bs] is at most b0 + b1 * |bs|;
      - on success with [rest] left: |rest| (+1 if pos) <= |bs| and
            mu + a1 * |rest| <= a0 + a1 * |bs|      (cost linear in the bytes CONSUMED);
      - on failure: mu <= a0 + a1 * |bs|. *)
From Coq Require Import String.
From Coq Require Import List NArith Bool Lia.
From Borsh Require Import Bytes BytesFacts Result Loop LoopFacts Ty TyInd Ser De CodecFacts ParseFacts DecCorollaries
     Cost CostFacts CostLoops CostBasic.
Import ListNotations.
Local Open Scope N_scope.

Section Bounds.
  Variables alpha beta : N.

  Definition wt (e : event) : N :=
    match e with EAlloc _ b => alpha * b | EElem => beta | EConv _ _ => 0 end.
  Definition mu (tr : trace) : N := sum_of wt tr.

  Lemma mu_app a b : mu (a ++ b) = mu a + mu b.
  Proof. apply sum_of_app. Qed.
  Lemma mu_nil : mu [] = 0.
  Proof. reflexivity. Qed.
  Lemma mu_split tr : mu tr = alpha * sum_of ev_alloc tr + beta * sum_of ev_elem tr.
  Proof.
    induction tr as [|e tr IH]; [cbn; lia|]. unfold mu in *. rewrite !sum_of_cons, IH.
    destruct e as [x b| |n e]; cbn [wt ev_alloc ev_elem]; lia.
  Qed.

  Lemma mu_alloc1 x b : mu [EAlloc x b] = alpha * b.
  Proof. unfold mu. rewrite sum_of_cons, sum_of_nil. cbn [wt]. lia. Qed.

  Definition bpos (b : bool) : N := if b then 1 else 0.

  Definition cbound {A} (pos : bool) (a0 a1 b0 b1 : N) (p : cparser A) : Prop :=
    forall bs,
      Forall (alloc_le (b0 + b1 * len bs)) (fst (p bs)) /\
      match snd (p bs) with
      | Ok (_, rest) => len rest + bpos pos <= len bs /\ mu (fst (p bs)) + a1 * len rest <= a0 + a1 * len bs
      | _ => mu (fst (p bs)) <= a0 + a1 * len bs
      end.

  Lemma alloc_le_mono_len b0 b1 n m tr :
    n <= m -> Forall (alloc_le (b0 + b1 * n)) tr -> Forall (alloc_le (b0 + b1 * m)) tr.
  Proof.
    intros H. apply Forall_alloc_le_mono.
    assert (b1 * n <= b1 * m) by (apply N.mul_le_mono_l; exact H). lia.
  Qed.

  Lemma cbound_weaken {A} (pos pos' : bool) a0 a1 b0 b1 a0' a1' b0' b1' (p : cparser A) :
    (pos' = true -> pos = true) -> a0 <= a0' -> a1 <= a1' -> b0 <= b0' -> b1 <= b1' ->
    cbound pos a0 a1 b0 b1 p -> cbound pos' a0' a1' b0' b1' p.
  Proof.
    intros Hp H0 H1 H2 H3 H bs. specialize (H bs). destruct H as [Hf Hc]. split.
    - eapply Forall_alloc_le_mono; [|exact Hf].
      assert (b1 * len bs <= b1' * len bs) by (apply N.mul_le_mono_r; exact H3). lia.
    - destruct (snd (p bs)) as [[a rest]|k e|w].
      + destruct Hc as [Hl Hm]. split.
        * destruct pos'; cbn [bpos] in *; [rewrite (Hp eq_refl) in Hl; cbn [bpos] in Hl|]; lia.
        * assert (Hle : len rest <= len bs) by lia.
          assert (a1 * len bs <= a1' * len bs) by (apply N.mul_le_mono_r; exact H1).
          assert ((a1' - a1) * len rest <= (a1' - a1) * len bs) by (apply N.mul_le_mono_l; exact Hle).
          assert (E1 : a1' * len rest = a1 * len rest + (a1' - a1) * len rest) by (rewrite <- N.mul_add_distr_r; f_equal; lia).
          assert (E2 : a1' * len bs = a1 * len bs + (a1' - a1) * len bs) by (rewrite <- N.mul_add_distr_r; f_equal; lia).
          lia.
      + assert (a1 * len bs <= a1' * len bs) by (apply N.mul_le_mono_r; exact H1). lia.
      + assert (a1 * len bs <= a1' * len bs) by (apply N.mul_le_mono_r; exact H1). lia.
  Qed.

  (** a pure parser that consumes *)
  Lemma cbound_lift {A} (pos : bool) (r : bytes -> result (A * bytes)) :
    (forall bs a rest, r bs = Ok (a, rest) -> len rest + bpos pos <= len bs) ->
    cbound pos 0 0 0 0 (fun s => mlift (r s)).
  Proof.
    intros H bs. cbn [mlift fst snd]. split; [constructor|].
    destruct (r bs) as [[a rest]|k e|w] eqn:E; cbn [mu sum_of fold_left]; try lia.
    split; [eapply H; eauto|lia].
  Qed.

  Lemma cbound_ret {A} (a : A) : cbound false 0 0 0 0 (fun s => mret (a, s)).
  Proof. intros bs. cbn [mret fst snd bpos]. split; [constructor|]. split; [lia|cbn; lia]. Qed.

  (** sequencing (same slopes on both sides: weaken first) *)
  Lemma cbound_bind {A B} pos1 pos2 a0 a0' a1 b0 b1 (p : cparser A) (q : A -> cparser B) :
    cbound pos1 a0 a1 b0 b1 p -> (forall x, cbound pos2 a0' a1 b0 b1 (q x)) ->
    cbound (pos1 || pos2) (a0 + a0') a1 b0 b1 (fun s => x <<- p s ;; q (fst x) (snd x)).
  Proof.
    intros Hp Hq bs. specialize (Hp bs). destruct Hp as [Hf Hc].
    destruct (p bs) as [tr1 [[x s1]|k e|w]] eqn:Ep; cbn [fst snd] in *.
    - rewrite (mbind_ok _ _ (x, s1)) by reflexivity. cbn [fst snd].
      destruct Hc as [Hl Hm]. specialize (Hq x s1). destruct Hq as [Hf2 Hc2].
      assert (Hle : len s1 <= len bs) by lia.
      split.
      + apply Forall_app. split; [exact Hf|]. eapply alloc_le_mono_len; [exact Hle|exact Hf2].
      + rewrite mu_app. destruct (snd (q x s1)) as [[y s2]|k e|w].
        * destruct Hc2 as [Hl2 Hm2]. split; [destruct pos1, pos2; cbn [bpos orb] in *; lia|lia].
        * assert (a1 * len s1 <= a1 * len bs) by (apply N.mul_le_mono_l; exact Hle). lia.
        * assert (a1 * len s1 <= a1 * len bs) by (apply N.mul_le_mono_l; exact Hle). lia.
    - rewrite (mbind_err _ _ k e) by reflexivity. cbn [fst snd]. split; [exact Hf|lia].
    - rewrite (mbind_panic _ _ w) by reflexivity. cbn [fst snd]. split; [exact Hf|lia].
  Qed.

  (** a tail that only post-processes the value and records conversions *)
  Definition conv_only (tr : trace) : Prop := Forall (fun e => match e with EConv _ _ => True | _ => False end) tr.
  Lemma conv_only_mu tr : conv_only tr -> mu tr = 0.
  Proof. induction 1 as [|e tr He _ IH]; [reflexivity|]. unfold mu in *. rewrite sum_of_cons, IH. destruct e; try contradiction. cbn; lia. Qed.
  Lemma conv_only_alloc B tr : conv_only tr -> Forall (alloc_le B) tr.
  Proof. apply Forall_impl. intros [x b| |n e] H; try contradiction. unfold alloc_le. cbn. lia. Qed.

  Lemma cbound_tail {A B C} pos a0 a1 b0 b1 (p : cparser A) (g : A -> result B) (cv : A -> B -> trace) (h : A -> B -> C) :
    cbound pos a0 a1 b0 b1 p -> (forall a b, conv_only (cv a b)) ->
    cbound pos a0 a1 b0 b1
      (fun s => x <<- p s ;; v <<- mlift (g (fst x)) ;; _ <<- emits (cv (fst x) v) ;; mret (h (fst x) v, snd x)).
  Proof.
    intros Hp Hcv bs. specialize (Hp bs). destruct Hp as [Hf Hc].
    destruct (p bs) as [tr1 [[x s1]|k e|w]] eqn:Ep; cbn [fst snd] in *.
    - rewrite (mbind_ok _ _ (x, s1)) by reflexivity. cbn [fst snd].
      destruct (g x) as [v|k e|w] eqn:Eg.
      + rewrite (mbind_ok (mlift (Ok v)) _ v) by reflexivity. cbn [mlift fst snd app].
        rewrite (mbind_ok (emits _) _ tt) by reflexivity. cbn [emits mret fst snd]. rewrite app_nil_r.
        split.
        * apply Forall_app. split; [exact Hf|]. apply conv_only_alloc, Hcv.
        * rewrite mu_app, (conv_only_mu _ (Hcv x v)). destruct Hc. split; lia.
      + rewrite (mbind_err (mlift (Err k e)) _ k e) by reflexivity. cbn [mlift fst snd]. rewrite app_nil_r.
        destruct Hc. split; [exact Hf|lia].
      + rewrite (mbind_panic (mlift (Panic w)) _ w) by reflexivity. cbn [mlift fst snd]. rewrite app_nil_r.
        destruct Hc. split; [exact Hf|lia].
    - rewrite (mbind_err _ _ k e) by reflexivity. cbn [fst snd]. split; [exact Hf|lia].
    - rewrite (mbind_panic _ _ w) by reflexivity. cbn [fst snd]. split; [exact Hf|lia].
  Qed.

  Lemma cbound_ext {A} pos a0 a1 b0 b1 (p q : cparser A) :
    (forall s, p s = q s) -> cbound pos a0 a1 b0 b1 p -> cbound pos a0 a1 b0 b1 q.
  Proof. intros E H bs. rewrite <- E. apply H. Qed.

  (** * The element loop *)
  Lemma cloop_step_ok push (f : cparser val) cap cnt acc s trf v s1 :
    f s = (trf, Ok (v, s1)) ->
    cloop_step push f (cap, cnt, acc, s) =
    (EElem :: trf ++ fst (push cap cnt), Ok (snd (push cap cnt), cnt + 1, v :: acc, s1)).
  Proof.
    intros E. unfold cloop_step. rewrite (mbind_ok (emit EElem) _ tt) by reflexivity. cbn [emit fst snd].
    rewrite E. rewrite (mbind_ok _ _ (v, s1)) by reflexivity. cbn [fst snd app]. reflexivity.
  Qed.
  Lemma cloop_step_err push (f : cparser val) cap cnt acc s trf k e :
    f s = (trf, Err k e) -> cloop_step push f (cap, cnt, acc, s) = (EElem :: trf, Err k e).
  Proof.
    intros E. unfold cloop_step. rewrite (mbind_ok (emit EElem) _ tt) by reflexivity. cbn [emit fst snd].
    rewrite E. rewrite (mbind_err _ _ k e) by reflexivity. reflexivity.
  Qed.
  Lemma cloop_step_panic push (f : cparser val) cap cnt acc s trf w :
    f s = (trf, Panic w) -> cloop_step push f (cap, cnt, acc, s) = (EElem :: trf, Panic w).
  Proof.
    intros E. unfold cloop_step. rewrite (mbind_ok (emit EElem) _ tt) by reflexivity. cbn [emit fst snd].
    rewrite E. rewrite (mbind_panic _ _ w) by reflexivity. reflexivity.
  Qed.

  Lemma step_arith a0 a1 x y m :
    x + 1 <= y -> m + a1 * x <= a0 + a1 * y ->
    beta + m + (a0 + beta + a1) * x <= (a0 + beta + a1) * y.
  Proof.
    intros H1 H2. assert (E : y = x + 1 + (y - x - 1)) by lia. set (d := y - x - 1) in *. rewrite E in *. clearbody d. clear E H1. nia.
  Qed.

  Lemma grow_bounds e cap : 1 <= cap -> 2 * cap <= grow e cap /\ grow e cap <= 2 * cap + 8 /\ grow e cap <= N.max (2 * cap + 2) 8.
  Proof.
    intros H. unfold grow, min_non_zero_cap. destruct (e =? 1); [lia|]. destruct (e <=? 1024); lia.
  Qed.

  (** the push loop of [Vec<T>] / [BytesMut]: every element takes at least one byte *)
  Lemma crepeat_vec a0 a1 b0 b1 (f : cparser val) e cap0 n :
    cbound true a0 a1 b0 b1 f -> 1 <= cap0 ->
    cbound false (a0 + beta + 16 * (alpha * e)) (a0 + beta + a1 + 4 * (alpha * e)) (b0 + 8 * e) (b1 + 2 * e)
           (crepeat (push_cost e) f cap0 n).
  Proof.
    intros Hf Hc0 s0. unfold crepeat.
    set (A := a0 + beta + a1). set (ae := alpha * e).
    set (BB := b0 + 8 * e + (b1 + 2 * e) * len s0).
    pose (Inv := fun (i : N) (tr : trace) (st : N * N * list val * bytes) =>
                   let '(cap, cnt, acc, s') := st in
                   cnt = i /\ len s' + i <= len s0 /\ 1 <= cap /\ cap <= N.max cap0 (N.max (2 * i) 8) /\
                   mu tr + A * len s' + 2 * (ae * cap0) <= 2 * (ae * cap) + A * len s0 /\
                   Forall (alloc_le BB) tr).
    pose (Q := fun tr : trace => mu tr <= (a0 + beta + 16 * ae) + (A + 4 * ae) * len s0 /\ Forall (alloc_le BB) tr).
    pose proof (citerN_inv (cloop_step (push_cost e) f) Inv Q n 0 [] ((cap0, 0, [], s0) : N * N * list val * bytes)) as H.
    cbn [app] in H.
    assert (Hstep : forall i tr s, 0 <= i -> i < 0 + n -> Inv i tr s ->
              match snd (cloop_step (push_cost e) f s) with
              | Ok s' => Inv (i + 1) (tr ++ fst (cloop_step (push_cost e) f s)) s'
              | _ => Q (tr ++ fst (cloop_step (push_cost e) f s))
              end).
    { intros i tr [[[cap cnt] acc] s'] _ _ (Hcnt & Hlen & Hcap1 & Hcap & Hmu & Hall). subst cnt.
      pose proof (Hf s') as [Hff Hfc].
      assert (Hs' : len s' <= len s0) by lia.
      assert (HBB : b0 + b1 * len s' <= BB).
      { unfold BB. assert (b1 * len s' <= b1 * len s0) by (apply N.mul_le_mono_l; exact Hs'). lia. }
      assert (Hcapi : 2 * (ae * cap) <= 2 * (ae * cap0) + 4 * (ae * i) + 16 * ae).
      { assert (ae * cap <= ae * (cap0 + 2 * i + 8)) by (apply N.mul_le_mono_l; lia). lia. }
      destruct (f s') as [trf [[v s1]|k er|w]] eqn:Ef; cbn [fst snd] in Hff, Hfc.
      - rewrite (cloop_step_ok _ _ _ _ _ _ _ _ _ Ef). cbn [fst snd].
        destruct Hfc as [Hl1 Hm1]. cbn [bpos] in Hl1.
        pose proof (step_arith a0 a1 (len s1) (len s') (mu trf) Hl1 Hm1) as Hsa. fold A in Hsa.
        assert (Hallf : Forall (alloc_le BB) trf) by (eapply Forall_alloc_le_mono; [exact HBB|exact Hff]).
        unfold push_cost. destruct (N.eqb_spec i cap) as [Eic|Nic]; cbn [fst snd].
        + (* growth *)
          destruct (grow_bounds e cap Hcap1) as (Hg1 & Hg2 & Hg5).
          assert (Hg3 : 2 * (ae * cap) <= ae * grow e cap).
          { replace (2 * (ae * cap)) with (ae * (2 * cap)) by lia. apply N.mul_le_mono_l. exact Hg1. }
          assert (Hg4 : grow e cap * e <= BB).
          { unfold BB. assert (grow e cap * e <= (2 * len s0 + 8) * e) by (apply N.mul_le_mono_r; lia). lia. }
          unfold Inv. repeat split; try lia.
          * change (EElem :: trf ++ [EAlloc false (grow e cap * e)]) with ([EElem] ++ trf ++ [EAlloc false (grow e cap * e)]).
            rewrite !mu_app. unfold mu at 2 4. rewrite !sum_of_cons, !sum_of_nil. cbn [wt].
            replace (alpha * (grow e cap * e)) with (ae * grow e cap) by (unfold ae; lia). lia.
          * apply Forall_app. split; [exact Hall|]. constructor; [unfold alloc_le; cbn; lia|].
            apply Forall_app. split; [exact Hallf|]. constructor; [exact Hg4|constructor].
        + unfold Inv. rewrite app_nil_r. repeat split; try lia.
          * change (EElem :: trf) with ([EElem] ++ trf). rewrite !mu_app. unfold mu at 2. rewrite !sum_of_cons, !sum_of_nil. cbn [wt]. lia.
          * apply Forall_app. split; [exact Hall|]. constructor; [unfold alloc_le; cbn; lia|exact Hallf].
      - rewrite (cloop_step_err _ _ _ _ _ _ _ _ _ Ef). cbn [fst snd]. unfold Q. split.
        + change (EElem :: trf) with ([EElem] ++ trf). rewrite !mu_app. unfold mu at 2. rewrite !sum_of_cons, !sum_of_nil. cbn [wt].
          assert (A * len s' + A * i <= A * len s0) by (rewrite <- N.mul_add_distr_l; apply N.mul_le_mono_l; lia).
          assert (4 * (ae * i) <= 4 * ae * len s0) by (replace (4 * (ae * i)) with (4 * ae * i) by lia; apply N.mul_le_mono_l; lia).
          assert (a1 * len s' <= A * len s') by (apply N.mul_le_mono_r; unfold A; lia).
          lia.
        + apply Forall_app. split; [exact Hall|]. constructor; [unfold alloc_le; cbn; lia|].
          eapply Forall_alloc_le_mono; [exact HBB|exact Hff].
      - rewrite (cloop_step_panic _ _ _ _ _ _ _ _ Ef). cbn [fst snd]. unfold Q. split.
        + change (EElem :: trf) with ([EElem] ++ trf). rewrite !mu_app. unfold mu at 2. rewrite !sum_of_cons, !sum_of_nil. cbn [wt].
          assert (A * len s' + A * i <= A * len s0) by (rewrite <- N.mul_add_distr_l; apply N.mul_le_mono_l; lia).
          assert (4 * (ae * i) <= 4 * ae * len s0) by (replace (4 * (ae * i)) with (4 * ae * i) by lia; apply N.mul_le_mono_l; lia).
          assert (a1 * len s' <= A * len s') by (apply N.mul_le_mono_r; unfold A; lia).
          lia.
        + apply Forall_app. split; [exact Hall|]. constructor; [unfold alloc_le; cbn; lia|].
          eapply Forall_alloc_le_mono; [exact HBB|exact Hff]. }
    specialize (H Hstep).
    assert (H0 : Inv 0 [] ((cap0, 0, [], s0) : N * N * list val * bytes)).
    { unfold Inv. rewrite mu_nil. repeat split; try lia. constructor. }
    specialize (H H0). clear Hstep H0.
    fold BB.
    destruct (citerN n (cloop_step (push_cost e) f) _) as [tr [[[[cap cnt] acc] s']|k er|w]]; cbn [fst snd] in H.
    - rewrite (mbind_ok _ _ (cap, cnt, acc, s')) by reflexivity. cbn [mret fst snd]. rewrite app_nil_r.
      destruct H as (Hcnt & Hlen & Hcap1 & Hcap & Hmu & Hall). split; [exact Hall|]. cbn [bpos]. split; [lia|].
      assert (Hcapi : 2 * (ae * cap) <= 2 * (ae * cap0) + 4 * (ae * n) + 16 * ae).
      { assert (ae * cap <= ae * (cap0 + 2 * n + 8)) by (apply N.mul_le_mono_l; lia). lia. }
      assert (4 * (ae * n) + 4 * ae * len s' <= 4 * ae * len s0).
      { replace (4 * (ae * n)) with (4 * ae * n) by lia. rewrite <- N.mul_add_distr_l. apply N.mul_le_mono_l. lia. }
      fold A ae. lia.
    - rewrite (mbind_err _ _ k er) by reflexivity. cbn [fst snd]. destruct H as [Hm Hall]. split; [exact Hall|]. fold A ae. lia.
    - rewrite (mbind_panic _ _ w) by reflexivity. cbn [fst snd]. destruct H as [Hm Hall]. split; [exact Hall|]. fold A ae. lia.
  Qed.

  (** the loop of a fixed array [T; n]: no growth, elements may be wire-empty *)
  Lemma crepeat_array pos a0 a1 b0 b1 (f : cparser val) cap0 n :
    cbound pos a0 a1 b0 b1 f ->
    cbound (pos && negb (n =? 0)) (n * (a0 + beta)) a1 b0 b1 (crepeat no_push f cap0 n).
  Proof.
    intros Hf s0. unfold crepeat.
    set (BB := b0 + b1 * len s0).
    pose (Inv := fun (i : N) (tr : trace) (st : N * N * list val * bytes) =>
                   let '(cap, cnt, acc, s') := st in
                   len s' + bpos pos * i <= len s0 /\
                   mu tr + a1 * len s' <= i * (a0 + beta) + a1 * len s0 /\
                   Forall (alloc_le BB) tr).
    pose (Q := fun tr : trace => mu tr <= n * (a0 + beta) + a1 * len s0 /\ Forall (alloc_le BB) tr).
    pose proof (citerN_inv (cloop_step no_push f) Inv Q n 0 [] ((cap0, 0, [], s0) : N * N * list val * bytes)) as H.
    cbn [app] in H.
    assert (Hstep : forall i tr s, 0 <= i -> i < 0 + n -> Inv i tr s ->
              match snd (cloop_step no_push f s) with
              | Ok s' => Inv (i + 1) (tr ++ fst (cloop_step no_push f s)) s'
              | _ => Q (tr ++ fst (cloop_step no_push f s))
              end).
    { intros i tr [[[cap cnt] acc] s'] _ Hin (Hlen & Hmu & Hall).
      pose proof (Hf s') as [Hff Hfc].
      assert (Hs' : len s' <= len s0) by lia.
      assert (HBB : b0 + b1 * len s' <= BB).
      { unfold BB. assert (b1 * len s' <= b1 * len s0) by (apply N.mul_le_mono_l; exact Hs'). lia. }
      assert (Hin' : (i + 1) * (a0 + beta) <= n * (a0 + beta)) by (apply N.mul_le_mono_r; lia).
      assert (Ha1 : a1 * len s' <= a1 * len s0) by (apply N.mul_le_mono_l; exact Hs').
      destruct (f s') as [trf [[v s1]|k er|w]] eqn:Ef; cbn [fst snd] in Hff, Hfc.
      - rewrite (cloop_step_ok _ _ _ _ _ _ _ _ _ Ef). cbn [fst snd no_push]. rewrite app_nil_r.
        destruct Hfc as [Hl1 Hm1]. unfold Inv. repeat split.
        + destruct pos; cbn [bpos] in *; lia.
        + change (EElem :: trf) with ([EElem] ++ trf). rewrite !mu_app. unfold mu at 2. rewrite !sum_of_cons, !sum_of_nil. cbn [wt]. lia.
        + apply Forall_app. split; [exact Hall|]. constructor; [unfold alloc_le; cbn; lia|].
          eapply Forall_alloc_le_mono; [exact HBB|exact Hff].
      - rewrite (cloop_step_err _ _ _ _ _ _ _ _ _ Ef). cbn [fst snd]. unfold Q. split.
        + change (EElem :: trf) with ([EElem] ++ trf). rewrite !mu_app. unfold mu at 2. rewrite !sum_of_cons, !sum_of_nil. cbn [wt]. lia.
        + apply Forall_app. split; [exact Hall|]. constructor; [unfold alloc_le; cbn; lia|].
          eapply Forall_alloc_le_mono; [exact HBB|exact Hff].
      - rewrite (cloop_step_panic _ _ _ _ _ _ _ _ Ef). cbn [fst snd]. unfold Q. split.
        + change (EElem :: trf) with ([EElem] ++ trf). rewrite !mu_app. unfold mu at 2. rewrite !sum_of_cons, !sum_of_nil. cbn [wt]. lia.
        + apply Forall_app. split; [exact Hall|]. constructor; [unfold alloc_le; cbn; lia|].
          eapply Forall_alloc_le_mono; [exact HBB|exact Hff]. }
    specialize (H Hstep).
    assert (H0 : Inv 0 [] ((cap0, 0, [], s0) : N * N * list val * bytes)).
    { unfold Inv. rewrite mu_nil. repeat split; try lia. constructor. }
    specialize (H H0). clear Hstep H0. fold BB.
    destruct (citerN n (cloop_step no_push f) _) as [tr [[[[cap cnt] acc] s']|k er|w]]; cbn [fst snd] in H.
    - rewrite (mbind_ok _ _ (cap, cnt, acc, s')) by reflexivity. cbn [mret fst snd]. rewrite app_nil_r.
      destruct H as (Hlen & Hmu & Hall). split; [exact Hall|]. split; [|lia].
      destruct pos; cbn [bpos andb] in *; [|lia]. destruct (N.eqb_spec n 0); cbn [negb bpos]; lia.
    - rewrite (mbind_err _ _ k er) by reflexivity. cbn [fst snd]. destruct H as [Hm Hall]. split; [exact Hall|lia].
    - rewrite (mbind_panic _ _ w) by reflexivity. cbn [fst snd]. destruct H as [Hm Hall]. split; [exact Hall|lia].
  Qed.

  (** * The byte loop as a bounded parser *)
  Lemma cbulk_bound n : 0 < n -> cbound true (alpha * CHUNK) (4 * alpha) CHUNK 2 (cbulk n).
  Proof.
    intros Hn bs. destruct (cbulk_cost n bs Hn) as (pos & Hpn & Hpl & Hsum & Hel & Hall).
    pose proof (cbulk_erase n bs) as Er.
    split.
    - eapply Forall_alloc_le_mono; [|exact Hall]. unfold CHUNK in *. lia.
    - rewrite mu_split, Hel.
      assert (Hs : alpha * sum_of ev_alloc (fst (cbulk n bs)) <= alpha * (N.min n CHUNK + 4 * pos)) by (apply N.mul_le_mono_l; exact Hsum).
      assert (Hmin : alpha * N.min n CHUNK <= alpha * CHUNK) by (apply N.mul_le_mono_l; lia).
      rewrite Er. destruct (bulk_slice_cases n bs Hn) as [(a & rest & E & L & ->)|[L ->]].
      + subst bs. rewrite len_app. cbn [bpos]. split; [lia|].
        assert (alpha * pos <= alpha * len a) by (apply N.mul_le_mono_l; lia). lia.
      + assert (alpha * pos <= alpha * len bs) by (apply N.mul_le_mono_l; lia). lia.
  Qed.

  Lemma read_u32_len bs n s1 : read_u32 slice_reader bs = Ok (n, s1) -> len s1 + 4 = len bs.
  Proof.
    unfold read_u32. destruct (read_mapped_slice_cases bs 4) as [(a & rest & E & L & ->)|[L ->]]; [|discriminate].
    cbn [bind]. intros H. inversion H; subst. rewrite len_app. lia.
  Qed.
  Lemma read_u8_len bs n s1 : read_u8 slice_reader bs = Ok (n, s1) -> len s1 + 1 = len bs.
  Proof.
    unfold read_u8. destruct (read_mapped_slice_cases bs 1) as [(a & rest & E & L & ->)|[L ->]]; [|discriminate].
    cbn [bind]. intros H. inversion H; subst. rewrite len_app. lia.
  Qed.
  Lemma read_mapped_len bs n a s1 : read_mapped slice_reader n bs = Ok (a, s1) -> len s1 + n = len bs.
  Proof.
    destruct (read_mapped_slice_cases bs n) as [(a' & rest & E & L & ->)|[L ->]]; [|discriminate].
    intros H. inversion H; subst. rewrite len_app. lia.
  Qed.

  Lemma cbound_bind' {A B} pos1 pos2 a0 a0' a1 b0 b1 (p : cparser A) (q : A -> cparser B) :
    cbound pos1 a0 a1 b0 b1 p -> (forall x, cbound pos2 a0' a1 b0 b1 (q x)) ->
    cbound (pos1 || pos2) (a0 + a0') a1 b0 b1 (fun s => '(x, s1) <<- p s ;; q x s1).
  Proof.
    intros Hp Hq. eapply cbound_ext; [|apply (cbound_bind pos1 pos2 a0 a0' a1 b0 b1 p q Hp Hq)].
    intros s. apply mbind_ext. intros [x s1]. reflexivity.
  Qed.

  Lemma cbound_map {A B} pos a0 a1 b0 b1 (p : cparser A) (h : A -> B) :
    cbound pos a0 a1 b0 b1 p -> cbound pos a0 a1 b0 b1 (fun s => '(x, s1) <<- p s ;; mret (h x, s1)).
  Proof.
    intros Hp bs. specialize (Hp bs). destruct Hp as [Hf Hc].
    destruct (p bs) as [tr1 [[x s1]|k e|w]] eqn:Ep; cbn [fst snd] in *.
    - rewrite (mbind_ok _ _ (x, s1)) by reflexivity. cbn [mret fst snd]. rewrite app_nil_r. split; assumption.
    - rewrite (mbind_err _ _ k e) by reflexivity. split; assumption.
    - rewrite (mbind_panic _ _ w) by reflexivity. split; assumption.
  Qed.

  (** * [with_capacity(cautious(len))] + push loop *)
  Lemma cpush_loop_bound a0 a1 b0 b1 e (f : cparser val) n :
    cbound true a0 a1 b0 b1 f -> 0 < e ->
    cbound false (alpha * (4096 + e) + (a0 + beta + 16 * (alpha * e)))
                 (a0 + beta + a1 + 4 * (alpha * e))
                 (b0 + 8 * e + 4096 + e) (b1 + 2 * e)
           (cpush_loop e f n).
  Proof.
    intros Hf He0 bs. unfold cpush_loop.
    destruct (cautious_spec e n He0) as (c0 & Ec & Hc1 & Hc2 & Hc3).
    rewrite Ec. rewrite (mbind_ok (mlift (Ok c0)) _ c0) by reflexivity. cbn [mlift fst snd app].
    rewrite (mbind_ok (emit _) _ tt) by reflexivity. cbn [emit fst snd].
    pose proof (crepeat_vec a0 a1 b0 b1 f e c0 n Hf Hc3 bs) as [Hall Hc].
    assert (Hce : alpha * (c0 * e) <= alpha * (4096 + e)) by (apply N.mul_le_mono_l; lia).
    split.
    - constructor.
      + unfold alloc_le. cbn [ev_alloc]. lia.
      + eapply Forall_alloc_le_mono; [|exact Hall]. lia.
    - change (EAlloc true (c0 * e) :: fst (crepeat (push_cost e) f c0 n bs)) with ([EAlloc true (c0 * e)] ++ fst (crepeat (push_cost e) f c0 n bs)).
      rewrite mu_app, mu_alloc1.
      destruct (snd (crepeat (push_cost e) f c0 n bs)) as [[l rest]|k er|w].
      + destruct Hc as [Hl Hm]. split; [exact Hl|lia].
      + lia.
      + lia.
  Qed.

  (** * [Vec<T>::deserialize_reader] *)
  Lemma cdec_vec_bound a0 a1 b0 b1 e u8 (f : cparser val) :
    (u8 = false -> cbound true a0 a1 b0 b1 f /\ 0 < e) ->
    cbound true (alpha * (CHUNK + 4096 + e) + (a0 + beta + 16 * (alpha * e)))
                (a0 + beta + a1 + 4 * (alpha * e) + 4 * alpha)
                (b0 + 8 * e + CHUNK + 4096 + e) (b1 + 2 * e + 2)
           (cdec_vec e u8 f).
  Proof.
    intros Hu. unfold cdec_vec.
    set (K0 := alpha * (CHUNK + 4096 + e) + (a0 + beta + 16 * (alpha * e))).
    set (K1 := a0 + beta + a1 + 4 * (alpha * e) + 4 * alpha).
    set (B0 := b0 + 8 * e + CHUNK + 4096 + e). set (B1 := b1 + 2 * e + 2).
    replace K0 with (0 + K0) by lia.
    refine (cbound_bind' true false 0 K0 K1 B0 B1 _ _ _ _).
    - eapply cbound_weaken; [| | | | |apply (cbound_lift true (read_u32 slice_reader))]; try lia; auto.
      intros bs n s1 H. apply read_u32_len in H. cbn [bpos]. lia.
    - intros n. destruct (N.eqb_spec n 0) as [->|Hn0].
      + eapply cbound_weaken; [| | | | |apply cbound_ret]; try lia; auto.
      + assert (Hch : alpha * CHUNK <= K0).
        { unfold K0. assert (alpha * CHUNK <= alpha * (CHUNK + 4096 + e)) by (apply N.mul_le_mono_l; lia). lia. }
        assert (Hpl : alpha * (4096 + e) <= alpha * (CHUNK + 4096 + e)) by (apply N.mul_le_mono_l; lia).
        destruct u8.
        * eapply cbound_weaken; [| | | | |apply (cbound_map true _ _ _ _ (cbulk n) of_bytes (cbulk_bound n ltac:(lia)))];
            unfold K1, B0, B1; try lia; auto.
        * destruct (Hu eq_refl) as (Hf & He0).
          eapply cbound_weaken; [| | | | |apply (cpush_loop_bound a0 a1 b0 b1 e f n Hf He0)];
            unfold K0, K1, B0, B1; try lia; auto.
  Qed.

  Lemma cbound_fail {A} (k : kind) (m : msg) : cbound (A:=A) true 0 0 0 0 (fun _ => mlift (Err k m)).
  Proof. intros bs. cbn [mlift fst snd]. split; [constructor|]. rewrite mu_nil. lia. Qed.

  Lemma cbound_conv {A} pos a0 a1 b0 b1 (p : cparser A) (cv : A -> trace) :
    cbound pos a0 a1 b0 b1 p -> (forall a, conv_only (cv a)) ->
    cbound pos a0 a1 b0 b1 (fun s => '(v, s') <<- p s ;; _ <<- emits (cv v) ;; mret (v, s')).
  Proof.
    intros Hp Hcv bs. specialize (Hp bs). destruct Hp as [Hf Hc].
    destruct (p bs) as [tr1 [[x s1]|k e|w]] eqn:Ep; cbn [fst snd] in *.
    - rewrite (mbind_ok _ _ (x, s1)) by reflexivity. cbn [fst snd].
      rewrite (mbind_ok (emits _) _ tt) by reflexivity. cbn [emits mret fst snd]. rewrite app_nil_r.
      split.
      + apply Forall_app. split; [exact Hf|]. apply conv_only_alloc, Hcv.
      + rewrite mu_app, (conv_only_mu _ (Hcv x)). destruct Hc. split; lia.
    - rewrite (mbind_err _ _ k e) by reflexivity. split; assumption.
    - rewrite (mbind_panic _ _ w) by reflexivity. split; assumption.
  Qed.

  Lemma cbound_tail' {A B} pos a0 a1 b0 b1 (p : cparser A) (g : A -> result B) (cv : A -> trace) :
    cbound pos a0 a1 b0 b1 p -> (forall a, conv_only (cv a)) ->
    cbound pos a0 a1 b0 b1
      (fun s => '(l, s') <<- p s ;; v <<- mlift (g l) ;; _ <<- emits (cv l) ;; mret (v, s')).
  Proof.
    intros Hp Hcv. eapply cbound_ext; [|apply (cbound_tail pos a0 a1 b0 b1 p g (fun l _ => cv l) (fun _ v => v) Hp)].
    - intros s. apply mbind_ext. intros [l s']. reflexivity.
    - intros a b. apply Hcv.
  Qed.
End Bounds.
