(** C08, last sentence: "the schema derive accepts every struct and enum definition that the
    serialization derives accept" - at the level of the macros' own checks ([DeriveCheck.check]):
    whatever [check DSer] (or [check DDe]) accepts, [check DSchema] accepts.  What rustc then makes
    of the emitted code is outside the model (findings F14, F16, F19, F23, F24 are the recorded
    exceptions at that level). *)
From Coq Require Import String List NArith ZArith Bool.
From Borsh Require Import Bytes Result Ty Discr Item DeriveCheck.
Import ListNotations.

Lemma variants_err_none k1 k2 vs i : variants_err k1 i vs = None -> variants_err k2 i vs = None.
Proof.
  revert i. induction vs as [|v r IH]; intros i H; [reflexivity|].
  cbn [variants_err] in *.
  destruct (discr_get i) eqn:D, (fields_err (v_fields v)) eqn:F; destruct k1, k2; cbn in *; try discriminate; eauto.
Qed.

Lemma ser_accept_schema_accept it : check DSer it = accept -> check DSchema it = accept.
Proof.
  unfold check, check_res. destruct (check_attributes it); cbn; [discriminate|].
  destruct (get_crate it); cbn; [discriminate|].
  destruct (it_body it); cbn; auto.
  destruct (contains_use_discriminant it vs); cbn; [discriminate|].
  destruct (variants_err DSer 0 vs) eqn:V; cbn; [discriminate|].
  rewrite (variants_err_none DSer DSchema vs 0 V). cbn. auto.
Qed.

