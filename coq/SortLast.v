(** What [collect_sorted] and [collect_index] (Ty.v) return for an ARBITRARY list of entries:
    the last entry of every key ("last value wins"), in strictly ascending key order
    ([collect_sorted]) or in the order in which the keys first occur ([collect_index]);
    and these descriptions determine the result uniquely. *)
From Coq Require Import String.
From Coq Require Import List NArith Bool Lia Permutation Setoid.
From Borsh Require Import Bytes Result Ty SortFacts.
Import ListNotations.

(** * The specification vocabulary (no hypothesis on the order) *)
Section Defs.
  Variable cmp : val -> val -> comparison.   (* on keys *)
  Variable key : val -> val.

  (** same key *)
  Definition keq (x y : val) : Prop := cmp (key x) (key y) = Eq.
  Definition eqk (x y : val) : bool := match cmp (key x) (key y) with Eq => true | _ => false end.

  (** [x] is the LAST entry of [l] that has its key *)
  Definition last_of (l : list val) (x : val) : Prop :=
    exists l1 l2, l = l1 ++ x :: l2 /\ Forall (fun y => cmp (key y) (key x) <> Eq) l2.

  (** [x] is the FIRST entry of [l] that has its key *)
  Definition first_of (l : list val) (x : val) : Prop :=
    exists l1 l2, l = l1 ++ x :: l2 /\ Forall (fun y => cmp (key y) (key x) <> Eq) l1.

  (** [l] with only the first entry of every key kept (later entries of a key dropped) *)
  Fixpoint first_keys (l : list val) : list val :=
    match l with
    | [] => []
    | x :: r => x :: filter (fun y => negb (eqk x y)) (first_keys r)
    end.

  Lemma collect_sorted_snoc l y :
    collect_sorted cmp key (l ++ [y]) = insert_replace cmp key y (collect_sorted cmp key l).
  Proof. unfold collect_sorted. rewrite fold_left_app. reflexivity. Qed.

  Lemma collect_index_snoc l y :
    collect_index cmp key (l ++ [y]) = index_insert cmp key y (collect_index cmp key l).
  Proof. unfold collect_index. rewrite fold_left_app. reflexivity. Qed.

  Lemma last_of_In l x : last_of l x -> In x l.
  Proof. intros (l1 & l2 & -> & _). apply in_elt. Qed.

  Lemma first_of_In l x : first_of l x -> In x l.
  Proof. intros (l1 & l2 & -> & _). apply in_elt. Qed.

  Lemma last_of_nil x : ~ last_of [] x.
  Proof. intros (l1 & l2 & E & _). destruct l1; discriminate. Qed.

  Lemma first_keys_incl l : forall x, In x (first_keys l) -> In x l.
  Proof.
    induction l as [|y r IH]; intros x Hx; [exact Hx|]. cbn [first_keys] in Hx.
    destruct Hx as [<-|Hx]; [now left|]. right. apply IH. apply filter_In in Hx. exact (proj1 Hx).
  Qed.

  (** two decompositions of one list around an element *)
  Lemma app_cons_split {A} (l1 : list A) : forall l1' x y l2 l2',
    l1 ++ x :: l2 = l1' ++ y :: l2' -> (l1 = l1' /\ x = y /\ l2 = l2') \/ In y l2 \/ In x l2'.
  Proof.
    induction l1 as [|a l1 IH]; intros [|b l1'] x y l2 l2' E; cbn [app] in E.
    - inversion E. left. auto.
    - inversion E; subst. right; left. apply in_elt.
    - inversion E; subst. right; right. apply in_elt.
    - inversion E as [[Eab E']]. destruct (IH _ _ _ _ _ E') as [(-> & -> & ->)|H]; [left; auto|right; exact H].
  Qed.
End Defs.

(** * Over a strict total order on the keys of [P]-elements (the hypotheses of SortFacts.v) *)
Section SortLast.
  Variable cmp : val -> val -> comparison.
  Variable key : val -> val.
  Variable P : val -> Prop.
  Hypothesis cmp_anti : forall a b, cmp a b = CompOpp (cmp b a).
  Hypothesis cmp_eq : forall a b c, P a -> P b -> P c ->
    cmp (key a) (key b) = Eq -> cmp (key a) (key c) = cmp (key b) (key c).
  Hypothesis cmp_lt : forall a b c, P a -> P b -> P c ->
    cmp (key a) (key b) = Lt -> cmp (key b) (key c) = Lt -> cmp (key a) (key c) = Lt.

  Local Notation sa := (strictly_ascending cmp key).
  Local Notation ndk := (no_dup_keys cmp key).
  Local Notation csorted := (collect_sorted cmp key).
  Local Notation cindex := (collect_index cmp key).
  Local Notation last_of := (last_of cmp key).
  Local Notation first_of := (first_of cmp key).
  Local Notation first_keys := (first_keys cmp key).
  Local Notation keq := (keq cmp key).
  Local Notation eqk := (eqk cmp key).

  Lemma c_refl a : cmp a a = Eq.
  Proof. exact (cmp_refl cmp cmp_anti a). Qed.
  Lemma c_neq_sym a b : cmp a b <> Eq -> cmp b a <> Eq.
  Proof. exact (cmp_neq_sym cmp cmp_anti a b). Qed.
  Lemma c_eq_sym a b : cmp a b = Eq -> cmp b a = Eq.
  Proof. intros H. rewrite (cmp_anti b a), H. reflexivity. Qed.

  Lemma keq_refl x : keq x x.
  Proof. apply c_refl. Qed.
  Lemma keq_sym x y : keq x y -> keq y x.
  Proof. apply c_eq_sym. Qed.
  Lemma keq_trans x y z : P x -> P y -> P z -> keq x y -> keq y z -> keq x z.
  Proof. unfold SortLast.keq. intros Px Py Pz Hxy Hyz. rewrite (cmp_eq x y z Px Py Pz Hxy). exact Hyz. Qed.

  Lemma eqk_true x y : eqk x y = true <-> keq x y.
  Proof. unfold SortLast.eqk, SortLast.keq. destruct (cmp (key x) (key y)); split; intros H; congruence. Qed.

  Lemma csorted_P l : Forall P l -> Forall P (csorted l).
  Proof.
    intros Pl. rewrite Forall_forall in *. intros z Hz. apply Pl. exact (collect_sorted_incl cmp key l z Hz).
  Qed.
  Lemma cindex_P l : Forall P l -> Forall P (cindex l).
  Proof.
    intros Pl. rewrite Forall_forall in *. intros z Hz. apply Pl. exact (collect_index_incl cmp key l z Hz).
  Qed.

  (** ** One insertion *)
  Lemma insert_replace_In y s x : P y -> Forall P s -> sa s = true ->
    (In x (insert_replace cmp key y s) <-> x = y \/ (In x s /\ cmp (key x) (key y) <> Eq)).
  Proof.
    intros Py. induction s as [|z r IH]; intros Ps Hs; cbn [insert_replace].
    - split; [intros [<-|[]]; now left|intros [->|[[] _]]; now left].
    - pose proof (Forall_inv Ps) as Pz. pose proof (Forall_inv_tail Ps) as Pr.
      pose proof (proj1 (Forall_forall _ _) Pr) as Pr'.
      destruct (sa_cons_elim cmp key P cmp_lt r z Pz Pr Hs) as [Hz Hr].
      pose proof (proj1 (Forall_forall _ _) Hz) as Hz'. cbv beta in Hz'.
      destruct (cmp (key y) (key z)) eqn:E.
      + (* the entry with this key is replaced *)
        split.
        * intros [<-|Hx]; [now left|]. right. split; [now right|].
          intros Exy. apply c_eq_sym in Exy.
          rewrite (cmp_eq y z x Py Pz (Pr' x Hx) E), (Hz' x Hx) in Exy. discriminate.
        * intros [->|[[<-|Hx] Hne]]; [now left| |now right].
          exfalso. apply Hne. now apply c_eq_sym.
      + (* new smallest key *)
        split.
        * intros [<-|Hx]; [now left|]. right. split; [exact Hx|].
          assert (Hlt : cmp (key y) (key x) = Lt).
          { destruct Hx as [<-|Hx]; [exact E|]. exact (cmp_lt y z x Py Pz (Pr' x Hx) E (Hz' x Hx)). }
          intros Exy. apply c_eq_sym in Exy. congruence.
        * intros [->|[Hx _]]; [now left|now right].
      + (* further down *)
        pose proof (IH Pr Hr) as IHr.
        split.
        * intros [<-|Hx].
          -- right. split; [now left|]. intros Ezy. apply c_eq_sym in Ezy. congruence.
          -- apply IHr in Hx. destruct Hx as [->|[Hx Hne]]; [now left|right; split; [now right|exact Hne]].
        * intros [->|[[<-|Hx] Hne]].
          -- right. apply IHr. now left.
          -- now left.
          -- right. apply IHr. right. split; assumption.
  Qed.

  Lemma index_insert_In y s x : P y -> Forall P s -> ndk s = true ->
    (In x (index_insert cmp key y s) <-> x = y \/ (In x s /\ cmp (key x) (key y) <> Eq)).
  Proof.
    intros Py. induction s as [|z r IH]; intros Ps Hnd; cbn [index_insert].
    - split; [intros [<-|[]]; now left|intros [->|[[] _]]; now left].
    - pose proof (Forall_inv Ps) as Pz. pose proof (Forall_inv_tail Ps) as Pr.
      pose proof (proj1 (Forall_forall _ _) Pr) as Pr'.
      apply ndk_cons in Hnd. destruct Hnd as [Hz Hr].
      pose proof (proj1 (Forall_forall _ _) Hz) as Hz'. cbv beta in Hz'.
      pose proof (IH Pr Hr) as IHr.
      assert (Hstep : cmp (key y) (key z) <> Eq ->
                (In x (z :: index_insert cmp key y r) <-> x = y \/ (In x (z :: r) /\ cmp (key x) (key y) <> Eq))).
      { intros E. split.
        - intros [<-|Hx].
          + right. split; [now left|]. now apply c_neq_sym.
          + apply IHr in Hx. destruct Hx as [->|[Hx Hne]]; [now left|right; split; [now right|exact Hne]].
        - intros [->|[[<-|Hx] Hne]].
          + right. apply IHr. now left.
          + now left.
          + right. apply IHr. right. split; assumption. }
      destruct (cmp (key y) (key z)) eqn:E.
      + split.
        * intros [<-|Hx]; [now left|]. right. split; [now right|].
          intros Exy. apply c_eq_sym in Exy.
          rewrite (cmp_eq y z x Py Pz (Pr' x Hx) E) in Exy. exact (Hz' x Hx Exy).
        * intros [->|[[<-|Hx] Hne]]; [now left| |now right].
          exfalso. apply Hne. now apply c_eq_sym.
      + apply Hstep. discriminate.
      + apply Hstep. discriminate.
  Qed.

  (** ** "the last entry of its key", one entry appended *)
  Lemma last_of_snoc l y x :
    last_of (l ++ [y]) x <-> x = y \/ (last_of l x /\ cmp (key x) (key y) <> Eq).
  Proof.
    split.
    - intros (l1 & l2 & E & HF). induction l2 as [|w l2' _] using rev_ind.
      + apply app_inj_tail in E. destruct E as [_ ->]. now left.
      + change (l1 ++ x :: l2' ++ [w]) with (l1 ++ (x :: l2') ++ [w]) in E. rewrite app_assoc in E.
        apply app_inj_tail in E. destruct E as [-> ->].
        apply Forall_app in HF. destruct HF as [HF Hw]. apply Forall_inv in Hw.
        right. split; [exists l1, l2'; auto|now apply c_neq_sym].
    - intros [->|[(l1 & l2 & -> & HF) Hne]].
      + exists l, []. split; [reflexivity|constructor].
      + exists l1, (l2 ++ [y]). split; [rewrite <- app_assoc; reflexivity|].
        apply Forall_app. split; [exact HF|]. constructor; [now apply c_neq_sym|constructor].
  Qed.

  (** ** Membership: last value wins *)
  Theorem collect_sorted_In l : Forall P l -> forall x, In x (csorted l) <-> last_of l x.
  Proof.
    induction l as [|y l IH] using rev_ind; intros Pl x.
    - split; [intros []|]. intros H. exfalso. exact (last_of_nil cmp key x H).
    - apply Forall_app in Pl. destruct Pl as [Pl Py]. apply Forall_inv in Py.
      pose proof (IH Pl x) as IHx.
      pose proof (insert_replace_In y (csorted l) x Py (csorted_P l Pl)
                    (collect_sorted_sorted cmp key P cmp_anti cmp_eq cmp_lt l Pl)) as H1.
      pose proof (last_of_snoc l y x) as H2.
      rewrite collect_sorted_snoc. tauto.
  Qed.

  Theorem collect_index_In l : Forall P l -> forall x, In x (cindex l) <-> last_of l x.
  Proof.
    induction l as [|y l IH] using rev_ind; intros Pl x.
    - split; [intros []|]. intros H. exfalso. exact (last_of_nil cmp key x H).
    - apply Forall_app in Pl. destruct Pl as [Pl Py]. apply Forall_inv in Py.
      pose proof (IH Pl x) as IHx.
      pose proof (index_insert_In y (cindex l) x Py (cindex_P l Pl)
                    (collect_index_nodup cmp key P cmp_anti cmp_eq l Pl)) as H1.
      pose proof (last_of_snoc l y x) as H2.
      rewrite collect_index_snoc. tauto.
  Qed.

  (** ** Every key of the input has a last entry, hence is a key of the result *)
  Lemma last_of_exists l : Forall P l -> forall y, In y l -> exists x, last_of l x /\ cmp (key y) (key x) = Eq.
  Proof.
    induction l as [|a l IH] using rev_ind; intros Pl y Hy; [destruct Hy|].
    apply Forall_app in Pl. destruct Pl as [Pl Pa]. apply Forall_inv in Pa.
    pose proof (proj1 (Forall_forall _ _) Pl) as Pl'.
    destruct (cmp (key y) (key a)) eqn:E.
    - exists a. split; [apply last_of_snoc; now left|exact E].
    - apply in_app_or in Hy. destruct Hy as [Hy|[<-|[]]]; [|rewrite c_refl in E; discriminate].
      destruct (IH Pl y Hy) as (x & Hx & Exy). exists x. split; [|exact Exy].
      apply last_of_snoc. right. split; [exact Hx|].
      rewrite <- (cmp_eq y x a (Pl' y Hy) (Pl' x (last_of_In cmp key l x Hx)) Pa Exy), E. discriminate.
    - apply in_app_or in Hy. destruct Hy as [Hy|[<-|[]]]; [|rewrite c_refl in E; discriminate].
      destruct (IH Pl y Hy) as (x & Hx & Exy). exists x. split; [|exact Exy].
      apply last_of_snoc. right. split; [exact Hx|].
      rewrite <- (cmp_eq y x a (Pl' y Hy) (Pl' x (last_of_In cmp key l x Hx)) Pa Exy), E. discriminate.
  Qed.

  Corollary collect_sorted_keys l : Forall P l ->
    forall y, In y l -> exists x, In x (csorted l) /\ cmp (key y) (key x) = Eq.
  Proof.
    intros Pl y Hy. destruct (last_of_exists l Pl y Hy) as (x & Hx & E).
    exists x. split; [now apply collect_sorted_In|exact E].
  Qed.

  Corollary collect_index_keys l : Forall P l ->
    forall y, In y l -> exists x, In x (cindex l) /\ cmp (key y) (key x) = Eq.
  Proof.
    intros Pl y Hy. destruct (last_of_exists l Pl y Hy) as (x & Hx & E).
    exists x. split; [now apply collect_index_In|exact E].
  Qed.

  (** a key has one last entry *)
  Lemma last_of_inj l x y : last_of l x -> last_of l y -> cmp (key x) (key y) = Eq -> x = y.
  Proof.
    intros (a1 & a2 & -> & Ha) (b1 & b2 & E & Hb) Exy.
    rewrite Forall_forall in Ha, Hb.
    destruct (app_cons_split a1 b1 x y a2 b2 E) as [(_ & -> & _)|[Hy|Hx]]; [reflexivity| |].
    - exfalso. apply (Ha y Hy). now apply c_eq_sym.
    - exfalso. exact (Hb x Hx Exy).
  Qed.

  (** ** The sorted result is THE strictly ascending list of the last entries *)
  Lemma sa_NoDup l : Forall P l -> sa l = true -> NoDup l.
  Proof.
    induction l as [|x r IH]; intros Pl Hs; constructor.
    - destruct (sa_cons_elim cmp key P cmp_lt r x (Forall_inv Pl) (Forall_inv_tail Pl) Hs) as [Hx _].
      intros Hin. rewrite Forall_forall in Hx. pose proof (Hx x Hin) as Hxx. cbv beta in Hxx.
      rewrite c_refl in Hxx. discriminate.
    - apply IH; [exact (Forall_inv_tail Pl)|exact (sa_tail cmp key x r Hs)].
  Qed.

  Theorem sorted_same_members_unique l1 l2 :
    Forall P l1 -> sa l1 = true -> sa l2 = true -> (forall x, In x l1 <-> In x l2) -> l1 = l2.
  Proof.
    intros P1 H1 H2 Hm.
    assert (P2 : Forall P l2).
    { rewrite Forall_forall in *. intros x Hx. apply P1. now apply Hm. }
    apply (sorted_perm_unique cmp key P cmp_anti cmp_lt); try assumption.
    apply NoDup_Permutation; [now apply sa_NoDup|now apply sa_NoDup|exact Hm].
  Qed.

  Theorem collect_sorted_unique l s : Forall P l ->
    sa s = true -> (forall x, In x s <-> last_of l x) -> s = csorted l.
  Proof.
    intros Pl Hs Hm. symmetry. apply sorted_same_members_unique.
    - now apply csorted_P.
    - exact (collect_sorted_sorted cmp key P cmp_anti cmp_eq cmp_lt l Pl).
    - exact Hs.
    - intros x. rewrite (collect_sorted_In l Pl x). symmetry. apply Hm.
  Qed.

  (** ** [first_keys]: the first entry of every key *)
  Lemma first_keys_In l : forall x, In x (first_keys l) <-> first_of l x.
  Proof.
    induction l as [|y r IH]; intros x.
    - split; [intros []|]. intros (l1 & l2 & E & _). destruct l1; discriminate.
    - cbn [SortLast.first_keys]. split.
      + intros [<-|Hx].
        * exists [], r. split; [reflexivity|constructor].
        * apply filter_In in Hx. destruct Hx as [Hx Hne]. apply IH in Hx.
          destruct Hx as (l1 & l2 & -> & HF). exists (y :: l1), l2. split; [reflexivity|].
          constructor; [|exact HF]. intros E. apply negb_true_iff in Hne.
          assert (Ht : eqk y x = true) by (apply eqk_true; exact E). congruence.
      + intros (l1 & l2 & E & HF). destruct l1 as [|a l1]; cbn [app] in E; inversion E; subst.
        * now left.
        * right. apply filter_In. split.
          -- apply IH. exists l1, l2. split; [reflexivity|exact (Forall_inv_tail HF)].
          -- apply negb_true_iff. destruct (eqk a x) eqn:Et; [|reflexivity].
             exfalso. apply eqk_true in Et. exact (Forall_inv HF Et).
  Qed.

  Lemma first_keys_snoc l a :
    first_keys (l ++ [a]) = first_keys l ++ (if existsb (eqk a) l then [] else [a]).
  Proof.
    induction l as [|x r IH]; [reflexivity|].
    cbn [app SortLast.first_keys existsb]. rewrite IH, filter_app. f_equal.
    destruct (existsb (eqk a) r).
    - rewrite orb_true_r. reflexivity.
    - rewrite orb_false_r. cbn [filter]. unfold SortLast.eqk.
      rewrite (cmp_anti (key a) (key x)). destruct (cmp (key x) (key a)); reflexivity.
  Qed.

  Lemma first_keys_P l : Forall P l -> Forall P (first_keys l).
  Proof.
    intros Pl. rewrite Forall_forall in *. intros x Hx. apply Pl. exact (first_keys_incl cmp key l x Hx).
  Qed.

  Lemma existsb_eqk a s : existsb (eqk a) s = true <-> exists z, In z s /\ keq a z.
  Proof.
    rewrite existsb_exists. split; intros (z & Hz & E); exists z; (split; [exact Hz|]); now apply eqk_true.
  Qed.

  (** ** Keys of the indexed result: in the order of their first occurrence *)
  Lemma index_insert_order a s f : P a -> Forall P s -> Forall P f -> Forall2 keq s f ->
    Forall2 keq (index_insert cmp key a s) (f ++ (if existsb (eqk a) s then [] else [a])).
  Proof.
    intros Pa Ps Pf H. induction H as [|y g r f' Hyg Hr IH]; cbn [index_insert existsb app].
    - constructor; [apply keq_refl|constructor].
    - pose proof (Forall_inv Ps) as Py. pose proof (Forall_inv Pf) as Pg.
      unfold SortLast.eqk at 1. destruct (cmp (key a) (key y)) eqn:E; cbn [orb].
      + rewrite app_nil_r. constructor; [|exact Hr]. exact (keq_trans a y g Pa Py Pg E Hyg).
      + constructor; [exact Hyg|]. exact (IH (Forall_inv_tail Ps) (Forall_inv_tail Pf)).
      + constructor; [exact Hyg|]. exact (IH (Forall_inv_tail Ps) (Forall_inv_tail Pf)).
  Qed.

  Lemma existsb_cindex a l : P a -> Forall P l -> existsb (eqk a) (cindex l) = existsb (eqk a) l.
  Proof.
    intros Pa Pl. pose proof (proj1 (Forall_forall _ _) Pl) as Pl'.
    apply eq_iff_eq_true. rewrite !existsb_eqk. split; intros (z & Hz & E).
    - exists z. split; [exact (collect_index_incl cmp key l z Hz)|exact E].
    - destruct (collect_index_keys l Pl z Hz) as (x & Hx & Ezx). exists x. split; [exact Hx|].
      exact (keq_trans a z x Pa (Pl' z Hz) (Pl' x (collect_index_incl cmp key l x Hx)) E Ezx).
  Qed.

  Theorem collect_index_order l : Forall P l -> Forall2 keq (cindex l) (first_keys l).
  Proof.
    induction l as [|a l IH] using rev_ind; intros Pl; [constructor|].
    apply Forall_app in Pl. destruct Pl as [Pl Pa]. apply Forall_inv in Pa.
    rewrite collect_index_snoc, first_keys_snoc, <- (existsb_cindex a l Pa Pl).
    apply index_insert_order; [exact Pa|now apply cindex_P|now apply first_keys_P|now apply IH].
  Qed.

  (** the last entries listed by first occurrence of their keys: at most one such list *)
  Lemma by_first_unique l f s1 : forall s2,
    Forall P l -> Forall P f ->
    Forall (last_of l) s1 -> Forall (last_of l) s2 -> Forall2 keq s1 f -> Forall2 keq s2 f -> s1 = s2.
  Proof.
    intros s2 Pl Pf L1 L2 H1. pose proof (proj1 (Forall_forall _ _) Pl) as Pl'.
    revert s2 L2. induction H1 as [|x g r f' Hxg Hr IH]; intros s2 L2 H2; inversion H2 as [|y g' r2 f'' Hyg Hr2]; subst.
    - reflexivity.
    - pose proof (Forall_inv L1) as Lx. pose proof (Forall_inv L2) as Ly.
      assert (Exy : x = y).
      { apply (last_of_inj l x y Lx Ly).
        exact (keq_trans x g y (Pl' x (last_of_In cmp key l x Lx)) (Forall_inv Pf)
                 (Pl' y (last_of_In cmp key l y Ly)) Hxg (keq_sym y g Hyg)). }
      subst y. f_equal.
      exact (IH (Forall_inv_tail Pf) (Forall_inv_tail L1) r2 (Forall_inv_tail L2) Hr2).
  Qed.

  Theorem collect_index_unique l s : Forall P l ->
    Forall (last_of l) s -> Forall2 keq s (first_keys l) -> s = cindex l.
  Proof.
    intros Pl Ls Hs. apply (by_first_unique l (first_keys l)); try assumption.
    - now apply first_keys_P.
    - apply Forall_forall. intros x Hx. now apply collect_index_In.
    - now apply collect_index_order.
  Qed.

  (** consequences for the size and the keys: as many entries as distinct keys *)
  Corollary collect_index_length l : Forall P l -> length (cindex l) = length (first_keys l).
  Proof.
    intros Pl. pose proof (collect_index_order l Pl) as H.
    induction H as [|x g r f' _ _ IH]; [reflexivity|]. cbn [length]. now rewrite IH.
  Qed.
End SortLast.

Print Assumptions collect_sorted_In.
Print Assumptions collect_index_In.
Print Assumptions collect_sorted_unique.
Print Assumptions collect_index_order.
Print Assumptions collect_index_unique.
