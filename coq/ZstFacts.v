(** C14: zero-sized element collections are refused; arrays, tuples and options of
    zero-sized types stay usable. *)
From Coq Require Import String.
From Coq Require Import List NArith Bool Lia.
From Borsh Require Import Bytes BytesFacts Result Ty TyInd Ser De Entry CodecFacts RoundTrip RoundTripKeyed DecCorollaries.
Import ListNotations.
Local Open Scope N_scope.

Lemma is_u8_not_zst t : mem_zst t = true -> is_u8 t = false.
Proof. destruct t as [[[] []| | | | | |]| | | | | | | |]; cbn; intros; try reflexivity; discriminate. Qed.

Lemma each_out_all_ok (f : val -> out) l : (forall x, In x l -> snd (f x) = None) -> snd (each_out f l) = None.
Proof. intros H. now apply each_out_ok. Qed.

Lemma fields_out_ok ts :
  Forall (fun t => forall v, has_ty t v = true -> snd (ser t v) = None) ts ->
  forall sk l, length sk = length ts -> all2 (fun t' x => has_ty t' x) ts l = true ->
               snd (fields_out (fun t' x => ser t' x) ts sk l) = None.
Proof.
  induction 1 as [|t' tr Ht' Htr IH]; intros sk l Hsk Hty.
  - destruct l; [reflexivity|discriminate].
  - destruct l as [|x r]; [discriminate|]. destruct sk as [|s sr]; [discriminate|].
    cbn [all2] in Hty. apply andb_true_iff in Hty. destruct Hty as [Hx Hr].
    cbn [fields_out]. apply andthen_ok_intro.
    + destruct s; [reflexivity|now apply Ht'].
    + apply IH; [cbn in Hsk; lia|exact Hr].
Qed.

(** A memory-zero-sized type always serializes (it contains no refusing collection on any
    path that is actually written). *)
Lemma zst_ser_ok t : wf t = true -> mem_zst t = true -> forall v, has_ty t v = true -> snd (ser t v) = None.
Proof.
  induction t as [p|u|k|k|k t' IH|n t' IH|k ts IH|k vs IH|w t' IH] using ty_ind'; intros Hwf Hz v Hty;
    cbn [mem_zst] in Hz; try discriminate.
  - reflexivity.
  - (* array *)
    destruct v as [|l|]; cbn [has_ty] in Hty; try discriminate. cbn [ser].
    destruct (N.eqb_spec n 0) as [E0|E0]; [reflexivity|].
    cbn [orb] in Hz.
    rewrite (is_u8_not_zst t' Hz). unfold slice_out.
    apply andb_true_iff in Hty. destruct Hty as [_ Hel].
    apply each_out_all_ok. intros x Hx. apply IH; [exact Hwf|exact Hz|exact (forallb_In _ _ _ Hel Hx)].
  - (* product *)
    destruct v as [|l|]; cbn [has_ty] in Hty; try discriminate. cbn [ser].
    cbn [wf] in Hwf. apply andb_true_iff in Hwf. destruct Hwf as [_ Hwts].
    assert (Hzs : forallb (fun x => mem_zst x) ts = true).
    { destruct k as [| [] | | | |]; try exact Hz; discriminate. }
    apply fields_out_ok; [|apply prod_skips_length|exact Hty].
    rewrite Forall_forall in *. intros t0 Ht0 v0 Hv0.
    apply IH; [exact Ht0|exact (forallb_In _ _ _ Hwts Ht0)|exact (forallb_In _ _ _ Hzs Ht0)|exact Hv0].
  - (* single-variant sum *)
    destruct vs as [|v0 [|? ?]]; try discriminate.
    destruct v as [| |i x]; cbn [has_ty] in Hty; try discriminate.
    cbn [wf] in Hwf. repeat (apply andb_true_iff in Hwf; destruct Hwf as [Hwf ?]).
    destruct (N.to_nat i) as [|n'] eqn:Ei; cbn [nth_or] in Hty; [|discriminate].
    cbn [ser]. rewrite Ei.
    destruct (sum_tags k) as [|tag [|? ?]]; cbn in Hwf; try discriminate.
    cbn [nth_error nth_or]. apply andthen_ok_intro; [reflexivity|].
    match goal with Hf : forallb (fun x => wf x) [v0] = true |- _ =>
      cbn [forallb] in Hf; apply andb_true_iff in Hf; destruct Hf as [Hw0 _] end.
    exact (Forall_inv IH Hw0 Hz x Hty).
  - (* Cell *)
    destruct w; try discriminate. cbn [has_ty ser wf] in *. now apply IH.
Qed.

Lemma zst_usable c t v :
  wf t = true -> mem_zst t = true -> has_ty t v = true ->
  exists bs, enc t v = Ok bs /\ forall rest, dec_slice c t (bs ++ rest) = Ok (logical t v, rest).
Proof.
  intros Hwf Hz Hty. pose proof (zst_ser_ok t Hwf Hz v Hty) as Hok.
  exists (sbytes (ser t v)). split.
  - apply enc_ok_iff. auto.
  - intros rest. apply round_trip; auto. apply enc_ok_iff. auto.
Qed.

(** containers that do not guard: an array / option / tuple of encodable elements encodes *)
Lemma array_usable n t' l :
  (forall x, In x l -> snd (ser t' x) = None) -> is_u8 t' = false -> snd (ser (TArray n t') (VL l)) = None.
Proof.
  intros H Hu. cbn [ser]. destruct (n =? 0); [reflexivity|]. rewrite Hu. unfold slice_out. now apply each_out_all_ok.
Qed.
Lemma option_usable t' x : snd (ser t' x) = None ->
  snd (ser (TSum KOption [TProd (PVariant [] []) []; t']) (VV 1 x)) = None.
Proof.
  intros H. cbn [ser sum_tags]. change (N.to_nat 1) with 1%nat. cbn [nth_error nth_or].
  apply andthen_ok_intro; [reflexivity|exact H].
Qed.
