(** C08_validates / C10_rust / C14_agree: the container a (name-coherent) type generates passes
    [validate] exactly when the type has no dynamically sized collection whose elements encode
    to no bytes, and the [ZSTSequence] verdict agrees with the run-time refusal of C14. *)
From Coq Require Import String Ascii List NArith ZArith Bool Lia Setoid Morphisms.
From Borsh Require Import Bytes BytesFacts Result LoopFacts Ty TyInd Ser De
     Schema SchemaFns SchemaSpec SchemaProofsBase SchemaProofsC10
     DecCorollaries SchemaOf SchemaDec SchemaOfFacts SchemaOfCover SchemaOfDecode.
Import ListNotations.
Local Open Scope N_scope.
Local Open Scope string_scope.
Local Open Scope list_scope.

(** * Structural predicates on types *)

(** every value of the type encodes to no bytes (skipped fields are not on the wire) *)
Fixpoint wire_empty (t : ty) : bool :=
  match t with
  | TUnit _ => true
  | TArray n t' => (n =? 0)%N || wire_empty t'
  | TProd k ts => fields_all (fun x => wire_empty x) ts (prod_skips k (length ts))
  | TWrap _ t' => wire_empty t'
  | TPrim _ | TRaw _ | TText _ | TSeq _ _ | TSum _ _ => false
  end.

(** no dynamically sized collection with wire-empty elements among the parts that are on the wire *)
Fixpoint no_empty_coll (t : ty) : bool :=
  match t with
  | TPrim _ | TUnit _ | TRaw _ | TText _ => true
  | TSeq _ t' => negb (wire_empty t') && no_empty_coll t'
  | TArray _ t' | TWrap _ t' => no_empty_coll t'
  | TProd k ts => fields_all (fun x => no_empty_coll x) ts (prod_skips k (length ts))
  | TSum _ vs => forallb (fun x => no_empty_coll x) vs
  end.

(** every array length is a [usize] (64 bits) *)
Fixpoint arrays_fit (t : ty) : bool :=
  match t with
  | TPrim _ | TUnit _ | TRaw _ | TText _ => true
  | TArray n t' => (n <? 2 ^ 64)%N && arrays_fit t'
  | TSeq _ t' | TWrap _ t' => arrays_fit t'
  | TProd _ ts | TSum _ ts => forallb (fun x => arrays_fit x) ts
  end.

Section V.
  Variable c : container.

  Definition look (d : string) : option definition := lookup (defs c) d.
  Definition cv (L : list (string * definition)) : Prop := forall d def, In (d, def) L -> look d = Some def.

  Lemma cv_app_l L1 L2 : cv (L1 ++ L2) -> cv L1.
  Proof. intros H d e I. apply H. apply in_or_app. now left. Qed.
  Lemma cv_app_r L1 L2 : cv (L1 ++ L2) -> cv L2.
  Proof. intros H d e I. apply H. apply in_or_app. now right. Qed.
  Lemma cv_tl x L : cv (x :: L) -> cv L.
  Proof. intros H d e I. apply H. now right. Qed.
  Lemma cv_hd d e L : cv ((d, e) :: L) -> look d = Some e.
  Proof. intros H. apply H. now left. Qed.

  (** ** ZeroSized, one definition at a time *)
  Ltac zinv H L := inversion H; subst;
    match goal with X : get_definition c _ = Some _ |- _ => unfold get_definition in X; unfold look in L; rewrite L in X; inversion X; subst end.

  Lemma zs_prim d n : look d = Some (Primitive n) -> (ZeroSized c d <-> n = 0).
  Proof.
    intros L. split.
    - intros H. zinv H L. reflexivity.
    - intros ->. now apply ZS_prim.
  Qed.
  Lemma zs_seq4 d el : look d = Some (seq_def el) -> ~ ZeroSized c d.
  Proof. intros L H. unfold seq_def, DEFAULT_LENGTH_WIDTH in L. zinv H L. Qed.
  Lemma zs_enum1 d vs : look d = Some (Enum 1 vs) -> ~ ZeroSized c d.
  Proof. intros L H. zinv H L. Qed.
  Lemma zs_array d n el : look d = Some (array_def n el) -> (ZeroSized c d <-> n = 0 \/ ZeroSized c el).
  Proof.
    intros L. unfold array_def in L. split.
    - intros H. zinv H L; [now left|now right].
    - intros [->|H]; [eapply ZS_seq_empty; eauto|eapply ZS_seq_elems; eauto].
  Qed.
  Lemma zs_tuple d els : look d = Some (Tuple els) -> (ZeroSized c d <-> Forall (ZeroSized c) els).
  Proof. intros L. split; [intros H; zinv H L; assumption|intros H; eapply ZS_tuple; eauto]. Qed.
  Lemma zs_struct d fs : look d = Some (Struct fs) -> (ZeroSized c d <-> Forall (ZeroSized c) (field_decls fs)).
  Proof. intros L. split; [intros H; zinv H L; assumption|intros H; eapply ZS_struct; eauto]. Qed.

  Lemma edge_of d D m : look d = Some D -> In m (members D) -> Edge c d m.
  Proof. intros L Hm. exists D. split; [exact L|exact Hm]. Qed.

  Lemma ok_seq el : def_ok c (seq_def el) <-> ~ ZeroSized c el.
  Proof.
    unfold seq_def, DEFAULT_LENGTH_WIDTH, U32_MAX. cbn [def_ok]. split.
    - intros [[E _]|(_ & _ & H)]; [discriminate E|exact H].
    - intros H. right. split; [lia|]. split; [|exact H]. right. split; [auto|]. reflexivity.
  Qed.
  Lemma ok_array n el : def_ok c (array_def n el).
  Proof. left. split; reflexivity. Qed.

  (** ** the three facts proved together, per type *)
  Definition Wz (t : ty) : Prop := ZeroSized c (decl_of t) <-> wire_empty t = true.
  Definition Wr (t : ty) : Prop :=
    forall r, Reach c r (decl_of t) -> forall d def, In (d, def) (calls t) -> Reach c r d.
  Definition Wv (t : ty) : Prop :=
    (forall d def, In (d, def) (calls t) -> def_ok c def) <-> no_empty_coll t = true.
  Definition W (t : ty) : Prop := has_schema t = true -> cv (calls t) -> Wz t /\ Wr t /\ Wv t.
  Definition WQ (t : ty) : Prop := W t /\ (forall fn sk ts, t = TProd (PVariant fn sk) ts -> Forall W ts).
  Lemma WQ_fst l : Forall WQ l -> Forall W l.
  Proof. apply Forall_impl. intros x [H _]. exact H. Qed.

  Lemma W_fields ts : Forall W ts -> forall sk,
    fields_all (fun x => has_schema x) ts sk = true -> cv (calls_fields (fun x => calls x) ts sk) ->
    (Forall (ZeroSized c) (keep sk (map (fun x => decl_of x) ts)) <-> fields_all (fun x => wire_empty x) ts sk = true) /\
    (forall r, (forall m, In m (keep sk (map (fun x => decl_of x) ts)) -> Reach c r m) ->
               forall d def, In (d, def) (calls_fields (fun x => calls x) ts sk) -> Reach c r d) /\
    ((forall d def, In (d, def) (calls_fields (fun x => calls x) ts sk) -> def_ok c def)
     <-> fields_all (fun x => no_empty_coll x) ts sk = true).
  Proof.
    induction 1 as [|t tr Ht Htr IH]; intros sk Hs Hc; cbn [map keep calls_fields fields_all] in *.
    - split; [split; [reflexivity|constructor]|]. split; [intros r _ d def []|]. split; [reflexivity|intros _ d def []].
    - assert (Hkeep : forall sr, has_schema t && fields_all (fun x => has_schema x) tr sr = true ->
                cv (calls t ++ calls_fields (fun x => calls x) tr sr) ->
                (Forall (ZeroSized c) (decl_of t :: keep sr (map (fun x => decl_of x) tr))
                 <-> wire_empty t && fields_all (fun x => wire_empty x) tr sr = true) /\
                (forall r, (forall m, In m (decl_of t :: keep sr (map (fun x => decl_of x) tr)) -> Reach c r m) ->
                   forall d def, In (d, def) (calls t ++ calls_fields (fun x => calls x) tr sr) -> Reach c r d) /\
                ((forall d def, In (d, def) (calls t ++ calls_fields (fun x => calls x) tr sr) -> def_ok c def)
                 <-> no_empty_coll t && fields_all (fun x => no_empty_coll x) tr sr = true)).
      { intros sr Hs' Hc'. apply andb_true_iff in Hs'. destruct Hs' as [Hs1 Hs2].
        destruct (Ht Hs1 (cv_app_l _ _ Hc')) as (Z1 & R1 & V1).
        destruct (IH sr Hs2 (cv_app_r _ _ Hc')) as (Z2 & R2 & V2).
        unfold Wz, Wr, Wv in *. split; [|split].
        - rewrite Forall_cons_iff, andb_true_iff, Z1, Z2. reflexivity.
        - intros r Hr d def I. apply in_app_or in I. destruct I as [I|I].
          + apply (R1 r) with (def := def); [apply Hr; now left|exact I].
          + apply (R2 r) with (def := def); [intros m Hm; apply Hr; now right|exact I].
        - rewrite andb_true_iff, <- V1, <- V2. split.
          + intros H. split; intros d def I; apply (H d def); apply in_or_app; auto.
          + intros [H1 H2] d def I. apply in_app_or in I. destruct I; eauto. }
      destruct sk as [|[|] sr].
      + now apply Hkeep.
      + now apply IH.
      + now apply Hkeep.
  Qed.

  (** a node whose definition lists the (non-skipped) fields *)
  Lemma W_node d0 D ts sk :
    look d0 = Some D -> members D = keep sk (map (fun x => decl_of x) ts) ->
    (ZeroSized c d0 <-> Forall (ZeroSized c) (members D)) -> def_ok c D ->
    Forall W ts -> fields_all (fun x => has_schema x) ts sk = true ->
    cv (calls_fields (fun x => calls x) ts sk) ->
    (ZeroSized c d0 <-> fields_all (fun x => wire_empty x) ts sk = true) /\
    (forall r, Reach c r d0 -> forall d def, In (d, def) ((d0, D) :: calls_fields (fun x => calls x) ts sk) -> Reach c r d) /\
    ((forall d def, In (d, def) ((d0, D) :: calls_fields (fun x => calls x) ts sk) -> def_ok c def)
     <-> fields_all (fun x => no_empty_coll x) ts sk = true).
  Proof.
    intros L Hm HZ Hok Hts Hs Hc. destruct (W_fields ts Hts sk Hs Hc) as (Z & R & V).
    split; [|split].
    - rewrite HZ, Hm. exact Z.
    - intros r Hr d def [E|I]; [inversion E; subst; exact Hr|].
      apply (R r) with (def := def); [|exact I]. intros m Hmm. eapply Reach_snoc; [exact Hr|]. eapply edge_of; [exact L|]. now rewrite Hm.
    - rewrite <- V. split.
      + intros H d def I. apply (H d def). now right.
      + intros H d def [E|I]; [inversion E; subst; exact Hok|now apply (H d def)].
  Qed.

  Lemma pad_false_id sk : pad_false (length sk) sk = sk.
  Proof. induction sk as [|b r IH]; cbn; [reflexivity|now rewrite IH]. Qed.

  Lemma Forall_one {A} (P : A -> Prop) x : Forall P [x] <-> P x.
  Proof. split; [intros H; now inversion H|intros H; constructor; [exact H|constructor]]. Qed.

  Lemma false_true_iff (P : Prop) : ~ P -> (P <-> false = true).
  Proof. intros H. split; [intros X; contradiction|discriminate]. Qed.

  Lemma W_ip n : (n = 4 \/ n = 16) -> cv (ip_calls n) ->
    ~ ZeroSized c (ip_decl n) /\
    (forall r, Reach c r (ip_decl n) -> forall d def, In (d, def) (ip_calls n) -> Reach c r d) /\
    (forall d def, In (d, def) (ip_calls n) -> def_ok c def).
  Proof.
    intros Hn Hc. unfold ip_calls in *.
    pose proof (cv_hd _ _ _ Hc) as L1. pose proof (cv_hd _ _ _ (cv_tl _ _ Hc)) as L2.
    pose proof (cv_hd _ _ _ (cv_tl _ _ (cv_tl _ _ Hc))) as L3.
    assert (Zu : ~ ZeroSized c "u8") by (rewrite (zs_prim _ _ L3); discriminate).
    assert (Zo : ~ ZeroSized c (octets_decl n)).
    { rewrite (zs_array _ _ _ L2). intros [E|E]; [destruct Hn; subst; discriminate|contradiction]. }
    split; [|split].
    - rewrite (zs_struct _ _ L1). cbn [field_decls map snd]. rewrite Forall_one. exact Zo.
    - intros r Hr.
      assert (R2 : Reach c r (octets_decl n)) by (eapply Reach_snoc; [exact Hr|]; eapply edge_of; [exact L1|]; now left).
      assert (R3 : Reach c r "u8") by (eapply Reach_snoc; [exact R2|]; eapply edge_of; [exact L2|]; now left).
      intros d def [E|[E|[E|[]]]]; inversion E; subst; assumption.
    - intros d def [E|[E|[E|[]]]]; inversion E; subst; [exact I|apply ok_array|exact I].
  Qed.

  Theorem WQ_all : forall t, WQ t.
  Proof.
    induction t as [p|u|k|k|k t' IH|n t' IH|k ts IH|k vs IH|w t' IH] using ty_ind';
      (split; [intros Hs Hc|try (intros ? ? ? E; discriminate E)]);
      try (destruct IH as [IH _]).
    - (* prim *)
      cbn [calls] in Hc. pose proof (cv_hd _ _ _ Hc) as L1. unfold Wz, Wr, Wv. cbn [decl_of calls wire_empty no_empty_coll].
      split; [|split].
      + apply false_true_iff. rewrite (zs_prim _ _ L1). destruct p as [[] []|[]|[] []| |[]| |]; cbn; discriminate.
      + intros r Hr d def [E|[]]. inversion E; subst. exact Hr.
      + split; [reflexivity|]. intros _ d def [E|[]]. inversion E; subst. exact I.
    - (* unit *)
      unfold Wz, Wr, Wv. destruct u; cbn [calls decl_of wire_empty no_empty_coll] in *; pose proof (cv_hd _ _ _ Hc) as L1;
        (split; [|split;
          [intros r Hr d def [E|[]]; inversion E; subst; exact Hr
          |split; [reflexivity|intros _ d def [E|[]]; inversion E; subst; exact I]]]).
      + rewrite (zs_prim _ _ L1). split; reflexivity.
      + rewrite (zs_prim _ _ L1). split; reflexivity.
      + rewrite (zs_struct _ _ L1). split; [reflexivity|constructor].
    - (* raw *)
      unfold Wz, Wr, Wv.
      destruct k; cbn [has_schema] in Hs; try discriminate; cbn [calls decl_of wire_empty no_empty_coll] in *.
      + destruct (W_ip 4 (or_introl eq_refl) Hc) as (Z & R & V).
        split; [now apply false_true_iff|]. split; [exact R|]. split; [reflexivity|intros _; exact V].
      + destruct (W_ip 16 (or_intror eq_refl) Hc) as (Z & R & V).
        split; [now apply false_true_iff|]. split; [exact R|]. split; [reflexivity|intros _; exact V].
    - (* text *)
      unfold Wz, Wr, Wv.
      destruct k; cbn [has_schema] in Hs; try discriminate; cbn [calls decl_of wire_empty no_empty_coll] in *;
        pose proof (cv_hd _ _ _ Hc) as L1; pose proof (cv_hd _ _ _ (cv_tl _ _ Hc)) as L2;
        (split; [apply false_true_iff; exact (zs_seq4 _ _ L1)|]; split;
         [intros r Hr d def [E|[E|[]]]; inversion E; subst; [exact Hr|];
          eapply Reach_snoc; [exact Hr|]; eapply edge_of; [exact L1|]; now left
         |split; [reflexivity|]; intros _ d def [E|[E|[]]]; inversion E; subst; [|exact I];
          apply ok_seq; rewrite (zs_prim _ _ L2); discriminate]).
    - (* seq *)
      cbn [has_schema] in Hs. apply andb_true_iff in Hs. destruct Hs as [Hs _].
      apply andb_true_iff in Hs. destruct Hs as [_ Hs'].
      cbn [calls] in Hc. pose proof (cv_hd _ _ _ Hc) as L1. pose proof (cv_tl _ _ Hc) as Hc'.
      destruct (IH Hs' Hc') as (Z & R & V). unfold Wz, Wr, Wv in *. cbn [wire_empty no_empty_coll calls].
      split; [apply false_true_iff; exact (zs_seq4 _ _ L1)|]. split.
      + intros r Hr d def [E|I]; [inversion E; subst; exact Hr|]. apply (R r) with (def := def); [|exact I].
        eapply Reach_snoc; [exact Hr|]. eapply edge_of; [exact L1|]. now left.
      + rewrite andb_true_iff, negb_true_iff, <- V. split.
        * intros H. split.
          -- pose proof (H _ _ (or_introl eq_refl)) as Hok. apply ok_seq in Hok. rewrite Z in Hok.
             destruct (wire_empty t'); [contradiction Hok; reflexivity|reflexivity].
          -- intros d def I. apply (H d def). now right.
        * intros [H1 H2] d def [E|I]; [|now apply (H2 d def)]. inversion E; subst. apply ok_seq. rewrite Z, H1. discriminate.
    - (* array *)
      cbn [has_schema] in Hs. cbn [calls] in Hc. pose proof (cv_hd _ _ _ Hc) as L1. pose proof (cv_tl _ _ Hc) as Hc'.
      destruct (IH Hs Hc') as (Z & R & V). unfold Wz, Wr, Wv in *. cbn [wire_empty no_empty_coll calls].
      split; [|split].
      + rewrite (zs_array _ _ _ L1), orb_true_iff, N.eqb_eq, Z. reflexivity.
      + intros r Hr d def [E|I]; [inversion E; subst; exact Hr|]. apply (R r) with (def := def); [|exact I].
        eapply Reach_snoc; [exact Hr|]. eapply edge_of; [exact L1|]. now left.
      + rewrite <- V. split.
        * intros H d def I. apply (H d def). now right.
        * intros H d def [E|I]; [inversion E; subst; apply ok_array|now apply (H d def)].
    - (* prod *)
      apply WQ_fst in IH. unfold Wz, Wr, Wv.
      destruct k as [|r| | |name fn sk|fn sk]; cbn [has_schema] in Hs; try discriminate.
      + (* tuple *)
        apply andb_true_iff in Hs. destruct Hs as [_ Hs].
        cbn [calls] in Hc. pose proof (cv_hd _ _ _ Hc) as L1. pose proof (cv_tl _ _ Hc) as Hc'.
        pose proof (pad_false_nosk (length ts)) as Hno.
        cbn [wire_empty no_empty_coll calls prod_skips].
        rewrite <- (calls_fields_nosk (fun x => calls x) ts _ Hno) in *.
        apply (W_node _ _ ts (pad_false (length ts) [])); auto.
        * cbn [members]. now rewrite keep_nosk.
        * exact (zs_tuple _ _ L1).
        * exact I.
        * now rewrite fields_all_nosk.
      + (* range *)
        apply andb_true_iff in Hs. destruct Hs as [Hs Hsame]. apply andb_true_iff in Hs. destruct Hs as [Hlen Hs].
        apply Nat.eqb_eq in Hlen.
        cbn [calls] in Hc. pose proof (cv_hd _ _ _ Hc) as L1. pose proof (cv_tl _ _ Hc) as Hc'.
        pose proof (pad_false_nosk (length ts)) as Hno.
        cbn [wire_empty no_empty_coll calls prod_skips].
        rewrite <- (calls_fields_nosk (fun x => calls x) ts _ Hno) in *.
        apply (W_node _ _ ts (pad_false (length ts) [])); auto.
        * cbn [members field_decls]. rewrite keep_nosk by exact Hno. apply map_snd_combine. now rewrite map_length.
        * exact (zs_struct _ _ L1).
        * exact I.
        * now rewrite fields_all_nosk.
      + (* struct *)
        apply andb_true_iff in Hs. destruct Hs as [Hs Hfa]. apply andb_true_iff in Hs. destruct Hs as [Hn Hlen].
        apply Nat.eqb_eq in Hlen.
        cbn [calls] in Hc. pose proof (cv_hd _ _ _ Hc) as L1. pose proof (cv_tl _ _ Hc) as Hc'.
        cbn [wire_empty no_empty_coll calls prod_skips decl_of]. rewrite <- Hlen, pad_false_id.
        apply (W_node _ _ ts sk); auto.
        * cbn [members]. apply field_decls_mk_eq. now rewrite map_length.
        * exact (zs_struct _ _ L1).
        * exact I.
    - (* prod, second clause *)
      intros fn sk ts0 E. inversion E; subst. now apply WQ_fst.
    - (* sum *)
      pose proof IH as IHQ. apply WQ_fst in IH. unfold Wz, Wr, Wv.
      destruct k as [| | | |name vn tags]; cbn [has_schema] in Hs; try discriminate.
      + (* option *)
        destruct vs as [|v0 [|t1 [|? ?]]];
          try (repeat match type of Hs with context [match ?x with _ => _ end] => destruct x end; discriminate).
        assert (Hs1 : has_schema t1 = true /\ v0 = TProd (PVariant [] []) []).
        { repeat match type of Hs with context [match ?x with _ => _ end] => destruct x end; try discriminate; split; [exact Hs|reflexivity]. }
        destruct Hs1 as [Hs1 ->].
        cbn [calls] in Hc. pose proof (cv_hd _ _ _ Hc) as L1. pose proof (cv_tl _ _ Hc) as Hc'.
        pose proof (cv_app_l _ _ Hc') as Hc1. pose proof (cv_hd _ _ _ (cv_app_r _ _ Hc')) as Lu.
        destruct (Forall_inv (Forall_inv_tail IH) Hs1 Hc1) as (Z & R & V). unfold Wz, Wr, Wv in *.
        cbn [wire_empty no_empty_coll calls forallb fields_all prod_skips length pad_false andb]. rewrite andb_true_r.
        split; [apply false_true_iff; exact (zs_enum1 _ _ L1)|]. split.
        * intros r Hr d def [E|I]; [inversion E; subst; exact Hr|]. apply in_app_or in I. destruct I as [I|[E|[]]].
          -- apply (R r) with (def := def); [|exact I]. eapply Reach_snoc; [exact Hr|]. eapply edge_of; [exact L1|]. cbn. auto.
          -- inversion E; subst. eapply Reach_snoc; [exact Hr|]. eapply edge_of; [exact L1|]. cbn. auto.
        * rewrite <- V. split.
          -- intros H d def I. apply (H d def). right. apply in_or_app. now left.
          -- intros H d def [E|I]; [inversion E; subst; cbn; lia|]. apply in_app_or in I.
             destruct I as [I|[E|[]]]; [now apply (H d def)|inversion E; subst; exact Logic.I].
      + (* result *)
        destruct vs as [|t0 [|t1 [|? ?]]]; try discriminate.
        apply andb_true_iff in Hs. destruct Hs as [Hs0 Hs1].
        cbn [calls] in Hc. pose proof (cv_hd _ _ _ Hc) as L1. pose proof (cv_tl _ _ Hc) as Hc'.
        pose proof (cv_app_l _ _ Hc') as Hc0. pose proof (cv_app_r _ _ Hc') as Hc1.
        destruct (Forall_inv IH Hs0 Hc0) as (Z0 & R0 & V0).
        destruct (Forall_inv (Forall_inv_tail IH) Hs1 Hc1) as (Z1 & R1 & V1). unfold Wz, Wr, Wv in *.
        cbn [wire_empty no_empty_coll calls forallb]. rewrite andb_true_r.
        split; [apply false_true_iff; exact (zs_enum1 _ _ L1)|]. split.
        * intros r Hr d def [E|I]; [inversion E; subst; exact Hr|]. apply in_app_or in I. destruct I as [I|I].
          -- apply (R0 r) with (def := def); [|exact I]. eapply Reach_snoc; [exact Hr|]. eapply edge_of; [exact L1|]. cbn. auto.
          -- apply (R1 r) with (def := def); [|exact I]. eapply Reach_snoc; [exact Hr|]. eapply edge_of; [exact L1|]. cbn. auto.
        * rewrite andb_true_iff, <- V0, <- V1. split.
          -- intros H. split; intros d def I; apply (H d def); right; apply in_or_app; auto.
          -- intros [H0 H1] d def [E|I]; [inversion E; subst; cbn; lia|]. apply in_app_or in I. destruct I; eauto.
      + (* IpAddr *)
        destruct vs as [|t0 [|t1 [|? ?]]];
          try (repeat match type of Hs with context [match ?x with _ => _ end] => destruct x end; discriminate).
        assert (E01 : t0 = TRaw RIpv4 /\ t1 = TRaw RIpv6).
        { repeat match type of Hs with context [match ?x with _ => _ end] => destruct x end; try discriminate; split; reflexivity. }
        destruct E01 as [-> ->].
        cbn [calls decl_of] in *. unfold ipaddr_calls in Hc.
        pose proof (cv_app_l _ _ Hc) as HcA. pose proof (cv_app_r _ _ Hc) as HcB.
        pose proof (cv_app_l _ _ HcB) as HcB1. pose proof (cv_hd _ _ _ (cv_app_r _ _ HcB)) as L1.
        pose proof (cv_hd _ _ _ HcA) as L4. pose proof (cv_tl _ _ HcA) as Hc4.
        pose proof (cv_hd _ _ _ HcB1) as L6. pose proof (cv_tl _ _ HcB1) as Hc6.
        destruct (W_ip 4 (or_introl eq_refl) Hc4) as (_ & R4 & V4). destruct (W_ip 16 (or_intror eq_refl) Hc6) as (_ & R6 & V6).
        unfold ipaddr_def in L1.
        cbn [wire_empty no_empty_coll]. split; [apply false_true_iff; exact (zs_enum1 _ _ L1)|]. split.
        * intros r Hr.
          assert (Ra : Reach c r "IpAddrV4") by (eapply Reach_snoc; [exact Hr|]; eapply edge_of; [exact L1|]; cbn; auto).
          assert (Rb : Reach c r "IpAddrV6") by (eapply Reach_snoc; [exact Hr|]; eapply edge_of; [exact L1|]; cbn; auto).
          assert (Ra' : Reach c r (ip_decl 4)) by (eapply Reach_snoc; [exact Ra|]; eapply edge_of; [exact L4|]; cbn; auto).
          assert (Rb' : Reach c r (ip_decl 16)) by (eapply Reach_snoc; [exact Rb|]; eapply edge_of; [exact L6|]; cbn; auto).
          unfold ipaddr_calls. intros d def I. apply in_app_or in I. destruct I as [[E|I]|I].
          -- inversion E; subst. exact Ra.
          -- now apply (R4 r Ra' d def).
          -- apply in_app_or in I. destruct I as [[E|I]|[E|[]]].
             ++ inversion E; subst. exact Rb.
             ++ now apply (R6 r Rb' d def).
             ++ inversion E; subst. exact Hr.
        * split; [reflexivity|]. intros _. unfold ipaddr_calls. intros d def I. apply in_app_or in I. destruct I as [[E|I]|I].
          -- inversion E; subst. exact Logic.I.
          -- now apply (V4 d def).
          -- apply in_app_or in I. destruct I as [[E|I]|[E|[]]].
             ++ inversion E; subst. exact Logic.I.
             ++ now apply (V6 d def).
             ++ inversion E; subst. unfold ipaddr_def. cbn. lia.
      + (* derived enum *)
        apply andb_true_iff in Hs. destruct Hs as [Hs Hvs]. apply andb_true_iff in Hs. destruct Hs as [Hl1 Hl2].
        apply Nat.eqb_eq in Hl1, Hl2.
        cbn [calls decl_of] in *.
        match type of Hc with cv (?G vs 0%nat ++ _) => set (cgo := G) in * end.
        pose proof (cv_app_l _ _ Hc) as HcV. pose proof (cv_hd _ _ _ (cv_app_r _ _ Hc)) as L1.
        assert (Hnth : forall vn0 tg0 k, (k < length vn0)%nat -> (k < length tg0)%nat ->
                  In (name ++ nth_str vn0 k)%string (map variant_decl (enum_variants name vn0 tg0))).
        { induction vn0 as [|v0 vr IHv]; intros tg0 k Hk1 Hk2; [cbn in Hk1; lia|].
          destruct tg0 as [|g gr]; [cbn in Hk2; lia|]. cbn [enum_variants map variant_decl snd].
          destruct k as [|k]; [left; reflexivity|right]. unfold nth_str. cbn [nth].
          apply (IHv gr k); cbn [length] in *; lia. }
        assert (Hgo : forall l i, Forall WQ l -> (i + length l = length vs)%nat ->
                  forallb (fun v => match v with
                                    | TProd (PVariant fn sk) ts =>
                                        names_ok fn (length ts) && Nat.eqb (length sk) (length ts) &&
                                        fields_all (fun x => has_schema x) ts sk
                                    | _ => false end) l = true ->
                  cv (cgo l i) ->
                  (forall r, Reach c r name -> forall d def, In (d, def) (cgo l i) -> Reach c r d) /\
                  ((forall d def, In (d, def) (cgo l i) -> def_ok c def) <-> forallb (fun x => no_empty_coll x) l = true)).
        { induction l as [|v vr IHl]; intros i Hf Hil Hb Hcl.
          - split; [intros r _ d def []|]. split; [reflexivity|intros _ d def []].
          - cbn [forallb] in Hb. apply andb_true_iff in Hb. destruct Hb as [Hv Hb].
            destruct v as [| | | | | |[| | | | |fn sk] ts| |]; try discriminate.
            apply andb_true_iff in Hv. destruct Hv as [Hv Hfa]. apply andb_true_iff in Hv. destruct Hv as [Hn Hlsk].
            apply Nat.eqb_eq in Hlsk.
            pose proof (proj2 (Forall_inv Hf) fn sk ts eq_refl) as Hts.
            cbn [cgo] in Hcl |- *. fold cgo in Hcl |- *.
            pose proof (cv_app_l _ _ Hcl) as HcH. pose proof (cv_app_r _ _ Hcl) as HcT.
            pose proof (cv_hd _ _ _ HcH) as Lv. pose proof (cv_tl _ _ HcH) as Hcf.
            assert (Hm : members (Struct (mk_fields fn sk (map (fun x => decl_of x) ts))) = keep sk (map (fun x => decl_of x) ts))
              by (cbn [members]; apply field_decls_mk_eq; now rewrite map_length).
            destruct (W_node _ _ ts sk Lv Hm (zs_struct _ _ Lv) Logic.I Hts Hfa Hcf) as (_ & Rn & Vn).
            assert (Hil' : (S i + length vr = length vs)%nat) by (cbn [length] in Hil; lia).
            destruct (IHl (S i) (Forall_inv_tail Hf) Hil' Hb HcT) as (Rt & Vt).
            split.
            + intros r Hr d def I. apply in_app_or in I. destruct I as [I|I]; [|now apply (Rt r Hr d def)].
              apply (Rn r) with (def := def); [|exact I]. eapply Reach_snoc; [exact Hr|]. eapply edge_of; [exact L1|].
              cbn [members]. apply Hnth; cbn [length] in Hil; lia.
            + cbn [forallb no_empty_coll prod_skips]. rewrite <- Hlsk, pad_false_id, andb_true_iff, <- Vn, <- Vt. split.
              * intros H. split; intros d def I; apply (H d def); apply in_or_app; auto.
              * intros [H1 H2] d def I. apply in_app_or in I. destruct I; eauto. }
        destruct (Hgo vs 0%nat IHQ eq_refl Hvs HcV) as (Rg & Vg).
        cbn [wire_empty no_empty_coll]. split; [apply false_true_iff; exact (zs_enum1 _ _ L1)|]. split.
        * intros r Hr d def I. apply in_app_or in I. destruct I as [I|[E|[]]]; [now apply (Rg r Hr d def)|].
          inversion E; subst. exact Hr.
        * rewrite <- Vg. split.
          -- intros H d def I. apply (H d def). apply in_or_app. now left.
          -- intros H d def I. apply in_app_or in I. destruct I as [I|[E|[]]]; [now apply (H d def)|].
             inversion E; subst. cbn. lia.
    - (* wrap *)
      destruct w; cbn [has_schema] in Hs; try discriminate; cbn [calls] in Hc;
        destruct (IH Hs Hc) as (Z & R & V); unfold Wz, Wr, Wv in *; cbn [decl_of wire_empty no_empty_coll calls];
        (split; [exact Z|split; [exact R|exact V]]).
  Qed.
End V.

(** * Assembling *)
Lemma reach_defined c : closed_defs (defs c) -> forall a d, Reach c a d -> defined (defs c) a -> defined (defs c) d.
Proof.
  intros Hcl a d H. induction H as [d|d m d' (def & L & Hm) Hr IH]; intros Ha; [exact Ha|].
  apply IH. exact (Hcl d def L m Hm).
Qed.

Section Validates.
  Variables (t : ty) (c : container).
  Hypothesis Hs : has_schema t = true.
  Hypothesis Hco : coherent t = true.
  Hypothesis Hsc : schema_of t = Ok c.

  Lemma root_is_decl : root c = decl_of t.
  Proof. unfold schema_of in Hsc. apply bind_ok in Hsc. destruct Hsc as (ds & _ & H2). now inversion H2. Qed.

  Lemma W_here : Wz c t /\ Wr c t /\ Wv c t.
  Proof. exact (proj1 (WQ_all c t) Hs (schema_of_covers t c Hs Hco Hsc)). Qed.

  Lemma wf_iff : WellFormed c <-> no_empty_coll t = true.
  Proof.
    destruct W_here as (_ & R & V). destruct (schema_of_closed t c Hs Hsc) as (Hroot & Hclosed & Hprov).
    pose proof (schema_of_covers t c Hs Hco Hsc) as Hcov. unfold Wv in V. rewrite <- V. split.
    - intros Hwf d def I.
      assert (Hr : Reach c (root c) d).
      { rewrite root_is_decl. apply (R (decl_of t) (Reach_refl c _) d def I). }
      destruct (Hwf d Hr) as (def' & L & Hok). unfold get_definition in L. rewrite (Hcov d def I) in L.
      inversion L; subst. exact Hok.
    - intros Hall d Hr.
      pose proof (reach_defined c Hclosed _ _ Hr Hroot) as Hd. unfold defined in Hd.
      destruct (lookup (defs c) d) as [def|] eqn:L; [|congruence].
      exists def. split; [exact L|]. exact (Hall d def (Hprov d def L)).
  Qed.

  (** the generated container validates exactly when the type has no dynamically sized
      collection with wire-empty elements ([ranges_fit]: array lengths are [u64]s) *)
  Theorem schema_validates : ranges_fit 64 c -> (validate c = SOk tt <-> no_empty_coll t = true).
  Proof. intros Hfit. rewrite (c10_exact c Hfit). exact wf_iff. Qed.

  Theorem schema_validates_ok : no_empty_coll t = true -> validate c = SOk tt.
  Proof. intros H. apply c10_wf_accepted. now apply wf_iff. Qed.

  Theorem zero_sized_iff : ZeroSized c (decl_of t) <-> wire_empty t = true.
  Proof. exact (proj1 W_here). Qed.
End Validates.

(** * C14_agree *)
Lemma clw_default d : check_length_width d 4 U32_MAX = SOk tt.
Proof. reflexivity. Qed.

Section Agree.
  Variables (k : seq_kind) (e : ty) (c : container).
  Hypothesis Hs : has_schema (TSeq k e) = true.
  Hypothesis Hco : coherent (TSeq k e) = true.
  Hypothesis Hsc : schema_of (TSeq k e) = Ok c.

  Let d0 := decl_of (TSeq k e).

  Lemma seq_parts : lookup (defs c) d0 = Some (seq_def (decl_of e)) /\ (ZeroSized c (decl_of e) <-> wire_empty e = true).
  Proof.
    pose proof (schema_of_covers _ c Hs Hco Hsc) as Hcov. split.
    - apply Hcov. cbn [calls]. now left.
    - assert (Hse : has_schema e = true).
      { cbn [has_schema] in Hs. apply andb_true_iff in Hs. destruct Hs as [H _]. apply andb_true_iff in H. now destruct H. }
      refine (proj1 (proj1 (WQ_all c e) Hse _)). intros d def I. apply Hcov. cbn [calls]. now right.
  Qed.

  (** wire-empty elements: validation fails at the root with [ZSTSequence] *)
  Theorem agree_empty : wire_empty e = true -> validate c = SErr (ZSTSequence d0).
  Proof.
    intros Hwe. destruct seq_parts as [L Z]. apply Z in Hwe. apply (proj1 (c10_zero c (decl_of e))) in Hwe.
    unfold validate, full_fuel. rewrite (root_is_decl _ c Hsc). fold d0.
    cbn [validate_impl]. unfold get_definition. rewrite L. cbn [on_stack existsb]. unfold seq_def, DEFAULT_LENGTH_WIDTH.
    change ((4 =? 0)%N && (0 =? U32_MAX)%N && negb (range_is_empty 0 U32_MAX)) with false. cbv iota.
    change (range_is_empty 0 U32_MAX) with false. cbv iota. rewrite clw_default. cbn [sbind]. rewrite Hwe. reflexivity.
  Qed.

  (** elements that occupy the wire: validation never blames the root that way *)
  Theorem agree_nonempty : wire_empty e = false -> validate c <> SErr (ZSTSequence d0).
  Proof.
    intros Hwe H. destruct seq_parts as [L Z]. destruct (c10_blame c _ H) as [_ (lw & lo & hi & el & L' & _ & Hz)].
    unfold get_definition in L'. cbn [blamed] in L'. rewrite L in L'. inversion L'; subst.
    apply Z in Hz. congruence.
  Qed.
End Agree.

(** the run-time refusal (C14_refuse) and the schema verdict, side by side *)
Theorem agree_runtime k e c cfg0 v bs :
  has_schema (TSeq k e) = true -> coherent (TSeq k e) = true -> schema_of (TSeq k e) = Ok c ->
  ser_checks_zst k = true -> is_map k = false ->
  mem_zst e = true -> wire_empty e = true ->
  enc (TSeq k e) v = Err InvalidData MZst /\
  dec_slice cfg0 (TSeq k e) bs = Err InvalidData MZst /\
  validate c = SErr (ZSTSequence (decl_of (TSeq k e))).
Proof.
  intros Hs Hco Hsc Hk Hm Hz Hwe.
  assert (Hkt : mem_zst (key_ty k e) = true) by (unfold key_ty; now rewrite Hm).
  split; [now apply DecCorollaries.zst_refused_ser|]. split; [now apply DecCorollaries.zst_refused_de|].
  now apply agree_empty.
Qed.

Print Assumptions schema_validates.
Print Assumptions agree_empty.
Print Assumptions agree_nonempty.
Print Assumptions agree_runtime.
