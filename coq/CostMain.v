(** C07, third part: the constants by recursion on the type, and the main induction. *)
From Coq Require Import String.
From Coq Require Import List NArith Bool Lia.
From Borsh Require Import Bytes BytesFacts Result Loop LoopFacts Ty TyInd Ser De CodecFacts ParseFacts DecCorollaries
     Cost CostFacts CostLoops CostBasic CostBounds.
Import ListNotations.
Local Open Scope N_scope.

Section Main.
  Variables (alpha beta : N) (sz : ty -> N) (c : cfg).

  Definition lsum (f : ty -> N) (ts : list ty) : N := fold_right (fun x a => f x + a) 0 ts.

  (** additive constant and slope of the weighted cost; constant and slope of the largest request *)
  Fixpoint K0 (t : ty) : N :=
    match t with
    | TPrim _ | TUnit _ | TRaw _ => 0
    | TText _ => alpha * (CHUNK + 4096 + 1) + (0 + beta + 16 * (alpha * 1))
    | TSeq _ t' => alpha * (CHUNK + 4096 + sz t') + (K0 t' + beta + 16 * (alpha * sz t'))
    | TArray n t' => n * (K0 t' + beta)
    | TProd _ ts => fold_right (fun x a => K0 x + a) 0 ts
    | TSum _ vs => fold_right (fun x a => K0 x + a) 0 vs
    | TWrap _ t' => K0 t'
    end.
  Fixpoint K1 (t : ty) : N :=
    match t with
    | TPrim _ | TUnit _ | TRaw _ => 0
    | TText _ => 0 + beta + 0 + 4 * (alpha * 1) + 4 * alpha
    | TSeq _ t' => K0 t' + beta + K1 t' + 4 * (alpha * sz t') + 4 * alpha
    | TArray _ t' => K1 t'
    | TProd _ ts => fold_right (fun x a => K1 x + a) 0 ts
    | TSum _ vs => fold_right (fun x a => K1 x + a) 0 vs
    | TWrap _ t' => K1 t'
    end.
  Fixpoint B0 (t : ty) : N :=
    match t with
    | TPrim _ | TUnit _ | TRaw _ => 0
    | TText _ => 0 + 8 * 1 + CHUNK + 4096 + 1
    | TSeq _ t' => B0 t' + 8 * sz t' + CHUNK + 4096 + sz t'
    | TArray _ t' => B0 t'
    | TProd _ ts => fold_right (fun x a => B0 x + a) 0 ts
    | TSum _ vs => fold_right (fun x a => B0 x + a) 0 vs
    | TWrap _ t' => B0 t'
    end.
  Fixpoint B1 (t : ty) : N :=
    match t with
    | TPrim _ | TUnit _ | TRaw _ => 0
    | TText _ => 0 + 2 * 1 + 2
    | TSeq _ t' => B1 t' + 2 * sz t' + 2
    | TArray _ t' => B1 t'
    | TProd _ ts => fold_right (fun x a => B1 x + a) 0 ts
    | TSum _ vs => fold_right (fun x a => B1 x + a) 0 vs
    | TWrap _ t' => B1 t'
    end.

  Notation cb := (cbound alpha beta).

  Lemma prim_width_pos p : (1 <= prim_width p)%nat.
  Proof. destruct p as [s w|s|s w| |d| |]; try destruct w; try destruct d; cbn; lia. Qed.

  Lemma conv_text_only k n : conv_only (conv_text k n).
  Proof. destruct k; repeat constructor. Qed.
  Lemma conv_seq_only k n e : conv_only (conv_seq k n e).
  Proof. destruct k; repeat constructor. Qed.
  Lemma conv_wrap_only w t' v : conv_only (conv_wrap sz w t' v).
  Proof.
    destruct w; try (repeat constructor).
    all: destruct t' as [| | |[]|[] ?| | | |]; repeat constructor.
  Qed.

  (** the struct / tuple field loop *)
  Lemma cdec_fields_bound ts :
    Forall (fun t => fam t = true -> cb (wire_pos t) (K0 t) (K1 t) (B0 t) (B1 t) (cdec sz c t)) ts ->
    forallb (fun x => fam x) ts = true ->
    forall sk,
      cb (any_unskipped (fun x => wire_pos x) ts sk)
         (fold_right (fun x a => K0 x + a) 0 ts) (fold_right (fun x a => K1 x + a) 0 ts)
         (fold_right (fun x a => B0 x + a) 0 ts) (fold_right (fun x a => B1 x + a) 0 ts)
         (cdec_fields (fun t' s => cdec sz c t' s) ts sk).
  Proof.
    induction 1 as [|t' tr Ht' Htr IH]; intros Hfam sk; cbn [cdec_fields any_unskipped fold_right forallb] in *.
    - apply cbound_ret.
    - apply andb_true_iff in Hfam. destruct Hfam as [Hf1 Hf2].
      set (sb := match sk with b :: _ => b | [] => false end).
      set (sr := match sk with _ :: r => r | [] => [] end).
      set (S0 := fold_right (fun x a => K0 x + a) 0 tr) in *.
      set (S1 := fold_right (fun x a => K1 x + a) 0 tr) in *.
      set (T0 := fold_right (fun x a => B0 x + a) 0 tr) in *.
      set (T1 := fold_right (fun x a => B1 x + a) 0 tr) in *.
      refine (cbound_bind' alpha beta (negb sb && wire_pos t') (any_unskipped (fun x => wire_pos x) tr sr)
                (K0 t') S0 (K1 t' + S1) (B0 t' + T0) (B1 t' + T1) _ _ _ _).
      + destruct sb; cbn [negb andb].
        * eapply cbound_weaken; [| | | | |apply cbound_ret]; try lia; auto.
        * eapply cbound_weaken; [| | | | |apply (Ht' Hf1)]; try lia; auto.
      + intros v. apply cbound_map.
        eapply cbound_weaken; [| | | | |apply (IH Hf2 sr)]; try lia; auto.
  Qed.

  (** the variant dispatch *)
  Lemma nth_or_bound vs d :
    Forall (fun t => fam t = true -> cb (wire_pos t) (K0 t) (K1 t) (B0 t) (B1 t) (cdec sz c t)) vs ->
    forallb (fun x => fam x) vs = true ->
    forall m,
      cb false
         (fold_right (fun x a => K0 x + a) 0 vs) (fold_right (fun x a => K1 x + a) 0 vs)
         (fold_right (fun x a => B0 x + a) 0 vs) (fold_right (fun x a => B1 x + a) 0 vs)
         (fun s1 => nth_or (fun t' => cdec sz c t' s1) (mlift (Err InvalidData d)) vs m).
  Proof.
    induction 1 as [|x r Hx Hr IH]; intros Hfam m; cbn [fold_right forallb] in *.
    - destruct m; cbn [nth_or]; (eapply cbound_weaken; [| | | | |apply (cbound_fail alpha beta InvalidData d)]; try lia; auto).
    - apply andb_true_iff in Hfam. destruct Hfam as [Hf1 Hf2].
      destruct m as [|m]; cbn [nth_or].
      + eapply cbound_weaken; [| | | | |apply (Hx Hf1)]; try lia; auto; try discriminate.
      + eapply cbound_weaken; [| | | | |apply (IH Hf2 m)]; try lia; auto.
  Qed.

  Theorem cdec_bound :
    sz_ok sz -> forall t, fam t = true -> cb (wire_pos t) (K0 t) (K1 t) (B0 t) (B1 t) (cdec sz c t).
  Proof.
    intros Hsz. induction t as [p|u|k|k|k t' IH|n t' IH|k ts IH|k vs IH|w t' IH] using ty_ind'; intros Hfam.
    - (* prim *)
      cbn [cdec wire_pos K0 K1 B0 B1]. apply cbound_lift. intros bs a rest. cbn [dec].
      destruct (read_mapped slice_reader (N.of_nat (prim_width p)) bs) as [[b s']|? ?|?] eqn:E; cbn [bind]; try discriminate.
      apply read_mapped_len in E. destruct (prim_de_check p (unle b)); [discriminate|].
      intros H. inversion H; subst. pose proof (prim_width_pos p). cbn [bpos]. lia.
    - (* unit *)
      cbn [cdec wire_pos K0 K1 B0 B1]. apply cbound_lift. intros bs a rest. cbn [dec].
      intros H. inversion H; subst. cbn [bpos]. lia.
    - (* raw *)
      cbn [cdec wire_pos K0 K1 B0 B1]. apply cbound_lift. intros bs a rest. cbn [dec].
      destruct (read_mapped slice_reader (raw_len k) bs) as [[b s']|? ?|?] eqn:E; cbn [bind]; try discriminate.
      apply read_mapped_len in E. intros H. inversion H; subst. cbn [bpos]. destruct k; cbn [raw_len] in E; lia.
    - (* text *)
      assert (Hvec : cb true (K0 (TText k)) (K1 (TText k)) (B0 (TText k)) (B1 (TText k))
                 (fun s => '(l, s') <<- cdec_vec 1 true (fun s => mlift (Panic P_ILLTYPED)) s ;;
                           v <<- mlift (text_post k l) ;; _ <<- emits (conv_text k (len l)) ;; mret (v, s'))).
      { cbn [K0 K1 B0 B1].
        apply (cbound_tail' alpha beta true _ _ _ _ _ (text_post k) (fun l => conv_text k (len l))).
        - apply (cdec_vec_bound alpha beta 0 0 0 0 1 true). discriminate.
        - intros l. apply conv_text_only. }
      destruct k; cbn [cdec wire_pos]; try exact Hvec.
      (* BytesMut *)
      cbn [K0 K1 B0 B1].
      set (rd := fun s : bytes => mlift ('(b, s') <- read_u8 slice_reader s ;; Ok (VN b, s'))).
      assert (Hrd : cb true 0 0 0 0 rd).
      { apply cbound_lift. intros bs a rest. destruct (read_u8 slice_reader bs) as [[b s']|? ?|?] eqn:E; cbn [bind]; try discriminate.
        apply read_u8_len in E. intros H. inversion H; subst. cbn [bpos]. lia. }
      replace (alpha * (CHUNK + 4096 + 1) + (0 + beta + 16 * (alpha * 1))) with (0 + (alpha * (CHUNK + 4096 + 1) + (0 + beta + 16 * (alpha * 1)))) by lia.
      refine (cbound_bind' alpha beta true false 0 _ _ _ _ _ _ _ _).
      + eapply cbound_weaken; [| | | | |apply (cbound_lift alpha beta true (read_u32 slice_reader))]; try lia; auto.
        intros bs n s1 H. apply read_u32_len in H. cbn [bpos]. lia.
      + intros n. apply cbound_map.
        assert (alpha * (4096 + 1) <= alpha * (CHUNK + 4096 + 1)) by (apply N.mul_le_mono_l; lia).
        eapply cbound_weaken; [| | | | |apply (cpush_loop_bound alpha beta 0 0 0 0 1 rd n Hrd)]; try lia; auto.
    - (* seq *)
      cbn [cdec wire_pos K0 K1 B0 B1]. cbn [fam] in Hfam.
      destruct (mem_zst (key_ty k t')) eqn:Ez.
      + eapply cbound_weaken; [| | | | |apply (cbound_fail alpha beta InvalidData MZst)]; try lia; auto.
      + cbn [orb] in Hfam. apply andb_true_iff in Hfam. destruct Hfam as [Hwp Hft].
        apply (cbound_tail' alpha beta true _ _ _ _ _ (post c k (key_ty k t')) (fun l => conv_seq k (len l) (sz t'))).
        * apply (cdec_vec_bound alpha beta (K0 t') (K1 t') (B0 t') (B1 t') (sz t') (is_u8 t')).
          intros _. split.
          -- specialize (IH Hft). rewrite Hwp in IH. exact IH.
          -- apply Hsz. now apply (mem_zst_key k).
        * intros l. apply conv_seq_only.
    - (* array *)
      cbn [cdec wire_pos K0 K1 B0 B1]. cbn [fam] in Hfam.
      destruct (is_u8 t') eqn:Eu.
      + assert (Hwp : wire_pos t' = true) by (destruct t' as [[[] []| | | | | |]| | | | | | | |]; try discriminate; reflexivity).
        rewrite Hwp, andb_true_r.
        eapply cbound_weaken; [| | | | |apply (cbound_lift alpha beta (negb (n =? 0)))]; try lia; auto.
        intros bs a rest. destruct (read_mapped slice_reader n bs) as [[b s']|? ?|?] eqn:E; cbn [bind]; try discriminate.
        apply read_mapped_len in E. intros H. inversion H; subst. destruct (N.eqb_spec n 0); cbn [negb bpos]; lia.
      + apply cbound_map. destruct (N.eqb_spec n 0) as [->|Hn0].
        * (* no iteration *)
          cbn [N.eqb negb andb]. intros bs. unfold crepeat. cbn [citerN]. rewrite mbind_ret_l.
          cbn [mret fst snd rev_append bpos]. split; [constructor|]. rewrite mu_nil. split; lia.
        * cbn [orb] in Hfam. rewrite andb_comm.
          pose proof (crepeat_array alpha beta (wire_pos t') (K0 t') (K1 t') (B0 t') (B1 t') (cdec sz c t') n n (IH Hfam)) as Hc.
          assert (En : (n =? 0) = false) by (apply N.eqb_neq; exact Hn0). rewrite En in Hc. exact Hc.
    - (* prod *)
      cbn [cdec wire_pos K0 K1 B0 B1]. cbn [fam] in Hfam. apply cbound_map.
      apply cdec_fields_bound; assumption.
    - (* sum *)
      cbn [cdec wire_pos K0 K1 B0 B1]. cbn [fam] in Hfam.
      set (S0 := fold_right (fun x a => K0 x + a) 0 vs). replace S0 with (0 + S0) by lia.
      refine (cbound_bind' alpha beta true false 0 S0 _ _ _ _ _ _ _).
      + eapply cbound_weaken; [| | | | |apply (cbound_lift alpha beta true (read_u8 slice_reader))]; try lia; auto.
        intros bs b s1 H. apply read_u8_len in H. cbn [bpos]. lia.
      + intros b. destruct (find_tag (sum_tags k) b 0) as [i|].
        * apply cbound_map. apply nth_or_bound; assumption.
        * eapply cbound_weaken; [| | | | |apply (cbound_fail alpha beta InvalidData (bad_tag k b))]; try lia; auto.
    - (* wrap *)
      cbn [cdec wire_pos K0 K1 B0 B1]. cbn [fam] in Hfam.
      apply (cbound_conv alpha beta _ _ _ _ _ _ (conv_wrap sz w t')); [exact (IH Hfam)|].
      intros v. apply conv_wrap_only.
  Qed.
End Main.

(** * The statements about the cost record *)
Lemma cbound_total alpha beta {A} pos a0 a1 b0 b1 (p : cparser A) bs :
  cbound alpha beta pos a0 a1 b0 b1 p -> mu alpha beta (fst (p bs)) <= a0 + a1 * len bs.
Proof.
  intros H. destruct (H bs) as [_ Hc]. destruct (snd (p bs)) as [[a rest]|k e|w]; try exact Hc. lia.
Qed.

Theorem cdec_max_request sz c t bs :
  sz_ok sz -> fam t = true ->
  max_request (cost_of (fst (cdec sz c t bs))) <= B0 sz t + B1 sz t * len bs.
Proof.
  intros Hsz Hf. cbn [cost_of max_request]. apply max_of_le.
  destruct (cdec_bound 0 0 sz c Hsz t Hf bs) as [Hall _]. exact Hall.
Qed.

Theorem cdec_work sz c t bs :
  sz_ok sz -> fam t = true ->
  elems (cost_of (fst (cdec sz c t bs))) <= K0 0 1 sz t + K1 0 1 sz t * len bs.
Proof.
  intros Hsz Hf. cbn [cost_of elems].
  pose proof (cbound_total 0 1 _ _ _ _ _ _ bs (cdec_bound 0 1 sz c Hsz t Hf)) as H.
  rewrite mu_split in H. lia.
Qed.

Theorem cdec_alloc sz c t bs :
  sz_ok sz -> fam t = true ->
  total_requested (cost_of (fst (cdec sz c t bs))) <= K0 1 0 sz t + K1 1 0 sz t * len bs.
Proof.
  intros Hsz Hf. cbn [cost_of total_requested].
  pose proof (cbound_total 1 0 _ _ _ _ _ _ bs (cdec_bound 1 0 sz c Hsz t Hf)) as H.
  rewrite mu_split in H. lia.
Qed.

(** cost in terms of the bytes CONSUMED by a successful decode (what makes the bound compose) *)
Theorem cdec_alloc_consumed sz c t bs v rest :
  sz_ok sz -> fam t = true -> snd (cdec sz c t bs) = Ok (v, rest) ->
  len rest <= len bs /\
  total_requested (cost_of (fst (cdec sz c t bs))) + K1 1 0 sz t * len rest <= K0 1 0 sz t + K1 1 0 sz t * len bs /\
  elems (cost_of (fst (cdec sz c t bs))) + K1 0 1 sz t * len rest <= K0 0 1 sz t + K1 0 1 sz t * len bs /\
  (wire_pos t = true -> len rest < len bs).
Proof.
  intros Hsz Hf E. cbn [cost_of total_requested elems].
  destruct (cdec_bound 1 0 sz c Hsz t Hf bs) as [_ H1]. destruct (cdec_bound 0 1 sz c Hsz t Hf bs) as [_ H2].
  rewrite E in H1, H2. destruct H1 as [L1 M1]. destruct H2 as [L2 M2]. rewrite mu_split in M1, M2.
  repeat split; try lia. intros Hw. rewrite Hw in L1. cbn [bpos] in L1. lia.
Qed.
