(** Recursive items through finite unfoldings: the fuel is irrelevant.

    [refines a b]: [b] is [a] with placeholders replaced by derived items.
    - [mono_all]: a value typed at [a] that stays away from the placeholders is typed at
      [b], with the same serialization trace and the same logical value;
    - [dec_stable]: a successful decode at [a] is a successful decode at [b], same result
      (any reader);
    - [unfold_refines]: unfolding further refines.
    The statements about [has_ty_rec] / [enc_rec] / [dec_rec] follow. *)
From Coq Require Import String.
From Coq Require Import List NArith Bool Lia Permutation.
From Borsh Require Import Bytes BytesFacts Result Loop LoopFacts Ty TyInd Ser De Entry CodecFacts
  RoundTrip SortFacts RoundTripKeyed ParseFacts DecCorollaries Rec.
Import ListNotations.
Local Open Scope N_scope.

(** * Elementary facts about [refines] *)
Lemma is_cut_eq t : is_cut t = true -> t = CUT.
Proof.
  destruct t as [| | | | | | | |w t]; try discriminate. destruct w; try discriminate.
  destruct t as [| | | |k t| | | |]; try discriminate. destruct k; try discriminate.
  destruct t as [|u| | | | | | |]; try discriminate. destruct u; try discriminate. reflexivity.
Qed.

Lemma is_item_not_u8 X : is_item X = true -> is_u8 X = false.
Proof. destruct X; try discriminate; reflexivity. Qed.

Lemma refines_is_u8 a b : refines a b -> is_u8 b = is_u8 a.
Proof. intros H. inversion H; subst; try reflexivity. cbn. now apply is_item_not_u8. Qed.

Lemma refines_is_cut a b : refines a b -> is_cut a = false -> is_cut b = false.
Proof.
  intros Hr Ha. destruct (is_cut b) eqn:Hb; [|reflexivity]. exfalso.
  apply is_cut_eq in Hb. subst b. unfold CUT in Hr.
  inversion Hr; subst; try discriminate.
  match goal with H : refines _ (TSeq _ _) |- _ => inversion H; subst; try discriminate end.
  match goal with H : refines _ (TUnit _) |- _ => inversion H; subst; try discriminate end.
Qed.

Lemma Forall2_refines_forallb (f : ty -> bool) xs ys :
  Forall (fun x => forall b, refines x b -> f b = f x) xs -> Forall2 refines xs ys ->
  forallb f ys = forallb f xs.
Proof.
  intros HF H2. revert HF. induction H2 as [|x y xs ys Hxy _ IH]; intros HF; [reflexivity|].
  inversion HF; subst. cbn [forallb]. f_equal; auto.
Qed.

Lemma refines_mem_zst a : forall b, refines a b -> mem_zst b = mem_zst a.
Proof.
  induction a as [p|u|k|k|k t' IH|n t' IH|k ts IH|k vs IH|w t' IH] using ty_ind';
    intros b Hr; inversion Hr; subst; cbn [mem_zst]; try reflexivity.
  - f_equal. now apply IH.
  - assert (E : forallb (fun x => mem_zst x) ys = forallb (fun x => mem_zst x) ts)
      by (apply Forall2_refines_forallb; assumption).
    destruct k as [|r| | | |]; try exact E. destruct r; try exact E. reflexivity.
  - match goal with H : Forall2 refines vs _ |- _ => rename H into H2 end.
    destruct H2 as [|x y xs' ys' Hxy H2']; [reflexivity|].
    inversion IH; subst. destruct H2'; [auto|reflexivity].
  - cbn. assumption.
  - destruct w; try reflexivity. now apply IH.
Qed.

Lemma Forall2_refines_eq xs ys (f : ty -> bool) :
  Forall (fun x => f x = true -> forall b, refines x b -> b = x) xs -> Forall2 refines xs ys ->
  forallb f xs = true -> ys = xs.
Proof.
  intros HF H2. revert HF. induction H2 as [|x y xs ys Hxy _ IH]; intros HF Hk; [reflexivity|].
  inversion HF; subst. cbn [forallb] in Hk. apply andb_true_iff in Hk. destruct Hk as [Hx Hr].
  f_equal; auto.
Qed.

(** a key type contains no placeholder: refinement leaves it alone *)
Lemma refines_key_closed a : key_ok a = true -> forall b, refines a b -> b = a.
Proof.
  induction a as [p|u|k|k|k t' IH|n t' IH|k ts IH|k vs IH|w t' IH] using ty_ind';
    intros Hk b Hr; inversion Hr; subst; try reflexivity.
  - f_equal. apply IH; [|assumption]. cbn [key_ok] in Hk. destruct k; try discriminate; exact Hk.
  - f_equal. apply IH; assumption.
  - f_equal. cbn [key_ok] in Hk. apply andb_true_iff in Hk. destruct Hk as [_ Hk].
    eapply Forall2_refines_eq with (f := fun x => key_ok x); eassumption.
  - f_equal. cbn [key_ok] in Hk.
    eapply Forall2_refines_eq with (f := fun x => key_ok x); eassumption.
  - discriminate Hk.
  - f_equal. apply IH; [|assumption]. cbn [key_ok] in Hk. destruct w; try discriminate; exact Hk.
Qed.

Lemma Forall2_refines_map {A} (f : ty -> A) (g : ty -> bool) xs ys :
  Forall (fun x => g x = true -> forall b, refines x b -> f b = f x) xs -> Forall2 refines xs ys ->
  forallb g xs = true -> map f ys = map f xs.
Proof.
  intros HF H2. revert HF. induction H2 as [|x y xs ys Hxy _ IH]; intros HF Hk; [reflexivity|].
  inversion HF; subst. cbn [forallb] in Hk. apply andb_true_iff in Hk. destruct Hk as [Hx Hr].
  cbn [map]. f_equal; auto.
Qed.

(** a type with a [Default] has the same default after refinement *)
Lemma refines_default a : has_default a = true -> forall b, refines a b -> default_of b = default_of a.
Proof.
  induction a as [p|u|k|k|k t' IH|n t' IH|k ts IH|k vs IH|w t' IH] using ty_ind';
    intros Hd b Hr; inversion Hr; subst; try reflexivity.
  - cbn [has_default] in Hd. apply andb_true_iff in Hd. destruct Hd as [_ Hd].
    cbn [default_of]. do 2 f_equal. now apply IH.
  - cbn [default_of]. f_equal. destruct k; try discriminate Hd; cbn [has_default] in Hd.
    + apply andb_true_iff in Hd. destruct Hd as [_ Hd].
      eapply Forall2_refines_map with (g := fun x => has_default x); eassumption.
    + eapply Forall2_refines_map with (g := fun x => has_default x); eassumption.
  - symmetry. auto.
  - discriminate Hd.
  - cbn [default_of]. apply IH; [|assumption]. destruct w; try discriminate Hd; exact Hd.
Qed.

Lemma refines_refl a : refines a a.
Proof.
  induction a as [p|u|k|k|k t' IH|n t' IH|k ts IH|k vs IH|w t' IH] using ty_ind'; try (constructor; assumption).
  - constructor. induction IH; constructor; assumption.
  - constructor; [|reflexivity]. induction IH; constructor; assumption.
Qed.

(** * Decomposing [wf] *)
Lemma wf_seq k t' : wf (TSeq k t') = true ->
  wf t' = true /\
  (is_map k = true -> exists x y, t' = TProd PTuple [x; y]) /\
  (is_keyed k = true -> key_ok (key_ty k t') = true).
Proof.
  cbn [wf]. intros H. repeat (apply andb_true_iff in H; destruct H as [H ?]).
  split; [assumption|]. split.
  - intros Hm. rewrite Hm in *. destruct t' as [| | | | | |pk ts| |]; try discriminate.
    destruct pk; try discriminate. destruct ts as [|x [|y [|]]]; try discriminate. eauto.
  - intros Hk. rewrite Hk in *. assumption.
Qed.

Lemma refines_key_ty k a b : wf (TSeq k a) = true -> refines a b -> refines (key_ty k a) (key_ty k b).
Proof.
  intros Hwf Hr. apply wf_seq in Hwf. destruct Hwf as (_ & Hm & _). unfold key_ty.
  destruct (is_map k); [|assumption]. destruct (Hm eq_refl) as (x & y & ->).
  inversion Hr; subst.
  match goal with H : Forall2 refines _ _ |- _ => inversion H; subst end. assumption.
Qed.

Lemma seq_facts k a b : wf (TSeq k a) = true -> refines a b ->
  is_u8 b = is_u8 a /\ mem_zst (key_ty k b) = mem_zst (key_ty k a) /\
  (is_keyed k = true -> key_ty k b = key_ty k a).
Proof.
  intros Hwf Hr. split; [now apply refines_is_u8|]. split.
  - apply refines_mem_zst. now apply refines_key_ty.
  - intros Hk. apply refines_key_closed; [|now apply refines_key_ty].
    apply wf_seq in Hwf. now apply Hwf.
Qed.

(** * Inversion of [refines], by the shape of the left side *)
Lemma refines_seq_inv k a B : refines (TSeq k a) B -> exists b, B = TSeq k b /\ refines a b.
Proof. intros H. inversion H; subst. eauto. Qed.
Lemma refines_array_inv n a B : refines (TArray n a) B -> exists b, B = TArray n b /\ refines a b.
Proof. intros H. inversion H; subst. eauto. Qed.
Lemma refines_prod_inv k xs B : refines (TProd k xs) B -> exists ys, B = TProd k ys /\ Forall2 refines xs ys.
Proof. intros H. inversion H; subst. eauto. Qed.
Lemma refines_sum_inv k xs B : refines (TSum k xs) B -> exists ys, B = TSum k ys /\ Forall2 refines xs ys.
Proof. intros H. inversion H; subst. eauto. Qed.
Lemma refines_wrap_inv w a B : refines (TWrap w a) B ->
  (TWrap w a = CUT /\ is_item B = true /\ mem_zst B = false) \/ exists b, B = TWrap w b /\ refines a b.
Proof. intros H. inversion H; subst; [left; auto|right; eauto]. Qed.
Lemma refines_leaf_inv a B : refines a B ->
  match a with TPrim _ | TUnit _ | TRaw _ | TText _ => B = a | _ => True end.
Proof. intros H. inversion H; subst; cbn; auto. Qed.

(** * Monotonicity of typing, serialization and the logical value *)
Definition MonoAt (a b : ty) (v : val) : Prop :=
  has_ty b v = true /\ within b v = true /\ ser b v = ser a v /\ logical b v = logical a v.
Definition Mono (a : ty) : Prop :=
  forall b, refines a b -> wf a = true ->
  forall v, has_ty a v = true -> within a v = true -> MonoAt a b v.

Lemma each_out_ext (f g : val -> out) l : (forall x, In x l -> f x = g x) -> each_out f l = each_out g l.
Proof.
  induction l as [|x r IH]; intros H; [reflexivity|]. cbn [each_out].
  rewrite (H x (or_introl eq_refl)), IH; [reflexivity|]. intros y Hy. apply H. now right.
Qed.

Lemma slice_out_ext u (f g : val -> out) l : (forall x, In x l -> f x = g x) -> slice_out u f l = slice_out u g l.
Proof. intros H. unfold slice_out. destruct u; [reflexivity|]. now apply each_out_ext. Qed.

Lemma mono_list a b :
  (forall v, has_ty a v = true -> within a v = true -> MonoAt a b v) ->
  forall l, forallb (has_ty a) l = true -> forallb (within a) l = true ->
    forallb (has_ty b) l = true /\ forallb (within b) l = true /\
    (forall x, In x l -> ser b x = ser a x) /\ map (logical b) l = map (logical a) l.
Proof.
  intros H. induction l as [|x r IH]; intros Ht Hw.
  - repeat split. intros x [].
  - cbn [forallb] in Ht, Hw. apply andb_true_iff in Ht. apply andb_true_iff in Hw.
    destruct Ht as [Htx Htr]. destruct Hw as [Hwx Hwr].
    destruct (H x Htx Hwx) as (H1 & H2 & H3 & H4). destruct (IH Htr Hwr) as (I1 & I2 & I3 & I4).
    cbn [forallb map]. rewrite H1, H2, I1, I2, H4, I4. repeat split.
    intros y [<-|Hy]; auto.
Qed.

Lemma mono_fields xs ys :
  Forall Mono xs -> Forall2 refines xs ys -> forallb (fun x => wf x) xs = true ->
  forall sk l, skips_ok xs sk = true ->
    all2 (fun t' x => has_ty t' x) xs l = true -> all2 (fun t' x => within t' x) xs l = true ->
    all2 (fun t' x => has_ty t' x) ys l = true /\ all2 (fun t' x => within t' x) ys l = true /\
    fields_out (fun t' x => ser t' x) ys sk l = fields_out (fun t' x => ser t' x) xs sk l /\
    map_fields (fun t' x => logical t' x) default_of ys sk l = map_fields (fun t' x => logical t' x) default_of xs sk l.
Proof.
  intros HF H2. revert HF. induction H2 as [|x y xs ys Hxy _ IH]; intros HF Hwf sk l Hsk Ht Hw.
  - destruct l; [|discriminate Ht]. repeat split.
  - inversion HF as [|? ? Hx HF']; subst. cbn [forallb] in Hwf. apply andb_true_iff in Hwf. destruct Hwf as [Hwx Hwr].
    destruct l as [|v r]; [discriminate Ht|]. cbn [all2] in Ht, Hw.
    apply andb_true_iff in Ht. apply andb_true_iff in Hw. destruct Ht as [Htx Htr]. destruct Hw as [Hwx' Hwr'].
    destruct sk as [|s sr]; [discriminate Hsk|]. cbn [skips_ok] in Hsk. apply andb_true_iff in Hsk. destruct Hsk as [Hs Hsr].
    destruct (Hx y Hxy Hwx v Htx Hwx') as (H1 & H2' & H3 & H4).
    destruct (IH HF' Hwr sr r Hsr Htr Hwr') as (I1 & I2 & I3 & I4).
    cbn [all2 fields_out map_fields]. rewrite H1, H2', I1, I2, H3, I3, H4, I4. repeat split.
    destruct s; [|reflexivity]. rewrite (refines_default x Hs y Hxy). reflexivity.
Qed.

Lemma mono_variants xs ys x :
  Forall Mono xs -> Forall2 refines xs ys -> forallb (fun t => wf t) xs = true ->
  forall n, nth_or (fun t' => has_ty t' x) false xs n = true -> nth_or (fun t' => within t' x) true xs n = true ->
    nth_or (fun t' => has_ty t' x) false ys n = true /\ nth_or (fun t' => within t' x) true ys n = true /\
    nth_or (fun t' => ser t' x) ill ys n = nth_or (fun t' => ser t' x) ill xs n /\
    nth_or (fun t' => logical t' x) x ys n = nth_or (fun t' => logical t' x) x xs n.
Proof.
  intros HF H2. revert HF. induction H2 as [|a b xs ys Hab _ IH]; intros HF Hwf n Ht Hw.
  - destruct n; discriminate Ht.
  - inversion HF as [|? ? Ha HF']; subst. cbn [forallb] in Hwf. apply andb_true_iff in Hwf. destruct Hwf as [Hwa Hwr].
    destruct n as [|n]; cbn [nth_or] in *.
    + destruct (Ha b Hab Hwa x Ht Hw) as (H1 & H2' & H3 & H4). auto.
    + now apply IH.
Qed.

Lemma each_out_sorted cmp key (f g : val -> out) l :
  (forall x, In x l -> f x = g x) -> each_out f (sort_by cmp key l) = each_out g (sort_by cmp key l).
Proof.
  intros H. apply each_out_ext. intros x Hx. apply H. eapply Permutation_in; [apply sort_by_perm'|exact Hx].
Qed.

Lemma refines_length xs ys : Forall2 refines xs ys -> length ys = length xs.
Proof. induction 1; cbn; congruence. Qed.

Theorem mono_all a : Mono a.
Proof.
  induction a as [p|u|k|k|k t' IH|n t' IH|k ts IH|k vs IH|w t' IH] using ty_ind';
    intros B Hr Hwf v Hty Hin.
  - apply refines_leaf_inv in Hr. subst B. repeat split; assumption.
  - apply refines_leaf_inv in Hr. subst B. repeat split; assumption.
  - apply refines_leaf_inv in Hr. subst B. repeat split; assumption.
  - apply refines_leaf_inv in Hr. subst B. repeat split; assumption.
  - destruct (refines_seq_inv _ _ _ Hr) as (b' & -> & Hr').
    destruct (seq_facts k t' b' Hwf Hr') as (E1 & E2 & E3).
    destruct (wf_seq _ _ Hwf) as (Hwf' & _ & _).
    pose proof (mono_list t' b' (fun x => IH b' Hr' Hwf' x)) as Hel.
    unfold MonoAt. cbn [has_ty within ser logical] in Hty, Hin |- *. rewrite ?E1, ?E2.
    destruct (is_keyed k) eqn:Hk.
    + rewrite ?(E3 eq_refl).
      destruct k; try discriminate Hk; (destruct v as [|l|]; try discriminate Hty);
      apply andb_true_iff in Hty; destruct Hty as [Hty1 Hty2];
      destruct (Hel l Hty1 Hin) as (H1 & H2 & H3 & H4); rewrite H1, H2, H4, Hty2;
      rewrite ?(slice_out_ext _ (ser b') (ser t') l H3), ?(each_out_sorted _ _ (ser b') (ser t') l H3);
      repeat split; reflexivity.
    + destruct k; try discriminate Hk.
      * destruct v as [|l|]; try discriminate Hty. rewrite andb_true_r in Hty.
        destruct (Hel l Hty Hin) as (H1 & H2 & H3 & H4).
        rewrite H1, H2, H4, (slice_out_ext _ (ser b') (ser t') l H3). repeat split; reflexivity.
      * destruct v as [|l|]; try discriminate Hty.
        destruct l as [|[|a|] [|[|b|] [|]]]; try discriminate Hty.
        apply andb_true_iff in Hty, Hin. destruct Hty as [Ha Hb]. destruct Hin as [Hia Hib].
        destruct (Hel a Ha Hia) as (A1 & A2 & A3 & A4). destruct (Hel b Hb Hib) as (B1 & B2 & B3 & B4).
        rewrite A1, A2, B1, B2, (slice_out_ext _ (ser b') (ser t') a A3), (slice_out_ext _ (ser b') (ser t') b B3).
        rewrite !map_app, A4, B4. repeat split; reflexivity.
      * destruct v as [|l|]; try discriminate Hty. rewrite andb_true_r in Hty.
        destruct (Hel l Hty Hin) as (H1 & H2 & H3 & H4).
        rewrite H1, H2, H4, (slice_out_ext _ (ser b') (ser t') l H3). repeat split; reflexivity.
      * destruct v as [|l|]; try discriminate Hty. rewrite andb_true_r in Hty.
        destruct (Hel l Hty Hin) as (H1 & H2 & H3 & H4).
        rewrite H1, H2, H4, (slice_out_ext _ (ser b') (ser t') l H3). repeat split; reflexivity.
  - destruct (refines_array_inv _ _ _ Hr) as (b' & -> & Hr').
    cbn [wf] in Hwf. pose proof (mono_list t' b' (fun x => IH b' Hr' Hwf x)) as Hel.
    unfold MonoAt. cbn [has_ty within ser logical] in Hty, Hin |- *. rewrite (refines_is_u8 _ _ Hr').
    destruct v as [|l|]; try discriminate Hty. apply andb_true_iff in Hty. destruct Hty as [Hlen Hty].
    destruct (Hel l Hty Hin) as (H1 & H2 & H3 & H4).
    rewrite Hlen, H1, H2, H4, (slice_out_ext _ (ser b') (ser t') l H3). repeat split; reflexivity.
  - destruct (refines_prod_inv _ _ _ Hr) as (ys & -> & H2).
    cbn [wf] in Hwf. apply andb_true_iff in Hwf. destruct Hwf as [Hwf Hwfs].
    apply andb_true_iff in Hwf. destruct Hwf as [_ Hsk].
    unfold MonoAt. cbn [has_ty within ser logical] in Hty, Hin |- *.
    destruct v as [|l|]; try discriminate Hty.
    rewrite (refines_length _ _ H2).
    destruct (mono_fields ts ys IH H2 Hwfs _ l Hsk Hty Hin) as (H1 & H2' & H3 & H4).
    rewrite H1, H2', H3, H4. repeat split; reflexivity.
  - destruct (refines_sum_inv _ _ _ Hr) as (ys & -> & H2).
    cbn [wf] in Hwf. apply andb_true_iff in Hwf. destruct Hwf as [_ Hwfs].
    unfold MonoAt. cbn [has_ty within ser logical] in Hty, Hin |- *.
    destruct v as [|l|i x]; try discriminate Hty.
    destruct (mono_variants vs ys x IH H2 Hwfs _ Hty Hin) as (H1 & H2' & H3 & H4).
    rewrite H1, H2', H3, H4. repeat split; reflexivity.
  - destruct (refines_wrap_inv _ _ _ Hr) as [(E & _ & _)|(b' & -> & Hr')].
    + rewrite E in Hin. discriminate Hin.
    + unfold MonoAt. cbn [has_ty within ser logical wf] in Hty, Hin, Hwf |- *.
      destruct (is_cut (TWrap w t')) eqn:Hc; [discriminate Hin|].
      rewrite (refines_is_cut _ _ Hr Hc). apply IH; assumption.
Qed.

(** * Stability of decoding under refinement *)
Definition Imp {A} (r1 r2 : result A) : Prop := forall a, r1 = Ok a -> r2 = Ok a.

Lemma Imp_refl {A} (r : result A) : Imp r r.
Proof. intros a H; exact H. Qed.

Lemma Imp_bind {A B} (r1 r2 : result A) (f1 f2 : A -> result B) :
  Imp r1 r2 -> (forall a, Imp (f1 a) (f2 a)) -> Imp (bind r1 f1) (bind r2 f2).
Proof.
  intros H Hf b Hb. destruct r1 as [a|k m|w]; cbn [bind] in Hb; try discriminate Hb.
  rewrite (H a eq_refl). cbn [bind]. now apply Hf.
Qed.

Lemma Imp_iterN {S} (f g : S -> result S) :
  (forall s, Imp (f s) (g s)) -> forall n s, Imp (iterN n f s) (iterN n g s).
Proof.
  intros H n. induction n as [|n IH] using N.peano_ind; intros s.
  - apply Imp_refl.
  - rewrite !iterN_succ. apply Imp_bind; [apply H|apply IH].
Qed.

Lemma post_key_irrelevant c k kt kt' l : (is_keyed k = true -> kt' = kt) -> post c k kt' l = post c k kt l.
Proof.
  intros H. destruct (is_keyed k) eqn:Hk; [now rewrite H|].
  unfold post. destruct k; try discriminate Hk; reflexivity.
Qed.

Section Stable.
  Context {St : Type} (R : reader St) (c : cfg).

  Lemma Imp_repeat_dec (f g : St -> result (val * St)) n s :
    (forall s, Imp (f s) (g s)) -> Imp (repeat_dec f n s) (repeat_dec g n s).
  Proof.
    intros H. unfold repeat_dec. apply Imp_bind; [|intros [acc s']; apply Imp_refl].
    apply Imp_iterN. intros [acc s0]. apply Imp_bind; [apply H|intros [v s1]; apply Imp_refl].
  Qed.

  Lemma Imp_dec_vec u8 (f g : St -> result (val * St)) s :
    (forall s, Imp (f s) (g s)) -> Imp (dec_vec R u8 f s) (dec_vec R u8 g s).
  Proof.
    intros H. unfold dec_vec. apply Imp_bind; [apply Imp_refl|]. intros [n s1].
    destruct (n =? 0); [apply Imp_refl|]. destruct u8; [apply Imp_refl|]. now apply Imp_repeat_dec.
  Qed.

  Definition Stable (a : ty) : Prop :=
    forall b, refines a b -> wf a = true -> forall s, Imp (dec R c a s) (dec R c b s).

  Lemma Imp_dec_fields xs ys :
    Forall Stable xs -> Forall2 refines xs ys -> forallb (fun x => wf x) xs = true ->
    forall sk s, skips_ok xs sk = true ->
      Imp (dec_fields (fun t' s => dec R c t' s) xs sk s) (dec_fields (fun t' s => dec R c t' s) ys sk s).
  Proof.
    intros HF H2. revert HF. induction H2 as [|x y xs ys Hxy _ IH]; intros HF Hwf sk s Hsk.
    - apply Imp_refl.
    - inversion HF as [|? ? Hx HF']; subst. cbn [forallb] in Hwf. apply andb_true_iff in Hwf. destruct Hwf as [Hwx Hwr].
      destruct sk as [|b sr]; [discriminate Hsk|]. cbn [skips_ok] in Hsk. apply andb_true_iff in Hsk. destruct Hsk as [Hs Hsr].
      cbn [dec_fields]. apply Imp_bind.
      + destruct b; [|now apply Hx]. rewrite (refines_default x Hs y Hxy). apply Imp_refl.
      + intros [v s1]. apply Imp_bind; [now apply IH|intros [r s2]; apply Imp_refl].
  Qed.

  Lemma Imp_variants xs ys (d : result (val * St)) s :
    Forall Stable xs -> Forall2 refines xs ys -> forallb (fun x => wf x) xs = true ->
    forall n, Imp (nth_or (fun t' => dec R c t' s) d xs n) (nth_or (fun t' => dec R c t' s) d ys n).
  Proof.
    intros HF H2. revert HF. induction H2 as [|x y xs ys Hxy _ IH]; intros HF Hwf n.
    - apply Imp_refl.
    - inversion HF as [|? ? Hx HF']; subst. cbn [forallb] in Hwf. apply andb_true_iff in Hwf. destruct Hwf as [Hwx Hwr].
      destruct n as [|n]; cbn [nth_or]; [now apply Hx|now apply IH].
  Qed.

  Theorem dec_stable a : Stable a.
  Proof.
    induction a as [p|u|k|k|k t' IH|n t' IH|k ts IH|k vs IH|w t' IH] using ty_ind';
      intros B Hr Hwf s.
    - apply refines_leaf_inv in Hr. subst B. apply Imp_refl.
    - apply refines_leaf_inv in Hr. subst B. apply Imp_refl.
    - apply refines_leaf_inv in Hr. subst B. apply Imp_refl.
    - apply refines_leaf_inv in Hr. subst B. apply Imp_refl.
    - destruct (refines_seq_inv _ _ _ Hr) as (b' & -> & Hr').
      destruct (seq_facts k t' b' Hwf Hr') as (E1 & E2 & E3).
      destruct (wf_seq _ _ Hwf) as (Hwf' & _ & _).
      cbn [dec]. rewrite E1, E2. destruct (mem_zst (key_ty k t')); [apply Imp_refl|].
      apply Imp_bind; [apply Imp_dec_vec; intros s0; now apply IH|].
      intros [l s']. rewrite (post_key_irrelevant c k (key_ty k t') (key_ty k b') l E3). apply Imp_refl.
    - destruct (refines_array_inv _ _ _ Hr) as (b' & -> & Hr').
      cbn [wf] in Hwf. cbn [dec]. rewrite (refines_is_u8 _ _ Hr'). destruct (is_u8 t'); [apply Imp_refl|].
      apply Imp_bind; [apply Imp_repeat_dec; intros s0; now apply IH|intros [l s']; apply Imp_refl].
    - destruct (refines_prod_inv _ _ _ Hr) as (ys & -> & H2).
      cbn [wf] in Hwf. apply andb_true_iff in Hwf. destruct Hwf as [Hwf Hwfs].
      apply andb_true_iff in Hwf. destruct Hwf as [_ Hsk].
      cbn [dec]. rewrite (refines_length _ _ H2).
      apply Imp_bind; [now apply Imp_dec_fields|intros [l s']; apply Imp_refl].
    - destruct (refines_sum_inv _ _ _ Hr) as (ys & -> & H2).
      cbn [wf] in Hwf. apply andb_true_iff in Hwf. destruct Hwf as [_ Hwfs].
      cbn [dec]. apply Imp_bind; [apply Imp_refl|]. intros [b s1].
      destruct (find_tag (sum_tags k) b 0) as [i|]; [|apply Imp_refl].
      apply Imp_bind; [now apply Imp_variants|intros [v s2]; apply Imp_refl].
    - destruct (refines_wrap_inv _ _ _ Hr) as [(E & _ & _)|(b' & -> & Hr')].
      + rewrite E. intros a H. discriminate H.
      + cbn [dec wf] in *. now apply IH.
  Qed.
End Stable.

(** * Finality: the smaller unfolding gives the same answer -- success, error or panic --
    unless it gives up with the placeholder's refusal *)
Definition Cut {A} (r1 r2 : result A) : Prop := r1 = r2 \/ r1 = Err InvalidData MZst.

Lemma Cut_refl {A} (r : result A) : Cut r r.
Proof. now left. Qed.

Lemma Cut_bind {A B} (r1 r2 : result A) (f1 f2 : A -> result B) :
  Cut r1 r2 -> (forall a, Cut (f1 a) (f2 a)) -> Cut (bind r1 f1) (bind r2 f2).
Proof.
  intros [E|E] Hf; subst r1.
  - destruct r2 as [a|k m|w]; cbn [bind]; [apply Hf|apply Cut_refl|apply Cut_refl].
  - right. reflexivity.
Qed.

Lemma Cut_iterN {S} (f g : S -> result S) :
  (forall s, Cut (f s) (g s)) -> forall n s, Cut (iterN n f s) (iterN n g s).
Proof.
  intros H n. induction n as [|n IH] using N.peano_ind; intros s.
  - apply Cut_refl.
  - rewrite !iterN_succ. apply Cut_bind; [apply H|apply IH].
Qed.

Section Final.
  Context {St : Type} (R : reader St) (c : cfg).

  Lemma Cut_repeat_dec (f g : St -> result (val * St)) n s :
    (forall s, Cut (f s) (g s)) -> Cut (repeat_dec f n s) (repeat_dec g n s).
  Proof.
    intros H. unfold repeat_dec. apply Cut_bind; [|intros [acc s']; apply Cut_refl].
    apply Cut_iterN. intros [acc s0]. apply Cut_bind; [apply H|intros [v s1]; apply Cut_refl].
  Qed.

  Lemma Cut_dec_vec u8 (f g : St -> result (val * St)) s :
    (forall s, Cut (f s) (g s)) -> Cut (dec_vec R u8 f s) (dec_vec R u8 g s).
  Proof.
    intros H. unfold dec_vec. apply Cut_bind; [apply Cut_refl|]. intros [n s1].
    destruct (n =? 0); [apply Cut_refl|]. destruct u8; [apply Cut_refl|]. now apply Cut_repeat_dec.
  Qed.

  Definition Final (a : ty) : Prop :=
    forall b, refines a b -> wf a = true -> forall s, Cut (dec R c a s) (dec R c b s).

  Lemma Cut_dec_fields xs ys :
    Forall Final xs -> Forall2 refines xs ys -> forallb (fun x => wf x) xs = true ->
    forall sk s, skips_ok xs sk = true ->
      Cut (dec_fields (fun t' s => dec R c t' s) xs sk s) (dec_fields (fun t' s => dec R c t' s) ys sk s).
  Proof.
    intros HF H2. revert HF. induction H2 as [|x y xs ys Hxy _ IH]; intros HF Hwf sk s Hsk.
    - apply Cut_refl.
    - inversion HF as [|? ? Hx HF']; subst. cbn [forallb] in Hwf. apply andb_true_iff in Hwf. destruct Hwf as [Hwx Hwr].
      destruct sk as [|b sr]; [discriminate Hsk|]. cbn [skips_ok] in Hsk. apply andb_true_iff in Hsk. destruct Hsk as [Hs Hsr].
      cbn [dec_fields]. apply Cut_bind.
      + destruct b; [|now apply Hx]. rewrite (refines_default x Hs y Hxy). apply Cut_refl.
      + intros [v s1]. apply Cut_bind; [now apply IH|intros [r s2]; apply Cut_refl].
  Qed.

  Lemma Cut_variants xs ys (d : result (val * St)) s :
    Forall Final xs -> Forall2 refines xs ys -> forallb (fun x => wf x) xs = true ->
    forall n, Cut (nth_or (fun t' => dec R c t' s) d xs n) (nth_or (fun t' => dec R c t' s) d ys n).
  Proof.
    intros HF H2. revert HF. induction H2 as [|x y xs ys Hxy _ IH]; intros HF Hwf n.
    - apply Cut_refl.
    - inversion HF as [|? ? Hx HF']; subst. cbn [forallb] in Hwf. apply andb_true_iff in Hwf. destruct Hwf as [Hwx Hwr].
      destruct n as [|n]; cbn [nth_or]; [now apply Hx|now apply IH].
  Qed.

  Theorem dec_final a : Final a.
  Proof.
    induction a as [p|u|k|k|k t' IH|n t' IH|k ts IH|k vs IH|w t' IH] using ty_ind';
      intros B Hr Hwf s.
    - apply refines_leaf_inv in Hr. subst B. apply Cut_refl.
    - apply refines_leaf_inv in Hr. subst B. apply Cut_refl.
    - apply refines_leaf_inv in Hr. subst B. apply Cut_refl.
    - apply refines_leaf_inv in Hr. subst B. apply Cut_refl.
    - destruct (refines_seq_inv _ _ _ Hr) as (b' & -> & Hr').
      destruct (seq_facts k t' b' Hwf Hr') as (E1 & E2 & E3).
      destruct (wf_seq _ _ Hwf) as (Hwf' & _ & _).
      cbn [dec]. rewrite E1, E2. destruct (mem_zst (key_ty k t')); [apply Cut_refl|].
      apply Cut_bind; [apply Cut_dec_vec; intros s0; now apply IH|].
      intros [l s']. rewrite (post_key_irrelevant c k (key_ty k t') (key_ty k b') l E3). apply Cut_refl.
    - destruct (refines_array_inv _ _ _ Hr) as (b' & -> & Hr').
      cbn [wf] in Hwf. cbn [dec]. rewrite (refines_is_u8 _ _ Hr'). destruct (is_u8 t'); [apply Cut_refl|].
      apply Cut_bind; [apply Cut_repeat_dec; intros s0; now apply IH|intros [l s']; apply Cut_refl].
    - destruct (refines_prod_inv _ _ _ Hr) as (ys & -> & H2).
      cbn [wf] in Hwf. apply andb_true_iff in Hwf. destruct Hwf as [Hwf Hwfs].
      apply andb_true_iff in Hwf. destruct Hwf as [_ Hsk].
      cbn [dec]. rewrite (refines_length _ _ H2).
      apply Cut_bind; [now apply Cut_dec_fields|intros [l s']; apply Cut_refl].
    - destruct (refines_sum_inv _ _ _ Hr) as (ys & -> & H2).
      cbn [wf] in Hwf. apply andb_true_iff in Hwf. destruct Hwf as [_ Hwfs].
      cbn [dec]. apply Cut_bind; [apply Cut_refl|]. intros [b s1].
      destruct (find_tag (sum_tags k) b 0) as [i|]; [|apply Cut_refl].
      apply Cut_bind; [now apply Cut_variants|intros [v s2]; apply Cut_refl].
    - destruct (refines_wrap_inv _ _ _ Hr) as [(E & _ & _)|(b' & -> & Hr')].
      + rewrite E. right. reflexivity.
      + cbn [dec wf] in *. now apply IH.
  Qed.
End Final.


(** * Unfolding further refines *)
Section OtyInd.
  Variable P : oty -> Prop.
  Hypothesis HPrim : forall p, P (OPrim p).
  Hypothesis HUnit : forall u, P (OUnit u).
  Hypothesis HRaw : forall k, P (ORaw k).
  Hypothesis HText : forall k, P (OText k).
  Hypothesis HSeq : forall k t, P t -> P (OSeq k t).
  Hypothesis HArray : forall n t, P t -> P (OArray n t).
  Hypothesis HProd : forall k ts, Forall P ts -> P (OProd k ts).
  Hypothesis HSum : forall k vs, Forall P vs -> P (OSum k vs).
  Hypothesis HWrap : forall w t, P t -> P (OWrap w t).
  Hypothesis HRef : forall x, P (ORef x).

  Fixpoint oty_ind' (t : oty) : P t :=
    match t with
    | OPrim p => HPrim p
    | OUnit u => HUnit u
    | ORaw k => HRaw k
    | OText k => HText k
    | OSeq k t' => HSeq k t' (oty_ind' t')
    | OArray n t' => HArray n t' (oty_ind' t')
    | OProd k ts =>
        HProd k ts ((fix go (l : list oty) : Forall P l :=
                       match l with
                       | [] => Forall_nil P
                       | x :: r => Forall_cons x (oty_ind' x) (go r)
                       end) ts)
    | OSum k vs =>
        HSum k vs ((fix go (l : list oty) : Forall P l :=
                      match l with
                      | [] => Forall_nil P
                      | x :: r => Forall_cons x (oty_ind' x) (go r)
                      end) vs)
    | OWrap w t' => HWrap w t' (oty_ind' t')
    | ORef x => HRef x
    end.
End OtyInd.

Lemma map_ext_Forall {A B} (f g : A -> B) (p : A -> bool) l :
  Forall (fun x => p x = true -> f x = g x) l -> forallb p l = true -> map f l = map g l.
Proof.
  induction 1 as [|x r Hx _ IH]; intros Hp; [reflexivity|].
  cbn [forallb] in Hp. apply andb_true_iff in Hp. destruct Hp as [Hpx Hpr]. cbn [map]. f_equal; auto.
Qed.

Lemma subst_closed rho rho' t : oclosed t = true -> subst rho t = subst rho' t.
Proof.
  induction t as [p|u|k|k|k t' IH|n t' IH|k ts IH|k vs IH|w t' IH|x] using oty_ind';
    intros Hc; cbn [subst oclosed] in *; try reflexivity; try (f_equal; auto; fail).
  - f_equal. eapply map_ext_Forall; eassumption.
  - f_equal. eapply map_ext_Forall; eassumption.
Qed.

Lemma forallb_map_Forall (f : ty -> bool) (g : oty -> bool) (h : oty -> ty) l :
  Forall (fun x => f (h x) = g x) l -> forallb f (map h l) = forallb g l.
Proof. induction 1 as [|x r Hx _ IH]; [reflexivity|]. cbn [map forallb]. now rewrite Hx, IH. Qed.

Lemma subst_mem_zst rho t : (forall x, mem_zst (rho x) = false) -> mem_zst (subst rho t) = omem_zst t.
Proof.
  intros Hrho.
  induction t as [p|u|k|k|k t' IH|n t' IH|k ts IH|k vs IH|w t' IH|x] using oty_ind';
    cbn [subst omem_zst mem_zst]; try reflexivity.
  - now rewrite IH.
  - rewrite (forallb_map_Forall (fun x => mem_zst x) (fun x => omem_zst x) (subst rho) ts IH). reflexivity.
  - destruct IH as [|v r Hv Hr]; [reflexivity|]. cbn [map]. destruct Hr; [exact Hv|reflexivity].
  - destruct w; try reflexivity. exact IH.
  - apply Hrho.
Qed.

Lemma subst_is_item rho d : item_shape d = true -> is_item (subst rho d) = true.
Proof. destruct d as [| | | | | |k ts|k vs| |]; try discriminate; destruct k; try discriminate; reflexivity. Qed.

Lemma subst_refines rho rho' t :
  (forall x, refines (rho x) (rho' x)) -> opt_ok t = true -> refines (subst rho t) (subst rho' t).
Proof.
  intros Hrho.
  induction t as [p|u|k|k|k t' IH|n t' IH|k ts IH|k vs IH|w t' IH|x] using oty_ind';
    intros Ho; cbn [subst opt_ok] in *; try (constructor; auto; fail).
  - constructor. induction IH as [|y r Hy _ IHr]; [constructor|].
    cbn [forallb] in Ho. apply andb_true_iff in Ho. destruct Ho as [Hoy Hor]. cbn [map]. constructor; auto.
  - apply andb_true_iff in Ho. destruct Ho as [Hopt Ho]. constructor.
    + clear Hopt. induction IH as [|y r Hy _ IHr]; [constructor|].
      cbn [forallb] in Ho. apply andb_true_iff in Ho. destruct Ho as [Hoy Hor]. cbn [map]. constructor; auto.
    + intros Hd. destruct k; try discriminate Hd. destruct vs as [|v r]; [reflexivity|].
      cbn [map default_of]. now rewrite (subst_closed rho rho' v Hopt).
  - apply Hrho.
Qed.

Lemma lookup_ok e x d : env_ok e = true -> lookup e x = Some d -> def_ok d = true.
Proof.
  induction e as [|[y d'] r IH]; intros He Hl; [discriminate Hl|].
  cbn [env_ok forallb snd] in He. apply andb_true_iff in He. destruct He as [Hd Hr].
  cbn [lookup] in Hl. destruct (String.eqb x y).
  - inversion Hl; subst. exact Hd.
  - now apply IH.
Qed.

Lemma def_ok_parts d : def_ok d = true -> item_shape d = true /\ omem_zst d = false /\ opt_ok d = true.
Proof.
  unfold def_ok. intros H. apply andb_true_iff in H. destruct H as [H H3].
  apply andb_true_iff in H. destruct H as [H1 H2]. apply negb_true_iff in H2. auto.
Qed.

Lemma unfold_ref_not_zst e : env_ok e = true -> forall n x, mem_zst (unfold_ref e n x) = false.
Proof.
  intros He. induction n as [|n IH]; intros x; cbn [unfold_ref]; [reflexivity|].
  destruct (lookup e x) as [d|] eqn:Hl; [|reflexivity].
  rewrite (subst_mem_zst _ d IH). apply (def_ok_parts d (lookup_ok e x d He Hl)).
Qed.

Lemma unfold_ref_refines e : env_ok e = true ->
  forall n m x, (n <= m)%nat -> refines (unfold_ref e n x) (unfold_ref e m x).
Proof.
  intros He. induction n as [|n IH]; intros m x Hle.
  - cbn [unfold_ref]. destruct m as [|m]; [apply refines_refl|]. cbn [unfold_ref].
    destruct (lookup e x) as [d|] eqn:Hl; [|apply refines_refl].
    destruct (def_ok_parts d (lookup_ok e x d He Hl)) as (Hi & Hz & _).
    apply R_cut; [now apply subst_is_item|].
    rewrite (subst_mem_zst _ d (unfold_ref_not_zst e He m)). exact Hz.
  - destruct m as [|m]; [lia|]. cbn [unfold_ref].
    destruct (lookup e x) as [d|] eqn:Hl; [|apply refines_refl].
    apply subst_refines; [intros y; apply IH; lia|].
    apply (def_ok_parts d (lookup_ok e x d He Hl)).
Qed.

Lemma unfold_refines e ot n m :
  env_ok e = true -> opt_ok ot = true -> (n <= m)%nat -> refines (unfold e n ot) (unfold e m ot).
Proof. intros He Ho Hle. unfold unfold. apply subst_refines; [|exact Ho]. intros x. now apply unfold_ref_refines. Qed.

(** * The recursive type: the fuel is irrelevant beyond the depth of the value *)
Lemma has_ty_rec_parts e n ot v :
  has_ty_rec e n ot v = true -> has_ty (unfold e n ot) v = true /\ within (unfold e n ot) v = true.
Proof. unfold has_ty_rec. intros H. now apply andb_true_iff in H. Qed.

(** typing, the whole trace of writes (successful or not) and the logical value *)
Lemma rec_mono e ot n m v :
  env_ok e = true -> opt_ok ot = true -> wf (unfold e n ot) = true -> (n <= m)%nat ->
  has_ty_rec e n ot v = true ->
  has_ty_rec e m ot v = true /\
  ser (unfold e m ot) v = ser (unfold e n ot) v /\
  enc_rec e m ot v = enc_rec e n ot v /\
  logical_rec e m ot v = logical_rec e n ot v.
Proof.
  intros He Ho Hwf Hle Hty. apply has_ty_rec_parts in Hty. destruct Hty as [Hty Hin].
  destruct (mono_all (unfold e n ot) (unfold e m ot) (unfold_refines e ot n m He Ho Hle) Hwf v Hty Hin)
    as (H1 & H2 & H3 & H4).
  unfold has_ty_rec, enc_rec, logical_rec, enc. rewrite H1, H2, H3, H4. auto.
Qed.

Lemma rec_round_trip e ot n v bs :
  env_ok e = true -> opt_ok ot = true -> rec_wf e ot ->
  has_ty_rec e n ot v = true -> enc_rec e n ot v = Ok bs ->
  forall m, (n <= m)%nat ->
  forall c rest, dec_rec e c m ot (bs ++ rest) = Ok (logical_rec e n ot v, rest).
Proof.
  intros He Ho Hwf Hty Henc m Hle c rest.
  destruct (rec_mono e ot n m v He Ho (Hwf n) Hle Hty) as (H1 & _ & H3 & H4).
  apply has_ty_rec_parts in H1. destruct H1 as [H1 _].
  rewrite <- H4. unfold dec_rec, logical_rec. apply round_trip; [apply Hwf|exact H1|].
  unfold enc_rec in *. now rewrite H3.
Qed.

Lemma rec_from_slice e ot n v bs :
  env_ok e = true -> opt_ok ot = true -> rec_wf e ot ->
  has_ty_rec e n ot v = true -> enc_rec e n ot v = Ok bs ->
  forall m, (n <= m)%nat ->
  forall c, from_slice c (unfold e m ot) bs = Ok (logical_rec e n ot v).
Proof.
  intros He Ho Hwf Hty Henc m Hle c.
  pose proof (rec_round_trip e ot n v bs He Ho Hwf Hty Henc m Hle c []) as H.
  unfold dec_rec in H. rewrite app_nil_r in H.
  unfold from_slice, try_from_slice. rewrite H. reflexivity.
Qed.

Lemma rec_monotone e ot n m v :
  env_ok e = true -> opt_ok ot = true -> rec_wf e ot -> (n <= m)%nat ->
  has_ty_rec e n ot v = true ->
  has_ty_rec e m ot v = true /\
  enc_rec e m ot v = enc_rec e n ot v /\
  logical_rec e m ot v = logical_rec e n ot v /\
  (forall c bs rest, enc_rec e n ot v = Ok bs ->
     dec_rec e c m ot (bs ++ rest) = dec_rec e c n ot (bs ++ rest)).
Proof.
  intros He Ho Hwf Hle Hty.
  destruct (rec_mono e ot n m v He Ho (Hwf n) Hle Hty) as (H1 & _ & H3 & H4).
  repeat split; try assumption.
  intros c bs rest Henc.
  rewrite (rec_round_trip e ot n v bs He Ho Hwf Hty Henc m Hle c rest).
  rewrite (rec_round_trip e ot n v bs He Ho Hwf Hty Henc n (le_n n) c rest). reflexivity.
Qed.

(** more fuel accepts at least as much, with the same result: any reader ... *)
Lemma rec_stable_reader {St} (R : reader St) e c ot n m s v s' :
  env_ok e = true -> opt_ok ot = true -> wf (unfold e n ot) = true -> (n <= m)%nat ->
  dec R c (unfold e n ot) s = Ok (v, s') -> dec R c (unfold e m ot) s = Ok (v, s').
Proof.
  intros He Ho Hwf Hle H.
  exact (dec_stable R c (unfold e n ot) (unfold e m ot) (unfold_refines e ot n m He Ho Hle) Hwf s (v, s') H).
Qed.

(** ... in particular in-memory input ... *)
Lemma rec_stable e c ot n m bs v r :
  env_ok e = true -> opt_ok ot = true -> wf (unfold e n ot) = true -> (n <= m)%nat ->
  dec_rec e c n ot bs = Ok (v, r) -> dec_rec e c m ot bs = Ok (v, r).
Proof. unfold dec_rec, dec_slice. apply rec_stable_reader. Qed.

(** ... and the whole-input entry points *)
Lemma rec_stable_try_from_slice e c ot n m bs v :
  env_ok e = true -> opt_ok ot = true -> wf (unfold e n ot) = true -> (n <= m)%nat ->
  try_from_slice c (unfold e n ot) bs = Ok v -> try_from_slice c (unfold e m ot) bs = Ok v.
Proof.
  intros He Ho Hwf Hle. unfold try_from_slice.
  destruct (dec_slice c (unfold e n ot) bs) as [[v0 r]|k0 m0|w] eqn:Hd; cbn [bind]; try discriminate.
  pose proof (rec_stable e c ot n m bs v0 r He Ho Hwf Hle Hd) as Hm. unfold dec_rec in Hm.
  rewrite Hm. cbn [bind]. auto.
Qed.

(** the answer at the smaller fuel is final unless it is the placeholder's refusal *)
Lemma rec_final_reader {St} (R : reader St) e c ot n m s :
  env_ok e = true -> opt_ok ot = true -> wf (unfold e n ot) = true -> (n <= m)%nat ->
  dec R c (unfold e n ot) s = dec R c (unfold e m ot) s \/ dec R c (unfold e n ot) s = Err InvalidData MZst.
Proof.
  intros He Ho Hwf Hle.
  exact (dec_final R c (unfold e n ot) (unfold e m ot) (unfold_refines e ot n m He Ho Hle) Hwf s).
Qed.

Lemma rec_final e c ot n m bs :
  env_ok e = true -> opt_ok ot = true -> wf (unfold e n ot) = true -> (n <= m)%nat ->
  dec_rec e c n ot bs = dec_rec e c m ot bs \/ dec_rec e c n ot bs = Err InvalidData MZst.
Proof. unfold dec_rec, dec_slice. apply rec_final_reader. Qed.

(** C05 / C16 at every unfolding: instances of the facts about arbitrary [ty] *)
Lemma rec_dec_prefix e c fuel ot bs v r :
  dec_rec e c fuel ot bs = Ok (v, r) ->
  exists pre, bs = pre ++ r /\ (forall r', dec_rec e c fuel ot (pre ++ r') = Ok (v, r')) /\
              (forall q1 q2, pre = q1 ++ q2 -> q2 <> [] -> dec_rec e c fuel ot q1 = Err InvalidData MUnexpectedLength).
Proof. unfold dec_rec. apply dec_prefix. Qed.

Lemma rec_dec_extend e c fuel ot bs v r x :
  dec_rec e c fuel ot bs = Ok (v, r) -> dec_rec e c fuel ot (bs ++ x) = Ok (v, r ++ x).
Proof. unfold dec_rec. apply dec_extend. Qed.

Lemma rec_dec_err_kind e c fuel ot bs k m : dec_rec e c fuel ot bs = Err k m -> k = InvalidData.
Proof. unfold dec_rec. apply dec_err_kind. Qed.

Lemma rec_dec_no_panic e c fuel ot bs w : dec_rec e c fuel ot bs <> Panic w.
Proof. unfold dec_rec. apply dec_no_panic. Qed.

(** a reference met without fuel is refused, whatever the input *)
Lemma rec_cut_refused e c x bs : dec_rec e c 0 (ORef x) bs = Err InvalidData MZst.
Proof. reflexivity. Qed.

(** * [owf]: a decidable sufficient condition for [rec_wf] *)
Lemma forallb_map_impl (f : ty -> bool) (g : oty -> bool) (h : oty -> ty) l :
  Forall (fun x => g x = true -> f (h x) = true) l -> forallb g l = true -> forallb f (map h l) = true.
Proof.
  induction 1 as [|x r Hx _ IH]; intros Hg; [reflexivity|]. cbn [forallb] in Hg.
  apply andb_true_iff in Hg. destruct Hg as [Hgx Hgr]. cbn [map forallb]. now rewrite Hx, IH.
Qed.

Lemma subst_key_ok rho t : okey_ok t = true -> key_ok (subst rho t) = true.
Proof.
  induction t as [p|u|k|k|k t' IH|n t' IH|k ts IH|k vs IH|w t' IH|x] using oty_ind';
    intros H; cbn [subst okey_ok key_ok] in *; try exact H.
  - destruct k; try discriminate H; now apply IH.
  - now apply IH.
  - rewrite map_length. apply andb_true_iff in H. destruct H as [H1 H2]. rewrite H1. cbn [andb].
    now apply forallb_map_impl with (g := fun x => okey_ok x).
  - now apply forallb_map_impl with (g := fun x => okey_ok x).
  - destruct w; try discriminate H; now apply IH.
  - discriminate H.
Qed.

Lemma subst_has_default rho t : ohas_default t = true -> has_default (subst rho t) = true.
Proof.
  induction t as [p|u|k|k|k t' IH|n t' IH|k ts IH|k vs IH|w t' IH|x] using oty_ind';
    intros H; cbn [subst ohas_default has_default] in *; try exact H.
  - apply andb_true_iff in H. destruct H as [H1 H2]. rewrite H1. cbn [andb]. now apply IH.
  - destruct k; try discriminate H.
    + rewrite map_length. apply andb_true_iff in H. destruct H as [H1 H2].
      rewrite H1. cbn [andb]. now apply forallb_map_impl with (g := fun x => ohas_default x).
    + now apply forallb_map_impl with (g := fun x => ohas_default x).
  - destruct w; try discriminate H; now apply IH.
  - discriminate H.
Qed.

Lemma subst_skips_ok rho ts : forall sk, oskips_ok ts sk = true -> skips_ok (map (subst rho) ts) sk = true.
Proof.
  induction ts as [|t r IH]; intros sk H; [reflexivity|]. destruct sk as [|s sr]; [discriminate H|].
  cbn [oskips_ok] in H. apply andb_true_iff in H. destruct H as [H1 H2]. cbn [map skips_ok].
  rewrite (IH sr H2), andb_true_r. destruct s; [now apply subst_has_default|reflexivity].
Qed.

Lemma subst_wf rho t :
  (forall x, wf (rho x) = true) -> (forall x, mem_zst (rho x) = false) ->
  owf t = true -> wf (subst rho t) = true.
Proof.
  intros Hw Hz.
  induction t as [p|u|k|k|k t' IH|n t' IH|k ts IH|k vs IH|w t' IH|x] using oty_ind';
    intros H; cbn [subst owf wf] in *; try reflexivity.
  - repeat (apply andb_true_iff in H; destruct H as [H ?]).
    rewrite (IH H). cbn [andb].
    assert (Ekey : key_ty k (subst rho t') = subst rho (okey_ty k t') /\
                   (if is_map k then match subst rho t' with TProd PTuple [_; _] => true | _ => false end else true) = true).
    { unfold key_ty, okey_ty. destruct (is_map k); [|split; reflexivity].
      destruct t' as [| | | | | |pk ts| | |]; try discriminate. destruct pk; try discriminate.
      destruct ts as [|a [|b [|]]]; try discriminate. split; reflexivity. }
    destruct Ekey as [Ek Em]. rewrite Em, Ek. cbn [andb].
    rewrite (subst_mem_zst rho t' Hz).
    apply andb_true_iff. split; [|assumption].
    destruct (is_keyed k); [|reflexivity]. now apply subst_key_ok.
  - now apply IH.
  - rewrite map_length. repeat (apply andb_true_iff in H; destruct H as [H ?]).
    rewrite H. cbn [andb]. rewrite subst_skips_ok by assumption. cbn [andb].
    now apply forallb_map_impl with (g := fun x => owf x).
  - rewrite map_length. repeat (apply andb_true_iff in H; destruct H as [H ?]).
    repeat (apply andb_true_iff; split); try assumption.
    now apply forallb_map_impl with (g := fun x => owf x).
  - now apply IH.
  - apply Hw.
Qed.

Lemma lookup_owf e x d : env_owf e = true -> lookup e x = Some d -> owf d = true.
Proof.
  induction e as [|[y d'] r IH]; intros He Hl; [discriminate Hl|].
  cbn [env_owf forallb snd] in He. apply andb_true_iff in He. destruct He as [Hd Hr].
  cbn [lookup] in Hl. destruct (String.eqb x y).
  - inversion Hl; subst. exact Hd.
  - now apply IH.
Qed.

Lemma unfold_ref_wf e : env_ok e = true -> env_owf e = true -> forall n x, wf (unfold_ref e n x) = true.
Proof.
  intros He Hw. induction n as [|n IH]; intros x; cbn [unfold_ref]; [reflexivity|].
  destruct (lookup e x) as [d|] eqn:Hl; [|reflexivity].
  apply subst_wf; [exact IH|now apply unfold_ref_not_zst|]. eapply lookup_owf; eassumption.
Qed.

Theorem owf_rec_wf e ot : env_ok e = true -> env_owf e = true -> owf ot = true -> rec_wf e ot.
Proof.
  intros He Hw Ho k. unfold unfold. apply subst_wf; [now apply unfold_ref_wf|now apply unfold_ref_not_zst|exact Ho].
Qed.

(** * The four running examples are within the hypotheses *)
Local Open Scope string_scope.
Lemma rec_env_ok : env_ok rec_env = true.
Proof. vm_compute. reflexivity. Qed.
Lemma rec_env_owf : env_owf rec_env = true.
Proof. vm_compute. reflexivity. Qed.
Lemma rec_wf_tree : rec_wf rec_env (ORef "Tree").
Proof. apply owf_rec_wf; [exact rec_env_ok|exact rec_env_owf|reflexivity]. Qed.
Lemma rec_wf_list : rec_wf rec_env (ORef "List").
Proof. apply owf_rec_wf; [exact rec_env_ok|exact rec_env_owf|reflexivity]. Qed.
Lemma rec_wf_json : rec_wf rec_env (ORef "Json").
Proof. apply owf_rec_wf; [exact rec_env_ok|exact rec_env_owf|reflexivity]. Qed.
Lemma rec_wf_rec : rec_wf rec_env (ORef "Rec").
Proof. apply owf_rec_wf; [exact rec_env_ok|exact rec_env_owf|reflexivity]. Qed.
