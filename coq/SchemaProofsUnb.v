(** Facts about the unbounded maximum [max_unb]: it is an upper bound on [sizes],
    it is attained when every reachable declaration is inhabited, its errors name
    a reachable cycle / a reachable undefined declaration, fuel suffices. *)
From Coq Require Import String List NArith ZArith Bool Lia ZifyBool Arith.
From Borsh Require Import Schema SchemaFns SchemaSpec SchemaProofsBase.
Import ListNotations.
Local Open Scope N_scope.

(** * [sizes] unfolded along the definition of [d] *)
Lemma sizes_inv c d n : sizes c d n ->
  match get_definition c d with
  | Some (Primitive s) => n = s
  | Some (Sequence lw lo hi el) =>
      exists ns, lo <= N.of_nat (length ns) /\ N.of_nat (length ns) <= hi /\
                 Forall (sizes c el) ns /\ n = lw + sumN ns
  | Some (Tuple els) => exists ns, Forall2 (sizes c) els ns /\ n = sumN ns
  | Some (Enum tw vs) => exists v m, In v vs /\ sizes c (variant_decl v) m /\ n = tw + m
  | Some (Struct fs) => exists ns, Forall2 (sizes c) (field_decls fs) ns /\ n = sumN ns
  | None => False
  end.
Proof.
  intros H. inversion H; subst;
    match goal with L : get_definition c d = Some _ |- _ => rewrite L end; eauto 8.
Qed.

(** * The two folds *)
Definition maxN (l : list N) : N := fold_right N.max 0 l.

Lemma maxN_cons x l : maxN (x :: l) = N.max x (maxN l).
Proof. reflexivity. Qed.

Lemma sum_with_ok f ds M : sum_with f ds = SOk M ->
  exists ms, Forall2 (fun d m => f d = SOk m) ds ms /\ M = sumN ms.
Proof.
  revert M. induction ds as [|d ds IH]; cbn [sum_with]; intros M H.
  - inversion H; subst. exists []. split; [constructor | reflexivity].
  - apply sbind_ok in H as (a & Ha & H). apply sbind_ok in H as (b & Hb & H). inversion H; subst.
    destruct (IH _ Hb) as (ms & HF & ->). exists (a :: ms). split; [constructor; assumption | reflexivity].
Qed.

Lemma max_with_ok f ds M : max_with f ds = SOk M ->
  exists ms, Forall2 (fun d m => f d = SOk m) ds ms /\ M = maxN ms.
Proof.
  revert M. induction ds as [|d ds IH]; cbn [max_with]; intros M H.
  - inversion H; subst. exists []. split; [constructor | reflexivity].
  - apply sbind_ok in H as (a & Ha & H). apply sbind_ok in H as (b & Hb & H). inversion H; subst.
    destruct (IH _ Hb) as (ms & HF & ->). exists (a :: ms). split; [constructor; assumption | reflexivity].
Qed.

Lemma sum_with_err f ds e : sum_with f ds = SErr e -> exists x, In x ds /\ f x = SErr e.
Proof.
  induction ds as [|d ds IH]; cbn [sum_with]; intros H; [discriminate|].
  apply sbind_err in H as [H|(a & Ha & H)]; [exists d; split; [left; reflexivity | exact H]|].
  apply sbind_err in H as [H|(b & Hb & H)]; [|discriminate].
  destruct (IH H) as (x & Hx & Hf). exists x. split; [right; exact Hx | exact Hf].
Qed.

Lemma max_with_err f ds e : max_with f ds = SErr e -> exists x, In x ds /\ f x = SErr e.
Proof.
  induction ds as [|d ds IH]; cbn [max_with]; intros H; [discriminate|].
  apply sbind_err in H as [H|(a & Ha & H)]; [exists d; split; [left; reflexivity | exact H]|].
  apply sbind_err in H as [H|(b & Hb & H)]; [|discriminate].
  destruct (IH H) as (x & Hx & Hf). exists x. split; [right; exact Hx | exact Hf].
Qed.

Lemma sum_with_value f ds : (forall d, is_value (f d)) -> is_value (sum_with f ds).
Proof.
  intros Hf. induction ds as [|d ds IH]; cbn [sum_with]; [exact I|].
  apply sbind_value; [apply Hf|]. intros a _. apply sbind_value; [exact IH|]. intros b _. exact I.
Qed.

Lemma max_with_value f ds : (forall d, is_value (f d)) -> is_value (max_with f ds).
Proof.
  intros Hf. induction ds as [|d ds IH]; cbn [max_with]; [exact I|].
  apply sbind_value; [apply Hf|]. intros a _. apply sbind_value; [exact IH|]. intros b _. exact I.
Qed.

Lemma Forall2_sum_le (c : container) (f : string -> sres mserr N) ds ms :
  Forall2 (fun d m => f d = SOk m) ds ms ->
  (forall d m, In d ds -> f d = SOk m -> forall n, sizes c d n -> n <= m) ->
  forall ns, Forall2 (sizes c) ds ns -> sumN ns <= sumN ms.
Proof.
  induction 1 as [|d m ds ms Hd HF IH]; intros Hb ns Hns; inversion Hns; subst; [cbn; lia|].
  rewrite !sumN_cons.
  assert (y <= m) by (eapply Hb; [left; reflexivity | exact Hd | assumption]).
  assert (sumN l' <= sumN ms) by (apply IH; [intros; eapply Hb; [right|..]; eauto | assumption]).
  lia.
Qed.

Lemma Forall2_sum_attain (c : container) (f : string -> sres mserr N) ds ms :
  Forall2 (fun d m => f d = SOk m) ds ms ->
  (forall d m, In d ds -> f d = SOk m -> sizes c d m) ->
  Forall2 (sizes c) ds ms.
Proof.
  induction 1 as [|d m ds ms Hd HF IH]; intros Hb; constructor.
  - eapply Hb; [left; reflexivity | exact Hd].
  - apply IH. intros; eapply Hb; [right|]; eauto.
Qed.

Lemma Forall2_in_l {A B} (R : A -> B -> Prop) ds ms d :
  Forall2 R ds ms -> In d ds -> exists m, R d m.
Proof.
  induction 1 as [|d0 m0 ds ms Hd HF IH]; intros Hin; [contradiction|].
  destruct Hin as [->|Hin]; eauto.
Qed.

Lemma Forall2_max_ge {A} (R : A -> N -> Prop) ds ms d m :
  Forall2 R ds ms -> In d ds -> (forall m', R d m' -> m' = m) -> m <= maxN ms.
Proof.
  induction 1 as [|d0 m0 ds ms Hd HF IH]; intros Hin Hfun; [contradiction|].
  rewrite maxN_cons. destruct Hin as [->|Hin].
  - rewrite (Hfun _ Hd). lia.
  - specialize (IH Hin Hfun). lia.
Qed.

Lemma Forall2_max_attain {A} (R : A -> N -> Prop) ds ms :
  Forall2 R ds ms -> ds <> [] -> exists d, In d ds /\ R d (maxN ms).
Proof.
  induction 1 as [|d m ds ms Hd HF IH]; intros Hne; [congruence|].
  rewrite maxN_cons. destruct ds as [|d1 ds].
  - inversion HF; subst. exists d. split; [left; reflexivity|]. cbn. rewrite N.max_0_r. exact Hd.
  - destruct IH as (x & Hx & Hr); [discriminate|].
    destruct (N.max_spec m (maxN ms)) as [[_ ->]|[_ ->]].
    + exists x. split; [right; exact Hx | exact Hr].
    + exists d. split; [left; reflexivity | exact Hd].
Qed.

(** * Soundness: an upper bound on every described value *)
Lemma max_unb_sound c : forall fuel path d M,
  max_unb fuel c path d = SOk M -> forall n, sizes c d n -> n <= M.
Proof.
  induction fuel as [|fuel IH]; intros path d M H n Hn; [discriminate|].
  cbn [max_unb] in H. destruct (on_stack d path); [discriminate|].
  apply sizes_inv in Hn.
  assert (Hsum : forall ds S, sum_with (max_unb fuel c (d :: path)) ds = SOk S ->
                 forall ns, Forall2 (sizes c) ds ns -> sumN ns <= S).
  { intros ds S HS ns Hns. apply sum_with_ok in HS as (ms & HF & ->).
    eapply Forall2_sum_le; [exact HF | intros; eapply IH; eauto | exact Hns]. }
  destruct (get_definition c d) as [[s|lw lo hi el|els|tw vs|fs]|]; [| | | | |discriminate].
  - inversion H; subst. lia.
  - destruct Hn as (ns & Hlo & Hhi & HF & ->).
    destruct (hi =? 0) eqn:Hz.
    + inversion H; subst. destruct ns; [cbn; lia | cbn [length] in Hhi; lia].
    + apply sbind_ok in H as (m & Hm & H). inversion H; subst.
      assert (Hb : sumN ns <= N.of_nat (length ns) * m).
      { apply sumN_bound. revert HF. apply Forall_impl. intros x Hx. eapply IH; eauto. }
      assert (N.of_nat (length ns) * m <= hi * m) by (apply N.mul_le_mono_r; exact Hhi).
      lia.
  - destruct Hn as (ns & HF & ->). eapply Hsum; eauto.
  - destruct Hn as (v & m & Hv & Hm & ->).
    apply sbind_ok in H as (mx & Hmx & H). inversion H; subst.
    apply max_with_ok in Hmx as (ms & HF & ->).
    assert (Hin : In (variant_decl v) (map variant_decl vs)) by (apply in_map, Hv).
    destruct (Forall2_in_l _ _ _ _ HF Hin) as (mv & Hmv).
    assert (m <= mv) by (eapply IH; eauto).
    assert (mv <= maxN ms).
    { eapply Forall2_max_ge; [exact HF | exact Hin|]. intros m' Hm'. congruence. }
    lia.
  - destruct Hn as (ns & HF & ->). eapply Hsum; eauto.
Qed.

(** * Attainment: when every reachable declaration is inhabited the bound is a size *)
Lemma max_unb_attain c : forall fuel path d M,
  max_unb fuel c path d = SOk M -> (forall d', Reach c d d' -> Inhabited c d') -> sizes c d M.
Proof.
  induction fuel as [|fuel IH]; intros path d M H Hinh; [discriminate|].
  cbn [max_unb] in H. destruct (on_stack d path); [discriminate|].
  destruct (Hinh d (Reach_refl _ _)) as [n0 Hn0]. apply sizes_inv in Hn0.
  assert (Hmem : forall m, Edge c d m -> forall d', Reach c m d' -> Inhabited c d').
  { intros m He d' Hr. apply Hinh. econstructor; eauto. }
  assert (Hsum : forall ds S def, get_definition c d = Some def -> incl ds (members def) ->
                 sum_with (max_unb fuel c (d :: path)) ds = SOk S ->
                 exists ns, Forall2 (sizes c) ds ns /\ sumN ns = S).
  { intros ds S def Hd Hincl HS. apply sum_with_ok in HS as (ms & HF & ->). exists ms. split; [|reflexivity].
    eapply Forall2_sum_attain; [exact HF|]. intros m mm Hin Hm. eapply IH; [exact Hm|].
    apply Hmem. eapply edge_intro; [exact Hd | apply Hincl, Hin]. }
  destruct (get_definition c d) as [[s|lw lo hi el|els|tw vs|fs]|] eqn:Hd; [| | | | |contradiction].
  - inversion H; subst. apply Sz_prim; assumption.
  - destruct Hn0 as (ns0 & Hlo & Hhi & _ & _).
    destruct (hi =? 0) eqn:Hz.
    + inversion H; subst M. replace lw with (lw + sumN []) by (cbn; lia).
      eapply Sz_seq with (ns := []); [exact Hd | cbn; lia | cbn; lia | constructor].
    + apply sbind_ok in H as (m & Hm & H). inversion H; subst M.
      replace (hi * m + lw) with (lw + sumN (repeat m (N.to_nat hi))) by (rewrite sumN_repeat, N2Nat.id; lia).
      eapply Sz_seq; [exact Hd | rewrite repeat_length, N2Nat.id; lia | rewrite repeat_length, N2Nat.id; lia|].
      apply Forall_forall. intros x Hx. apply repeat_spec in Hx. subst x.
      eapply IH; [exact Hm|]. apply Hmem. eapply edge_intro; [exact Hd | left; reflexivity].
  - destruct (Hsum els M _ eq_refl (incl_refl _) H) as (ns & HF & <-). eapply Sz_tuple; eauto.
  - destruct Hn0 as (v0 & m0 & Hv0 & _ & _).
    apply sbind_ok in H as (mx & Hmx & H). inversion H; subst M.
    apply max_with_ok in Hmx as (ms & HF & ->).
    destruct (Forall2_max_attain _ _ _ HF) as (x & Hx & Hfx).
    { destruct vs; [contradiction | discriminate]. }
    apply in_map_iff in Hx as (v & <- & Hv).
    replace (maxN ms + tw) with (tw + maxN ms) by lia.
    eapply Sz_enum; [exact Hd | exact Hv|].
    eapply IH; [exact Hfx|]. apply Hmem. eapply edge_intro; [exact Hd | apply in_map, Hv].
  - destruct (Hsum (field_decls fs) M _ eq_refl (incl_refl _) H) as (ns & HF & <-). eapply Sz_struct; eauto.
Qed.

(** * Errors *)
Lemma max_unb_err_cases c fuel path d e :
  max_unb (S fuel) c path d = SErr e ->
  (In d path /\ e = MRecursive) \/
  (get_definition c d = None /\ e = MMissingDefinition d) \/
  (exists m, Edge c d m /\ max_unb fuel c (d :: path) m = SErr e).
Proof.
  cbn [max_unb]. destruct (on_stack d path) eqn:Hst.
  { intros H. inversion H; subst. left. split; [apply on_stack_true, Hst | reflexivity]. }
  destruct (get_definition c d) as [[s|lw lo hi el|els|tw vs|fs]|] eqn:Hd; intros H.
  - discriminate.
  - destruct (hi =? 0); [discriminate|]. apply sbind_err in H as [H|(m & _ & H)]; [|discriminate].
    right; right. exists el. split; [eapply edge_intro; [exact Hd | left; reflexivity] | exact H].
  - apply sum_with_err in H as (x & Hx & H). right; right. exists x.
    split; [eapply edge_intro; [exact Hd | exact Hx] | exact H].
  - apply sbind_err in H as [H|(m & _ & H)]; [|discriminate].
    apply max_with_err in H as (x & Hx & H). right; right. exists x.
    split; [eapply edge_intro; [exact Hd | exact Hx] | exact H].
  - apply sum_with_err in H as (x & Hx & H). right; right. exists x.
    split; [eapply edge_intro; [exact Hd | exact Hx] | exact H].
  - inversion H; subst. right; left. split; reflexivity.
Qed.

Lemma max_unb_recursive c : forall fuel path d,
  max_unb fuel c path d = SErr MRecursive ->
  exists x, Reach c d x /\ (In x path \/ OnCycle c x).
Proof.
  induction fuel as [|fuel IH]; intros path d H; [discriminate|].
  apply max_unb_err_cases in H as [[Hin _]|[[_ He]|(m & Hedge & Hm)]].
  - exists d. split; [constructor | left; exact Hin].
  - discriminate.
  - apply IH in Hm as (x & Hr & [[<-|Hin]|Hc]).
    + exists d. split; [constructor|]. right. exists m. split; assumption.
    + exists x. split; [econstructor; eauto | left; exact Hin].
    + exists x. split; [econstructor; eauto | right; exact Hc].
Qed.

Lemma max_unb_missing c : forall fuel path d x,
  max_unb fuel c path d = SErr (MMissingDefinition x) -> Reach c d x /\ get_definition c x = None.
Proof.
  induction fuel as [|fuel IH]; intros path d x H; [discriminate|].
  apply max_unb_err_cases in H as [[_ He]|[[Hd He]|(m & Hedge & Hm)]].
  - discriminate.
  - inversion He; subst. split; [constructor | exact Hd].
  - apply IH in Hm as [Hr Hx]. split; [econstructor; eauto | exact Hx].
Qed.

Lemma max_unb_no_overflow c : forall fuel path d, max_unb fuel c path d <> SErr Overflow.
Proof.
  induction fuel as [|fuel IH]; intros path d H; [discriminate|].
  apply max_unb_err_cases in H as [[_ He]|[[_ He]|(m & _ & Hm)]]; try discriminate.
  eapply IH, Hm.
Qed.

(** * Fuel *)
Lemma max_unb_value c : forall fuel path d,
  stack_ok c path -> (length (defs c) < fuel + length path)%nat ->
  is_value (max_unb fuel c path d).
Proof.
  induction fuel as [|fuel IH]; intros path d Hok Hf.
  { pose proof (stack_ok_length _ _ Hok). lia. }
  cbn [max_unb].
  destruct (on_stack d path) eqn:Hst; [exact I|]. apply on_stack_false in Hst.
  destruct (get_definition c d) as [def|] eqn:Hd; [|exact I].
  assert (Hrec : forall m, is_value (max_unb fuel c (d :: path) m)).
  { intros m. apply IH; [eapply stack_ok_push; eauto | cbn [length]; lia]. }
  destruct def as [s|lw lo hi el|els|tw vs|fs].
  - exact I.
  - destruct (hi =? 0); [exact I|]. apply sbind_value; [apply Hrec | intros; exact I].
  - apply sum_with_value, Hrec.
  - apply sbind_value; [apply max_with_value, Hrec | intros; exact I].
  - apply sum_with_value, Hrec.
Qed.

Lemma max_unbounded_value c : is_value (max_unbounded c).
Proof.
  unfold max_unbounded. apply max_unb_value; [apply stack_ok_nil | unfold full_fuel; cbn [length]; lia].
Qed.
