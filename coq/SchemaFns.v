(** Executable transcriptions of
      borsh/src/schema/container_ext/max_size.rs  (max_serialized_size_impl, is_zero_size_impl)
      borsh/src/schema/container_ext/validate.rs  (validate_impl, check_length_width)
    statement by statement.  No proofs in this file.

    Conventions.
    - [&mut Vec<&str>] (the declaration stack) is threaded through every function as a
      [list string] whose head is the LAST pushed element: [push d] is [d :: stack],
      [pop()] is [tl stack] ([Vec::pop] on an empty vector returns [None], it does not
      panic), [iter().any(..)] is [on_stack] (order-insensitive).
    - A Rust function returning [Result<T, E>] and mutating the stack returns
      [sres E (T * list string)].  On [Err] the stack is dropped: every caller in the
      Rust code propagates an error with [?]/[return] up to the public entry point, whose
      stack is a local variable, so the stack after an error is never observed.
    - [usize] has [ub] bits; the public entry points fix [ub = 64] (x86_64).  Keeping
      [ub] a parameter makes the [usize::try_from(max_len)] failure branch of
      [max_serialized_size_impl] meaningful (it is dead code when [ub = 64]).
    - Recursion is bounded by [fuel : nat]; the entry points supply
      [S (length (defs c))].  Running out of fuel is the distinct outcome [SFuel]; it is
      proved unreachable (SchemaProofs*.v).
    - The only operations that could panic are the [u8] multiplication and the shift in
      [check_length_width] ([1 << (width * 8)], overflow checks as in a debug build);
      they are modelled with explicit checks and outcome [SPanic]. *)
From Coq Require Import String List NArith ZArith Bool.
From Borsh Require Import Schema.
Import ListNotations.
Local Open Scope N_scope.

(** * Outcomes *)
Inductive sres (E A : Type) :=
| SOk (a : A)
| SErr (e : E)
| SFuel            (* model fuel exhausted *)
| SPanic.          (* arithmetic overflow panic *)
Arguments SOk {E A} a.
Arguments SErr {E A} e.
Arguments SFuel {E A}.
Arguments SPanic {E A}.

Definition sbind {E A B} (r : sres E A) (f : A -> sres E B) : sres E B :=
  match r with
  | SOk a => f a
  | SErr e => SErr e
  | SFuel => SFuel
  | SPanic => SPanic
  end.

Notation "x <~ a ;; b" := (sbind a (fun x => b)) (at level 61, a at next level, right associativity).
Notation "' p <~ a ;; b" := (sbind a (fun x => let p := x in b))
  (at level 61, p pattern, a at next level, right associativity).

(** [SchemaMaxSerializedSizeError] *)
Inductive mserr := Overflow | MRecursive | MMissingDefinition (d : string).
(** [ZeroSizeError] *)
Inductive zserr := ZRecursive | ZMissingDefinition (d : string).
(** [SchemaContainerValidateError] *)
Inductive verr :=
| ZSTSequence (d : string)
| TagTooWide (d : string)
| TagTooNarrow (d : string)
| TagNotPowerOfTwo (d : string)
| VMissingDefinition (d : string)
| EmptyLengthRange (d : string).

(** [impl From<ZeroSizeError> for Error] *)
Definition mserr_of_zserr (e : zserr) : mserr :=
  match e with
  | ZRecursive => MRecursive
  | ZMissingDefinition d => MMissingDefinition d
  end.

Definition map_err {E F A} (f : E -> F) (r : sres E A) : sres F A :=
  match r with
  | SOk a => SOk a
  | SErr e => SErr (f e)
  | SFuel => SFuel
  | SPanic => SPanic
  end.

(** * is_zero_size_impl *)

(** The local [fn all]: [for element in iter { if !is_zero_size_impl(..)? { return Ok(false) } } Ok(true)].
    [rec] is [is_zero_size_impl] at the enclosing fuel. *)
Fixpoint all_with {E} (rec : string -> list string -> sres E (bool * list string))
         (ds : list string) (stack : list string) : sres E (bool * list string) :=
  match ds with
  | [] => SOk (true, stack)
  | d :: ds' =>
      '(b, stack) <~ rec d stack ;;
      if negb b then SOk (false, stack) else all_with rec ds' stack
  end.

Fixpoint is_zero_size_impl (fuel : nat) (c : container) (d : string) (stack : list string)
  : sres zserr (bool * list string) :=
  match fuel with
  | O => SFuel
  | S fuel =>
      if on_stack d stack then SErr ZRecursive else
      let stack := d :: stack in                                      (* stack.push(declaration) *)
      '(res, stack) <~
        match get_definition c d with
        | Some (Primitive size) => SOk (size =? 0, stack)
        | Some (Sequence lw lo hi el) =>
            if lw =? 0 then
              if (lo =? 0) && (hi =? 0) && negb (range_is_empty lo hi) then SOk (true, stack)
              else is_zero_size_impl fuel c el stack
            else SOk (false, stack)
        | Some (Tuple els) => all_with (is_zero_size_impl fuel c) els stack
        | Some (Enum tw vs) =>
            if tw =? 0 then all_with (is_zero_size_impl fuel c) (map variant_decl vs) stack
            else SOk (false, stack)
        | Some (Struct (NamedFields fs)) => all_with (is_zero_size_impl fuel c) (map snd fs) stack
        | Some (Struct (UnnamedFields fs)) => all_with (is_zero_size_impl fuel c) fs stack
        | Some (Struct EmptyFields) => SOk (true, stack)
        | None => SErr (ZMissingDefinition d)                         (* return Err(..) *)
        end ;;
      SOk (res, tl stack)                                             (* stack.pop(); Ok(res) *)
  end.

Definition full_fuel (c : container) : nat := S (length (defs c)).

(** [pub(super) fn is_zero_size]: a fresh stack. *)
Definition is_zero_size (c : container) (d : string) : sres zserr bool :=
  '(b, _) <~ is_zero_size_impl (full_fuel c) c d [] ;; SOk b.

(** * max_serialized_size_impl *)

(** [fn add] / [fn mul]: [checked_add]/[checked_mul] on [usize], [None] mapped to [Overflow]. *)
Definition usize_add (ub x y : N) : sres mserr N :=
  let r := x + y in if r <? 2 ^ ub then SOk r else SErr Overflow.
Definition usize_mul (ub x y : N) : sres mserr N :=
  let r := x * y in if r <? 2 ^ ub then SOk r else SErr Overflow.

(** The body of [fn tuple]: [for el in elements { sum = add(sum, impl(ONE, el, ..)?)?; }]. *)
Fixpoint tuple_loop (ub : N) (rec : string -> list string -> sres mserr (N * list string))
         (els : list string) (sum : N) (stack : list string) : sres mserr (N * list string) :=
  match els with
  | [] => SOk (sum, stack)
  | el :: els' =>
      '(sz, stack) <~ rec el stack ;;
      sum <~ usize_add ub sum sz ;;
      tuple_loop ub rec els' sum stack
  end.

(** [fn tuple]: the loop, then [mul(count, sum)]. *)
Definition tuple_size (ub : N) (rec : string -> list string -> sres mserr (N * list string))
           (count : N) (els : list string) (stack : list string) : sres mserr (N * list string) :=
  '(sum, stack) <~ tuple_loop ub rec els 0 stack ;;
  r <~ usize_mul ub count sum ;;
  SOk (r, stack).

(** The [Enum] arm's loop: [for (_, _, variant) in variants { let sz = impl(ONE, variant, ..)?; max = max.max(sz); }]. *)
Fixpoint enum_loop (rec : string -> list string -> sres mserr (N * list string))
         (vs : list string) (mx : N) (stack : list string) : sres mserr (N * list string) :=
  match vs with
  | [] => SOk (mx, stack)
  | v :: vs' =>
      '(sz, stack) <~ rec v stack ;;
      enum_loop rec vs' (N.max mx sz) stack
  end.

(** [count] is a [NonZeroUsize]: callers pass [1] ([ONE]) or a non-zero [max_len]. *)
Fixpoint max_size_impl (ub : N) (fuel : nat) (c : container) (count : N) (d : string)
         (stack : list string) : sres mserr (N * list string) :=
  match fuel with
  | O => SFuel
  | S fuel =>
      if on_stack d stack then SErr MRecursive else
      let stack := d :: stack in                                      (* stack.push(declaration) *)
      '(res, stack) <~
        match get_definition c d with
        | Some (Primitive size) =>
            if size =? 0 then SOk (0, stack)
            else r <~ usize_mul ub size count ;; SOk (r, stack)
        | Some (Sequence lw lo hi el) =>
            let max_len := hi in
            '(sz, stack) <~
              (if max_len <? 2 ^ ub then                              (* usize::try_from(max_len) is Ok *)
                 if max_len =? 0 then SOk (0, stack)                  (* Ok(None) => 0 *)
                 else max_size_impl ub fuel c max_len el stack        (* Ok(Some(max_len)) => impl(max_len, ..)? *)
               else                                                   (* Err(_) *)
                 '(z, stack) <~ map_err mserr_of_zserr (is_zero_size_impl (full_fuel c) c el stack) ;;
                 if z then SOk (0, stack) else SErr Overflow) ;;
            s <~ usize_add ub sz lw ;;
            r <~ usize_mul ub count s ;;
            SOk (r, stack)
        | Some (Enum tw vs) =>
            '(mx, stack) <~ enum_loop (max_size_impl ub fuel c 1) (map variant_decl vs) 0 stack ;;
            s <~ usize_add ub mx tw ;;
            r <~ usize_mul ub count s ;;
            SOk (r, stack)
        | Some (Tuple els) => tuple_size ub (max_size_impl ub fuel c 1) count els stack
        | Some (Struct (NamedFields fs)) => tuple_size ub (max_size_impl ub fuel c 1) count (map snd fs) stack
        | Some (Struct (UnnamedFields fs)) => tuple_size ub (max_size_impl ub fuel c 1) count fs stack
        | Some (Struct EmptyFields) => SOk (0, stack)
        | None => SErr (MMissingDefinition d)
        end ;;                                                        (* }?; *)
      SOk (res, tl stack)                                             (* stack.pop(); Ok(res) *)
  end.

Definition max_size_at (ub : N) (c : container) : sres mserr N :=
  '(m, _) <~ max_size_impl ub (full_fuel c) c 1 (root c) [] ;; SOk m.

(** [BorshSchemaContainer::max_serialized_size] on a 64-bit target. *)
Definition USIZE_BITS : N := 64.
Definition max_size (c : container) : sres mserr N := max_size_at USIZE_BITS c.

(** * check_length_width, validate_impl *)

(** [width * 8] in [u8] and [1 << _] in [u64], with the overflow checks of a debug build. *)
Definition u8_mul (x y : N) : sres verr N :=
  let r := x * y in if r <? 256 then SOk r else SPanic.
Definition u64_shl_one (sh : N) : sres verr N :=
  if sh <? 64 then SOk (2 ^ sh) else SPanic.

Definition check_length_width (d : string) (width : N) (max : N) : sres verr unit :=
  if width =? 0 then SOk tt
  else if (width =? 3) || (width =? 5) || (width =? 6) || (width =? 7) then SErr (TagNotPowerOfTwo d)
  else if (1 <=? width) && (width <=? 7) then
    sh <~ u8_mul width 8 ;;
    bound <~ u64_shl_one sh ;;
    if max <? bound then SOk tt                     (* 1..=7 if max < 1 << (width * 8) => Ok(()) *)
    else SErr (TagTooNarrow d)                      (* 1..=7 => Err(TagTooNarrow) *)
  else if width =? 8 then SOk tt
  else SErr (TagTooWide d).

Definition U64_LEN : N := 8.

(** [for x in xs { validate_impl(x, schema, stack)?; }] *)
Fixpoint for_each {E} (rec : string -> list string -> sres E (unit * list string))
         (ds : list string) (stack : list string) : sres E (unit * list string) :=
  match ds with
  | [] => SOk (tt, stack)
  | d :: ds' => '(_, stack) <~ rec d stack ;; for_each rec ds' stack
  end.

Fixpoint validate_impl (fuel : nat) (c : container) (d : string) (stack : list string)
  : sres verr (unit * list string) :=
  match fuel with
  | O => SFuel
  | S fuel =>
      match get_definition c d with
      | None => SErr (VMissingDefinition d)
      | Some def =>
          if on_stack d stack then SOk (tt, stack) else
          let stack := d :: stack in
          '(_, stack) <~
            match def with
            | Primitive _ => SOk (tt, stack)
            | Sequence lw lo hi el =>
                if (lw =? 0) && (lo =? hi) && negb (range_is_empty lo hi) then
                  validate_impl fuel c el stack                         (* arrays branch *)
                else
                  if range_is_empty lo hi then SErr (EmptyLengthRange d) else
                  _ <~ check_length_width d lw hi ;;
                  _ <~ match is_zero_size c el with                     (* fresh stack *)
                       | SOk true => SErr (ZSTSequence d)
                       | SOk false => SOk tt
                       | SErr ZRecursive => SOk tt
                       | SErr (ZMissingDefinition d') => SErr (VMissingDefinition d')
                       | SFuel => SFuel
                       | SPanic => SPanic
                       end ;;
                  validate_impl fuel c el stack
            | Enum tw vs =>
                if U64_LEN <? tw then SErr (TagTooWide d)
                else for_each (validate_impl fuel c) (map variant_decl vs) stack
            | Tuple els => for_each (validate_impl fuel c) els stack
            | Struct (NamedFields fs) => for_each (validate_impl fuel c) (map snd fs) stack
            | Struct (UnnamedFields fs) => for_each (validate_impl fuel c) fs stack
            | Struct EmptyFields => SOk (tt, stack)
            end ;;
          SOk (tt, tl stack)                                            (* stack.pop(); Ok(()) *)
      end
  end.

(** [BorshSchemaContainer::validate] *)
Definition validate (c : container) : sres verr unit :=
  '(_, _) <~ validate_impl (full_fuel c) c (root c) [] ;; SOk tt.
