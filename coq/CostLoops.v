(** Trace invariants for the loops of the cost monad: an invariant relates the trace
    emitted so far with the loop state; a failing (or finishing) step must establish
    the post-condition on the whole trace. *)
From Coq Require Import List NArith Bool Lia.
From Borsh Require Import Bytes Result Loop Cost CostFacts.
Import ListNotations.
Local Open Scope N_scope.

Lemma citerN_inv {S} (f : S -> M S) (Inv : N -> trace -> S -> Prop) (Q : trace -> Prop) n :
  forall base tr0 s,
  (forall i tr s, base <= i -> i < base + n -> Inv i tr s ->
     match snd (f s) with
     | Ok s' => Inv (i + 1) (tr ++ fst (f s)) s'
     | _ => Q (tr ++ fst (f s))
     end) ->
  Inv base tr0 s ->
  match snd (citerN n f s) with
  | Ok s' => Inv (base + n) (tr0 ++ fst (citerN n f s)) s'
  | _ => Q (tr0 ++ fst (citerN n f s))
  end.
Proof.
  induction n as [|n IH] using N.peano_ind; intros base tr0 s Hstep H0.
  - cbn [citerN mret fst snd]. now rewrite app_nil_r, N.add_0_r.
  - rewrite citerN_succ.
    specialize (Hstep base tr0 s) as H1. specialize (H1 ltac:(lia) ltac:(lia) H0).
    destruct (f s) as [tr1 [s1|k e|w]] eqn:Ef; cbn [fst snd] in H1.
    + rewrite (mbind_ok _ _ s1) by reflexivity. cbn [fst snd].
      specialize (IH (base + 1) (tr0 ++ tr1) s1).
      replace (base + N.succ n) with (base + 1 + n) by lia.
      rewrite app_assoc. apply IH; [|exact H1].
      intros i tr s2 Hi1 Hi2 HI. apply Hstep; [lia|lia|exact HI].
    + rewrite (mbind_err _ _ k e) by reflexivity. exact H1.
    + rewrite (mbind_panic _ _ w) by reflexivity. exact H1.
Qed.

(** [cloopP]: continuing states keep the invariant; anything else establishes [Q]. *)
Definition is_cont {S A} (r : result (S + A)) : option S :=
  match r with Ok (inl s) => Some s | _ => None end.

Lemma cloopP_inv {S A} (f : S -> M (S + A)) (Inv : trace -> S -> Prop) (Q : trace -> Prop) :
  (forall tr s, Inv tr s ->
     match is_cont (snd (f s)) with
     | Some s' => Inv (tr ++ fst (f s)) s'
     | None => Q (tr ++ fst (f s))
     end) ->
  forall p tr0 s, Inv tr0 s ->
     match is_cont (snd (cloopP p f s)) with
     | Some s' => Inv (tr0 ++ fst (cloopP p f s)) s'
     | None => Q (tr0 ++ fst (cloopP p f s))
     end.
Proof.
  intros Hstep.
  assert (Hseq : forall (m : M (S + A)) tr0 (k : S -> M (S + A)),
             match is_cont (snd m) with Some s' => Inv (tr0 ++ fst m) s' | None => Q (tr0 ++ fst m) end ->
             (forall tr s, Inv tr s -> match is_cont (snd (k s)) with Some s' => Inv (tr ++ fst (k s)) s' | None => Q (tr ++ fst (k s)) end) ->
             let m' := mbind m (fun r => match r with inl s' => k s' | inr a => mret (inr a) end) in
             match is_cont (snd m') with Some s' => Inv (tr0 ++ fst m') s' | None => Q (tr0 ++ fst m') end).
  { intros [tr1 [[s1|a]|ke e|w]] tr0 k H1 Hk; cbn [fst snd is_cont] in H1; cbv zeta.
    - rewrite (mbind_ok _ _ (inl s1)) by reflexivity. cbn [fst snd]. rewrite app_assoc. now apply Hk.
    - rewrite (mbind_ok _ _ (inr a)) by reflexivity. cbn [fst snd mret is_cont]. now rewrite app_nil_r.
    - rewrite (mbind_err _ _ ke e) by reflexivity. exact H1.
    - rewrite (mbind_panic _ _ w) by reflexivity. exact H1. }
  induction p as [p IH|p IH|]; intros tr0 s HI; cbn [cloopP].
  - apply (Hseq (f s) tr0 (fun s0 => mbind (cloopP p f s0) (fun r => match r with inl s' => cloopP p f s' | inr a => mret (inr a) end))).
    + now apply Hstep.
    + intros tr s0 HI0. apply (Hseq (cloopP p f s0) tr (cloopP p f)); [now apply IH|].
      intros tr' s1 HI1. now apply IH.
  - apply (Hseq (cloopP p f s) tr0 (cloopP p f)); [now apply IH|].
    intros tr' s1 HI1. now apply IH.
  - now apply Hstep.
Qed.

Lemma cloop_fuel_inv {S A} (f : S -> M (S + A)) (Inv : trace -> S -> Prop) (Q : trace -> Prop) fuel tr0 s :
  (forall tr s, Inv tr s ->
     match is_cont (snd (f s)) with
     | Some s' => Inv (tr ++ fst (f s)) s'
     | None => Q (tr ++ fst (f s))
     end) ->
  (forall tr s, Inv tr s -> Q tr) ->
  Inv tr0 s -> Q (tr0 ++ fst (cloop_fuel fuel f s)).
Proof.
  intros Hstep HQ HI. unfold cloop_fuel.
  pose proof (cloopP_inv f Inv Q Hstep (N.succ_pos fuel) tr0 s HI) as H.
  destruct (cloopP (N.succ_pos fuel) f s) as [tr1 [[s1|a]|k e|w]]; cbn [fst snd is_cont] in H.
  - rewrite (mbind_ok _ _ (inl s1)) by reflexivity. cbn [fst snd mlift]. rewrite app_nil_r. eapply HQ; eauto.
  - rewrite (mbind_ok _ _ (inr a)) by reflexivity. cbn [fst snd mret]. now rewrite app_nil_r.
  - rewrite (mbind_err _ _ k e) by reflexivity. exact H.
  - rewrite (mbind_panic _ _ w) by reflexivity. exact H.
Qed.

(** * Measures of traces *)
Lemma sum_of_fold w tr a : fold_left (fun a e => a + w e) tr a = a + sum_of w tr.
Proof.
  unfold sum_of. revert a. induction tr as [|e tr IH]; intros a; cbn [fold_left]; [lia|].
  rewrite IH, (IH (0 + w e)). lia.
Qed.
Lemma sum_of_nil w : sum_of w [] = 0.
Proof. reflexivity. Qed.
Lemma sum_of_cons w e tr : sum_of w (e :: tr) = w e + sum_of w tr.
Proof. unfold sum_of at 1. cbn [fold_left]. rewrite sum_of_fold. lia. Qed.
Lemma sum_of_app w a b : sum_of w (a ++ b) = sum_of w a + sum_of w b.
Proof. induction a as [|e a IH]; cbn [app]; [reflexivity|]. rewrite !sum_of_cons, IH. lia. Qed.

Lemma max_of_fold w tr a : fold_left (fun a e => N.max a (w e)) tr a = N.max a (max_of w tr).
Proof.
  unfold max_of. revert a. induction tr as [|e tr IH]; intros a; cbn [fold_left]; [lia|].
  rewrite IH, (IH (N.max 0 (w e))). lia.
Qed.
Lemma max_of_cons w e tr : max_of w (e :: tr) = N.max (w e) (max_of w tr).
Proof. unfold max_of at 1. cbn [fold_left]. rewrite max_of_fold. lia. Qed.
Lemma max_of_app w a b : max_of w (a ++ b) = N.max (max_of w a) (max_of w b).
Proof. induction a as [|e a IH]; cbn [app]; [unfold max_of at 2; cbn [fold_left]; lia|]. rewrite !max_of_cons, IH. lia. Qed.
Lemma max_of_le w tr B : Forall (fun e => w e <= B) tr <-> max_of w tr <= B.
Proof.
  induction tr as [|e tr IH]; [split; [intros _; cbn; lia|constructor]|].
  rewrite max_of_cons. split.
  - intros H. inversion H; subst. apply IH in H3. lia.
  - intros H. constructor; [lia|]. apply IH. lia.
Qed.
